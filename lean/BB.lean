import BB.Spec
import BB.Model.Instrs
import BB.Model.Tape
import BB.Model.Machine
import BB.Oracle
import BB.Driver.Main
