/-
Validator for whole accelerated runs (C02).  Import-free (core Lean + model files only).

The real `run_prover` reports, through the guarded `on_rule` hook, every rule application of its
main loop: `(cycle, state, tape before, tape after)`.  `replay` re-runs the machine with the PLAIN
run-length simulator (`plainStep`, the loop body of `run_quick_machine`, verified in C01), one loop
iteration ("cycle") at a time exactly as `run_prover` counts them, and at each cycle for which an
application was reported it
  * requires the reported `(state, before)` to be the configuration the replay is in,
  * validates the application with an application validator `va` (C03: a run of real machine
    steps), and
  * jumps to the reported tape `after`.
Nothing the prover *inferred* is trusted: a rule only ever enters through the validator.  The
outcome of the replay is therefore an outcome of the real machine (theorems in BB/Props/C02.lean),
with the TRUE number of base steps (those of the applications included).

Two validators: `vaCheck` (`checkApp`: plain simulation from `before` to `after`, cost grows with
the number of times the rule was applied; `replay`) and `vaSym` (`checkApp` first and, when that runs
over budget, the symbolic validator `Sym.validateApp` of BB/Model/SymRule.lean, whose cost does not
depend on `times`; `replaySym`).
-/
import BB.Model.Validate
import BB.Model.SymRule

namespace BB

/-- a rule application as reported by the hook -/
structure AppRec where
  cycle : Nat
  state : Nat
  before : Tape
  after : Tape
  /-- how many times the rule was applied (used by the symbolic validator only) -/
  times : Nat
deriving Repr, DecidableEq, Inhabited

/-- how a replay ends -/
inductive ReplayEnd where
  /-- an undefined instruction is reached at `slot`; `marks` non-blank cells, `steps` base steps -/
  | undfnd (cycle : Nat) (slot : Slot) (marks steps : Nat)
  /-- a spin-out configuration is reached -/
  | spnout (cycle : Nat) (marks steps : Nat)
  /-- the step of cycle `cycle` left the tape blank in `state`, in which it was blank before (or
      which is the start state) -/
  | blankRec (cycle : Nat) (state : Nat) (steps : Nat)
  /-- the requested number of cycles was replayed; the machine is in `(state, tape)` -/
  | limit (state : Nat) (tape : Tape) (steps : Nat)
  /-- the application reported for `cycle` failed validation -/
  | badApp (cycle : Nat) (why : AppRes)
  /-- the application reported for `cycle` does not start from the replayed configuration, or
      applications are reported out of order -/
  | appMismatch (cycle : Nat)
deriving Repr, DecidableEq, Inhabited

/-- blank test on the blocks (no canonicity needed, and no unrolling: block counts of the replayed
    tapes reach hundreds of millions): every block is blank-coloured or empty -/
def Span.blankB (s : Span) : Bool := s.all fun b => b.color == 0 || b.count == 0

def Tape.cellsBlank (t : Tape) : Bool :=
  t.scan == 0 && Span.blankB t.lspan && Span.blankB t.rspan

/-- `replayGo p va why fuel cycle q t steps blanks apps`: replay `fuel` more cycles from cycle
    number `cycle`, in state `q` on tape `t`, `steps` base steps done so far, `blanks` the record
    (state, steps) of the first time the tape was blank after a step in each state (newest first),
    `apps` the reported applications still to come (in cycle order).  `va q t a` validates the
    reported application `a` from the replayed configuration `(q, t)`: `some s` = validated, `s`
    base steps; `none` = refused, and then `why q t a` is the diagnostic put in `badApp` (it plays
    no role in any theorem).  Returns how the replay ends and the final blank record. -/
def replayGo (p : Prog) (va : Nat → Tape → AppRec → Option Nat)
    (why : Nat → Tape → AppRec → AppRes) :
    Nat → Nat → Nat → Tape → Nat → List (Nat × Nat) → List AppRec → ReplayEnd × List (Nat × Nat)
  | 0, _, q, t, steps, blanks, _ => (.limit q t steps, blanks)
  | fuel + 1, cycle, q, t, steps, blanks, apps =>
    let plain (apps : List AppRec) : ReplayEnd × List (Nat × Nat) :=
      match plainStep p q t with
      | .undefined slot => (.undfnd cycle slot t.marks steps, blanks)
      | .spinout => (.spnout cycle t.marks steps, blanks)
      | .next q' t' k =>
        if t'.cellsBlank then
          if blanks.any (fun e => e.1 == q') then (.blankRec cycle q' (steps + k), blanks)
          else if q' == 0 then (.blankRec cycle q' (steps + k), (q', steps + k) :: blanks)
          else replayGo p va why fuel (cycle + 1) q' t' (steps + k) ((q', steps + k) :: blanks) apps
        else replayGo p va why fuel (cycle + 1) q' t' (steps + k) blanks apps
    match apps with
    | [] => plain []
    | a :: rest =>
      if a.cycle < cycle then (.appMismatch cycle, blanks)
      else if a.cycle == cycle then
        if a.state != q || a.before != t then (.appMismatch cycle, blanks)
        else match va q t a with
          | some s => replayGo p va why fuel (cycle + 1) q a.after (steps + s) blanks rest
          | none => (.badApp cycle (why q t a), blanks)
      else plain (a :: rest)

/-- the validator of `replay`: plain simulation from `t` to `a.after` by `checkApp` -/
def vaCheck (p : Prog) (budget : Nat) (q : Nat) (t : Tape) (a : AppRec) : Option Nat :=
  match checkApp p q t a.after budget with
  | .ok _ s => some s
  | _ => none

/-- the diagnostic of a refused application: the answer of `checkApp` -/
def whyCheck (p : Prog) (budget : Nat) (q : Nat) (t : Tape) (a : AppRec) : AppRes :=
  checkApp p q t a.after budget

/-- the validator of `replaySym`: `checkApp`, and when that runs over budget the symbolic
    validator with the reported `times` -/
def vaSym (p : Prog) (budget : Nat) (q : Nat) (t : Tape) (a : AppRec) : Option Nat :=
  match checkApp p q t a.after budget with
  | .ok _ s => some s
  | .overBudget => Sym.validateApp p q t a.after a.times budget
  | _ => none

/-- replay `lim` cycles from the blank tape, applications validated by `checkApp` -/
def replay (p : Prog) (budget lim : Nat) (apps : List AppRec) : ReplayEnd × List (Nat × Nat) :=
  replayGo p (vaCheck p budget) (whyCheck p budget) lim 0 0 Tape.init 0 [] apps

/-- replay `lim` cycles from the blank tape, applications validated by `checkApp` or, when they
    are too big for the budget, symbolically (a refused application reports `checkApp`'s answer) -/
def replaySym (p : Prog) (budget lim : Nat) (apps : List AppRec) : ReplayEnd × List (Nat × Nat) :=
  replayGo p (vaSym p budget) (whyCheck p budget) lim 0 0 Tape.init 0 [] apps

end BB
