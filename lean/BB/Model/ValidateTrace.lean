/-
Validator for whole accelerated runs (C02).  Import-free (core Lean + model files only).

The real `run_prover` reports, through the guarded `on_rule` hook, every rule application of its
main loop: `(cycle, state, tape before, tape after)`.  `replay` re-runs the machine with the PLAIN
run-length simulator (`plainStep`, the loop body of `run_quick_machine`, verified in C01), one loop
iteration ("cycle") at a time exactly as `run_prover` counts them, and at each cycle for which an
application was reported it
  * requires the reported `(state, before)` to be the configuration the replay is in,
  * validates the application with `checkApp` (C03: a run of real machine steps), and
  * jumps to the reported tape `after`.
Nothing the prover *inferred* is trusted: a rule only ever enters through `checkApp`.  The outcome
of the replay is therefore an outcome of the real machine (theorems in BB/Props/C02.lean), with the
TRUE number of base steps (those of the applications included).
-/
import BB.Model.Validate

namespace BB

/-- a rule application as reported by the hook -/
structure AppRec where
  cycle : Nat
  state : Nat
  before : Tape
  after : Tape
deriving Repr, DecidableEq, Inhabited

/-- how a replay ends -/
inductive ReplayEnd where
  /-- an undefined instruction is reached at `slot`; `marks` non-blank cells, `steps` base steps -/
  | undfnd (cycle : Nat) (slot : Slot) (marks steps : Nat)
  /-- a spin-out configuration is reached -/
  | spnout (cycle : Nat) (marks steps : Nat)
  /-- the step of cycle `cycle` left the tape blank in `state`, in which it was blank before (or
      which is the start state) -/
  | blankRec (cycle : Nat) (state : Nat) (steps : Nat)
  /-- the requested number of cycles was replayed; the machine is in `(state, tape)` -/
  | limit (state : Nat) (tape : Tape) (steps : Nat)
  /-- the application reported for `cycle` failed validation -/
  | badApp (cycle : Nat) (why : AppRes)
  /-- the application reported for `cycle` does not start from the replayed configuration, or
      applications are reported out of order -/
  | appMismatch (cycle : Nat)
deriving Repr, DecidableEq, Inhabited

/-- cell-level blank test (no canonicity needed) -/
def Tape.cellsBlank (t : Tape) : Bool :=
  t.scan == 0 && allZeroB (Span.unroll t.lspan) && allZeroB (Span.unroll t.rspan)

/-- `replayGo p budget fuel cycle q t steps blanks apps`: replay `fuel` more cycles from cycle
    number `cycle`, in state `q` on tape `t`, `steps` base steps done so far, `blanks` the record
    (state, steps) of the first time the tape was blank after a step in each state (newest first),
    `apps` the reported applications still to come (in cycle order).  Returns how the replay ends
    and the final blank record. -/
def replayGo (p : Prog) (budget : Nat) :
    Nat → Nat → Nat → Tape → Nat → List (Nat × Nat) → List AppRec → ReplayEnd × List (Nat × Nat)
  | 0, _, q, t, steps, blanks, _ => (.limit q t steps, blanks)
  | fuel + 1, cycle, q, t, steps, blanks, apps =>
    let plain (apps : List AppRec) : ReplayEnd × List (Nat × Nat) :=
      match plainStep p q t with
      | .undefined slot => (.undfnd cycle slot t.marks steps, blanks)
      | .spinout => (.spnout cycle t.marks steps, blanks)
      | .next q' t' k =>
        if t'.cellsBlank then
          if blanks.any (fun e => e.1 == q') then (.blankRec cycle q' (steps + k), blanks)
          else if q' == 0 then (.blankRec cycle q' (steps + k), (q', steps + k) :: blanks)
          else replayGo p budget fuel (cycle + 1) q' t' (steps + k) ((q', steps + k) :: blanks) apps
        else replayGo p budget fuel (cycle + 1) q' t' (steps + k) blanks apps
    match apps with
    | [] => plain []
    | a :: rest =>
      if a.cycle < cycle then (.appMismatch cycle, blanks)
      else if a.cycle == cycle then
        if a.state != q || a.before != t then (.appMismatch cycle, blanks)
        else match checkApp p q t a.after budget with
          | .ok _ s => replayGo p budget fuel (cycle + 1) q a.after (steps + s) blanks rest
          | r => (.badApp cycle r, blanks)
      else plain (a :: rest)

/-- replay `lim` cycles from the blank tape -/
def replay (p : Prog) (budget lim : Nat) (apps : List AppRec) : ReplayEnd × List (Nat × Nat) :=
  replayGo p budget lim 0 0 Tape.init 0 [] apps

end BB
