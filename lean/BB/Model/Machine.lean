/-
L1 model of src/machine.rs: run_quick_machine and quick_term_or_rec.
(run_prover lives in Prover.lean.)  Import-free.
-/
import BB.Model.Instrs
import BB.Model.Tape

namespace BB

inductive TermRes where
  | xlimit | cfglim | infrul | spnout | undfnd | mulrul
  | overflow   -- not a Rust value: the overflow-checked build panicked on u64 arithmetic
deriving Repr, DecidableEq, Inhabited

def TermRes.show : TermRes → String
  | .xlimit => "xlimit" | .cfglim => "cfglim" | .infrul => "infrul"
  | .spnout => "spnout" | .undfnd => "undfnd" | .mulrul => "mulrul"
  | .overflow => "limit:overflow"

/-- `Blanks = BTreeMap<State, Step>` as a sorted association list. -/
abbrev Blanks := List (Nat × Nat)

def Blanks.contains (b : Blanks) (q : Nat) : Bool := b.any (·.1 == q)

def Blanks.insert (b : Blanks) (q n : Nat) : Blanks :=
  match b with
  | [] => [(q, n)]
  | (k, v) :: rest =>
    if k == q then (q, n) :: rest
    else if q < k then (q, n) :: (k, v) :: rest
    else (k, v) :: Blanks.insert rest q n

structure MachineResult where
  result   : TermRes
  steps    : Nat
  cycles   : Nat
  marks    : Nat
  rulapp   : Nat
  blanks   : Blanks
  lastSlot : Option Slot
deriving Repr, DecidableEq, Inhabited

def u64Max : Nat := 2 ^ 64

/-- loop state of `run_quick_machine` -/
structure QState where
  tape   : Tape
  state  : Nat
  steps  : Nat
  blanks : Blanks
deriving Repr, DecidableEq, Inhabited

def QState.init : QState := ⟨Tape.init, 0, 0, []⟩

inductive QStep where
  | done (res : TermRes) (lastSlot : Option Slot) (setCycles : Bool) (s : QState)
  | cont (s : QState)

/-- one iteration of the loop body of `run_quick_machine` -/
def quickIter (p : Prog) (s : QState) : QStep :=
  match p.get (s.state, s.tape.scan) with
  | none => .done .undfnd (some (s.state, s.tape.scan)) true s
  | some (color, shift, next) =>
    let same := s.state == next
    if same && s.tape.atEdge shift then .done .spnout none true s
    else
      let (tape', stepped) := s.tape.step shift color same
      let steps' := s.steps + stepped
      if steps' ≥ u64Max then .done .overflow none false { s with tape := tape', steps := steps' }
      else
        let s1 : QState := { tape := tape', state := next, steps := steps', blanks := s.blanks }
        if color == 0 && tape'.blank then
          if s.blanks.contains next then .done .infrul none false s1
          else
            let s2 := { s1 with blanks := s.blanks.insert next steps' }
            if next == 0 then .done .infrul none false s2 else .cont s2
        else .cont s1

def mkResult (res : TermRes) (ls : Option Slot) (cycles : Nat) (s : QState) : MachineResult :=
  { result := res, steps := s.steps, cycles := cycles, marks := s.tape.marks, rulapp := 0,
    blanks := s.blanks, lastSlot := ls }

/-- `for cycle in 0..sim_lim`: `fuel` = cycles left, `cycle` = current index. -/
def quickLoop (p : Prog) (fuel cycle : Nat) (s : QState) : MachineResult :=
  match fuel with
  | 0 => mkResult .xlimit none 0 s
  | fuel + 1 =>
    match quickIter p s with
    | .done res ls setC s' => mkResult res ls (if setC then cycle else 0) s'
    | .cont s' => quickLoop p fuel (cycle + 1) s'

/-- `run_quick_machine` on a parsed program. -/
def runQuick (p : Prog) (simLim : Nat) : MachineResult := quickLoop p simLim 0 QState.init

/-- the tape and state after `n` loop iterations (for the per-cycle correspondence);
    `none` once the loop has terminated. -/
def quickTrace (p : Prog) (n : Nat) (s : QState) : List QState :=
  match n with
  | 0 => [s]
  | n + 1 =>
    match quickIter p s with
    | .done _ _ _ _ => [s]
    | .cont s' => s :: quickTrace p n s'

/-! ### quick_term_or_rec -/

inductive RecRes where
  | limit | recur | spinout | undefined (slot : Slot)
deriving Repr, DecidableEq, Inhabited

def RecRes.show : RecRes → String
  | .limit => "limit" | .recur => "recur" | .spinout => "spinout"
  | .undefined s => s!"undefined({s.1},{s.2})"

structure RState where
  state     : Nat
  tape      : HeadTape
  refState  : Nat
  refTape   : HeadTape
  leftmost  : Int
  rightmost : Int
  reset     : Nat
deriving Repr, DecidableEq, Inhabited

def RState.init : RState :=
  ⟨1, HeadTape.initStepped, 1, HeadTape.initStepped, 1, 1, 1⟩

/-- body of the loop for `cycle`; `Sum.inl` = return value, `Sum.inr` = continue -/
def recIter (p : Prog) (cycle : Nat) (s : RState) : Sum RecRes RState :=
  match p.get (s.state, s.tape.tape.scan) with
  | none => .inl (.undefined (s.state, s.tape.tape.scan))
  | some (color, shift, next) =>
    let same := s.state == next
    if same && s.tape.tape.atEdge shift then .inl .spinout
    else
      let s1 : RState :=
        if s.reset == 0 then
          { s with refState := s.state, refTape := s.tape, leftmost := s.tape.head,
                   rightmost := s.tape.head, reset := cycle }
        else s
      let s2 := { s1 with reset := s1.reset - 1 }
      let (tape', _) := s.tape.step shift color same
      let curr := tape'.head
      let (lm, rm) :=
        if curr < s2.leftmost then (curr, s2.rightmost)
        else if s2.rightmost < curr then (s2.leftmost, curr)
        else (s2.leftmost, s2.rightmost)
      if next == s2.refState && tape'.alignsWith s2.refTape lm rm then .inl .recur
      else .inr { s2 with state := next, tape := tape', leftmost := lm, rightmost := rm }

def recLoop (p : Prog) (fuel cycle : Nat) (s : RState) : RecRes :=
  match fuel with
  | 0 => .limit
  | fuel + 1 =>
    match recIter p cycle s with
    | .inl r => r
    | .inr s' => recLoop p fuel (cycle + 1) s'

/-- `quick_term_or_rec(comp, sim_lim)`: `for cycle in 1..sim_lim`. -/
def quickTermOrRec (p : Prog) (simLim : Nat) : RecRes := recLoop p (simLim - 1) 1 RState.init

end BB
