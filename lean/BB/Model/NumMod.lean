/-
Model of `Exp.__mod__` of tm/num.py for an INTEGER exponent (C18): `(base ** exp) % mod` computed
without evaluating the power - special cases, reduction of the exponent by the multiplicative
order (`find_period`), square-and-multiply.  Import-free.

Branch for branch after the Python (tm/num.py `Exp.__mod__`, `find_period`):

    if mod == 1: return 0
    if mod == base: return 0
    if mod == 2: return base % 2
    assert base % mod != 0 ; assert 1 < exp
    match base: ... literal special cases ...          (also extracted and proved one by one by
                                                        tools/extract_num.py, BB/Generated/NumTables)
        case 3: if mod is a power of two 2^n: exp %= 2 ** max(n - 2, 1)
    if (period := find_period(base, mod)) > 0: exp %= period
    if exp == 0: return 1
    res = 1
    loop: if exp <= 0 or res <= 0: break
          if exp % 2 == 1: res = (res * base) % mod
          exp //= 2 ; base = (base ** 2) % mod
    return res

`none` = the Python raises (failed `assert`, `PeriodLimit`, division by zero for `mod = 0`).
Python floats: `int(log2(mod)) == log2(mod)` is "mod is a power of two" and
`mod == 2 * 3 ** round(log(mod / 2, 3))` is "mod is twice a power of three" for every mod below
2^53 (the harness never goes near); the model uses the exact integer tests.
-/

namespace BB.NumMod

/-- `some n` when `m = 2^n` (fuel-bounded halving) -/
def log2Exact : Nat → Nat → Option Nat
  | 0, _ => none
  | fuel + 1, m =>
    if m == 1 then some 0
    else if m == 0 || m % 2 == 1 then none
    else (log2Exact fuel (m / 2)).map (· + 1)

def isPow3 : Nat → Nat → Bool
  | 0, _ => false
  | fuel + 1, m =>
    if m == 1 then true
    else if m == 0 || m % 3 != 0 then false
    else isPow3 fuel (m / 3)

/-- `mod == 2 * 3 ** round(log(mod / 2, 3))` -/
def isTwoPow3 (m : Nat) : Bool := m % 2 == 0 && isPow3 (m + 1) (m / 2)

/-- the `for period in range(1, mod)` loop of `find_period`: `left` iterations to go, the next
    candidate is `period`, `val = base^(period-1) % mod` -/
def findPeriodGo (base mod : Nat) : Nat → Nat → Nat → Nat
  | 0, _, _ => 0
  | left + 1, period, val =>
    let val' := val * base % mod
    if val' == 1 then period else findPeriodGo base mod left (period + 1) val'

/-- `find_period`: the multiplicative order of `base` modulo `mod`, 0 when there is none (or in
    the skipped case base 2, mod = 2 * 3^k); `none` = `PeriodLimit` -/
def findPeriod (base mod : Nat) : Option Nat :=
  if base == 2 && isTwoPow3 mod then some 0
  else if mod ≥ 2 ^ 24 then none
  else some (findPeriodGo base mod (mod - 1) 1 1)

/-- the square-and-multiply loop (fuel = number of halvings needed + 1) -/
def sqMul (mod : Nat) : Nat → Nat → Nat → Nat → Nat
  | 0, _, _, res => res
  | fuel + 1, base, exp, res =>
    if exp == 0 || res == 0 then res
    else
      let res' := if exp % 2 == 1 then res * base % mod else res
      sqMul mod fuel (base * base % mod) (exp / 2) res'

/-- literal special cases of the `match base:` block: `some r` = `return r` -/
def special (base mod exp : Nat) : Option Nat :=
  if base == 2 then
    if mod == 4 then some 0
    else if mod == 6 then some (if exp % 2 == 0 then 4 else 2)
    else if mod == 12 then some (if exp % 2 == 0 then 4 else 8)
    else if mod == 30 then
      some (match exp % 4 with | 3 => 8 | 0 => 16 | 1 => 2 | _ => 4)
    else none
  else if base == 3 then (if mod == 6 then some 3 else none)
  else if base == 6 then (if mod == 10 then some 6 else none)
  else if base == 7 then (if mod == 12 then some (if exp % 2 == 0 then 1 else 7) else none)
  else none

/-- the exponent after the `case 3:` reduction -/
def reduce3 (base mod exp : Nat) : Nat :=
  if base == 3 then
    match log2Exact (mod + 1) mod with
    | some n => exp % 2 ^ (max (n - 2) 1)
    | none => exp
  else exp

/-- `Exp(base, exp).__mod__(mod)` for an integer exponent -/
def expModInt (base exp mod : Nat) : Option Nat :=
  if mod == 1 then some 0
  else if mod == base then some 0
  else if mod == 2 then some (base % 2)
  else if mod == 0 then none                    -- `base % mod` raises ZeroDivisionError
  else if base % mod == 0 then none             -- assert base % mod != 0
  else if exp ≤ 1 then none                     -- assert 1 < exp
  else
    match special base mod exp with
    | some r => some r
    | none =>
      let exp := reduce3 base mod exp
      match findPeriod base mod with
      | none => none
      | some period =>
        let exp := if period > 0 then exp % period else exp
        if exp == 0 then some 1
        else some (sqMul mod (exp + 1) base exp 1)

end BB.NumMod
