/-
L1 model of src/blocks.rs: `opt_block` (the block size handed to `make_block_macro` by the callers
of the macro pipeline).  Import-free.

  measure_blocks  -> `measureBlocks`   (run `steps` cycles, remember the cycle number at which the
                                        number of blocks was largest, `none` on an undefined
                                        instruction or a spin-out)
  unroll_tape     -> `unrollTape`      (run that many cycles again, unroll the tape)
  compr_eff       -> `comprEff`        (length minus k for every aligned pair of equal k-cell chunks)
  opt_block       -> `optBlock`        (first block size in 1 .. len/2 - 1 with the smallest comprEff)
-/
import BB.Model.Instrs
import BB.Model.Tape

namespace BB.Blocks

open BB

/-- loop state of `measure_blocks` (struct BlockMeasure + the machine state) -/
structure Meas where
  tape      : Tape
  state     : Nat
  steps     : Nat
  maxBlocks : Nat
  maxStep   : Nat
deriving Repr, DecidableEq, Inhabited

def Meas.init : Meas := ⟨Tape.init, 0, 0, 0, 0⟩

/-- one iteration of the loop of `measure_blocks`; `none` = the early `return None` -/
def measIter (p : Prog) (m : Meas) : Option Meas :=
  match p.get (m.state, m.tape.scan) with
  | none => none
  | some (color, shift, next) =>
    let same := m.state == next
    if same && m.tape.atEdge shift then none
    else
      let steps := m.steps + 1
      let blocks := m.tape.blocks
      let mb := if blocks > m.maxBlocks then blocks else m.maxBlocks
      let ms := if blocks > m.maxBlocks then steps else m.maxStep
      some ⟨(m.tape.step shift color same).1, next, steps, mb, ms⟩

def measGo (p : Prog) : Nat → Meas → Option Meas
  | 0, m => some m
  | n + 1, m =>
    match measIter p m with
    | none => none
    | some m' => measGo p n m'

def measureBlocks (p : Prog) (steps : Nat) : Option Nat :=
  (measGo p steps Meas.init).map (·.maxStep)

/-- `unroll_tape`: `none` stands for the index panic `comp[&slot]` on an undefined slot (cannot
    happen after `measure_blocks` succeeded on at least as many cycles: `unrollTape_isSome`). -/
def unrollGo (p : Prog) : Nat → Nat → Tape → Option Tape
  | 0, _, t => some t
  | n + 1, q, t =>
    match p.get (q, t.scan) with
    | none => none
    | some (color, shift, next) => unrollGo p n next (t.step shift color (q == next)).1

def unrollTape (p : Prog) (steps : Nat) : Option (List Nat) :=
  (unrollGo p steps 0 Tape.init).map Tape.unroll

/-- the chunk `tape[i .. i+k]` -/
def chunk (tape : List Nat) (i k : Nat) : List Nat := (tape.drop i).take k

/-- number of iterations of `(0 .. len - 2k).step_by(k)` -/
def comprIters (len k : Nat) : Nat := (len - 2 * k + k - 1) / k

/-- `compr_eff(tape, k)` for `1 ≤ k`, `2k ≤ len` (the only calls `opt_block` makes) -/
def comprEff (tape : List Nat) (k : Nat) : Nat :=
  (List.range (comprIters tape.length k)).foldl
    (fun acc j => if chunk tape (j * k) k == chunk tape (j * k + k) k then acc - k else acc)
    tape.length

/-- the loop of `opt_block` over block sizes `lo, lo+1, .. , lo+n-1` -/
def optGo (tape : List Nat) : Nat → Nat → Nat × Nat → Nat × Nat
  | 0, _, acc => acc
  | n + 1, bs, (optSize, minComp) =>
    let c := comprEff tape bs
    optGo tape n (bs + 1) (if c < minComp then (bs, c) else (optSize, minComp))

/-- `opt_block`; `none` = panic (never: `optBlock_isSome`) -/
def optBlock (p : Prog) (steps : Nat) : Option Nat :=
  match measureBlocks p steps with
  | none => some 1
  | some ms =>
    match unrollTape p ms with
    | none => none
    | some tape => some (optGo tape (tape.length / 2 - 1) 1 (1, 1 + tape.length)).1

end BB.Blocks
