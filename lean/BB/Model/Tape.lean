/-
L1 model of src/tape.rs: run-length blocks, spans, tapes, signatures, HeadTape, EnumTape.
Import-free.  Counts are unbounded `Nat`; the places where the Rust code does unchecked
`u64` arithmetic are reported by the callers (Machine.lean) as `limit:overflow`.
-/
import BB.Spec

namespace BB

structure Block where
  color : Nat
  count : Nat
deriving Repr, DecidableEq, Inhabited

abbrev Span := List Block

structure Tape where
  scan  : Nat
  lspan : Span
  rspan : Span
deriving Repr, DecidableEq, Inhabited

def Tape.init (scan : Nat := 0) : Tape := ⟨scan, [], []⟩
def Tape.initStepped : Tape := ⟨0, [⟨1, 1⟩], []⟩

/-! ### Span -/

/-- `Span::pull`: returns (next scan, cells stepped, remaining span). -/
def Span.pull (s : Span) (scan : Nat) (skip : Bool) : Nat × Nat × Span :=
  -- sweep: drop the first block when it has the scanned colour
  let (stepped, s1) : Nat × Span :=
    match s with
    | b :: rest => if skip && b.color == scan then (1 + b.count, rest) else (1, s)
    | [] => (1, s)
  match s1 with
  | [] => (0, stepped, [])
  | b :: rest =>
    if b.count > 1 then (b.color, stepped, ⟨b.color, b.count - 1⟩ :: rest)
    else (b.color, stepped, rest)

/-- `Span::push`. -/
def Span.push (s : Span) (print : Nat) (stepped : Nat) : Span :=
  match s with
  | b :: rest =>
    if b.color == print then ⟨b.color, b.count + stepped⟩ :: rest
    else ⟨print, stepped⟩ :: s
  | [] => if print == 0 then [] else [⟨print, stepped⟩]

def Span.marks (s : Span) : Nat :=
  s.foldl (fun acc b => if b.color != 0 then acc + b.count else acc) 0

def Span.counts (s : Span) : List Nat := s.map (·.count)

/-- cells of a span, nearest first -/
def Span.unroll (s : Span) : List Nat := s.flatMap fun b => List.replicate b.count b.color

/-! ### Tape -/

/-- `Tape::step`: returns the new tape and the number of cells moved. -/
def Tape.step (t : Tape) (shift : Bool) (color : Nat) (skip : Bool) : Tape × Nat :=
  if shift then
    let (ns, stepped, pull') := Span.pull t.rspan t.scan skip
    (⟨ns, Span.push t.lspan color stepped, pull'⟩, stepped)
  else
    let (ns, stepped, pull') := Span.pull t.lspan t.scan skip
    (⟨ns, pull', Span.push t.rspan color stepped⟩, stepped)

def Tape.marks (t : Tape) : Nat :=
  (if t.scan != 0 then 1 else 0) + Span.marks t.lspan + Span.marks t.rspan

def Tape.blocks (t : Tape) : Nat := t.lspan.length + t.rspan.length
def Tape.counts (t : Tape) : List Nat × List Nat := (Span.counts t.lspan, Span.counts t.rspan)
def Tape.spanLens (t : Tape) : Nat × Nat := (t.lspan.length, t.rspan.length)

def Tape.atEdge (t : Tape) (edge : Bool) : Bool :=
  t.scan == 0 && (if edge then t.rspan else t.lspan).isEmpty

def Tape.blank (t : Tape) : Bool := t.scan == 0 && t.lspan.isEmpty && t.rspan.isEmpty

/-- `Tape::unroll`: left cells far-to-near, scan, right cells near-to-far. -/
def Tape.unroll (t : Tape) : List Nat :=
  (Span.unroll t.lspan).reverse ++ [t.scan] ++ Span.unroll t.rspan

/-- the L0 configuration a (state, compressed tape) pair denotes -/
def Tape.toCfg (t : Tape) (q : Nat) : Cfg := ⟨q, Span.unroll t.lspan, t.scan, Span.unroll t.rspan⟩

/-! ### Signatures -/

inductive ColorCount where
  | just (c : Nat)
  | mult (c : Nat)
deriving Repr, DecidableEq, Inhabited

def ColorCount.color : ColorCount → Nat
  | .just c => c
  | .mult c => c

def Block.toCC (b : Block) : ColorCount := if b.count == 1 then .just b.color else .mult b.color

abbrev SigSpan := List ColorCount

structure Signature where
  scan  : Nat
  lspan : SigSpan
  rspan : SigSpan
deriving Repr, DecidableEq, Inhabited

def Span.signature (s : Span) : SigSpan := s.map Block.toCC

def Tape.signature (t : Tape) : Signature := ⟨t.scan, Span.signature t.lspan, Span.signature t.rspan⟩

def Span.sigCompatible : Span → SigSpan → Bool
  | _, [] => true
  | [], _ => true
  | b :: bs, c :: cs => b.color == c.color && Span.sigCompatible bs cs

def Tape.sigCompatible (t : Tape) (sig : Signature) : Bool :=
  t.scan == sig.scan
    && t.lspan.length ≥ sig.lspan.length
    && t.rspan.length ≥ sig.rspan.length
    && Span.sigCompatible t.lspan sig.lspan
    && Span.sigCompatible t.rspan sig.rspan

/-! ### Display -/

def Block.show (b : Block) : String :=
  if b.count == 1 then toString b.color
  else if b.count == 0 then toString b.color ++ ".."
  else toString b.color ++ "^" ++ toString b.count

def Tape.show (t : Tape) : String :=
  " ".intercalate ((t.lspan.map Block.show).reverse ++ ["[" ++ toString t.scan ++ "]"] ++ t.rspan.map Block.show)

/-! ### compare_take / HeadTape / aligns_with -/

/-- `Span::compare_take`, exact port of the Rust loop: a block that is not fully consumed is
    *kept with its full count* for the next round.  `fuel` is structural fuel: every round
    consumes at least one cell of `take`, so `fuel = take` never runs out first. -/
def Span.compareTakeGo : Nat → Span → Span → Nat → Bool
  | 0, _, _, _ => true
  | fuel + 1, s, p, take =>
    if take == 0 then true
    else
      match s, p with
      | [], [] => true
      | [], _ :: _ => false
      | _ :: _, [] => false
      | sb :: ss, pb :: ps =>
        if sb.color != pb.color then false
        else if sb.count == 0 || pb.count == 0 then false
        else
          let m := min take (min sb.count pb.count)
          let s' := if sb.count == m then ss else s
          let p' := if pb.count == m then ps else p
          Span.compareTakeGo fuel s' p' (take - m)

def Span.compareTakeRs (s p : Span) (take : Nat) : Bool := Span.compareTakeGo take s p take

structure HeadTape where
  head : Int
  tape : Tape
deriving Repr, DecidableEq, Inhabited

def HeadTape.initStepped : HeadTape := ⟨1, Tape.initStepped⟩

def HeadTape.step (h : HeadTape) (shift : Bool) (color : Nat) (skip : Bool) : HeadTape × Nat :=
  let (t', stepped) := h.tape.step shift color skip
  (⟨if shift then h.head + stepped else h.head - stepped, t'⟩, stepped)

/-- `Alignment::aligns_with` for `HeadTape`. -/
def HeadTape.alignsWith (self prev : HeadTape) (leftmost rightmost : Int) : Bool :=
  if self.tape.scan != prev.tape.scan then false
  else if self.tape.lspan.length != prev.tape.lspan.length
        && self.tape.rspan.length != prev.tape.rspan.length then false
  else
    let pHead := prev.head
    let lTake := (pHead - leftmost).natAbs
    let rTake := (pHead - rightmost).natAbs
    let diff := self.head - pHead
    if 0 < diff then
      Span.compareTakeRs self.tape.lspan prev.tape.lspan lTake && self.tape.rspan == prev.tape.rspan
    else if diff < 0 then
      Span.compareTakeRs self.tape.rspan prev.tape.rspan rTake && self.tape.lspan == prev.tape.lspan
    else
      Span.compareTakeRs self.tape.lspan prev.tape.lspan lTake
        && Span.compareTakeRs self.tape.rspan prev.tape.rspan rTake

end BB
