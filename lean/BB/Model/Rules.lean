/-
L1 model of src/rules.rs (rule inference from four count vectors, counting and applying
additive rules) together with the `IndexTape` part of src/tape.rs (`get_count`/`set_count`
on `Tape<B>`).

Types: `Count = u64` -> `Nat` (callers supply values `≤ countMax`; every operation below that
could leave the range is one of Rust's `checked_*` operations and is modelled exactly),
`Diff = i32` -> `Int` (values produced here are always inside `diffMin..diffMax` because they
come out of `diffTryFrom`), `Index = (Shift, usize)` -> `Bool × Nat`, `Rule = BTreeMap<Index, Op>`
-> association list sorted by `Index.lt` (all `false` = left keys first, then by position).

Panics of the Rust code are explicit `.error (.panic _)` outcomes (`PErr` of Instrs.lean):
  * `span.0[pos]` out of range in `get_count` / `set_count`,
  * `unimplemented!()` on a `Mult` op in `count_apps` / `apply_rule`,
  * `assert!(plus < 0)` in `apply_rule`,
  * `d / c` with `c == 0` in `calculate_diff` (division by zero; unreachable, see there).
The only unchecked `u64` arithmetic in the module is `div - 1` in `count_apps`; it is modelled
with an explicit `.error (.overflow _)` outcome for `div == 0` (unreachable, see there).
-/
import BB.Model.Instrs
import BB.Model.Tape

namespace BB

/-! ### ranges -/

/-- `u64::MAX` -/
def countMax : Nat := 2 ^ 64 - 1
/-- `i32::MIN` -/
def diffMin : Int := -(2 ^ 31)
/-- `i32::MAX` -/
def diffMax : Int := 2 ^ 31 - 1

/-- `Diff::try_from(x).ok()` for an exact integer `x` (an `i128` or a `u64` in the code) -/
def diffTryFrom (x : Int) : Option Int :=
  if diffMin ≤ x ∧ x ≤ diffMax then some x else none

def checkedMul (a b : Nat) : Option Nat := if a * b ≤ countMax then some (a * b) else none
def checkedAdd (a b : Nat) : Option Nat := if a + b ≤ countMax then some (a + b) else none
def checkedSub (a b : Nat) : Option Nat := if b ≤ a then some (a - b) else none

/-! ### Op, Index, Rule -/

inductive Op where
  | plus (d : Int)
  | mult (q r : Int)          -- `Mult((Diff, Diff))`: (quotient, remainder)
deriving Repr, DecidableEq, Inhabited

/-- `(Shift, usize)`: `true` = right span -/
abbrev Index := Bool × Nat

/-- the derived `Ord` of `(bool, usize)`: `false < true`, then by position -/
def Index.lt (a b : Index) : Bool :=
  match a.1, b.1 with
  | false, true => true
  | true, false => false
  | _, _ => a.2 < b.2

abbrev Rule := List (Index × Op)

/-- `BTreeMap::insert` on the sorted association list (an existing key is overwritten) -/
def Rule.insert : Rule → Index → Op → Rule
  | [], k, v => [(k, v)]
  | (k', v') :: rest, k, v =>
    if Index.lt k k' then (k, v) :: (k', v') :: rest
    else if k == k' then (k, v) :: rest
    else (k', v') :: Rule.insert rest k v

/-! ### calculate_diff / make_rule -/

inductive DiffResult where
  | got (op : Op)
  | unknown
deriving Repr, DecidableEq, Inhabited

/-- `calculate_diff`.  `none` = the four counts are equal (block not part of the rule).
    The differences are taken exactly (`i128` in the code) and then narrowed with `try_from`;
    the multiplicative test narrows the counts themselves with `try_from`, uses the truncating
    `i32` division/remainder (all operands are non-negative there) and evaluates `d / c` only when
    the first two (quotient, remainder) pairs agree (`&&` short-circuit); `c == 0` at that point
    would be a division-by-zero panic.  (It cannot happen: the pairs agreeing with `c = 0` forces
    `b / a = 0` and `b % a = 0`, i.e. `b = 0`, which has been excluded.) -/
def calculateDiff (a b c d : Nat) : PRes (Option DiffResult) :=
  if a == b && b == c && c == d then .ok none
  else
    match diffTryFrom ((b : Int) - (a : Int)), diffTryFrom ((c : Int) - (b : Int)),
          diffTryFrom ((d : Int) - (c : Int)) with
    | some diff1, some diff2, some diff3 =>
      if diff1 == diff2 && diff2 == diff3 then .ok (some (.got (.plus diff1)))
      else
        match diffTryFrom (a : Int), diffTryFrom (b : Int), diffTryFrom (c : Int),
              diffTryFrom (d : Int) with
        | some a, some b, some c, some d =>
          if a == 0 || b == 0 then .ok (some .unknown)
          else
            let divmod1 : Int × Int := (Int.tdiv b a, Int.tmod b a)
            let divmod2 : Int × Int := (Int.tdiv c b, Int.tmod c b)
            if divmod1 == divmod2 then
              if c == 0 then .error (.panic "attempt to divide by zero")
              else if divmod2 == (Int.tdiv d c, Int.tmod d c) then
                .ok (some (.got (.mult divmod1.1 divmod1.2)))
              else .ok (some .unknown)
            else .ok (some .unknown)
        | _, _, _, _ => .ok (some .unknown)
    | _, _, _ => .ok (some .unknown)

/-- `Counts = (Vec<Count>, Vec<Count>)` -/
abbrev Counts := List Nat × List Nat

/-- `a.iter().zip(b.iter()).zip(c.iter()).zip(d.iter())`: stops at the shortest vector -/
def zip4 : List Nat → List Nat → List Nat → List Nat → List (Nat × Nat × Nat × Nat)
  | a :: as, b :: bs, c :: cs, d :: ds => (a, b, c, d) :: zip4 as bs cs ds
  | _, _, _, _ => []

/-- the inner loop of `make_rule` over the blocks of one side `s`, from position `i` on.
    `.ok none` = some block's counts are `Unknown`. -/
def makeRuleSpans (s : Bool) : List (Nat × Nat × Nat × Nat) → Nat → Rule → PRes (Option Rule)
  | [], _, rule => .ok (some rule)
  | (a, b, c, d) :: rest, i, rule =>
    match calculateDiff a b c d with
    | .error e => .error e
    | .ok none => makeRuleSpans s rest (i + 1) rule
    | .ok (some .unknown) => .ok none
    | .ok (some (.got op)) => makeRuleSpans s rest (i + 1) (rule.insert (s, i) op)

/-- `make_rule`: left side first, then right side. -/
def makeRule (c1 c2 c3 c4 : Counts) : PRes (Option Rule) :=
  let ls := zip4 c1.1 c2.1 c3.1 c4.1
  let rs := zip4 c1.2 c2.2 c3.2 c4.2
  match makeRuleSpans false ls 0 [] with
  | .error e => .error e
  | .ok none => .ok none
  | .ok (some rule) => makeRuleSpans true rs 0 rule

/-! ### IndexTape for Tape -/

/-- `IndexTape::get_count`: `span.0[pos].get_count()` -/
def Tape.getCount (t : Tape) (index : Index) : PRes Nat :=
  let span := if index.1 then t.rspan else t.lspan
  match span[index.2]? with
  | some b => .ok b.count
  | none => .error (.panic "index out of bounds")

/-- `span.0[pos].set_count(val)`; `none` = out of range -/
def Span.setCount : Span → Nat → Nat → Option Span
  | [], _, _ => none
  | b :: rest, 0, val => some (⟨b.color, val⟩ :: rest)
  | b :: rest, pos + 1, val =>
    match Span.setCount rest pos val with
    | some rest' => some (b :: rest')
    | none => none

/-- `IndexTape::set_count` -/
def Tape.setCount (t : Tape) (index : Index) (val : Nat) : PRes Tape :=
  if index.1 then
    match Span.setCount t.rspan index.2 val with
    | some s => .ok { t with rspan := s }
    | none => .error (.panic "index out of bounds")
  else
    match Span.setCount t.lspan index.2 val with
    | some s => .ok { t with lspan := s }
    | none => .error (.panic "index out of bounds")

/-! ### apply_plus / count_apps / apply_rule -/

/-- `apply_plus`: `count ± |diff| * times` with `checked_mul` and `checked_sub`/`checked_add` -/
def applyPlus (count : Nat) (diff : Int) (times : Nat) : Option Nat :=
  let absdiff := diff.natAbs
  match checkedMul absdiff times with
  | none => none
  | some mult => if diff < 0 then checkedSub count mult else checkedAdd count mult

/-- `(times, min_pos, min_res)` -/
abbrev Apps := Nat × Index × Nat

/-- the `if let Some((curr, _, _)) = apps { if times < curr {..} } else {..}` update of
    `count_apps`: strict `<` keeps the first minimum in map order -/
def updateApps (apps : Option Apps) (times : Nat) (pos : Index) (minRes : Nat) : Option Apps :=
  match apps with
  | some (curr, _, _) => if times < curr then some (times, pos, minRes) else apps
  | none => some (times, pos, minRes)

/-- `let (times, min_res) = if rem > 0 { (div, rem) } else { (div - 1, absdiff) }`; the `div - 1`
    is unchecked `u64` arithmetic (unreachable overflow: `rem = 0` and `|diff| < count` give
    `div ≥ 2`) -/
def timesMinRes (div rem absdiff : Nat) : PRes (Nat × Nat) :=
  if rem > 0 then .ok (div, rem)
  else if div == 0 then .error (.overflow "attempt to subtract with overflow")
  else .ok (div - 1, absdiff)

/-- the loop of `count_apps`, with the running `apps`.  `.ok none` = some decreasing block has
    `count ≤ |diff|` (early `return None`, whatever was found before). -/
def countAppsLoop (t : Tape) : Rule → Option Apps → PRes (Option Apps)
  | [], apps => .ok apps
  | (pos, op) :: rest, apps =>
    match op with
    | .mult _ _ => .error (.panic "not implemented")
    | .plus diff =>
      if diff ≥ 0 then countAppsLoop t rest apps
      else
        match t.getCount pos with
        | .error e => .error e
        | .ok count =>
          let absdiff := diff.natAbs
          if absdiff ≥ count then .ok none
          else
            match timesMinRes (count / absdiff) (count % absdiff) absdiff with
            | .error e => .error e
            | .ok (times, minRes) => countAppsLoop t rest (updateApps apps times pos minRes)

/-- `ApplyRule::count_apps` -/
def countApps (t : Tape) (rule : Rule) : PRes (Option Apps) := countAppsLoop t rule none

/-- the first loop of `apply_rule`: the new count of every block of the rule, in map order, read
    from the unmodified tape.  `.ok none` = an `apply_plus` returned `None`. -/
def applyRuleResults (t : Tape) (times : Nat) (minPos : Index) (minRes : Nat) :
    Rule → PRes (Option (List (Index × Nat)))
  | [] => .ok (some [])
  | (pos, op) :: rest =>
    match op with
    | .mult _ _ => .error (.panic "not implemented")
    | .plus plus =>
      let result : PRes (Option Nat) :=
        if pos == minPos then
          if plus < 0 then .ok (some minRes) else .error (.panic "assertion failed: plus < 0")
        else
          match t.getCount pos with
          | .error e => .error e
          | .ok count => .ok (applyPlus count plus times)
      match result with
      | .error e => .error e
      | .ok none => .ok none
      | .ok (some r) =>
        match applyRuleResults t times minPos minRes rest with
        | .error e => .error e
        | .ok none => .ok none
        | .ok (some results) => .ok (some ((pos, r) :: results))

/-- the second loop of `apply_rule`: write the results in order -/
def setCounts (t : Tape) : List (Index × Nat) → PRes Tape
  | [] => .ok t
  | (pos, r) :: rest =>
    match t.setCount pos r with
    | .error e => .error e
    | .ok t' => setCounts t' rest

/-- `ApplyRule::apply_rule`: returns the result and the tape afterwards (the tape is returned
    unchanged when the result is `None`: every early return happens before the first write). -/
def applyRule (t : Tape) (rule : Rule) : PRes (Option Nat × Tape) :=
  match countApps t rule with
  | .error e => .error e
  | .ok none => .ok (none, t)
  | .ok (some (times, minPos, minRes)) =>
    match applyRuleResults t times minPos minRes rule with
    | .error e => .error e
    | .ok none => .ok (none, t)
    | .ok (some results) =>
      match setCounts t results with
      | .error e => .error e
      | .ok t' => .ok (some times, t')

end BB
