/-
L1 model of src/tree.rs (C10): `make_instrs`, `run_for_undefined`, `leaf`, `branch`, `build_tree`.

The harvester is modelled by the LIST of programs handed to it, in the order a sequential
depth-first harvest produces them.  `buildTree` returns one sub-list per top-level instruction
(the unit that `par_iter().for_each` distributes over the threads); the sequential (one-thread)
harvest is the concatenation `buildTreeSeq`.

Arithmetic: `State = Color = Slots = Step = u64`.  The overflow-checked subtractions
`(states * colors) - 1 - (1 + halt)` and `remaining_slots - 1`, and the multiplication
`states * colors`, are explicit `.error (.overflow _)` outcomes.  `1 + state`, `1 + max ..` and
`avail += 1` cannot overflow (they are bounded by the parameters, themselves `u64`), and tape
counts grow by at most one cell per cycle.
-/
import BB.Model.Instrs
import BB.Model.Tape

namespace BB.Tree

open BB

/-- `u64` range. -/
def u64Size : Nat := 18446744073709551616

/-! ### make_instrs -/

/-- `SHIFTS = [false, true]`. -/
def shifts : List Bool := [false, true]

/-- `make_instrs`: colour-major, then shift (L before R), then state. -/
def makeInstrs (states colors : Nat) : List Instr :=
  (List.range colors).flatMap fun color =>
    shifts.flatMap fun shift =>
      (List.range states).map fun state => (color, shift, state)

/-! ### run_for_undefined -/

inductive RunResult where
  | limit
  | blank
  | spinout
  | undefined (slot : Slot)
deriving Repr, DecidableEq, Inhabited

/-- `run_for_undefined`: the fuel is `sim_lim`, one unit per loop iteration, i.e. per simulator
    *cycle* (a same-state step sweeps a whole block).  Returns the verdict and the tape as the
    loop left it (the caller's `&mut Tape`).  On `undefined` the tape is the one *at* the
    undefined slot, not stepped. -/
def runForUndefined (comp : Prog) (state : Nat) (tape : Tape) : Nat → RunResult × Tape
  | 0 => (.limit, tape)
  | simLim + 1 =>
    match comp.get (state, tape.scan) with
    | none => (.undefined (state, tape.scan), tape)
    | some (color, shift, nextState) =>
      let same := state == nextState
      if same && tape.atEdge shift then (.spinout, tape)
      else
        let tape' := (tape.step shift color same).1
        if tape'.blank then (.blank, tape')
        else runForUndefined comp nextState tape' simLim

/-! ### leaf -/

/-- the `return` condition of `leaf`: every instruction's next state is below the last state, or
    every instruction's printed colour is below the last colour (instruction contents only; the
    keys are not looked at). -/
def leafSkip (prog : Prog) (params : Nat × Nat) : Bool :=
  prog.all (fun kv => 1 + kv.2.2.2 < params.1) || prog.all (fun kv => 1 + kv.2.1 < params.2)

/-- `leaf`: the programs passed to the harvester by this call (none or one). -/
def leaf (prog : Prog) (params : Nat × Nat) : List Prog :=
  if leafSkip prog params then [] else [prog]

/-! ### branch -/

/-- growth of one availability counter: it grows by one iff it is still below the maximum and the
    larger of (the reached slot's index, the *latest* instruction's index) is the last available
    one. -/
def growAvail (avail maxv slotIdx instrIdx : Nat) : Nat :=
  if avail < maxv && 1 + max slotIdx instrIdx == avail then avail + 1 else avail

/-- `instrs.split_last()`: `(last, init)`. -/
def splitLast : List Instr → Option (Instr × List Instr)
  | [] => none
  | [x] => some (x, [])
  | x :: y :: rest =>
    match splitLast (y :: rest) with
    | none => none
    | some (l, ini) => some (l, x :: ini)

/-- sequential composition of the harvests of a `for` loop body that may panic: the first
    panic aborts. -/
def collect (f : Instr → PRes (List Prog)) : List Instr → PRes (List Prog)
  | [] => .ok []
  | i :: is =>
    match f i with
    | .error e => .error e
    | .ok a =>
      match collect f is with
      | .error e => .error e
      | .ok b => .ok (a ++ b)

/-- `branch`.  `prog` already contains `instr` (the caller inserted it; the caller's
    `prog.remove` afterwards restores its own copy, which here is simply the unchanged value).
    Structural recursion on `remaining_slots`.  `simLim` is passed unchanged to every level: each
    `branch` call gets the full limit again, counted from the configuration at which the parent
    found its undefined slot. -/
def branch (instr : Instr) (prog : Prog) (state : Nat) (tape : Tape) (simLim : Nat)
    (availStates availColors : Nat) (params : Nat × Nat) (remainingSlots : Nat) :
    PRes (List Prog) :=
    match runForUndefined prog state tape simLim with
    | (.limit, _) => .ok (leaf prog params)
    | (.blank, _) => .ok (leaf prog params)
    | (.spinout, _) => .ok (leaf prog params)
    | (.undefined slot, tape') =>
      let availStates' := growAvail availStates params.1 slot.1 instr.2.2
      let availColors' := growAvail availColors params.2 slot.2 instr.1
      let instrs := makeInstrs availStates' availColors'
      match remainingSlots with
      | 0 => .error (.overflow "remaining_slots - 1")
      | nextRemainingSlots + 1 =>
        if nextRemainingSlots == 0 then
          .ok (instrs.flatMap fun nextInstr => leaf (prog.insert slot nextInstr) params)
        else
          match splitLast instrs with
          | none => .error (.panic "split_last().unwrap()")
          | some (lastInstr, initInstrs) =>
            -- `for &next_instr in instrs { .. }` followed by the block for `last_instr`: the same
            -- call for every instruction, in order (the last one moves the tape instead of
            -- cloning it)
            collect (fun nextInstr =>
              branch nextInstr (prog.insert slot nextInstr) slot.1 tape' simLim
                availStates' availColors' params nextRemainingSlots)
              (initInstrs ++ [lastInstr])

/-! ### build_tree -/

/-- the initial program of a top-level task. -/
def initProg (nextInstr : Instr) : Prog :=
  Prog.insert (Prog.insert [] (0, 0) (1, true, 1)) (1, 0) nextInstr

/-- `(states * colors) - 1 - (1 + Slots::from(halt))` with the checked `u64` operations. -/
def initSlots (states colors : Nat) (halt : Bool) : PRes Nat :=
  let prod := states * colors
  if prod ≥ u64Size then .error (.overflow "states * colors")
  else if prod < 1 then .error (.overflow "(states * colors) - 1")
  else
    let sub := 1 + (if halt then 1 else 0)
    if prod - 1 < sub then .error (.overflow "(states * colors) - 1 - (1 + halt)")
    else .ok (prod - 1 - sub)

/-- the body of the `for_each` closure: one top-level task. -/
def buildTask (states colors : Nat) (halt : Bool) (simLim : Nat) (nextInstr : Instr) :
    PRes (List Prog) :=
  let initStates := min 3 states
  let initColors := min 3 colors
  match initSlots states colors halt with
  | .error e => .error e
  | .ok slots =>
    branch nextInstr (initProg nextInstr) 1 Tape.initStepped simLim
      initStates initColors (states, colors) slots

/-- `build_tree`: the harvests of the top-level tasks, in `make_instrs` order.  The parallel
    iterator runs these tasks in any order / interleaving; each task's own harvest is
    sequential. -/
def buildTree (states colors : Nat) (halt : Bool) (simLim : Nat) : List (PRes (List Prog)) :=
  (makeInstrs (min 3 states) (min 3 colors)).map (buildTask states colors halt simLim)

/-- all tasks succeeded: the sub-lists; otherwise the first error (a panic in any task makes
    `build_tree` panic, whatever the schedule). -/
def sequenceTasks : List (PRes (List Prog)) → PRes (List (List Prog))
  | [] => .ok []
  | r :: rs =>
    match r with
    | .error e => .error e
    | .ok a =>
      match sequenceTasks rs with
      | .error e => .error e
      | .ok as => .ok (a :: as)

def buildTreeLists (states colors : Nat) (halt : Bool) (simLim : Nat) : PRes (List (List Prog)) :=
  sequenceTasks (buildTree states colors halt simLim)

/-- the sequential (one-thread) harvest. -/
def buildTreeSeq (states colors : Nat) (halt : Bool) (simLim : Nat) : PRes (List Prog) :=
  match buildTreeLists states colors halt simLim with
  | .error e => .error e
  | .ok ls => .ok ls.flatten

end BB.Tree
