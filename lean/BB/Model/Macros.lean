/-
L1 model of src/macros.rs: `MacroProg` as a state machine.

The Rust object hides three pieces of interior-mutable state behind `&self`:
  * `instrs`               (memo of answered slots,       `RefCell<CompProg>`),
  * `color_to_tape_cache`  (`RefCell<BTreeMap<Color, Tape>>`),
  * `tape_to_color_cache`  (`RefCell<BTreeMap<Tape, Color>>`),
and the wrapped program `prog : &P` may itself be a `MacroProg` with state of its own.
Here `get_instr` takes the whole state and returns the answer together with the new state.

`P : GetInstr` becomes a state type `σ` plus a function `get : GetFn σ`.

Numbers are unbounded `Nat`.  The only `usize` subtractions of the Rust code that can underflow
(`cells - 1` in `run_simulator` and in `BacksymbolLogic::reconstruct_outputs`) are reported as
`Err.overflow`; `u64` overflow of the positional encoding is not modelled (it needs
`max colour * base_colors ^ cells ≥ 2^64`).

Finding F3: `BacksymbolLogic::reconstruct_outputs` splits at `self.cells - 1` where `self.cells`
is meant.  `fixF3 = false` (default) reproduces the code, `fixF3 = true` is the repair.

Imports only BB.Model files.
-/
import BB.Model.Instrs
import BB.Model.Tape

namespace BB.Macros

/-- `type Tape = Vec<Color>` of macros.rs (not the run-length `BB.Tape`). -/
abbrev MTape := List Nat

/-- `type Config = (State, (bool, Tape))`. -/
abbrev Config := Nat × (Bool × MTape)

inductive Err where
  | panic      -- index out of range, missing map key, `split_at` out of range, division by zero
  | overflow   -- `usize` subtraction underflow in an overflow-checked build
deriving Repr, DecidableEq, Inhabited

abbrev Res (α : Type) := Except Err α

/-- `GetInstr::get_instr` of a stateful program: answer and new state. -/
abbrev GetFn (σ : Type) := σ → Slot → Res (Option Instr × σ)

/-- `impl GetInstr for CompProg`: no state change, never panics. -/
def compGet : GetFn Prog := fun p slot => .ok (p.get slot, p)

/-! ### TapeColorConverter -/

/-- `Ord` on `Vec<u64>`: lexicographic, a proper prefix is smaller. -/
def tapeCmp : MTape → MTape → Ordering
  | [], [] => .eq
  | [], _ :: _ => .lt
  | _ :: _, [] => .gt
  | a :: as, b :: bs => if a < b then .lt else if b < a then .gt else tapeCmp as bs

/-- `BTreeMap<Color, Tape>` as an association list sorted by key. -/
abbrev ColorToTape := List (Nat × MTape)

/-- `BTreeMap<Tape, Color>` as an association list sorted by key (`tapeCmp`). -/
abbrev TapeToColor := List (MTape × Nat)

def ColorToTape.get : ColorToTape → Nat → Option MTape
  | [], _ => none
  | (k, v) :: rest, c => if k == c then some v else ColorToTape.get rest c

/-- `BTreeMap::insert`: an existing key gets the new value. -/
def ColorToTape.insert : ColorToTape → Nat → MTape → ColorToTape
  | [], c, t => [(c, t)]
  | (k, v) :: rest, c, t =>
    if k == c then (c, t) :: rest
    else if c < k then (c, t) :: (k, v) :: rest
    else (k, v) :: ColorToTape.insert rest c t

def TapeToColor.get : TapeToColor → MTape → Option Nat
  | [], _ => none
  | (k, v) :: rest, t => if k == t then some v else TapeToColor.get rest t

def TapeToColor.insert : TapeToColor → MTape → Nat → TapeToColor
  | [], t, c => [(t, c)]
  | (k, v) :: rest, t, c =>
    match tapeCmp t k with
    | .eq => (t, c) :: rest
    | .lt => (t, c) :: (k, v) :: rest
    | .gt => (k, v) :: TapeToColor.insert rest t c

structure TapeColorConverter where
  baseColors       : Nat
  colorToTapeCache : ColorToTape
  tapeToColorCache : TapeToColor
deriving Repr, DecidableEq, Inhabited

/-- `TapeColorConverter::new`: colour 0 is the all-zero tape; the reverse cache starts empty. -/
def TapeColorConverter.new (baseColors cells : Nat) : TapeColorConverter :=
  { baseColors := baseColors
    colorToTapeCache := [(0, List.replicate cells 0)]
    tapeToColorCache := [] }

/-- `color_to_tape`: indexes the cache; a colour never handed out panics. -/
def TapeColorConverter.colorToTape (cv : TapeColorConverter) (color : Nat) : Res MTape :=
  match cv.colorToTapeCache.get color with
  | none => .error .panic
  | some t => .ok t

/-- the fold of `tape_to_color` over `tape.iter().rev().enumerate()`:
    `rev` = remaining cells last-first, `place` = enumerate index. -/
def encodeFrom (base : Nat) : MTape → Nat → Nat → Nat
  | [], _, acc => acc
  | value :: rest, place, acc => encodeFrom base rest (place + 1) (acc + value * base ^ place)

/-- positional value of a tape, last cell = place 0. -/
def encode (base : Nat) (tape : MTape) : Nat := encodeFrom base tape.reverse 0 0

/-- `tape_to_color`: cache hit returns the stored colour and changes nothing; a miss computes
    the positional value and inserts into BOTH caches (overwriting `color_to_tape[color]`). -/
def TapeColorConverter.tapeToColor (cv : TapeColorConverter) (tape : MTape) :
    Nat × TapeColorConverter :=
  match cv.tapeToColorCache.get tape with
  | some color => (color, cv)
  | none =>
    let color := encode cv.baseColors tape
    (color, { cv with
      tapeToColorCache := cv.tapeToColorCache.insert tape color
      colorToTapeCache := cv.colorToTapeCache.insert color tape })

/-! ### Logic: BlockLogic and BacksymbolLogic -/

inductive LogicKind where
  | block | backsymbol
deriving Repr, DecidableEq, Inhabited

/-- the immutable fields of `BlockLogic` / `BacksymbolLogic`. -/
structure LogicParams where
  kind       : LogicKind
  cells      : Nat
  baseStates : Nat
  baseColors : Nat
deriving Repr, DecidableEq, Inhabited

/-- field `backsymbols = base_colors.pow(cells)` of `BacksymbolLogic`. -/
def LogicParams.backsymbols (lp : LogicParams) : Nat := lp.baseColors ^ lp.cells

def LogicParams.macroStates (lp : LogicParams) : Nat :=
  match lp.kind with
  | .block => 2 * lp.baseStates
  | .backsymbol => 2 * lp.baseStates * lp.backsymbols

def LogicParams.macroColors (lp : LogicParams) : Nat :=
  match lp.kind with
  | .block => lp.baseColors ^ lp.cells
  | .backsymbol => lp.baseColors

def LogicParams.simLim (lp : LogicParams) : Nat :=
  match lp.kind with
  | .block => lp.baseStates * lp.cells * lp.macroColors
  | .backsymbol => lp.macroStates * lp.macroColors

/-- `GetInstr::params` of a `MacroProg`. -/
def LogicParams.params (lp : LogicParams) : Nat × Nat := (lp.macroStates, lp.macroColors)

structure Logic where
  params    : LogicParams
  converter : TapeColorConverter
deriving Repr, DecidableEq, Inhabited

/-- `Logic::new(cells, (base_states, base_colors))`. -/
def Logic.new (kind : LogicKind) (cells : Nat) (params : Nat × Nat) : Logic :=
  { params := ⟨kind, cells, params.1, params.2⟩
    converter := TapeColorConverter.new params.2 cells }

/-- `BlockLogic::deconstruct_inputs`. -/
def blockDeconstructInputs (cv : TapeColorConverter) (slot : Slot) : Res Config :=
  let state := slot.1 / 2
  let rightEdge := slot.1 % 2
  match cv.colorToTape slot.2 with
  | .error e => .error e
  | .ok tape => .ok (state, (rightEdge == 1, tape))

/-- `BlockLogic::reconstruct_outputs`. -/
def blockReconstructOutputs (cv : TapeColorConverter) (cfg : Config) :
    Instr × TapeColorConverter :=
  let (state, (rightEdge, tape)) := cfg
  let (color, cv') := cv.tapeToColor tape
  ((color, rightEdge, 2 * state + (if rightEdge then 0 else 1)), cv')

/-- `BacksymbolLogic::deconstruct_inputs`. -/
def backsymbolDeconstructInputs (backsymbols : Nat) (cv : TapeColorConverter) (slot : Slot) :
    Res Config :=
  let stCo := slot.1 / 2
  let atRight := slot.1 % 2
  if backsymbols == 0 then .error .panic   -- division by zero
  else
    let state := stCo / backsymbols
    match cv.colorToTape (stCo % backsymbols) with
    | .error e => .error e
    | .ok backspan =>
      .ok (state, if atRight == 1 then (false, slot.2 :: backspan)
                  else (true, backspan ++ [slot.2]))

/-- `slice::split_at(mid)`: panics when `mid > len`. -/
def splitAt (tape : MTape) (mid : Nat) : Res (MTape × MTape) :=
  if mid > tape.length then .error .panic else .ok (tape.take mid, tape.drop mid)

/-- `color[0]`. -/
def head0 : MTape → Res Nat
  | [] => .error .panic
  | c :: _ => .ok c

/-- the `(backspan, macro_color)` pair of `BacksymbolLogic::reconstruct_outputs`.
    F3: the code splits at `cells - 1`; the repair splits at `cells`. -/
def backsymbolSplit (cells : Nat) (shift : Bool) (tape : MTape) (fixF3 : Bool) :
    Res (MTape × Nat) :=
  if shift then
    if !fixF3 && cells == 0 then .error .overflow
    else
      match splitAt tape (if fixF3 then cells else cells - 1) with
      | .error e => .error e
      | .ok (rest, color) =>
        match head0 color with
        | .error e => .error e
        | .ok c => .ok (rest, c)
  else
    match splitAt tape 1 with
    | .error e => .error e
    | .ok (color, rest) =>
      match head0 color with
      | .error e => .error e
      | .ok c => .ok (rest, c)

/-- `BacksymbolLogic::reconstruct_outputs`. -/
def backsymbolReconstructOutputs (cells backsymbols : Nat) (cv : TapeColorConverter)
    (cfg : Config) (fixF3 : Bool := false) : Res (Instr × TapeColorConverter) :=
  let (state, (rightEdge, tape)) := cfg
  let shift := !rightEdge
  match backsymbolSplit cells shift tape fixF3 with
  | .error e => .error e
  | .ok (backspan, macroColor) =>
    let (bc, cv') := cv.tapeToColor backspan
    .ok ((macroColor, shift, (if shift then 1 else 0) + 2 * (state * backsymbols + bc)), cv')

def Logic.deconstructInputs (l : Logic) (slot : Slot) : Res Config :=
  match l.params.kind with
  | .block => blockDeconstructInputs l.converter slot
  | .backsymbol => backsymbolDeconstructInputs l.params.backsymbols l.converter slot

def Logic.reconstructOutputs (l : Logic) (cfg : Config) (fixF3 : Bool := false) :
    Res (Instr × Logic) :=
  match l.params.kind with
  | .block =>
    let (i, cv') := blockReconstructOutputs l.converter cfg
    .ok (i, { l with converter := cv' })
  | .backsymbol =>
    match backsymbolReconstructOutputs l.params.cells l.params.backsymbols l.converter cfg fixF3 with
    | .error e => .error e
    | .ok (i, cv') => .ok (i, { l with converter := cv' })

/-! ### run_simulator

The pair `(tape, pos)` with `pos < tape.len()` is kept as a zipper: `left` = cells left of `pos`,
nearest first; `scan = tape[pos]`; `right` = cells right of `pos`, nearest first. -/

structure Win where
  left  : List Nat
  scan  : Nat
  right : List Nat
deriving Repr, DecidableEq, Inhabited

/-- the `Vec` a window stands for. -/
def Win.toTape (w : Win) : MTape := w.left.reverse ++ w.scan :: w.right

/-- `pos = 0` -/
def Win.atLeft : MTape → Option Win
  | [] => none
  | c :: rest => some ⟨[], c, rest⟩

/-- `pos = cells - 1` -/
def Win.atRight (tape : MTape) : Option Win :=
  match tape.reverse with
  | [] => none
  | c :: rest => some ⟨rest, c, []⟩

/-- result of one iteration of the `'step` loop after the instruction was fetched -/
inductive SimStep where
  | exit (cfg : Config)            -- `side = Some(_); break`
  | cont (state : Nat) (w : Win)
deriving Repr, DecidableEq, Inhabited

/-- `while tape[pos] == scan { tape[pos] = color; pos += 1; if cells <= pos { break 'step } }`.
    `left` = cells already passed (nearest first), the list = cells from `pos` rightwards. -/
def sweepRight (state scan color : Nat) : List Nat → List Nat → SimStep
  | left, [] => .exit (state, (true, left.reverse))
  | left, x :: right =>
    if x == scan then sweepRight state scan color (color :: left) right
    else .cont state ⟨left, x, right⟩

/-- `while tape[pos] == scan { tape[pos] = color; if pos == 0 { break 'step }; pos -= 1 }`.
    The first list = cells from `pos` leftwards, `right` = cells already passed. -/
def sweepLeft (state scan color : Nat) : List Nat → List Nat → SimStep
  | [], right => .exit (state, (false, right))
  | x :: left, right =>
    if x == scan then sweepLeft state scan color left (color :: right)
    else .cont state ⟨left, x, right⟩

/-- body of the `'step` loop for the fetched instruction `(color, shift, next)`;
    `scan = w.scan` is the colour the instruction was fetched for. -/
def simStep (state : Nat) (w : Win) (instr : Instr) : SimStep :=
  let (color, shift, next) := instr
  if next != state then
    if shift then
      match w.right with
      | [] => .exit (next, (true, (color :: w.left).reverse))
      | r :: rs => .cont next ⟨color :: w.left, r, rs⟩
    else
      match w.left with
      | [] => .exit (next, (false, color :: w.right))
      | l :: ls => .cont next ⟨ls, l, color :: w.right⟩
  else if shift then sweepRight state w.scan color w.left (w.scan :: w.right)
  else sweepLeft state w.scan color (w.scan :: w.left) w.right

/-- `'step: for _ in 0..sim_lim`; `fuel` = iterations left.  `prog.get_instr(..)?` leaves with
    `None` but keeps whatever the inner program memoised. -/
def simLoop {σ : Type} (get : GetFn σ) : Nat → σ → Nat → Win → Res (Option Config × σ)
  | 0, prog, _, _ => .ok (none, prog)
  | fuel + 1, prog, state, w =>
    match get prog (state, w.scan) with
    | .error e => .error e
    | .ok (none, prog') => .ok (none, prog')
    | .ok (some instr, prog') =>
      match simStep state w instr with
      | .exit cfg => .ok (some cfg, prog')
      | .cont state' w' => simLoop get fuel prog' state' w'

/-- `MacroProg::run_simulator`.  An empty tape: `cells - 1` underflows for `right_edge`;
    otherwise `tape[0]` panics in the first iteration (if there is one). -/
def runSimulator {σ : Type} (get : GetFn σ) (simLim : Nat) (prog : σ) (cfg : Config) :
    Res (Option Config × σ) :=
  let (state, (rightEdge, tape)) := cfg
  if rightEdge then
    match Win.atRight tape with
    | none => .error .overflow
    | some w => simLoop get simLim prog state w
  else
    match Win.atLeft tape with
    | none => if simLim == 0 then .ok (none, prog) else .error .panic
    | some w => simLoop get simLim prog state w

/-! ### MacroProg -/

structure MacroProg (σ : Type) where
  prog   : σ
  logic  : Logic
  instrs : Prog
deriving Repr

/-- `MacroProg::new`. -/
def MacroProg.new {σ : Type} (prog : σ) (logic : Logic) : MacroProg σ :=
  { prog := prog, logic := logic, instrs := [] }

/-- `make_block_macro(prog, params, blocks)`. -/
def makeBlockMacro {σ : Type} (prog : σ) (params : Nat × Nat) (blocks : Nat) : MacroProg σ :=
  MacroProg.new prog (Logic.new .block blocks params)

/-- `make_backsymbol_macro(prog, params, backsymbols)`. -/
def makeBacksymbolMacro {σ : Type} (prog : σ) (params : Nat × Nat) (backsymbols : Nat) :
    MacroProg σ :=
  MacroProg.new prog (Logic.new .backsymbol backsymbols params)

/-- `MacroProg::calculate_instr`: answer, new inner state, new logic (converter caches). -/
def MacroProg.calculateInstr {σ : Type} (get : GetFn σ) (m : MacroProg σ) (slot : Slot)
    (fixF3 : Bool := false) : Res (Option Instr × σ × Logic) :=
  match m.logic.deconstructInputs slot with
  | .error e => .error e
  | .ok cfg =>
    match runSimulator get m.logic.params.simLim m.prog cfg with
    | .error e => .error e
    | .ok (none, prog') => .ok (none, prog', m.logic)
    | .ok (some out, prog') =>
      match m.logic.reconstructOutputs out fixF3 with
      | .error e => .error e
      | .ok (instr, logic') => .ok (some instr, prog', logic')

/-- `impl GetInstr for MacroProg`: `get_instr`. -/
def MacroProg.getInstr {σ : Type} (get : GetFn σ) (m : MacroProg σ) (slot : Slot)
    (fixF3 : Bool := false) : Res (Option Instr × MacroProg σ) :=
  match m.instrs.get slot with
  | some instr => .ok (some instr, m)
  | none =>
    match m.calculateInstr get slot fixF3 with
    | .error e => .error e
    | .ok (none, prog', logic') => .ok (none, { m with prog := prog', logic := logic' })
    | .ok (some instr, prog', logic') =>
      .ok (some instr, { prog := prog', logic := logic', instrs := m.instrs.insert slot instr })

/-- the `GetFn` of a macro over an inner program with `GetFn` `get`. -/
def macroGet {σ : Type} (get : GetFn σ) (fixF3 : Bool := false) : GetFn (MacroProg σ) :=
  fun m slot => MacroProg.getInstr get m slot fixF3

/-- query a list of slots in order: all answers and the final state. -/
def getInstrs {σ : Type} (get : GetFn σ) : σ → List Slot → Res (List (Option Instr) × σ)
  | prog, [] => .ok ([], prog)
  | prog, slot :: rest =>
    match get prog slot with
    | .error e => .error e
    | .ok (a, prog') =>
      match getInstrs get prog' rest with
      | .error e => .error e
      | .ok (as, prog'') => .ok (a :: as, prog'')

/-! ### The pure macro instruction (no caches) -/

/-- positional digits of `color`, `cells` of them, most significant first
    (inverse of `encode` on tapes of length `cells` with entries `< base`). -/
def decodeAux (base : Nat) : Nat → Nat → MTape → MTape
  | 0, _, acc => acc
  | n + 1, color, acc => decodeAux base n (color / base) (color % base :: acc)

def decode (base cells color : Nat) : MTape := decodeAux base cells color []

def pureDeconstructInputs (lp : LogicParams) (slot : Slot) : Res Config :=
  match lp.kind with
  | .block => .ok (slot.1 / 2, (slot.1 % 2 == 1, decode lp.baseColors lp.cells slot.2))
  | .backsymbol =>
    let stCo := slot.1 / 2
    if lp.backsymbols == 0 then .error .panic
    else
      let backspan := decode lp.baseColors lp.cells (stCo % lp.backsymbols)
      .ok (stCo / lp.backsymbols,
           if slot.1 % 2 == 1 then (false, slot.2 :: backspan) else (true, backspan ++ [slot.2]))

def pureReconstructOutputs (lp : LogicParams) (cfg : Config) (fixF3 : Bool) : Res Instr :=
  let (state, (rightEdge, tape)) := cfg
  match lp.kind with
  | .block => .ok (encode lp.baseColors tape, rightEdge, 2 * state + (if rightEdge then 0 else 1))
  | .backsymbol =>
    let shift := !rightEdge
    match backsymbolSplit lp.cells shift tape fixF3 with
    | .error e => .error e
    | .ok (backspan, macroColor) =>
      .ok (macroColor, shift,
           (if shift then 1 else 0) + 2 * (state * lp.backsymbols + encode lp.baseColors backspan))

/-- the stateless inner program as a `GetFn Unit` -/
def pureGet (inner : Slot → Res (Option Instr)) : GetFn Unit :=
  fun _ slot =>
    match inner slot with
    | .error e => .error e
    | .ok a => .ok (a, ())

/-- The macro instruction as a pure function of the slot: decode the colour positionally, run the
    inner (pure) program inside the window, encode positionally.  `fixF3 = true` is the intended
    semantics; `fixF3 = false` keeps the `cells - 1` split of the code. -/
def pureInstr (inner : Slot → Res (Option Instr)) (lp : LogicParams) (fixF3 : Bool)
    (slot : Slot) : Res (Option Instr) :=
  match pureDeconstructInputs lp slot with
  | .error e => .error e
  | .ok cfg =>
    match runSimulator (pureGet inner) lp.simLim () cfg with
    | .error e => .error e
    | .ok (none, _) => .ok none
    | .ok (some out, _) =>
      match pureReconstructOutputs lp out fixF3 with
      | .error e => .error e
      | .ok instr => .ok (some instr)

/-- pure instruction of a chain of macros over the base program `p`; `levels` lists
    `(kind, cells)` OUTERMOST first; every level is built with the base `params` (as the repo
    does when nesting). -/
def pureChain (p : Prog) (params : Nat × Nat) (fixF3 : Bool) :
    List (LogicKind × Nat) → Slot → Res (Option Instr)
  | [], slot => .ok (p.get slot)
  | (kind, cells) :: inner, slot =>
    pureInstr (fun s => pureChain p params fixF3 inner s) ⟨kind, cells, params.1, params.2⟩ fixF3 slot

/-! ### Running a `GetInstr` program on the run-length tape

The loop of `run_for_infrul` (machine.rs) without the prover, with the step count of
`run_quick_machine`. -/

inductive Stop where
  | undfnd (slot : Slot)
  | spnout
  | limit
deriving Repr, DecidableEq, Inhabited

structure RunCfg where
  state : Nat
  tape  : Tape
  steps : Nat
deriving Repr, DecidableEq, Inhabited

def RunCfg.init : RunCfg := ⟨0, Tape.init, 0⟩

/-- `for cycle in 0..sim_lim`; `fuel` = cycles left.  Returns the configuration at the start of
    every executed cycle (plus the one the limit was reached in), the stop reason and the final
    program state. -/
def runLoop {σ : Type} (get : GetFn σ) : Nat → σ → RunCfg → Res (List RunCfg × Stop × σ)
  | 0, prog, c => .ok ([c], .limit, prog)
  | fuel + 1, prog, c =>
    match get prog (c.state, c.tape.scan) with
    | .error e => .error e
    | .ok (none, prog') => .ok ([c], .undfnd (c.state, c.tape.scan), prog')
    | .ok (some (color, shift, next), prog') =>
      let same := c.state == next
      if same && c.tape.atEdge shift then .ok ([c], .spnout, prog')
      else
        let (tape', stepped) := c.tape.step shift color same
        match runLoop get fuel prog' ⟨next, tape', c.steps + stepped⟩ with
        | .error e => .error e
        | .ok (tr, stop, p) => .ok (c :: tr, stop, p)

def runGetInstr {σ : Type} (get : GetFn σ) (simLim : Nat) (prog : σ) :
    Res (List RunCfg × Stop × σ) :=
  runLoop get simLim prog RunCfg.init

end BB.Macros
