/-
L1 model of src/segment.rs (finite-segment analysis) and of `get_comp` in src/wrappers.rs.

Function-for-function port.  Conventions:
* `Vec` -> `List`; the `todo` stack is a list whose head is the top of the stack.
* `BTreeMap<State, _>` -> association list sorted by key (`dict*` helpers below).  Key *presence*
  is modelled faithfully for `blanks` and `reached` (the code tests it with `get_mut`).
* `HashSet<_>` -> duplicate-free list, newest element first (`HashSet<Tape>`: `TapeSet`, such
  lists in buckets, see there).  No result depends on the order: the code only uses `contains`,
  `insert`, `len`, `is_empty`, and the size of a union.
* Rust panics (`assert!`, `unwrap`, map index on a missing key) -> `Err.panic`.
* The two `while` loops have no limit of their own that bounds the number of iterations
  directly, so they run on fuel computed from a true bound (`runFuel`, `searchFuel`); running
  out of it is `Err.fuel` (never observed).  The only user-visible limit, `segs`, is used purely
  as fuel of `segmentLoop`.
-/
import BB.Model.Instrs

namespace BB.Segment

def MAX_DEPTH : Nat := 3000

/-- `instrs::Term`: the goal of the search. -/
inductive Term where
  | halt | blank | spinout
deriving Repr, DecidableEq, Inhabited

inductive SegmentResult where
  | halt | blank | repeat | spinout | depthLimit | segmentLimit
  | refuted (step : Nat)
deriving Repr, DecidableEq, Inhabited

def SegmentResult.isRefuted : SegmentResult → Bool
  | .refuted _ => true
  | _ => false

inductive SearchResult where
  | limit | repeat | reached
  | found (t : Term)
deriving Repr, DecidableEq, Inhabited

/-- `impl From<Term> for SegmentResult` -/
def SegmentResult.ofTerm : Term → SegmentResult
  | .halt => .halt
  | .blank => .blank
  | .spinout => .spinout

/-- what the model returns where the Rust code panics / where model fuel runs out -/
inductive Err where
  | panic | fuel
deriving Repr, DecidableEq, Inhabited

/-! ### small containers -/

/-- `BTreeMap::get` -/
def dictGet {α : Type} (d : List (Nat × α)) (k : Nat) : Option α :=
  match d with
  | [] => none
  | (k', v) :: rest => if k' == k then some v else dictGet rest k

/-- `BTreeMap::insert` (sorted by key, replaces an existing entry) -/
def dictSet {α : Type} (d : List (Nat × α)) (k : Nat) (v : α) : List (Nat × α) :=
  match d with
  | [] => [(k, v)]
  | (k', v') :: rest =>
    if k' == k then (k, v) :: rest
    else if k < k' then (k, v) :: (k', v') :: rest
    else (k', v') :: dictSet rest k v

/-- `HashSet::insert` -/
def setInsert {α : Type} [BEq α] (s : List α) (x : α) : List α :=
  if s.contains x then s else x :: s

/-- `d.entry(k).or_default().contains(x)`.  The entry creation is not modelled here: when the
    answer is `true` the key existed, and when it is `false` the callers go on to
    `dictSetInsert`, which creates it. -/
def dictSetHas {α : Type} [BEq α] (d : List (Nat × List α)) (k : Nat) (x : α) : Bool :=
  match dictGet d k with
  | none => false
  | some s => s.contains x

/-- `d.entry(k).or_default().insert(x)` -/
def dictSetInsert {α : Type} [BEq α] (d : List (Nat × List α)) (k : Nat) (x : α) :
    List (Nat × List α) :=
  match dictGet d k with
  | none => dictSet d k [x]
  | some s => dictSet d k (setInsert s x)

/-- `d.entry(k).or_default()` -/
def dictEnsure {α : Type} (d : List (Nat × List α)) (k : Nat) : List (Nat × List α) :=
  match dictGet d k with
  | none => dictSet d k []
  | some _ => d

/-- insert into a sorted duplicate-free list (`Set` followed by `sort_unstable`) -/
def sortedInsert (l : List Nat) (x : Nat) : List Nat :=
  match l with
  | [] => [x]
  | y :: rest =>
    if x == y then l
    else if x < y then x :: l
    else y :: sortedInsert rest x

/-! ### Span -/

structure Block where
  color : Nat
  count : Nat
deriving Repr, DecidableEq, Inhabited

abbrev Span := List Block

/-- equality of spans (`#[derive(PartialEq)]`), written out so that it compiles to a plain loop -/
def Span.beq : Span → Span → Bool
  | [], [] => true
  | a :: as, b :: bs => a.color == b.color && a.count == b.count && Span.beq as bs
  | _, _ => false

def Span.blank (s : Span) : Bool := s.all fun b => b.color == 0

def Span.len : Span → Nat
  | [] => 0
  | b :: rest => b.count + Span.len rest

def Span.isEmpty (s : Span) : Bool := Span.len s == 0

def Span.pushBlock (s : Span) (color count : Nat) : Span := ⟨color, count⟩ :: s

def Span.push (s : Span) (print stepped : Nat) : Span :=
  match s with
  | b :: rest =>
    if b.color == print then ⟨b.color, b.count + stepped⟩ :: rest
    else Span.pushBlock s print stepped
  | [] => Span.pushBlock s print stepped

/-- `Span::pull`: (next scan, cells stepped, remaining span). -/
def Span.pull (s : Span) (scan : Nat) (skip : Bool) : Option Nat × Nat × Span :=
  let (stepped, s1) : Nat × Span :=
    match s with
    | b :: rest =>
      if skip && !Span.isEmpty s && b.color == scan then (1 + b.count, rest) else (1, s)
    | [] => (1, s)
  if Span.isEmpty s1 then (none, stepped, s1)
  else
    match s1 with
    | b :: rest =>
      if b.count > 1 then (some b.color, stepped, ⟨b.color, b.count - 1⟩ :: rest)
      else (some b.color, stepped, rest)
    | [] => (none, stepped, s1)

/-- `Span::take`; `none` = the `assert!(!self.is_empty())` fails. -/
def Span.take (s : Span) : Option (Nat × Span) :=
  if Span.isEmpty s then none
  else
    match s with
    | b :: rest =>
      if b.count == 1 then some (b.color, rest)
      else some (b.color, ⟨b.color, b.count - 1⟩ :: rest)
    | [] => none

/-! ### Tape -/

structure Tape where
  scan : Option Nat
  lspan : Span
  rspan : Span
deriving Repr, DecidableEq, Inhabited

def optBeq : Option Nat → Option Nat → Bool
  | none, none => true
  | some a, some b => a == b
  | _, _ => false

/-- equality of tapes (`#[derive(PartialEq)]`); agrees with `=` -/
def Tape.beq (a b : Tape) : Bool :=
  optBeq a.scan b.scan && Span.beq a.lspan b.lspan && Span.beq a.rspan b.rspan

instance : BEq Tape := ⟨Tape.beq⟩

theorem Span.beq_iff : ∀ (a b : Span), Span.beq a b = true ↔ a = b
  | [], [] => by simp [Span.beq]
  | [], _ :: _ => by simp [Span.beq]
  | _ :: _, [] => by simp [Span.beq]
  | x :: xs, y :: ys => by
    cases x; cases y
    simp [Span.beq, Span.beq_iff xs ys, and_assoc]

theorem optBeq_iff (a b : Option Nat) : optBeq a b = true ↔ a = b := by
  cases a <;> cases b <;> simp [optBeq]

theorem Tape.beq_iff (a b : Tape) : Tape.beq a b = true ↔ a = b := by
  cases a; cases b
  simp [Tape.beq, optBeq_iff, Span.beq_iff, and_assoc]

instance : LawfulBEq Tape where
  eq_of_beq h := (Tape.beq_iff _ _).1 h
  rfl := (Tape.beq_iff _ _).2 rfl

/-- `Tape::init`; `none` = an assertion fails (or `cells - pos` underflows, for `pos = seg`). -/
def Tape.init (seg pos : Nat) : Option Tape :=
  if seg < 4 then none
  else if pos > seg then none
  else
    let cells := seg - 2
    if pos == 0 then some ⟨none, [], [⟨0, cells⟩]⟩
    else if pos == seg - 1 then some ⟨none, [⟨0, cells⟩], []⟩
    else if pos > cells then none
    else
      let lCount := pos - 1
      let rCount := cells - pos
      some ⟨some 0,
        if lCount > 0 then [⟨0, lCount⟩] else [],
        if rCount > 0 then [⟨0, rCount⟩] else []⟩

def Tape.blank (t : Tape) : Bool :=
  (match t.scan with
    | none => true
    | some c => c == 0)
  && Span.blank t.lspan && Span.blank t.rspan

def Tape.atEdge (t : Tape) (edge : Bool) : Bool :=
  (match t.scan with
    | some c => c == 0
    | none => false)
  && Span.blank (if edge then t.rspan else t.lspan)

def Tape.pos (t : Tape) : Nat :=
  let lLen := Span.len t.lspan
  lLen + (if t.scan.isSome || 0 < lLen then 1 else 0)

/-- `Tape::side`; `none` = `assert_edge` fails. -/
def Tape.side (t : Tape) : Option Bool :=
  match t.scan with
  | some _ => none
  | none => some (Span.isEmpty t.rspan)

/-- `Tape::step_in`; `none` = panic. -/
def Tape.stepIn (t : Tape) (shift : Bool) : Option Tape :=
  match Tape.side t with
  | none => none
  | some side =>
    if side != !shift then none
    else if shift then
      match Span.take t.rspan with
      | none => none
      | some (c, r) => some ⟨some c, t.lspan, r⟩
    else
      match Span.take t.lspan with
      | none => none
      | some (c, l) => some ⟨some c, l, t.rspan⟩

/-- `Tape::step`; `none` = `self.scan.unwrap()` panics. -/
def Tape.step (t : Tape) (shift : Bool) (print : Nat) (skip : Bool) : Option Tape :=
  match t.scan with
  | none => none
  | some scan =>
    if shift then
      let (nextScan, stepped, pull') := Span.pull t.rspan scan skip
      some ⟨nextScan, Span.push t.lspan print stepped, pull'⟩
    else
      let (nextScan, stepped, pull') := Span.pull t.lspan scan skip
      some ⟨nextScan, pull', Span.push t.rspan print stepped⟩

/-! ### sets of tapes

`HashSet<Tape>`.  To keep membership tests short the elements are kept in buckets selected by
`Tape.hash`; nothing depends on what that function computes (an element `t` is only ever stored
in, and looked for in, the bucket `Tape.hash t`), so the structure behaves as a duplicate-free
list of tapes.  `size` is the number of elements (`HashSet::len`). -/

def Span.hash (s : Span) (h : Nat) : Nat :=
  match s with
  | [] => h
  | b :: rest => Span.hash rest (h * 31 + b.color * 11 + b.count)

def Tape.hash (t : Tape) : Nat :=
  let h0 := match t.scan with
    | none => 0
    | some c => c + 1
  (Span.hash t.rspan (Span.hash t.lspan h0 * 7 + 5)) % 64

structure TapeSet where
  size : Nat
  buckets : List (Nat × List Tape)
deriving Repr, Inhabited

def TapeSet.empty : TapeSet := ⟨0, []⟩

/-- `HashSet::contains` -/
def TapeSet.contains (s : TapeSet) (t : Tape) : Bool :=
  match dictGet s.buckets (Tape.hash t) with
  | none => false
  | some b => b.contains t

/-- `HashSet::insert` -/
def TapeSet.insert (s : TapeSet) (t : Tape) : TapeSet :=
  let h := Tape.hash t
  match dictGet s.buckets h with
  | none => ⟨s.size + 1, dictSet s.buckets h [t]⟩
  | some b => if b.contains t then s else ⟨s.size + 1, dictSet s.buckets h (t :: b)⟩

/-! ### AnalyzedProg -/

/-- `Dirs = Dict<bool, Vec<State>>`: both keys always present, so a pair (lefts, rights). -/
abbrev Dirs := List Nat × List Nat

def Dirs.get (d : Dirs) (shift : Bool) : List Nat := if shift then d.2 else d.1

structure AnalyzedProg where
  prog : Prog
  /-- `HashSet<State>`; only `is_empty` and "for each" into a `BTreeMap` are used -/
  halts : List Nat
  spinouts : List (Nat × Bool)
  branches : List (Nat × (List Nat × Dirs))
deriving Repr, Inhabited

/-- accumulator for one row of the table: (halts, spinouts, diff, lefts, rights) -/
structure RowAcc where
  halts : List Nat
  spinouts : List (Nat × Bool)
  diff : List Nat
  lefts : List Nat
  rights : List Nat

def analyzeSlot (prog : Prog) (state : Nat) (acc : RowAcc) (color : Nat) : RowAcc :=
  match prog.get (state, color) with
  | none => { acc with halts := setInsert acc.halts state }
  | some (_, shift, next) =>
    let acc :=
      if next == state then
        if color == 0 then { acc with spinouts := dictSet acc.spinouts next shift } else acc
      else { acc with diff := sortedInsert acc.diff next }
    if shift then { acc with rights := sortedInsert acc.rights next }
    else { acc with lefts := sortedInsert acc.lefts next }

def analyzeRow (prog : Prog) (colors : Nat) (ap : AnalyzedProg) (state : Nat) : AnalyzedProg :=
  let acc := (List.range colors).foldl (analyzeSlot prog state)
    ⟨ap.halts, ap.spinouts, [], [], []⟩
  { ap with
    halts := acc.halts
    spinouts := acc.spinouts
    branches := dictSet ap.branches state (acc.diff, (acc.lefts, acc.rights)) }

/-- `AnalyzedProg::new` -/
def AnalyzedProg.new (prog : Prog) (params : Nat × Nat) : AnalyzedProg :=
  (List.range params.1).foldl (analyzeRow prog params.2) ⟨prog, [], [], []⟩

/-! ### Config, Configs -/

structure Config where
  state : Nat
  tape : Tape
  init : Bool
deriving Repr, DecidableEq, Inhabited

/-- `Config::init`; `none` = panic in `Tape::init` -/
def Config.mkInit (seg pos : Nat) : Option Config :=
  match Tape.init seg pos with
  | none => none
  | some t => some ⟨0, t, true⟩

def Config.slot (c : Config) : Option Slot :=
  match c.tape.scan with
  | none => none
  | some scan => some (c.state, scan)

/-- `Config::step`; `none` = panic -/
def Config.step (c : Config) (instr : Instr) : Option Config :=
  match Tape.step c.tape instr.2.1 instr.1 (instr.2.2 == c.state) with
  | none => none
  | some t => some { c with tape := t, state := instr.2.2 }

def Config.spinout (c : Config) (instr : Instr) : Bool :=
  c.state == instr.2.2 && Tape.atEdge c.tape instr.2.1

structure Configs where
  seg : Nat
  /-- stack, top first -/
  todo : List Config
  seen : List (Nat × TapeSet)
  blanks : List (Nat × List Nat)
  reached : List (Nat × List Nat)
deriving Repr, Inhabited

/-- `Configs::new` -/
def Configs.new (halts : List Nat) (spinouts : List (Nat × Bool)) (seg : Nat) (goal : Term) :
    Configs :=
  let reached : List (Nat × List Nat) :=
    match goal with
    | .blank => []
    | .halt => halts.foldl (fun d state => dictSet d state []) []
    | .spinout => spinouts.foldl (fun d kv => dictSet d kv.1 []) []
  ⟨seg, [], [], [], reached⟩

def Configs.addTodo (c : Configs) (config : Config) : Configs :=
  { c with todo := config :: c.todo }

def Configs.checkDepth (c : Configs) : Bool :=
  c.seen.any fun kv => kv.2.size > MAX_DEPTH

/-- `Configs::next_init`; outer `none` = panic -/
def Configs.nextInit (c : Configs) : Option (Option Config × Configs) :=
  let blanks := dictEnsure c.blanks 0
  let blanks0 := (dictGet blanks 0).getD []
  match (List.range c.seg).find? (fun pos => !blanks0.contains pos) with
  | none => some (none, { c with blanks := blanks })
  | some pos =>
    match Config.mkInit c.seg pos with
    | none => none
    | some config => some (some config, { c with blanks := dictSetInsert blanks 0 pos })

/-- `Configs::check_seen` -/
def Configs.checkSeen (c : Configs) (state : Nat) (tape : Tape) (blank : Bool) :
    Option Bool × Configs :=
  if blank then
    let pos := Tape.pos tape
    if dictSetHas c.blanks state pos then (none, c)
    else (some (blank && state == 0), { c with blanks := dictSetInsert c.blanks state pos })
  else
    let seen := (dictGet c.seen state).getD TapeSet.empty
    if TapeSet.contains seen tape then (none, c)
    else
      (some (blank && state == 0),
        { c with seen := dictSet c.seen state (TapeSet.insert seen tape) })

/-- size of the union of all sets of a dict -/
def unionSize (d : List (Nat × List Nat)) : Nat :=
  (d.foldl (fun acc kv => kv.2.foldl setInsert acc) []).length

/-- `Configs::check_reached_blank` -/
def Configs.checkReachedBlank (c : Configs) (config : Config) : Bool × Configs :=
  match dictGet c.blanks config.state with
  | none => (false, c)
  | some _ =>
    let blanks := dictSetInsert c.blanks config.state (Tape.pos config.tape)
    (unionSize blanks == c.seg, { c with blanks := blanks })

/-- `Configs::check_reached` -/
def Configs.checkReached (c : Configs) (config : Config) (goal : Term) : Bool × Configs :=
  if goal == .blank then Configs.checkReachedBlank c config
  else
    match dictGet c.reached config.state with
    | none => (false, c)
    | some r =>
      let r' := setInsert r (Tape.pos config.tape)
      (r'.length == c.seg, { c with reached := dictSet c.reached config.state r' })

/-- the loop of `Configs::branch_in`; `none` = panic -/
def Configs.branchInLoop (c : Configs) (tape : Tape) (shift blank : Bool) :
    List Nat → Option Configs
  | [] => some c
  | state :: rest =>
    match Tape.stepIn tape shift with
    | none => none
    | some nextTape =>
      match Configs.checkSeen c state nextTape blank with
      | (none, c') => Configs.branchInLoop c' tape shift blank rest
      | (some init, c') =>
        Configs.branchInLoop (Configs.addTodo c' ⟨state, nextTape, init⟩) tape shift blank rest

/-- `Configs::branch_in`; `none` = panic -/
def Configs.branchIn (c : Configs) (tape : Tape) (dirs : Dirs) (blank : Bool) : Option Configs :=
  match Tape.side tape with
  | none => none
  | some side =>
    let shift := !side
    Configs.branchInLoop c tape shift blank (Dirs.get dirs shift)

/-- `Configs::branch_out`.  The Rust code moves the config itself into the last successor and
    clones the tape for the others; the values are the same. -/
def Configs.branchOut (c : Configs) (config : Config) (blank : Bool) : List Nat → Configs
  | [] => c
  | state :: rest =>
    match Configs.checkSeen c state config.tape blank with
    | (none, c') => Configs.branchOut c' config blank rest
    | (some init, c') =>
      Configs.branchOut (Configs.addTodo c' ⟨state, config.tape, init⟩) config blank rest

/-- `Iterator::next` for `Configs`: initial positions first, then the stack; outer `none` = panic -/
def Configs.next (c : Configs) : Option (Option Config × Configs) :=
  match Configs.nextInit c with
  | none => none
  | some (some config, c') => some (some config, c')
  | some (none, c') =>
    match c'.todo with
    | [] => some (none, c')
    | config :: rest => some (some config, { c' with todo := rest })

/-! ### run_to_edge -/

/-- what `run_to_edge` leaves behind: its return value, `self`, `configs` -/
structure RunOut where
  result : Option SearchResult
  config : Config
  configs : Configs

/-- the loop of `run_to_edge`.  `self` is the hare, `copy` the tortoise, `step` the flag of the
    same name. -/
def runLoop (prog : Prog) (goal : Term) :
    Nat → Config → Config → Bool → Configs → Except Err RunOut
  | 0, _, _, _, _ => .error .fuel
  | fuel + 1, self, copy, step, configs =>
    match Config.slot self with
    | none => .ok ⟨none, self, configs⟩
    | some slot =>
      match prog.get slot with
      | none => .ok ⟨some (.found .halt), self, configs⟩
      | some instr =>
        -- (self.init || goal == Spinout) && self.spinout(&instr)
        --   && (self.init || configs.check_reached(self, goal))
        let (spin, configs) : Bool × Configs :=
          if (self.init || goal == .spinout) && Config.spinout self instr then
            if self.init then (true, configs) else Configs.checkReached configs self goal
          else (false, configs)
        if spin then .ok ⟨some (.found .spinout), self, configs⟩
        else
          match Config.step self instr with
          | none => .error .panic
          | some self =>
            let print := instr.1
            let state := instr.2.2
            -- the `if print == 0 && self.tape.blank()` block: early return, or new self/configs
            let blk : Option SearchResult × Config × Configs :=
              if print == 0 && Tape.blank self.tape then
                if state == 0 && self.init then (some .repeat, self, configs)
                else
                  let self := if state == 0 then { self with init := true } else self
                  let configs :=
                    { configs with blanks := dictSetInsert configs.blanks state (Tape.pos self.tape) }
                  if goal == .blank then (some (.found .blank), self, configs)
                  else (none, self, configs)
              else (none, self, configs)
            match blk with
            | (some r, self, configs) => .ok ⟨some r, self, configs⟩
            | (none, self, configs) =>
              if !step then runLoop prog goal fuel self copy true configs
              else
                match Config.slot copy with
                | none => .error .panic
                | some cslot =>
                  match prog.get cslot with
                  | none => .error .panic
                  | some cinstr =>
                    match Config.step copy cinstr with
                    | none => .error .panic
                    | some copy =>
                      if copy.state == self.state && copy.tape == self.tape then
                        .ok ⟨some .repeat, self, configs⟩
                      else runLoop prog goal fuel self copy false configs

/-- `Config::run_to_edge` -/
def runToEdge (prog : Prog) (goal : Term) (fuel : Nat) (self : Config) (configs : Configs) :
    Except Err RunOut :=
  match self.tape.scan with
  | none => .ok ⟨none, self, configs⟩
  | some _ => runLoop prog goal fuel self self false configs

/-! ### all_segments_reached -/

/-- effect of one iteration of the `while let` loop -/
inductive StepOut where
  | done (r : SearchResult)
  | cont (configs : Configs)

/-- the part of the loop body after `run_to_edge` returned `None` -/
def edgeStep (prog : AnalyzedProg) (goal : Term) (config : Config) (configs : Configs) :
    Except Err StepOut :=
  let goalTape : Except Err Bool :=
    match goal with
    | .halt => .ok true
    | .blank => .ok (Tape.blank config.tape)
    | .spinout =>
      match dictGet prog.spinouts config.state with
      | none => .ok false
      | some shift =>
        match Tape.side config.tape with
        | none => .error .panic
        | some side => .ok (shift == side || Tape.blank config.tape)
  match goalTape with
  | .error e => .error e
  | .ok goalTape =>
    let (hit, configs) : Bool × Configs :=
      if goalTape then Configs.checkReached configs config goal else (false, configs)
    if hit then .ok (.done .reached)
    else
      match dictGet prog.branches config.state with
      | none => .error .panic
      | some (diffs, dirs) =>
        let blank := Tape.blank config.tape
        match Configs.branchIn configs config.tape dirs blank with
        | none => .error .panic
        | some configs =>
          let configs := Configs.branchOut configs config blank diffs
          if Configs.checkDepth configs then .ok (.done .limit) else .ok (.cont configs)

/-- the `match result` after `run_to_edge` returned `Some(result)` -/
def resultStep (goal : Term) (result : SearchResult) (config : Config) (configs : Configs) :
    Except Err StepOut :=
  match result with
  | .repeat =>
    if config.init then
      .ok (.done (if goal == .blank && Tape.blank config.tape then .found .blank else .repeat))
    else .ok (.cont configs)
  | .found .halt =>
    if config.init then .ok (.done (.found .halt))
    else if goal == .halt then
      let (hit, configs) := Configs.checkReached configs config goal
      if hit then .ok (.done .reached) else .ok (.cont configs)
    else .ok (.cont configs)
  | .found .blank =>
    if goal != .blank then .error .panic
    else
      let (hit, configs) := Configs.checkReached configs config goal
      if hit then .ok (.done .reached) else .ok (.cont configs)
  | .found .spinout =>
    if config.init then .ok (.done (.found .spinout))
    else if goal != .spinout then .error .panic
    else
      let (hit, configs) := Configs.checkReached configs config goal
      if hit then .ok (.done .reached) else .ok (.cont configs)
  | .limit => .ok (.cont configs)
  | .reached => .ok (.cont configs)

/-- one iteration of the `while let` loop of `all_segments_reached` -/
def searchStep (prog : AnalyzedProg) (goal : Term) (runFuel : Nat) (config : Config)
    (configs : Configs) : Except Err StepOut :=
  match runToEdge prog.prog goal runFuel config configs with
  | .error e => .error e
  | .ok ⟨some result, config, configs⟩ => resultStep goal result config configs
  | .ok ⟨none, config, configs⟩ => edgeStep prog goal config configs

def searchLoop (prog : AnalyzedProg) (goal : Term) (runFuel : Nat) :
    Nat → Configs → Except Err (Option SearchResult)
  | 0, _ => .error .fuel
  | fuel + 1, configs =>
    match Configs.next configs with
    | none => .error .panic
    | some (none, _) => .ok none
    | some (some config, configs) =>
      match searchStep prog goal runFuel config configs with
      | .error e => .error e
      | .ok (.done r) => .ok (some r)
      | .ok (.cont configs) => searchLoop prog goal runFuel fuel configs

/-- number of states / colours that can occur in a configuration: 1 + max over keys and
    instruction contents -/
def dims (p : Prog) : Nat × Nat :=
  let m := p.paramsFix
  (1 + m.1, 1 + m.2)

/-- bound on the iterations of `runLoop`: Floyd's hare takes at most twice the number of
    distinct (state, tape) pairs with the head inside a window of `seg - 2` cells. -/
def runFuel (p : Prog) (seg : Nat) : Nat :=
  let d := dims p
  2 * (d.1 * d.2 ^ (seg - 2) * (seg - 2)) + 4

/-- bound on the iterations of `searchLoop`: `seg` initial configurations plus one per successful
    `check_seen`; `blanks` holds at most `seg` positions per state, `seen` at most
    `MAX_DEPTH` tapes per state before `check_depth` stops the search, plus what one iteration
    adds. -/
def searchFuel (p : Prog) (seg : Nat) : Nat :=
  let n := (dims p).1
  seg + n * (MAX_DEPTH + seg + 2 * n + 2) + 2

/-- `all_segments_reached` -/
def allSegmentsReached (prog : AnalyzedProg) (seg : Nat) (goal : Term) :
    Except Err (Option SearchResult) :=
  searchLoop prog goal (runFuel prog.prog seg) (searchFuel prog.prog seg)
    (Configs.new prog.halts prog.spinouts seg goal)

/-! ### segment_cant_reach -/

/-- the loop `for seg in 2..=segs`, started at `seg` with `fuel` iterations left -/
def segmentLoop (prog : AnalyzedProg) (goal : Term) : Nat → Nat → Except Err SegmentResult
  | 0, _ => .ok .segmentLimit
  | fuel + 1, seg =>
    match allSegmentsReached prog (2 + seg) goal with
    | .error e => .error e
    | .ok none => .ok (.refuted seg)
    | .ok (some .limit) => .ok .depthLimit
    | .ok (some .repeat) => .ok .repeat
    | .ok (some (.found found)) => .ok (SegmentResult.ofTerm found)
    | .ok (some .reached) => segmentLoop prog goal fuel (seg + 1)

/-- `segment_cant_reach` -/
def segmentCantReach (prog : Prog) (params : Nat × Nat) (segs : Nat) (goal : Term) :
    Except Err SegmentResult :=
  if segs < 2 then .error .panic
  else
    let ap := AnalyzedProg.new prog params
    if (goal == .halt && ap.halts.isEmpty) || (goal == .spinout && ap.spinouts.isEmpty) then
      .ok (.refuted 0)
    else segmentLoop ap goal (segs - 1) 2

/-- `trait Segment` -/
def segCantHalt (prog : Prog) (params : Nat × Nat) (segs : Nat) : Except Err SegmentResult :=
  segmentCantReach prog params segs .halt

def segCantBlank (prog : Prog) (params : Nat × Nat) (segs : Nat) : Except Err SegmentResult :=
  segmentCantReach prog params segs .blank

def segCantSpinOut (prog : Prog) (params : Nat × Nat) (segs : Nat) : Except Err SegmentResult :=
  segmentCantReach prog params segs .spinout

/-! ### wrappers.rs -/

/-- the params `get_comp` derives: 1 + maxima over the *defined keys* only (finding F2);
    with `fixF2`, over keys and instruction contents. -/
def getCompParams (prog : Prog) (fixF2 : Bool := false) : Nat × Nat :=
  let m := if fixF2 then prog.paramsFix else prog.params
  (1 + m.1, 1 + m.2)

/-- `py_segment_cant_halt` / `_blank` / `_spin_out` after parsing -/
def pySegmentCantReach (prog : Prog) (segs : Nat) (goal : Term) (fixF2 : Bool := false) :
    Except Err SegmentResult :=
  segmentCantReach prog (getCompParams prog fixF2) segs goal

end BB.Segment
