/-
Validators for the rule-accelerated run (C02 / C03): each individual answer of the heuristic
prover is checked by re-running the *verified* run-length simulator (C01).  Import-free.

`checkApp p q before after budget` — is `(q, after)` reached from `(q, before)` by plain
simulator cycles, passing through no undefined instruction and no spin-out?
-/
import BB.Model.Machine

namespace BB

inductive AppRes where
  | ok (cycles : Nat) (steps : Nat)   -- reached, after that many plain cycles / base steps
  | undefinedOnWay (slot : Slot)
  | spinoutOnWay
  | overBudget
  | notCanon                          -- `after` has a block of count 0 (driven to zero)
deriving Repr, DecidableEq, Inhabited

/-- one plain simulator cycle from (state, tape): `none` = cannot step (undefined / spin-out) -/
inductive PlainStep where
  | undefined (slot : Slot)
  | spinout
  | next (state : Nat) (tape : Tape) (stepped : Nat)

def plainStep (p : Prog) (q : Nat) (t : Tape) : PlainStep :=
  match p.get (q, t.scan) with
  | none => .undefined (q, t.scan)
  | some (color, shift, next) =>
    let same := q == next
    if same && t.atEdge shift then .spinout
    else
      let (t', k) := t.step shift color same
      .next next t' k

def Span.allPos (s : Span) : Bool := s.all (fun b => b.count != 0)

def checkAppLoop (p : Prog) (q : Nat) (after : Tape) :
    Nat → Nat → Nat → Nat → Tape → AppRes
  | 0, _, _, _, _ => .overBudget
  | fuel + 1, cycles, steps, cur, t =>
    match plainStep p cur t with
    | .undefined slot => .undefinedOnWay slot
    | .spinout => .spinoutOnWay
    | .next cur' t' k =>
      if cur' == q && t' == after then .ok (cycles + 1) (steps + k)
      else checkAppLoop p q after fuel (cycles + 1) (steps + k) cur' t'

/-- at least one plain cycle is required (a rule application is ≥ 1 machine steps) -/
def checkApp (p : Prog) (q : Nat) (before after : Tape) (budget : Nat) : AppRes :=
  if !(Span.allPos after.lspan && Span.allPos after.rspan) then .notCanon
  else checkAppLoop p q after budget 0 0 q before

/-! ### Parsing the `Display` form of a tape: `2^3 1^12 [3] 4^15 5^2` -/

def parseNat? (cs : List Char) : Option Nat :=
  if cs.isEmpty || !cs.all Char.isDigit then none
  else some (cs.foldl (fun acc c => acc * 10 + (c.toNat - 48)) 0)

def parseBlock (tok : List Char) : Option Block :=
  match tok.span (· != '^') with
  | (c, []) =>
    -- "c" or "c.."
    if tok.length > 2 && tok.drop (tok.length - 2) == ['.', '.'] then
      (parseNat? (tok.take (tok.length - 2))).map fun co => ⟨co, 0⟩
    else (parseNat? c).map fun co => ⟨co, 1⟩
  | (c, _ :: n) => match parseNat? c, parseNat? n with
    | some co, some k => some ⟨co, k⟩
    | _, _ => none

def parseTapeToks : List (List Char) → List Block → Option (List Block × Nat × List (List Char))
  | [], _ => none
  | tok :: rest, acc =>
    match tok with
    | '[' :: inner =>
      match parseNat? (inner.takeWhile (· != ']')) with
      | some sc => some (acc, sc, rest)
      | none => none
    | _ => match parseBlock tok with
      | some b => parseTapeToks rest (b :: acc)   -- left blocks arrive far-to-near: cons reverses
      | none => none

def parseBlocks : List (List Char) → Option (List Block)
  | [] => some []
  | tok :: rest => match parseBlock tok, parseBlocks rest with
    | some b, some bs => some (b :: bs)
    | _, _ => none

/-- inverse of `Tape.show` -/
def Tape.parse (s : String) : Option Tape :=
  match parseTapeToks (splitOne s.toList) [] with
  | none => none
  | some (l, sc, restToks) =>
    match parseBlocks restToks with
    | some r => some ⟨sc, l, r⟩
    | none => none

end BB
