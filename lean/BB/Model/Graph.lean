/-
L1 model of src/graph.rs: exit points and the connectivity filter.
Imports only BB.Model.Instrs.
-/
import BB.Model.Instrs

namespace BB.Graph

/-- `Exitpoints = BTreeMap<State, Vec<State>>`: association list sorted by key. -/
abbrev Exitpoints := List (Nat × List Nat)

def Exitpoints.get (e : Exitpoints) (q : Nat) : Option (List Nat) :=
  match e with
  | [] => none
  | (k, v) :: rest => if k == q then some v else Exitpoints.get rest q

/-- `exitpoints.entry(src).or_default().push(dst)` -/
def Exitpoints.pushExit (e : Exitpoints) (src dst : Nat) : Exitpoints :=
  match e with
  | [] => [(src, [dst])]
  | (k, v) :: rest =>
    if k == src then (k, v ++ [dst]) :: rest
    else if src < k then (src, [dst]) :: (k, v) :: rest
    else (k, v) :: Exitpoints.pushExit rest src dst

def insertSorted (x : Nat) : List Nat → List Nat
  | [] => [x]
  | y :: ys => if x ≤ y then x :: y :: ys else y :: insertSorted x ys

/-- `sort_unstable` -/
def sortNat : List Nat → List Nat
  | [] => []
  | x :: xs => insertSorted x (sortNat xs)

/-- `Vec::dedup`: drop consecutive repeats -/
def dedup : List Nat → List Nat
  | [] => []
  | [x] => [x]
  | x :: y :: rest => if x == y then dedup (y :: rest) else x :: dedup (y :: rest)

/-- `get_exitpoints`: self-loops are not exits; values sorted and deduplicated. -/
def getExitpoints (p : Prog) : Exitpoints :=
  let raw := p.foldl (fun (e : Exitpoints) kv =>
    if kv.1.1 == kv.2.2.2 then e else e.pushExit kv.1.1 kv.2.2.2) []
  raw.map fun kv => (kv.1, dedup (sortNat kv.2))

inductive Out where
  | ok (b : Bool)
  | panic          -- `exitpoints[&k]` on a missing key
  | overflow       -- `states - 1` with `states = 0`
deriving Repr, DecidableEq, Inhabited

/-- `for &exit in &exitpoints[&state] { if !reached.contains(&exit) && !todo.contains(&exit)
    { todo.push(exit) } }`; the stack is kept top first. -/
def pushExits (reached : List Nat) : List Nat → List Nat → List Nat
  | [], todo => todo
  | e :: rest, todo =>
    if !reached.contains e && !todo.contains e then pushExits reached rest (e :: todo)
    else pushExits reached rest todo

/-- `for _ in 0..states { .. }` followed by `false`; fuel = pops left.
    `todo`: stack, top first.  `reached`: the `BTreeSet` (only membership is used). -/
def search (ex : Exitpoints) : Nat → List Nat → List Nat → Out
  | 0, _, _ => .ok false
  | _ + 1, [], _ => .ok false
  | fuel + 1, state :: todo, reached =>
    if state == 0 then .ok true
    else if reached.contains state then search ex fuel todo reached
    else
      match ex.get state with
      | none => .panic
      | some exits =>
        let reached' := insertSorted state reached
        search ex fuel (pushExits reached' exits todo) reached'

/-- `is_connected` -/
def isConnected (p : Prog) (states : Nat) : Out :=
  let ex := getExitpoints p
  if ex.length < states then .ok false
  else if states == 0 then .overflow
  else
    match ex.get (states - 1) with
    | none => .panic
    | some first => search ex states first.reverse []

end BB.Graph
