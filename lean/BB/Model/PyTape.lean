/-
L1 model of tm/tape.py `Tape.step` (the Python compressed-tape step), over the same `Tape`
structure as the model of src/tape.rs.  Import-free apart from BB.Model.Tape.

The Python method mutates the two span lists and *reuses* a `Block` object: the block that
leaves the pull side (either the swept block, or the single-cell block the head lands on) is
recoloured / recounted and inserted on the push side instead of allocating a new one.  That
reuse is expressed functionally below: `pushBlock : Option Block` is the Python local
`push_block`, and every assignment to one of its fields is a new `Block` value bound to the same
role.  No other reference to a reused block survives the call (it has been popped from `pull`),
so the functional reading loses nothing.

Python counts are unbounded `int`s.  They are modelled as `Nat`, which agrees as long as no
count goes negative.  The only subtraction is `next_pull.count -= 1`, executed when
`next_pull.count != 1`; on a block of count 0 Python produces -1 where this model produces 0.
That case (a zero-count block arriving under the head) is exactly the case in which
`Tape.step` (Rust) and `pyStep` differ anyway: see `BB.Props.C17`.
-/
import BB.Model.Tape

namespace BB

/-- ```
    push_block = (
        pull.pop(0)
        if skip and pull and pull[0].color == self.scan else
        None
    )
    ```
    returns (`push_block`, `pull` after the pop). -/
def pySweep (pull : Span) (scan : Nat) (skip : Bool) : Option Block × Span :=
  match pull with
  | b :: rest => if skip && b.color == scan then (some b, rest) else (none, pull)
  | [] => (none, pull)

/-- `stepped = 1 if push_block is None else 1 + push_block.count` -/
def pyStepped (pushBlock : Option Block) : Nat :=
  match pushBlock with
  | none => 1
  | some b => 1 + b.count

/-- ```
    if not pull:
        next_scan = 0
    else:
        next_scan = (next_pull := pull[0]).color
        if next_pull.count != 1:
            next_pull.count -= 1
        else:
            popped = pull.pop(0)
            if push_block is None:
                push_block = popped
                push_block.count = 0
    ```
    returns (`next_scan`, `pull`, `push_block`). -/
def pyNext (pull : Span) (pushBlock : Option Block) : Nat × Span × Option Block :=
  match pull with
  | [] => (0, pull, pushBlock)
  | nextPull :: rest =>
    if nextPull.count != 1 then
      (nextPull.color, ⟨nextPull.color, nextPull.count - 1⟩ :: rest, pushBlock)
    else
      match pushBlock with
      | none => (nextPull.color, rest, some ⟨nextPull.color, 0⟩)
      | some _ => (nextPull.color, rest, pushBlock)

/-- ```
    if push_block is None:
        push_block = Block(color, 1)
    else:
        push_block.color = color
        push_block.count += 1
    push.insert(0, push_block)
    ``` -/
def pyInsert (push : Span) (color : Nat) (pushBlock : Option Block) : Span :=
  match pushBlock with
  | none => ⟨color, 1⟩ :: push
  | some pb => ⟨color, pb.count + 1⟩ :: push

/-- ```
    if push and (top_block := push[0]).color == color:
        top_block.count += stepped
    elif push or color != 0:
        <pyInsert>
    ``` -/
def pyPush (push : Span) (color : Nat) (stepped : Nat) (pushBlock : Option Block) : Span :=
  match push with
  | topBlock :: rest =>
    if topBlock.color == color then ⟨topBlock.color, topBlock.count + stepped⟩ :: rest
    else pyInsert push color pushBlock
  | [] =>
    if color != 0 then pyInsert push color pushBlock
    else push

/-- `tm.tape.Tape.step(shift, color, skip)`: the tape after the call and the returned
    `stepped`. -/
def pyStep (t : Tape) (shift : Bool) (color : Nat) (skip : Bool) : Tape × Nat :=
  let pull := if shift then t.rspan else t.lspan
  let push := if shift then t.lspan else t.rspan
  let (pushBlock, pull1) := pySweep pull t.scan skip
  let stepped := pyStepped pushBlock
  let (nextScan, pull2, pushBlock2) := pyNext pull1 pushBlock
  let push2 := pyPush push color stepped pushBlock2
  if shift then (⟨nextScan, push2, pull2⟩, stepped)
  else (⟨nextScan, pull2, push2⟩, stepped)

end BB
