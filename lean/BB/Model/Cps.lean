/-
L1 model of src/cps.rs: closed-position-set analysis.
Imports only BB.Model.Instrs.

Reading of the Rust code (see the report of the port for details):

* `Configs.seen` is a `HashSet<Config>`; each pass builds its work-list (`todo`, a stack) from the
  set's iteration order.  The model keeps `seen` as a list, **newest first**, so that the list
  itself is the stack obtained from "insertion order, popped from the back".  The hash order is
  abstracted by the parameter `order` (a function applied to the list when a pass starts;
  default `id`).  Besides the list, `Configs` carries a membership index (a trie keyed by
  `Config.key`) and the length, so that `contains`/`len` are not linear scans.
* `Spans = BTreeMap<Vec<Color>, HashSet<Color>>`: its iteration order is never observed (only
  `get`/`get_mut`/`insert`), so the model uses the same trie as a finite map; the value is the list
  of colours in insertion order and `getColors` sorts it (as `get_colors` does).
* The inner `while let Some(config) = todo.pop()` has no limit of its own in the Rust code (it
  terminates because the configuration space is finite); the model gives it a fuel argument and
  reports exhaustion as the separate outcome `CpsRes.fuel` (never a Boolean).
* Panic sites: `assert!(rad > 1)` in `cps_run`, `assert!(rad > 0)` in `Span::init`,
  `get(..).unwrap()` in `get_colors`, `split_last().unwrap()`.
-/
import BB.Model.Instrs

namespace BB.Cps

/-! ### A finite map keyed by lists of naturals (left-child / right-sibling trie) -/

inductive Trie (α : Type) where
  | nil
  | node (key : Nat) (val : Option α) (child : Trie α) (sibling : Trie α)
deriving Repr, Inhabited

/-- value stored under the non-empty key `x :: xs` -/
def Trie.find? {α : Type} : Trie α → Nat → List Nat → Option α
  | .nil, _, _ => none
  | .node k v c s, x, xs =>
    if x == k then
      match xs with
      | [] => v
      | y :: ys => c.find? y ys
    else s.find? x xs

/-- the trie holding exactly `x :: xs ↦ a` -/
def Trie.single {α : Type} (x : Nat) (xs : List Nat) (a : α) : Trie α :=
  match xs with
  | [] => .node x (some a) .nil .nil
  | y :: ys => .node x none (Trie.single y ys a) .nil

def Trie.insert {α : Type} : Trie α → Nat → List Nat → α → Trie α
  | .nil, x, xs, a => Trie.single x xs a
  | .node k v c s, x, xs, a =>
    if x == k then
      match xs with
      | [] => .node k (some a) c s
      | y :: ys => .node k v (c.insert y ys a) s
    else .node k v c (s.insert x xs a)

/-- finite map `List Nat → α` (the empty key is kept at the root) -/
structure TMap (α : Type) where
  root : Option α := none
  kids : Trie α := .nil
deriving Repr, Inhabited

def TMap.empty {α : Type} : TMap α := {}

def TMap.find? {α : Type} (m : TMap α) : List Nat → Option α
  | [] => m.root
  | x :: xs => m.kids.find? x xs

def TMap.insert {α : Type} (m : TMap α) (k : List Nat) (a : α) : TMap α :=
  match k with
  | [] => { m with root := some a }
  | x :: xs => { m with kids := m.kids.insert x xs a }

def TMap.contains {α : Type} (m : TMap α) (k : List Nat) : Bool := (m.find? k).isSome

/-! ### sorting (`sort_unstable` on colours) -/

def insertSorted (x : Nat) : List Nat → List Nat
  | [] => [x]
  | y :: ys => if x ≤ y then x :: y :: ys else y :: insertSorted x ys

def sortNat : List Nat → List Nat
  | [] => []
  | x :: xs => insertSorted x (sortNat xs)

/-! ### Term, Span, Tape, Config -/

/-- `instrs::Term` -/
inductive Goal where
  | halt | blank | spinout
deriving Repr, DecidableEq, Inhabited

structure Span where
  span : List Nat
  last : Nat
deriving Repr, DecidableEq, Inhabited

/-- `Span::init` (the caller checks `assert!(rad > 0)`). -/
def Span.init (rad : Nat) : Span := ⟨List.replicate (rad - 1) 0, 0⟩

/-- `(x :: l).dropLast, (x :: l).getLast` in one pass -/
def splitLast (x : Nat) : List Nat → List Nat × Nat
  | [] => ([], x)
  | y :: ys => let r := splitLast y ys; (x :: r.1, r.2)

/-- `split_last()` -/
def splitLast? : List Nat → Option (List Nat × Nat)
  | [] => none
  | x :: xs => some (splitLast x xs)

/-- `Span::push`: `span.insert(0, color); last = span.pop().unwrap()` (never panics). -/
def Span.push (s : Span) (color : Nat) : Span :=
  let r := splitLast color s.span
  ⟨r.1, r.2⟩

/-- `Span::pull`: `span.push(last); span.remove(0)` (never panics); `last` is left as it was. -/
def Span.pull (s : Span) : Nat × Span :=
  match s.span with
  | [] => (s.last, s)
  | c :: rest => (c, ⟨rest ++ [s.last], s.last⟩)

def Span.blankSpan (s : Span) : Bool := s.span.all (· == 0)

def Span.allBlank (s : Span) : Bool := s.last == 0 && s.blankSpan

structure Tape where
  scan  : Nat
  lspan : Span
  rspan : Span
deriving Repr, DecidableEq, Inhabited

def Tape.init (rad : Nat) : Tape := ⟨0, Span.init rad, Span.init rad⟩

/-- `Tape::from_spans` -/
def Tape.fromSpans (scan : Nat) (push pull : Span) (shift : Bool) : Tape :=
  if shift then ⟨scan, push, pull⟩ else ⟨scan, pull, push⟩

structure Config where
  state : Nat
  tape  : Tape
deriving Repr, DecidableEq, Inhabited

def Config.init (rad : Nat) : Config := ⟨0, Tape.init rad⟩

/-- injective encoding of a configuration as a trie key -/
def Config.key (c : Config) : List Nat :=
  c.state :: c.tape.scan :: c.tape.lspan.last :: c.tape.rspan.last :: c.tape.lspan.span.length ::
    (c.tape.lspan.span ++ c.tape.rspan.span)

/-! ### Spans -/

/-- `Dict<Vec<Color>, Set<Color>>`; values in insertion order, no duplicates. -/
abbrev Spans := TMap (List Nat)

/-- `AddSpan::add_span` -/
def addSpan (m : Spans) (s : Span) : Spans :=
  match m.find? s.span with
  | some colors => if colors.contains s.last then m else m.insert s.span (colors ++ [s.last])
  | none => m.insert s.span [s.last]

/-- `AddSpan::get_colors`; `none` = the `unwrap` panics. -/
def getColors (m : Spans) (s : Span) : Option (List Nat) :=
  match m.find? s.span with
  | some colors => some (sortNat colors)
  | none => none

/-- `s.last` is registered for `s.span` -/
def hasColor (m : Spans) (s : Span) : Bool :=
  match m.find? s.span with
  | some colors => colors.contains s.last
  | none => false

/-! ### Configs -/

structure Configs where
  /-- the `HashSet`, newest first -/
  seen   : List Config
  /-- membership index: `index.contains c.key ↔ c ∈ seen` -/
  index  : TMap Unit
  /-- `seen.length` -/
  size   : Nat
  lspans : Spans
  rspans : Spans
deriving Repr, Inhabited

def Configs.contains (cs : Configs) (c : Config) : Bool := cs.index.contains c.key

def Configs.insert (cs : Configs) (c : Config) : Configs :=
  { cs with seen := c :: cs.seen, index := cs.index.insert c.key (), size := cs.size + 1 }

/-- `Configs::init` -/
def Configs.init (rad : Nat) : Configs :=
  let init := Config.init rad
  Configs.insert
    { seen := [], index := {}, size := 0,
      lspans := addSpan {} init.tape.lspan,
      rspans := addSpan {} init.tape.rspan }
    init

/-! ### cps_cant_reach -/

def MAX_LOOPS : Nat := 1000
def MAX_DEPTH : Nat := 100000

/-- the goal test between the pull and the successor generation -/
def goalTest (goal : Goal) (colors : List Nat) (scan : Nat) (pull push : Span)
    (state next : Nat) : Bool :=
  goal != .halt && colors.contains 0 && scan == 0 && pull.blankSpan &&
    (match goal with
     | .blank => push.allBlank
     | .spinout => state == next
     | .halt => false)

/-- the successor configuration whose pull side ends in `color` -/
def mkNext (next scan : Nat) (push pull : Span) (shift : Bool) (color : Nat) : Config :=
  ⟨next, Tape.fromSpans scan push { pull with last := color } shift⟩

/-- `if seen.contains(next) { continue }; seen.insert(next); todo.push(next); update = true` for
    every colour but the last -/
def addNexts (mk : Nat → Config) : List Nat → Configs → List Config → Bool →
    Configs × List Config × Bool
  | [], cs, todo, upd => (cs, todo, upd)
  | color :: rest, cs, todo, upd =>
    let nc := mk color
    if cs.contains nc then addNexts mk rest cs todo upd
    else addNexts mk rest (cs.insert nc) (nc :: todo) true

inductive StepRes where
  | retFalse             -- `return false` from `cps_cant_reach`
  | panic
  | cont (cs : Configs) (todo : List Config) (update : Bool)

/-- body of the `while let Some(config) = todo.pop()` loop for the popped `c`;
    `todo` is the rest of the stack (top first). -/
def stepConfig (p : Prog) (goal : Goal) (maxDepth : Nat)
    (cs : Configs) (todo : List Config) (update : Bool) (c : Config) : StepRes :=
  match p.get (c.state, c.tape.scan) with
  | none =>
    match goal with
    | .halt => .retFalse
    | _ => .cont cs todo update
  | some (print, shift, next) =>
    let pull0 := if shift then c.tape.rspan else c.tape.lspan
    let push0 := if shift then c.tape.lspan else c.tape.rspan
    -- push_spans.add_span(push)
    let cs1 : Configs :=
      if shift then { cs with lspans := addSpan cs.lspans push0 }
      else { cs with rspans := addSpan cs.rspans push0 }
    let push := push0.push print
    let pulled := pull0.pull
    let scan := pulled.1
    let pull := pulled.2
    match getColors (if shift then cs1.rspans else cs1.lspans) pull with
    | none => .panic
    | some colors =>
      if goalTest goal colors scan pull push c.state next then .retFalse
      else
        match splitLast? colors with
        | none => .panic
        | some (initColors, lastColor) =>
          let mk := mkNext next scan push pull shift
          let r := addNexts mk initColors cs1 todo update
          let nc := mk lastColor
          -- `continue` skips the MAX_DEPTH test
          if r.1.contains nc then .cont r.1 r.2.1 r.2.2
          else
            let cs3 := r.1.insert nc
            if cs3.size > maxDepth then .retFalse
            else .cont cs3 (nc :: r.2.1) true

inductive PassRes where
  | retFalse
  | panic
  | fuel
  | done (cs : Configs) (update : Bool)

/-- one pass = the `while let` loop; `fuel` bounds the number of pops (no Rust counterpart). -/
def runPass (p : Prog) (goal : Goal) (maxDepth : Nat) :
    Nat → Configs → List Config → Bool → PassRes
  | _, cs, [], upd => .done cs upd
  | 0, _, _ :: _, _ => .fuel
  | fuel + 1, cs, c :: todo, upd =>
    match stepConfig p goal maxDepth cs todo upd c with
    | .retFalse => .retFalse
    | .panic => .panic
    | .cont cs' todo' upd' => runPass p goal maxDepth fuel cs' todo' upd'

inductive CpsRes where
  /-- Rust `true`, with the final (`seen`, `lspans`, `rspans`) -/
  | yes (cs : Configs)
  /-- Rust `false` -/
  | no
  | panic
  /-- the model's inner fuel ran out (not a Rust outcome) -/
  | fuel

/-- `for _ in 0..MAX_LOOPS` : the fuel is the number of passes left. -/
def cpsLoop (p : Prog) (goal : Goal) (maxDepth innerFuel : Nat)
    (order : List Config → List Config) : Nat → Configs → CpsRes
  | 0, _ => .no
  | loops + 1, cs =>
    match runPass p goal maxDepth innerFuel cs (order cs.seen) false with
    | .retFalse => .no
    | .panic => .panic
    | .fuel => .fuel
    | .done cs' upd =>
      if upd then cpsLoop p goal maxDepth innerFuel order loops cs' else .yes cs'

/-- a bound on the number of distinct configurations (hence on the pops of one pass):
    `states * colours ^ (2 * rad + 1)`. -/
def innerFuelFor (p : Prog) (rad : Nat) : Nat :=
  let m := p.paramsFix
  (m.1 + 1) * (m.2 + 1) ^ (2 * rad + 1) + 1

/-- `cps_cant_reach` -/
def cpsCantReach (p : Prog) (rad : Nat) (goal : Goal)
    (maxLoops : Nat := MAX_LOOPS) (maxDepth : Nat := MAX_DEPTH)
    (innerFuel : Nat := innerFuelFor p rad)
    (order : List Config → List Config := id) : CpsRes :=
  if rad == 0 then .panic   -- `Span::init`: `assert!(rad > 0)`
  else cpsLoop p goal maxDepth innerFuel order maxLoops (Configs.init rad)

/-- the answer of a run -/
inductive CpsOut where
  | ok (b : Bool)
  | panic
  | fuel
deriving Repr, DecidableEq, Inhabited

/-- `(seg..seg+n).any(|seg| cps_cant_reach(prog, seg, goal))` -/
def cpsRunFrom (reach : Nat → CpsRes) : Nat → Nat → CpsOut
  | 0, _ => .ok false
  | n + 1, seg =>
    match reach seg with
    | .yes _ => .ok true
    | .no => cpsRunFrom reach n (seg + 1)
    | .panic => .panic
    | .fuel => .fuel

/-- `cps_run`: `assert!(rad > 1); (2..rad).any(..)` -/
def cpsRun (p : Prog) (rad : Nat) (goal : Goal)
    (maxLoops : Nat := MAX_LOOPS) (maxDepth : Nat := MAX_DEPTH)
    (order : List Config → List Config := id) : CpsOut :=
  if rad ≤ 1 then .panic
  else cpsRunFrom
    (fun seg => cpsCantReach p seg goal maxLoops maxDepth (innerFuelFor p seg) order) (rad - 2) 2

/-- `Cps::cps_cant_halt` (switch `fixF2`: table size from keys and instruction contents) -/
def cpsCantHalt (p : Prog) (rad : Nat) (fixF2 : Bool := false)
    (order : List Config → List Config := id) : CpsOut :=
  if (p.haltSlots fixF2).isEmpty then .ok true
  else cpsRun p rad .halt MAX_LOOPS MAX_DEPTH order

/-- `Cps::cps_cant_blank` -/
def cpsCantBlank (p : Prog) (rad : Nat)
    (order : List Config → List Config := id) : CpsOut :=
  if p.eraseSlots.isEmpty then .ok true
  else cpsRun p rad .blank MAX_LOOPS MAX_DEPTH order

/-- `Cps::cps_cant_spin_out` -/
def cpsCantSpinOut (p : Prog) (rad : Nat)
    (order : List Config → List Config := id) : CpsOut :=
  if p.zrShifts.isEmpty then .ok true
  else cpsRun p rad .spinout MAX_LOOPS MAX_DEPTH order

/-! ### Independent closure check of a final triple -/

inductive Unclosed where
  | noInit        -- the initial configuration is not in `seen`
  | initSpans     -- the all-blank spans are not registered
  | haltSlot      -- goal = halt and a configuration in `seen` has no instruction
  | pushUnreg     -- the push-side span of a configuration is not registered
  | pullUnreg     -- no colour is registered for the pulled span
  | goalHit       -- a configuration in `seen` is goal-compatible
  | succMissing   -- a successor is not in `seen`
deriving Repr, DecidableEq, Inhabited

/-- the conditions on one configuration of `seen` -/
def checkConfig (p : Prog) (goal : Goal) (idx : TMap Unit) (lspans rspans : Spans)
    (c : Config) : Option Unclosed :=
  match p.get (c.state, c.tape.scan) with
  | none =>
    match goal with
    | .halt => some .haltSlot
    | _ => none
  | some (print, shift, next) =>
    let pull0 := if shift then c.tape.rspan else c.tape.lspan
    let push0 := if shift then c.tape.lspan else c.tape.rspan
    if !hasColor (if shift then lspans else rspans) push0 then some .pushUnreg
    else
      let push := push0.push print
      let pulled := pull0.pull
      match getColors (if shift then rspans else lspans) pulled.2 with
      | none => some .pullUnreg
      | some colors =>
        if goalTest goal colors pulled.1 pulled.2 push c.state next then some .goalHit
        else if colors.all
            (fun color => idx.contains (mkNext next pulled.1 push pulled.2 shift color).key)
          then none
        else some .succMissing

def checkAll (p : Prog) (goal : Goal) (idx : TMap Unit) (lspans rspans : Spans) :
    List Config → Option Unclosed
  | [] => none
  | c :: rest =>
    match checkConfig p goal idx lspans rspans c with
    | some e => some e
    | none => checkAll p goal idx lspans rspans rest

/-- `none` iff (`seen`, `lspans`, `rspans`) is a closed position set for radius `rad`:
    it contains the initial configuration and the all-blank spans, every configuration's
    push-side span is registered, every successor licensed by the span maps is in `seen`,
    and no configuration is goal-compatible. -/
def closedCheck (p : Prog) (goal : Goal) (rad : Nat)
    (seen : List Config) (lspans rspans : Spans) : Option Unclosed :=
  let idx : TMap Unit := seen.foldl (fun m c => m.insert c.key ()) {}
  let init := Config.init rad
  if !idx.contains init.key then some .noInit
  else if !(hasColor lspans init.tape.lspan && hasColor rspans init.tape.rspan) then
    some .initSpans
  else checkAll p goal idx lspans rspans seen

/-! ### Basic facts about the map and the key (so that `index`/`idx` can be read as sets) -/

theorem Trie.find?_single {α : Type} (x : Nat) (xs : List Nat) (a : α) (y : Nat) (ys : List Nat) :
    (Trie.single x xs a).find? y ys = if y = x ∧ ys = xs then some a else none := by
  induction xs generalizing x y ys with
  | nil =>
    cases ys <;> by_cases h : y = x <;> simp [Trie.single, Trie.find?, h]
  | cons z zs ih =>
    cases ys with
    | nil => by_cases h : y = x <;> simp [Trie.single, Trie.find?, h]
    | cons w ws =>
      by_cases h : y = x
      · simp [Trie.single, Trie.find?, h, ih]
      · simp [Trie.single, Trie.find?, h]

theorem Trie.find?_insert {α : Type} (t : Trie α) (x : Nat) (xs : List Nat) (a : α)
    (y : Nat) (ys : List Nat) :
    (t.insert x xs a).find? y ys = if y = x ∧ ys = xs then some a else t.find? y ys := by
  induction t generalizing x xs y ys with
  | nil => simp [Trie.insert, Trie.find?_single, Trie.find?]
  | node k v c s ihc ihs =>
    unfold Trie.insert
    by_cases hx : x = k
    · subst hx
      cases xs with
      | nil =>
        by_cases hy : y = x
        · cases ys <;> simp [Trie.find?, hy]
        · simp [Trie.find?, hy]
      | cons z zs =>
        by_cases hy : y = x
        · cases ys with
          | nil => simp [Trie.find?, hy]
          | cons w ws => simp [Trie.find?, hy, ihc]
        · simp [Trie.find?, hy]
    · by_cases hy : y = k
      · subst hy
        have h1 : ¬ y = x := fun h => hx h.symm
        simp [hx, Trie.find?, h1]
      · simp [hx, Trie.find?, hy, ihs]

theorem TMap.find?_insert {α : Type} (m : TMap α) (k : List Nat) (a : α) (k' : List Nat) :
    (m.insert k a).find? k' = if k' = k then some a else m.find? k' := by
  cases k with
  | nil => cases k' <;> simp [TMap.insert, TMap.find?]
  | cons x xs =>
    cases k' with
    | nil => simp [TMap.insert, TMap.find?]
    | cons y ys => simp [TMap.insert, TMap.find?, Trie.find?_insert]

theorem TMap.find?_empty {α : Type} (k : List Nat) : (({} : TMap α)).find? k = none := by
  cases k <;> simp [TMap.find?, Trie.find?]

theorem Config.key_inj (a b : Config) (h : a.key = b.key) : a = b := by
  obtain ⟨sa, ⟨ca, ⟨la, lla⟩, ⟨ra, rla⟩⟩⟩ := a
  obtain ⟨sb, ⟨cb, ⟨lb, llb⟩, ⟨rb, rlb⟩⟩⟩ := b
  simp [Config.key] at h
  obtain ⟨h1, h2, h3, h4, h5, h6⟩ := h
  have := List.append_inj h6 h5
  simp_all

end BB.Cps
