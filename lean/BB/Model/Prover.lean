/-
L1 model of src/prover.rs (`PastConfig`, `PastConfigs`, `Prover`), of `run_prover` in
src/machine.rs, and of the parts of src/tape.rs they need that Tape.lean does not have:
`EnumTape` (offsets / edges, `check_step`), `MinSig`, and the overflow-checked reading of
`Tape::step` / `Tape::marks`.

Types: `Cycle = i32` -> `Int` with every operation range-checked (`i32Add` ..: the harness build
has overflow checks on, an `i32` overflow is a panic whose message contains "overflow");
`Step = Count = u64` -> `Nat` with the unchecked additions of the Rust code (`steps +=`,
`rulapp +=`, `add_count`, `1 + count` in `pull`, the sum in `marks`) range-checked the same way.
Abnormal ends are explicit: `.error (.overflow _)` (driver prints `limit:overflow`) and
`.error (.panic _)` (driver prints `PANIC`).

Maps: `rules : BTreeMap<Slot, Vec<(MinSig, Rule)>>` -> association list sorted by slot, the `Vec`
in push order; `PastConfigs.configs : BTreeMap<State, PastConfig>` -> association list sorted by
state; `Prover.configs : HashMap<Signature, PastConfigs>` -> `ConfigMap` (a fixed number of
association lists selected by a fingerprint of the key, plus the entry count).  The code only looks keys up in the `HashMap` and takes its `len()`; it never iterates, so
no result depends on hash order.

`EnumTape` is `Tape<EnumBlock>` plus four `Cell`s.  Here it is the plain `Tape` (colours and
counts) together with, per side, the list of the blocks' `index` fields (`Option Index`, same
length and order as the span) and the four cell values.  `IndexTape for EnumTape` delegates to the
inner tape and touches neither offsets nor edges, so `apply_rule` on an `EnumTape` is `applyRule`
on its `tape` component (a `set_count` leaves a block's `index` alone).
-/
import BB.Model.Instrs
import BB.Model.Tape
import BB.Model.Machine
import BB.Model.Rules

namespace BB

/-! ### checked machine arithmetic -/

/-- `cycle as i32` for a `u64`: truncation to the low 32 bits, two's complement -/
def cycleAsI32 (cycle : Nat) : Int :=
  let m : Nat := cycle % 2 ^ 32
  if m ≥ 2 ^ 31 then Int.ofNat m - 2 ^ 32 else Int.ofNat m

/-- the result of an `i32` operation in a build with overflow checks -/
def i32Ck (x : Int) : PRes Int :=
  if diffMin ≤ x ∧ x ≤ diffMax then .ok x else .error (.overflow "i32 arithmetic overflow")

def i32Add (a b : Int) : PRes Int := i32Ck (a + b)
def i32Sub (a b : Int) : PRes Int := i32Ck (a - b)
def i32Mul (a b : Int) : PRes Int := i32Ck (a * b)

/-- `i32::abs` (panics on `i32::MIN` with overflow checks) -/
def i32Abs (a : Int) : PRes Int :=
  if a == diffMin then .error (.overflow "attempt to negate with overflow") else .ok (Int.ofNat a.natAbs)

/-- the result of a `u64` addition in a build with overflow checks -/
def u64Ck (x : Nat) : PRes Nat :=
  if x ≥ u64Max then .error (.overflow "attempt to add with overflow") else .ok x

/-- `Tape::step` in the overflow-checked build.  Precondition (kept by every caller): all counts
    on the tape are `< 2^64`.  Then `1 + block.get_count()` in `pull` overflows iff the returned
    `stepped` is `2^64`, and `add_count(stepped)` in `push` overflows iff the merged block (the
    first block of the push side afterwards) reaches `2^64`; a freshly inserted block has count
    `stepped`. -/
def Tape.stepCk (t : Tape) (shift : Bool) (color : Nat) (skip : Bool) : PRes (Tape × Nat) :=
  let (t', stepped) := t.step shift color skip
  if stepped ≥ u64Max then .error (.overflow "attempt to add with overflow")
  else
    match (if shift then t'.lspan else t'.rspan) with
    | b :: _ =>
      if b.count ≥ u64Max then .error (.overflow "attempt to add with overflow")
      else .ok (t', stepped)
    | [] => .ok (t', stepped)

/-- `Tape::marks` in the overflow-checked build (all summands are non-negative, so some partial
    sum overflows iff the total does) -/
def Tape.marksCk (t : Tape) : PRes Nat := u64Ck t.marks

/-! ### PastConfig -/

structure PastConfig where
  cycles : List Int
deriving Repr, DecidableEq, Inhabited

def PastConfig.new (cycle : Int) : PastConfig := ⟨[cycle]⟩

abbrev Deltas := Int × Int × Int

/-- the `for i in 1..=4` loop of `PastConfig::next_deltas` over the remaining values of `i`.
    `.ok none` = no `i` fits, or the predicted cycles are not ascending. -/
def deltasLoop (e d c b a : Int) : List Int → PRes (Option Deltas)
  | [] => .ok none
  | i :: rest => do
    let p1 ← i32Sub a (← i32Mul b i)
    let p2 ← i32Sub b (← i32Mul c i)
    let diff ← i32Sub p1 p2
    let p3 ← i32Sub c (← i32Mul d i)
    if (← i32Sub p2 p3) != diff then deltasLoop e d c b a rest
    else
      let p4 ← i32Sub d (← i32Mul e i)
      if (← i32Sub p3 p4) != diff then deltasLoop e d c b a rest
      else
        let nxt1 ← i32Add (← i32Add (← i32Mul a i) p1) diff
        let nxt2 ← i32Add (← i32Add (← i32Mul nxt1 i) p1) (← i32Mul 2 diff)
        let nxt3 ← i32Add (← i32Add (← i32Mul nxt2 i) p1) (← i32Mul 3 diff)
        if a > nxt1 || nxt1 > nxt2 || nxt2 > nxt3 then .ok none
        else
          let d1 ← i32Sub nxt1 a
          let d2 ← i32Sub nxt2 nxt1
          let d3 ← i32Sub nxt3 nxt2
          .ok (some (d1, d2, d3))

/-- `PastConfig::next_deltas`: push; `None` below 5 entries; read `[e, d, c, b, a]`; drop the
    oldest (also when the answer is `None`); try `i = 1..=4`. -/
def PastConfig.nextDeltas (pc : PastConfig) (cycle : Int) : PRes (Option Deltas × PastConfig) :=
  let cycles := pc.cycles ++ [cycle]
  if cycles.length < 5 then .ok (none, ⟨cycles⟩)
  else
    match cycles with
    | [e, d, c, b, a] =>
      match deltasLoop e d c b a [1, 2, 3, 4] with
      | .error err => .error err
      | .ok r => .ok (r, ⟨[d, c, b, a]⟩)
    | _ => .error (.panic "explicit panic")

/-! ### PastConfigs -/

/-- `BTreeMap<State, PastConfig>` sorted by state -/
abbrev PastConfigs := List (Nat × PastConfig)

def PastConfigs.new (state : Nat) (cycle : Int) : PastConfigs := [(state, PastConfig.new cycle)]

/-- `PastConfigs::next_deltas`: `entry(state).or_insert_with(|| PastConfig::new(cycle))` and then
    `.next_deltas(cycle)` on the entry — a fresh entry receives the same cycle twice. -/
def PastConfigs.nextDeltas : PastConfigs → Nat → Int → PRes (Option Deltas × PastConfigs)
  | [], state, cycle =>
    match (PastConfig.new cycle).nextDeltas cycle with
    | .error e => .error e
    | .ok (r, pc) => .ok (r, [(state, pc)])
  | (k, v) :: rest, state, cycle =>
    if k == state then
      match v.nextDeltas cycle with
      | .error e => .error e
      | .ok (r, pc) => .ok (r, (k, pc) :: rest)
    else if state < k then
      match (PastConfig.new cycle).nextDeltas cycle with
      | .error e => .error e
      | .ok (r, pc) => .ok (r, (state, pc) :: (k, v) :: rest)
    else
      match PastConfigs.nextDeltas rest state cycle with
      | .error e => .error e
      | .ok (r, rest') => .ok (r, (k, v) :: rest')

/-- `PastConfigs::delete_configs` -/
def PastConfigs.deleteConfigs (pcs : PastConfigs) (state : Nat) : PastConfigs :=
  pcs.filter fun kv => kv.1 != state

/-! ### EnumTape -/

/-- the `index` fields of the blocks of one span -/
abbrev IdxSpan := List (Option Index)

structure EnumTape where
  tape    : Tape
  lidx    : IdxSpan
  ridx    : IdxSpan
  lOffset : Nat
  rOffset : Nat
  lEdge   : Bool
  rEdge   : Bool
deriving Repr, DecidableEq, Inhabited

/-- `Some((side, 1 + i))` for `i = k, k+1, ..` -/
def enumIdx (side : Bool) : Nat → Nat → IdxSpan
  | 0, _ => []
  | n + 1, k => some (side, 1 + k) :: enumIdx side n (k + 1)

/-- `impl From<&BasicTape> for EnumTape` -/
def EnumTape.ofTape (t : Tape) : EnumTape :=
  { tape := t, lidx := enumIdx false t.lspan.length 0, ridx := enumIdx true t.rspan.length 0,
    lOffset := 0, rOffset := 0, lEdge := false, rEdge := false }

def EnumTape.offsets (et : EnumTape) : Nat × Nat := (et.lOffset, et.rOffset)
def EnumTape.edges (et : EnumTape) : Bool × Bool := (et.lEdge, et.rEdge)

def EnumTape.touchEdge (et : EnumTape) (shift : Bool) : EnumTape :=
  if shift then { et with rEdge := true } else { et with lEdge := true }

/-- `check_offsets(block)` given the block's `index` -/
def EnumTape.checkOffsets (et : EnumTape) (index : Option Index) : EnumTape :=
  match index with
  | none => et
  | some (side, offset) =>
    if side then (if offset > et.rOffset then { et with rOffset := offset } else et)
    else (if offset > et.lOffset then { et with lOffset := offset } else et)

/-- the `index` field of the block at position `n` of a span -/
def IdxSpan.at (idx : IdxSpan) (n : Nat) : Option Index :=
  match idx[n]? with
  | some i => i
  | none => none

/-- `EnumTape::check_step` -/
def EnumTape.checkStep (et : EnumTape) (shift : Bool) (color : Nat) (skip : Bool) : EnumTape :=
  let pull := if shift then et.tape.rspan else et.tape.lspan
  let pullIdx := if shift then et.ridx else et.lidx
  let push := if shift then et.tape.lspan else et.tape.rspan
  let pushIdx := if shift then et.lidx else et.ridx
  let et1 : EnumTape :=
    match pull with
    | [] => et.touchEdge shift
    | near :: rest =>
      let et' := et.checkOffsets (pullIdx.at 0)
      if skip && near.color == et.tape.scan then
        match rest with
        | [] => et'.touchEdge shift
        | _ :: _ => et'.checkOffsets (pullIdx.at 1)
      else et'
  match push with
  | [] => et1
  | opp :: _ => if color == opp.color then et1.checkOffsets (pushIdx.at 0) else et1

/-- what `Span::pull` does to the blocks' `index` fields (`s` = the span before the pull):
    the swept block is removed, then the next block is removed unless its count exceeds 1 -/
def IdxSpan.pull (idx : IdxSpan) (s : Span) (scan : Nat) (skip : Bool) : IdxSpan :=
  let (idx1, s1) : IdxSpan × Span :=
    match s with
    | b :: rest => if skip && b.color == scan then (idx.tail, rest) else (idx, s)
    | [] => (idx, s)
  match s1 with
  | [] => idx1
  | b :: _ => if b.count > 1 then idx1 else idx1.tail

/-- what `Span::push` does to the `index` fields (`s` = the span before the push): a merge keeps
    the block and its index, an inserted block (`Block::new`) has `index: None` -/
def IdxSpan.push (idx : IdxSpan) (s : Span) (print : Nat) : IdxSpan :=
  match s with
  | b :: _ => if b.color == print then idx else none :: idx
  | [] => if print == 0 then idx else none :: idx

/-- `EnumTape::step`: `check_step`, then the step of the inner tape (overflow-checked) -/
def EnumTape.stepCk (et : EnumTape) (shift : Bool) (color : Nat) (skip : Bool) :
    PRes (EnumTape × Nat) :=
  let et1 := et.checkStep shift color skip
  match et.tape.stepCk shift color skip with
  | .error e => .error e
  | .ok (t', stepped) =>
    if shift then
      .ok ({ et1 with tape := t',
                      ridx := et.ridx.pull et.tape.rspan et.tape.scan skip,
                      lidx := et.lidx.push et.tape.lspan color }, stepped)
    else
      .ok ({ et1 with tape := t',
                      lidx := et.lidx.pull et.tape.lspan et.tape.scan skip,
                      ridx := et.ridx.push et.tape.rspan color }, stepped)

/-! ### Prover -/

/-- `MinSig = (Signature, (bool, bool))` -/
abbrev MinSig := Signature × (Bool × Bool)

inductive ProverResult where
  | configLimit
  | infiniteRule
  | multRule
  | got (rule : Rule)
deriving Repr, DecidableEq, Inhabited

def ColorCount.code : ColorCount → Nat
  | .just c => 2 * c + 1
  | .mult c => 2 * c + 2

def sigSpanHash (s : SigSpan) (h : Nat) : Nat :=
  s.foldl (fun h cc => (h * 1000003 + cc.code) % 4294967291) h

/-- stand-in for `impl Hash for Signature`: a fingerprint computed once per lookup and stored
    next to the key, so that a lookup compares small numbers before it compares signatures.  Equal
    signatures have equal fingerprints; nothing else about the function matters. -/
def Signature.hash (sig : Signature) : Nat :=
  sigSpanHash sig.rspan ((sigSpanHash sig.lspan (sig.scan % 4294967291) * 1000003) % 4294967291)

/-- one entry of `configs: HashMap<Signature, PastConfigs>`: the key's fingerprint, the key, the
    value -/
abbrev ConfigEntry := Nat × Signature × PastConfigs

/-- lookup in one bucket; `h` = `sig.hash` -/
def bucketGet : List ConfigEntry → Nat → Signature → Option PastConfigs
  | [], _, _ => none
  | (h', k, v) :: rest, h, sig =>
    if h' == h && k == sig then some v else bucketGet rest h sig

/-- overwrite the value of an existing key in one bucket; `h` = `sig.hash` -/
def bucketSet : List ConfigEntry → Nat → Signature → PastConfigs → List ConfigEntry
  | [], _, _, _ => []
  | (h', k, v) :: rest, h, sig, pcs =>
    if h' == h && k == sig then (h', k, pcs) :: rest else (h', k, v) :: bucketSet rest h sig pcs

def nBuckets : Nat := 128

/-- `HashMap<Signature, PastConfigs>`: `nBuckets` association lists (an entry lives in bucket
    `hash % nBuckets`, newest first) and the number of entries (`len()`).  Keys are only ever
    looked up, never iterated. -/
structure ConfigMap where
  buckets : List (List ConfigEntry)
  size    : Nat
deriving Repr, Inhabited

def ConfigMap.new : ConfigMap := ⟨List.replicate nBuckets [], 0⟩

/-- `configs.get(&sig)`; `h` = `sig.hash` -/
def ConfigMap.get (m : ConfigMap) (h : Nat) (sig : Signature) : Option PastConfigs :=
  bucketGet (m.buckets.getD (h % nBuckets) []) h sig

/-- `*configs.get_mut(&sig).unwrap() = pcs` for a key that is present -/
def ConfigMap.set (m : ConfigMap) (h : Nat) (sig : Signature) (pcs : PastConfigs) : ConfigMap :=
  let i := h % nBuckets
  { m with buckets := m.buckets.set i (bucketSet (m.buckets.getD i []) h sig pcs) }

/-- `configs.insert(sig, pcs)` for a key that is absent -/
def ConfigMap.insert (m : ConfigMap) (h : Nat) (sig : Signature) (pcs : PastConfigs) : ConfigMap :=
  let i := h % nBuckets
  { buckets := m.buckets.set i ((h, sig, pcs) :: m.buckets.getD i []), size := m.size + 1 }

structure Prover where
  rules   : List (Slot × List (MinSig × Rule))
  configs : ConfigMap
deriving Repr, Inhabited

def Prover.new : Prover := ⟨[], ConfigMap.new⟩

def Prover.configCount (pv : Prover) : Nat := pv.configs.size

/-- `self.rules.get(&slot)` -/
def rulesGet : List (Slot × List (MinSig × Rule)) → Slot → Option (List (MinSig × Rule))
  | [], _ => none
  | (k, v) :: rest, s => if k.1 == s.1 && k.2 == s.2 then some v else rulesGet rest s

/-- `self.rules.entry(slot).or_default().push(entry)` -/
def rulesPush : List (Slot × List (MinSig × Rule)) → Slot → MinSig × Rule →
    List (Slot × List (MinSig × Rule))
  | [], s, e => [(s, [e])]
  | (k, v) :: rest, s, e =>
    if k.1 == s.1 && k.2 == s.2 then (k, v ++ [e]) :: rest
    else if slotLt s k then (s, [e]) :: (k, v) :: rest
    else (k, v) :: rulesPush rest s e

/-- `Prover::set_rule` -/
def Prover.setRule (pv : Prover) (rule : Rule) (state : Nat) (sig : MinSig) : Prover :=
  { pv with rules := rulesPush pv.rules (state, sig.1.scan) (sig, rule) }

/-- the test of one stored rule in `get_rule`: exact span equality where the edge flag is set,
    `starts_with` otherwise -/
def MinSig.matchesSig (ms : MinSig) (sig : Signature) : Bool :=
  ms.1.scan == sig.scan
    && (if ms.2.1 then ms.1.lspan == sig.lspan else ms.1.lspan.isPrefixOf sig.lspan)
    && (if ms.2.2 then ms.1.rspan == sig.rspan else ms.1.rspan.isPrefixOf sig.rspan)

/-- the `for` loop of `get_rule`: first match in push order -/
def findRule : List (MinSig × Rule) → Signature → Option Rule
  | [], _ => none
  | (ms, rule) :: rest, sig => if ms.matchesSig sig then some rule else findRule rest sig

/-- `Prover::get_rule(state, tape, sig)` -/
def Prover.getRule (pv : Prover) (state : Nat) (tape : Tape) (sig : Option Signature) :
    Option Rule :=
  match rulesGet pv.rules (state, tape.scan) with
  | none => none
  | some rules =>
    let sig := match sig with
      | some sig => sig
      | none => tape.signature
    findRule rules sig

/-- the `if let Some(rule) = self.get_rule(..) { if tape.apply_rule(rule).is_some() { continue } }`
    head of the replay loops: `.ok (some t')` = a rule was applied (`continue`), `.ok none` = go
    on to the plain step with the tape unchanged -/
def Prover.simRule (pv : Prover) (state : Nat) (tape : Tape) : PRes (Option Tape) :=
  match pv.getRule state tape none with
  | none => .ok none
  | some rule =>
    match applyRule tape rule with
    | .error e => .error e
    | .ok (some _, t') => .ok (some t')
    | .ok (none, _) => .ok none

/-- `Prover::run_simulator(steps, state, tape)`: recursion on `steps` (the `0..steps` range).
    Returns the final state (`none` = an undefined instruction was met) and the tape. -/
def Prover.runSimulator (pv : Prover) (p : Prog) : Nat → Nat → Tape → PRes (Option Nat × Tape)
  | 0, state, tape => .ok (some state, tape)
  | steps + 1, state, tape =>
    match pv.simRule state tape with
    | .error e => .error e
    | .ok (some t') => Prover.runSimulator pv p steps state t'
    | .ok none =>
      match p.get (state, tape.scan) with
      | none => .ok (none, tape)
      | some (color, shift, next) =>
        match tape.stepCk shift color (state == next) with
        | .error e => .error e
        | .ok (t', _) => Prover.runSimulator pv p steps next t'

/-- the loop of `Prover::get_min_sig`: the same replay on an `EnumTape`; an undefined
    instruction is an `unwrap()` panic -/
def Prover.minSigLoop (pv : Prover) (p : Prog) : Nat → Nat → EnumTape → PRes EnumTape
  | 0, _, et => .ok et
  | steps + 1, state, et =>
    match pv.simRule state et.tape with
    | .error e => .error e
    | .ok (some t') => Prover.minSigLoop pv p steps state { et with tape := t' }
    | .ok none =>
      match p.get (state, et.tape.scan) with
      | none => .error (.panic "called `Option::unwrap()` on a `None` value")
      | some (color, shift, next) =>
        match et.stepCk shift color (state == next) with
        | .error e => .error e
        | .ok (et', _) => Prover.minSigLoop pv p steps next et'

/-- `Prover::get_min_sig(steps, state, tape, sig)`; `sig.lspan[..lmax]` panics when out of range -/
def Prover.getMinSig (pv : Prover) (p : Prog) (steps : Nat) (state : Nat) (et : EnumTape)
    (sig : Signature) : PRes MinSig :=
  match Prover.minSigLoop pv p steps state et with
  | .error e => .error e
  | .ok et' =>
    let (lmax, rmax) := et'.offsets
    if lmax > sig.lspan.length || rmax > sig.rspan.length then
      .error (.panic "range end index out of range")
    else
      .ok (⟨sig.scan, sig.lspan.take lmax, sig.rspan.take rmax⟩, et'.edges)

/-- the three simulated stretches of `try_rule`: `tags` is carried from one to the next; `none` =
    undefined instruction, other final state, or a tape not `sig_compatible`.  Counts are
    collected in order. -/
def Prover.stretches (pv : Prover) (p : Prog) (state : Nat) (sig : Signature) :
    List Int → Tape → PRes (Option (List Counts))
  | [], _ => .ok (some [])
  | delta :: rest, tags =>
    match Prover.runSimulator pv p delta.toNat state tags with
    | .error e => .error e
    | .ok (none, _) => .ok none
    | .ok (some endState, tags') =>
      if endState != state || !tags'.sigCompatible sig then .ok none
      else
        match Prover.stretches pv p state sig rest tags' with
        | .error e => .error e
        | .ok none => .ok none
        | .ok (some cs) => .ok (some (tags'.counts :: cs))

/-- `rule.values().any(|diff| matches!(diff, Plus(plus) if *plus < 0))` -/
def Rule.anyNegPlus (rule : Rule) : Bool :=
  rule.any fun kv => match kv.2 with
    | .plus d => d < 0
    | .mult _ _ => false

def Rule.anyMult (rule : Rule) : Bool :=
  rule.any fun kv => match kv.2 with
    | .plus _ => false
    | .mult _ _ => true

def Rule.allPlus (rule : Rule) : Bool :=
  rule.all fun kv => match kv.2 with
    | .plus _ => true
    | .mult _ _ => false

/-- insertion into a `BTreeSet<Diff>` (sorted, no duplicates) -/
def diffSetInsert : List Int → Int → List Int
  | [], x => [x]
  | y :: rest, x => if x < y then x :: y :: rest else if x == y then y :: rest
                    else y :: diffSetInsert rest x

/-- `rule.values().map(|diff| match diff { Plus(diff) => diff.abs(), Mult(_) => 0 }).collect::<Set<_>>()` -/
def Rule.absSet : Rule → List Int → PRes (List Int)
  | [], acc => .ok acc
  | (_, .plus d) :: rest, acc =>
    match i32Abs d with
    | .error e => .error e
    | .ok a => Rule.absSet rest (diffSetInsert acc a)
  | (_, .mult _ _) :: rest, acc => Rule.absSet rest (diffSetInsert acc 0)

/-- the `(1,1)`-span exclusion of `try_rule` (conditions evaluated left to right, `&&`) -/
def spanExclusion (rule : Rule) (tape : Tape) : PRes Bool :=
  if rule.length == 2 && tape.spanLens == (1, 1) && rule.allPlus then
    match Rule.absSet rule [] with
    | .error e => .error e
    | .ok s => .ok (s.length == 1)
  else .ok false

/-- the tail of `try_rule` once a rule has been made: InfiniteRule test, MultRule test, the
    exclusion, `delete_configs`, `set_rule(.., get_min_sig(deltas[0], ..))`, `Got` -/
def Prover.acceptRule (pv : Prover) (p : Prog) (state : Nat) (tape : Tape) (sig : Signature)
    (h : Nat) (delta0 : Int) (rule : Rule) : PRes (Option ProverResult × Prover) :=
  if !rule.anyNegPlus then .ok (some .infiniteRule, pv)
  else if rule.anyMult then .ok (some .multRule, pv)
  else
    match spanExclusion rule tape with
    | .error e => .error e
    | .ok true => .ok (none, pv)
    | .ok false =>
      match pv.configs.get h sig with
      | none => .ok (none, pv)
      | some pcs =>
        let pv1 : Prover :=
          { pv with configs := pv.configs.set h sig (pcs.deleteConfigs state) }
        match Prover.getMinSig pv1 p delta0.toNat state (EnumTape.ofTape tape) sig with
        | .error e => .error e
        | .ok minSig => .ok (some (.got rule), pv1.setRule rule state minSig)

/-- `Prover::try_rule(cycle, state, tape)`; returns the answer and the prover afterwards -/
def Prover.tryRule (pv : Prover) (p : Prog) (cycle : Nat) (state : Nat) (tape : Tape) :
    PRes (Option ProverResult × Prover) :=
  let cycle := cycleAsI32 cycle
  let sig := tape.signature
  match pv.getRule state tape (some sig) with
  | some knownRule => .ok (some (.got knownRule), pv)
  | none =>
    let h := sig.hash
    match pv.configs.get h sig with
    | none =>
      if pv.configCount > 100000 then .ok (some .configLimit, pv)
      else .ok (none, { pv with configs := pv.configs.insert h sig (PastConfigs.new state cycle) })
    | some pcs =>
      match pcs.nextDeltas state cycle with
      | .error e => .error e
      | .ok (ds, pcs') =>
        let pv1 : Prover := { pv with configs := pv.configs.set h sig pcs' }
        match ds with
        | none => .ok (none, pv1)
        | some (d1, d2, d3) =>
          let deltas := [d1, d2, d3]
          if deltas.any (· > 90000) then .ok (none, pv1)
          else
            match Prover.stretches pv1 p state sig deltas tape with
            | .error e => .error e
            | .ok none => .ok (none, pv1)
            | .ok (some [c0, c1, c2]) =>
              match makeRule tape.counts c0 c1 c2 with
              | .error e => .error e
              | .ok none => .ok (none, pv1)
              | .ok (some rule) => Prover.acceptRule pv1 p state tape sig h d1 rule
            | .ok (some _) => .error (.panic "index out of bounds")

/-! ### run_prover -/

/-- one rule application of the main loop, as reported by the `on_rule` hook -/
structure RuleApp where
  cycle  : Nat
  state  : Nat
  before : Tape
  after  : Tape
  times  : Nat
deriving Repr, DecidableEq, Inhabited

/-- loop state of `run_prover` -/
structure PState where
  tape   : Tape
  prover : Prover
  state  : Nat
  steps  : Nat
  rulapp : Nat
  blanks : Blanks
deriving Repr, Inhabited

def PState.init : PState := ⟨Tape.init, Prover.new, 0, 0, 0, []⟩

inductive PStep where
  | fail (e : PErr)
  | done (res : TermRes) (lastSlot : Option Slot) (setCycles : Bool) (s : PState)
  | cont (s : PState) (app : Option RuleApp)

/-- `impl From<ProverResult> for TermRes` (`Got` panics) -/
def ProverResult.toTermRes : ProverResult → PRes TermRes
  | .configLimit => .ok .cfglim
  | .infiniteRule => .ok .infrul
  | .multRule => .ok .mulrul
  | .got _ => .error (.panic "explicit panic")

/-- the part of the loop body of `run_prover` after the `match prover.try_rule(..)`: identical to
    the body of `run_quick_machine`, with the overflow-checked step -/
def proverStepIter (p : Prog) (s : PState) : PStep :=
  match p.get (s.state, s.tape.scan) with
  | none => .done .undfnd (some (s.state, s.tape.scan)) true s
  | some (color, shift, next) =>
    let same := s.state == next
    if same && s.tape.atEdge shift then .done .spnout none true s
    else
      match s.tape.stepCk shift color same with
      | .error e => .fail e
      | .ok (tape', stepped) =>
        match u64Ck (s.steps + stepped) with
        | .error e => .fail e
        | .ok steps' =>
          let s1 : PState := { s with tape := tape', state := next, steps := steps' }
          if color == 0 && tape'.blank then
            if s.blanks.contains next then .done .infrul none false s1
            else
              let s2 := { s1 with blanks := s.blanks.insert next steps' }
              if next == 0 then .done .infrul none false s2 else .cont s2 none
          else .cont s1 none

/-- one iteration of the loop body of `run_prover` for `cycle` -/
def proverIter (p : Prog) (cycle : Nat) (s : PState) : PStep :=
  match s.prover.tryRule p cycle s.state s.tape with
  | .error e => .fail e
  | .ok (some (.got rule), pv') =>
    let s0 := { s with prover := pv' }
    match applyRule s.tape rule with
    | .error e => .fail e
    | .ok (some times, tape') =>
      match u64Ck (s.rulapp + times) with
      | .error e => .fail e
      | .ok rulapp' =>
        .cont { s0 with tape := tape', rulapp := rulapp' }
          (some ⟨cycle, s.state, s.tape, tape', times⟩)
    | .ok (none, _) => proverStepIter p s0
  | .ok (some res, pv') =>
    match res.toTermRes with
    | .error e => .fail e
    | .ok r => .done r none true { s with prover := pv' }
  | .ok (none, pv') => proverStepIter p { s with prover := pv' }

/-- the `MachineResult` built after the loop (`tape.marks()` is an overflow-checked sum) -/
def mkProverResult (res : TermRes) (ls : Option Slot) (cycles : Nat) (s : PState) :
    PRes MachineResult :=
  match s.tape.marksCk with
  | .error e => .error e
  | .ok marks =>
    .ok { result := res, steps := s.steps, cycles := cycles, marks := marks, rulapp := s.rulapp,
          blanks := s.blanks, lastSlot := ls }

/-- `for cycle in 0..sim_lim`: `fuel` = cycles left, `cycle` = current index; `acc` collects the
    rule applications, newest first.  The applications made before an abnormal end are kept. -/
def proverLoop (p : Prog) : Nat → Nat → PState → List RuleApp → PRes MachineResult × List RuleApp
  | 0, _, s, acc => (mkProverResult .xlimit none 0 s, acc)
  | fuel + 1, cycle, s, acc =>
    match proverIter p cycle s with
    | .fail e => (.error e, acc)
    | .done res ls setC s' => (mkProverResult res ls (if setC then cycle else 0) s', acc)
    | .cont s' app =>
      proverLoop p fuel (cycle + 1) s' (match app with
        | some a => a :: acc
        | none => acc)

/-- `run_prover` on a parsed program, with the rule applications in order -/
def runProverTrace (p : Prog) (simLim : Nat) : PRes MachineResult × List RuleApp :=
  let (r, acc) := proverLoop p simLim 0 PState.init []
  (r, acc.reverse)

/-- `run_prover` on a parsed program.  `.error (.overflow _)` = the overflow-checked build panics
    on an arithmetic overflow, `.error (.panic _)` = any other panic. -/
def runProver (p : Prog) (simLim : Nat) : PRes MachineResult := (runProverTrace p simLim).1

end BB
