/-
L1 model of src/reason.rs: the backward reasoner (`cant_halt`, `cant_blank`, `cant_spin_out`
of trait `Backward`), i.e. the whole of `cant_reach`.

Function-for-function port.  Two switches select repaired behaviour:
* `fixF1` (get_valid_steps): keep a same-state predecessor that `check_spinout` rejects when
  the push-side leading block is a definite block;
* `fixF2` (halt_configs): table size from keys *and* instruction contents.
With both switches `false` the model reproduces the code as it is.

The only loop that needs fuel is `for step in 0..depth` in `cant_reach`
(`cantReachLoop`, fuel = `depth`); everything else is structural recursion on lists.

The one reachable panic, `assert!(*state == 0)` in `get_valid_steps`, is an explicit
`.error (.panic _)` outcome.
-/
import BB.Model.Instrs
import BB.Model.Tape

namespace BB.Reason

def MAX_RECS : Nat := 2
def MAX_STACK_DEPTH : Nat := 28

/-- `reason::BackwardResult`. -/
inductive BackwardResult where
  | init
  | linRec
  | spinout
  | stepLimit
  | depthLimit
  | refuted (step : Nat)
deriving Repr, DecidableEq, Inhabited

def BackwardResult.isSettled : BackwardResult → Bool
  | .refuted _ => true
  | .init => true
  | _ => false

/-! ### TapeEnd -/

inductive TapeEnd where
  | blanks
  | unknown
deriving Repr, DecidableEq, Inhabited

def TapeEnd.matchesColor : TapeEnd → Nat → Bool
  | .blanks, print => print == 0
  | .unknown, _ => true

/-! ### Span (run-length blocks nearest first, plus what lies beyond them) -/

/-- `reason::Span`.  A block with `count = 0` is an "indefinite" block. -/
structure Span where
  span : List Block
  end_ : TapeEnd
deriving Repr, DecidableEq, Inhabited

/-- `Span::blank`: every block has colour 0 (the end marker is *not* consulted). -/
def Span.blank (s : Span) : Bool := s.span.all (fun b => b.color == 0)

def Span.len (s : Span) : Nat := s.span.length

def Span.matchesColor (s : Span) (print : Nat) : Bool :=
  match s.span with
  | [] => s.end_.matchesColor print
  | b :: _ => b.color == print

/-- `Span::pull`: a count-0 block is left untouched. -/
def Span.pull (s : Span) : Span :=
  match s.span with
  | [] => s
  | b :: rest =>
    if b.count == 1 then { s with span := rest }
    else if b.count == 0 then s
    else { s with span := ⟨b.color, b.count - 1⟩ :: rest }

def Span.pushBlock (s : Span) (color count : Nat) : Span :=
  { s with span := ⟨color, count⟩ :: s.span }

/-- `Span::push`: never merges into a count-0 block. -/
def Span.push (s : Span) (color count : Nat) : Span :=
  match s.span with
  | b :: rest =>
    if b.color == color && b.count != 0 then { s with span := ⟨b.color, b.count + count⟩ :: rest }
    else s.pushBlock color count
  | [] =>
    if color == 0 && s.end_ == TapeEnd.blanks then s
    else s.pushBlock color count

/-! ### Backstepper -/

structure Backstepper where
  scan  : Nat
  lspan : Span
  rspan : Span
  head  : Int
deriving Repr, DecidableEq, Inhabited

def Backstepper.initHalt (scan : Nat) : Backstepper :=
  ⟨scan, ⟨[], .unknown⟩, ⟨[], .unknown⟩, 0⟩

def Backstepper.initBlank (scan : Nat) : Backstepper :=
  ⟨scan, ⟨[], .blanks⟩, ⟨[], .blanks⟩, 0⟩

def Backstepper.initSpinout (dir : Bool) : Backstepper :=
  if dir then ⟨0, ⟨[], .unknown⟩, ⟨[], .blanks⟩, 0⟩
  else ⟨0, ⟨[], .blanks⟩, ⟨[], .unknown⟩, 0⟩

def Backstepper.blank (t : Backstepper) : Bool :=
  t.scan == 0 && t.lspan.blank && t.rspan.blank

/-- the span the head came from under a step with this shift -/
def Backstepper.pullSpan (t : Backstepper) (shift : Bool) : Span :=
  if shift then t.lspan else t.rspan

/-- the span the scanned cell goes to when stepping back over a step with this shift -/
def Backstepper.pushSpan (t : Backstepper) (shift : Bool) : Span :=
  if shift then t.rspan else t.lspan

def Backstepper.checkStep (t : Backstepper) (shift : Bool) (print : Nat) : Bool :=
  (t.pullSpan shift).matchesColor print

/-- `check_spinout`: `none` = ordinary step; `some false` = dropped; `some true` = replaced by
    an indefinite block (`get_indef`). -/
def Backstepper.checkSpinout (t : Backstepper) (shift : Bool) (read : Nat) : Option Bool :=
  if t.scan != read then none
  else
    let pull := t.pullSpan shift
    let push := t.pushSpan shift
    if !pull.span.isEmpty then none
    else if pull.end_ == TapeEnd.blanks || !push.span.isEmpty then
      some (!push.matchesColor t.scan)
    else none

def Backstepper.pullsIndef (t : Backstepper) (shift : Bool) : Bool :=
  match (t.pullSpan shift).span with
  | [] => false
  | b :: _ => b.count == 0

def Backstepper.backstep (t : Backstepper) (shift : Bool) (read : Nat) : Backstepper :=
  if shift then
    { scan := read, lspan := t.lspan.pull, rspan := t.rspan.push t.scan 1, head := t.head - 1 }
  else
    { scan := read, lspan := t.lspan.push t.scan 1, rspan := t.rspan.pull, head := t.head + 1 }

def Backstepper.pushIndef (t : Backstepper) (shift : Bool) : Backstepper :=
  if shift then { t with rspan := t.rspan.pushBlock t.scan 0 }
  else { t with lspan := t.lspan.pushBlock t.scan 0 }

/-- repair F1: the sweep is absorbed only when the push side is empty or starts with an
    indefinite block. -/
def Backstepper.sweepAbsorbed (t : Backstepper) (shift : Bool) : Bool :=
  match (t.pushSpan shift).span with
  | [] => true
  | b :: _ => b.count == 0

/-- `Alignment::aligns_with` for `Backstepper`. -/
def Backstepper.alignsWith (self prev : Backstepper) (leftmost rightmost : Int) : Bool :=
  if self.scan != prev.scan then false
  else if self.lspan.len != prev.lspan.len && self.rspan.len != prev.rspan.len then false
  else
    let pHead := prev.head
    let lTake := (pHead - leftmost).natAbs
    let rTake := (pHead - rightmost).natAbs
    let diff := self.head - pHead
    if 0 < diff then
      BB.Span.compareTakeRs self.lspan.span prev.lspan.span lTake && self.rspan == prev.rspan
    else if diff < 0 then
      BB.Span.compareTakeRs self.rspan.span prev.rspan.span rTake && self.lspan == prev.lspan
    else
      BB.Span.compareTakeRs self.lspan.span prev.lspan.span lTake
        && BB.Span.compareTakeRs self.rspan.span prev.rspan.span rTake

/-! ### Config -/

/-- `reason::Config`.  The `Rc` chain `prev` is the list of ancestors (state, tape), nearest
    first; only those two fields of an ancestor are ever read. -/
structure Config where
  state : Nat
  tape  : Backstepper
  recs  : Nat
  prev  : List (Nat × Backstepper)
deriving Repr, Inhabited

abbrev Configs := List Config

def Config.new (state : Nat) (tape : Backstepper) : Config := ⟨state, tape, 0, []⟩

def Config.initHalt (state color : Nat) : Config := Config.new state (Backstepper.initHalt color)
def Config.initBlank (state color : Nat) : Config := Config.new state (Backstepper.initBlank color)
def Config.initSpinout (state : Nat) (shift : Bool) : Config :=
  Config.new state (Backstepper.initSpinout shift)

/-- the `while let Some(config) = current` loop of `lin_rec` -/
def linRecLoop (state : Nat) (tape : Backstepper) :
    Int → Int → List (Nat × Backstepper) → Bool
  | _, _, [] => false
  | leftmost, rightmost, (cstate, ctape) :: rest =>
    let pos := ctape.head
    let leftmost' := if pos < leftmost then pos else leftmost
    let rightmost' := if pos < leftmost then rightmost else if rightmost < pos then pos else rightmost
    if state == cstate && tape.alignsWith ctape leftmost' rightmost' then true
    else linRecLoop state tape leftmost' rightmost' rest

def Config.linRec (c : Config) : Bool :=
  linRecLoop c.state c.tape c.tape.head c.tape.head c.prev

def Config.descendant (state : Nat) (tape : Backstepper) (prev : Config) : Config :=
  let config : Config := ⟨state, tape, prev.recs, (prev.state, prev.tape) :: prev.prev⟩
  if config.linRec then { config with recs := config.recs + 1 } else config

/-! ### Entry points -/

/-- `(slot, (print, shift))` -/
abbrev Entry := Slot × (Nat × Bool)
abbrev Entries := List Entry

/-- `BTreeMap<State, (Entries, Entries)>`, the pair being `(same, diff)`; sorted by state. -/
abbrev Entrypoints := List (Nat × (Entries × Entries))

def Entrypoints.get (e : Entrypoints) (st : Nat) : Option (Entries × Entries) :=
  match e with
  | [] => none
  | (k, v) :: rest => if k == st then some v else Entrypoints.get rest st

def Entrypoints.containsKey (e : Entrypoints) (st : Nat) : Bool := (e.get st).isSome

/-- `entry(state).or_default()` followed by a push onto `same` or `diff` -/
def Entrypoints.push (e : Entrypoints) (st : Nat) (isSame : Bool) (en : Entry) : Entrypoints :=
  match e with
  | [] => [(st, if isSame then ([en], []) else ([], [en]))]
  | (k, (same, diff)) :: rest =>
    if k == st then
      (k, if isSame then (same ++ [en], diff) else (same, diff ++ [en])) :: rest
    else if st < k then
      (st, if isSame then ([en], []) else ([], [en])) :: (k, (same, diff)) :: rest
    else (k, (same, diff)) :: Entrypoints.push rest st isSame en

def getEntrypoints (comp : Prog) : Entrypoints :=
  comp.foldl (fun acc kv =>
    let slot := kv.1
    let (color, shift, state) := kv.2
    acc.push state (slot.1 == state) (slot, (color, shift))) []

/-! ### Valid steps -/

/-- `(Vec<Instr>, Config)`; an `Instr` here is `(read colour, shift, previous state)`. -/
abbrev ValidatedSteps := List (List Instr × Config)

/-- entries whose printed colour fits the tape: the loop
    `for entry in .. { if !tape.check_step(shift, print) { continue; } steps.push(..) }` -/
def checkedSteps (tape : Backstepper) (entries : Entries) : List Instr :=
  entries.filterMap fun en =>
    let ((state, color), (print, shift)) := en
    if tape.checkStep shift print then some (color, shift, state) else none

def getIndef (push : Bool) (config : Config) (diff same : Entries) :
    Option (List Instr × Config) :=
  let scan := config.tape.scan
  let checkedEntries := (diff ++ same).filter fun en =>
    let ((state, color), (_, shift)) := en
    !(state == config.state && shift == push && scan == color)
  if checkedEntries.isEmpty then none
  else
    let tape := config.tape.pushIndef push
    let steps := checkedSteps tape checkedEntries
    if steps.isEmpty then none
    else some (steps, Config.new config.state tape)

/-- the `for .. in same` loop of `get_valid_steps`: the steps it pushes and the indefinite
    configurations it adds to `checked`, both in order. -/
def sameSteps (fixF1 : Bool) (config : Config) (diff same : Entries) :
    Entries → List Instr × ValidatedSteps
  | [] => ([], [])
  | ((state, color), (print, shift)) :: rest =>
    let (steps, indefs) := sameSteps fixF1 config diff same rest
    if !config.tape.checkStep shift print then (steps, indefs)
    else
      match config.tape.checkSpinout shift color with
      | none => ((color, shift, state) :: steps, indefs)
      | some false =>
        if fixF1 && !config.tape.sweepAbsorbed shift then ((color, shift, state) :: steps, indefs)
        else (steps, indefs)
      | some true =>
        match getIndef shift config diff same with
        | some indef => (steps, indef :: indefs)
        | none => (steps, indefs)

/-- `get_valid_steps`.  `.error` = the `assert!(*state == 0)` fails. -/
def getValidSteps (fixF1 : Bool) (entrypoints : Entrypoints) : Configs → PRes ValidatedSteps
  | [] => .ok []
  | config :: rest =>
    match entrypoints.get config.state with
    | none =>
      if config.state == 0 then getValidSteps fixF1 entrypoints rest
      else .error (.panic "assert!(*state == 0)")
    | some (same, diff) =>
      let (sSteps, indefs) := sameSteps fixF1 config diff same same
      let steps := checkedSteps config.tape diff ++ sSteps
      match getValidSteps fixF1 entrypoints rest with
      | .error e => .error e
      | .ok checked =>
        .ok (indefs ++ (if steps.isEmpty then checked else (steps, config) :: checked))

/-! ### Stepping -/

/-- `HashSet<State>`; only `contains` and `insert` are used. -/
abbrev Blanks := List Nat

/-- the inner `for (color, shift, state) in instrs` loop of `step_configs` -/
def stepInstrs (config : Config) :
    List Instr → Blanks → Except BackwardResult (Configs × Blanks)
  | [], blanks => .ok ([], blanks)
  | (color, shift, state) :: rest, blanks =>
    let tape := config.tape.backstep shift color
    let isBlank := tape.blank
    if isBlank && state == 0 then .error .init
    else if isBlank && blanks.contains state then stepInstrs config rest blanks
    else
      let blanks' := if isBlank then state :: blanks else blanks
      let nextConfig := Config.descendant state tape config
      if nextConfig.recs > MAX_RECS then .error .linRec
      else
        match stepInstrs config rest blanks' with
        | .error e => .error e
        | .ok (stepped, blanks'') => .ok (nextConfig :: stepped, blanks'')

/-- `step_configs`: returns `(stepped, indef_steps, blanks)`. -/
def stepConfigs :
    ValidatedSteps → Blanks → Except BackwardResult (Configs × ValidatedSteps × Blanks)
  | [], blanks => .ok ([], [], blanks)
  | (instrs, config) :: rest, blanks =>
    let pullsIndef := instrs.filter fun i => config.tape.pullsIndef i.2.1
    let instrs' := instrs.filter fun i => !config.tape.pullsIndef i.2.1
    match stepInstrs config instrs' blanks with
    | .error e => .error e
    | .ok (stepped, blanks') =>
      match stepConfigs rest blanks' with
      | .error e => .error e
      | .ok (stepped', indefs, blanks'') =>
        .ok (stepped ++ stepped',
             if pullsIndef.isEmpty then indefs else (pullsIndef, config) :: indefs,
             blanks'')

/-! ### Targets -/

def haltConfigs (comp : Prog) (fixF2 : Bool := false) : Configs :=
  (comp.haltSlots fixF2).map fun (state, color) => Config.initHalt state color

def eraseConfigs (comp : Prog) : Configs :=
  comp.eraseSlots.map fun (state, color) => Config.initBlank state color

def zeroReflexiveConfigs (comp : Prog) : Configs :=
  comp.zrShifts.map fun (state, shift) => Config.initSpinout state shift

def getBlanks (configs : Configs) : Blanks :=
  configs.filterMap fun cfg => if cfg.tape.blank then some cfg.state else none

/-! ### cant_reach -/

/-- the loop `for step in 0..depth`; `fuel` = the iterations that remain, `step` counts up. -/
def cantReachLoop (fixF1 : Bool) (entrypoints : Entrypoints) :
    Nat → Nat → Configs → Blanks → ValidatedSteps → PRes BackwardResult
  | 0, _, _, _, _ => .ok .stepLimit
  | fuel + 1, step, configs, blanks, indefSteps =>
    match getValidSteps fixF1 entrypoints configs with
    | .error e => .error e
    | .ok validSteps =>
      if validSteps.isEmpty then
        if !indefSteps.isEmpty then .ok .spinout else .ok (.refuted step)
      else if MAX_STACK_DEPTH < validSteps.length then .ok .depthLimit
      else
        match stepConfigs validSteps blanks with
        | .error err => .ok err
        | .ok (configs', indefs, blanks') =>
          let indefSteps' := indefSteps ++ indefs
          if indefSteps'.length > MAX_STACK_DEPTH then .ok .depthLimit
          else cantReachLoop fixF1 entrypoints fuel (step + 1) configs' blanks' indefSteps'

/-- `cant_reach`, given the target configurations `get_configs(comp)`. -/
def cantReach (fixF1 : Bool) (comp : Prog) (depth : Nat) (configs : Configs) :
    PRes BackwardResult :=
  if configs.isEmpty then .ok (.refuted 0)
  else
    let entrypoints := getEntrypoints comp
    let configs' := configs.filter fun config => entrypoints.containsKey config.state
    if configs'.isEmpty then .ok (.refuted 0)
    else cantReachLoop fixF1 entrypoints depth 0 configs' (getBlanks configs') []

def cantHalt (comp : Prog) (depth : Nat) (fixF1 : Bool := false) (fixF2 : Bool := false) :
    PRes BackwardResult :=
  cantReach fixF1 comp depth (haltConfigs comp fixF2)

def cantBlank (comp : Prog) (depth : Nat) (fixF1 : Bool := false) : PRes BackwardResult :=
  cantReach fixF1 comp depth (eraseConfigs comp)

def cantSpinOut (comp : Prog) (depth : Nat) (fixF1 : Bool := false) : PRes BackwardResult :=
  cantReach fixF1 comp depth (zeroReflexiveConfigs comp)

end BB.Reason
