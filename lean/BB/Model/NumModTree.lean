/-
Model of the whole `%` operator of tm/num.py (C18): `a % mod` for an expression tree `a`
(`int | Add | Mul | Div | Exp`, BB/Model/NumEval.lean `NExpr`) and an integer modulus.
Imports only other model files and the generated, import-free data file with the literal tables of
`exp_mod_special_cases` (BB/Generated/NumTablesData.lean, rewritten from the source on every run).

Branch for branch after the Python:

    int.__mod__                       Python's `%` for a positive modulus is `Int.emod`
    Add.__mod__   if mod == 1: return 0
                  return ((l % mod) + (r % mod)) % mod
    Mul.__mod__   if mod == 1: return 0
                  if (l_mod := l % mod) == 0: return 0        -- `r % mod` is NOT evaluated
                  if (r_mod := r % mod) == 0: return 0
                  return (l_mod * r_mod) % mod
    Div.__mod__   if mod == 1: return 0
                  if num.depth > 200: raise ModDepthLimit
                  div, rem = divmod(num % (mod * den), den) ; assert rem == 0
                  return div % mod
    Exp.__mod__   see BB/Model/NumMod.lean for the integer exponent (`expModInt`, reused here);
                  for a symbolic exponent every `exp % K` / `exp %= K` is a recursive `%` on the
                  exponent tree, `assert 1 < exp` is `Num.__gt__` (the sign heuristic `negH` below),
                  `exp == 0` is `Num.__eq__` = object identity = False, and an exponent that is
                  still symbolic after the reductions goes to `exp_mod_special_cases`.

`none` = the Python raises (any exception: failed `assert`, `ModDepthLimit`, `PeriodLimit`,
`ExpModLimit`, `NotImplementedError` from a comparison, `ZeroDivisionError`).

Readings that are not literal transcriptions:
* `Div` with `den <= 0`: `Div.__init__` asserts `den > 0`, such a node cannot exist; the model says
  `none`.
* negative `base` (constructible: `Exp(-3, x)`): Python runs `find_period` and the multiplication
  loop on the negative base with `%` after every step; the model runs them on `base % mod`
  (`(x * b) % m = (x * (b % m)) % m`).  None of the literal `case <base>:` applies.
* floats: `int(log2(mod)) == log2(mod)` and `mod == 2 * 3 ** round(log(mod / 2, 3))` are replaced by
  the exact integer tests of BB/Model/NumMod.lean.  The first agrees below 2^49 and above that the
  Python raises `PeriodLimit` either way; the second is exact (the comparison itself is on integers)
  until `mod / 2` overflows a float: for `mod >= 2^1024` the Python raises OverflowError where the
  model goes on.
* `depth` of an integer leaf is taken as 0: an `int` has no `depth`, and `Div.num`, `Add.r`, `Mul.r`
  are always `Num` objects in the library (their constructors read `.depth`).  A `Div` whose `num`
  is an integer raises (AttributeError) in `Div.__mod__`, and so does the model.
-/
import BB.Model.NumEval
import BB.Model.NumMod
import BB.Generated.NumTablesData

namespace BB.NumModTree

open BB.NumEval BB.NumMod

/-- `Num.depth` (`Add`/`Mul`: `1 + r.depth`; `Div`: `1 + num.depth`; `Exp`: 1 for an integer
    exponent, else `1 + exp.depth`); 0 for an integer leaf -/
def depth : NExpr → Nat
  | .int _ => 0
  | .add _ r => 1 + depth r
  | .mul _ r => 1 + depth r
  | .div n _ => 1 + depth n
  | .exp _ e => 1 + depth e

/-- the exponent when it is a Python `int` -/
def asInt : NExpr → Option Int
  | .int n => some n
  | _ => none

/-- `x < k` for a `Num` `x` and an `int` `k` (`Add/Mul/Div/Exp.__lt__` with `isinstance(other, int)`):
    a sign heuristic that never looks at `k`.  `none` = `NotImplementedError`.

      Exp.__lt__   return False
      Div.__lt__   return self.num < 0
      Mul.__lt__   return l < 0
      Add.__lt__   if isinstance(l, int): return r < 0
                   if l < 0 and r < 0: return True
                   if 0 < l and 0 < r: return False          -- `0 < l` is `l != 0 and not l < 0`
                   ... (`other == r`, `other == l`: identity with an int, False) raise NotImplementedError

    An integer leaf is compared for real. -/
def negH : NExpr → Option Bool
  | .int n => some (decide (n < 0))
  | .add l r =>
    match asInt l with
    | some _ => negH r
    | none =>
      match negH l, negH r with
      | some a, some b => if a == b then some a else none
      | _, _ => none
  | .mul l _ => negH l
  | .div n _ => negH n
  | .exp _ _ => some false

/-- `assert 1 < exp` for a symbolic exponent: `exp.__gt__(1)` = `exp != 1 and not exp < 1`
    (`!=` is identity): `some true` = passes, `some false` = AssertionError, `none` =
    NotImplementedError -/
def gtOneH (x : NExpr) : Option Bool := (negH x).map (!·)

/-! ### pieces of `Exp.__mod__` shared by all exponent kinds -/

/-- `if exp == 0: return 1`, then the square-and-multiply loop, for an integer exponent -/
def finish (base mod e : Nat) : Nat :=
  if e == 0 then 1 else sqMul mod (e + 1) base e 1

/-- `if (period := ...) > 0: exp %= period` and the rest, for an integer exponent -/
def intTail (base mod : Nat) (period : Option Nat) (e : Nat) : Option Nat :=
  match period with
  | none => none
  | some p => some (finish base mod (if p > 0 then e % p else e))

/-- `find_period` without the `base == 2 and mod == 2 * 3^k` shortcut (that test is on the literal
    base; used for a negative base, where it is false) -/
def findPeriodRaw (base mod : Nat) : Option Nat :=
  if mod ≥ 2 ^ 24 then none else some (findPeriodGo base mod (mod - 1) 1 1)

def lookupNat {α : Type} (k : Nat) : List (Nat × α) → Option α
  | [] => none
  | (k', v) :: rest => if k' == k then some v else lookupNat k rest

/-- `exp_mod_special_cases(mod, base, exp)` for a symbolic exponent; `rec K` is `exp % K`.

      if base != 2 or 2 * 3 ** round(log(mod / 2, 3)) != mod: raise ExpModLimit
      period = exp % (mod // 3)
      match mod: case 54: values = {...} ... case _: raise ExpModLimit
      try: return values[period] except KeyError: raise ExpModLimit

    the tables (and `mod // 3` evaluated at each table's modulus) are `NumTablesData.specialTables` -/
def expModSpecial (base mod : Nat) (rec : Nat → Option Int) : Option Nat :=
  if base != BB.NumTablesData.specialBase || !isTwoPow3 mod then none
  else
    match lookupNat mod BB.NumTablesData.specialTables with
    | none => none
    | some (per, tbl) =>
      match rec per with
      | none => none
      | some idx => lookupNat idx.toNat tbl

/-- the literal `match base:` block for a symbolic exponent: `none` = falls through,
    `some none` = a recursive `exp % K` raised, `some (some r)` = `return r`.
    (Same cases as `BB.NumMod.special`; `exp % 2`, `exp % 4` are recursive `%` here.) -/
def specialSym (base mod : Nat) (rec : Nat → Option Int) : Option (Option Nat) :=
  if base == 2 then
    if mod == 4 then some (some 0)
    else if mod == 6 then some ((rec 2).map fun r => if r == 0 then 4 else 2)
    else if mod == 12 then some ((rec 2).map fun r => if r == 0 then 4 else 8)
    else if mod == 30 then
      some ((rec 4).map fun r => match r.toNat with | 3 => 8 | 0 => 16 | 1 => 2 | _ => 4)
    else none
  else if base == 3 then (if mod == 6 then some (some 3) else none)
  else if base == 6 then (if mod == 10 then some (some 6) else none)
  else if base == 7 then
    (if mod == 12 then some ((rec 2).map fun r => if r == 0 then 1 else 7) else none)
  else none

/-- `Exp(base, exp).__mod__(mod)`, `base >= 0`, symbolic exponent.  `gt1` is `1 < exp`
    (`gtOneH`), `rec K` is `exp % K`. -/
def expSymNat (base mod : Nat) (gt1 : Option Bool) (rec : Nat → Option Int) : Option Nat :=
  if mod == 1 then some 0
  else if mod == base then some 0
  else if mod == 2 then some (base % 2)
  else if mod == 0 then none                    -- `base % mod`: ZeroDivisionError
  else if base % mod == 0 then none             -- assert base % mod != 0
  else
    match gt1 with
    | none => none                              -- NotImplementedError
    | some false => none                        -- assert 1 < exp
    | some true =>
      match specialSym base mod rec with
      | some r => r
      | none =>
        -- case 3: if mod is a power of two 2^n: exp %= 2 ** max(n - 2, 1)   (an int from here on)
        match (if base == 3 then log2Exact (mod + 1) mod else none) with
        | some n =>
          match rec (2 ^ (max (n - 2) 1)) with
          | none => none
          | some e => intTail base mod (findPeriod base mod) e.toNat
        | none =>
          match findPeriod base mod with
          | none => none                        -- PeriodLimit
          | some p =>
            if p > 0 then
              -- exp %= period ; if exp == 0: return 1 ; loop
              match rec p with
              | none => none
              | some e => some (finish base mod e.toNat)
            else
              -- `exp == 0` is False (identity), `not isinstance(exp, int)`
              expModSpecial base mod rec

/-- `Exp(base, exp).__mod__(mod)`, `base < 0`, integer exponent; `b = base % mod` -/
def expNegInt (base : Int) (exp : Int) (mod : Nat) : Option Nat :=
  if mod == 1 then some 0
  else if mod == 2 then some (base % 2).toNat
  else if mod == 0 then none
  else
    let b := (base % (mod : Int)).toNat
    if b == 0 then none
    else if exp ≤ 1 then none
    else intTail b mod (findPeriodRaw b mod) exp.toNat

/-- `Exp(base, exp).__mod__(mod)`, `base < 0`, symbolic exponent -/
def expNegSym (base : Int) (mod : Nat) (gt1 : Option Bool) (rec : Nat → Option Int) : Option Nat :=
  if mod == 1 then some 0
  else if mod == 2 then some (base % 2).toNat
  else if mod == 0 then none
  else
    let b := (base % (mod : Int)).toNat
    if b == 0 then none
    else
      match gt1 with
      | none => none
      | some false => none
      | some true =>
        match findPeriodRaw b mod with
        | none => none
        | some p =>
          if p > 0 then
            match rec p with
            | none => none
            | some e => some (finish b mod e.toNat)
          else none                             -- exp_mod_special_cases: base != 2, ExpModLimit

/-- `Exp.__mod__`, integer exponent -/
def expLit (base exp : Int) (mod : Nat) : Option Nat :=
  if base ≥ 0 then expModInt base.toNat exp.toNat mod else expNegInt base exp mod

/-- `Exp.__mod__`, symbolic exponent -/
def expSym (base : Int) (mod : Nat) (gt1 : Option Bool) (rec : Nat → Option Int) : Option Nat :=
  if base ≥ 0 then expSymNat base.toNat mod gt1 rec else expNegSym base mod gt1 rec

def natRes (r : Option Nat) : Option Int := r.map Int.ofNat

/-- `a % mod`: `some r` = the Python returns `r`, `none` = it raises -/
def modE : NExpr → Nat → Option Int
  | .int n, m => if m == 0 then none else some (n % (m : Int))
  | .add l r, m =>
    if m == 1 then some 0
    else
      match modE l m, modE r m with
      | some a, some b => if m == 0 then none else some ((a + b) % (m : Int))
      | _, _ => none
  | .mul l r, m =>
    if m == 1 then some 0
    else
      match modE l m with
      | none => none
      | some a =>
        if a == 0 then some 0
        else
          match modE r m with
          | none => none
          | some b =>
            if b == 0 then some 0
            else if m == 0 then none else some ((a * b) % (m : Int))
  | .div n d, m =>
    if m == 1 then some 0
    else if (asInt n).isSome then none            -- `num.depth` of an int: AttributeError (`num` is a `Num`)
    else if depth n > 200 then none               -- ModDepthLimit
    else if d ≤ 0 then none                       -- not a `Div` (`assert den > 0` in `__init__`)
    else
      match modE n (m * d.toNat) with
      | none => none
      | some x =>
        if x % d != 0 then none                   -- assert rem == 0
        else if m == 0 then none else some ((x / d) % (m : Int))
  | .exp b x, m =>
    match asInt x with
    | some k => natRes (expLit b k m)
    | none => natRes (expSym b m (gtOneH x) (fun K => modE x K))

/-- the hypothesis of `modE_correct` (BB/Props/C18.lean): every `Exp` node of the tree, also inside
    exponents, has an exponent `≥ 1` when the exponent is an integer, and a symbolic exponent whose
    value (`eval`) is `≥ 2`.  (The library never builds anything else: `Exp.__mod__` itself asserts
    `1 < exp`, but only after three early returns, and for a symbolic exponent only through the
    sign heuristic `negH`.) -/
def expsOk : NExpr → Bool
  | .int _ => true
  | .add l r => expsOk l && expsOk r
  | .mul l r => expsOk l && expsOk r
  | .div n _ => expsOk n
  | .exp _ x =>
    match asInt x with
    | some k => decide (1 ≤ k)
    | none => expsOk x && (match eval x with | some k => decide (2 ≤ k) | none => false)

/-- the trees of `modE_defined_simple`: sums and products of integers and of powers with a
    non-negative base not divisible by `m` and an integer exponent `≥ 2` -/
def simpleOk (m : Nat) : NExpr → Bool
  | .int _ => true
  | .add l r => simpleOk m l && simpleOk m r
  | .mul l r => simpleOk m l && simpleOk m r
  | .div _ _ => false
  | .exp b x =>
    match asInt x with
    | some k => decide (0 ≤ b) && decide (2 ≤ k) && (b.toNat % m != 0)
    | none => false

end BB.NumModTree
