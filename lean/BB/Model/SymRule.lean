/-
Symbolic validation of rule applications and of "infinite rule" verdicts (C02 / C03).
Import-free (core Lean + model files only).

`checkApp` (Validate.lean) re-validates a reported rule application by running the plain
simulator from the tape before to the tape after: its cost grows with the number of times the rule
was applied.  Here the rule itself is validated once, for ALL block counts, by running the plain
simulator on a tape whose block counts are LINEAR FORMS `c + Σ kᵢ·xᵢ` in variables `xᵢ ≥ 0`
(`symStep`): every decision the run-length simulator takes (sweep or not, decrement or remove a
block, merge or insert) must be determined by the colours and by the constant parts of the forms -
otherwise the symbolic run gives up (`unknown`).  If one period of the symbolic run leads from the
symbolic tape `S(x)` back to the same state on `S(x) + δ` (`symPeriod`), then by induction the real
machine runs from `S(x)` to `S(x) + t·δ` for every `t` for which the intermediate values stay in
range - a rule application of any size (`validateApp`) - and if no `δᵢ` is negative the machine
never halts (`validateInf`).  Soundness against the L0 machine: BB/Lemmas/SymRule*.lean, property
theorems in BB/Props/C02.lean / C03.lean.
-/
import BB.Model.Validate

namespace BB.Sym

/-- a linear form `c + Σ ks[i] * x_i` with natural coefficients -/
structure Form where
  c : Nat
  ks : List Nat
deriving Repr, DecidableEq, Inhabited

/-- a valuation of the variables (missing entries are 0) -/
abbrev Val := List Nat

def dot : List Nat → Val → Nat
  | [], _ => 0
  | _, [] => 0
  | k :: ks, x :: xs => k * x + dot ks xs

def Form.eval (f : Form) (v : Val) : Nat := f.c + dot f.ks v

def addKs : List Nat → List Nat → List Nat
  | [], b => b
  | a, [] => a
  | a :: as, b :: bs => (a + b) :: addKs as bs

def Form.add (f g : Form) : Form := ⟨f.c + g.c, addKs f.ks g.ks⟩
def Form.const (n : Nat) : Form := ⟨n, []⟩
def Form.succ (f : Form) : Form := ⟨f.c + 1, f.ks⟩
def Form.isConst (f : Form) : Bool := f.ks.all (· == 0)
/-- the `i`-th variable plus a constant -/
def Form.var (c i : Nat) : Form := ⟨c, List.replicate i 0 ++ [1]⟩
/-- normal form of the coefficient list: trailing zeros dropped -/
def trimKs (ks : List Nat) : List Nat := (ks.reverse.dropWhile (· == 0)).reverse
def Form.eqv (f g : Form) : Bool := f.c == g.c && trimKs f.ks == trimKs g.ks

structure SBlock where
  color : Nat
  count : Form
deriving Repr, DecidableEq, Inhabited

abbrev SSpan := List SBlock

structure STape where
  scan : Nat
  lspan : SSpan
  rspan : SSpan
deriving Repr, DecidableEq, Inhabited

def SSpan.inst (s : SSpan) (v : Val) : Span := s.map fun b => ⟨b.color, b.count.eval v⟩
def STape.inst (t : STape) (v : Val) : Tape := ⟨t.scan, SSpan.inst t.lspan v, SSpan.inst t.rspan v⟩

/-- every block count is at least 1 under every valuation: constant part ≥ 1 -/
def SSpan.posB (s : SSpan) : Bool := s.all fun b => b.count.c ≥ 1
def STape.posB (t : STape) : Bool := SSpan.posB t.lspan && SSpan.posB t.rspan

/-- `Span.pull` on a symbolic span: `none` when a decision is not determined.
    Returns (next scan, cells stepped, remaining span). -/
def SSpan.pull (s : SSpan) (scan : Nat) (skip : Bool) : Option (Nat × Form × SSpan) :=
  let (stepped, s1) : Form × SSpan :=
    match s with
    | b :: rest => if skip && b.color == scan then (b.count.succ, rest) else (Form.const 1, s)
    | [] => (Form.const 1, s)
  match s1 with
  | [] => some (0, stepped, [])
  | b :: rest =>
    if b.count.c ≥ 2 then some (b.color, stepped, ⟨b.color, ⟨b.count.c - 1, b.count.ks⟩⟩ :: rest)
    else if b.count.c == 1 && b.count.isConst then some (b.color, stepped, rest)
    else none

/-- `Span.push` on a symbolic span (always determined: it depends on colours only) -/
def SSpan.push (s : SSpan) (print : Nat) (stepped : Form) : SSpan :=
  match s with
  | b :: rest =>
    if b.color == print then ⟨b.color, b.count.add stepped⟩ :: rest
    else ⟨print, stepped⟩ :: s
  | [] => if print == 0 then [] else [⟨print, stepped⟩]

def STape.step (t : STape) (shift : Bool) (color : Nat) (skip : Bool) : Option (STape × Form) :=
  if shift then
    match SSpan.pull t.rspan t.scan skip with
    | some (ns, stepped, pull') => some (⟨ns, SSpan.push t.lspan color stepped, pull'⟩, stepped)
    | none => none
  else
    match SSpan.pull t.lspan t.scan skip with
    | some (ns, stepped, pull') => some (⟨ns, pull', SSpan.push t.rspan color stepped⟩, stepped)
    | none => none

def STape.atEdge (t : STape) (shift : Bool) : Bool :=
  t.scan == 0 && (if shift then t.rspan else t.lspan).isEmpty

inductive SymStep where
  | undefined
  | spinout
  | unknown
  | next (state : Nat) (tape : STape) (stepped : Form)

/-- one plain simulator cycle on a symbolic tape -/
def symStep (p : Prog) (q : Nat) (t : STape) : SymStep :=
  match p.get (q, t.scan) with
  | none => .undefined
  | some (color, shift, next) =>
    let same := q == next
    if same && t.atEdge shift then .spinout
    else match t.step shift color same with
      | some (t', k) => .next next t' k
      | none => .unknown

/-- the tape `s` with the constant part of each block count shifted by the given differences
    (left span, right span; one `Int` per block); `none` if the shapes differ or a constant would
    drop below 1 -/
def shiftSpan : SSpan → List Int → Option SSpan
  | [], [] => some []
  | b :: bs, d :: ds =>
    let c' : Int := (b.count.c : Int) + d
    if c' < 1 then none
    else (shiftSpan bs ds).map fun r => ⟨b.color, ⟨c'.toNat, b.count.ks⟩⟩ :: r
  | _, _ => none

def STape.shift (t : STape) (dl dr : List Int) : Option STape :=
  match shiftSpan t.lspan dl, shiftSpan t.rspan dr with
  | some l, some r => some ⟨t.scan, l, r⟩
  | _, _ => none

def SSpan.eqv : SSpan → SSpan → Bool
  | [], [] => true
  | a :: as, b :: bs => a.color == b.color && a.count.eqv b.count && SSpan.eqv as bs
  | _, _ => false

def STape.eqv (a b : STape) : Bool :=
  a.scan == b.scan && SSpan.eqv a.lspan b.lspan && SSpan.eqv a.rspan b.rspan

/-- run symbolic cycles from `(cur, t)` until the machine stands in state `q` on `target`
    (compared up to trailing zero coefficients); returns the number of cycles and the total number
    of base steps as a form -/
def symPeriodLoop (p : Prog) (q : Nat) (target : STape) :
    Nat → Nat → Form → Nat → STape → Option (Nat × Form)
  | 0, _, _, _, _ => none
  | fuel + 1, cycles, steps, cur, t =>
    match symStep p cur t with
    | .next cur' t' k =>
      if cur' == q && t'.eqv target then some (cycles + 1, steps.add k)
      else symPeriodLoop p q target fuel (cycles + 1) (steps.add k) cur' t'
    | _ => none

/-- `symPeriod p q s dl dr budget`: one period of the rule `s(x) ↦ s(x) + (dl, dr)` in state `q`,
    validated for all `x ≥ 0`: at least one cycle, no undefined instruction, no spin-out, every
    decision determined.  Returns (cycles, steps form). -/
def symPeriod (p : Prog) (q : Nat) (s : STape) (dl dr : List Int) (budget : Nat) :
    Option (Nat × Form) :=
  if !s.posB then none
  else match s.shift dl dr with
    | none => none
    | some target => symPeriodLoop p q target budget 0 (Form.const 0) q s

/-! ### From a reported application to a symbolic rule

`before`, `after`, `times` as reported by the hook.  The per-block difference must be
`(after - before) / times` exactly; a block the rule changes becomes `c + xᵢ` with its own
variable; the constant `c` is the smallest count the block has at the START of any of the `times`
periods: `before` for an increasing block, `after + |δ|` (the count before the last period) for a
decreasing one. -/

/-- per-block differences `(after - before) / times`; `none` unless the colours agree and the
    division is exact -/
def spanDiffs (times : Nat) : Span → Span → Option (List Int)
  | [], [] => some []
  | a :: as, b :: bs =>
    if a.color != b.color then none
    else
      let d : Int := (b.count : Int) - (a.count : Int)
      if d % (times : Int) != 0 then none
      else (spanDiffs times as bs).map fun r => d / (times : Int) :: r
  | _, _ => none

/-- symbolic span for `before`/diffs, numbering variables from `i`; returns the span, the start
    valuation (value of each new variable at the first period) and the next free index -/
def symSpan (times : Nat) : Span → List Int → Nat → SSpan × Val × Nat
  | a :: as, d :: ds, i =>
    if d == 0 then
      let (r, v, j) := symSpan times as ds i
      (⟨a.color, Form.const a.count⟩ :: r, v, j)
    else
      -- smallest count at the start of a period
      let c : Nat := if d > 0 then a.count else a.count - (times - 1) * d.natAbs
      let (r, v, j) := symSpan times as ds (i + 1)
      (⟨a.color, Form.var c i⟩ :: r, (a.count - c) :: v, j)
  | _, _, i => ([], [], i)

/-- `Σ_{j<t} f(x + j·δ)` for a steps form `f`, start valuation `x`, per-variable differences `δ`:
    `t·f(x) + Σᵢ kᵢ·δᵢ·t(t-1)/2` (an `Int` because `δ` may be negative; the result is ≥ 0) -/
def totalSteps (f : Form) (x : Val) (ds : List Int) (t : Nat) : Int :=
  (t : Int) * (f.eval x : Int) +
    (List.zipWith (fun (k : Nat) (d : Int) => (k : Int) * d) f.ks ds).foldl (· + ·) 0 * ((t : Int) * ((t : Int) - 1) / 2)

/-- validate a reported application symbolically: `some steps` = the real machine runs from
    `(q, before)` to `(q, after)` in exactly `steps` base steps -/
def validateApp (p : Prog) (q : Nat) (before after : Tape) (times budget : Nat) : Option Nat :=
  if times == 0 || before.scan != after.scan then none
  else match spanDiffs times before.lspan after.lspan, spanDiffs times before.rspan after.rspan with
    | some dl, some dr =>
      let (sl, vl, i) := symSpan times before.lspan dl 0
      let (sr, vr, _) := symSpan times before.rspan dr i
      let s : STape := ⟨before.scan, sl, sr⟩
      let v : Val := vl ++ vr
      -- the symbolic tape really denotes `before` at the start valuation
      if s.inst v != before then none
      else match symPeriod p q s dl dr budget with
        | some (_, f) =>
          let ds := (dl ++ dr).filter (· != 0)
          let n := totalSteps f v ds times
          if n < 1 then none else some n.toNat
        | none => none
    | _, _ => none

/-! ### Infinite rules

From `(q, t)`: run the plain simulator until the first later cycle at which the machine is in state
`q` on a tape of the same shape (same scan, same block colours) whose counts are all `≥` those of
`t`; make the grown blocks variables and validate that period symbolically.  Then the machine runs
for ever: each period is at least one step, meets no undefined instruction, and leads to a tape of
the same symbolic family. -/

def sameShapeGrow : Span → Span → Option (List Int)
  | [], [] => some []
  | a :: as, b :: bs =>
    if a.color != b.color || b.count < a.count then none
    else (sameShapeGrow as bs).map fun r => ((b.count : Int) - (a.count : Int)) :: r
  | _, _ => none

/-- search for the period by plain simulation (at most `budget` cycles) -/
def findGrow (p : Prog) (q : Nat) (t0 : Tape) : Nat → Nat → Tape → Option (List Int × List Int)
  | 0, _, _ => none
  | fuel + 1, cur, t =>
    match plainStep p cur t with
    | .next cur' t' _ =>
      if cur' == q && t'.scan == t0.scan then
        match sameShapeGrow t0.lspan t'.lspan, sameShapeGrow t0.rspan t'.rspan with
        | some dl, some dr => some (dl, dr)
        | _, _ => findGrow p q t0 fuel cur' t'
      else findGrow p q t0 fuel cur' t'
    | _ => none

/-- `true` = from `(q, t)` the machine never halts (and never spins out) -/
def validateInf (p : Prog) (q : Nat) (t : Tape) (budget : Nat) : Bool :=
  match findGrow p q t budget q t with
  | none => false
  | some (dl, dr) =>
    let (sl, vl, i) := symSpan 1 t.lspan dl 0
    let (sr, vr, _) := symSpan 1 t.rspan dr i
    let s : STape := ⟨t.scan, sl, sr⟩
    if s.inst (vl ++ vr) != t then false
    else (symPeriod p q s dl dr budget).isSome

end BB.Sym
