/-
L1 model of the PYTHON machine runner: tm/machine.py `Machine.run`, tm/prover.py `Prover`, the
ADDITIVE fragment of tm/rules.py (`calculate_diff`, `make_rule`, `count_apps`, `apply_rule`) and
the parts of tm/tape.py they use (`Tape.sig_compatible`, `EnumTape`); `Tape.step` is `pyStep` of
PyTape.lean.  Import-free apart from other BB.Model files.

What is SHARED with the model of the Rust runner (Prover.lean / Rules.lean / Tape.lean), because
the Python code is the same algorithm over the same data or literally the same compiled code:
  * the program (`tcompile` of tm/parse.py IS the Rust `CompProg::from_str`): `Prog`, `Prog.get`;
  * `Tape`, `Tape.signature`, `Tape.counts`, `Tape.marks`, `Tape.blank`, `Tape.atEdge`, `Tape.spanLens`
    (a Python `Signature` entry `color` / `(color,)` is `ColorCount.mult` / `.just`);
  * `PastConfigs` (tm/prover.py imports the class from the Rust extension): `PastConfigs.new`,
    `PastConfigs.nextDeltas`, `PastConfigs.deleteConfigs`;
  * the two dictionaries of the Python `Prover`: `rules : dict[Slot, list[(MinSig, Rule)]]` and
    `configs : dict[Signature, PastConfigs]` are only ever looked up by key (and `len(configs)`
    taken), so the containers of the Rust model (`Prover`, `rulesGet`, `rulesPush`, `ConfigMap`)
    are reused as they are;
  * a Python additive `Rule` is a `dict[(side, pos), int]` filled in increasing key order, which is
    the iteration order of the Rust `BTreeMap<(bool, usize), Op>`: the type `Rule` is reused with
    `Op.plus d`, `d` an UNBOUNDED integer here.  `Op.mult` is never built by this model;
  * `EnumTape.checkStep` (Python `EnumTape.step` performs the same tests in the same order as the
    Rust `check_step`), `EnumTape.checkOffsets`, `EnumTape.touchEdge`, `EnumTape.ofTape`.
What is PORTED SEPARATELY because the Python text differs: `Tape.sig_compatible` (length
EQUALITY), `Prover.get_rule` (slice comparison), `calculate_diff` / `make_rule` (unbounded
differences, other failure modes, InfiniteRule raised inside `make_rule`, SecondDiffRule),
`count_apps` / `apply_rule` (in-place, unbounded), `EnumTape.get_count` (registers the block read;
blocks are tracked by object identity and keep their tag when `Tape.step` moves them to the other
side), `run_simulator` (no cap on the number of steps, undefined instruction in `get_min_sig`
tolerated), `Prover.try_rule`, `Machine.run` (`step` becomes -1 after a rule application,
`cycles` is always the loop variable).

Explicit outcomes (`PyStop`):
  * `.outside why`: the run leaves the additive fragment: `calculate_diff` returns a
    multiplicative pair `(div, mod)` / `(1 + div, div_diff)` (py_harness: `nonadd=1`);
  * `.exc name`: a Python exception that `Machine.run` does not catch (py_harness: `PYEXC:name`);
  * `.boundary what`: the edge of what this model describes exactly: (1) Python ints are `Nat`
    here, exact while every count stays positive; (2) the shared `PastConfigs` code runs in the
    release build of the extension where `i32` arithmetic wraps, here it is the range-checked
    arithmetic of Prover.lean and a range violation stops the model.
Declared limits of the Python runner: `cfglim` (ConfigLimit) is outcome `.limit`; `limrul`
(RuleLimit / NotImplementedError) can only be raised by non-integer counts or operations and has
no branch in the additive fragment.
-/
import BB.Model.Instrs
import BB.Model.Tape
import BB.Model.Machine
import BB.Model.Rules
import BB.Model.Prover
import BB.Model.PyTape

namespace BB.PyM

open BB

inductive PyStop where
  | outside (why : String)
  | exc (name : String)
  | boundary (what : String)
deriving Repr, DecidableEq, Inhabited

abbrev PyRes (α : Type) := Except PyStop α

/-! ### tm/tape.py: `Tape.sig_compatible` -/

/-- `all(block.color == (color[0] if isinstance(color, tuple) else color) for block, color in
    zip(span[:len(sig)], sig, strict = True))` for lists of equal length (the length tests come
    first in the `and` chain) -/
def pySpanCompatible : Span → SigSpan → Bool
  | [], [] => true
  | b :: bs, c :: cs => b.color == c.color && pySpanCompatible bs cs
  | _, _ => false

/-- `Tape.sig_compatible`: the two span lengths must be EQUAL to the signature's -/
def pySigCompatible (t : Tape) (sig : Signature) : Bool :=
  t.scan == sig.scan
    && t.lspan.length == sig.lspan.length
    && t.rspan.length == sig.rspan.length
    && pySpanCompatible t.lspan sig.lspan
    && pySpanCompatible t.rspan sig.rspan

/-! ### tm/prover.py: `get_rule` -/

/-- `scan == sig[0] and lspan == (sig[1] if lex else sig[1][:len(lspan)])
     and rspan == (sig[2] if rex else sig[2][:len(rspan)])` -/
def pyMatchesSig (ms : MinSig) (sig : Signature) : Bool :=
  ms.1.scan == sig.scan
    && ms.1.lspan == (if ms.2.1 then sig.lspan else sig.lspan.take ms.1.lspan.length)
    && ms.1.rspan == (if ms.2.2 then sig.rspan else sig.rspan.take ms.1.rspan.length)

/-- the `for` loop of `get_rule` -/
def pyFindRule : List (MinSig × Rule) → Signature → Option Rule
  | [], _ => none
  | (ms, rule) :: rest, sig => if pyMatchesSig ms sig then some rule else pyFindRule rest sig

/-- `Prover.get_rule(state, tape, sig)` -/
def pyGetRule (pv : Prover) (state : Nat) (tape : Tape) (sig : Option Signature) : Option Rule :=
  match rulesGet pv.rules (state, tape.scan) with
  | none => none
  | some temp =>
    let sig := match sig with
      | some sig => sig
      | none => tape.signature
    pyFindRule temp sig

/-! ### tm/rules.py: `calculate_diff` on four `int`s -/

inductive PyDiff where
  | none                        -- `return None`
  | plus (d : Int)              -- `return plus`
  | mult (why : String)         -- `return div, mod` / `return 1 + div, div_diff`
  | unknown                     -- `raise UnknownRule`
  | suspected                   -- `raise SuspectedRule`
  | secondDiff                  -- `raise SecondDiffRule`
  | zeroDiv                     -- `divmod(_, 0)`
deriving Repr, DecidableEq, Inhabited

def possibleRulePairs : List (Nat × Nat) := [(3, 2), (5, 3), (5, 2), (5, 4), (4, 3)]

/-- `(count_2 - count_1 * add // sub) == (cnt3 - count_2 * add // sub) == (cnt4 - cnt3 * add // sub)` -/
def suspectedPair (a b c d : Nat) (pr : Nat × Nat) : Bool :=
  let f (x y : Nat) : Int := (y : Int) - ((x * pr.1 / pr.2 : Nat) : Int)
  f a b == f b c && f b c == f c d

/-- `calculate_diff(count_1, count_2, cnt3, cnt4)` for `int` arguments (`≥ 0`) -/
def pyCalculateDiff (a b c d : Nat) : PyDiff :=
  if b == a && c == a && d == a then .none
  else
    let plus : Int := (b : Int) - (a : Int)
    if (c : Int) - (b : Int) == plus && (d : Int) - (c : Int) == plus then .plus plus
    else if !(a < b && b < c && c < d) then .unknown              -- 'non-increasing'
    else if a == 0 then .zeroDiv                                  -- divmod(count_2, count_1)
    else
      -- `b > 0`, `c > 0` here (ascending), so the two `divmod`s of the generator succeed
      let div := b / a
      let mod := b % a
      let q1 := c / b
      let r1 := c % b
      let q2 := d / c
      let r2 := d % c
      -- the `for .. in divmods` loop with its `else`
      let loopEnd : Option PyDiff :=        -- `some x` = the function ends with `x`; `none` = `break`
        if q1 != div then some .unknown                           -- 'different divs'
        else if r1 != mod then none
        else if q2 != div then some .unknown
        else if r2 != mod then none
        else some (.mult "divmod")
      match loopEnd with
      | some r => r
      | none =>
        let divDiff : Int := (b : Int) - ((a * (1 + div) : Nat) : Int)
        if (c : Int) - ((b * (1 + q1) : Nat) : Int) == divDiff
            && (d : Int) - ((c * (1 + q2) : Nat) : Int) == divDiff then .mult "div_diff"
        else if possibleRulePairs.any (suspectedPair a b c d) then .suspected
        else
          let d1 : Int := (b : Int) - (a : Int)
          let d2 : Int := (c : Int) - (b : Int)
          let d3 : Int := (d : Int) - (c : Int)
          if d2 - d1 == d3 - d2 then .secondDiff else .unknown

/-! ### tm/rules.py: `make_rule` -/

inductive PyMade where
  | none                 -- `return None` (UnknownRule caught inside) or SuspectedRule (caught by
                         --  `Machine.run`: `rule = None`)
  | rule (r : Rule)      -- `return rule`
  | infinite             -- `raise InfiniteRule`
deriving Repr, DecidableEq, Inhabited

/-- the inner loop of `make_rule` over one side; carries `second_diff` -/
def pyMakeRuleSpans (s : Bool) : List (Nat × Nat × Nat × Nat) → Nat → Rule → Bool →
    PyRes (Option (Rule × Bool))
  | [], _, rule, sd => .ok (some (rule, sd))
  | (a, b, c, d) :: rest, i, rule, sd =>
    match pyCalculateDiff a b c d with
    | .none => pyMakeRuleSpans s rest (i + 1) rule sd
    | .plus diff => pyMakeRuleSpans s rest (i + 1) (rule ++ [((s, i), .plus diff)]) sd
    | .mult why => .error (.outside s!"calculate_diff returned a multiplicative pair ({why})")
    | .unknown => .ok none
    | .suspected => .ok none
    | .secondDiff => pyMakeRuleSpans s rest (i + 1) rule true
    | .zeroDiv => .error (.exc "ZeroDivisionError")

/-- `all(diff >= 0 for diff in rule.values() if isinstance(diff, Plus))` -/
def pyAllNonNeg (rule : Rule) : Bool :=
  rule.all fun kv => match kv.2 with
    | .plus d => d ≥ 0
    | .mult _ _ => true

def sameLen4 (a b c d : List Nat) : Bool :=
  a.length == b.length && b.length == c.length && c.length == d.length

/-- `make_rule(c1, c2, c3, c4)`.  `zip(.., strict = True)` raises ValueError when it runs off the
    end of lists of unequal length, i.e. after the common prefix has been processed. -/
def pyMakeRule (c1 c2 c3 c4 : Counts) : PyRes PyMade :=
  match pyMakeRuleSpans false (zip4 c1.1 c2.1 c3.1 c4.1) 0 [] false with
  | .error e => .error e
  | .ok none => .ok .none
  | .ok (some (rule, sd)) =>
    if !sameLen4 c1.1 c2.1 c3.1 c4.1 then .error (.exc "ValueError")
    else
      match pyMakeRuleSpans true (zip4 c1.2 c2.2 c3.2 c4.2) 0 rule sd with
      | .error e => .error e
      | .ok none => .ok .none
      | .ok (some (rule, sd)) =>
        if !sameLen4 c1.2 c2.2 c3.2 c4.2 then .error (.exc "ValueError")
        else if pyAllNonNeg rule then .ok .infinite
        else if sd then .error (.exc "UnknownRule")
        else .ok (.rule rule)

/-! ### tm/rules.py: `count_apps` / `apply_rule` -/

/-- `tape.get_count(index)`; IndexError when out of range -/
def pyGetCount (t : Tape) (index : Index) : PyRes Nat :=
  match (if index.1 then t.rspan else t.lspan)[index.2]? with
  | some b => .ok b.count
  | none => .error (.exc "IndexError")

/-- the loop of `count_apps`.  Third component: the positions whose `get_count` was called, in
    order (an `EnumTape` registers them). -/
def pyCountAppsLoop (t : Tape) : Rule → Option Apps → List Index → PyRes (Option Apps × List Index)
  | [], apps, reads => .ok (apps, reads)
  | (pos, op) :: rest, apps, reads =>
    match op with
    | .mult _ _ => .error (.outside "non-additive operation in a rule")
    | .plus diff =>
      if diff ≥ 0 then pyCountAppsLoop t rest apps reads
      else
        match pyGetCount t pos with
        | .error e => .error e
        | .ok count =>
          let reads := reads ++ [pos]
          let absdiff := diff.natAbs
          if absdiff ≥ count then .ok (none, reads)
          else
            let div := count / absdiff
            let rem := count % absdiff
            let (times, minRes) := if rem > 0 then (div, rem) else (div - 1, absdiff)
            let apps' : Option Apps :=
              match apps with
              | none => some (times, pos, minRes)
              | some (curr, _, _) => if times < curr then some (times, pos, minRes) else apps
            pyCountAppsLoop t rest apps' reads

/-- `span[pos].count = val` -/
def pySetCount (t : Tape) (index : Index) (val : Nat) : PyRes Tape :=
  if index.1 then
    match Span.setCount t.rspan index.2 val with
    | some s => .ok { t with rspan := s }
    | none => .error (.exc "IndexError")
  else
    match Span.setCount t.lspan index.2 val with
    | some s => .ok { t with lspan := s }
    | none => .error (.exc "IndexError")

/-- the `for pos, diff in rule.items()` loop of `apply_rule`: read, compute, write, in place -/
def pyApplyLoop (times : Nat) (minPos : Index) (minRes : Nat) :
    Rule → Tape → List Index → PyRes (Tape × List Index)
  | [], t, reads => .ok (t, reads)
  | (pos, op) :: rest, t, reads =>
    match op with
    | .mult _ _ => .error (.outside "non-additive operation in a rule")
    | .plus diff =>
      match pyGetCount t pos with
      | .error e => .error e
      | .ok count =>
        let result : PyRes Nat :=
          if pos != minPos then
            let r : Int := (count : Int) + diff * (times : Int)
            if r ≤ 0 then .error (.boundary "a count became non-positive") else .ok r.toNat
          else if diff < 0 then .ok minRes
          else .error (.exc "AssertionError")
        match result with
        | .error e => .error e
        | .ok r =>
          match pySetCount t pos r with
          | .error e => .error e
          | .ok t' => pyApplyLoop times minPos minRes rest t' (reads ++ [pos])

/-- `apply_rule(rule, tape)`: the result, the tape afterwards, the positions read -/
def pyApplyRule (t : Tape) (rule : Rule) : PyRes (Option Nat × Tape × List Index) :=
  match pyCountAppsLoop t rule none [] with
  | .error e => .error e
  | .ok (none, reads) => .ok (none, t, reads)
  | .ok (some (times, minPos, minRes), reads) =>
    match pyApplyLoop times minPos minRes rule t reads with
    | .error e => .error e
    | .ok (t', reads') => .ok (some times, t', reads')

/-! ### tm/tape.py: `EnumTape`

`enums : dict[id(block), (side, num)]` tags the block OBJECTS of the cloned tape.  The model keeps,
per side, the list of the blocks' tags (`Option Index`; `none` = object not in `enums`), as the
model of the Rust `EnumTape` does.  `Tape.step` moves a block object to the other side when it
reuses it (`push_block`), and the object keeps its tag.  (An untagged `Block(color, 1)` allocated
at the address of a freed tagged block would inherit the stale tag through `id()`; every block
that is freed or moved has been `check_offsets`-ed before, so a stale or moved tag can never raise
an offset, and address reuse is not modelled.) -/

/-- what `Tape.step` does to the tags: (pull tags, push tags) afterwards -/
def pyIdxStep (pullIdx pushIdx : IdxSpan) (pull push : Span) (scan color : Nat) (skip : Bool) :
    IdxSpan × IdxSpan :=
  -- push_block = pull.pop(0) if skip and pull and pull[0].color == scan else None
  let (pb, pullIdx1, pull1) : Option (Option Index) × IdxSpan × Span :=
    match pull with
    | b :: rest => if skip && b.color == scan then (some (pullIdx.at 0), pullIdx.tail, rest)
                   else (none, pullIdx, pull)
    | [] => (none, pullIdx, pull)
  let (pb2, pullIdx2) : Option (Option Index) × IdxSpan :=
    match pull1 with
    | [] => (pb, pullIdx1)
    | np :: _ =>
      if np.count != 1 then (pb, pullIdx1)
      else
        match pb with
        | none => (some (pullIdx1.at 0), pullIdx1.tail)
        | some _ => (pb, pullIdx1.tail)
  let inserted : IdxSpan :=
    (match pb2 with
     | none => none           -- `Block(color, 1)`: a new object
     | some tag => tag) :: pushIdx
  let pushIdx2 : IdxSpan :=
    match push with
    | top :: _ => if top.color == color then pushIdx else inserted
    | [] => if color != 0 then inserted else pushIdx
  (pullIdx2, pushIdx2)

/-- `EnumTape.step(shift, color, skip)` -/
def pyEnumStep (et : EnumTape) (shift : Bool) (color : Nat) (skip : Bool) : EnumTape :=
  let et1 := et.checkStep shift color skip
  let (t', _) := pyStep et.tape shift color skip
  if shift then
    let (pl, ps) := pyIdxStep et.ridx et.lidx et.tape.rspan et.tape.lspan et.tape.scan color skip
    { et1 with tape := t', ridx := pl, lidx := ps }
  else
    let (pl, ps) := pyIdxStep et.lidx et.ridx et.tape.lspan et.tape.rspan et.tape.scan color skip
    { et1 with tape := t', lidx := pl, ridx := ps }

/-- `EnumTape.get_count` registers the block it reads: the `check_offsets` calls for the positions
    read by one `apply_rule` (positions and tags do not change during the call) -/
def pyEnumReads (et : EnumTape) : List Index → EnumTape
  | [] => et
  | (side, pos) :: rest =>
    pyEnumReads (et.checkOffsets ((if side then et.ridx else et.lidx).at pos)) rest

/-! ### tm/prover.py: `run_simulator`, `get_min_sig`, `try_rule` -/

/-- `run_simulator(steps, state, tape)` on a `Tape` -/
def pyRunSimulator (pv : Prover) (p : Prog) : Nat → Nat → Tape → PyRes (Option Nat × Tape)
  | 0, state, tape => .ok (some state, tape)
  | steps + 1, state, tape =>
    let applied : PyRes (Option Tape) :=
      match pyGetRule pv state tape none with
      | none => .ok none
      | some rule =>
        match pyApplyRule tape rule with
        | .error e => .error e
        | .ok (some _, t', _) => .ok (some t')
        | .ok (none, _, _) => .ok none
    match applied with
    | .error e => .error e
    | .ok (some t') => pyRunSimulator pv p steps state t'
    | .ok none =>
      match p.get (state, tape.scan) with
      | none => .ok (none, tape)
      | some (color, shift, next) =>
        pyRunSimulator pv p steps next (pyStep tape shift color (state == next)).1

/-- `run_simulator(steps, state, tape)` on an `EnumTape` (as called by `get_min_sig`, which
    ignores the returned state: an undefined instruction just ends the replay) -/
def pyMinSigLoop (pv : Prover) (p : Prog) : Nat → Nat → EnumTape → PyRes EnumTape
  | 0, _, et => .ok et
  | steps + 1, state, et =>
    let applied : PyRes (Option EnumTape × EnumTape) :=
      match pyGetRule pv state et.tape none with
      | none => .ok (none, et)
      | some rule =>
        match pyApplyRule et.tape rule with
        | .error e => .error e
        | .ok (some _, t', reads) => let et' := pyEnumReads et reads
                                     .ok (some { et' with tape := t' }, et')
        | .ok (none, _, reads) => .ok (none, pyEnumReads et reads)
    match applied with
    | .error e => .error e
    | .ok (some et', _) => pyMinSigLoop pv p steps state et'
    | .ok (none, et0) =>
      match p.get (state, et0.tape.scan) with
      | none => .ok et0
      | some (color, shift, next) =>
        pyMinSigLoop pv p steps next (pyEnumStep et0 shift color (state == next))

/-- `get_min_sig(steps, state, tape.to_enum(), sig)` -/
def pyGetMinSig (pv : Prover) (p : Prog) (steps state : Nat) (et : EnumTape) (sig : Signature) :
    PyRes MinSig :=
  match pyMinSigLoop pv p steps state et with
  | .error e => .error e
  | .ok et' =>
    let (lmax, rmax) := et'.offsets
    .ok (⟨sig.scan, sig.lspan.take lmax, sig.rspan.take rmax⟩, et'.edges)

/-- the `for delta in deltas` loop of `try_rule` -/
def pyStretches (pv : Prover) (p : Prog) (state : Nat) (sig : Signature) :
    List Int → Tape → PyRes (Option (List Counts))
  | [], _ => .ok (some [])
  | delta :: rest, tags =>
    match pyRunSimulator pv p delta.toNat state tags with
    | .error e => .error e
    | .ok (none, _) => .ok none
    | .ok (some endState, tags') =>
      if endState != state || !pySigCompatible tags' sig then .ok none
      else
        match pyStretches pv p state sig rest tags' with
        | .error e => .error e
        | .ok none => .ok none
        | .ok (some cs) => .ok (some (tags'.counts :: cs))

/-- what `try_rule` gives `Machine.run` -/
inductive PyTry where
  | none                 -- `return None`, or SuspectedRule (`rule = None` in `Machine.run`)
  | got (rule : Rule)
  | infinite             -- InfiniteRule
  | configLimit          -- ConfigLimit
deriving Repr, DecidableEq, Inhabited

/-- ```
    len(rule) == 2 and tape.span_lens == (1, 1)
      and all(isinstance(val, int) for val in rule.values())
      and len({abs(val) for val in rule.values() if isinstance(val, int)}) == 1
    ``` -/
def pySpanExclusion (rule : Rule) (tape : Tape) : Bool :=
  rule.length == 2 && tape.spanLens == (1, 1) && rule.allPlus
    && (rule.foldl (fun acc kv => match kv.2 with
          | .plus d => diffSetInsert acc (Int.ofNat d.natAbs)
          | .mult _ _ => acc) []).length == 1

/-- the conversion of the Python int `cycle` to the `i32` parameter of the extension class -/
def pyCycleArg (cycle : Nat) : PyRes Int :=
  if cycle < 2 ^ 31 then .ok (Int.ofNat cycle) else .error (.exc "OverflowError")

/-- `Prover.try_rule(cycle, state, tape)`; the answer and the prover afterwards -/
def pyTryRule (pv : Prover) (p : Prog) (cycle state : Nat) (tape : Tape) : PyRes (PyTry × Prover) :=
  let sig := tape.signature
  match pyGetRule pv state tape (some sig) with
  | some known => .ok (.got known, pv)
  | none =>
    let h := sig.hash
    match pv.configs.get h sig with
    | none =>
      if pv.configCount > 100000 then .ok (.configLimit, pv)
      else
        match pyCycleArg cycle with
        | .error e => .error e
        | .ok cyc =>
          .ok (.none, { pv with configs := pv.configs.insert h sig (PastConfigs.new state cyc) })
    | some pcs =>
      match pyCycleArg cycle with
      | .error e => .error e
      | .ok cyc =>
        match pcs.nextDeltas state cyc with
        | .error _ => .error (.boundary "i32 range left in the shared PastConfigs code")
        | .ok (ds, pcs') =>
          let pv1 : Prover := { pv with configs := pv.configs.set h sig pcs' }
          match ds with
          | none => .ok (.none, pv1)
          | some (d1, d2, d3) =>
            match pyStretches pv1 p state sig [d1, d2, d3] tape with
            | .error e => .error e
            | .ok none => .ok (.none, pv1)
            | .ok (some [c0, c1, c2]) =>
              match pyMakeRule tape.counts c0 c1 c2 with
              | .error e => .error e
              | .ok .none => .ok (.none, pv1)
              | .ok .infinite => .ok (.infinite, pv1)
              | .ok (.rule rule) =>
                if pySpanExclusion rule tape then .ok (.none, pv1)
                else
                  -- `past_configs.delete_configs(state)`: the object looked up above
                  let pv2 : Prover :=
                    { pv1 with configs := pv1.configs.set h sig (pcs'.deleteConfigs state) }
                  match pyGetMinSig pv2 p d1.toNat state (EnumTape.ofTape tape) sig with
                  | .error e => .error e
                  | .ok minSig => .ok (.got rule, pv2.setRule rule state minSig)
            | .ok (some _) => .error (.exc "AssertionError")     -- `assert len(counts) == 3`

/-! ### tm/machine.py: `Machine.run` -/

inductive PyKind where
  | xlimit | infrul | spnout | undfnd | cfglim
deriving Repr, DecidableEq, Inhabited

def PyKind.show : PyKind → String
  | .xlimit => "xlimit" | .infrul => "infrul" | .spnout => "spnout"
  | .undfnd => "undfnd" | .cfglim => "cfglim"

/-- `blanks : dict[State, int]`, printed sorted by state; the recorded step may be -1 -/
abbrev PyBlanks := List (Nat × Int)

def PyBlanks.contains (b : PyBlanks) (q : Nat) : Bool := b.any (·.1 == q)

def PyBlanks.insert (b : PyBlanks) (q : Nat) (n : Int) : PyBlanks :=
  match b with
  | [] => [(q, n)]
  | (k, v) :: rest =>
    if k == q then (q, n) :: rest
    else if q < k then (q, n) :: (k, v) :: rest
    else (k, v) :: PyBlanks.insert rest q n

structure PyResult where
  kind     : PyKind
  steps    : Int            -- -1 once a rule has been applied
  cycles   : Nat
  marks    : Nat
  rulapp   : Nat
  blanks   : PyBlanks
  lastSlot : Option Slot
deriving Repr, DecidableEq, Inhabited

inductive PyOutcome where
  | ok (r : PyResult)                 -- xlimit / infrul / spnout / undfnd
  | limit (r : PyResult)              -- a declared limit of the Python runner (cfglim)
  | outside (why : String)
  | exc (name : String)
  | boundary (what : String)
deriving Repr, DecidableEq, Inhabited

/-- the locals of `Machine.run` -/
structure PyState where
  tape   : Tape
  prover : Prover
  state  : Nat
  step   : Int
  rulapp : Nat
  blanks : PyBlanks
deriving Repr, Inhabited

def PyState.init : PyState := ⟨Tape.init, Prover.new, 0, 0, 0, []⟩

inductive PyIter where
  | fail (e : PyStop)
  | done (kind : PyKind) (lastSlot : Option Slot) (s : PyState)
  | cont (s : PyState)

/-- the loop body of `Machine.run` from `instr = comp[state, tape.scan]` on -/
def pyStepIter (p : Prog) (s : PyState) : PyIter :=
  match p.get (s.state, s.tape.scan) with
  | none => .done .undfnd (some (s.state, s.tape.scan)) s
  | some (color, shift, next) =>
    let same := s.state == next
    if same && s.tape.atEdge shift then .done .spnout none s
    else
      let (tape', stepped) := pyStep s.tape shift color same
      let step' : Int := if s.step != -1 then s.step + (stepped : Int) else s.step
      let s1 : PyState := { s with tape := tape', state := next, step := step' }
      if color == 0 && tape'.blank then
        if s.blanks.contains next then .done .infrul none s1
        else
          let s2 := { s1 with blanks := s.blanks.insert next step' }
          if next == 0 then .done .infrul none s2 else .cont s2
      else .cont s1

/-- one iteration of the loop body of `Machine.run` for `cycle` -/
def pyIter (p : Prog) (cycle : Nat) (s : PyState) : PyIter :=
  match pyTryRule s.prover p cycle s.state s.tape with
  | .error e => .fail e
  | .ok (.infinite, pv') => .done .infrul none { s with prover := pv' }
  | .ok (.configLimit, pv') => .done .cfglim none { s with prover := pv' }
  | .ok (.got rule, pv') =>
    let s0 := { s with prover := pv' }
    match pyApplyRule s.tape rule with
    | .error e => .fail e
    | .ok (some times, tape', _) =>
      .cont { s0 with tape := tape', step := -1, rulapp := s.rulapp + times }
    | .ok (none, _, _) => pyStepIter p s0
  | .ok (.none, pv') => pyStepIter p { s with prover := pv' }

def mkPyOutcome (kind : PyKind) (ls : Option Slot) (cycle : Nat) (s : PyState) : PyOutcome :=
  let r : PyResult :=
    { kind := kind, steps := s.step, cycles := cycle, marks := s.tape.marks, rulapp := s.rulapp,
      blanks := s.blanks, lastSlot := ls }
  match kind with
  | .cfglim => .limit r
  | _ => .ok r

def PyStop.toOutcome : PyStop → PyOutcome
  | .outside w => .outside w
  | .exc n => .exc n
  | .boundary w => .boundary w

/-- `for cycle in range(sim_lim)`: `fuel` = cycles left, `cycle` = current index.  After the loop
    `self.cycles = cycle`: the last value of the loop variable (`sim_lim - 1` on `xlimit`). -/
def pyLoop (p : Prog) : Nat → Nat → PyState → PyOutcome
  | 0, cycle, s => mkPyOutcome .xlimit none (cycle - 1) s
  | fuel + 1, cycle, s =>
    match pyIter p cycle s with
    | .fail e => e.toOutcome
    | .done kind ls s' => mkPyOutcome kind ls cycle s'
    | .cont s' => pyLoop p fuel (cycle + 1) s'

/-- `Machine(prog).run(sim_lim = lim)`.  With `sim_lim = 0` the loop variable is never bound and
    `self.cycles = cycle` raises UnboundLocalError. -/
def pyRun (p : Prog) (lim : Nat) : PyOutcome :=
  if lim == 0 then .exc "UnboundLocalError" else pyLoop p lim 0 PyState.init

/-! ### where the two runners evaluate something differently

Not part of the port: a decidable record of whether, along the Python run, the Rust runner's
`try_rule` / `apply_rule` / `Tape::step` (models of Prover.lean, Rules.lean, Tape.lean), given the
SAME prover, state and tape, return something else than the Python ones. -/

instance : DecidableEq (List ConfigEntry) := fun a b => instDecidableEqList a b
instance : DecidableEq (List (List ConfigEntry)) := fun a b => instDecidableEqList a b
instance : DecidableEq (List (MinSig × Rule)) := fun a b => instDecidableEqList a b
instance : DecidableEq (Slot × List (MinSig × Rule)) := fun a b => instDecidableEqProd a b
instance : DecidableEq (List (Slot × List (MinSig × Rule))) := fun a b => instDecidableEqList a b

instance : DecidableEq ConfigMap := fun a b =>
  match a, b with
  | ⟨b1, s1⟩, ⟨b2, s2⟩ =>
    if h : b1 = b2 ∧ s1 = s2 then isTrue (by cases h.1; cases h.2; rfl)
    else isFalse (fun e => h (by cases e; exact ⟨rfl, rfl⟩))

instance : DecidableEq Prover := fun a b =>
  match a, b with
  | ⟨r1, c1⟩, ⟨r2, c2⟩ =>
    if h : r1 = r2 ∧ c1 = c2 then isTrue (by cases h.1; cases h.2; rfl)
    else isFalse (fun e => h (by cases e; exact ⟨rfl, rfl⟩))

/-- the Rust `try_rule` answer that corresponds to a Python one -/
def PyTry.toRs : PyTry → Option ProverResult
  | .none => Option.none
  | .got r => some (.got r)
  | .infinite => some .infiniteRule
  | .configLimit => some .configLimit

/-- `try_rule` of the two runners evaluated on the same arguments gives corresponding answers and
    the same prover (a range error of the Rust model counts as agreement: the Rust run ends in its
    own overflow limit there; so does a `MultRule` answer) -/
def tryAgree (pv : Prover) (p : Prog) (cycle state : Nat) (tape : Tape) : Bool :=
  match pyTryRule pv p cycle state tape, Prover.tryRule pv p cycle state tape with
  | .ok (a, pv1), .ok (b, pv2) => b == some .multRule || (a.toRs == b && pv1 == pv2)
  | .ok _, .error _ => true
  | .error _, _ => true

/-- `apply_rule` of the two runners on the same tape and rule -/
def applyAgree (tape : Tape) (rule : Rule) : Bool :=
  match pyApplyRule tape rule, applyRule tape rule with
  | .ok (a, t1, _), .ok (b, t2) => a == b && t1 == t2
  | .ok _, .error _ => true
  | .error _, _ => true

/-- `Tape.step` of the two runners on the same tape -/
def stepAgree (tape : Tape) (shift : Bool) (color : Nat) (skip : Bool) : Bool :=
  pyStep tape shift color skip == tape.step shift color skip

/-- no difference in the iteration the Python run performs from `s` at `cycle` -/
def iterAgree (p : Prog) (cycle : Nat) (s : PyState) : Bool :=
  tryAgree s.prover p cycle s.state s.tape
    && (match pyTryRule s.prover p cycle s.state s.tape with
        | .ok (.got rule, _) => applyAgree s.tape rule
        | _ => true)
    && (match p.get (s.state, s.tape.scan) with
        | some (color, shift, next) => stepAgree s.tape shift color (s.state == next)
        | none => true)

/-- `iterAgree` at every iteration of the Python run -/
def agreeLoop (p : Prog) : Nat → Nat → PyState → Bool
  | 0, _, _ => true
  | fuel + 1, cycle, s =>
    iterAgree p cycle s &&
      match pyIter p cycle s with
      | .cont s' => agreeLoop p fuel (cycle + 1) s'
      | _ => true

/-- the no-divergence condition of `py_rs_run_eq_partial` -/
def pyRunAgrees (p : Prog) (lim : Nat) : Bool := agreeLoop p lim 0 PyState.init

end BB.PyM
