/-
L1 model of src/instrs.rs: program tables, parsing and printing.
Import-free.
-/
import BB.Spec

namespace BB

abbrev Slot := Nat × Nat

/-- `CompProg = BTreeMap<Slot, Instr>`: association list kept sorted by key (lexicographic),
    no duplicate keys. -/
abbrev Prog := List (Slot × Instr)

def slotLt (a b : Slot) : Bool := a.1 < b.1 || (a.1 == b.1 && a.2 < b.2)

def Prog.get (p : Prog) (s : Slot) : Option Instr :=
  match p with
  | [] => none
  | (k, v) :: rest => if k.1 == s.1 && k.2 == s.2 then some v else Prog.get rest s

def Prog.insert (p : Prog) (s : Slot) (i : Instr) : Prog :=
  match p with
  | [] => [(s, i)]
  | (k, v) :: rest =>
    if k.1 == s.1 && k.2 == s.2 then (s, i) :: rest
    else if slotLt s k then (s, i) :: (k, v) :: rest
    else (k, v) :: Prog.insert rest s i

def Prog.remove (p : Prog) (s : Slot) : Prog :=
  p.filter (fun kv => !(kv.1.1 == s.1 && kv.1.2 == s.2))

/-- The program as a partial function (what L0 runs). -/
def Prog.toF (p : Prog) : ProgF := fun q s => p.get (q, s)

/-- `params()`: maxima over *keys* only (finding F2). -/
def Prog.params (p : Prog) : Nat × Nat :=
  p.foldl (fun acc kv => (max acc.1 kv.1.1, max acc.2 kv.1.2)) (0, 0)

/-- repaired `params` (switch fixF2): maxima over keys and instruction contents. -/
def Prog.paramsFix (p : Prog) : Nat × Nat :=
  p.foldl (fun acc kv => (max (max acc.1 kv.1.1) kv.2.2.2, max (max acc.2 kv.1.2) kv.2.1)) (0, 0)

def Prog.haltSlots (p : Prog) (fixF2 : Bool := false) : List Slot :=
  let (ms, mc) := if fixF2 then p.paramsFix else p.params
  (List.range (ms + 1)).flatMap fun st =>
    (List.range (mc + 1)).filterMap fun co =>
      if (p.get (st, co)).isNone then some (st, co) else none

def Prog.eraseSlots (p : Prog) : List Slot :=
  p.filterMap fun kv => if kv.2.1 == 0 && kv.1.2 != 0 then some kv.1 else none

/-- zero-reflexive shifts, as a sorted deduplicated list of (state, shift). -/
def Prog.zrShifts (p : Prog) : List (Nat × Bool) :=
  let raw := p.filterMap fun kv =>
    if kv.1.2 == 0 && kv.2.2.2 == kv.1.1 then some (kv.1.1, kv.2.2.1) else none
  -- BTreeSet order: (state, false) < (state, true); keys come sorted by state and there is at
  -- most one entry per state (colour 0), so `raw` is already sorted and duplicate-free.
  raw

/-! ### Parsing -/

inductive PErr where
  | panic (msg : String)
  | overflow (msg : String)   -- arithmetic overflow panic of the overflow-checked build
deriving Repr, DecidableEq

abbrev PRes (α : Type) := Except PErr α

def isWs (c : Char) : Bool := c == ' ' || c == '\t' || c == '\n' || c == '\r' || c.toNat == 11 || c.toNat == 12

def trimL : List Char → List Char
  | [] => []
  | c :: cs => if isWs c then trimL cs else c :: cs

def trimChars (s : List Char) : List Char := (trimL (trimL s).reverse).reverse

/-- Rust `str::split(' ')`. -/
def splitOne (s : List Char) : List (List Char) :=
  let rec go (cur : List Char) : List Char → List (List Char)
    | [] => [cur.reverse]
    | c :: cs => if c == ' ' then cur.reverse :: go [] cs else go (c :: cur) cs
  go [] s

/-- Rust `str::split("  ")` (non-overlapping, leftmost matches). -/
def splitTwo (s : List Char) : List (List Char) :=
  let rec go (cur : List Char) : List Char → List (List Char)
    | [] => [cur.reverse]
    | [c] => [(c :: cur).reverse]
    | c :: d :: cs => if c == ' ' && d == ' ' then cur.reverse :: go [] cs else go (c :: cur) (d :: cs)
  go [] s

def readColor (c : Char) : PRes Nat :=
  if c.isDigit then .ok (c.toNat - 48) else .error (.panic "read_color")

def readShift (c : Char) : Bool := c == 'R'

/-- `State::from(state as u8 - 65)` with overflow checks on. -/
def readState (c : Char) : PRes Nat :=
  let b := c.toNat % 256
  if b < 65 then .error (.overflow "read_state") else .ok (b - 65)

def readInstr (s : List Char) : PRes (Option Instr) :=
  if s.contains '.' then .ok none else
  match s with
  | c :: sh :: st :: _ =>
    match readColor c, readState st with
    | .ok co, .ok q => .ok (some (co, readShift sh, q))
    | .error e, _ => .error e
    | _, .error e => .error e
  | _ => .error (.panic "read_instr")

def readSlot (s : List Char) : PRes Slot :=
  match s with
  | st :: c :: _ =>
    match readState st, readColor c with
    | .ok q, .ok co => .ok (q, co)
    | .error e, _ => .error e
    | _, .error e => .error e
  | _ => .error (.panic "read_slot")

def parseRow (st : Nat) (cells : List (List Char)) (co : Nat) (acc : Prog) : PRes Prog :=
  match cells with
  | [] => .ok acc
  | cell :: rest =>
    match readInstr cell with
    | .error e => .error e
    | .ok none => parseRow st rest (co + 1) acc
    | .ok (some i) => parseRow st rest (co + 1) (acc.insert (st, co) i)

def parseRows (rows : List (List Char)) (st : Nat) (acc : Prog) : PRes Prog :=
  match rows with
  | [] => .ok acc
  | r :: rest =>
    match parseRow st (splitOne r) 0 acc with
    | .error e => .error e
    | .ok acc' => parseRows rest (st + 1) acc'

/-- `CompProg::from_str`. -/
def Prog.fromChars (s : List Char) : PRes Prog := parseRows (splitTwo (trimChars s)) 0 []

def Prog.fromStr (s : String) : PRes Prog := Prog.fromChars s.toList

/-! ### Printing -/

/-- `show_state(Some(s))`: `(s as u8 + 65) as char`. -/
def showState (s : Nat) : PRes Char :=
  let b := s % 256
  if b + 65 ≥ 256 then .error (.overflow "show_state") else .ok (Char.ofNat (b + 65))

def natDigits (n : Nat) : List Char := (toString n).toList

def showInstr (i : Option Instr) : PRes (List Char) :=
  match i with
  | none => .ok ['.', '.', '.']
  | some (co, sh, tr) =>
    match showState tr with
    | .error e => .error e
    | .ok c => .ok (natDigits co ++ [if sh then 'R' else 'L', c])

def showSlot (s : Slot) : PRes (List Char) :=
  match showState s.1 with
  | .error e => .error e
  | .ok c => .ok (c :: natDigits s.2)

def joinWith (sep : List Char) : List (List Char) → List Char
  | [] => []
  | [x] => x
  | x :: xs => x ++ sep ++ joinWith sep xs

def mapM' {α β : Type} (f : α → PRes β) : List α → PRes (List β)
  | [] => .ok []
  | x :: xs => match f x with
    | .error e => .error e
    | .ok y => match mapM' f xs with
      | .error e => .error e
      | .ok ys => .ok (y :: ys)

/-- table size `show(None)` infers. -/
def Prog.showDims (p : Prog) : Nat × Nat :=
  let m := p.foldl (fun acc kv => (max (max acc.1 kv.1.1) kv.2.2.2, max (max acc.2 kv.1.2) kv.2.1)) (1, 1)
  (1 + m.1, 1 + m.2)

def Prog.showChars (p : Prog) (params : Option (Nat × Nat)) : PRes (List Char) :=
  let (ms, mc) := params.getD p.showDims
  match mapM' (fun st =>
      match mapM' (fun co => showInstr (p.get (st, co))) (List.range mc) with
      | .error e => .error e
      | .ok cells => .ok (joinWith [' '] cells)) (List.range ms) with
  | .error e => .error e
  | .ok rows => .ok (joinWith [' ', ' '] rows)

def Prog.show (p : Prog) (params : Option (Nat × Nat)) : String :=
  match p.showChars params with
  | .ok cs => String.ofList cs
  | .error (.panic _) => "PANIC"
  | .error (.overflow _) => "limit:overflow"

end BB
