/-
C18: the meaning of a tm/num.py expression tree.  Import-free (core Lean only).

`NExpr` mirrors how `Add(l, r)`, `Mul(l, r)`, `Div(num, den)`, `Exp(base, exp)` serialise: `l`, `r`,
`num`, `exp` are counts (a Python int or another node), `den` and `base` are Python ints.
`eval` is the strict meaning (a division must be exact, an exponent must be non-negative);
`evalFloor` is what Python's `int(...)` computes on the same tree (`Div.__int__` is `//`).
The validation compares `evalFloor result` with the operation applied to `eval a`, `eval b`.
-/

namespace BB.NumEval

inductive NExpr where
  | int : Int → NExpr
  | add : NExpr → NExpr → NExpr
  | mul : NExpr → NExpr → NExpr
  | div : NExpr → Int → NExpr
  | exp : Int → NExpr → NExpr
  deriving Repr, BEq, Inhabited

/-- strict meaning: `none` when a division is inexact (or by zero) or an exponent is negative -/
def eval : NExpr → Option Int
  | .int n => some n
  | .add l r =>
    match eval l, eval r with
    | some a, some b => some (a + b)
    | _, _ => none
  | .mul l r =>
    match eval l, eval r with
    | some a, some b => some (a * b)
    | _, _ => none
  | .div n d =>
    match eval n with
    | some a => if d = 0 then none else if a % d = 0 then some (a / d) else none
    | none => none
  | .exp b e =>
    match eval e with
    | some k => if k < 0 then none else some (b ^ k.toNat)
    | none => none

/-- Python's `int()` of the tree: floor division, `none` only where Python leaves the integers
(division by zero raises, a negative exponent gives a float) -/
def evalFloor : NExpr → Option Int
  | .int n => some n
  | .add l r =>
    match evalFloor l, evalFloor r with
    | some a, some b => some (a + b)
    | _, _ => none
  | .mul l r =>
    match evalFloor l, evalFloor r with
    | some a, some b => some (a * b)
    | _, _ => none
  | .div n d =>
    match evalFloor n with
    | some a => if d = 0 then none else some (Int.fdiv a d)
    | none => none
  | .exp b e =>
    match evalFloor e with
    | some k => if k < 0 then none else some (b ^ k.toNat)
    | none => none

/-- number of binary digits of `|n|`, at least 1 -/
def bitLen (n : Int) : Nat := Nat.log2 n.natAbs + 1

/-- an upper bound on the bit length of the value, or `none` when some intermediate product or
power would exceed `cap` bits.  When it is `some _`, evaluating the tree only ever handles numbers of
at most `cap + 1` bits, so the driver calls `eval` / `evalFloor` only after this check: "small
enough to evaluate" is decided by the model.  (The exponent of an `exp` node is evaluated here,
which is safe because its own bound was established first; an exponent tree with large cancelling
terms but a small value is accepted.) -/
def bitsBound (cap : Nat) : NExpr → Option Nat
  | .int n => some (bitLen n)
  | .add l r =>
    match bitsBound cap l, bitsBound cap r with
    | some a, some b => some (max a b + 1)
    | _, _ => none
  | .mul l r =>
    match bitsBound cap l, bitsBound cap r with
    | some a, some b => if a + b > cap then none else some (a + b)
    | _, _ => none
  | .div n _ => bitsBound cap n
  | .exp b e =>
    match bitsBound cap e with
    | none => none
    | some _ =>
      match evalFloor e with
      | none => some 1
      | some k => if k < 0 then some 1 else
        if bitLen k > 40 then none else
        if bitLen b * k.toNat > cap then none else some (bitLen (b ^ k.toNat))

def nodeCount : NExpr → Nat
  | .int _ => 1
  | .add l r => nodeCount l + nodeCount r + 1
  | .mul l r => nodeCount l + nodeCount r + 1
  | .div n _ => nodeCount n + 2
  | .exp _ e => nodeCount e + 2

/-- top-level node kind, as the Python class name -/
def kind : NExpr → String
  | .int _ => "int"
  | .add _ _ => "Add"
  | .mul _ _ => "Mul"
  | .div _ _ => "Div"
  | .exp _ _ => "Exp"

/-! ### compact prefix serialisation

tokens separated by blanks:  `<int>` | `+ l r` | `* l r` | `/ num <den>` | `^ <base> exp` -/

def parseAux : Nat → List String → Option (NExpr × List String)
  | 0, _ => none
  | _ + 1, [] => none
  | fuel + 1, tok :: rest =>
    if tok == "+" then
      match parseAux fuel rest with
      | some (l, rest1) =>
        match parseAux fuel rest1 with
        | some (r, rest2) => some (.add l r, rest2)
        | none => none
      | none => none
    else if tok == "*" then
      match parseAux fuel rest with
      | some (l, rest1) =>
        match parseAux fuel rest1 with
        | some (r, rest2) => some (.mul l r, rest2)
        | none => none
      | none => none
    else if tok == "/" then
      match parseAux fuel rest with
      | some (n, d :: rest1) =>
        match d.toInt? with
        | some dv => some (.div n dv, rest1)
        | none => none
      | _ => none
    else if tok == "^" then
      match rest with
      | b :: rest1 =>
        match b.toInt? with
        | some bv =>
          match parseAux fuel rest1 with
          | some (e, rest2) => some (.exp bv e, rest2)
          | none => none
        | none => none
      | [] => none
    else
      match tok.toInt? with
      | some n => some (.int n, rest)
      | none => none

def parse (s : String) : Option NExpr :=
  let toks := (s.splitOn " ").filter (· ≠ "")
  match parseAux (toks.length + 1) toks with
  | some (e, []) => some e
  | _ => none

def NExpr.show : NExpr → String
  | .int n => toString n
  | .add l r => s!"+ {l.show} {r.show}"
  | .mul l r => s!"* {l.show} {r.show}"
  | .div n d => s!"/ {n.show} {d}"
  | .exp b e => s!"^ {b} {e.show}"

end BB.NumEval
