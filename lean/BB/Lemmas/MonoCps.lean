/-
C15 for the closed-position-set analysis (src/cps.rs): `cps_run(rad)` is
`(2..rad).any(|seg| cps_cant_reach(prog, seg, goal))`.  The radius limit `rad` is only the number
of iterations of `cpsRunFrom`; the run at segment size `seg` (including its inner fuel
`innerFuelFor p seg`, computed from `seg`, not from `rad`) is the same under every limit that
reaches it.

The "limit reached" answer is `.ok false` (no radius below `rad` gave a closed set).  Any other
outcome of a call that passes the entry assertion `rad > 1` - `.ok true`, `.panic`, `.fuel` - is
unchanged by a larger `rad`.  `.ok true` needs no side condition.  The outcome that is *not*
preserved is the panic of the entry assertion itself (`rad ≤ 1`).
-/
import BB.Model.Cps
import BB.Lemmas.MonoBase

namespace BB.Cps

/-- the `any` loop: an outcome other than `.ok false` is unchanged by more iterations -/
theorem cpsRunFrom_mono (reach : Nat → CpsRes) :
    ∀ (n seg : Nat) (r : CpsOut), cpsRunFrom reach n seg = r → r ≠ .ok false →
      ∀ n', n ≤ n' → cpsRunFrom reach n' seg = r := by
  intro n
  induction n with
  | zero =>
    intro seg r h hne
    simp only [cpsRunFrom] at h
    exact absurd h.symm hne
  | succ n ih =>
    intro seg r h hne n' hle
    obtain ⟨m, rfl⟩ : ∃ m, n' = m + 1 := ⟨n' - 1, by omega⟩
    have hnm : n ≤ m := by omega
    simp only [cpsRunFrom] at h ⊢
    cases hr : reach seg with
    | yes cs => simp only [hr] at h ⊢; exact h
    | no => simp only [hr] at h ⊢; exact ih _ _ h hne m hnm
    | panic => simp only [hr] at h ⊢; exact h
    | fuel => simp only [hr] at h ⊢; exact h

/-- `cps_run` with `rad ≥ 2`: an outcome other than `.ok false` is unchanged by a larger radius
    (for every setting of the inner constants and of the iteration order). -/
theorem cpsRun_mono' (p : Prog) (goal : Goal) (maxLoops maxDepth : Nat)
    (order : List Config → List Config) (r₁ r₂ : Nat) (out : CpsOut) (h2 : 2 ≤ r₁)
    (h : cpsRun p r₁ goal maxLoops maxDepth order = out) (hne : out ≠ .ok false) (hle : r₁ ≤ r₂) :
    cpsRun p r₂ goal maxLoops maxDepth order = out := by
  unfold cpsRun at h ⊢
  have h1 : ¬ r₁ ≤ 1 := by omega
  have h1' : ¬ r₂ ≤ 1 := by omega
  simp only [h1, h1', if_false] at h ⊢
  exact cpsRunFrom_mono _ _ _ out h hne _ (by omega)

/-- `cps_run` answers `.ok _` only when `rad ≥ 2` -/
theorem cpsRun_ok_ge (p : Prog) (goal : Goal) (maxLoops maxDepth : Nat)
    (order : List Config → List Config) (rad : Nat) (b : Bool)
    (h : cpsRun p rad goal maxLoops maxDepth order = .ok b) : 2 ≤ rad := by
  unfold cpsRun at h
  by_cases h1 : rad ≤ 1
  · simp [h1] at h
  · omega

/-- `cps_run` answers `.fuel` only when `rad ≥ 2` -/
theorem cpsRun_fuel_ge (p : Prog) (goal : Goal) (maxLoops maxDepth : Nat)
    (order : List Config → List Config) (rad : Nat)
    (h : cpsRun p rad goal maxLoops maxDepth order = .fuel) : 2 ≤ rad := by
  unfold cpsRun at h
  by_cases h1 : rad ≤ 1
  · simp [h1] at h
  · omega

theorem cpsRun_true_mono' (p : Prog) (goal : Goal) (maxLoops maxDepth : Nat)
    (order : List Config → List Config) (r₁ r₂ : Nat)
    (h : cpsRun p r₁ goal maxLoops maxDepth order = .ok true) (hle : r₁ ≤ r₂) :
    cpsRun p r₂ goal maxLoops maxDepth order = .ok true :=
  cpsRun_mono' p goal maxLoops maxDepth order r₁ r₂ _
    (cpsRun_ok_ge p goal maxLoops maxDepth order r₁ true h) h (by decide) hle

/-- the entry assertion: every call with `rad ≤ 1` panics -/
theorem cpsRun_le_one (p : Prog) (goal : Goal) (maxLoops maxDepth : Nat)
    (order : List Config → List Config) (rad : Nat) (h : rad ≤ 1) :
    cpsRun p rad goal maxLoops maxDepth order = .panic := by
  unfold cpsRun
  simp [h]

/-- `(2..2)` is empty: radius 2 never panics and never proves anything -/
theorem cpsRun_two (p : Prog) (goal : Goal) (maxLoops maxDepth : Nat)
    (order : List Config → List Config) :
    cpsRun p 2 goal maxLoops maxDepth order = .ok false := by
  simp [cpsRun, cpsRunFrom]

/-! ### the three entry points -/

theorem cpsCantHalt_mono' (p : Prog) (fixF2 : Bool) (order : List Config → List Config)
    (r₁ r₂ : Nat) (out : CpsOut) (h2 : 2 ≤ r₁)
    (h : cpsCantHalt p r₁ fixF2 order = out) (hne : out ≠ .ok false) (hle : r₁ ≤ r₂) :
    cpsCantHalt p r₂ fixF2 order = out := by
  unfold cpsCantHalt at h ⊢
  split at h
  · rename_i hc; simp only [hc, if_true]; exact h
  · rename_i hc; simp only [hc]
    exact cpsRun_mono' p .halt _ _ order r₁ r₂ out h2 h hne hle

theorem cpsCantBlank_mono' (p : Prog) (order : List Config → List Config)
    (r₁ r₂ : Nat) (out : CpsOut) (h2 : 2 ≤ r₁)
    (h : cpsCantBlank p r₁ order = out) (hne : out ≠ .ok false) (hle : r₁ ≤ r₂) :
    cpsCantBlank p r₂ order = out := by
  unfold cpsCantBlank at h ⊢
  split at h
  · rename_i hc; simp only [hc, if_true]; exact h
  · rename_i hc; simp only [hc]
    exact cpsRun_mono' p .blank _ _ order r₁ r₂ out h2 h hne hle

theorem cpsCantSpinOut_mono' (p : Prog) (order : List Config → List Config)
    (r₁ r₂ : Nat) (out : CpsOut) (h2 : 2 ≤ r₁)
    (h : cpsCantSpinOut p r₁ order = out) (hne : out ≠ .ok false) (hle : r₁ ≤ r₂) :
    cpsCantSpinOut p r₂ order = out := by
  unfold cpsCantSpinOut at h ⊢
  split at h
  · rename_i hc; simp only [hc, if_true]; exact h
  · rename_i hc; simp only [hc]
    exact cpsRun_mono' p .spinout _ _ order r₁ r₂ out h2 h hne hle

theorem cpsCantHalt_true_mono' (p : Prog) (fixF2 : Bool) (order : List Config → List Config)
    (r₁ r₂ : Nat) (h : cpsCantHalt p r₁ fixF2 order = .ok true) (hle : r₁ ≤ r₂) :
    cpsCantHalt p r₂ fixF2 order = .ok true := by
  unfold cpsCantHalt at h ⊢
  split at h
  · rename_i hc; simp only [hc, if_true]
  · rename_i hc; simp only [hc]
    exact cpsRun_true_mono' p .halt _ _ order r₁ r₂ h hle

theorem cpsCantBlank_true_mono' (p : Prog) (order : List Config → List Config)
    (r₁ r₂ : Nat) (h : cpsCantBlank p r₁ order = .ok true) (hle : r₁ ≤ r₂) :
    cpsCantBlank p r₂ order = .ok true := by
  unfold cpsCantBlank at h ⊢
  split at h
  · rename_i hc; simp only [hc, if_true]
  · rename_i hc; simp only [hc]
    exact cpsRun_true_mono' p .blank _ _ order r₁ r₂ h hle

theorem cpsCantSpinOut_true_mono' (p : Prog) (order : List Config → List Config)
    (r₁ r₂ : Nat) (h : cpsCantSpinOut p r₁ order = .ok true) (hle : r₁ ≤ r₂) :
    cpsCantSpinOut p r₂ order = .ok true := by
  unfold cpsCantSpinOut at h ⊢
  split at h
  · rename_i hc; simp only [hc, if_true]
  · rename_i hc; simp only [hc]
    exact cpsRun_true_mono' p .spinout _ _ order r₁ r₂ h hle

/-- dichotomy form (for `rad ≥ 2`) -/
theorem cpsCantHalt_dichotomy' (p : Prog) (fixF2 : Bool) (order : List Config → List Config)
    (r₁ r₂ : Nat) (h2 : 2 ≤ r₁) (hle : r₁ ≤ r₂) :
    cpsCantHalt p r₂ fixF2 order = cpsCantHalt p r₁ fixF2 order ∨
      cpsCantHalt p r₁ fixF2 order = .ok false := by
  by_cases h : cpsCantHalt p r₁ fixF2 order = .ok false
  · exact Or.inr h
  · exact Or.inl (cpsCantHalt_mono' p fixF2 order r₁ r₂ _ h2 rfl h hle)

theorem cpsCantBlank_dichotomy' (p : Prog) (order : List Config → List Config)
    (r₁ r₂ : Nat) (h2 : 2 ≤ r₁) (hle : r₁ ≤ r₂) :
    cpsCantBlank p r₂ order = cpsCantBlank p r₁ order ∨ cpsCantBlank p r₁ order = .ok false := by
  by_cases h : cpsCantBlank p r₁ order = .ok false
  · exact Or.inr h
  · exact Or.inl (cpsCantBlank_mono' p order r₁ r₂ _ h2 rfl h hle)

theorem cpsCantSpinOut_dichotomy' (p : Prog) (order : List Config → List Config)
    (r₁ r₂ : Nat) (h2 : 2 ≤ r₁) (hle : r₁ ≤ r₂) :
    cpsCantSpinOut p r₂ order = cpsCantSpinOut p r₁ order ∨
      cpsCantSpinOut p r₁ order = .ok false := by
  by_cases h : cpsCantSpinOut p r₁ order = .ok false
  · exact Or.inr h
  · exact Or.inl (cpsCantSpinOut_mono' p order r₁ r₂ _ h2 rfl h hle)

end BB.Cps
