/-
C06 support, part 4: the entry points.  `cps_run` (the `any` over the radii), the three
early-true shortcuts, and the soundness of `cpsCantHalt` / `cpsCantBlank` / `cpsCantSpinOut`.
-/
import BB.Lemmas.CpsSound3

namespace BB.Cps

open BB

/-! ### `cps_cant_reach`, `cps_run` -/

theorem cpsCantReach_sound (p : Prog) (rad : Nat) (goal : Goal) (maxLoops maxDepth innerFuel : Nat)
    (order : List Config → List Config) (hord : OrderOK order) (cs : Configs)
    (h : cpsCantReach p rad goal maxLoops maxDepth innerFuel order = .yes cs) :
    goal.Never p.toF :=
  closed_check_sound' p goal rad cs.seen cs.lspans cs.rspans
    (cps_true_closed' p rad goal maxLoops maxDepth innerFuel order hord cs h)

theorem cpsRunFrom_true (reach : Nat → CpsRes) :
    ∀ n seg, cpsRunFrom reach n seg = .ok true →
      ∃ seg' cs, seg ≤ seg' ∧ seg' < seg + n ∧ reach seg' = .yes cs := by
  intro n
  induction n with
  | zero => intro seg h; simp [cpsRunFrom] at h
  | succ n ih =>
    intro seg h
    simp only [cpsRunFrom] at h
    cases hr : reach seg with
    | yes cs => exact ⟨seg, cs, Nat.le_refl _, by omega, hr⟩
    | no =>
      rw [hr] at h
      obtain ⟨seg', cs, h1, h2, h3⟩ := ih (seg + 1) h
      exact ⟨seg', cs, by omega, by omega, h3⟩
    | panic => rw [hr] at h; cases h
    | fuel => rw [hr] at h; cases h

/-- `cps_run` answers true only if one of the radii `2 .. rad-1` yields a closed triple -/
theorem cpsRun_true_closed (p : Prog) (rad : Nat) (goal : Goal) (maxLoops maxDepth : Nat)
    (order : List Config → List Config) (hord : OrderOK order)
    (h : cpsRun p rad goal maxLoops maxDepth order = .ok true) :
    ∃ seg cs, 2 ≤ seg ∧ seg < rad ∧
      cpsCantReach p seg goal maxLoops maxDepth (innerFuelFor p seg) order = .yes cs ∧
      closedCheck p goal seg cs.seen cs.lspans cs.rspans = none := by
  simp only [cpsRun] at h
  split at h
  · cases h
  · obtain ⟨seg, cs, h1, h2, h3⟩ := cpsRunFrom_true _ _ _ h
    exact ⟨seg, cs, h1, by omega, h3, cps_true_closed' p seg goal _ _ _ order hord cs h3⟩

theorem cpsRun_sound' (p : Prog) (rad : Nat) (goal : Goal) (maxLoops maxDepth : Nat)
    (order : List Config → List Config) (hord : OrderOK order)
    (h : cpsRun p rad goal maxLoops maxDepth order = .ok true) : goal.Never p.toF := by
  obtain ⟨seg, cs, _, _, _, hc⟩ := cpsRun_true_closed p rad goal maxLoops maxDepth order hord h
  exact closed_check_sound' p goal seg cs.seen cs.lspans cs.rspans hc

/-- for the goal `blank`, a true answer of `cps_run` excludes every return to the blank tape -/
theorem cpsRun_blankAfter' (p : Prog) (rad : Nat) (maxLoops maxDepth : Nat)
    (order : List Config → List Config) (hord : OrderOK order)
    (h : cpsRun p rad .blank maxLoops maxDepth order = .ok true) :
    ¬ ∃ n q, BlankAfter p.toF n q := by
  obtain ⟨seg, cs, _, _, _, hc⟩ := cpsRun_true_closed p rad .blank maxLoops maxDepth order hord h
  exact closed_check_sound_blankAfter' p seg cs.seen cs.lspans cs.rspans hc

theorem orderOK_id' : OrderOK id := fun _ _ => Iff.rfl

theorem orderOK_reverse' : OrderOK List.reverse := fun _ _ => List.mem_reverse

/-! ### table lookups -/

theorem get_some_entry {p : Prog} {s : Slot} {v : Instr} (h : p.get s = some v) :
    ∃ k : Slot, (k, v) ∈ p ∧ k.1 = s.1 ∧ k.2 = s.2 := by
  induction p with
  | nil => simp [Prog.get] at h
  | cons kv rest ih =>
    obtain ⟨k, w⟩ := kv
    simp only [Prog.get] at h
    by_cases hk : (k.1 == s.1 && k.2 == s.2) = true
    · rw [if_pos hk] at h
      simp only [Option.some.injEq] at h
      subst h
      simp only [Bool.and_eq_true, beq_iff_eq] at hk
      exact ⟨k, List.mem_cons_self .., hk.1, hk.2⟩
    · rw [if_neg hk] at h
      obtain ⟨k', h1, h2⟩ := ih h
      exact ⟨k', List.mem_cons_of_mem _ h1, h2⟩

/-! ### early true: no erase slot -/

theorem allZero_of_head_tail {l : List Nat} (h0 : l.headD 0 = 0) (ht : AllZero l.tail) :
    AllZero l := by
  intro i
  cases i with
  | zero => rw [← cellAt_headD]; exact h0
  | succ i => rw [← cellAt_tail]; exact ht i

/-- a step that lands on a blank tape from a non-blank one prints 0 over a non-zero cell -/
theorem erase_step_instr {c : Cfg} {pr : Nat} {sh : Bool} {q : Nat} (hnb : ¬ c.Blank)
    (hb : (c.move pr sh q).Blank) : pr = 0 ∧ c.scan ≠ 0 := by
  obtain ⟨hs, hl, hr⟩ := hb
  cases sh with
  | true =>
    simp only [Cfg.move, if_true] at hs hl hr
    have hl' := allZero_cons_iff.1 hl
    refine ⟨hl'.1, fun h0 => hnb ⟨h0, hl'.2, allZero_of_head_tail hs hr⟩⟩
  | false =>
    simp only [Cfg.move, Bool.false_eq_true, if_false] at hs hl hr
    have hr' := allZero_cons_iff.1 hr
    refine ⟨hr'.1, fun h0 => hnb ⟨h0, allZero_of_head_tail hs hl, hr'.2⟩⟩

theorem no_erase_of_no_slots (p : Prog) (h : p.eraseSlots.isEmpty = true) :
    ¬ ∃ n, ErasesAt p.toF n := by
  rintro ⟨n, c, c', _, hnb, hstep, hb⟩
  simp only [step1, Prog.toF] at hstep
  cases hi : p.get (c.state, c.scan) with
  | none => rw [hi] at hstep; cases hstep
  | some ins =>
    obtain ⟨pr, sh, q⟩ := ins
    rw [hi] at hstep
    simp only [Option.some.injEq] at hstep
    subst hstep
    obtain ⟨hpr, hsc⟩ := erase_step_instr hnb hb
    obtain ⟨k, hk, _, hk2⟩ := get_some_entry hi
    simp only [Prog.eraseSlots, List.isEmpty_iff, List.filterMap_eq_nil_iff] at h
    have := h _ hk
    simp only [hpr, hk2] at this
    simp [hsc] at this

/-! ### early true: no zero-reflexive slot -/

theorem no_spinout_of_no_slots (p : Prog) (h : p.zrShifts.isEmpty = true) :
    ¬ SpinsOut p.toF := by
  rintro ⟨n, c, _, _, pr, sh, hi, _⟩
  obtain ⟨k, hk, hk1, hk2⟩ := get_some_entry (p := p) (s := (c.state, 0)) hi
  simp only [Prog.zrShifts, List.isEmpty_iff, List.filterMap_eq_nil_iff] at h
  have := h _ hk
  simp only at hk1 hk2
  simp [hk1, hk2] at this

/-! ### early true: no halt slot -/

/-- states and colours of the run stay within bounds that cover the instruction contents -/
theorem run_bounded (p : Prog) (S C : Nat)
    (hB : ∀ kv ∈ p, kv.2.2.2 ≤ S ∧ kv.2.1 ≤ C) :
    ∀ n c, RunAt p.toF n c →
      c.state ≤ S ∧ c.scan ≤ C ∧ (∀ i, cellAt c.left i ≤ C) ∧ (∀ i, cellAt c.right i ≤ C) := by
  intro n
  induction n with
  | zero =>
    intro c h
    simp only [RunAt, stepN, Option.some.injEq] at h
    subst h
    simp [Cfg.init]
  | succ n ih =>
    intro c h
    simp only [RunAt] at h
    rw [stepN_succ_last] at h
    cases hn : stepN p.toF n Cfg.init with
    | none => rw [hn] at h; cases h
    | some c0 =>
      rw [hn] at h
      simp only [Option.bind_some, step1, Prog.toF] at h
      obtain ⟨_, _, hl, hr⟩ := ih c0 hn
      cases hi : p.get (c0.state, c0.scan) with
      | none => rw [hi] at h; cases h
      | some ins =>
        obtain ⟨pr, sh, q⟩ := ins
        rw [hi] at h
        simp only [Option.some.injEq] at h
        subst h
        obtain ⟨k, hk, _⟩ := get_some_entry hi
        obtain ⟨hq, hpr⟩ := hB _ hk
        simp only at hq hpr
        cases sh with
        | true =>
          simp only [Cfg.move, if_true]
          refine ⟨hq, by rw [cellAt_headD]; exact hr 0, fun i => ?_, fun i => ?_⟩
          · cases i with
            | zero => simpa using hpr
            | succ i => simpa using hl i
          · rw [cellAt_tail]; exact hr _
        | false =>
          simp only [Cfg.move, Bool.false_eq_true, if_false]
          refine ⟨hq, by rw [cellAt_headD]; exact hl 0, fun i => ?_, fun i => ?_⟩
          · rw [cellAt_tail]; exact hl _
          · cases i with
            | zero => simpa using hpr
            | succ i => simpa using hr i

theorem foldl_paramsFix_ge (l : Prog) (acc : Nat × Nat) :
    acc.1 ≤ (l.foldl (fun acc kv => (max (max acc.1 kv.1.1) kv.2.2.2,
        max (max acc.2 kv.1.2) kv.2.1)) acc).1 ∧
    acc.2 ≤ (l.foldl (fun acc kv => (max (max acc.1 kv.1.1) kv.2.2.2,
        max (max acc.2 kv.1.2) kv.2.1)) acc).2 ∧
    ∀ kv ∈ l,
      kv.2.2.2 ≤ (l.foldl (fun acc kv => (max (max acc.1 kv.1.1) kv.2.2.2,
        max (max acc.2 kv.1.2) kv.2.1)) acc).1 ∧
      kv.2.1 ≤ (l.foldl (fun acc kv => (max (max acc.1 kv.1.1) kv.2.2.2,
        max (max acc.2 kv.1.2) kv.2.1)) acc).2 := by
  induction l generalizing acc with
  | nil => simp
  | cons x xs ih =>
    simp only [List.foldl_cons, List.mem_cons, forall_eq_or_imp]
    obtain ⟨h1, h2, h3⟩ := ih (max (max acc.1 x.1.1) x.2.2.2, max (max acc.2 x.1.2) x.2.1)
    simp only at h1 h2
    refine ⟨by omega, by omega, ⟨by omega, by omega⟩, h3⟩

theorem paramsFix_bounds (p : Prog) :
    ∀ kv ∈ p, kv.2.2.2 ≤ p.paramsFix.1 ∧ kv.2.1 ≤ p.paramsFix.2 :=
  (foldl_paramsFix_ge p (0, 0)).2.2

theorem paramsCover_bounds (p : Prog) (h : paramsCover p = true) :
    ∀ kv ∈ p, kv.2.2.2 ≤ p.params.1 ∧ kv.2.1 ≤ p.params.2 := by
  intro kv hkv
  simp only [paramsCover, List.all_eq_true, Bool.and_eq_true, decide_eq_true_eq] at h
  exact h kv hkv

theorem haltSlots_eq (p : Prog) (fixF2 : Bool) :
    p.haltSlots fixF2 =
      (List.range ((if fixF2 then p.paramsFix else p.params).1 + 1)).flatMap fun st =>
        (List.range ((if fixF2 then p.paramsFix else p.params).2 + 1)).filterMap fun co =>
          if (p.get (st, co)).isNone then some (st, co) else none := rfl

/-- no halt slot inside the table size: every slot inside it has an instruction -/
theorem defined_of_no_haltSlots (p : Prog) (fixF2 : Bool) (h : (p.haltSlots fixF2).isEmpty = true)
    (st co : Nat) (hst : st ≤ (if fixF2 then p.paramsFix else p.params).1)
    (hco : co ≤ (if fixF2 then p.paramsFix else p.params).2) : p.get (st, co) ≠ none := by
  rw [haltSlots_eq] at h
  simp only [List.isEmpty_iff, List.flatMap_eq_nil_iff, List.filterMap_eq_nil_iff, List.mem_range] at h
  have := h st (by omega) co (by omega)
  intro hn
  simp [hn] at this

theorem no_halt_of_no_slots (p : Prog) (fixF2 : Bool)
    (hcov : fixF2 = true ∨ paramsCover p = true)
    (h : (p.haltSlots fixF2).isEmpty = true) : ¬ Halts p.toF := by
  rintro ⟨n, q, s, c, hrun, rfl, rfl, hnone⟩
  have hB : ∀ kv ∈ p, kv.2.2.2 ≤ (if fixF2 then p.paramsFix else p.params).1 ∧
      kv.2.1 ≤ (if fixF2 then p.paramsFix else p.params).2 := by
    cases fixF2 with
    | true => simpa using paramsFix_bounds p
    | false =>
      rcases hcov with hc | hc
      · cases hc
      · simpa using paramsCover_bounds p hc
  obtain ⟨h1, h2, _, _⟩ := run_bounded p _ _ hB n c hrun
  exact defined_of_no_haltSlots p fixF2 h c.state c.scan h1 h2 hnone

/-! ### the three entry points -/

theorem cps_cant_halt_sound' (p : Prog) (rad : Nat) (fixF2 : Bool)
    (order : List Config → List Config) (hord : OrderOK order)
    (hcov : fixF2 = true ∨ paramsCover p = true)
    (h : cpsCantHalt p rad fixF2 order = .ok true) : ¬ Halts p.toF := by
  simp only [cpsCantHalt] at h
  split at h
  · rename_i he
    exact no_halt_of_no_slots p fixF2 hcov he
  · exact cpsRun_sound' p rad .halt _ _ order hord h

theorem cps_cant_blank_sound' (p : Prog) (rad : Nat)
    (order : List Config → List Config) (hord : OrderOK order)
    (h : cpsCantBlank p rad order = .ok true) : ¬ ∃ n, ErasesAt p.toF n := by
  simp only [cpsCantBlank] at h
  split at h
  · rename_i he
    exact no_erase_of_no_slots p he
  · exact cpsRun_sound' p rad .blank _ _ order hord h

theorem cps_cant_spin_out_sound' (p : Prog) (rad : Nat)
    (order : List Config → List Config) (hord : OrderOK order)
    (h : cpsCantSpinOut p rad order = .ok true) : ¬ SpinsOut p.toF := by
  simp only [cpsCantSpinOut] at h
  split at h
  · rename_i he
    exact no_spinout_of_no_slots p he
  · exact cpsRun_sound' p rad .spinout _ _ order hord h

end BB.Cps
