/-
C08 / C09, part 2: one base step inside a window (`lstep`), runs of them (`LRun`), one iteration of
the `'step` loop of `run_simulator` as such a run (`iterStep_LRun`), and the L0 meaning of a run
(`LRun_post`).
-/
import BB.Lemmas.MacroSim1

namespace BB.MacroSim

open BB BB.Macros

/-! ### RunsIn -/

theorem inWindow_embed {k : Nat} {q : Nat} {w : Win} (oL oR : List Nat)
    (h : w.left.length + w.right.length + 1 = k) : InWindow k oL oR (embed q w oL oR) :=
  ⟨w, by simp [Win.toTape]; omega, rfl⟩

theorem RunsIn.zero (p : ProgF) (k : Nat) (oL oR : List Nat) (c : Cfg) : RunsIn p k oL oR 0 c c :=
  ⟨rfl, fun i hi => by omega⟩

theorem RunsIn.cons {p : ProgF} {k : Nat} {oL oR : List Nat} {n : Nat} {c c1 c2 : Cfg}
    (hw : InWindow k oL oR c) (h1 : step1 p c = some c1) (h : RunsIn p k oL oR n c1 c2) :
    RunsIn p k oL oR (n + 1) c c2 := by
  refine ⟨by simp only [stepN, h1]; exact h.1, fun i hi => ?_⟩
  cases i with
  | zero => exact ⟨c, rfl, hw⟩
  | succ j =>
    obtain ⟨cj, h2, h3⟩ := h.2 j (by omega)
    exact ⟨cj, by simp only [stepN, h1]; exact h2, h3⟩

theorem RunsIn.one {p : ProgF} {k : Nat} {oL oR : List Nat} {c c1 : Cfg}
    (hw : InWindow k oL oR c) (h1 : step1 p c = some c1) : RunsIn p k oL oR 1 c c1 :=
  RunsIn.cons hw h1 (RunsIn.zero p k oL oR c1)

theorem RunsIn.trans {p : ProgF} {k : Nat} {oL oR : List Nat} {n m : Nat} {a b c : Cfg}
    (h1 : RunsIn p k oL oR n a b) (h2 : RunsIn p k oL oR m b c) : RunsIn p k oL oR (n + m) a c := by
  refine ⟨stepN_add_of_eq h1.1 h2.1, fun i hi => ?_⟩
  by_cases h : i < n
  · exact h1.2 i h
  · obtain ⟨j, rfl⟩ : ∃ j, i = n + j := ⟨i - n, by omega⟩
    obtain ⟨cj, h3, h4⟩ := h2.2 j (by omega)
    exact ⟨cj, stepN_add_of_eq h1.1 h3, h4⟩

/-! ### one base step in a window -/

/-- outcome of one (or several) base steps started with the head in the window -/
inductive LStep where
  | halt
  | exit (q : Nat) (d : Bool) (tape : MTape)
  | cont (q : Nat) (w : Win)

/-- one base step on the window zipper -/
def lstep (p : ProgF) (q : Nat) (w : Win) : LStep :=
  match p q w.scan with
  | none => .halt
  | some (pr, sh, q') =>
    if sh then
      match w.right with
      | [] => .exit q' true (pr :: w.left).reverse
      | r :: rs => .cont q' ⟨pr :: w.left, r, rs⟩
    else
      match w.left with
      | [] => .exit q' false (pr :: w.right)
      | l :: ls => .cont q' ⟨ls, l, pr :: w.right⟩

/-- `n ≥ 1` base steps: the first `n - 1` stay in the window, the last has outcome `r` -/
inductive LRun (p : ProgF) : Nat → Nat → Win → LStep → Prop
  | one {q : Nat} {w : Win} {r : LStep} : lstep p q w = r → LRun p 1 q w r
  | step {n q : Nat} {w : Win} {q' : Nat} {w' : Win} {r : LStep} :
      lstep p q w = .cont q' w' → LRun p n q' w' r → LRun p (n + 1) q w r

def toL : SimStep → LStep
  | .exit (q, (d, t)) => .exit q d t
  | .cont q w => .cont q w

/-- one iteration of the `'step` loop of `run_simulator` over the base program `p` -/
def iterStep (p : ProgF) (q : Nat) (w : Win) : LStep :=
  match p q w.scan with
  | none => .halt
  | some i => toL (simStep q w i)

theorem sweepRight_LRun {p : ProgF} {q s c : Nat} (hp : p q s = some (c, true, q)) :
    ∀ (right left : List Nat),
      ∃ n, LRun p n q ⟨left, s, right⟩ (toL (sweepRight q s c (c :: left) right)) := by
  intro right
  induction right with
  | nil =>
    intro left
    exact ⟨1, .one (by simp [lstep, hp, sweepRight, toL])⟩
  | cons y ys ih =>
    intro left
    have hl : lstep p q ⟨left, s, y :: ys⟩ = .cont q ⟨c :: left, y, ys⟩ := by simp [lstep, hp]
    by_cases hy : y = s
    · subst hy
      obtain ⟨n, hn⟩ := ih (c :: left)
      exact ⟨n + 1, .step hl (by simpa [sweepRight] using hn)⟩
    · exact ⟨1, .one (by rw [hl]; simp [sweepRight, hy, toL])⟩

theorem sweepLeft_LRun {p : ProgF} {q s c : Nat} (hp : p q s = some (c, false, q)) :
    ∀ (left right : List Nat),
      ∃ n, LRun p n q ⟨left, s, right⟩ (toL (sweepLeft q s c left (c :: right))) := by
  intro left
  induction left with
  | nil =>
    intro right
    exact ⟨1, .one (by simp [lstep, hp, sweepLeft, toL])⟩
  | cons y ys ih =>
    intro right
    have hl : lstep p q ⟨y :: ys, s, right⟩ = .cont q ⟨ys, y, c :: right⟩ := by simp [lstep, hp]
    by_cases hy : y = s
    · subst hy
      obtain ⟨n, hn⟩ := ih (c :: right)
      exact ⟨n + 1, .step hl (by simpa [sweepLeft] using hn)⟩
    · exact ⟨1, .one (by rw [hl]; simp [sweepLeft, hy, toL])⟩

/-- one loop iteration is a run of `≥ 1` base steps -/
theorem iterStep_LRun (p : ProgF) (q : Nat) (w : Win) : ∃ n, LRun p n q w (iterStep p q w) := by
  obtain ⟨left, s, right⟩ := w
  cases hp : p q s with
  | none => exact ⟨1, .one (by simp [lstep, iterStep, hp])⟩
  | some i =>
    obtain ⟨c, sh, q'⟩ := i
    by_cases hq : q' = q
    · subst hq
      cases sh with
      | true =>
        obtain ⟨n, hn⟩ := sweepRight_LRun hp right left
        exact ⟨n, by simpa [iterStep, hp, simStep, sweepRight] using hn⟩
      | false =>
        obtain ⟨n, hn⟩ := sweepLeft_LRun hp left right
        exact ⟨n, by simpa [iterStep, hp, simStep, sweepLeft] using hn⟩
    · refine ⟨1, .one ?_⟩
      cases sh
      · cases left <;> simp [lstep, iterStep, hp, simStep, hq, toL]
      · cases right <;> simp [lstep, iterStep, hp, simStep, hq, toL]

/-! ### meaning in L0 -/

/-- the window is a `k`-cell window over colours `< C`, the state is `< S` -/
structure Valid (S C k : Nat) (q : Nat) (w : Win) : Prop where
  hq : q < S
  hlen : w.left.length + w.right.length + 1 = k
  hl : ∀ x ∈ w.left, x < C
  hs : w.scan < C
  hr : ∀ x ∈ w.right, x < C

/-- what an outcome `r` after `n` steps from `c` means in L0 -/
def LPost (p : ProgF) (S C k : Nat) (oL oR : List Nat) (n : Nat) (c : Cfg) : LStep → Prop
  | .halt => HaltsInside p k oL oR c
  | .exit q' d t => q' < S ∧ t.length = k ∧ (∀ x ∈ t, x < C) ∧
      RunsIn p k oL oR n c (exitCfg q' d t oL oR)
  | .cont q' w' => Valid S C k q' w' ∧ RunsIn p k oL oR n c (embed q' w' oL oR)

theorem lstep_post {p : ProgF} {S C k : Nat} (hcl : Closed p S C) (oL oR : List Nat) {q : Nat}
    {w : Win} (hv : Valid S C k q w) :
    LPost p S C k oL oR 1 (embed q w oL oR) (lstep p q w) := by
  obtain ⟨left, s, right⟩ := w
  have hw : InWindow k oL oR (embed q ⟨left, s, right⟩ oL oR) := inWindow_embed oL oR hv.hlen
  obtain ⟨hq, hlen, hl, hs, hr⟩ := hv
  simp only at hlen hl hs hr
  cases hp : p q s with
  | none =>
    simp only [lstep, hp, LPost]
    exact ⟨0, _, RunsIn.zero _ _ _ _ _, hw, by simp [step1, embed, hp]⟩
  | some i =>
    obtain ⟨pr, sh, q'⟩ := i
    obtain ⟨hpr, hq'⟩ := hcl q s pr sh q' hq hs hp
    cases sh with
    | true =>
      cases right with
      | nil =>
        simp only [lstep, hp, LPost, if_true]
        refine ⟨hq', by simp at hlen ⊢; omega, ?_, RunsIn.one hw ?_⟩
        · intro x hx
          simp only [List.reverse_cons, List.mem_append, List.mem_reverse, List.mem_cons,
            List.not_mem_nil, or_false] at hx
          rcases hx with hx | rfl
          · exact hl x hx
          · exact hpr
        · simp [step1, embed, hp, Cfg.move, exitCfg]
      | cons r rs =>
        simp only [lstep, hp, LPost, if_true]
        refine ⟨⟨hq', by simp at hlen ⊢; omega, ?_, hr r (by simp), fun x hx => hr x (by simp [hx])⟩,
          RunsIn.one hw ?_⟩
        · intro x hx
          rcases List.mem_cons.1 hx with rfl | hx
          · exact hpr
          · exact hl x hx
        · simp [step1, embed, hp, Cfg.move]
    | false =>
      cases left with
      | nil =>
        simp only [lstep, hp, LPost]
        refine ⟨hq', by simp at hlen ⊢; omega, ?_, RunsIn.one hw ?_⟩
        · intro x hx
          rcases List.mem_cons.1 hx with rfl | hx
          · exact hpr
          · exact hr x hx
        · simp [step1, embed, hp, Cfg.move, exitCfg]
      | cons l ls =>
        simp only [lstep, hp, LPost]
        refine ⟨⟨hq', by simp at hlen ⊢; omega, fun x hx => hl x (by simp [hx]), hl l (by simp), ?_⟩,
          RunsIn.one hw ?_⟩
        · intro x hx
          rcases List.mem_cons.1 hx with rfl | hx
          · exact hpr
          · exact hr x hx
        · simp [step1, embed, hp, Cfg.move]

theorem LPost.prepend {p : ProgF} {S C k : Nat} {oL oR : List Nat} {n : Nat} {c c1 : Cfg}
    {r : LStep} (hw : InWindow k oL oR c) (h1 : step1 p c = some c1)
    (h : LPost p S C k oL oR n c1 r) : LPost p S C k oL oR (n + 1) c r := by
  cases r with
  | halt =>
    obtain ⟨m, c', h2, h3, h4⟩ := h
    exact ⟨m + 1, c', RunsIn.cons hw h1 h2, h3, h4⟩
  | exit q' d t =>
    obtain ⟨h2, h3, h4, h5⟩ := h
    exact ⟨h2, h3, h4, RunsIn.cons hw h1 h5⟩
  | cont q' w' =>
    obtain ⟨h2, h5⟩ := h
    exact ⟨h2, RunsIn.cons hw h1 h5⟩

/-- **meaning of a run of window steps** -/
theorem LRun_post {p : ProgF} {S C k : Nat} (hcl : Closed p S C) (oL oR : List Nat) {n q : Nat}
    {w : Win} {r : LStep} (h : LRun p n q w r) (hv : Valid S C k q w) :
    1 ≤ n ∧ LPost p S C k oL oR n (embed q w oL oR) r := by
  induction h with
  | one h => subst h; exact ⟨Nat.le_refl _, lstep_post hcl oL oR hv⟩
  | step h1 _ ih =>
    have hp := lstep_post hcl oL oR hv
    rw [h1] at hp
    obtain ⟨hv', hr⟩ := hp
    obtain ⟨_, hpost⟩ := ih hv'
    obtain ⟨hs, _⟩ := hr
    rw [stepN_one] at hs
    exact ⟨by omega, LPost.prepend (inWindow_embed oL oR hv.hlen) hs hpost⟩

end BB.MacroSim
