/-
Symbolic rule validation (BB/Model/SymRule.lean), part 1: linear forms, instantiation of symbolic
spans/tapes, and soundness of one symbolic cycle (`sym_step_sound'`): a determined symbolic cycle
is, under EVERY valuation, the cycle the plain simulator takes on the instantiated tape.
-/
import BB.Model.SymRule
import BB.Lemmas.Validate

namespace BB.Sym

/-! ### `dot` and `Form.eval` -/

theorem dot_nil_left (v : Val) : dot [] v = 0 := by cases v <;> rfl

theorem dot_nil_right (ks : List Nat) : dot ks [] = 0 := by cases ks <;> rfl

theorem dot_cons (k : Nat) (ks : List Nat) (x : Nat) (xs : Val) :
    dot (k :: ks) (x :: xs) = k * x + dot ks xs := rfl

theorem dot_addKs (a b : List Nat) (v : Val) : dot (addKs a b) v = dot a v + dot b v := by
  induction a generalizing b v with
  | nil => simp only [addKs, dot_nil_left, Nat.zero_add]
  | cons x xs ih =>
    cases b with
    | nil => simp only [addKs, dot_nil_left, Nat.add_zero]
    | cons y ys =>
      cases v with
      | nil => simp only [dot_nil_right]
      | cons w ws =>
        simp only [addKs, dot_cons, ih, Nat.add_mul]
        omega

theorem eval_add (f g : Form) (v : Val) : (f.add g).eval v = f.eval v + g.eval v := by
  simp only [Form.add, Form.eval, dot_addKs]; omega

theorem eval_succ (f : Form) (v : Val) : f.succ.eval v = f.eval v + 1 := by
  simp only [Form.succ, Form.eval]; omega

theorem eval_const (n : Nat) (v : Val) : (Form.const n).eval v = n := by
  simp only [Form.const, Form.eval, dot_nil_left, Nat.add_zero]

theorem dot_var (i : Nat) (v : Val) : dot (List.replicate i 0 ++ [1]) v = v.getD i 0 := by
  induction i generalizing v with
  | zero =>
    cases v with
    | nil => rfl
    | cons x xs => simp only [List.replicate_zero, List.nil_append, dot_cons, dot_nil_left,
        List.getD_cons_zero]; omega
  | succ i ih =>
    cases v with
    | nil => simp only [dot_nil_right, List.getD_nil]
    | cons x xs =>
      simp only [List.replicate_succ, List.cons_append, dot_cons, ih, List.getD_cons_succ]
      omega

theorem eval_var (c i : Nat) (v : Val) : (Form.var c i).eval v = c + v.getD i 0 := by
  simp only [Form.var, Form.eval, dot_var]

theorem dot_zeros (zs : List Nat) (h : ∀ z ∈ zs, z = 0) (v : Val) : dot zs v = 0 := by
  induction zs generalizing v with
  | nil => exact dot_nil_left v
  | cons z zs ih =>
    cases v with
    | nil => rfl
    | cons x xs =>
      have hz : z = 0 := h z (List.mem_cons_self ..)
      rw [dot_cons, ih (fun y hy => h y (List.mem_cons_of_mem _ hy)), hz]
      omega

theorem dot_append (a b : List Nat) (v : Val) :
    dot (a ++ b) v = dot a v + dot b (v.drop a.length) := by
  induction a generalizing v with
  | nil => simp only [List.nil_append, dot_nil_left, List.length_nil, List.drop_zero, Nat.zero_add]
  | cons x xs ih =>
    cases v with
    | nil => simp only [dot_nil_right, List.drop_nil]
    | cons w ws =>
      simp only [List.cons_append, dot_cons, ih, List.length_cons, List.drop_succ_cons]
      omega

theorem eval_isConst (f : Form) (h : f.isConst = true) (v : Val) : f.eval v = f.c := by
  simp only [Form.isConst, List.all_eq_true, beq_iff_eq] at h
  simp only [Form.eval, dot_zeros f.ks h v, Nat.add_zero]

theorem mem_takeWhile_true {p : Nat → Bool} {l : List Nat} {z : Nat}
    (h : z ∈ l.takeWhile p) : p z = true := by
  induction l with
  | nil => cases h
  | cons x xs ih =>
    rw [List.takeWhile_cons] at h
    by_cases hx : p x = true
    · rw [if_pos hx] at h
      cases h with
      | head => exact hx
      | tail _ h' => exact ih h'
    · rw [if_neg hx] at h; cases h

/-- a coefficient list is its trimmed form followed by zeros -/
theorem trimKs_spec (ks : List Nat) : ∃ zs, (∀ z ∈ zs, z = 0) ∧ ks = trimKs ks ++ zs := by
  refine ⟨(ks.reverse.takeWhile (· == 0)).reverse, ?_, ?_⟩
  · intro z hz
    rw [List.mem_reverse] at hz
    have := mem_takeWhile_true hz
    simpa using this
  · have h := List.takeWhile_append_dropWhile (p := (· == 0)) (l := ks.reverse)
    have h2 := congrArg List.reverse h
    rw [List.reverse_append, List.reverse_reverse] at h2
    exact h2.symm

theorem dot_trimKs (ks : List Nat) (v : Val) : dot (trimKs ks) v = dot ks v := by
  obtain ⟨zs, hz, hk⟩ := trimKs_spec ks
  conv => rhs; rw [hk]
  rw [dot_append, dot_zeros zs hz, Nat.add_zero]

theorem Form.eqv_eval {f g : Form} (h : f.eqv g = true) (v : Val) : f.eval v = g.eval v := by
  simp only [Form.eqv, Bool.and_eq_true, beq_iff_eq] at h
  simp only [Form.eval, h.1]
  rw [← dot_trimKs f.ks, ← dot_trimKs g.ks, h.2]

/-! ### instantiation -/

theorem SSpan.inst_nil (v : Val) : SSpan.inst [] v = [] := rfl

theorem SSpan.inst_cons (b : SBlock) (s : SSpan) (v : Val) :
    SSpan.inst (b :: s) v = ⟨b.color, b.count.eval v⟩ :: SSpan.inst s v := rfl

theorem SSpan.eqv_inst {a b : SSpan} (h : SSpan.eqv a b = true) (v : Val) :
    SSpan.inst a v = SSpan.inst b v := by
  induction a generalizing b with
  | nil =>
    cases b with
    | nil => rfl
    | cons y ys => simp [SSpan.eqv] at h
  | cons x xs ih =>
    cases b with
    | nil => simp [SSpan.eqv] at h
    | cons y ys =>
      simp only [SSpan.eqv, Bool.and_eq_true, beq_iff_eq] at h
      rw [SSpan.inst_cons, SSpan.inst_cons, ih h.2, h.1.1, Form.eqv_eval h.1.2]

theorem STape.eqv_inst {a b : STape} (h : a.eqv b = true) (v : Val) : a.inst v = b.inst v := by
  simp only [STape.eqv, Bool.and_eq_true, beq_iff_eq] at h
  simp only [STape.inst, h.1.1, SSpan.eqv_inst h.1.2, SSpan.eqv_inst h.2]

theorem SSpan.posB_cons (b : SBlock) (s : SSpan) :
    SSpan.posB (b :: s) = true ↔ 1 ≤ b.count.c ∧ SSpan.posB s = true := by
  simp only [SSpan.posB, List.all_cons, Bool.and_eq_true, decide_eq_true_eq, ge_iff_le]

theorem SSpan.posB_inst {s : SSpan} (h : SSpan.posB s = true) (v : Val) : Span.Pos (s.inst v) := by
  induction s with
  | nil => intro b hb; cases hb
  | cons x xs ih =>
    rw [SSpan.posB_cons] at h
    intro b hb
    rw [SSpan.inst_cons] at hb
    cases hb with
    | head => simp only [Form.eval]; omega
    | tail _ hb' => exact ih h.2 b hb'

theorem STape.posB_inst {t : STape} (h : t.posB = true) (v : Val) : (t.inst v).Pos := by
  simp only [STape.posB, Bool.and_eq_true] at h
  exact ⟨SSpan.posB_inst h.1 v, SSpan.posB_inst h.2 v⟩

/-! ### pull / push / step -/

/-- the second half of `SSpan.pull` -/
def pullTailS (s1 : SSpan) (stepped : Form) : Option (Nat × Form × SSpan) :=
  match s1 with
  | [] => some (0, stepped, [])
  | b :: rest =>
    if b.count.c ≥ 2 then some (b.color, stepped, ⟨b.color, ⟨b.count.c - 1, b.count.ks⟩⟩ :: rest)
    else if b.count.c == 1 && b.count.isConst then some (b.color, stepped, rest)
    else none

/-- the second half of `Span.pull` -/
def pullTailP (s1 : Span) (stepped : Nat) : Nat × Nat × Span :=
  match s1 with
  | [] => (0, stepped, [])
  | b :: rest =>
    if b.count > 1 then (b.color, stepped, ⟨b.color, b.count - 1⟩ :: rest)
    else (b.color, stepped, rest)

theorem SSpan.pull_eq (s : SSpan) (scan : Nat) (skip : Bool) :
    SSpan.pull s scan skip =
      match s with
      | b :: rest =>
        if (skip && b.color == scan) = true then pullTailS rest b.count.succ
        else pullTailS s (Form.const 1)
      | [] => pullTailS [] (Form.const 1) := by
  cases s with
  | nil => rfl
  | cons b rest =>
    by_cases hs : (skip && b.color == scan) = true
    · simp only [SSpan.pull, hs, if_true]
      cases rest <;> rfl
    · simp only [SSpan.pull, hs]
      rfl

theorem Span.pull_eq' (s : Span) (scan : Nat) (skip : Bool) :
    Span.pull s scan skip =
      match s with
      | b :: rest =>
        if (skip && b.color == scan) = true then pullTailP rest (1 + b.count)
        else pullTailP s 1
      | [] => pullTailP [] 1 := by
  cases s with
  | nil => rfl
  | cons b rest =>
    by_cases hs : (skip && b.color == scan) = true
    · simp only [Span.pull, hs, if_true]
      cases rest <;> rfl
    · simp only [Span.pull, hs]
      rfl

theorem pullTail_inst {s1 : SSpan} {stepped : Form} {ns : Nat} {k : Form} {s' : SSpan}
    (hpos : SSpan.posB s1 = true) (h : pullTailS s1 stepped = some (ns, k, s')) (v : Val) :
    pullTailP (s1.inst v) (stepped.eval v) = (ns, k.eval v, s'.inst v) ∧ k = stepped ∧
      SSpan.posB s' = true := by
  cases s1 with
  | nil =>
    simp only [pullTailS, Option.some.injEq, Prod.mk.injEq] at h
    obtain ⟨rfl, rfl, rfl⟩ := h
    exact ⟨rfl, rfl, rfl⟩
  | cons b rest =>
    rw [SSpan.posB_cons] at hpos
    simp only [pullTailS] at h
    by_cases h2 : b.count.c ≥ 2
    · rw [if_pos h2] at h
      simp only [Option.some.injEq, Prod.mk.injEq] at h
      obtain ⟨rfl, rfl, rfl⟩ := h
      have hgt : b.count.eval v > 1 := by simp only [Form.eval]; omega
      refine ⟨?_, rfl, ?_⟩
      · have hsub : b.count.eval v - 1 = Form.eval ⟨b.count.c - 1, b.count.ks⟩ v := by
          simp only [Form.eval]; omega
        simp only [SSpan.inst_cons, pullTailP]
        rw [if_pos hgt, hsub]
      · rw [SSpan.posB_cons]; exact ⟨by simp only; omega, hpos.2⟩
    · rw [if_neg h2] at h
      by_cases h1 : (b.count.c == 1 && b.count.isConst) = true
      · rw [if_pos h1] at h
        simp only [Option.some.injEq, Prod.mk.injEq] at h
        obtain ⟨rfl, rfl, rfl⟩ := h
        simp only [Bool.and_eq_true, beq_iff_eq] at h1
        have he : b.count.eval v = 1 := by rw [eval_isConst _ h1.2]; exact h1.1
        refine ⟨?_, rfl, hpos.2⟩
        simp only [SSpan.inst_cons, pullTailP, he, gt_iff_lt, Nat.lt_irrefl, if_false]
      · rw [if_neg h1] at h; cases h

theorem SSpan.pull_inst {s : SSpan} {scan : Nat} {skip : Bool} {ns : Nat} {k : Form} {s' : SSpan}
    (hpos : SSpan.posB s = true) (h : SSpan.pull s scan skip = some (ns, k, s')) (v : Val) :
    Span.pull (s.inst v) scan skip = (ns, k.eval v, s'.inst v) ∧ 1 ≤ k.c ∧
      SSpan.posB s' = true := by
  rw [SSpan.pull_eq] at h
  rw [Span.pull_eq']
  cases s with
  | nil =>
    simp only at h
    obtain ⟨h1, rfl, h3⟩ := pullTail_inst hpos h v
    rw [eval_const] at h1
    exact ⟨h1, Nat.le_refl _, h3⟩
  | cons b rest =>
    simp only [SSpan.inst_cons] at h ⊢
    by_cases hs : (skip && b.color == scan) = true
    · rw [if_pos hs] at h ⊢
      obtain ⟨h1, rfl, h3⟩ := pullTail_inst ((SSpan.posB_cons b rest).1 hpos).2 h v
      rw [eval_succ, Nat.add_comm] at h1
      refine ⟨?_, by simp only [Form.succ]; omega, h3⟩
      rw [h1, eval_succ, Nat.add_comm]
    · rw [if_neg hs] at h ⊢
      obtain ⟨h1, rfl, h3⟩ := pullTail_inst hpos h v
      rw [eval_const, SSpan.inst_cons] at h1
      exact ⟨h1, Nat.le_refl _, h3⟩

theorem SSpan.push_inst (s : SSpan) (print : Nat) (stepped : Form) (v : Val) :
    SSpan.inst (SSpan.push s print stepped) v = Span.push (s.inst v) print (stepped.eval v) := by
  cases s with
  | nil =>
    simp only [SSpan.push, Span.push, SSpan.inst_nil]
    split <;> rfl
  | cons b rest =>
    simp only [SSpan.push, Span.push, SSpan.inst_cons]
    split
    · simp only [SSpan.inst_cons, eval_add]
    · simp only [SSpan.inst_cons]

theorem SSpan.push_posB {s : SSpan} (hpos : SSpan.posB s = true) (print : Nat) {stepped : Form}
    (hk : 1 ≤ stepped.c) : SSpan.posB (SSpan.push s print stepped) = true := by
  cases s with
  | nil =>
    simp only [SSpan.push]
    split
    · rfl
    · rw [SSpan.posB_cons]; exact ⟨hk, rfl⟩
  | cons b rest =>
    simp only [SSpan.push]
    split
    · rw [SSpan.posB_cons] at hpos ⊢
      exact ⟨by simp only [Form.add]; omega, hpos.2⟩
    · rw [SSpan.posB_cons]; exact ⟨hk, hpos⟩

theorem STape.step_inst {t : STape} {shift : Bool} {color : Nat} {skip : Bool} {t' : STape}
    {k : Form} (hpos : t.posB = true) (h : t.step shift color skip = some (t', k)) (v : Val) :
    (t.inst v).step shift color skip = (t'.inst v, k.eval v) ∧ t'.posB = true := by
  simp only [STape.posB, Bool.and_eq_true] at hpos
  cases shift with
  | true =>
    simp only [STape.step, if_true] at h
    cases hp : SSpan.pull t.rspan t.scan skip with
    | none => rw [hp] at h; cases h
    | some r =>
      obtain ⟨ns, st, pl⟩ := r
      rw [hp] at h
      simp only [Option.some.injEq, Prod.mk.injEq] at h
      obtain ⟨rfl, rfl⟩ := h
      obtain ⟨h1, h2, h3⟩ := SSpan.pull_inst hpos.2 hp v
      refine ⟨?_, ?_⟩
      · simp only [Tape.step, if_true, STape.inst, h1, SSpan.push_inst]
      · simp only [STape.posB, Bool.and_eq_true]
        exact ⟨SSpan.push_posB hpos.1 color h2, h3⟩
  | false =>
    simp only [STape.step, Bool.false_eq_true, if_false] at h
    cases hp : SSpan.pull t.lspan t.scan skip with
    | none => rw [hp] at h; cases h
    | some r =>
      obtain ⟨ns, st, pl⟩ := r
      rw [hp] at h
      simp only [Option.some.injEq, Prod.mk.injEq] at h
      obtain ⟨rfl, rfl⟩ := h
      obtain ⟨h1, h2, h3⟩ := SSpan.pull_inst hpos.1 hp v
      refine ⟨?_, ?_⟩
      · simp only [Tape.step, Bool.false_eq_true, if_false, STape.inst, h1, SSpan.push_inst]
      · simp only [STape.posB, Bool.and_eq_true]
        exact ⟨h3, SSpan.push_posB hpos.2 color h2⟩

theorem SSpan.inst_isEmpty (s : SSpan) (v : Val) : (s.inst v).isEmpty = s.isEmpty := by
  cases s <;> rfl

theorem STape.atEdge_inst (t : STape) (shift : Bool) (v : Val) :
    (t.inst v).atEdge shift = t.atEdge shift := by
  cases shift <;> simp only [Tape.atEdge, STape.atEdge, STape.inst, SSpan.inst_isEmpty,
    if_true, Bool.false_eq_true, if_false]

/-- **sym_step_sound**, lemma form. -/
theorem sym_step_sound' (p : Prog) (q : Nat) (s : STape) (q' : Nat) (s' : STape) (k : Form)
    (hpos : s.posB = true) (h : symStep p q s = .next q' s' k) (v : Val) :
    plainStep p q (s.inst v) = .next q' (s'.inst v) (k.eval v) ∧ s'.posB = true := by
  unfold symStep at h
  unfold plainStep
  have hscan : (s.inst v).scan = s.scan := rfl
  rw [hscan]
  cases hg : p.get (q, s.scan) with
  | none => rw [hg] at h; cases h
  | some i =>
    obtain ⟨color, shift, next⟩ := i
    rw [hg] at h
    simp only at h ⊢
    rw [STape.atEdge_inst]
    by_cases he : (q == next && s.atEdge shift) = true
    · rw [if_pos he] at h; cases h
    · rw [if_neg he] at h ⊢
      cases hs : s.step shift color (q == next) with
      | none => rw [hs] at h; cases h
      | some r =>
        obtain ⟨t1, k1⟩ := r
        rw [hs] at h
        simp only [SymStep.next.injEq] at h
        obtain ⟨rfl, rfl, rfl⟩ := h
        obtain ⟨h1, h2⟩ := STape.step_inst hpos hs v
        rw [h1]
        exact ⟨rfl, h2⟩

end BB.Sym
