/-
C11 (rule arithmetic is exact), part 4: `set_count`, `apply_plus`, the two loops of `apply_rule`.
-/
import BB.Lemmas.RuleArith3

namespace BB.RuleArith

open BB

/-! ### set_count -/

theorem span_setCount_some {s s' : Span} {pos val : Nat} (h : Span.setCount s pos val = some s') :
    pos < s.length ∧ s'.map (·.color) = s.map (·.color) ∧
      s'[pos]?.map (·.count) = some val ∧ ∀ j, j ≠ pos → s'[j]? = s[j]? := by
  induction s generalizing pos s' with
  | nil => simp [Span.setCount] at h
  | cons b rest ih =>
    cases pos with
    | zero =>
      simp only [Span.setCount, Option.some.injEq] at h
      subst h
      refine ⟨by simp, by simp, by simp, ?_⟩
      intro j hj
      cases j with
      | zero => exact absurd rfl hj
      | succ j => simp
    | succ pos =>
      simp only [Span.setCount] at h
      split at h
      · next rest' hrest =>
        simp only [Option.some.injEq] at h
        subst h
        obtain ⟨h1, h2, h3, h4⟩ := ih hrest
        refine ⟨by simp; omega, by simp [h2], by simpa using h3, ?_⟩
        intro j hj
        cases j with
        | zero => simp
        | succ j => simp only [List.getElem?_cons_succ]; exact h4 j (by omega)
      · cases h

theorem span_setCount_exists {s : Span} {pos : Nat} (val : Nat) (h : pos < s.length) :
    ∃ s', Span.setCount s pos val = some s' := by
  induction s generalizing pos with
  | nil => simp at h
  | cons b rest ih =>
    cases pos with
    | zero => exact ⟨_, rfl⟩
    | succ pos =>
      obtain ⟨r', hr'⟩ := ih (pos := pos) (by simpa using h)
      exact ⟨b :: r', by simp [Span.setCount, hr']⟩

/-- `t'` has the same scan, the same number of blocks and the same colours as `t` -/
def SameShape (t t' : Tape) : Prop :=
  t'.scan = t.scan ∧ ∀ s, (tspan t' s).map (·.color) = (tspan t s).map (·.color)

theorem SameShape.refl (t : Tape) : SameShape t t := ⟨rfl, fun _ => rfl⟩

theorem SameShape.trans {t t' t'' : Tape} (h1 : SameShape t t') (h2 : SameShape t' t'') :
    SameShape t t'' :=
  ⟨h2.1.trans h1.1, fun s => (h2.2 s).trans (h1.2 s)⟩

theorem SameShape.inRange {t t' : Tape} (h : SameShape t t') (idx : Index) :
    InRange t' idx ↔ InRange t idx := by
  unfold InRange
  have := congrArg List.length (h.2 idx.1)
  simp only [List.length_map] at this
  rw [this]

theorem tape_setCount_ok {t t' : Tape} {idx : Index} {val : Nat}
    (h : t.setCount idx val = .ok t') :
    InRange t idx ∧ SameShape t t' ∧ t'.getCount idx = .ok val ∧
      ∀ idx', idx' ≠ idx → t'.getCount idx' = t.getCount idx' := by
  obtain ⟨s, pos⟩ := idx
  unfold Tape.setCount at h
  cases s with
  | true =>
    simp only [if_true] at h
    split at h
    · next s' hs' =>
      injection h with h
      subst h
      obtain ⟨h1, h2, h3, h4⟩ := span_setCount_some hs'
      refine ⟨by simpa [InRange, tspan] using h1, ⟨rfl, ?_⟩, ?_, ?_⟩
      · intro s; cases s <;> simp [tspan, h2]
      · rw [getCount_eq]
        simp only [tspan, if_true]
        cases hq : s'[pos]? with
        | none => rw [hq] at h3; simp at h3
        | some b => rw [hq] at h3; simp at h3; simp [h3]
      · intro idx' hne
        obtain ⟨s0, p0⟩ := idx'
        rw [getCount_eq, getCount_eq]
        cases s0 with
        | false => simp [tspan]
        | true =>
          simp only [tspan, if_true]
          rw [h4 p0 (by intro e; subst e; exact hne rfl)]
    · cases h
  | false =>
    simp only [Bool.false_eq_true, if_false] at h
    split at h
    · next s' hs' =>
      injection h with h
      subst h
      obtain ⟨h1, h2, h3, h4⟩ := span_setCount_some hs'
      refine ⟨by simpa [InRange, tspan] using h1, ⟨rfl, ?_⟩, ?_, ?_⟩
      · intro s; cases s <;> simp [tspan, h2]
      · rw [getCount_eq]
        simp only [tspan, Bool.false_eq_true, if_false]
        cases hq : s'[pos]? with
        | none => rw [hq] at h3; simp at h3
        | some b => rw [hq] at h3; simp at h3; simp [h3]
      · intro idx' hne
        obtain ⟨s0, p0⟩ := idx'
        rw [getCount_eq, getCount_eq]
        cases s0 with
        | true => simp [tspan]
        | false =>
          simp only [tspan, Bool.false_eq_true, if_false]
          rw [h4 p0 (by intro e; subst e; exact hne rfl)]
    · cases h

theorem tape_setCount_exists {t : Tape} {idx : Index} (val : Nat) (h : InRange t idx) :
    ∃ t', t.setCount idx val = .ok t' := by
  obtain ⟨s, pos⟩ := idx
  unfold Tape.setCount
  cases s with
  | true =>
    obtain ⟨s', hs'⟩ := span_setCount_exists (s := t.rspan) val (by simpa [InRange, tspan] using h)
    simp only [if_true, hs']
    exact ⟨_, rfl⟩
  | false =>
    obtain ⟨s', hs'⟩ := span_setCount_exists (s := t.lspan) val (by simpa [InRange, tspan] using h)
    simp only [Bool.false_eq_true, if_false, hs']
    exact ⟨_, rfl⟩

/-! ### the second loop: writing the results -/

theorem setCounts_ok {t t' : Tape} {results : List (Index × Nat)}
    (h : setCounts t results = .ok t') :
    SameShape t t' ∧ (∀ e ∈ results, InRange t e.1) ∧
      (∀ idx, idx ∉ results.map Prod.fst → t'.getCount idx = t.getCount idx) ∧
      ((results.map Prod.fst).Nodup → ∀ e ∈ results, t'.getCount e.1 = .ok e.2) := by
  induction results generalizing t with
  | nil =>
    simp only [setCounts] at h
    injection h with h
    subst h
    exact ⟨SameShape.refl _, fun e he => (by cases he), fun _ _ => rfl, fun _ e he => (by cases he)⟩
  | cons e0 rest ih =>
    obtain ⟨pos, r⟩ := e0
    simp only [setCounts] at h
    split at h
    · cases h
    · next t1 ht1 =>
      obtain ⟨a1, a2, a3, a4⟩ := tape_setCount_ok ht1
      obtain ⟨b1, b2, b3, b4⟩ := ih h
      refine ⟨a2.trans b1, ?_, ?_, ?_⟩
      · intro e he
        rcases List.mem_cons.mp he with he | he
        · subst he; exact a1
        · exact (a2.inRange e.1).mp (b2 e he)
      · intro idx hidx
        simp only [List.map_cons, List.mem_cons, not_or] at hidx
        rw [b3 idx hidx.2, a4 idx hidx.1]
      · intro hnd e he
        simp only [List.map_cons, List.nodup_cons] at hnd
        rcases List.mem_cons.mp he with he | he
        · subst he
          rw [b3 pos hnd.1, a3]
        · exact b4 hnd.2 e he

theorem setCounts_exists {t : Tape} {results : List (Index × Nat)}
    (h : ∀ e ∈ results, InRange t e.1) : ∃ t', setCounts t results = .ok t' := by
  induction results generalizing t with
  | nil => exact ⟨t, rfl⟩
  | cons e0 rest ih =>
    obtain ⟨pos, r⟩ := e0
    obtain ⟨t1, ht1⟩ := tape_setCount_exists r (h (pos, r) List.mem_cons_self)
    have hs := (tape_setCount_ok ht1).2.1
    obtain ⟨t', ht'⟩ := ih (t := t1)
      (fun e he => (hs.inRange e.1).mpr (h e (List.mem_cons_of_mem _ he)))
    exact ⟨t', by simp only [setCounts, ht1, ht']⟩

/-! ### apply_plus -/

theorem natAbs_mul_cast {δ : Int} (h : δ < 0) (n : Nat) :
    ((δ.natAbs * n : Nat) : Int) = -(δ * n) := by
  rw [Int.natCast_mul, Int.ofNat_natAbs_of_nonpos (by omega), Int.neg_mul]

theorem natAbs_mul_cast_nonneg {δ : Int} (h : 0 ≤ δ) (n : Nat) :
    ((δ.natAbs * n : Nat) : Int) = δ * n := by
  rw [Int.natCast_mul, Int.natAbs_of_nonneg h]

/-- a successful `apply_plus` is exact -/
theorem applyPlus_some {c : Nat} {δ : Int} {times r : Nat} (h : applyPlus c δ times = some r) :
    (r : Int) = c + δ * times := by
  unfold applyPlus checkedMul at h
  simp only at h
  split at h
  · cases h
  · next mult hm =>
    split at hm
    · injection hm with hm
      subst hm
      split at h
      · next hneg =>
        unfold checkedSub at h
        split at h
        · next hle =>
          injection h with h
          have := natAbs_mul_cast hneg times
          omega
        · cases h
      · next hnn =>
        unfold checkedAdd at h
        split at h
        · injection h with h
          have := natAbs_mul_cast_nonneg (by omega : 0 ≤ δ) times
          omega
        · cases h
    · cases hm

/-- on a decreasing block that keeps a cell, `apply_plus` cannot fail (the count is a `u64`) -/
theorem applyPlus_dec {c : Nat} {δ : Int} {times : Nat} (hneg : δ < 0) (hc : c ≤ countMax)
    (hle : δ.natAbs * times ≤ c) : applyPlus c δ times = some (c - δ.natAbs * times) := by
  unfold applyPlus checkedMul
  simp only
  rw [if_pos (by omega)]
  simp only
  rw [if_pos hneg]
  unfold checkedSub
  rw [if_pos hle]

/-- on a non-decreasing block `apply_plus` fails exactly when the result leaves the `u64` range -/
theorem applyPlus_inc_none_iff {c : Nat} {δ : Int} {times : Nat} (hnn : 0 ≤ δ) :
    applyPlus c δ times = none ↔ (countMax : Int) < c + δ * times := by
  have hcast := natAbs_mul_cast_nonneg hnn times
  unfold applyPlus checkedMul
  simp only
  by_cases hle : δ.natAbs * times ≤ countMax
  · rw [if_pos hle]
    simp only
    rw [if_neg (by omega)]
    unfold checkedAdd
    by_cases h2 : c + δ.natAbs * times ≤ countMax
    · rw [if_pos h2]
      constructor
      · intro h; cases h
      · intro h; omega
    · rw [if_neg h2]
      constructor
      · intro _; omega
      · intro _; rfl
  · rw [if_neg hle]
    simp only
    constructor
    · intro _; omega
    · intro _; trivial

end BB.RuleArith
