/-
C05 — segment analysis.  Part 12: one iteration of the search keeps `SInv`; a search that ends
with an empty stack leaves a closed explored set (`searchLoop_closed`).
-/
import BB.Lemmas.SegSound11

namespace BB.Segment

open BB

/-- explored set after one more root has been processed -/
def EPlus (prog : Prog) (E : Core → Prop) (X : Core) : Core → Prop := fun Z => E Z ∨ Orbit prog X Z

theorem assemble (ap : AnalyzedProg) (goal : Term) (seg : Nat) (K : Nat → Prop) (E : Core → Prop)
    (X : Config) (cs1 cs2 : Configs) (out : RunOut)
    (hinv : SInv ap goal seg K E (Configs.addTodo cs1 X))
    (P : RunPost3 ap.prog goal seg K X.core cs1 out)
    (hc : RunClosed ap.prog goal seg X.core out)
    (hgrow : Grow out.configs cs2)
    (hmark : MarkInv seg (EPlus ap.prog E X.core) out.configs →
      MarkInv seg (EPlus ap.prog E X.core) cs2)
    (hrl : ∀ q r, dictGet cs2.reached q = some r → r.length < seg)
    (hkeys : (∀ q, K q → (dictGet out.configs.reached q).isSome = true) →
      ∀ q, K q → (dictGet cs2.reached q).isSome = true)
    (hseg2 : cs2.seg = seg)
    (hedge : out.result = none →
      (GoalEdge ap goal out.config.core → Recorded cs2 out.config.core) ∧
      ∀ Z, EdgeSucc ap out.config.core Z → Marked cs2 Z)
    (hhalt : out.result = some (.found .halt) → GoalIn ap.prog goal out.config.core →
      Recorded cs2 out.config.core) :
    SInv ap goal seg K (EPlus ap.prog E X.core) cs2 := by
  have hXgood : Good seg X.tape := hinv.mark.todoGood X (by simp [Configs.addTodo])
  have hg01 : Grow (Configs.addTodo cs1 X) cs1 := ⟨fun _ _ h => h, fun _ _ h => h, fun _ h => h⟩
  have hg02 : Grow (Configs.addTodo cs1 X) cs2 := hg01.trans (P.frame.grow.trans hgrow)
  -- a point of the orbit with the head outside is the end of the walk, with result `none`
  have hterm : ∀ Z, Orbit ap.prog X.core Z → Z.2.scan = none →
      Z = out.config.core ∧ out.result = none := by
    intro Z hZ hs
    obtain ⟨h1, h2⟩ := hc.term Z hZ (cstep_none_of_scan hs)
    refine ⟨h1, ?_⟩
    rcases h2 with h2 | h2
    · exact h2
    · obtain ⟨s, hs', _⟩ := hc.haltAt h2
      rw [h1] at hs
      simp only [Config.core] at hs
      rw [hs] at hs'; cases hs'
  refine ⟨hseg2, ⟨?_, ?_, ?_, ?_, ?_⟩, hmark ⟨?_, ?_, ?_⟩, hrl,
    hkeys (P.frame.keys hinv.keys)⟩
  · rintro Z (hZ | hZ)
    · exact hinv.clos.eGood Z hZ
    · exact hZ.good hXgood
  · rintro Z Y (hZ | hZ) hs
    · exact Or.inl (hinv.clos.eStep Z Y hZ hs)
    · exact Or.inr (hZ.step hs)
  · rintro Z W (hZ | hZ) hs he
    · exact (hinv.clos.eEdge Z W hZ hs he).grow hg02
    · obtain ⟨h1, h2⟩ := hterm Z hZ hs
      rw [h1] at he
      exact (hedge h2).2 W he
  · rintro Z (hZ | hZ) hgi
    · exact hg02.recd Z (hinv.clos.eGoalIn Z hZ hgi)
    · rcases hc.goalIn Z hZ hgi with h | ⟨h1, h2⟩
      · exact hgrow.recd Z h
      · rw [h2] at hgi ⊢
        exact hhalt h1 hgi
  · rintro Z (hZ | hZ) hge
    · exact hg02.recd Z (hinv.clos.eGoalEdge Z hZ hge)
    · obtain ⟨h1, h2⟩ := hterm Z hZ hge.1
      rw [h1] at hge ⊢
      exact (hedge h2).1 hge
  · -- marks in `seen`
    intro q t hs
    rw [P.frame.seen] at hs
    rcases hinv.mark.mSeen q t hs with h | ⟨c, hc', hcc⟩
    · exact Or.inl (Or.inl h)
    · simp only [Configs.addTodo, List.mem_cons] at hc'
      rcases hc' with rfl | hc'
      · left; right; rw [← hcc]; exact Orbit.refl _ _
      · right; exact ⟨c, by rw [P.frame.todo]; exact hc', hcc⟩
  · -- marks in `blanks`
    intro q pos hd
    rcases P.frame.blanksNew q pos hd with h | ⟨Z, hZ, h1, h2, h3⟩
    · obtain ⟨t, t1, t2, t3, t4⟩ := hinv.mark.mBlank q pos h
      refine ⟨t, t1, t2, t3, ?_⟩
      rcases t4 with t4 | ⟨c, hc', hcc⟩
      · exact Or.inl (Or.inl t4)
      · simp only [Configs.addTodo, List.mem_cons] at hc'
        rcases hc' with rfl | hc'
        · left; right; rw [← hcc]; exact Orbit.refl _ _
        · right; exact ⟨c, by rw [P.frame.todo]; exact hc', hcc⟩
    · refine ⟨Z.2, hZ.good hXgood, h2, h3, Or.inl (Or.inr ?_)⟩
      have : (q, Z.2) = Z := by rw [← h1]
      rw [this]; exact hZ
  · intro c hc'
    rw [P.frame.todo] at hc'
    exact hinv.mark.todoGood c (by simp [Configs.addTodo, hc'])

/-- the simple case: the configurations after `run_to_edge` are kept as they are -/
theorem assemble_same (ap : AnalyzedProg) (goal : Term) (seg : Nat) (K : Nat → Prop)
    (E : Core → Prop) (X : Config) (cs1 : Configs) (out : RunOut)
    (hinv : SInv ap goal seg K E (Configs.addTodo cs1 X))
    (P : RunPost3 ap.prog goal seg K X.core cs1 out)
    (hc : RunClosed ap.prog goal seg X.core out) (hne : out.result ≠ none)
    (hhalt : out.result = some (.found .halt) → GoalIn ap.prog goal out.config.core →
      Recorded out.configs out.config.core) :
    SInv ap goal seg K (EPlus ap.prog E X.core) out.configs :=
  assemble ap goal seg K E X cs1 out.configs out hinv P hc (Grow.refl _) id hc.rLen id
    (P.frame.segEq.trans hinv.segEq) (fun h => absurd h hne) hhalt

theorem goalIn_spinout_not_halting {prog : Prog} {Z : Core} {s : Nat} (hs : Z.2.scan = some s)
    (hget : prog.get (Z.1, s) = none) : ¬ GoalIn prog .spinout Z := by
  rintro ⟨s', instr, hs', hg', _⟩
  rw [hs] at hs'
  simp only [Option.some.injEq] at hs'
  subst hs'
  rw [hget] at hg'; cases hg'

theorem searchStep_inv (ap : AnalyzedProg) (goal : Term) (hg : goal ≠ .blank) (seg : Nat)
    (K : Nat → Prop) (E : Core → Prop) (rf : Nat) (X : Config) (cs1 cs2 : Configs)
    (hinv : SInv ap goal seg K E (Configs.addTodo cs1 X))
    (h : searchStep ap goal rf X cs1 = .ok (.cont cs2)) :
    SInv ap goal seg K (EPlus ap.prog E X.core) cs2 := by
  have hXgood : Good seg X.tape := hinv.mark.todoGood X (by simp [Configs.addTodo])
  unfold searchStep at h
  cases hrt : runToEdge ap.prog goal rf X cs1 with
  | error e => rw [hrt] at h; cases h
  | ok out =>
    rw [hrt] at h
    have P := runToEdge_post3 ap.prog goal hg seg K rf X cs1 out hinv.segEq hXgood hinv.rLen hrt
    have hsegm : out.configs.seg = seg := P.frame.segEq.trans hinv.segEq
    obtain ⟨res, cfg, cfm⟩ := out
    cases res with
    | none =>
      simp only at h
      have hc : RunClosed ap.prog goal seg X.core ⟨none, cfg, cfm⟩ := by
        rcases P.closed with h1 | ⟨h1, _⟩ | h1
        · cases h1
        · cases h1
        · exact h1
      obtain ⟨cmid, e1, e2, e3, e4, e5⟩ :=
        edgeStep_spec3 ap goal hg seg K cfg cfm cs2 hsegm P.good h
      refine assemble ap goal seg K E X cs1 cs2 ⟨none, cfg, cfm⟩ hinv P hc
        (e1.grow.trans e2.grow) (fun hm => (hm.eqs e1.todo e1.seen e1.blanks).ext e2)
        (e3 hc.rLen) ?_ (e2.segEq.trans (e1.segEq.trans hsegm)) (fun _ => ⟨e4, e5⟩)
        (fun h' => by cases h')
      intro hk q hq
      rw [e2.reached]
      exact e1.keys hk q hq
    | some r =>
      simp only at h
      -- the three ways to stop are excluded; otherwise the walk is closed
      have hspin : r ≠ .found .spinout := by
        rintro rfl
        simp only [resultStep] at h
        by_cases hi : cfg.init = true
        · simp [hi] at h
        · have hi' : cfg.init = false := by cases hh : cfg.init <;> simp_all
          have := P.spinHit rfl hi'
          simp only at this
          by_cases hgs : (goal != Term.spinout) = true
          · simp [hi', hgs] at h
          · simp [hi', hgs, this] at h
      have hc : RunClosed ap.prog goal seg X.core ⟨some r, cfg, cfm⟩ := by
        rcases P.closed with h1 | ⟨h1, h2⟩ | h1
        · simp only [Option.some.injEq] at h1
          exact absurd h1 hspin
        · simp only [Option.some.injEq] at h1 h2
          subst h1
          simp [resultStep, h2] at h
        · exact h1
      cases r with
      | limit =>
        simp only [resultStep, Except.ok.injEq, StepOut.cont.injEq] at h
        subst h
        exact assemble_same ap goal seg K E X cs1 _ hinv P hc (by simp) (fun h' => by cases h')
      | reached =>
        simp only [resultStep, Except.ok.injEq, StepOut.cont.injEq] at h
        subst h
        exact assemble_same ap goal seg K E X cs1 _ hinv P hc (by simp) (fun h' => by cases h')
      | «repeat» =>
        simp only [resultStep] at h
        by_cases hi : cfg.init = true
        · simp [hi] at h
        · simp only [hi, Bool.false_eq_true, if_false, Except.ok.injEq, StepOut.cont.injEq] at h
          subst h
          exact assemble_same ap goal seg K E X cs1 _ hinv P hc (by simp) (fun h' => by cases h')
      | found t =>
        cases t with
        | spinout => exact absurd rfl hspin
        | blank => exact absurd rfl P.notBlank
        | halt =>
          obtain ⟨s, hs, hget⟩ := hc.haltAt rfl
          simp only at hs hget
          simp only [resultStep] at h
          by_cases hi : cfg.init = true
          · simp [hi] at h
          · simp only [hi, Bool.false_eq_true, if_false] at h
            by_cases hgh : (goal == Term.halt) = true
            · simp only [hgh, if_true] at h
              obtain ⟨cr1, cr2, cr3, _⟩ := checkReached_spec hg seg K cfm cfg hsegm
              by_cases hhit : (Configs.checkReached cfm cfg goal).1 = true
              · simp [hhit] at h
              · have hhit' : (Configs.checkReached cfm cfg goal).1 = false := by
                  cases hh : (Configs.checkReached cfm cfg goal).1 <;> simp_all
                simp only [hhit', Bool.false_eq_true, if_false, Except.ok.injEq,
                  StepOut.cont.injEq] at h
                subst h
                exact assemble ap goal seg K E X cs1 _ ⟨some (.found .halt), cfg, cfm⟩ hinv P hc
                  cr1.grow (fun hm => hm.eqs cr1.todo cr1.seen cr1.blanks) (cr3 hhit' hc.rLen)
                  cr1.keys (cr1.segEq.trans hsegm) (fun h' => by cases h') (fun _ _ => cr2)
            · simp only [hgh, Bool.false_eq_true, if_false, Except.ok.injEq,
                StepOut.cont.injEq] at h
              subst h
              have hgs : goal = .spinout := by
                cases goal
                · simp at hgh
                · exact absurd rfl hg
                · rfl
              refine assemble_same ap goal seg K E X cs1 _ hinv P hc (by simp) (fun _ hgi => ?_)
              subst hgs
              exact absurd hgi (goalIn_spinout_not_halting (Z := cfg.core) hs hget)

/-! ### taking the next configuration -/

theorem sinv_blanks_congr {ap : AnalyzedProg} {goal : Term} {seg : Nat} {K : Nat → Prop}
    {E : Core → Prop} {c c' : Configs} (h : SInv ap goal seg K E c)
    (h1 : c'.seg = c.seg) (h2 : c'.todo = c.todo) (h3 : c'.seen = c.seen)
    (h4 : c'.reached = c.reached) (h5 : ∀ q pos, DHas c'.blanks q pos ↔ DHas c.blanks q pos) :
    SInv ap goal seg K E c' := by
  have hg : Grow c c' := ⟨fun q t hs => by rw [h3]; exact hs, fun q p hd => (h5 q p).2 hd,
    fun Z hZ => by unfold Recorded at hZ ⊢; rw [h4]; exact hZ⟩
  refine ⟨h1.trans h.segEq, h.clos.grow hg, ⟨?_, ?_, ?_⟩, ?_, ?_⟩
  · intro q t hs; rw [h2]; rw [h3] at hs; exact h.mark.mSeen q t hs
  · intro q p hd; rw [h2]; exact h.mark.mBlank q p ((h5 q p).1 hd)
  · intro x hx; rw [h2] at hx; exact h.mark.todoGood x hx
  · intro q r hr; rw [h4] at hr; exact h.rLen q r hr
  · intro q hq; rw [h4]; exact h.keys q hq

theorem nextInit_some {c c' : Configs} {config : Config}
    (h : Configs.nextInit c = some (some config, c')) :
    ∃ pos, Config.mkInit c.seg pos = some config ∧
      c' = { c with blanks := dictSetInsert (dictEnsure c.blanks 0) 0 pos } := by
  unfold Configs.nextInit at h
  simp only at h
  split at h
  · cases h
  · rename_i pos _
    cases hmk : Config.mkInit c.seg pos with
    | none => rw [hmk] at h; cases h
    | some cf =>
      rw [hmk] at h
      simp only [Option.some.injEq, Prod.mk.injEq] at h
      exact ⟨pos, by rw [hmk, h.1], h.2.symm⟩

theorem nextInit_none {c c' : Configs} (h : Configs.nextInit c = some (none, c')) :
    c' = { c with blanks := dictEnsure c.blanks 0 } ∧
      ∀ pos, pos < c.seg → DHas (dictEnsure c.blanks 0) 0 pos := by
  unfold Configs.nextInit at h
  simp only at h
  split at h
  · rename_i hf
    simp only [Option.some.injEq, Prod.mk.injEq, true_and] at h
    refine ⟨h.symm, fun pos hpos => ?_⟩
    rw [List.find?_eq_none] at hf
    have := hf pos (List.mem_range.2 hpos)
    simp only [Bool.not_eq_true, Bool.not_eq_false'] at this
    unfold DHas
    cases hd : dictGet (dictEnsure c.blanks 0) 0 with
    | none =>
      rw [hd] at this
      simp at this
    | some s =>
      rw [hd] at this
      exact ⟨s, rfl, by simpa using this⟩
  · split at h <;> simp at h

theorem next_spec3 {ap : AnalyzedProg} {goal : Term} {seg : Nat} {K : Nat → Prop}
    {E : Core → Prop} {c c1 : Configs} {X : Config} (h : SInv ap goal seg K E c)
    (hn : Configs.next c = some (some X, c1)) : SInv ap goal seg K E (Configs.addTodo c1 X) := by
  unfold Configs.next at hn
  cases hni : Configs.nextInit c with
  | none => rw [hni] at hn; cases hn
  | some r =>
    rw [hni] at hn
    obtain ⟨oc, c'⟩ := r
    cases oc with
    | some cfg =>
      simp only [Option.some.injEq, Prod.mk.injEq] at hn
      obtain ⟨rfl, rfl⟩ := hn
      obtain ⟨pos, hmk, rfl⟩ := nextInit_some hni
      -- the new initial configuration
      unfold Config.mkInit at hmk
      cases hti : Tape.init c.seg pos with
      | none => rw [hti] at hmk; cases hmk
      | some t =>
        rw [hti] at hmk
        simp only [Option.some.injEq] at hmk
        subst hmk
        rw [h.segEq] at hti
        obtain ⟨hgood, hb, hpos⟩ := Tape.init_good hti
        have hg : Grow c (Configs.addTodo
            { c with blanks := dictSetInsert (dictEnsure c.blanks 0) 0 pos } ⟨0, t, true⟩) :=
          ⟨fun _ _ hs => hs, fun q p hd => by
            simp only [Configs.addTodo]
            rw [dHas_dictSetInsert, dHas_dictEnsure]; exact Or.inl hd, fun _ hZ => hZ⟩
        refine ⟨h.segEq, h.clos.grow hg, ⟨?_, ?_, ?_⟩, h.rLen, h.keys⟩
        · intro q t' hs
          rcases h.mark.mSeen q t' hs with h' | ⟨x, hx, hc⟩
          · exact Or.inl h'
          · exact Or.inr ⟨x, by simp [Configs.addTodo, hx], hc⟩
        · intro q p hd
          simp only [Configs.addTodo] at hd
          rw [dHas_dictSetInsert, dHas_dictEnsure] at hd
          rcases hd with hd | ⟨rfl, rfl⟩
          · obtain ⟨t', t1, t2, t3, t4⟩ := h.mark.mBlank q p hd
            refine ⟨t', t1, t2, t3, ?_⟩
            rcases t4 with t4 | ⟨x, hx, hc⟩
            · exact Or.inl t4
            · exact Or.inr ⟨x, by simp [Configs.addTodo, hx], hc⟩
          · exact ⟨t, hgood, hb, hpos, Or.inr ⟨⟨0, t, true⟩, by simp [Configs.addTodo], rfl⟩⟩
        · intro x hx
          simp only [Configs.addTodo, List.mem_cons] at hx
          rcases hx with rfl | hx
          · exact hgood
          · exact h.mark.todoGood x hx
    | none =>
      simp only at hn
      obtain ⟨rfl, _⟩ := nextInit_none hni
      cases htd : c.todo with
      | nil => simp [htd] at hn
      | cons x rest =>
        simp only [htd, Option.some.injEq, Prod.mk.injEq] at hn
        obtain ⟨rfl, rfl⟩ := hn
        exact sinv_blanks_congr h rfl (by simp [Configs.addTodo, htd]) rfl rfl
          (fun q p => by simp only [Configs.addTodo]; exact dHas_dictEnsure _ _ _ _)

/-! ### the whole loop -/

/-- **A search that ends with an empty stack leaves a closed explored set.** -/
theorem searchLoop_closed (ap : AnalyzedProg) (goal : Term) (hg : goal ≠ .blank) (seg : Nat)
    (K : Nat → Prop) (rf : Nat) :
    ∀ (fuel : Nat) (E : Core → Prop) (cs : Configs), SInv ap goal seg K E cs →
      searchLoop ap goal rf fuel cs = .ok none →
      ∃ E' F, SInv ap goal seg K E' F ∧ F.todo = [] ∧ ∀ pos, pos < seg → DHas F.blanks 0 pos := by
  intro fuel
  induction fuel with
  | zero => intro E cs _ h; simp [searchLoop] at h
  | succ fuel ih =>
    intro E cs hinv h
    simp only [searchLoop] at h
    cases hn : Configs.next cs with
    | none => rw [hn] at h; cases h
    | some r =>
      rw [hn] at h
      obtain ⟨oc, c1⟩ := r
      cases oc with
      | none =>
        -- nothing left
        unfold Configs.next at hn
        cases hni : Configs.nextInit cs with
        | none => rw [hni] at hn; cases hn
        | some r' =>
          rw [hni] at hn
          obtain ⟨oc', c'⟩ := r'
          cases oc' with
          | some cfg => simp at hn
          | none =>
            simp only at hn
            obtain ⟨rfl, hall⟩ := nextInit_none hni
            cases htd : cs.todo with
            | cons x rest => simp [htd] at hn
            | nil =>
              refine ⟨E, _, sinv_blanks_congr (c' := { cs with blanks := dictEnsure cs.blanks 0 })
                hinv rfl rfl rfl rfl (fun q p => dHas_dictEnsure _ _ _ _), htd, ?_⟩
              intro pos hpos
              exact hall pos (by rw [hinv.segEq]; exact hpos)
      | some X =>
        simp only at h
        have hinv1 := next_spec3 hinv hn
        cases hs : searchStep ap goal rf X c1 with
        | error e => rw [hs] at h; cases h
        | ok so =>
          rw [hs] at h
          cases so with
          | done v => simp at h
          | cont cs2 =>
            simp only at h
            exact ih _ cs2 (searchStep_inv ap goal hg seg K E rf X c1 cs2 hinv1 hs) h

end BB.Segment
