/-
C05 — segment analysis.  Part 11: the invariant of the search loop (`SInv`): the explored
configurations are closed under stepping inside the window, under `branch_in`/`branch_out`
(up to marks), every goal point met is recorded, every mark belongs to an explored or a pending
configuration.  Goals `halt` and `spinout`.
-/
import BB.Lemmas.SegSound10

namespace BB.Segment

open BB

/-! ### more on tapes -/

theorem Tape.init_good {seg pos : Nat} {t : Tape} (h : Tape.init seg pos = some t) :
    Good seg t ∧ Tape.blank t = true ∧ Tape.pos t = pos := by
  obtain ⟨hwf, hb⟩ := Tape.init_spec h
  have key : Tape.cells t = seg - 2 ∧ Tape.pos t = pos := by
    unfold Tape.init at h
    by_cases h1 : seg < 4
    · simp [h1] at h
    · by_cases h2 : pos > seg
      · simp [h1, h2] at h
      · simp only [h1, h2, if_false] at h
        by_cases h3 : pos = 0
        · subst h3
          simp only [BEq.rfl, if_true, Option.some.injEq] at h
          subst h
          simp [Tape.cells, Tape.pos]
        · have h3' : (pos == 0) = false := by simpa using h3
          simp only [h3', Bool.false_eq_true, if_false] at h
          by_cases h4 : pos = seg - 1
          · subst h4
            simp only [BEq.rfl, if_true, Option.some.injEq] at h
            subst h
            have : 0 < seg - 2 := by omega
            simp [Tape.cells, Tape.pos, this]
            omega
          · have h4' : (pos == seg - 1) = false := by simpa using h4
            simp only [h4', Bool.false_eq_true, if_false] at h
            by_cases h5 : pos > seg - 2
            · simp [h5] at h
            · simp only [h5, if_false, Option.some.injEq] at h
              subst h
              simp only [Tape.cells, Tape.pos, Option.isSome_some, if_true, Bool.true_or]
              by_cases h6 : pos - 1 > 0 <;> by_cases h7 : seg - 2 - pos > 0 <;>
                simp [h6, h7] <;> omega
  exact ⟨⟨hwf, key.1⟩, hb, key.2⟩

theorem Tape.stepIn_good {seg : Nat} {t t' : Tape} {shift : Bool} (hg : Good seg t)
    (h : Tape.stepIn t shift = some t') : Good seg t' ∧ Tape.blank t' = Tape.blank t := by
  have hwf := hg.1
  obtain ⟨hwf', _⟩ := Tape.stepIn_spec hwf h
  unfold Tape.stepIn at h
  cases hsd : Tape.side t with
  | none => rw [hsd] at h; cases h
  | some side =>
    rw [hsd] at h
    have hsc : t.scan = none := by
      unfold Tape.side at hsd
      cases hs : t.scan with
      | none => rfl
      | some c => rw [hs] at hsd; cases hsd
    simp only at h
    split at h
    · cases h
    · cases shift with
      | true =>
        simp only [if_true] at h
        cases htk : Span.take t.rspan with
        | none => rw [htk] at h; cases h
        | some xr =>
          obtain ⟨x, r⟩ := xr
          rw [htk] at h
          simp only [Option.some.injEq] at h
          subst h
          obtain ⟨h1, h2, h3⟩ := Span.take_some hwf.rpos htk
          refine ⟨⟨hwf', ?_⟩, ?_⟩
          · have := hg.2
            simp only [Tape.cells, hsc, Option.isSome_none, Bool.false_eq_true, if_false,
              Option.isSome_some, if_true] at this ⊢
            omega
          · rw [Bool.eq_iff_iff, Tape.blank_iff hwf', Tape.blank_iff hwf, h1, allZero_cons_iff, hsc]
            simp only [Option.getD_some, Option.getD_none]
            constructor
            · rintro ⟨a, b, c⟩; exact ⟨by first | rfl | trivial, b, a, c⟩
            · rintro ⟨_, b, a, c⟩; exact ⟨a, b, c⟩
      | false =>
        simp only [Bool.false_eq_true, if_false] at h
        cases htk : Span.take t.lspan with
        | none => rw [htk] at h; cases h
        | some xr =>
          obtain ⟨x, l⟩ := xr
          rw [htk] at h
          simp only [Option.some.injEq] at h
          subst h
          obtain ⟨h1, h2, h3⟩ := Span.take_some hwf.lpos htk
          refine ⟨⟨hwf', ?_⟩, ?_⟩
          · have := hg.2
            simp only [Tape.cells, hsc, Option.isSome_none, Bool.false_eq_true, if_false,
              Option.isSome_some, if_true] at this ⊢
            omega
          · rw [Bool.eq_iff_iff, Tape.blank_iff hwf', Tape.blank_iff hwf, h1, allZero_cons_iff, hsc]
            simp only [Option.getD_some, Option.getD_none]
            constructor
            · rintro ⟨a, b, d⟩; exact ⟨by first | rfl | trivial, ⟨a, b⟩, d⟩
            · rintro ⟨_, ⟨a, b⟩, d⟩; exact ⟨a, b, d⟩

/-! ### growth of the bookkeeping -/

structure Grow (c c' : Configs) : Prop where
  seen : ∀ q t, SHas c.seen q t → SHas c'.seen q t
  blanks : ∀ q pos, DHas c.blanks q pos → DHas c'.blanks q pos
  recd : ∀ Z, Recorded c Z → Recorded c' Z

theorem Grow.refl (c : Configs) : Grow c c := ⟨fun _ _ h => h, fun _ _ h => h, fun _ h => h⟩

theorem Grow.trans {a b c : Configs} (h1 : Grow a b) (h2 : Grow b c) : Grow a c :=
  ⟨fun q t h => h2.seen q t (h1.seen q t h), fun q p h => h2.blanks q p (h1.blanks q p h),
    fun Z h => h2.recd Z (h1.recd Z h)⟩

theorem Ext.grow {seg : Nat} {c c' : Configs} (h : Ext seg c c') : Grow c c' :=
  ⟨h.seenMono, h.blanksMono, fun Z hZ => by unfold Recorded at hZ ⊢; rw [h.reached]; exact hZ⟩

theorem ReachFrame.grow {seg : Nat} {K : Nat → Prop} {c c' : Configs} (h : ReachFrame seg K c c') :
    Grow c c' :=
  ⟨fun q t hs => by rw [h.seen]; exact hs, fun q p hd => by rw [h.blanks]; exact hd, h.mono⟩

theorem RunFrame.grow {prog : Prog} {K : Nat → Prop} {X0 : Core} {c c' : Configs}
    (h : RunFrame prog K X0 c c') : Grow c c' :=
  ⟨fun q t hs => by rw [h.seen]; exact hs, h.blanksOld, h.mono⟩

theorem Marked.grow {c c' : Configs} (h : Grow c c') {Z : Core} (hm : Marked c Z) : Marked c' Z := by
  unfold Marked at hm ⊢
  split
  · rename_i hb; rw [if_pos hb] at hm; exact h.blanks _ _ hm
  · rename_i hb; rw [if_neg hb] at hm; exact h.seen _ _ hm

/-! ### the invariant -/

/-- closure properties of the explored set `E` -/
structure ClosInv (ap : AnalyzedProg) (goal : Term) (seg : Nat) (E : Core → Prop) (cs : Configs) :
    Prop where
  eGood : ∀ X, E X → Good seg X.2
  eStep : ∀ X Y, E X → cstep ap.prog X = some Y → E Y
  eEdge : ∀ X Z, E X → X.2.scan = none → EdgeSucc ap X Z → Marked cs Z
  eGoalIn : ∀ X, E X → GoalIn ap.prog goal X → Recorded cs X
  eGoalEdge : ∀ X, E X → GoalEdge ap goal X → Recorded cs X

/-- every mark belongs to an explored or a pending configuration -/
structure MarkInv (seg : Nat) (E : Core → Prop) (cs : Configs) : Prop where
  mSeen : ∀ q t, SHas cs.seen q t → E (q, t) ∨ ∃ c ∈ cs.todo, c.core = (q, t)
  mBlank : ∀ q pos, DHas cs.blanks q pos → ∃ t, Good seg t ∧ Tape.blank t = true ∧
    Tape.pos t = pos ∧ (E (q, t) ∨ ∃ c ∈ cs.todo, c.core = (q, t))
  todoGood : ∀ c ∈ cs.todo, Good seg c.tape

structure SInv (ap : AnalyzedProg) (goal : Term) (seg : Nat) (K : Nat → Prop) (E : Core → Prop)
    (cs : Configs) : Prop where
  segEq : cs.seg = seg
  clos : ClosInv ap goal seg E cs
  mark : MarkInv seg E cs
  rLen : ∀ q r, dictGet cs.reached q = some r → r.length < seg
  keys : ∀ q, K q → (dictGet cs.reached q).isSome = true

theorem ClosInv.grow {ap : AnalyzedProg} {goal : Term} {seg : Nat} {E : Core → Prop}
    {c c' : Configs} (h : ClosInv ap goal seg E c) (hg : Grow c c') : ClosInv ap goal seg E c' :=
  ⟨h.eGood, h.eStep, fun X Z hX hs he => (h.eEdge X Z hX hs he).grow hg,
    fun X hX hgi => hg.recd X (h.eGoalIn X hX hgi), fun X hX hge => hg.recd X (h.eGoalEdge X hX hge)⟩

theorem MarkInv.ext {seg : Nat} {E : Core → Prop} {c c' : Configs} (h : MarkInv seg E c)
    (he : Ext seg c c') : MarkInv seg E c' := by
  have htg : ∀ x ∈ c'.todo, Good seg x.tape := by
    intro x hx
    rcases he.todoNew x hx with h' | h'
    · exact h.todoGood x h'
    · exact h'
  refine ⟨?_, ?_, htg⟩
  · intro q t hs
    rcases he.seenNew q t hs with h' | h'
    · rcases h.mSeen q t h' with h'' | ⟨x, hx, hc⟩
      · exact Or.inl h''
      · exact Or.inr ⟨x, he.todoMono x hx, hc⟩
    · exact Or.inr h'
  · intro q p hd
    rcases he.blanksNew q p hd with h' | ⟨x, hx, h1, h2, h3⟩
    · obtain ⟨t, t1, t2, t3, t4⟩ := h.mBlank q p h'
      refine ⟨t, t1, t2, t3, ?_⟩
      rcases t4 with t4 | ⟨x, hx, hc⟩
      · exact Or.inl t4
      · exact Or.inr ⟨x, he.todoMono x hx, hc⟩
    · exact ⟨x.tape, htg x hx, h2, h3, Or.inr ⟨x, hx, by unfold Config.core; rw [h1]⟩⟩

theorem MarkInv.eqs {seg : Nat} {E : Core → Prop} {c c' : Configs} (h : MarkInv seg E c)
    (h1 : c'.todo = c.todo) (h2 : c'.seen = c.seen) (h3 : c'.blanks = c.blanks) :
    MarkInv seg E c' :=
  ⟨fun q t hs => by rw [h1]; rw [h2] at hs; exact h.mSeen q t hs,
    fun q p hd => by rw [h1]; rw [h3] at hd; exact h.mBlank q p hd,
    fun x hx => by rw [h1] at hx; exact h.todoGood x hx⟩

/-! ### the edge step -/

theorem goalTapeOf_core (ap : AnalyzedProg) (goal : Term) (config : Config) :
    goalTapeOf ap goal ⟨config.state, config.tape, false⟩ = goalTapeOf ap goal config := rfl

theorem branchInLoop_spec' (seg : Nat) (tape : Tape) (shift blank : Bool)
    (hb : blank = Tape.blank tape) (hgood : Good seg tape) (l : List Nat) (c c' : Configs)
    (h : Configs.branchInLoop c tape shift blank l = some c') :
    Ext seg c c' ∧ ∀ nt, Tape.stepIn tape shift = some nt → ∀ s ∈ l, Marked c' (s, nt) := by
  cases hsi : Tape.stepIn tape shift with
  | none =>
    cases l with
    | nil =>
      simp only [Configs.branchInLoop, Option.some.injEq] at h
      subst h
      exact ⟨Ext.refl _ _, fun _ h => by cases h⟩
    | cons s rest => simp [Configs.branchInLoop, hsi] at h
  | some nt =>
    obtain ⟨hg', hb'⟩ := Tape.stepIn_good hgood hsi
    obtain ⟨c'', h0, h1, h2⟩ := branchInLoop_spec seg tape nt shift blank hsi (by rw [hb', hb]) hg' l c
    rw [h0] at h
    simp only [Option.some.injEq] at h
    subst h
    refine ⟨h1, fun nt' hnt' => ?_⟩
    simp only [Option.some.injEq] at hnt'
    subst hnt'
    exact h2

theorem edgeStep_spec3 (ap : AnalyzedProg) (goal : Term) (hg : goal ≠ .blank) (seg : Nat)
    (K : Nat → Prop) (config : Config) (cfm cs2 : Configs) (hseg : cfm.seg = seg)
    (hgood : Good seg config.tape)
    (h : edgeStep ap goal config cfm = .ok (.cont cs2)) :
    ∃ cmid, ReachFrame seg K cfm cmid ∧ Ext seg cmid cs2 ∧
      ((∀ q r, dictGet cfm.reached q = some r → r.length < seg) →
        ∀ q r, dictGet cs2.reached q = some r → r.length < seg) ∧
      (GoalEdge ap goal config.core → Recorded cs2 config.core) ∧
      (∀ Z, EdgeSucc ap config.core Z → Marked cs2 Z) := by
  rw [edgeStep_eq] at h
  cases hgt : goalTapeOf ap goal config with
  | error e => rw [hgt] at h; cases h
  | ok gt =>
    rw [hgt] at h
    simp only at h
    -- the `check_reached` part
    obtain ⟨cr1, cr2, cr3, _⟩ := checkReached_spec hg seg K cfm config hseg
    have hmid : ∃ cmid, (if gt = true then Configs.checkReached cfm config goal else (false, cfm)).2
          = cmid ∧ ReachFrame seg K cfm cmid ∧
        ((if gt = true then Configs.checkReached cfm config goal else (false, cfm)).1 = false →
          (∀ q r, dictGet cfm.reached q = some r → r.length < seg) →
          ∀ q r, dictGet cmid.reached q = some r → r.length < seg) ∧
        (gt = true → Recorded cmid config.core) := by
      cases gt with
      | true => exact ⟨_, rfl, cr1, cr3, fun _ => cr2⟩
      | false => exact ⟨_, rfl, ReachFrame.refl _ _ _, fun _ h => h, fun h => by cases h⟩
    obtain ⟨cmid, hm0, hm1, hm2, hm3⟩ := hmid
    rw [hm0] at h
    by_cases hhit : (if gt = true then Configs.checkReached cfm config goal else (false, cfm)).1 = true
    · rw [if_pos hhit] at h; cases h
    · rw [if_neg hhit] at h
      have hhit' : (if gt = true then Configs.checkReached cfm config goal else (false, cfm)).1
          = false := by
        cases hh : (if gt = true then Configs.checkReached cfm config goal else (false, cfm)).1
        · rfl
        · exact absurd hh hhit
      unfold edgeBranch at h
      cases hbr : dictGet ap.branches config.state with
      | none => rw [hbr] at h; cases h
      | some dd =>
        obtain ⟨diffs, dirs⟩ := dd
        rw [hbr] at h
        simp only at h
        cases hbi : Configs.branchIn cmid config.tape dirs (Tape.blank config.tape) with
        | none => rw [hbi] at h; cases h
        | some c3 =>
          rw [hbi] at h
          simp only at h
          split at h
          · cases h
          · simp only [Except.ok.injEq, StepOut.cont.injEq] at h
            subst h
            unfold Configs.branchIn at hbi
            cases hsd : Tape.side config.tape with
            | none => rw [hsd] at hbi; cases hbi
            | some side =>
              rw [hsd] at hbi
              simp only at hbi
              obtain ⟨e1, e2⟩ := branchInLoop_spec' seg config.tape (!side)
                (Tape.blank config.tape) rfl hgood (Dirs.get dirs (!side)) cmid c3 hbi
              obtain ⟨e3, e4⟩ := branchOut_spec seg config (Tape.blank config.tape) rfl hgood diffs c3
              have eall := e1.trans e3
              refine ⟨cmid, hm1, eall, ?_, ?_, ?_⟩
              · intro hl q r hr
                rw [eall.reached] at hr
                exact hm2 hhit' hl q r hr
              · intro hge
                have : gt = true := by
                  have := hge.2
                  rw [Config.core, goalTapeOf_core, hgt] at this
                  simpa using this
                exact eall.grow.recd _ (hm3 this)
              · intro Z ⟨diffs', dirs', hd', hz⟩
                simp only [Config.core] at hd' hz
                rw [hbr] at hd'
                simp only [Option.some.injEq, Prod.mk.injEq] at hd'
                obtain ⟨rfl, rfl⟩ := hd'
                rcases hz with ⟨hz1, hz2⟩ | ⟨side', hs', hz1, hz2⟩
                · have := e4 Z.1 hz1
                  have hZ : Z = (Z.1, config.tape) := by rw [← hz2]
                  rw [hZ]
                  exact this
                · rw [hsd] at hs'
                  simp only [Option.some.injEq] at hs'
                  subst hs'
                  exact (e2 Z.2 hz2 Z.1 hz1).ext e3

end BB.Segment
