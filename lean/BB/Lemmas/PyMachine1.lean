/-
Simulation of the model of the Python runner (`BB.PyM.pyRun`) by the model of the Rust runner
(`runProver`), under the no-divergence condition `pyRunAgrees`: definitions of the relation and
the lemmas about the blank-tape record and the plain machine step.
-/
import BB.Model.PyMachine

namespace BB.PyM

open BB

/-! ### what the property compares -/

/-- the Python outcome kind an outcome of the Rust runner corresponds to (`none` for the Rust
    runner's own limits) -/
def rsKind : TermRes → Option PyKind
  | .xlimit => some .xlimit
  | .infrul => some .infrul
  | .spnout => some .spnout
  | .undfnd => some .undfnd
  | .cfglim => none
  | .mulrul => none
  | .overflow => none

/-- the Rust runner ended in one of its own declared limits -/
def rsLimit (r : MachineResult) : Bool :=
  r.result == .cfglim || r.result == .mulrul || r.result == .overflow

/-- same blank-tape record: the same states in the same order, and the same recorded step wherever
    the Python step counter is still defined (it is -1 after the first rule application) -/
def BlanksAgree : PyBlanks → Blanks → Prop
  | [], [] => True
  | (q, n) :: a, (q', n') :: b => q = q' ∧ (n = -1 ∨ n = Int.ofNat n') ∧ BlanksAgree a b
  | _, _ => False

/-- the fields C17 compares: outcome kind, non-blank cells, rule applications, blank record -/
def RunAgree (r : PyResult) (r' : MachineResult) : Prop :=
  rsKind r'.result = some r.kind ∧ r.marks = r'.marks ∧ r.rulapp = r'.rulapp
    ∧ BlanksAgree r.blanks r'.blanks

/-- the two step counters: Python's is undefined (-1) or equal to Rust's -/
def StepsAgree (n : Int) (n' : Nat) : Prop := n = -1 ∨ n = Int.ofNat n'

/-- the simulation relation between the loop states -/
structure Rel (s : PyState) (s' : PState) : Prop where
  tape   : s.tape = s'.tape
  prover : s.prover = s'.prover
  state  : s.state = s'.state
  rulapp : s.rulapp = s'.rulapp
  blanks : BlanksAgree s.blanks s'.blanks
  steps  : StepsAgree s.step s'.steps

theorem rel_init : Rel PyState.init PState.init :=
  ⟨rfl, rfl, rfl, rfl, trivial, Or.inr rfl⟩

/-! ### the blank record -/

theorem blanks_contains {a : PyBlanks} {b : Blanks} (h : BlanksAgree a b) (q : Nat) :
    a.contains q = b.contains q := by
  induction a generalizing b with
  | nil =>
    cases b with
    | nil => rfl
    | cons y ys => cases y; simp [BlanksAgree] at h
  | cons x xs ih =>
    obtain ⟨k, v⟩ := x
    cases b with
    | nil => simp [BlanksAgree] at h
    | cons y ys =>
      obtain ⟨k', v'⟩ := y
      simp only [BlanksAgree] at h
      obtain ⟨hk, _, hr⟩ := h
      subst hk
      have := ih hr
      simp only [PyBlanks.contains, Blanks.contains, List.any_cons] at this ⊢
      rw [this]

theorem blanks_insert {a : PyBlanks} {b : Blanks} (h : BlanksAgree a b) (q : Nat) {n : Int}
    {n' : Nat} (hn : n = -1 ∨ n = Int.ofNat n') :
    BlanksAgree (a.insert q n) (b.insert q n') := by
  induction a generalizing b with
  | nil =>
    cases b with
    | nil => simpa [PyBlanks.insert, Blanks.insert, BlanksAgree] using hn
    | cons y ys => cases y; simp [BlanksAgree] at h
  | cons x xs ih =>
    obtain ⟨k, v⟩ := x
    cases b with
    | nil => simp [BlanksAgree] at h
    | cons y ys =>
      obtain ⟨k', v'⟩ := y
      simp only [BlanksAgree] at h
      obtain ⟨hk, hv, hr⟩ := h
      subst hk
      simp only [PyBlanks.insert, Blanks.insert]
      by_cases h1 : (k == q) = true
      · simp only [h1, if_true, BlanksAgree]
        exact ⟨trivial, hn, hr⟩
      · simp only [h1, Bool.false_eq_true, if_false]
        by_cases h2 : q < k
        · simp only [h2, if_true, BlanksAgree]
          exact ⟨trivial, hn, trivial, hv, hr⟩
        · simp only [h2, if_false, BlanksAgree]
          exact ⟨trivial, hv, ih hr⟩

/-! ### relating the iterations -/

/-- how one loop iteration of the Python model relates to one of the Rust model -/
inductive IterRel : PyIter → PStep → Prop
  | pyFail (e : PyStop) (x : PStep) : IterRel (.fail e) x
  | rsFail (x : PyIter) (e : PErr) : IterRel x (.fail e)
  | rsLimit (x : PyIter) (res : TermRes) (ls : Option Slot) (c : Bool) (s' : PState)
      (h : rsKind res = none) : IterRel x (.done res ls c s')
  | done (kind : PyKind) (res : TermRes) (ls ls' : Option Slot) (c : Bool) (s : PyState)
      (s' : PState) (hk : rsKind res = some kind) (hr : Rel s s') :
      IterRel (.done kind ls s) (.done res ls' c s')
  | cont (s : PyState) (s' : PState) (app : Option RuleApp) (hr : Rel s s') :
      IterRel (.cont s) (.cont s' app)

theorem stepAgree_eq {t : Tape} {d : Bool} {c : Nat} {sk : Bool} (h : stepAgree t d c sk = true) :
    pyStep t d c sk = t.step d c sk := by
  simpa [stepAgree] using h

/-- the plain machine step of the two loop bodies -/
theorem stepIter_rel (p : Prog) {s : PyState} {s' : PState} (hr : Rel s s')
    (hs : ∀ color shift next, p.get (s.state, s.tape.scan) = some (color, shift, next) →
      stepAgree s.tape shift color (s.state == next) = true) :
    IterRel (pyStepIter p s) (proverStepIter p s') := by
  obtain ⟨ht, hp, hst, hra, hb, hsteps⟩ := hr
  unfold pyStepIter proverStepIter
  rw [← ht, ← hst]
  cases hg : p.get (s.state, s.tape.scan) with
  | none =>
    exact .done _ _ _ _ _ _ _ rfl ⟨ht, hp, hst, hra, hb, hsteps⟩
  | some ins =>
    obtain ⟨color, shift, next⟩ := ins
    simp only []
    by_cases hsp : (s.state == next && s.tape.atEdge shift) = true
    · simp only [hsp, if_true]
      exact .done _ _ _ _ _ _ _ rfl ⟨ht, hp, hst, hra, hb, hsteps⟩
    · simp only [hsp, Bool.false_eq_true, if_false]
      have hstep := stepAgree_eq (hs color shift next hg)
      cases hck : s.tape.stepCk shift color (s.state == next) with
      | error e => exact .rsFail _ _
      | ok ts =>
        obtain ⟨tape', stepped⟩ := ts
        have hts : s.tape.step shift color (s.state == next) = (tape', stepped) := by
          unfold Tape.stepCk at hck
          generalize s.tape.step shift color (s.state == next) = q at hck
          obtain ⟨a, b⟩ := q
          simp only [] at hck
          split at hck
          · cases hck
          · split at hck
            · split at hck
              · cases hck
              · injection hck
            · injection hck
        rw [hstep, hts]
        simp only []
        cases hu : u64Ck (s'.steps + stepped) with
        | error e => exact .rsFail _ _
        | ok steps' =>
          have hsteps' : steps' = s'.steps + stepped := by
            unfold u64Ck at hu
            split at hu
            · cases hu
            · injection hu with h; exact h.symm
          simp only []
          have hstepsAgree : StepsAgree (if s.step != -1 then s.step + (stepped : Int) else s.step)
              steps' := by
            rcases hsteps with h | h
            · left; simp [h]
            · right
              subst hsteps'
              rw [h]
              have hne : ((Int.ofNat s'.steps) != -1) = true := by
                simp only [bne_iff_ne, ne_eq, Int.ofNat_eq_natCast]; omega
              rw [if_pos hne]
              simp only [Int.ofNat_eq_natCast, Int.natCast_add]
          rw [blanks_contains hb next]
          by_cases hbl : (color == 0 && tape'.blank) = true
          · simp only [hbl, if_true]
            by_cases hc : s'.blanks.contains next = true
            · simp only [hc, if_true]
              exact .done _ _ _ _ _ _ _ rfl ⟨rfl, hp, rfl, hra, hb, hstepsAgree⟩
            · simp only [hc, Bool.false_eq_true, if_false]
              have hb' := blanks_insert hb next hstepsAgree
              by_cases hz : (next == 0) = true
              · simp only [hz, if_true]
                exact .done _ _ _ _ _ _ _ rfl ⟨rfl, hp, rfl, hra, hb', hstepsAgree⟩
              · simp only [hz, Bool.false_eq_true, if_false]
                exact .cont _ _ _ ⟨rfl, hp, rfl, hra, hb', hstepsAgree⟩
          · simp only [hbl, Bool.false_eq_true, if_false]
            exact .cont _ _ _ ⟨rfl, hp, rfl, hra, hb, hstepsAgree⟩

end BB.PyM
