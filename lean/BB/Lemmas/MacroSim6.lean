/-
C09, part 1: definitions for the backsymbol macro (window = scanned cell + `k` remembered cells,
macro tape mirrored) and the backsymbol macro instruction (`pureInstr`, `kind = .backsymbol`,
`fixF3 = true`) against L0.
-/
import BB.Lemmas.MacroSim4

namespace BB.MacroSim

open BB BB.Macros

/-! ## Definitions used by the statements of C09 -/

/-- base state of a backsymbol macro state `ms = atRight + 2 * (q * C^k + span)` -/
def bsState (lp : LogicParams) (ms : Nat) : Nat := ms / 2 / lp.backsymbols

/-- the `k` remembered cells of a backsymbol macro state, left to right -/
def bsSpan (lp : LogicParams) (ms : Nat) : MTape :=
  decode lp.baseColors lp.cells (ms / 2 % lp.backsymbols)

/-- the `k + 1`-cell window of slot `(ms, mc)`: the remembered cells lie right of the scanned cell
    `mc` when `ms % 2 = 1` (head on the window's left end) and left of it when `ms % 2 = 0`
    (head on the window's right end). -/
def bsTape (lp : LogicParams) (ms mc : Nat) : MTape :=
  if ms % 2 == 1 then mc :: bsSpan lp ms else bsSpan lp ms ++ [mc]

/-- is the head on the window's right end? -/
def bsRe (ms : Nat) : Bool := !(ms % 2 == 1)

/-- the window just AFTER the macro step that printed `mc'` and went to macro state `ms'`: the
    base head has left it; `mc'` is the cell that drops out of the new window: the far end cell.
    `ms' % 2 = 1`: left through the left side, the remembered cells are the `k` left ones. -/
def bsExitTape (lp : LogicParams) (ms' mc' : Nat) : MTape :=
  if ms' % 2 == 1 then bsSpan lp ms' ++ [mc'] else mc' :: bsSpan lp ms'

/-- **Decoding a backsymbol-macro configuration.**  Macro colours are base colours.  The macro tape
    is MIRRORED: the macro's right half-tape holds the base cells LEFT of the window and vice
    versa (leaving the window to the right is a macro LEFT shift). -/
def decCfgB (lp : LogicParams) (c : Cfg) : Cfg :=
  enterCfg (bsState lp c.state) (bsRe c.state) (bsTape lp c.state c.scan) c.right c.left

/-- the head is in the window at all of the steps `0 .. n`, for some `n ≥ m` -/
def StaysFor (p : ProgF) (k : Nat) (outL outR : List Nat) (m : Nat) (c : Cfg) : Prop :=
  ∃ n c', m ≤ n ∧ RunsIn p k outL outR n c c' ∧ InWindow k outL outR c'

/-- all cells of the macro tape are base colours -/
def CellsBelow (C : Nat) (c : Cfg) : Prop :=
  c.scan < C ∧ (∀ x ∈ c.left, x < C) ∧ (∀ x ∈ c.right, x < C)

instance (C : Nat) (c : Cfg) : Decidable (CellsBelow C c) := by
  unfold CellsBelow; infer_instance

/-! ### window length without any closure hypothesis -/

def wlen (w : Win) : Nat := w.left.length + w.right.length + 1

def LLen (n : Nat) : LStep → Prop
  | .halt => True
  | .exit _ _ t => t.length = n
  | .cont _ w' => wlen w' = n

theorem lstep_len (p : ProgF) (q : Nat) (w : Win) : LLen (wlen w) (lstep p q w) := by
  obtain ⟨left, s, right⟩ := w
  simp only [lstep]
  cases p q s with
  | none => trivial
  | some i =>
    obtain ⟨pr, sh, q'⟩ := i
    cases sh with
    | true => cases right <;> simp [LLen, wlen] <;> omega
    | false => cases left <;> simp [LLen, wlen] <;> omega

theorem LRun_len {p : ProgF} {n q : Nat} {w : Win} {r : LStep} (h : LRun p n q w r) :
    LLen (wlen w) r := by
  induction h with
  | one h => subst h; exact lstep_len _ _ _
  | @step n q w q' w' r h1 _ ih =>
    have := lstep_len p q w
    rw [h1] at this
    simp only [LLen] at this
    rw [← this]
    exact ih

theorem simLoop_len {p : ProgF} {fuel q : Nat} {w : Win} {q' : Nat} {d : Bool} {t : MTape}
    {u : Unit} (h : simLoop (pureGet (innerOf p)) fuel () q w = .ok (some (q', (d, t)), u)) :
    t.length = wlen w := by
  induction fuel generalizing q w with
  | zero => simp [simLoop] at h
  | succ fuel ih =>
    rw [simLoop_succ] at h
    obtain ⟨n, hrun⟩ := iterStep_LRun p q w
    have hl := LRun_len hrun
    cases hit : iterStep p q w with
    | halt => rw [hit] at h; simp at h
    | exit q1 d1 t1 =>
      rw [hit] at h hl
      simp only [Except.ok.injEq, Prod.mk.injEq, Option.some.injEq] at h
      obtain ⟨⟨_, _, rfl⟩, _⟩ := h
      exact hl
    | cont q1 w1 =>
      rw [hit] at h hl
      simp only [LLen] at hl
      rw [← hl]
      exact ih h

/-! ### the repaired `reconstruct_outputs` -/

theorem recon_fix (lp : LogicParams) (hk : lp.kind = .backsymbol) (q' : Nat) (d : Bool)
    {t : MTape} (ht : t.length = lp.cells + 1) :
    ∃ mc' bs', bs'.length = lp.cells ∧ t = (if d then mc' :: bs' else bs' ++ [mc']) ∧
      pureReconstructOutputs lp (q', (d, t)) true =
        .ok (mc', !d, (if d then 0 else 1) + 2 * (q' * lp.backsymbols + encode lp.baseColors bs')) := by
  cases d with
  | true =>
    cases t with
    | nil => simp at ht
    | cons x r =>
      refine ⟨x, r, by simpa using ht, rfl, ?_⟩
      simp [pureReconstructOutputs, hk, backsymbolSplit, splitAt, head0]
  | false =>
    have h1 : (t.take lp.cells).length = lp.cells := by simp [ht]
    have h2 : (t.drop lp.cells).length = 1 := by simp [ht]
    obtain ⟨c, hc⟩ : ∃ c, t.drop lp.cells = [c] := by
      cases hd : t.drop lp.cells with
      | nil => rw [hd] at h2; simp at h2
      | cons c r =>
        rw [hd] at h2
        cases r with
        | nil => exact ⟨c, rfl⟩
        | cons _ _ => simp at h2
    refine ⟨c, t.take lp.cells, h1, ?_, ?_⟩
    · simp only [Bool.false_eq_true, if_false]
      rw [← hc, List.take_append_drop]
    · have hn : ¬ (lp.cells > t.length) := by omega
      simp [pureReconstructOutputs, hk, backsymbolSplit, splitAt, hn, hc, head0]

/-! ### the backsymbol instruction -/

theorem bs_cfg_eq (lp : LogicParams) (ms mc : Nat) :
    (if ms % 2 == 1 then (false, mc :: bsSpan lp ms) else (true, bsSpan lp ms ++ [mc])) =
      (bsRe ms, bsTape lp ms mc) := by
  simp only [bsRe, bsTape]
  cases ms % 2 == 1 <;> rfl

theorem pureInstr_backsym {p : ProgF} {lp : LogicParams} (f : Bool) {ms mc : Nat}
    (hk : lp.kind = .backsymbol) (hB : lp.backsymbols ≠ 0) {w : Win}
    (hw : (if bsRe ms then Win.atRight (bsTape lp ms mc) else Win.atLeft (bsTape lp ms mc)) = some w) :
    pureInstr (innerOf p) lp f (ms, mc) =
      match simLoop (pureGet (innerOf p)) lp.simLim () (bsState lp ms) w with
      | .error e => .error e
      | .ok (none, _) => .ok none
      | .ok (some out, _) =>
        match pureReconstructOutputs lp out f with
        | .error e => .error e
        | .ok instr => .ok (some instr) := by
  have hB' : (lp.backsymbols == 0) = false := by simpa using hB
  simp only [pureInstr, pureDeconstructInputs, hk, hB', Bool.false_eq_true, if_false]
  have := bs_cfg_eq lp ms mc
  simp only [bsSpan] at this
  rw [this]
  rw [runSimulator_eq _ _ _ _ _ _ hw]
  rfl

theorem backsymbols_pos {lp : LogicParams} (hC : 0 < lp.baseColors) : 0 < lp.backsymbols :=
  Nat.pow_pos hC

theorem bsTape_length (lp : LogicParams) (ms mc : Nat) : (bsTape lp ms mc).length = lp.cells + 1 := by
  simp only [bsTape, bsSpan]
  split <;> simp [decode_length]

theorem bsTape_lt {lp : LogicParams} (hC : 0 < lp.baseColors) (ms : Nat) {mc : Nat}
    (hmc : mc < lp.baseColors) : ∀ x ∈ bsTape lp ms mc, x < lp.baseColors := by
  intro x hx
  simp only [bsTape, bsSpan] at hx
  split at hx
  · rcases List.mem_cons.1 hx with rfl | hx
    · exact hmc
    · exact decode_lt hC _ _ x hx
  · rcases List.mem_append.1 hx with hx | hx
    · exact decode_lt hC _ _ x hx
    · simp only [List.mem_singleton] at hx; subst hx; exact hmc

theorem bsState_lt {lp : LogicParams} (hC : 0 < lp.baseColors) {ms : Nat}
    (hms : ms < 2 * lp.baseStates * lp.backsymbols) : bsState lp ms < lp.baseStates := by
  have hB := backsymbols_pos hC
  rw [bsState, Nat.div_lt_iff_lt_mul hB]
  rw [Nat.mul_assoc] at hms
  omega

/-- arithmetic of the new macro state -/
theorem bs_state_arith {B S q' enc e : Nat} (he : e ≤ 1) (henc : enc < B) (hq : q' < S) :
    (e + 2 * (q' * B + enc)) / 2 / B = q' ∧ (e + 2 * (q' * B + enc)) / 2 % B = enc ∧
      (e + 2 * (q' * B + enc)) % 2 = e ∧ e + 2 * (q' * B + enc) < 2 * S * B := by
  have hB : 0 < B := by omega
  have h1 : (e + 2 * (q' * B + enc)) / 2 = q' * B + enc := by omega
  have h2 : (q' * B + enc) / B = q' := by
    rw [Nat.mul_comm, Nat.mul_add_div hB, Nat.div_eq_of_lt henc, Nat.add_zero]
  have h3 : (q' * B + enc) % B = enc := by
    rw [Nat.mul_comm, Nat.mul_add_mod, Nat.mod_eq_of_lt henc]
  have h4 : (q' + 1) * B ≤ S * B := Nat.mul_le_mul_right B hq
  rw [Nat.add_mul, Nat.one_mul] at h4
  rw [h1, h2, h3]
  refine ⟨rfl, rfl, by omega, ?_⟩
  rw [Nat.mul_assoc]
  omega

/-- **backsym_instr_some_fixF3** (lemma form) -/
theorem backsym_instr_some' (p : ProgF) (lp : LogicParams) (ms mc mc' ms' : Nat) (sh : Bool)
    (hk : lp.kind = .backsymbol) (hC : 0 < lp.baseColors)
    (hms : ms < 2 * lp.baseStates * lp.backsymbols) (hmc : mc < lp.baseColors)
    (hcl : closedB p lp.baseStates lp.baseColors = true)
    (h : pureInstr (innerOf p) lp true (ms, mc) = .ok (some (mc', sh, ms'))) (oL oR : List Nat) :
    ∃ n, 1 ≤ n ∧
      RunsIn p (lp.cells + 1) oL oR n
        (enterCfg (bsState lp ms) (bsRe ms) (bsTape lp ms mc) oL oR)
        (exitCfg (bsState lp ms') (!sh) (bsExitTape lp ms' mc') oL oR) ∧
      ms' % 2 = (if sh then 1 else 0) ∧ ms' < 2 * lp.baseStates * lp.backsymbols ∧
      mc' < lp.baseColors := by
  have hB := backsymbols_pos hC
  obtain ⟨w, hw, hemb, hval⟩ := enter_window (bsState lp ms) (bsRe ms)
    (bsTape_length lp ms mc) (Nat.le_add_left 1 lp.cells) oL oR
  have hv := hval lp.baseStates lp.baseColors (bsState_lt hC hms) (bsTape_lt hC ms hmc)
  rw [pureInstr_backsym true hk (by omega) hw] at h
  cases hs : simLoop (pureGet (innerOf p)) lp.simLim () (bsState lp ms) w with
  | error e => rw [hs] at h; cases h
  | ok r =>
    obtain ⟨o, u⟩ := r
    cases o with
    | none => rw [hs] at h; cases h
    | some out =>
      obtain ⟨q', d, t⟩ := out
      rw [hs] at h
      obtain ⟨n, hn, hq', hlen, hlt, hr⟩ :=
        simLoop_some (closed_of_closedB hcl) oL oR hv hs
      rw [hemb] at hr
      obtain ⟨x, bs', hbl, ht, hrec⟩ := recon_fix lp hk q' d hlen
      simp only [hrec, Except.ok.injEq, Option.some.injEq, Prod.mk.injEq] at h
      obtain ⟨rfl, rfl, rfl⟩ := h
      have hbs : ∀ y ∈ bs', y < lp.baseColors := by
        intro y hy
        apply hlt y
        rw [ht]
        split <;> simp [hy]
      have hx : x < lp.baseColors := by
        apply hlt x
        rw [ht]
        split <;> simp
      have henc : encode lp.baseColors bs' < lp.backsymbols := by
        have := encode_lt hbs
        rwa [hbl] at this
      obtain ⟨a1, a2, a3, a4⟩ := bs_state_arith (B := lp.backsymbols) (S := lp.baseStates)
        (q' := q') (enc := encode lp.baseColors bs') (e := if d then 0 else 1)
        (by split <;> omega) henc hq'
      refine ⟨n, hn, ?_, ?_, a4, hx⟩
      · have e1 : bsState lp ((if d = true then 0 else 1) +
            2 * (q' * lp.backsymbols + encode lp.baseColors bs')) = q' := a1
        have e2 : bsExitTape lp ((if d = true then 0 else 1) +
            2 * (q' * lp.backsymbols + encode lp.baseColors bs')) x = t := by
          simp only [bsExitTape, bsSpan, a2, a3, decode_encode hbl hbs, ht]
          cases d <;> simp
        rw [e1, e2, Bool.not_not]
        exact hr
      · rw [a3]; cases d <;> simp

/-- **backsym_instr_no_error_fixF3** (lemma form): with the repaired split index the backsymbol
    macro instruction is never an error, for every slot and base program (`C ≥ 1`). -/
theorem backsym_instr_no_error' (p : ProgF) (lp : LogicParams) (slot : Slot) (e : Err)
    (hk : lp.kind = .backsymbol) (hC : 0 < lp.baseColors) :
    pureInstr (innerOf p) lp true slot ≠ .error e := by
  obtain ⟨ms, mc⟩ := slot
  have hB := backsymbols_pos hC
  obtain ⟨w, hw, _, hval⟩ := enter_window (bsState lp ms) (bsRe ms)
    (bsTape_length lp ms mc) (Nat.le_add_left 1 lp.cells) [] []
  have hwl : wlen w = lp.cells + 1 :=
    (hval (bsState lp ms + 1) (mc + lp.baseColors + 1) (Nat.lt_succ_self _) (by
      intro x hx
      simp only [bsTape, bsSpan] at hx
      split at hx
      · rcases List.mem_cons.1 hx with rfl | hx
        · omega
        · have := decode_lt hC _ _ x hx; omega
      · rcases List.mem_append.1 hx with hx | hx
        · have := decode_lt hC _ _ x hx; omega
        · simp only [List.mem_singleton] at hx; omega)).hlen
  rw [pureInstr_backsym true hk (by omega) hw]
  cases hs : simLoop (pureGet (innerOf p)) lp.simLim () (bsState lp ms) w with
  | error e' => exact absurd hs (simLoop_no_error _ _ _ _ _)
  | ok r =>
    obtain ⟨o, u⟩ := r
    cases o with
    | none => simp
    | some out =>
      obtain ⟨q', d, t⟩ := out
      have hlen := simLoop_len hs
      rw [hwl] at hlen
      obtain ⟨x, bs', _, _, hrec⟩ := recon_fix lp hk q' d hlen
      simp [hrec]

end BB.MacroSim
