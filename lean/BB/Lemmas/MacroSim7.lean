/-
C09, part 2: undefined backsymbol slots; the backsymbol macro machine against the base machine.
-/
import BB.Lemmas.MacroSim6
import BB.Lemmas.MacroSim5

namespace BB.MacroSim

open BB BB.Macros

theorem bsExitTape_length (lp : LogicParams) (ms mc : Nat) :
    (bsExitTape lp ms mc).length = lp.cells + 1 := by
  simp only [bsExitTape, bsSpan]
  split <;> simp [decode_length]

theorem simLim_backsym {lp : LogicParams} (hk : lp.kind = .backsymbol) :
    lp.simLim = 2 * lp.baseStates * lp.baseColors ^ lp.cells * lp.baseColors := by
  simp [LogicParams.simLim, LogicParams.macroColors, LogicParams.macroStates,
    LogicParams.backsymbols, hk]

/-- for `k ≤ 1` remembered cells `sim_lim` reaches the number of window configurations -/
theorem simLim_backsym_enough {lp : LogicParams} (hk : lp.kind = .backsymbol)
    (hc : lp.cells ≤ 1) :
    lp.baseStates * (lp.cells + 1) * lp.baseColors ^ (lp.cells + 1) ≤ lp.simLim := by
  rw [simLim_backsym hk, Nat.pow_succ]
  have h1 : lp.baseStates * (lp.cells + 1) ≤ lp.baseStates * 2 :=
    Nat.mul_le_mul_left _ (by omega)
  have h2 := Nat.mul_le_mul_right (lp.baseColors ^ lp.cells * lp.baseColors) h1
  have h3 : lp.baseStates * 2 * (lp.baseColors ^ lp.cells * lp.baseColors) =
      2 * lp.baseStates * lp.baseColors ^ lp.cells * lp.baseColors := by ac_rfl
  omega

/-- **backsym_instr_none (←)**, every `k` -/
theorem backsym_instr_none_of' (p : ProgF) (lp : LogicParams) (ms mc : Nat)
    (hk : lp.kind = .backsymbol) (hC : 0 < lp.baseColors)
    (hms : ms < 2 * lp.baseStates * lp.backsymbols) (hmc : mc < lp.baseColors)
    (hcl : closedB p lp.baseStates lp.baseColors = true) (oL oR : List Nat)
    (h : HaltsInside p (lp.cells + 1) oL oR
          (enterCfg (bsState lp ms) (bsRe ms) (bsTape lp ms mc) oL oR) ∨
        NeverLeaves p (lp.cells + 1) oL oR
          (enterCfg (bsState lp ms) (bsRe ms) (bsTape lp ms mc) oL oR)) :
    pureInstr (innerOf p) lp true (ms, mc) = .ok none := by
  cases hp : pureInstr (innerOf p) lp true (ms, mc) with
  | error e => exact absurd hp (backsym_instr_no_error' p lp _ e hk hC)
  | ok o =>
    cases o with
    | none => rfl
    | some i =>
      obtain ⟨mc', sh, ms'⟩ := i
      obtain ⟨n, _, hr, _, _, _⟩ := backsym_instr_some' p lp ms mc mc' ms' sh hk hC hms hmc hcl hp oL oR
      have hex := exit_excludes hr
        (exitCfg_not_inWindow _ _ (bsExitTape_length lp ms' mc') oL oR)
      rcases h with h | h
      · exact absurd h hex.1
      · exact absurd h hex.2

/-- the loop's answer `None`, every `k`: halted inside, or still inside after `sim_lim` iterations -/
theorem backsym_instr_none_cases' (p : ProgF) (lp : LogicParams) (ms mc : Nat)
    (hk : lp.kind = .backsymbol) (hC : 0 < lp.baseColors)
    (hms : ms < 2 * lp.baseStates * lp.backsymbols) (hmc : mc < lp.baseColors)
    (hcl : closedB p lp.baseStates lp.baseColors = true) (oL oR : List Nat)
    (h : pureInstr (innerOf p) lp true (ms, mc) = .ok none) :
    ∃ w, embed (bsState lp ms) w oL oR =
        enterCfg (bsState lp ms) (bsRe ms) (bsTape lp ms mc) oL oR ∧
      Valid lp.baseStates lp.baseColors (lp.cells + 1) (bsState lp ms) w ∧
      (HaltsInside p (lp.cells + 1) oL oR
          (enterCfg (bsState lp ms) (bsRe ms) (bsTape lp ms mc) oL oR) ∨
        ∃ x, sweepIter p lp.simLim (bsState lp ms) w = some x) := by
  have hB := backsymbols_pos hC
  obtain ⟨w, hw, hemb, hval⟩ := enter_window (bsState lp ms) (bsRe ms)
    (bsTape_length lp ms mc) (Nat.le_add_left 1 lp.cells) oL oR
  have hv := hval lp.baseStates lp.baseColors (bsState_lt hC hms) (bsTape_lt hC ms hmc)
  refine ⟨w, hemb, hv, ?_⟩
  rw [pureInstr_backsym true hk (by omega) hw] at h
  rw [← hemb]
  cases hs : simLoop (pureGet (innerOf p)) lp.simLim () (bsState lp ms) w with
  | error e => rw [hs] at h; cases h
  | ok r =>
    obtain ⟨o, u⟩ := r
    cases o with
    | some out =>
      obtain ⟨q', d, t⟩ := out
      have hlen := simLoop_len hs
      have : wlen w = lp.cells + 1 := hv.hlen
      rw [this] at hlen
      obtain ⟨x, bs', _, _, hrec⟩ := recon_fix lp hk q' d hlen
      rw [hs] at h
      simp [hrec] at h
    | none =>
      rcases simLoop_none hs with ⟨i, qi, wi, _, h1, h2⟩ | hx
      · exact .inl (haltsInside_of_sweepIter (closed_of_closedB hcl) oL oR hv h1 h2)
      · exact .inr hx

/-- **backsym_instr_none (→)**, every `k`, weak form -/
theorem backsym_instr_none_weak' (p : ProgF) (lp : LogicParams) (ms mc : Nat)
    (hk : lp.kind = .backsymbol) (hC : 0 < lp.baseColors)
    (hms : ms < 2 * lp.baseStates * lp.backsymbols) (hmc : mc < lp.baseColors)
    (hcl : closedB p lp.baseStates lp.baseColors = true) (oL oR : List Nat)
    (h : pureInstr (innerOf p) lp true (ms, mc) = .ok none) :
    HaltsInside p (lp.cells + 1) oL oR
        (enterCfg (bsState lp ms) (bsRe ms) (bsTape lp ms mc) oL oR) ∨
      StaysFor p (lp.cells + 1) oL oR lp.simLim
        (enterCfg (bsState lp ms) (bsRe ms) (bsTape lp ms mc) oL oR) := by
  obtain ⟨w, hemb, hv, hcase⟩ := backsym_instr_none_cases' p lp ms mc hk hC hms hmc hcl oL oR h
  rcases hcase with hh | ⟨⟨qx, wx⟩, hx⟩
  · exact .inl hh
  · obtain ⟨hvx, n, hn, hr⟩ := sweepIter_post (closed_of_closedB hcl) oL oR hv hx
    rw [hemb] at hr
    exact .inr ⟨n, _, hn, hr, inWindow_embed oL oR hvx.hlen⟩

/-- **backsym_instr_none**, `k ≤ 1` -/
theorem backsym_instr_none_small' (p : ProgF) (lp : LogicParams) (ms mc : Nat)
    (hk : lp.kind = .backsymbol) (hc : lp.cells ≤ 1) (hC : 0 < lp.baseColors)
    (hms : ms < 2 * lp.baseStates * lp.backsymbols) (hmc : mc < lp.baseColors)
    (hcl : closedB p lp.baseStates lp.baseColors = true) (oL oR : List Nat) :
    pureInstr (innerOf p) lp true (ms, mc) = .ok none ↔
      (HaltsInside p (lp.cells + 1) oL oR
          (enterCfg (bsState lp ms) (bsRe ms) (bsTape lp ms mc) oL oR) ∨
        NeverLeaves p (lp.cells + 1) oL oR
          (enterCfg (bsState lp ms) (bsRe ms) (bsTape lp ms mc) oL oR)) := by
  constructor
  · intro h
    obtain ⟨w, hemb, hv, hcase⟩ := backsym_instr_none_cases' p lp ms mc hk hC hms hmc hcl oL oR h
    rcases hcase with hh | ⟨x, hx⟩
    · exact .inl hh
    · rw [← hemb]
      exact .inr (neverLeaves_of_fuel (closed_of_closedB hcl) oL oR hv
        (simLim_backsym_enough hk hc) hx)
  · exact backsym_instr_none_of' p lp ms mc hk hC hms hmc hcl oL oR

/-! ### the backsymbol macro machine -/

theorem exitCfg_eq_decCfgB (lp : LogicParams) (c : Cfg) (mc' ms' : Nat) (sh : Bool)
    (hpar : ms' % 2 = (if sh then 1 else 0)) :
    exitCfg (bsState lp ms') (!sh) (bsExitTape lp ms' mc') c.right c.left =
      decCfgB lp (c.move mc' sh ms') := by
  cases sh with
  | true =>
    simp only [if_true] at hpar
    simp [exitCfg, decCfgB, Cfg.move, enterCfg, bsRe, bsTape, bsExitTape, hpar]
  | false =>
    simp only [Bool.false_eq_true, if_false] at hpar
    simp [exitCfg, decCfgB, Cfg.move, enterCfg, bsRe, bsTape, bsExitTape, hpar]

theorem init_equiv_decCfgB (lp : LogicParams) : Cfg.init ≈c decCfgB lp Cfg.init := by
  simp only [decCfgB, Cfg.init, enterCfg, bsRe, bsTape, bsSpan, bsState]
  simp only [Nat.zero_div, Nat.zero_mod, decode_zero]
  refine ⟨rfl, by simp, ?_, SameCells.refl _⟩
  simp only [show (0 == 1) = false from rfl, Bool.not_false, if_true, Bool.false_eq_true, if_false,
    List.reverse_append, List.reverse_cons, List.reverse_nil, List.nil_append, List.singleton_append,
    List.tail_cons, List.append_nil, List.reverse_replicate]
  exact sameCells_nil_left.2 (allZero_replicate_zero _)

theorem cellsBelow_move {C : Nat} (hC : 0 < C) {c : Cfg} (h : CellsBelow C c) {pr : Nat}
    (hpr : pr < C) (sh : Bool) (q : Nat) : CellsBelow C (c.move pr sh q) := by
  obtain ⟨_, hl, hr⟩ := h
  have hd : ∀ l : List Nat, (∀ x ∈ l, x < C) → l.headD 0 < C ∧ ∀ x ∈ l.tail, x < C := by
    intro l hl
    cases l with
    | nil => exact ⟨hC, by simp⟩
    | cons a r => exact ⟨hl a (by simp), fun x hx => hl x (List.mem_cons_of_mem _ hx)⟩
  cases sh with
  | true =>
    simp only [Cfg.move, if_true]
    exact ⟨(hd _ hr).1, fun x hx => by
      rcases List.mem_cons.1 hx with rfl | hx
      · exact hpr
      · exact hl x hx, (hd _ hr).2⟩
  | false =>
    simp only [Cfg.move, Bool.false_eq_true, if_false]
    exact ⟨(hd _ hl).1, (hd _ hl).2, fun x hx => by
      rcases List.mem_cons.1 hx with rfl | hx
      · exact hpr
      · exact hr x hx⟩

/-- **backsym_macro_step_fixF3** (lemma form) -/
theorem backsym_macro_step' (p : ProgF) (lp : LogicParams) (hk : lp.kind = .backsymbol)
    (hC : 0 < lp.baseColors) (hcl : closedB p lp.baseStates lp.baseColors = true) (c c' : Cfg)
    (hms : c.state < 2 * lp.baseStates * lp.backsymbols) (hcb : CellsBelow lp.baseColors c)
    (h : step1 (macroF p lp true) c = some c') :
    c'.state < 2 * lp.baseStates * lp.backsymbols ∧ CellsBelow lp.baseColors c' ∧
    ∃ n, 1 ≤ n ∧ RunsIn p (lp.cells + 1) c.right c.left n (decCfgB lp c) (decCfgB lp c') := by
  simp only [step1] at h
  cases hm : macroF p lp true c.state c.scan with
  | none => rw [hm] at h; cases h
  | some i =>
    obtain ⟨mc', sh, ms'⟩ := i
    rw [hm] at h
    simp only [Option.some.injEq] at h
    subst h
    obtain ⟨n, hn, hr, hpar, hlt, hmc'⟩ := backsym_instr_some' p lp c.state c.scan mc' ms' sh hk hC
      hms hcb.1 hcl (macroF_some hm) c.right c.left
    rw [exitCfg_eq_decCfgB lp c mc' ms' sh hpar] at hr
    exact ⟨by cases sh <;> simpa [Cfg.move] using hlt, cellsBelow_move hC hcb hmc' sh ms', n, hn, hr⟩

/-- the macro machine has no step exactly when the pure instruction is `none` -/
theorem backsym_macro_none_iff (p : ProgF) (lp : LogicParams) (hk : lp.kind = .backsymbol)
    (hC : 0 < lp.baseColors) (c : Cfg) :
    step1 (macroF p lp true) c = none ↔
      pureInstr (innerOf p) lp true (c.state, c.scan) = .ok none := by
  simp only [step1, macroF]
  cases hp : pureInstr (innerOf p) lp true (c.state, c.scan) with
  | error e => exact absurd hp (backsym_instr_no_error' p lp _ e hk hC)
  | ok o =>
    cases o with
    | none => simp
    | some i => obtain ⟨mc', d, ms'⟩ := i; simp

/-- **backsym_macro_run_fixF3** (lemma form) -/
theorem backsym_macro_run' (p : ProgF) (lp : LogicParams) (hk : lp.kind = .backsymbol)
    (hC : 0 < lp.baseColors) (hS : 0 < lp.baseStates)
    (hcl : closedB p lp.baseStates lp.baseColors = true) :
    ∀ (N : Nat) (C : Cfg), RunAt (macroF p lp true) N C →
      (C.state < 2 * lp.baseStates * lp.backsymbols ∧ CellsBelow lp.baseColors C) ∧
      ∃ t : Nat → Nat, t 0 = 0 ∧ (∀ i, i < N → t i < t (i + 1)) ∧
        ∀ i, i ≤ N → ∃ Ci b,
          RunAt (macroF p lp true) i Ci ∧ RunAt p (t i) b ∧ b ≈c decCfgB lp Ci := by
  intro N
  induction N with
  | zero =>
    intro C h
    simp only [RunAt, stepN_zero, Option.some.injEq] at h
    subst h
    have hB := backsymbols_pos hC
    refine ⟨⟨?_, by simp [Cfg.init, CellsBelow, hC]⟩, fun _ => 0, rfl, fun i hi => by omega,
      fun i hi => ?_⟩
    · have : 0 < lp.baseStates * lp.backsymbols := Nat.mul_pos hS hB
      simp only [Cfg.init, Nat.mul_assoc]
      omega
    · obtain rfl : i = 0 := by omega
      exact ⟨Cfg.init, Cfg.init, rfl, rfl, init_equiv_decCfgB lp⟩
  | succ N ih =>
    intro C h
    simp only [RunAt] at h
    rw [stepN_succ_last] at h
    cases h0 : stepN (macroF p lp true) N Cfg.init with
    | none => rw [h0] at h; cases h
    | some C0 =>
      rw [h0] at h
      simp only [Option.bind_some] at h
      obtain ⟨⟨hms, hcb⟩, t, ht0, hmono, hall⟩ := ih C0 h0
      obtain ⟨hms', hcb', n, hn, hr⟩ := backsym_macro_step' p lp hk hC hcl C0 C hms hcb h
      obtain ⟨Ci, b, h1, h2, h3⟩ := hall N (Nat.le_refl _)
      have : Ci = C0 := by
        have := h1.symm.trans h0
        simpa using this
      subst this
      obtain ⟨b'', h4, h5⟩ := stepN_congr h3.symm hr.1
      refine ⟨⟨hms', hcb'⟩, fun i => if i ≤ N then t i else t N + n, by simp [ht0], ?_, ?_⟩
      · intro i hi
        by_cases hiN : i + 1 ≤ N
        · simp only [hiN, show i ≤ N by omega, if_true]
          exact hmono i (by omega)
        · obtain rfl : i = N := by omega
          simp only [Nat.le_refl, if_true, hiN, if_false]
          omega
      · intro i hi
        by_cases hiN : i ≤ N
        · simp only [hiN, if_true]
          exact hall i hiN
        · obtain rfl : i = N + 1 := by omega
          simp only [hiN, if_false]
          refine ⟨C, b'', ?_, stepN_add_of_eq h2 h4, h5.symm⟩
          simp only [RunAt]
          rw [stepN_succ_last, h0]
          exact h

/-! ### uniqueness of the exit (for the F3 witness) -/

theorem exit_unique {p : ProgF} {k : Nat} {oL oR : List Nat} {n m : Nat} {c e e' : Cfg}
    (h : RunsIn p k oL oR n c e) (he : ¬ InWindow k oL oR e)
    (h' : RunsIn p k oL oR m c e') (he' : ¬ InWindow k oL oR e') : n = m ∧ e = e' := by
  have key : ∀ {n m : Nat} {e e' : Cfg}, RunsIn p k oL oR n c e → ¬ InWindow k oL oR e →
      RunsIn p k oL oR m c e' → ¬ n < m := by
    intro n m e e' h he h' hlt
    obtain ⟨ci, h1, h2⟩ := h'.2 n hlt
    have := h.1.symm.trans h1
    simp only [Option.some.injEq] at this
    subst this
    exact he h2
  have h1 := key h he h'
  have h2 := key h' he' h
  obtain rfl : n = m := by omega
  have := h.1.symm.trans h'.1
  simp only [Option.some.injEq] at this
  exact ⟨rfl, this⟩

end BB.MacroSim
