/-
`run_quick_machine`, second part: nothing is missed inside a sweep.  The blank record holds the
FIRST step at which the tape is blank in each state, it is complete up to the reported step, and
no spin-out configuration / undefined instruction occurs before the reported step.
-/
import BB.Lemmas.RunQuick

namespace BB

theorem RunAt.unique {p : ProgF} {n : Nat} {c c' : Cfg} (h : RunAt p n c) (h' : RunAt p n c') :
    c = c' := Option.some.inj (h.symm.trans h')

/-! ### Blanks -/

theorem Blanks.contains_of_mem {b : Blanks} {q n : Nat} (h : (q, n) ∈ b) :
    b.contains q = true := by
  simp only [Blanks.contains, List.any_eq_true, beq_iff_eq]
  exact ⟨(q, n), h, rfl⟩

theorem Blanks.mem_insert_self (b : Blanks) (q n : Nat) : (q, n) ∈ Blanks.insert b q n := by
  induction b with
  | nil => simp [Blanks.insert]
  | cons kv rest ih =>
    obtain ⟨k, v⟩ := kv
    simp only [Blanks.insert]
    split
    · exact List.mem_cons_self
    · split
      · exact List.mem_cons_self
      · exact List.mem_cons_of_mem _ ih

theorem Blanks.mem_insert_of_mem {b : Blanks} {q n : Nat} {x : Nat × Nat} (h : x ∈ b)
    (hq : x.1 ≠ q) : x ∈ Blanks.insert b q n := by
  induction b with
  | nil => cases h
  | cons kv rest ih =>
    obtain ⟨k, v⟩ := kv
    simp only [Blanks.insert]
    split
    · next hk =>
      simp only [beq_iff_eq] at hk
      cases h with
      | head => exact absurd hk hq
      | tail _ h' => exact List.mem_cons_of_mem _ h'
    · split
      · exact List.mem_cons_of_mem _ h
      · cases h with
        | head => exact List.mem_cons_self
        | tail _ h' => exact List.mem_cons_of_mem _ (ih h')

/-! ### inside a model step, on the real run -/

/-- the real machine inside one iteration: `j` steps after the cycle boundary, `j` below the number
    of cells stepped -/
theorem QInv.mid {p : Prog} {s : QState} (inv : QInv p s) {color : Nat} {shift : Bool}
    {next : Nat} (h : p.get (s.state, s.tape.scan) = some (color, shift, next)) (j : Nat)
    (hj : j < (s.tape.step shift color (s.state == next)).2) :
    ∃ c0, RunAt p.toF (s.steps + j) c0 ∧ c0.state = s.state ∧ c0.scan = s.tape.scan ∧
      (s.tape.scan = 0 → AllZero (if shift then c0.right else c0.left) →
        s.tape.atEdge shift = true) ∧
      (0 < j → ¬ c0.Blank) := by
  obtain ⟨c, hrun, hc⟩ := inv.run
  have hi : p.toF s.state s.tape.scan = some (color, shift, next) := h
  obtain ⟨c1, hc1, hs, hsc, hz, hb⟩ :=
    Tape.step_mid p.toF s.tape s.state color shift next inv.canon hi j hj
  obtain ⟨c2, hc2, e2⟩ := stepN_congr hc.symm hc1
  refine ⟨c2, stepN_add_of_eq hrun hc2, e2.1.symm.trans hs, e2.2.1.symm.trans hsc, ?_, ?_⟩
  · intro h0 ha
    apply hz h0
    cases shift
    · exact e2.2.2.1.symm.allZero ha
    · exact e2.2.2.2.symm.allZero ha
  · intro hj0 hb2
    exact hb hj0 (e2.symm.blank hb2)

/-! ### the second invariant -/

/-- a blank tape in state `q` after exactly `m` steps -/
def BlankIn (p : ProgF) (m q : Nat) : Prop := ∃ c, RunAt p m c ∧ c.state = q ∧ c.Blank

structure QInv2 (p : Prog) (s : QState) : Prop where
  first : ∀ q n, (q, n) ∈ s.blanks → ∀ m, 0 < m → m < n → ¬ BlankIn p.toF m q
  complete : ∀ m q, 0 < m → m ≤ s.steps → BlankIn p.toF m q → ∃ n, n ≤ m ∧ (q, n) ∈ s.blanks
  noSpin : ∀ m c, m < s.steps → RunAt p.toF m c → ¬ SpinOutCfg p.toF c

theorem QInv2.init (p : Prog) : QInv2 p QState.init where
  first := fun _ _ h => nomatch h
  complete := fun m _ h0 h1 _ => by
    have : m ≤ 0 := h1
    omega
  noSpin := fun m _ h => by
    have : m < 0 := h
    omega

structure QDone2 (p : Prog) (res : TermRes) (s' : QState) : Prop where
  first : ∀ q n, (q, n) ∈ s'.blanks → ∀ m, 0 < m → m < n → ¬ BlankIn p.toF m q
  complete : res ≠ .overflow →
    ∀ m q, 0 < m → m ≤ s'.steps → BlankIn p.toF m q → ∃ n, n ≤ m ∧ (q, n) ∈ s'.blanks
  noSpin : res ≠ .overflow → ∀ m c, m < s'.steps → RunAt p.toF m c → ¬ SpinOutCfg p.toF c

def QStepSpec2 (p : Prog) : QStep → Prop
  | .cont s' => QInv2 p s'
  | .done res _ _ s' => QDone2 p res s'

/-- facts about one model step that does not stop on spin-out, with the step result abstracted -/
theorem QInv2.step_facts {p : Prog} {s : QState} (inv : QInv p s) (inv2 : QInv2 p s)
    {color : Nat} {shift : Bool} {next : Nat}
    (hget : p.get (s.state, s.tape.scan) = some (color, shift, next))
    (hedge : ¬ (s.state == next && s.tape.atEdge shift) = true) :
    -- no spin-out before the end of the step
    (∀ m c, m < s.steps + (s.tape.step shift color (s.state == next)).2 →
      RunAt p.toF m c → ¬ SpinOutCfg p.toF c) ∧
    -- blank tapes strictly before the end of the step are recorded already
    (∀ m q, 0 < m → m < s.steps + (s.tape.step shift color (s.state == next)).2 →
      BlankIn p.toF m q → ∃ n, n ≤ m ∧ (q, n) ∈ s.blanks) ∧
    -- a blank tape at the end of the step is seen by the model
    (∀ q, BlankIn p.toF (s.steps + (s.tape.step shift color (s.state == next)).2) q →
      q = next ∧ color = 0 ∧ (s.tape.step shift color (s.state == next)).1.blank = true) := by
  obtain ⟨hcan, hpos, c', hrun', hc'⟩ := inv.step hget
  refine ⟨?_, ?_, ?_⟩
  · intro m c hm hrun hspin
    by_cases hlt : m < s.steps
    · exact inv2.noSpin m c hlt hrun hspin
    · obtain ⟨j, rfl⟩ : ∃ j, m = s.steps + j := ⟨m - s.steps, by omega⟩
      obtain ⟨c0, hr0, hs0, hsc0, hz, _⟩ := inv.mid hget j (by omega)
      have := hr0.unique hrun
      subst this
      obtain ⟨hscan, pr, sh, hp, haz⟩ := hspin
      have h0 : s.tape.scan = 0 := hsc0.symm.trans hscan
      have hp' : p.toF s.state s.tape.scan = some (pr, sh, s.state) := by
        rw [h0, ← hs0]; exact hp
      have hp'' : p.toF s.state s.tape.scan = some (color, shift, next) := hget
      rw [hp''] at hp'
      simp only [Option.some.injEq, Prod.mk.injEq] at hp'
      obtain ⟨_, rfl, rfl⟩ := hp'
      apply hedge
      simp only [Bool.and_eq_true, beq_iff_eq, true_and]
      exact hz h0 haz
  · intro m q hm0 hm hb
    by_cases hle : m ≤ s.steps
    · exact inv2.complete m q hm0 hle hb
    · exfalso
      obtain ⟨j, rfl⟩ : ∃ j, m = s.steps + j := ⟨m - s.steps, by omega⟩
      obtain ⟨c0, hr0, _, _, _, hnb⟩ := inv.mid hget j (by omega)
      obtain ⟨c, hr, _, hbl⟩ := hb
      have := hr0.unique hr
      subst this
      exact hnb (by omega) hbl
  · rintro q ⟨c, hr, hs, hbl⟩
    have := hrun'.unique hr
    subst this
    have hb : (s.tape.step shift color (s.state == next)).1.blank = true :=
      (Tape.blank_iff hcan next).2 (hc'.blank hbl)
    exact ⟨hs.symm.trans hc'.1, Tape.step_blank_color hb, hb⟩

theorem quickIter_spec2 (p : Prog) (s : QState) (inv : QInv p s) (inv2 : QInv2 p s) :
    QStepSpec2 p (quickIter p s) := by
  cases hget : p.get (s.state, s.tape.scan) with
  | none =>
    rw [quickIter_none hget]
    exact ⟨inv2.first, fun _ => inv2.complete, fun _ => inv2.noSpin⟩
  | some i =>
    obtain ⟨color, shift, next⟩ := i
    rw [quickIter_some hget]
    by_cases hedge : (s.state == next && s.tape.atEdge shift) = true
    · rw [if_pos hedge]
      exact ⟨inv2.first, fun _ => inv2.complete, fun _ => inv2.noSpin⟩
    · rw [if_neg hedge]
      obtain ⟨hspin, hold, hend⟩ := QInv2.step_facts inv inv2 hget hedge
      have hblanks := inv.blanks
      generalize s.tape.step shift color (s.state == next) = r at hspin hold hend ⊢
      by_cases hov : s.steps + r.2 ≥ u64Max
      · rw [if_pos hov]
        exact ⟨inv2.first, fun h => absurd rfl h, fun h => absurd rfl h⟩
      · rw [if_neg hov]
        by_cases hbl : (color == 0 && r.1.blank) = true
        · rw [if_pos hbl]
          by_cases hcont : s.blanks.contains next = true
          · rw [if_pos hcont]
            refine ⟨inv2.first, fun _ m q hm0 hle hb => ?_, fun _ => hspin⟩
            by_cases hlt : m < s.steps + r.2
            · exact hold m q hm0 hlt hb
            · have hm : m = s.steps + r.2 := Nat.le_antisymm hle (by omega)
              subst hm
              obtain ⟨rfl, _, _⟩ := hend q hb
              obtain ⟨n, hn⟩ := Blanks.exists_of_contains hcont
              exact ⟨n, Nat.le_trans (hblanks q n hn).2 (Nat.le_add_right _ _), hn⟩
          · rw [if_neg hcont]
            have hfirst : ∀ q n, (q, n) ∈ s.blanks.insert next (s.steps + r.2) →
                ∀ m, 0 < m → m < n → ¬ BlankIn p.toF m q := by
              intro q n hmem m hm0 hmn hb
              cases Blanks.mem_insert hmem with
              | inl e =>
                cases e
                obtain ⟨n', _, hn'⟩ := hold m next hm0 hmn hb
                exact hcont (Blanks.contains_of_mem hn')
              | inr hm' => exact inv2.first q n hm' m hm0 hmn hb
            have hcomp : ∀ m q, 0 < m → m ≤ s.steps + r.2 → BlankIn p.toF m q →
                ∃ n, n ≤ m ∧ (q, n) ∈ s.blanks.insert next (s.steps + r.2) := by
              intro m q hm0 hle hb
              by_cases hlt : m < s.steps + r.2
              · obtain ⟨n, hn, hmem⟩ := hold m q hm0 hlt hb
                refine ⟨n, hn, Blanks.mem_insert_of_mem hmem ?_⟩
                intro e
                simp only at e
                subst e
                exact hcont (Blanks.contains_of_mem hmem)
              · have hm : m = s.steps + r.2 := Nat.le_antisymm hle (by omega)
                subst hm
                obtain ⟨rfl, _, _⟩ := hend q hb
                exact ⟨_, Nat.le_refl _, Blanks.mem_insert_self _ _ _⟩
            by_cases hz : (next == 0) = true
            · rw [if_pos hz]
              exact ⟨hfirst, fun _ => hcomp, fun _ => hspin⟩
            · rw [if_neg hz]
              exact ⟨hfirst, hcomp, hspin⟩
        · rw [if_neg hbl]
          refine ⟨inv2.first, fun m q hm0 hle hb => ?_, hspin⟩
          by_cases hlt : m < s.steps + r.2
          · exact hold m q hm0 hlt hb
          · have hm : m = s.steps + r.2 := Nat.le_antisymm hle (by omega)
            subst hm
            obtain ⟨_, hc0, hb0⟩ := hend q hb
            exact absurd (by simp [hc0, hb0]) hbl

theorem quickAfter_inv2 (p : Prog) (n : Nat) (s : QState) (h : quickAfter p n = some s) :
    QInv2 p s := by
  induction n generalizing s with
  | zero =>
    simp only [quickAfter, Option.some.injEq] at h
    subst h
    exact QInv2.init p
  | succ n ih =>
    obtain ⟨s0, h0, hi⟩ := quickAfter_succ_inv h
    have := quickIter_spec2 p s0 (quickAfter_inv p n s0 h0) (ih s0 h0)
    rw [hi] at this
    exact this

/-! ### the result record -/

structure ResSpec2 (p : Prog) (r : MachineResult) : Prop where
  first : ∀ q n, (q, n) ∈ r.blanks → ∀ m, 0 < m → m < n → ¬ BlankIn p.toF m q
  complete : r.result ≠ .overflow →
    ∀ m q, 0 < m → m ≤ r.steps → BlankIn p.toF m q → ∃ n, n ≤ m ∧ (q, n) ∈ r.blanks
  noSpin : r.result ≠ .overflow → ∀ m c, m < r.steps → RunAt p.toF m c → ¬ SpinOutCfg p.toF c

theorem quickLoop_spec2 (p : Prog) (fuel cycle : Nat) (s : QState)
    (h : quickAfter p cycle = some s) : ResSpec2 p (quickLoop p fuel cycle s) := by
  induction fuel generalizing cycle s with
  | zero =>
    have inv2 := quickAfter_inv2 p cycle s h
    simp only [quickLoop, mkResult]
    exact ⟨inv2.first, fun _ => inv2.complete, fun _ => inv2.noSpin⟩
  | succ fuel ih =>
    have spec := quickIter_spec2 p s (quickAfter_inv p cycle s h) (quickAfter_inv2 p cycle s h)
    cases hi : quickIter p s with
    | cont s' =>
      simp only [quickLoop, hi]
      exact ih (cycle + 1) s' (quickAfter_succ_of_cont h hi)
    | done res ls setC s' =>
      rw [hi] at spec
      have d : QDone2 p res s' := spec
      simp only [quickLoop, hi, mkResult]
      exact ⟨d.first, d.complete, d.noSpin⟩

theorem runQuick_spec2 (p : Prog) (lim : Nat) : ResSpec2 p (runQuick p lim) :=
  quickLoop_spec2 p lim 0 QState.init rfl

/-- no undefined instruction is met strictly before a step the run reaches -/
theorem no_halt_before {p : ProgF} {n m : Nat} {c : Cfg} (h : RunAt p n c) (hm : m < n)
    (q s : Nat) : ¬ HaltsAt p m q s := by
  rintro ⟨c0, hr0, hq, hs, hp⟩
  obtain ⟨c1, hc1⟩ := stepN_le h (show m + 1 ≤ n by omega)
  rw [stepN_succ_last] at hc1
  have hr0' : stepN p m Cfg.init = some c0 := hr0
  rw [hr0'] at hc1
  simp only [Option.bind_some, step1, hq, hs, hp] at hc1
  cases hc1

end BB
