/-
C05 — segment analysis.  Part 13: the real configuration seen through a window (`View`), and the
first half of the simulation: while the head is inside the window the real machine follows `cstep`.
-/
import BB.Lemmas.SegSound12

namespace BB.Segment

open BB

/-- The real configuration `c`, whose head is at window coordinate `w` (`1 … seg-2` are the cells
    of the window, `≤ 0` is outside on the left, `≥ seg-1` outside on the right), shows inside the
    window exactly the cells of `X`, is in the state of `X`, and its head is where `X` says. -/
def View (c : Cfg) (w : Int) (X : Core) : Prop :=
  c.state = X.1 ∧
  match X.2.scan with
  | some _ => (∃ oL oR, c ≈c X.2.toCfgX X.1 oL oR) ∧ w = (Span.len X.2.lspan : Int) + 1
  | none =>
    (X.2.rspan = [] ∧ ∃ mid oL, SameCells c.left (mid ++ Span.unroll X.2.lspan ++ oL) ∧
      w = (Span.len X.2.lspan : Int) + 1 + mid.length) ∨
    (X.2.lspan = [] ∧ ∃ mid oR, SameCells c.right (mid ++ Span.unroll X.2.rspan ++ oR) ∧
      w = -(mid.length : Int))

theorem View.congr {c c' : Cfg} {w : Int} {X : Core} (h : View c w X) (he : c ≈c c') :
    View c' w X := by
  obtain ⟨h1, h2⟩ := h
  refine ⟨he.1.symm.trans h1, ?_⟩
  revert h2
  cases X.2.scan with
  | some s =>
    rintro ⟨⟨oL, oR, h3⟩, h4⟩
    exact ⟨⟨oL, oR, he.symm.trans h3⟩, h4⟩
  | none =>
    rintro (⟨h3, mid, oL, h4, h5⟩ | ⟨h3, mid, oR, h4, h5⟩)
    · exact Or.inl ⟨h3, mid, oL, he.2.2.1.symm.trans h4, h5⟩
    · exact Or.inr ⟨h3, mid, oR, he.2.2.2.symm.trans h4, h5⟩

/-! ### shape of the tapes of a window -/

theorem good_edge_right {seg : Nat} {t : Tape} (hseg : 4 ≤ seg) (hg : Good seg t)
    (hs : t.scan = none) (hr : t.rspan = []) :
    Span.len t.lspan = seg - 2 ∧ t.lspan ≠ [] ∧ Tape.pos t = seg - 1 ∧
      Tape.side t = some true := by
  have hc := hg.2
  simp only [Tape.cells, hs, hr, Option.isSome_none, Bool.false_eq_true, if_false, Span.len_nil,
    Nat.add_zero] at hc
  refine ⟨hc, ?_, ?_, ?_⟩
  · intro h; rw [h] at hc; simp at hc; omega
  · have : 0 < Span.len t.lspan := by omega
    simp only [Tape.pos, hs, Option.isSome_none, Bool.false_or, decide_eq_true this, if_true]
    omega
  · simp [Tape.side, hs, hr, Span.isEmpty]

theorem good_edge_left {seg : Nat} {t : Tape} (hseg : 4 ≤ seg) (hg : Good seg t)
    (hs : t.scan = none) (hl : t.lspan = []) :
    Span.len t.rspan = seg - 2 ∧ t.rspan ≠ [] ∧ Tape.pos t = 0 ∧ Tape.side t = some false := by
  have hc := hg.2
  simp only [Tape.cells, hs, hl, Option.isSome_none, Bool.false_eq_true, if_false, Span.len_nil,
    Nat.add_zero, Nat.zero_add] at hc
  have hne : t.rspan ≠ [] := by
    intro h; rw [h] at hc; simp at hc; omega
  refine ⟨hc, hne, ?_, ?_⟩
  · simp [Tape.pos, hs, hl]
  · have : Span.isEmpty t.rspan = false := by
      cases hh : Span.isEmpty t.rspan with
      | false => rfl
      | true => exact absurd ((Span.isEmpty_iff hg.1.rpos).1 hh) hne
    simp [Tape.side, hs, this]

/-- the window coordinate of a view is the position of the tape, when it is one of `0 … seg-1` -/
theorem View.pos_eq {seg : Nat} {c : Cfg} {o : Nat} {X : Core} (hseg : 4 ≤ seg)
    (hg : Good seg X.2) (ho : o < seg) (h : View c (o : Int) X) : Tape.pos X.2 = o := by
  obtain ⟨_, h2⟩ := h
  revert h2
  cases hs : X.2.scan with
  | some s =>
    rintro ⟨_, h4⟩
    simp only [Tape.pos, hs, Option.isSome_some, Bool.true_or, if_true]
    omega
  | none =>
    rintro (⟨h3, mid, oL, _, h5⟩ | ⟨h3, mid, oR, _, h5⟩)
    · obtain ⟨e1, _, e3, _⟩ := good_edge_right hseg hg hs h3
      rw [e3]; omega
    · obtain ⟨_, _, e3, _⟩ := good_edge_left hseg hg hs h3
      rw [e3]; omega

/-! ### inside the window -/

/-- `T` is not reached in the middle of a sweep: the configuration before it is in another slot -/
def NoSweepInto (p : ProgF) (T : Nat) : Prop :=
  ∀ c' c, RunAt p T c' → RunAt p (T + 1) c → ¬ (c'.state = c.state ∧ c'.scan = c.scan)

theorem view_step_in {prog : Prog} {seg : Nat} (hseg : 4 ≤ seg) {X : Core} {s : Nat}
    (hg : Good seg X.2) (hs : X.2.scan = some s) {c : Cfg} {w : Int} {t T : Nat}
    (hv : View c w X) (hr : RunAt prog.toF t c) (htT : t < T) {cT : Cfg}
    (hrT : RunAt prog.toF T cT) (hns : ∀ T', T' + 1 = T → NoSweepInto prog.toF T') :
    ∃ Y k c', cstep prog X = some Y ∧ 0 < k ∧ t + k ≤ T ∧ RunAt prog.toF (t + k) c' ∧
      View c' (w + hd prog.toF (t + k) - hd prog.toF t) Y := by
  obtain ⟨hst, hv2⟩ := hv
  rw [hs] at hv2
  obtain ⟨⟨oL, oR, he⟩, hw⟩ := hv2
  -- the configuration makes a step
  obtain ⟨d1, hd1, _⟩ := hr.step_of_later hrT htT
  have hscan : c.scan = s := by rw [he.2.1]; exact Tape.toCfgX_scan hs _ _ _
  cases hget : prog.get (X.1, s) with
  | none =>
    exfalso
    unfold step1 at hd1
    have : prog.toF c.state c.scan = none := by rw [hst, hscan]; exact hget
    rw [this] at hd1; cases hd1
  | some instr =>
    obtain ⟨pr, d, q'⟩ := instr
    obtain ⟨t', k, h1, h2, h3, h4, h5, h6, h7⟩ :=
      Tape.step_spec prog.toF X.2 X.1 pr q' s d oL oR hg.1 hs hget
    have hcs : cstep prog X = some (q', t') := by
      simp only [cstep, hs, hget, h1]
    -- transfer the run to `c`
    obtain ⟨c', hc', he''⟩ := stepN_congr he.symm h5
    have he' : c' ≈c t'.toCfgX q' oL oR := he''.symm
    have hmid : ∀ j, j < k → ∃ cj, stepN prog.toF j c = some cj ∧ cj.state = X.1 ∧ cj.scan = s := by
      intro j hj
      obtain ⟨cj, e1, e2, e3⟩ := h4 j hj
      obtain ⟨cj', e1', ee⟩ := stepN_congr he.symm e1
      exact ⟨cj', e1', ee.1.symm.trans e2, ee.2.1.symm.trans e3⟩
    have hrk : RunAt prog.toF (t + k) c' := stepN_add_of_eq hr hc'
    -- `T` is not inside the sweep
    have hle : t + k ≤ T := by
      apply Classical.byContradiction
      intro hlt
      obtain ⟨j, hj⟩ : ∃ j, T = t + (j + 1) := ⟨T - t - 1, by omega⟩
      obtain ⟨ca, ea1, ea2, ea3⟩ := hmid j (by omega)
      obtain ⟨cb, eb1, eb2, eb3⟩ := hmid (j + 1) (by omega)
      have ra : RunAt prog.toF (t + j) ca := stepN_add_of_eq (a := t) hr ea1
      have rb : RunAt prog.toF (t + j + 1) cb := by
        have := stepN_add_of_eq (a := t) hr eb1
        rwa [← Nat.add_assoc] at this
      exact hns (t + j) (by omega) ca cb ra rb ⟨ea2.trans eb2.symm, ea3.trans eb3.symm⟩
    refine ⟨(q', t'), k, c', hcs, h3, hle, hrk, ?_⟩
    -- head displacement
    have hdisp : hd prog.toF (t + k) = hd prog.toF t + dirI d * k := by
      rw [hd_add hr]
      congr 1
      exact disp_const (k := k) (p := prog.toF) (q := X.1) (s := s) hget hmid k (Nat.le_refl _)
    have hpos0 : (Tape.pos X.2 : Int) = w := by
      simp only [Tape.pos, hs, Option.isSome_some, Bool.true_or, if_true]
      omega
    have hw' : w + hd prog.toF (t + k) - hd prog.toF t = (Tape.pos t' : Int) := by
      rw [hdisp, h7, hpos0]; omega
    rw [hw']
    have hg' : Good seg t' := ⟨h2, h6.trans hg.2⟩
    refine ⟨by rw [he'.1]; simp, ?_⟩
    cases hs' : t'.scan with
    | some s' =>
      simp only
      refine ⟨⟨oL, oR, he'⟩, ?_⟩
      simp only [Tape.pos, hs', Option.isSome_some, Bool.true_or, if_true]
      omega
    | none =>
      simp only
      unfold Tape.toCfgX at he'
      rw [hs'] at he'
      by_cases hemp : Span.isEmpty t'.rspan = true
      · have hr' : t'.rspan = [] := (Span.isEmpty_iff h2.rpos).1 hemp
        obtain ⟨_, _, e3, _⟩ := good_edge_right hseg hg' hs' hr'
        rw [if_pos hemp] at he'
        refine Or.inl ⟨hr', [], oL, by simpa using he'.2.2.1, ?_⟩
        obtain ⟨e1, _, _, _⟩ := good_edge_right hseg hg' hs' hr'
        rw [e3, e1]; simp; omega
      · have hr' : t'.rspan ≠ [] := fun h => hemp (by rw [h]; rfl)
        have hl' : t'.lspan = [] := (h2.edge hs').resolve_right hr'
        obtain ⟨_, _, e3, _⟩ := good_edge_left hseg hg' hs' hl'
        rw [if_neg hemp] at he'
        refine Or.inr ⟨hl', [], oR, by simpa using he'.2.2.2, ?_⟩
        rw [e3]; simp

end BB.Segment
