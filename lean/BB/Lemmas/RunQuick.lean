/-
`run_quick_machine` against the L0 machine: a loop invariant linking `quickIter` / `quickLoop` /
`quickAfter` to `RunAt`, and the "blank tape twice in the same state" non-halting argument.
-/
import BB.Lemmas.StepRefine

namespace BB

/-- the loop state after `n` full iterations of `run_quick_machine`'s loop (none once it stopped) -/
def quickAfter (p : Prog) : Nat → Option QState
  | 0 => some QState.init
  | n + 1 => match quickAfter p n with
    | none => none
    | some s => match quickIter p s with
      | .cont s' => some s'
      | .done _ _ _ _ => none

/-! ### blank tape twice in the same state -/

/-- If the machine is on the blank tape in state `q` after `n` steps and again after `m > n`
    steps, it never halts. -/
theorem blank_twice_loops {p : ProgF} {n m q : Nat} {c1 c2 : Cfg} (hnm : n < m)
    (h1 : RunAt p n c1) (b1 : c1.Blank) (s1 : c1.state = q)
    (h2 : RunAt p m c2) (b2 : c2.Blank) (s2 : c2.state = q) : NeverHalts p := by
  obtain ⟨d, rfl⟩ : ∃ d, m = n + d := ⟨m - n, by omega⟩
  have hd : 0 < d := by omega
  unfold RunAt at h1 h2
  obtain ⟨c', hc', hstep⟩ := stepN_prefix h2
  rw [h1] at hc'
  simp only [Option.some.injEq] at hc'
  subst hc'
  have e21 : c2 ≈c c1 := b2.equiv b1 (s2.trans s1.symm)
  have loop : ∀ k, ∃ c, stepN p (k * d) c1 = some c ∧ c ≈c c1 := by
    intro k
    induction k with
    | zero => exact ⟨c1, by simp [stepN_zero], Cfg.Equiv.refl _⟩
    | succ k ih =>
      obtain ⟨c, hc, ec⟩ := ih
      obtain ⟨c'', hc'', e''⟩ := stepN_congr ec.symm hstep
      refine ⟨c'', ?_, e''.symm.trans e21⟩
      rw [Nat.succ_mul]
      exact stepN_add_of_eq hc hc''
  intro N
  obtain ⟨c, hc, _⟩ := loop N
  have hrun : stepN p (n + N * d) Cfg.init = some c := stepN_add_of_eq h1 hc
  have hle : N ≤ n + N * d := by
    have : N ≤ N * d := Nat.le_mul_of_pos_right N hd
    omega
  exact stepN_le hrun hle

/-! ### Blanks -/

theorem Blanks.exists_of_contains {b : Blanks} {q : Nat} (h : b.contains q = true) :
    ∃ n, (q, n) ∈ b := by
  simp only [Blanks.contains, List.any_eq_true, beq_iff_eq] at h
  obtain ⟨⟨k, v⟩, hx, hk⟩ := h
  simp only at hk
  subst hk
  exact ⟨v, hx⟩

theorem Blanks.mem_insert {b : Blanks} {q n : Nat} {x : Nat × Nat}
    (h : x ∈ Blanks.insert b q n) : x = (q, n) ∨ x ∈ b := by
  induction b with
  | nil =>
    simp only [Blanks.insert, List.mem_singleton] at h
    exact Or.inl h
  | cons kv rest ih =>
    obtain ⟨k, v⟩ := kv
    simp only [Blanks.insert] at h
    split at h
    · cases h with
      | head => exact Or.inl rfl
      | tail _ h' => exact Or.inr (List.mem_cons_of_mem _ h')
    · split at h
      · cases h with
        | head => exact Or.inl rfl
        | tail _ h' => exact Or.inr h'
      · cases h with
        | head => exact Or.inr List.mem_cons_self
        | tail _ h' =>
          cases ih h' with
          | inl e => exact Or.inl e
          | inr m => exact Or.inr (List.mem_cons_of_mem _ m)

/-! ### the loop invariant -/

/-- what is known about the loop state at the top of every iteration -/
structure QInv (p : Prog) (s : QState) : Prop where
  canon : s.tape.Canon
  run : ∃ c, RunAt p.toF s.steps c ∧ c ≈c s.tape.toCfg s.state
  blanks : ∀ q n, (q, n) ∈ s.blanks → BlankAfter p.toF n q ∧ n ≤ s.steps

theorem QInv.init (p : Prog) : QInv p QState.init :=
  ⟨Tape.canon_init 0, ⟨Cfg.init, rfl, Cfg.Equiv.refl _⟩, fun _ _ h => by cases h⟩

/-- what is known about the final loop state when an iteration returns -/
structure QDone (p : Prog) (res : TermRes) (ls : Option Slot) (setC : Bool) (s' : QState) :
    Prop where
  blanks : ∀ q n, (q, n) ∈ s'.blanks → BlankAfter p.toF n q
  notX : res ≠ .xlimit
  marks : res ≠ .overflow → ∃ c, RunAt p.toF s'.steps c ∧ c.marks = s'.tape.marks
  undfnd : res = .undfnd →
    setC = true ∧ ∃ q sc, ls = some (q, sc) ∧ HaltsAt p.toF s'.steps q sc
  spnout : res = .spnout → setC = true ∧ ∃ c, RunAt p.toF s'.steps c ∧ SpinOutCfg p.toF c
  infrul : res = .infrul → NeverHalts p.toF

def QStepSpec (p : Prog) : QStep → Prop
  | .cont s' => QInv p s'
  | .done res ls setC s' => QDone p res ls setC s'

theorem quickIter_none {p : Prog} {s : QState} (h : p.get (s.state, s.tape.scan) = none) :
    quickIter p s = .done .undfnd (some (s.state, s.tape.scan)) true s := by
  unfold quickIter; rw [h]

theorem quickIter_some {p : Prog} {s : QState} {color : Nat} {shift : Bool} {next : Nat}
    (h : p.get (s.state, s.tape.scan) = some (color, shift, next)) :
    quickIter p s =
      if (s.state == next && s.tape.atEdge shift) = true then .done .spnout none true s
      else if s.steps + (s.tape.step shift color (s.state == next)).2 ≥ u64Max then
        .done .overflow none false
          { s with tape := (s.tape.step shift color (s.state == next)).1,
                   steps := s.steps + (s.tape.step shift color (s.state == next)).2 }
      else if (color == 0 && (s.tape.step shift color (s.state == next)).1.blank) = true then
        if s.blanks.contains next = true then
          .done .infrul none false
            ⟨(s.tape.step shift color (s.state == next)).1, next,
              s.steps + (s.tape.step shift color (s.state == next)).2, s.blanks⟩
        else if (next == 0) = true then
          .done .infrul none false
            ⟨(s.tape.step shift color (s.state == next)).1, next,
              s.steps + (s.tape.step shift color (s.state == next)).2,
              s.blanks.insert next (s.steps + (s.tape.step shift color (s.state == next)).2)⟩
        else
          .cont
            ⟨(s.tape.step shift color (s.state == next)).1, next,
              s.steps + (s.tape.step shift color (s.state == next)).2,
              s.blanks.insert next (s.steps + (s.tape.step shift color (s.state == next)).2)⟩
      else
        .cont
          ⟨(s.tape.step shift color (s.state == next)).1, next,
            s.steps + (s.tape.step shift color (s.state == next)).2, s.blanks⟩ := by
  unfold quickIter; rw [h]

/-- one model step from a state satisfying the invariant -/
theorem QInv.step {p : Prog} {s : QState} (inv : QInv p s) {color : Nat} {shift : Bool}
    {next : Nat} (h : p.get (s.state, s.tape.scan) = some (color, shift, next)) :
    (s.tape.step shift color (s.state == next)).1.Canon ∧
    0 < (s.tape.step shift color (s.state == next)).2 ∧
    ∃ c', RunAt p.toF (s.steps + (s.tape.step shift color (s.state == next)).2) c' ∧
      c' ≈c (s.tape.step shift color (s.state == next)).1.toCfg next := by
  obtain ⟨c, hrun, hc⟩ := inv.run
  have hi : p.toF s.state s.tape.scan = some (color, shift, next) := h
  obtain ⟨hpos, _, ⟨c1, hc1, e1⟩, _⟩ :=
    Tape.step_refines p.toF s.tape s.state color shift next inv.canon.pos hi
  obtain ⟨c2, hc2, e2⟩ := stepN_congr hc.symm hc1
  exact ⟨Tape.canon_step inv.canon _ _ _, hpos, c2, stepN_add_of_eq hrun hc2, e2.symm.trans e1⟩

theorem quickIter_spec (p : Prog) (s : QState) (inv : QInv p s) :
    QStepSpec p (quickIter p s) := by
  obtain ⟨c, hrun, hc⟩ := inv.run
  have hmarks : c.marks = s.tape.marks := hc.marks_eq.trans (s.tape.marks_toCfg s.state).symm
  cases hget : p.get (s.state, s.tape.scan) with
  | none =>
    rw [quickIter_none hget]
    exact {
      blanks := fun q n h => (inv.blanks q n h).1
      notX := by decide
      marks := fun _ => ⟨c, hrun, hmarks⟩
      undfnd := fun _ => ⟨rfl, s.state, s.tape.scan, rfl, c, hrun, hc.1, hc.2.1, hget⟩
      spnout := fun h => by cases h
      infrul := fun h => by cases h }
  | some i =>
    obtain ⟨color, shift, next⟩ := i
    rw [quickIter_some hget]
    by_cases hedge : (s.state == next && s.tape.atEdge shift) = true
    · rw [if_pos hedge]
      simp only [Bool.and_eq_true, beq_iff_eq] at hedge
      obtain ⟨hsame, hat⟩ := hedge
      obtain ⟨hscan, hzero⟩ := (Tape.atEdge_iff inv.canon shift).1 hat
      have hspin : SpinOutCfg p.toF c := by
        have hcs : c.state = s.state := hc.1
        have hcn : c.scan = 0 := hc.2.1.trans hscan
        refine ⟨hcn, color, shift, ?_, ?_⟩
        · rw [hcs]
          have : p.toF s.state s.tape.scan = some (color, shift, next) := hget
          rw [hscan] at this
          rw [this, ← hsame]
        · cases shift
          · exact (hc.2.2.1.symm).allZero hzero
          · exact (hc.2.2.2.symm).allZero hzero
      exact {
        blanks := fun q n h => (inv.blanks q n h).1
        notX := by decide
        marks := fun _ => ⟨c, hrun, hmarks⟩
        undfnd := fun h => by cases h
        spnout := fun _ => ⟨rfl, c, hrun, hspin⟩
        infrul := fun h => by cases h }
    · rw [if_neg hedge]
      obtain ⟨hcan, hpos, c', hrun', hc'⟩ := inv.step hget
      have hmarks' : c'.marks = (s.tape.step shift color (s.state == next)).1.marks :=
        hc'.marks_eq.trans (Tape.marks_toCfg _ next).symm
      by_cases hov : s.steps + (s.tape.step shift color (s.state == next)).2 ≥ u64Max
      · rw [if_pos hov]
        exact {
          blanks := fun q n h => (inv.blanks q n h).1
          notX := by decide
          marks := fun h => absurd rfl h
          undfnd := fun h => by cases h
          spnout := fun h => by cases h
          infrul := fun h => by cases h }
      · rw [if_neg hov]
        by_cases hbl : (color == 0 && (s.tape.step shift color (s.state == next)).1.blank) = true
        · rw [if_pos hbl]
          simp only [Bool.and_eq_true, beq_iff_eq] at hbl
          have hblank' : c'.Blank := hc'.symm.blank ((Tape.blank_iff hcan next).1 hbl.2)
          have hstate' : c'.state = next := hc'.1
          by_cases hcont : s.blanks.contains next = true
          · rw [if_pos hcont]
            obtain ⟨n, hn⟩ := Blanks.exists_of_contains hcont
            obtain ⟨⟨_, c1, hr1, hs1, hb1⟩, hle⟩ := inv.blanks next n hn
            exact {
              blanks := fun q n h => (inv.blanks q n h).1
              notX := by decide
              marks := fun _ => ⟨c', hrun', hmarks'⟩
              undfnd := fun h => by cases h
              spnout := fun h => by cases h
              infrul := fun _ =>
                blank_twice_loops (by omega) hr1 hb1 hs1 hrun' hblank' hstate' }
          · rw [if_neg hcont]
            have hnew : BlankAfter p.toF
                (s.steps + (s.tape.step shift color (s.state == next)).2) next :=
              ⟨by omega, c', hrun', hstate', hblank'⟩
            by_cases hz : (next == 0) = true
            · rw [if_pos hz]
              simp only [beq_iff_eq] at hz
              exact {
                blanks := fun q n h => by
                  cases Blanks.mem_insert h with
                  | inl e => cases e; exact hnew
                  | inr m => exact (inv.blanks q n m).1
                notX := by decide
                marks := fun _ => ⟨c', hrun', hmarks'⟩
                undfnd := fun h => by cases h
                spnout := fun h => by cases h
                infrul := fun _ =>
                  blank_twice_loops (n := 0) (by omega) (rfl : RunAt p.toF 0 Cfg.init)
                    ⟨rfl, allZero_nil, allZero_nil⟩ (rfl : Cfg.init.state = 0)
                    hrun' hblank' (hstate'.trans hz) }
            · rw [if_neg hz]
              exact {
                canon := hcan
                run := ⟨c', hrun', hc'⟩
                blanks := fun q n h => by
                  cases Blanks.mem_insert h with
                  | inl e => cases e; exact ⟨hnew, Nat.le_refl _⟩
                  | inr m =>
                    have := inv.blanks q n m
                    exact ⟨this.1, Nat.le_trans this.2 (Nat.le_add_right _ _)⟩ }
        · rw [if_neg hbl]
          exact {
            canon := hcan
            run := ⟨c', hrun', hc'⟩
            blanks := fun q n m => by
              have := inv.blanks q n m
              exact ⟨this.1, Nat.le_trans this.2 (Nat.le_add_right _ _)⟩ }

/-! ### quickAfter -/

theorem quickAfter_succ_of_cont {p : Prog} {n : Nat} {s s' : QState}
    (h : quickAfter p n = some s) (hi : quickIter p s = .cont s') :
    quickAfter p (n + 1) = some s' := by
  simp only [quickAfter, h, hi]

theorem quickAfter_succ_inv {p : Prog} {n : Nat} {s' : QState}
    (h : quickAfter p (n + 1) = some s') :
    ∃ s, quickAfter p n = some s ∧ quickIter p s = .cont s' := by
  simp only [quickAfter] at h
  cases hq : quickAfter p n with
  | none => rw [hq] at h; cases h
  | some s =>
    rw [hq] at h
    simp only at h
    cases hi : quickIter p s with
    | cont s1 =>
      rw [hi] at h
      simp only [Option.some.injEq] at h
      subst h
      exact ⟨s, rfl, hi⟩
    | done _ _ _ _ => rw [hi] at h; cases h

/-- the invariant holds at the top of every iteration -/
theorem quickAfter_inv (p : Prog) (n : Nat) (s : QState) (h : quickAfter p n = some s) :
    QInv p s := by
  induction n generalizing s with
  | zero =>
    simp only [quickAfter, Option.some.injEq] at h
    subst h
    exact QInv.init p
  | succ n ih =>
    obtain ⟨s0, h0, hi⟩ := quickAfter_succ_inv h
    have := quickIter_spec p s0 (ih s0 h0)
    rw [hi] at this
    exact this

/-! ### the result record -/

/-- everything the property theorems say about a result record, for a run allowed `lim` cycles -/
structure ResSpec (p : Prog) (lim : Nat) (r : MachineResult) : Prop where
  blanks : ∀ q n, (q, n) ∈ r.blanks → BlankAfter p.toF n q
  marks : r.result ≠ .overflow → ∃ c, RunAt p.toF r.steps c ∧ c.marks = r.marks
  undfnd : r.result = .undfnd →
    ∃ q s, r.lastSlot = some (q, s) ∧ HaltsAt p.toF r.steps q s
  spnout : r.result = .spnout → ∃ c, RunAt p.toF r.steps c ∧ SpinOutCfg p.toF c
  infrul : r.result = .infrul → NeverHalts p.toF
  xlimit : r.result = .xlimit → (quickAfter p lim).isSome ∧ r.cycles = 0
  cycles : r.result = .undfnd ∨ r.result = .spnout →
    (quickAfter p r.cycles).isSome ∧ r.cycles < lim

theorem quickLoop_spec (p : Prog) (fuel cycle : Nat) (s : QState)
    (h : quickAfter p cycle = some s) : ResSpec p (cycle + fuel) (quickLoop p fuel cycle s) := by
  induction fuel generalizing cycle s with
  | zero =>
    have inv := quickAfter_inv p cycle s h
    obtain ⟨c, hrun, hc⟩ := inv.run
    simp only [quickLoop, mkResult, Nat.add_zero]
    exact {
      blanks := fun q n m => (inv.blanks q n m).1
      marks := fun _ => ⟨c, hrun, hc.marks_eq.trans (s.tape.marks_toCfg s.state).symm⟩
      undfnd := fun e => by cases e
      spnout := fun e => by cases e
      infrul := fun e => by cases e
      xlimit := fun _ => ⟨by rw [h]; rfl, rfl⟩
      cycles := fun e => by rcases e with e | e <;> cases e }
  | succ fuel ih =>
    have inv := quickAfter_inv p cycle s h
    have spec := quickIter_spec p s inv
    cases hi : quickIter p s with
    | cont s' =>
      have h' := quickAfter_succ_of_cont h hi
      have := ih (cycle + 1) s' h'
      simp only [quickLoop, hi]
      have e : cycle + (fuel + 1) = cycle + 1 + fuel := by omega
      rw [e]
      exact this
    | done res ls setC s' =>
      rw [hi] at spec
      have d : QDone p res ls setC s' := spec
      simp only [quickLoop, hi, mkResult]
      exact {
        blanks := d.blanks
        marks := d.marks
        undfnd := fun e => (d.undfnd e).2
        spnout := fun e => (d.spnout e).2
        infrul := d.infrul
        xlimit := fun e => absurd e d.notX
        cycles := fun e => by
          have hset : setC = true := by
            rcases e with e | e
            · exact (d.undfnd e).1
            · exact (d.spnout e).1
          subst hset
          simp only [if_true]
          exact ⟨by rw [h]; rfl, by omega⟩ }

theorem runQuick_spec (p : Prog) (lim : Nat) : ResSpec p lim (runQuick p lim) := by
  have := quickLoop_spec p lim 0 QState.init rfl
  rw [Nat.zero_add] at this
  exact this

end BB
