/-
Helper lemmas for C03 (last section): the tape printer `Tape.show` (BB/Model/Tape.lean) and the
tape parser `Tape.parse` (BB/Model/Validate.lean) are inverse to each other.

Everything is done on `List Char`: `D n` is the decimal digit list of `n` (what `toString n` prints),
`blockTok b` / `scanTok s` are the tokens of a block / of the scanned cell, and the printed tape is
`joinWith [' ']` of the tokens, which `splitOne` takes apart again (BB/Lemmas/Parse.lean).
-/
import BB.Model.Validate
import BB.Lemmas.Parse

namespace BB
namespace TapeParse

/-! ### Decimal digits -/

/-- the characters `toString n` prints -/
abbrev D (n : Nat) : List Char := Nat.toDigits 10 n

theorem toString_toList (n : Nat) : (toString n).toList = D n := by
  simp only [Nat.toString_eq_repr, Nat.toList_repr]

theorem D_ne_nil (n : Nat) : D n ≠ [] := Nat.toDigits_ne_nil

theorem D_isDigit (n : Nat) : ∀ c ∈ D n, c.isDigit = true :=
  fun _ hc => Nat.isDigit_of_mem_toDigits (by decide) (by decide) hc

/-- a digit is none of the punctuation characters of the tape format -/
theorem isDigit_ne (c : Char) (h : c.isDigit = true) :
    c ≠ ' ' ∧ c ≠ '^' ∧ c ≠ '.' ∧ c ≠ '[' ∧ c ≠ ']' := by
  refine ⟨?_, ?_, ?_, ?_, ?_⟩ <;> (rintro rfl; revert h; decide)

theorem foldl_eq_ofDigitChars (l : List Char) (init : Nat) :
    l.foldl (fun acc c => acc * 10 + (c.toNat - 48)) init = Nat.ofDigitChars 10 l init := by
  induction l generalizing init with
  | nil => rfl
  | cons c cs ih =>
    rw [List.foldl_cons, ih, Nat.ofDigitChars_cons, Nat.mul_comm]
    rfl

/-- **the technical core**: the parser's number reader inverts decimal printing -/
theorem parseNat_D (n : Nat) : parseNat? (D n) = some n := by
  have hne : (D n).isEmpty = false := by
    cases h : D n with
    | nil => exact absurd h (D_ne_nil n)
    | cons _ _ => rfl
  have hall : (D n).all Char.isDigit = true := List.all_eq_true.mpr (D_isDigit n)
  simp only [parseNat?, hne, hall, Bool.not_true, Bool.or_self, Bool.false_eq_true, if_false]
  rw [foldl_eq_ofDigitChars, Nat.ofDigitChars_ten_toDigits]

/-! ### `List.span` on a token -/

theorem span_loop_all {p : Char → Bool} (l acc : List Char) (h : ∀ c ∈ l, p c = true) :
    List.span.loop p l acc = (acc.reverse ++ l, []) := by
  induction l generalizing acc with
  | nil => simp only [List.span.loop, List.append_nil]
  | cons a l ih =>
    have ha := h a (List.mem_cons_self ..)
    simp only [List.span.loop, ha]
    rw [ih _ (fun c hc => h c (List.mem_cons_of_mem _ hc))]
    simp only [List.reverse_cons, List.append_assoc, List.singleton_append]

theorem span_loop_stop {p : Char → Bool} (l r acc : List Char) (x : Char)
    (h : ∀ c ∈ l, p c = true) (hx : p x = false) :
    List.span.loop p (l ++ x :: r) acc = (acc.reverse ++ l, x :: r) := by
  induction l generalizing acc with
  | nil => simp only [List.nil_append, List.span.loop, hx, List.append_nil]
  | cons a l ih =>
    have ha := h a (List.mem_cons_self ..)
    simp only [List.cons_append, List.span.loop, ha]
    rw [ih _ (fun c hc => h c (List.mem_cons_of_mem _ hc))]
    simp only [List.reverse_cons, List.append_assoc, List.singleton_append]

theorem span_all {p : Char → Bool} (l : List Char) (h : ∀ c ∈ l, p c = true) :
    l.span p = (l, []) := by
  rw [List.span, span_loop_all l [] h]; rfl

theorem span_stop {p : Char → Bool} (l r : List Char) (x : Char) (h : ∀ c ∈ l, p c = true)
    (hx : p x = false) : (l ++ x :: r).span p = (l, x :: r) := by
  rw [List.span, span_loop_stop l r [] x h hx]; rfl

theorem takeWhile_stop {p : Char → Bool} (l r : List Char) (x : Char) (h : ∀ c ∈ l, p c = true)
    (hx : p x = false) : (l ++ x :: r).takeWhile p = l := by
  induction l with
  | nil => simp only [List.nil_append, List.takeWhile_cons, hx, Bool.false_eq_true, if_false]
  | cons a l ih =>
    have ha := h a (List.mem_cons_self ..)
    simp only [List.cons_append, List.takeWhile_cons, ha, if_true]
    rw [ih (fun c hc => h c (List.mem_cons_of_mem _ hc))]

/-! ### Tokens -/

/-- the characters of `Block.show b` -/
def blockTok (b : Block) : List Char :=
  if b.count == 1 then D b.color
  else if b.count == 0 then D b.color ++ ['.', '.']
  else D b.color ++ '^' :: D b.count

/-- the characters of the scan token `[s]` -/
def scanTok (s : Nat) : List Char := '[' :: (D s ++ [']'])

theorem Block_show_toList (b : Block) : (Block.show b).toList = blockTok b := by
  unfold Block.show blockTok
  split
  · exact toString_toList _
  · split
    · rw [String.toList_append, toString_toList]; rfl
    · rw [String.toList_append, String.toList_append, toString_toList, toString_toList]
      simp only [List.append_assoc]
      rfl

theorem scan_show_toList (s : Nat) : ("[" ++ toString s ++ "]").toList = scanTok s := by
  rw [String.toList_append, String.toList_append, toString_toList]
  rfl

theorem neq_of_ne {c x : Char} (h : c ≠ x) : (c != x) = true := by
  simp only [bne_iff_ne, ne_eq, h, not_false_eq_true]

theorem D_no_caret (n : Nat) : ∀ c ∈ D n, (c != '^') = true :=
  fun c hc => neq_of_ne (isDigit_ne c (D_isDigit n c hc)).2.1

/-- a block token is read back as the block — for every colour and every count -/
theorem parseBlock_blockTok (b : Block) : parseBlock (blockTok b) = some b := by
  obtain ⟨co, k⟩ := b
  unfold blockTok
  simp only
  by_cases h1 : k = 1
  · -- "c"
    subst h1
    simp only [BEq.rfl, if_true]
    unfold parseBlock
    rw [span_all _ (D_no_caret co)]
    simp only
    have hdd : ((D co).drop ((D co).length - 2) == ['.', '.']) = false := by
      apply Bool.eq_false_iff.mpr
      intro h
      have h' := eq_of_beq h
      have hm : '.' ∈ (D co).drop ((D co).length - 2) := by rw [h']; exact List.mem_cons_self ..
      exact (isDigit_ne _ (D_isDigit co _ (List.mem_of_mem_drop hm))).2.2.1 rfl
    rw [hdd, Bool.and_false]
    simp only [Bool.false_eq_true, if_false, parseNat_D, Option.map_some]
  · have hk1 : (k == 1) = false := by simp only [beq_eq_false_iff_ne, ne_eq, h1, not_false_eq_true]
    simp only [hk1, Bool.false_eq_true, if_false]
    by_cases h0 : k = 0
    · -- "c.."
      subst h0
      simp only [BEq.rfl, if_true]
      unfold parseBlock
      have hall : ∀ c ∈ D co ++ ['.', '.'], (c != '^') = true := by
        intro c hc
        rcases List.mem_append.mp hc with hc | hc
        · exact D_no_caret co c hc
        · simp only [List.mem_cons, List.not_mem_nil, or_false] at hc
          rcases hc with rfl | rfl <;> decide
      rw [span_all _ hall]
      simp only
      have hlen : (D co ++ ['.', '.']).length - 2 = (D co).length := by
        simp only [List.length_append, List.length_cons, List.length_nil]
        omega
      have hpos : 0 < (D co).length := List.length_pos_iff.mpr (D_ne_nil co)
      have hgt : decide ((D co ++ ['.', '.']).length > 2) = true := by
        simp only [List.length_append, List.length_cons, List.length_nil, decide_eq_true_eq]
        omega
      rw [hlen, List.drop_left, List.take_left, hgt]
      simp only [BEq.rfl, Bool.and_self, if_true, parseNat_D, Option.map_some]
    · -- "c^k"
      have hk0 : (k == 0) = false := by
        simp only [beq_eq_false_iff_ne, ne_eq, h0, not_false_eq_true]
      simp only [hk0, Bool.false_eq_true, if_false]
      unfold parseBlock
      rw [span_stop _ _ _ (D_no_caret co) (by decide)]
      simp only [parseNat_D]

/-- a block token begins with a digit, so never with `[` -/
theorem blockTok_head (b : Block) : ∃ d rest, blockTok b = d :: rest ∧ d ≠ '[' := by
  have key : ∀ (suffix : List Char), ∃ d rest, D b.color ++ suffix = d :: rest ∧ d ≠ '[' := by
    intro suffix
    cases h : D b.color with
    | nil => exact absurd h (D_ne_nil _)
    | cons d ds =>
      refine ⟨d, ds ++ suffix, rfl, ?_⟩
      have : d ∈ D b.color := by rw [h]; exact List.mem_cons_self ..
      exact (isDigit_ne d (D_isDigit _ d this)).2.2.2.1
  unfold blockTok
  split
  · simpa only [List.append_nil] using key []
  · split
    · exact key _
    · exact key _

theorem blockTok_no_blank (b : Block) : ∀ ch ∈ blockTok b, ch ≠ ' ' := by
  have hD : ∀ n, ∀ ch ∈ D n, ch ≠ ' ' := fun n ch hc => (isDigit_ne ch (D_isDigit n ch hc)).1
  intro ch
  unfold blockTok
  split
  · exact hD _ ch
  · split
    · intro hc
      rcases List.mem_append.mp hc with hc | hc
      · exact hD _ ch hc
      · simp only [List.mem_cons, List.not_mem_nil, or_false] at hc
        rcases hc with rfl | rfl <;> decide
    · intro hc
      rcases List.mem_append.mp hc with hc | hc
      · exact hD _ ch hc
      · rcases List.mem_cons.mp hc with rfl | hc
        · decide
        · exact hD _ ch hc

theorem scanTok_no_blank (s : Nat) : ∀ ch ∈ scanTok s, ch ≠ ' ' := by
  intro ch hc
  unfold scanTok at hc
  rcases List.mem_cons.mp hc with rfl | hc
  · decide
  · rcases List.mem_append.mp hc with hc | hc
    · exact (isDigit_ne ch (D_isDigit s ch hc)).1
    · simp only [List.mem_cons, List.not_mem_nil, or_false] at hc
      subst hc
      decide

/-! ### Token lists -/

theorem parseBlocks_map (r : List Block) : parseBlocks (r.map blockTok) = some r := by
  induction r with
  | nil => rfl
  | cons b bs ih => simp only [List.map_cons, parseBlocks, parseBlock_blockTok, ih]

theorem parseTapeToks_scan (s : Nat) (rest : List (List Char)) (acc : List Block) :
    parseTapeToks (scanTok s :: rest) acc = some (acc, s, rest) := by
  have htw : (D s ++ [']']).takeWhile (· != ']') = D s :=
    takeWhile_stop (p := (· != ']')) (D s) [] ']'
      (fun c hc => neq_of_ne (isDigit_ne c (D_isDigit s c hc)).2.2.2.2) (by decide)
  simp only [scanTok, parseTapeToks, htw, parseNat_D]

theorem parseTapeToks_block (b : Block) (rest : List (List Char)) (acc : List Block) :
    parseTapeToks (blockTok b :: rest) acc = parseTapeToks rest (b :: acc) := by
  obtain ⟨d, tl, htok, hd⟩ := blockTok_head b
  have hp := parseBlock_blockTok b
  rw [htok] at hp ⊢
  rw [parseTapeToks]
  · simp only [hp]
  · intro inner heq
    exact hd (List.cons.inj heq).1

theorem parseTapeToks_left (l : List Block) (s : Nat) (rest : List (List Char))
    (acc : List Block) :
    parseTapeToks (l.map blockTok ++ scanTok s :: rest) acc = some (l.reverse ++ acc, s, rest) := by
  induction l generalizing acc with
  | nil => simp only [List.map_nil, List.nil_append, List.reverse_nil, parseTapeToks_scan]
  | cons b bs ih =>
    rw [List.map_cons, List.cons_append, parseTapeToks_block, ih]
    simp only [List.reverse_cons, List.append_assoc, List.singleton_append]

/-! ### The printed tape -/

/-- the tokens of a tape, in printing order -/
def tapeToks (t : Tape) : List (List Char) :=
  t.lspan.reverse.map blockTok ++ scanTok t.scan :: t.rspan.map blockTok

theorem joinWith_eq_intercalate (toks : List (List Char)) :
    joinWith [' '] toks = [' '].intercalate toks := by
  induction toks with
  | nil => rfl
  | cons x xs ih =>
    cases xs with
    | nil => simp only [joinWith, List.intercalate_singleton]
    | cons y ys => rw [Parse.joinWith_cons_cons, ih, List.intercalate_cons_cons]

theorem Tape_show_toList (t : Tape) : t.show.toList = joinWith [' '] (tapeToks t) := by
  rw [joinWith_eq_intercalate, Tape.show, String.toList_intercalate]
  congr 1
  have hf : String.toList ∘ Block.show = blockTok := funext Block_show_toList
  simp only [tapeToks, List.map_append, List.map_reverse, List.map_map, List.map_cons,
    scan_show_toList, List.append_assoc, List.singleton_append, hf]

theorem splitOne_show (t : Tape) : splitOne t.show.toList = tapeToks t := by
  rw [Tape_show_toList]
  apply Parse.splitOne_joinWith
  · simp only [tapeToks, ne_eq, List.append_eq_nil_iff, reduceCtorEq, and_false, not_false_eq_true]
  · intro tok htok
    simp only [tapeToks, List.mem_append, List.mem_map, List.mem_cons] at htok
    rcases htok with ⟨b, _, rfl⟩ | rfl | ⟨b, _, rfl⟩
    · exact blockTok_no_blank b
    · exact scanTok_no_blank _
    · exact blockTok_no_blank b

theorem tape_parse_show' (t : Tape) : Tape.parse t.show = some t := by
  unfold Tape.parse
  rw [splitOne_show, tapeToks, parseTapeToks_left]
  simp only [List.reverse_reverse, List.append_nil, parseBlocks_map]

theorem tape_show_injective' (a b : Tape) (h : a.show = b.show) : a = b := by
  have ha := tape_parse_show' a
  rw [h, tape_parse_show' b] at ha
  exact (Option.some.inj ha).symm

end TapeParse
end BB
