/-
C03 (every rule application is a run of real machine steps): soundness of the validator
`checkApp` / `checkAppLoop` / `plainStep` of BB/Model/Validate.lean against the L0 machine.

The definitions used by the statements of BB/Props/C03.lean and BB/Props/C02.lean are at the top:
`Tape.canonB`, `OnWay`, `RunVia`, `plainIter`.
-/
import BB.Model.Validate
import BB.Lemmas.RunQuick2

namespace BB

/-! ### Definitions that are part of the statements -/

/-- Boolean version of `Tape.Canon` (both spans canonical: no empty block, adjacent blocks of
    different colours, far-end block not blank). -/
def Tape.canonB (t : Tape) : Bool := Span.canonB t.lspan && Span.canonB t.rspan

/-- What is required of a configuration met strictly inside a validated run: its instruction is
    defined (the machine does not halt there) and - when the side condition `K` holds (it will be
    "the tape the run started from was canonical") - it is not a spin-out configuration. -/
def OnWay (p : ProgF) (K : Prop) (c : Cfg) : Prop :=
  (p c.state c.scan).isSome ∧ (K → ¬ SpinOutCfg p c)

/-- `n` steps of the L0 machine from `c0` end in `e` (up to trailing blanks), and each of the `n`
    configurations met before the end (the start included) satisfies `P`. -/
def RunVia (p : ProgF) (P : Cfg → Prop) (c0 : Cfg) (n : Nat) (e : Cfg) : Prop :=
  (∃ c', stepN p n c0 = some c' ∧ c' ≈c e) ∧ ∀ j, j < n → ∃ c, stepN p j c0 = some c ∧ P c

/-- `n` cycles of the plain run-length simulator from `(q, t)`; `none` when an undefined instruction
    or a spin-out is met before `n` cycles are done. -/
def plainIter (p : Prog) : Nat → Nat → Tape → Option (Nat × Tape)
  | 0, q, t => some (q, t)
  | n + 1, q, t =>
    match plainStep p q t with
    | .next q' t' _ => plainIter p n q' t'
    | _ => none

/-! ### Booleans and propositions -/

theorem Span.canonB_iff (s : Span) : Span.canonB s = true ↔ Span.Canon s := by
  induction s with
  | nil => simp [Span.canonB, Span.Canon]
  | cons b rest ih =>
    cases rest with
    | nil => simp [Span.canonB, Span.Canon]
    | cons c r =>
      simp only [Span.canonB, Span.Canon, Bool.and_eq_true, decide_eq_true_eq, bne_iff_ne, ne_eq]
      rw [ih, and_assoc]

theorem Tape.canonB_iff (t : Tape) : t.canonB = true ↔ t.Canon := by
  simp only [Tape.canonB, Tape.Canon, Bool.and_eq_true, Span.canonB_iff]

instance (t : Tape) : Decidable t.Canon := decidable_of_iff _ (Tape.canonB_iff t)

theorem Span.allPos_iff (s : Span) : Span.allPos s = true ↔ Span.Pos s := by
  simp only [Span.allPos, Span.Pos, List.all_eq_true, bne_iff_ne, ne_eq]
  constructor
  · intro h b hb; have := h b hb; omega
  · intro h b hb; have := h b hb; omega

instance (t : Tape) : Decidable t.Pos := by
  unfold Tape.Pos Span.Pos; exact inferInstance

/-! ### ≈c-invariance -/

theorem SpinOutCfg.congr {p : ProgF} {a b : Cfg} (h : a ≈c b) (ha : SpinOutCfg p a) :
    SpinOutCfg p b := by
  obtain ⟨h0, pr, sh, hp, hz⟩ := ha
  refine ⟨h.2.1.symm.trans h0, pr, sh, ?_, ?_⟩
  · rw [← h.1]; exact hp
  · cases sh
    · exact h.2.2.1.allZero hz
    · exact h.2.2.2.allZero hz

theorem OnWay.congr {p : ProgF} {K : Prop} {a b : Cfg} (h : a ≈c b) (ha : OnWay p K a) :
    OnWay p K b := by
  refine ⟨?_, fun k hb => ha.2 k (SpinOutCfg.congr h.symm hb)⟩
  rw [← h.1, ← h.2.1]; exact ha.1

theorem OnWay.mono {p : ProgF} {K K' : Prop} (hk : K' → K) {c : Cfg} (h : OnWay p K c) :
    OnWay p K' c := ⟨h.1, fun k => h.2 (hk k)⟩

/-! ### RunVia -/

theorem RunVia.zero (p : ProgF) (P : Cfg → Prop) (c : Cfg) : RunVia p P c 0 c :=
  ⟨⟨c, rfl, Cfg.Equiv.refl _⟩, fun j hj => by omega⟩

theorem RunVia.mono {p : ProgF} {P Q : Cfg → Prop} (hPQ : ∀ c, P c → Q c) {c0 e : Cfg} {n : Nat}
    (h : RunVia p P c0 n e) : RunVia p Q c0 n e :=
  ⟨h.1, fun j hj => by obtain ⟨c, hc, hp⟩ := h.2 j hj; exact ⟨c, hc, hPQ c hp⟩⟩

theorem RunVia.end_equiv {p : ProgF} {P : Cfg → Prop} {c0 e e' : Cfg} {n : Nat}
    (h : RunVia p P c0 n e) (he : e ≈c e') : RunVia p P c0 n e' := by
  obtain ⟨⟨c', hc', hce⟩, hall⟩ := h
  exact ⟨⟨c', hc', hce.trans he⟩, hall⟩

/-- two validated runs, the second starting where the first ends, make one -/
theorem RunVia.trans {p : ProgF} {P : Cfg → Prop} (hP : ∀ a b, a ≈c b → P a → P b)
    {c0 e1 e2 : Cfg} {k d : Nat} (h1 : RunVia p P c0 k e1) (h2 : RunVia p P e1 d e2) :
    RunVia p P c0 (k + d) e2 := by
  obtain ⟨⟨c1, hc1, e1eq⟩, hall1⟩ := h1
  obtain ⟨⟨c2, hc2, e2eq⟩, hall2⟩ := h2
  obtain ⟨c2', hc2', e2'⟩ := stepN_congr e1eq.symm hc2
  refine ⟨⟨c2', stepN_add_of_eq hc1 hc2', e2'.symm.trans e2eq⟩, ?_⟩
  intro j hj
  by_cases hjk : j < k
  · exact hall1 j hjk
  · obtain ⟨j', rfl⟩ : ∃ j', j = k + j' := ⟨j - k, by omega⟩
    obtain ⟨c, hc, hp⟩ := hall2 j' (by omega)
    obtain ⟨cb, hcb, ecb⟩ := stepN_congr e1eq.symm hc
    exact ⟨cb, stepN_add_of_eq hc1 hcb, hP _ _ ecb hp⟩

/-- the same run seen from an equivalent start -/
theorem RunVia.start_equiv {p : ProgF} {P : Cfg → Prop} (hP : ∀ a b, a ≈c b → P a → P b)
    {c0 c0' e : Cfg} {n : Nat} (h : RunVia p P c0 n e) (he : c0 ≈c c0') : RunVia p P c0' n e := by
  have h0 : RunVia p P c0' 0 c0 := ⟨⟨c0', rfl, he.symm⟩, fun j hj => by omega⟩
  have := RunVia.trans hP h0 h
  rwa [Nat.zero_add] at this

/-! ### one plain cycle -/

theorem plainStep_next {p : Prog} {q : Nat} {t : Tape} {q' : Nat} {t' : Tape} {k : Nat}
    (h : plainStep p q t = .next q' t' k) :
    ∃ color shift, p.get (q, t.scan) = some (color, shift, q') ∧
      ¬ ((q == q' && t.atEdge shift) = true) ∧ t.step shift color (q == q') = (t', k) := by
  unfold plainStep at h
  cases hg : p.get (q, t.scan) with
  | none => rw [hg] at h; cases h
  | some i =>
    obtain ⟨color, shift, next⟩ := i
    rw [hg] at h
    simp only at h
    by_cases he : (q == next && t.atEdge shift) = true
    · rw [if_pos he] at h; cases h
    · rw [if_neg he] at h
      rcases hs : t.step shift color (q == next) with ⟨t1, k1⟩
      rw [hs] at h
      simp only [PlainStep.next.injEq] at h
      obtain ⟨rfl, rfl, rfl⟩ := h
      exact ⟨color, shift, rfl, he, hs⟩

theorem plainStep_undefined {p : Prog} {q : Nat} {t : Tape} {slot : Slot}
    (h : plainStep p q t = .undefined slot) : slot = (q, t.scan) ∧ p.get (q, t.scan) = none := by
  unfold plainStep at h
  cases hg : p.get (q, t.scan) with
  | none => rw [hg] at h; simp only [PlainStep.undefined.injEq] at h; exact ⟨h.symm, rfl⟩
  | some i =>
    obtain ⟨color, shift, next⟩ := i
    rw [hg] at h
    simp only at h
    split at h
    · cases h
    · rcases hs : t.step shift color (q == next) with ⟨t1, k1⟩
      rw [hs] at h; cases h

theorem plainStep_spinout {p : Prog} {q : Nat} {t : Tape} (h : plainStep p q t = .spinout) :
    ∃ color shift, p.get (q, t.scan) = some (color, shift, q) ∧ t.atEdge shift = true := by
  unfold plainStep at h
  cases hg : p.get (q, t.scan) with
  | none => rw [hg] at h; cases h
  | some i =>
    obtain ⟨color, shift, next⟩ := i
    rw [hg] at h
    simp only at h
    by_cases he : (q == next && t.atEdge shift) = true
    · simp only [Bool.and_eq_true, beq_iff_eq] at he
      obtain ⟨rfl, hat⟩ := he
      exact ⟨color, shift, rfl, hat⟩
    · rw [if_neg he] at h
      rcases hs : t.step shift color (q == next) with ⟨t1, k1⟩
      rw [hs] at h; cases h

/-- **One plain cycle is a run of real steps**: `k ≥ 1` of them, through configurations with a
    defined instruction which (when the tape is canonical) are not spin-out configurations. -/
theorem plainStep_sound {p : Prog} {q : Nat} {t : Tape} {q' : Nat} {t' : Tape} {k : Nat}
    (hpos : t.Pos) (h : plainStep p q t = .next q' t' k) :
    0 < k ∧ t'.Pos ∧ (t.Canon → t'.Canon) ∧
      RunVia p.toF (OnWay p.toF t.Canon) (t.toCfg q) k (t'.toCfg q') := by
  obtain ⟨color, shift, hget, hedge, hstep⟩ := plainStep_next h
  have hi : p.toF q t.scan = some (color, shift, q') := hget
  obtain ⟨hk, hmid, hend, hpos'⟩ := Tape.step_refines p.toF t q color shift q' hpos hi
  rw [hstep] at hk hmid hend hpos'
  refine ⟨hk, hpos', ?_, hend, ?_⟩
  · intro hc
    have := Tape.canon_step hc shift color (q == q')
    rwa [hstep] at this
  · intro j hj
    obtain ⟨c, hc, hs, hsc⟩ := hmid j hj
    refine ⟨c, hc, ?_, ?_⟩
    · rw [hs, hsc, hi]; rfl
    · intro hcan hspin
      obtain ⟨c1, hc1, _, _, hz, _⟩ :=
        Tape.step_mid p.toF t q color shift q' hcan hi j (by rw [hstep]; exact hj)
      rw [hc] at hc1
      simp only [Option.some.injEq] at hc1
      subst hc1
      obtain ⟨h0, pr, sh, hp, haz⟩ := hspin
      have ht0 : t.scan = 0 := hsc.symm.trans h0
      rw [hs, ← ht0, hi] at hp
      simp only [Option.some.injEq, Prod.mk.injEq] at hp
      obtain ⟨_, rfl, rfl⟩ := hp
      apply hedge
      simp only [Bool.and_eq_true, beq_iff_eq, true_and]
      exact hz ht0 haz

/-! ### the loop of `checkApp` -/

theorem checkAppLoop_sound (p : Prog) (q : Nat) (after : Tape) (K : Prop) :
    ∀ (fuel cycles steps cur : Nat) (t : Tape) (C S : Nat), t.Pos → (K → t.Canon) →
      checkAppLoop p q after fuel cycles steps cur t = .ok C S →
      ∃ d, S = steps + d ∧ cycles < C ∧ C ≤ cycles + fuel ∧ C - cycles ≤ d ∧
        RunVia p.toF (OnWay p.toF K) (t.toCfg cur) d (after.toCfg q) ∧ (K → after.Canon) := by
  intro fuel
  induction fuel with
  | zero => intro cycles steps cur t C S _ _ h; simp only [checkAppLoop] at h; cases h
  | succ fuel ih =>
    intro cycles steps cur t C S hpos hK h
    simp only [checkAppLoop] at h
    cases hps : plainStep p cur t with
    | undefined slot => rw [hps] at h; cases h
    | spinout => rw [hps] at h; cases h
    | next cur' t' k =>
      rw [hps] at h
      simp only at h
      obtain ⟨hk, hpos', hcan', hrun⟩ := plainStep_sound hpos hps
      have hrunK : RunVia p.toF (OnWay p.toF K) (t.toCfg cur) k (t'.toCfg cur') :=
        hrun.mono fun c hc => hc.mono hK
      by_cases hhit : (cur' == q && t' == after) = true
      · rw [if_pos hhit] at h
        simp only [AppRes.ok.injEq] at h
        obtain ⟨rfl, rfl⟩ := h
        simp only [Bool.and_eq_true, beq_iff_eq] at hhit
        obtain ⟨rfl, rfl⟩ := hhit
        exact ⟨k, rfl, by omega, by omega, by omega, hrunK, fun hk' => hcan' (hK hk')⟩
      · rw [if_neg hhit] at h
        obtain ⟨d, hS, hlt, hle, hcd, hrun', hcanA⟩ :=
          ih (cycles + 1) (steps + k) cur' t' C S hpos' (fun hk' => hcan' (hK hk')) h
        refine ⟨k + d, by omega, by omega, by omega, by omega, ?_, hcanA⟩
        exact RunVia.trans (fun a b hab => OnWay.congr hab) hrunK hrun'

/-- **check_app_sound**, lemma form. -/
theorem check_app_sound' (p : Prog) (q : Nat) (before after : Tape) (budget cycles steps : Nat)
    (hpos : before.Pos) (h : checkApp p q before after budget = .ok cycles steps) :
    1 ≤ cycles ∧ cycles ≤ budget ∧ cycles ≤ steps ∧
      RunVia p.toF (OnWay p.toF before.Canon) (before.toCfg q) steps (after.toCfg q) ∧
      after.Pos ∧ (before.Canon → after.Canon) := by
  unfold checkApp at h
  by_cases hc : (!(Span.allPos after.lspan && Span.allPos after.rspan)) = true
  · rw [if_pos hc] at h; cases h
  · rw [if_neg hc] at h
    simp only [Bool.not_eq_true', Bool.not_eq_false, Bool.and_eq_true, Span.allPos_iff] at hc
    obtain ⟨d, hS, hlt, hle, hcd, hrun, hcan⟩ :=
      checkAppLoop_sound p q after before.Canon budget 0 0 q before cycles steps hpos id h
    have : steps = d := by omega
    subst this
    exact ⟨by omega, by omega, by omega, hrun, hc, hcan⟩

/-! ### completeness of `checkApp` (sanity) -/

theorem checkAppLoop_complete (p : Prog) (q : Nat) (after : Tape) :
    ∀ (n fuel cycles steps cur : Nat) (t : Tape), n + 1 ≤ fuel →
      plainIter p (n + 1) cur t = some (q, after) →
      ∃ C S, checkAppLoop p q after fuel cycles steps cur t = .ok C S ∧ C ≤ cycles + n + 1 := by
  intro n
  induction n with
  | zero =>
    intro fuel cycles steps cur t hf h
    obtain ⟨fuel, rfl⟩ : ∃ f, fuel = f + 1 := ⟨fuel - 1, by omega⟩
    simp only [plainIter] at h
    simp only [checkAppLoop]
    cases hps : plainStep p cur t with
    | undefined slot => rw [hps] at h; cases h
    | spinout => rw [hps] at h; cases h
    | next cur' t' k =>
      rw [hps] at h
      simp only [Option.some.injEq, Prod.mk.injEq] at h
      obtain ⟨rfl, rfl⟩ := h
      simp only [beq_self_eq_true, Bool.and_self, if_true]
      exact ⟨_, _, rfl, by omega⟩
  | succ n ih =>
    intro fuel cycles steps cur t hf h
    obtain ⟨fuel, rfl⟩ : ∃ f, fuel = f + 1 := ⟨fuel - 1, by omega⟩
    rw [plainIter] at h
    simp only [checkAppLoop]
    cases hps : plainStep p cur t with
    | undefined slot => rw [hps] at h; cases h
    | spinout => rw [hps] at h; cases h
    | next cur' t' k =>
      rw [hps] at h
      simp only at h ⊢
      by_cases hhit : (cur' == q && t' == after) = true
      · rw [if_pos hhit]; exact ⟨_, _, rfl, by omega⟩
      · rw [if_neg hhit]
        obtain ⟨C, S, hC, hle⟩ := ih fuel (cycles + 1) (steps + k) cur' t' (by omega) h
        exact ⟨C, S, hC, by omega⟩

/-- **check_app_complete**, lemma form. -/
theorem check_app_complete' (p : Prog) (q : Nat) (before after : Tape) (budget n : Nat)
    (hafter : after.Pos) (hn : 1 ≤ n) (hb : n ≤ budget)
    (h : plainIter p n q before = some (q, after)) :
    ∃ cycles steps, checkApp p q before after budget = .ok cycles steps ∧ cycles ≤ n := by
  obtain ⟨n, rfl⟩ : ∃ m, n = m + 1 := ⟨n - 1, by omega⟩
  obtain ⟨C, S, hC, hle⟩ := checkAppLoop_complete p q after n budget 0 0 q before hb h
  refine ⟨C, S, ?_, by omega⟩
  unfold checkApp
  have : (!(Span.allPos after.lspan && Span.allPos after.rspan)) = false := by
    simp only [Bool.not_eq_false', Bool.and_eq_true, Span.allPos_iff]
    exact hafter
  rw [this]
  exact hC

end BB
