/-
C04 support, part 9: two syntactic invariants of the tapes of the search.
* `J`: an indefinite block is followed by a block of another colour, or it is the last block, of a
  non-zero colour, before a `blanks` end.  Hence a blank tape has no indefinite block.
* `HasIndef`: an indefinite block is never removed.
-/
import BB.Lemmas.ReasonDet

namespace BB.Reason

open BB

def JL : List Block → TapeEnd → Prop
  | [], _ => True
  | b :: rest, e =>
    (b.count = 0 → match rest with
      | [] => e = TapeEnd.blanks ∧ b.color ≠ 0
      | b2 :: _ => b2.color ≠ b.color) ∧ JL rest e

def JS (s : Span) : Prop := JL s.span s.end_

def J (t : Backstepper) : Prop := JS t.lspan ∧ JS t.rspan

theorem JS_pull {s : Span} (h : JS s) (hi : s.headIndef = false) : JS s.pull := by
  obtain ⟨bs, e⟩ := s
  cases bs with
  | nil => exact h
  | cons b rest =>
    simp only [Span.headIndef, beq_eq_false_iff_ne, ne_eq] at hi
    simp only [JS, Span.pull]
    split
    · exact h.2
    · have e0 : (b.count == 0) = false := by simp [hi]
      simp only [e0, Bool.false_eq_true, if_false]
      refine ⟨fun h0 => ?_, h.2⟩
      simp only at h0
      rename_i h1
      have : b.count ≠ 1 := by simpa using h1
      omega

theorem JS_push {s : Span} (h : JS s) (c : Nat) : JS (s.push c 1) := by
  obtain ⟨bs, e⟩ := s
  cases bs with
  | nil =>
    simp only [Span.push]
    split
    · exact h
    · exact ⟨fun h0 => absurd h0 (Nat.succ_ne_zero 0), h⟩
  | cons b rest =>
    simp only [Span.push]
    split
    · rename_i hc
      simp only [Bool.and_eq_true, bne_iff_ne, ne_eq] at hc
      refine ⟨fun h0 => ?_, h.2⟩
      simp only at h0
      omega
    · exact ⟨fun h0 => absurd h0 (Nat.succ_ne_zero 0), h⟩

theorem JS_pushIndef {s : Span} (h : JS s) {c : Nat} (hm : s.matchesColor c = false) :
    JS (s.pushBlock c 0) := by
  obtain ⟨bs, e⟩ := s
  cases bs with
  | nil =>
    refine ⟨fun _ => ?_, h⟩
    simp only [Span.matchesColor] at hm
    cases e with
    | unknown => simp [TapeEnd.matchesColor] at hm
    | blanks =>
      simp only [TapeEnd.matchesColor, beq_eq_false_iff_ne, ne_eq] at hm
      exact ⟨rfl, hm⟩
  | cons b rest =>
    refine ⟨fun _ => ?_, h⟩
    simp only [Span.matchesColor, beq_eq_false_iff_ne, ne_eq] at hm
    exact hm

theorem J_backstep {t : Backstepper} (h : J t) {sh : Bool} (hi : t.pullsIndef sh = false) (r : Nat) :
    J (t.backstep sh r) := by
  cases sh
  · simp only [J, Backstepper.backstep, Bool.false_eq_true, if_false]
    exact ⟨JS_push h.1 _, JS_pull h.2 hi⟩
  · simp only [J, Backstepper.backstep, if_true]
    exact ⟨JS_pull h.1 hi, JS_push h.2 _⟩

theorem J_pushIndef {t : Backstepper} (h : J t) {sh : Bool}
    (hm : (t.pushSpan sh).matchesColor t.scan = false) : J (t.pushIndef sh) := by
  cases sh
  · simp only [J, Backstepper.pushIndef, Bool.false_eq_true, if_false]
    exact ⟨JS_pushIndef h.1 hm, h.2⟩
  · simp only [J, Backstepper.pushIndef, if_true]
    exact ⟨h.1, JS_pushIndef h.2 hm⟩

theorem JL_blank_noIndef : ∀ (bs : List Block) (e : TapeEnd), JL bs e →
    (∀ b ∈ bs, b.color = 0) → ∀ b ∈ bs, b.count ≠ 0 := by
  intro bs
  induction bs with
  | nil => intro e _ _ b hb; cases hb
  | cons b0 rest ih =>
    intro e h hz b hb
    rcases List.mem_cons.1 hb with rfl | hb'
    · intro h0
      have := h.1 h0
      cases rest with
      | nil => exact this.2 (hz b List.mem_cons_self)
      | cons b2 rest' =>
        simp only at this
        rw [hz b List.mem_cons_self, hz b2 (List.mem_cons_of_mem _ List.mem_cons_self)] at this
        exact this rfl
    · exact ih e h.2 (fun b hb => hz b (List.mem_cons_of_mem _ hb)) b hb'

/-! ### indefinite blocks stay -/

def SHasIndef (s : Span) : Prop := ∃ b ∈ s.span, b.count = 0

def HasIndef (t : Backstepper) : Prop := SHasIndef t.lspan ∨ SHasIndef t.rspan

theorem SHasIndef_pull {s : Span} (h : SHasIndef s) (hi : s.headIndef = false) :
    SHasIndef s.pull := by
  obtain ⟨bs, e⟩ := s
  obtain ⟨b, hb, h0⟩ := h
  cases bs with
  | nil => cases hb
  | cons b0 rest =>
    simp only [Span.headIndef, beq_eq_false_iff_ne, ne_eq] at hi
    have hrest : b ∈ rest := by
      rcases List.mem_cons.1 hb with rfl | h
      · exact absurd h0 hi
      · exact h
    simp only [SHasIndef, Span.pull]
    split
    · exact ⟨b, hrest, h0⟩
    · have e0 : (b0.count == 0) = false := by simp [hi]
      simp only [e0, Bool.false_eq_true, if_false]
      exact ⟨b, List.mem_cons_of_mem _ hrest, h0⟩

theorem SHasIndef_push {s : Span} (h : SHasIndef s) (c : Nat) : SHasIndef (s.push c 1) := by
  obtain ⟨bs, e⟩ := s
  obtain ⟨b, hb, h0⟩ := h
  cases bs with
  | nil => cases hb
  | cons b0 rest =>
    simp only [SHasIndef, Span.push]
    split
    · rename_i hc
      simp only [Bool.and_eq_true, bne_iff_ne, ne_eq] at hc
      rcases List.mem_cons.1 hb with rfl | h
      · exact absurd h0 hc.2
      · exact ⟨b, List.mem_cons_of_mem _ h, h0⟩
    · exact ⟨b, List.mem_cons_of_mem _ hb, h0⟩

theorem HasIndef_backstep {t : Backstepper} (h : HasIndef t) {sh : Bool}
    (hi : t.pullsIndef sh = false) (r : Nat) : HasIndef (t.backstep sh r) := by
  cases sh
  · simp only [HasIndef, Backstepper.backstep, Bool.false_eq_true, if_false]
    rcases h with h | h
    · exact Or.inl (SHasIndef_push h _)
    · exact Or.inr (SHasIndef_pull h hi)
  · simp only [HasIndef, Backstepper.backstep, if_true]
    rcases h with h | h
    · exact Or.inl (SHasIndef_pull h hi)
    · exact Or.inr (SHasIndef_push h _)

theorem HasIndef_pushIndef (t : Backstepper) (sh : Bool) : HasIndef (t.pushIndef sh) := by
  cases sh
  · exact Or.inl ⟨⟨t.scan, 0⟩, List.mem_cons_self, rfl⟩
  · exact Or.inr ⟨⟨t.scan, 0⟩, List.mem_cons_self, rfl⟩

theorem blank_noIndef {t : Backstepper} (hb : t.blank = true) (hj : J t) : ¬ HasIndef t := by
  simp only [Backstepper.blank, Span.blank, Bool.and_eq_true, beq_iff_eq, List.all_eq_true] at hb
  rintro (⟨b, hm, h0⟩ | ⟨b, hm, h0⟩)
  · exact JL_blank_noIndef _ _ hj.1 hb.1.2 b hm h0
  · exact JL_blank_noIndef _ _ hj.2 hb.2 b hm h0

/-- the all-zero configuration is in γ of every blank tape -/
theorem gammaT_blank {q : Nat} {t : Backstepper} (hb : t.blank = true) :
    GammaT q t ⟨q, [], 0, []⟩ := by
  simp only [Backstepper.blank, Span.blank, Bool.and_eq_true, beq_iff_eq, List.all_eq_true] at hb
  exact ⟨rfl, hb.1.1.symm, SpanMatch.of_all_zero hb.1.2 (fun i => cellAt_nil i),
    SpanMatch.of_all_zero hb.2 (fun i => cellAt_nil i)⟩

theorem sideSub_self (s : Span) : sideSub s s = true := by
  simp only [sideSub]
  cases s.end_ <;> simp

theorem blankSub_of_sameSpans {t1 t2 : Backstepper} (h : SameSpans t1 t2) :
    blankSub t1 t2 = true := by
  obtain ⟨_, h2, h3⟩ := h
  simp only [blankSub, h2, h3, sideSub_self, Bool.and_self]

end BB.Reason
