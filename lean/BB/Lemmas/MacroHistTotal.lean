/-
C16 — when the stateless reference errs (never, for a base table, sizes ≥ 1 and the repaired
split); corollaries of `get_instr_pure'`: totality, repetition, order; decoding of handed-out
colours; two objects over one base table.
-/
import BB.Lemmas.MacroHistMain

namespace BB.Macros

/-! ### the stateless reference over an inner program that never errs -/

theorem histIndep_pureGet (f : Slot → Res (Option Instr)) :
    HistIndep (pureGet f) f TrueInv TrueLeg TrueLeg := by
  refine ⟨fun _ _ => ⟨trivial, trivial⟩, ?_⟩
  intro st q c _ _ _
  cases st
  cases h : pureGet f () (q, c) with
  | error e => exact Agree.error rfl
  | ok r =>
    rcases r with ⟨a, u⟩
    exact Agree.ok () rfl ⟨trivial, Mono.refl .., fun _ _ _ _ => ⟨trivial, trivial⟩⟩

theorem simLoop_noerr (f : Slot → Res (Option Instr)) (hf : ∀ s, ∃ a, f s = .ok a) :
    ∀ (fuel state : Nat) (w : Win), ∃ r, simLoop (pureGet f) fuel () state w = .ok (r, ()) := by
  intro fuel
  induction fuel with
  | zero => intro state w; exact ⟨none, rfl⟩
  | succ fuel ih =>
    intro state w
    obtain ⟨a, ha⟩ := hf (state, w.scan)
    simp only [simLoop, pureGet, ha]
    cases a with
    | none => exact ⟨none, rfl⟩
    | some instr =>
      simp only
      cases simStep state w instr with
      | exit cfg => exact ⟨some cfg, rfl⟩
      | cont s' w' => exact ih s' w'

theorem runSimulator_noerr (f : Slot → Res (Option Instr)) (hf : ∀ s, ∃ a, f s = .ok a)
    (simLim : Nat) (cfg : Config) (hne : 0 < cfg.2.2.length) :
    ∃ r, runSimulator (pureGet f) simLim () cfg = .ok (r, ()) := by
  rcases cfg with ⟨state, rightEdge, tape⟩
  simp only at hne
  simp only [runSimulator]
  cases rightEdge with
  | true =>
    simp only [if_true, Win.atRight]
    cases hrev : tape.reverse with
    | nil =>
      have := congrArg List.length hrev
      simp only [List.length_reverse, List.length_nil] at this
      omega
    | cons c rest => exact simLoop_noerr f hf simLim state _
  | false =>
    simp only [Bool.false_eq_true, if_false]
    cases tape with
    | nil => simp only [List.length_nil] at hne; omega
    | cons c rest => exact simLoop_noerr f hf simLim state _

theorem pureDeconstruct_ok (lp : LogicParams) (hb : 0 < lp.baseColors) (slot : Slot) :
    ∃ cfg, pureDeconstructInputs lp slot = .ok cfg ∧ cfg.2.2.length = lp.window := by
  unfold pureDeconstructInputs LogicParams.window
  cases lp.kind with
  | block => exact ⟨_, rfl, decode_length ..⟩
  | backsymbol =>
    have hbs : (lp.backsymbols == 0) = false := by
      have : 0 < lp.backsymbols := Nat.pow_pos hb
      simp only [beq_eq_false_iff_ne]; omega
    simp only [hbs, Bool.false_eq_true, if_false]
    refine ⟨_, rfl, ?_⟩
    split
    · simp only [List.length_cons, decode_length]
    · simp only [List.length_append, List.length_singleton, decode_length]

/-- no error: inner program never errs, at least one base colour, a non-empty window, and the
    repaired split for the backsymbol macro -/
theorem pureInstr_ok (f : Slot → Res (Option Instr)) (hf : ∀ s, ∃ a, f s = .ok a)
    (lp : LogicParams) (fixF3 : Bool) (hb : 0 < lp.baseColors) (hw : 0 < lp.window)
    (hfix : fixOk lp fixF3 = true) (slot : Slot) : ∃ a, pureInstr f lp fixF3 slot = .ok a := by
  obtain ⟨cfg, hdec, hlen⟩ := pureDeconstruct_ok lp hb slot
  obtain ⟨r, hr⟩ := runSimulator_noerr f hf lp.simLim cfg (by rw [hlen]; exact hw)
  have hpost := runSimulator_pure (histIndep_pureGet f) lp.simLim () cfg trivial trivial
    (fun _ _ => trivial)
  obtain ⟨_, _, _, _, hout⟩ := hpost.of_ok hr
  cases r with
  | none => exact ⟨none, by simp only [pureInstr, hdec, hr]⟩
  | some out =>
    obtain ⟨_, holen, _⟩ := hout out rfl
    rw [hlen] at holen
    rcases out with ⟨state, rightEdge, tape⟩
    simp only at holen
    unfold LogicParams.window at holen
    cases hk : lp.kind with
    | block =>
      refine ⟨some (encode lp.baseColors tape, rightEdge, 2 * state + (if rightEdge then 0 else 1)), ?_⟩
      simp only [pureInstr, hdec, hr, pureReconstructOutputs, hk]
    | backsymbol =>
      have hfix' : fixF3 = true := fixOk_imp hfix hk
      subst hfix'
      simp only [hk] at holen
      obtain ⟨backspan, mc, hsplit, _⟩ := backsymbolSplit_fix lp.cells (!rightEdge) tape holen
      refine ⟨some (mc, !rightEdge, (if (!rightEdge) = true then 1 else 0) +
        2 * (state * lp.backsymbols + encode lp.baseColors backspan)), ?_⟩
      simp only [pureInstr, hdec, hr, pureReconstructOutputs, hk, hsplit]

theorem getInstrs_pureGet_ok (g : Slot → Res (Option Instr)) (hg : ∀ s, ∃ a, g s = .ok a) :
    ∀ qs : List Slot, ∃ as, getInstrs (pureGet g) () qs = .ok (as, ()) := by
  intro qs
  induction qs with
  | nil => exact ⟨[], rfl⟩
  | cons s rest ih =>
    obtain ⟨a, ha⟩ := hg s
    obtain ⟨as, has⟩ := ih
    exact ⟨a :: as, by simp only [getInstrs, pureGet, ha, has]⟩

theorem progFn_ok (p : Prog) : ∀ s, ∃ a, progFn p s = .ok a := fun s => ⟨p.get s, rfl⟩

/-! ### one level: corollaries -/

section One

variable (p : Prog) (lp : LogicParams) (fixF3 : Bool)

/-- the answers of a successful legal run are the stateless answers -/
theorem get_instr_answers' (hb : 0 < lp.baseColors) (hcol : progColorsLt p lp.baseColors = true)
    (hfix : fixOk lp fixF3 = true) (m : MacroProg Prog) (hI : Inv p lp fixF3 m) (qs : List Slot)
    (hl : legalSeq (macroGet compGet fixF3) slotLegal m qs = true)
    (as : List (Option Instr)) (m' : MacroProg Prog)
    (hrun : getInstrs (macroGet compGet fixF3) m qs = .ok (as, m')) :
    Inv p lp fixF3 m' ∧ AnswersAre (pure1 p lp fixF3) qs as := by
  obtain ⟨u, hpure, hI', _⟩ := (get_instr_pure' p lp fixF3 hb hcol hfix m hI qs hl).of_ok hrun
  exact ⟨hI', pureAnswers_are _ qs as (by simp only [pureAnswers, hpure, answers])⟩

theorem get_instr_total' (hb : 0 < lp.baseColors) (hcol : progColorsLt p lp.baseColors = true)
    (hfix : fixOk lp fixF3 = true) (hw : 0 < lp.window) (m : MacroProg Prog)
    (hI : Inv p lp fixF3 m) (qs : List Slot)
    (hl : legalSeq (macroGet compGet fixF3) slotLegal m qs = true) :
    ∃ as m', getInstrs (macroGet compGet fixF3) m qs = .ok (as, m') ∧ Inv p lp fixF3 m' ∧
      AnswersAre (pure1 p lp fixF3) qs as := by
  obtain ⟨as, has⟩ := getInstrs_pureGet_ok (pure1 p lp fixF3)
    (pureInstr_ok (progFn p) (progFn_ok p) lp fixF3 hb hw hfix) qs
  have h := get_instr_pure' p lp fixF3 hb hcol hfix m hI qs hl
  rw [has] at h
  obtain ⟨m', h1, _⟩ := h
  exact ⟨as, m', h1, get_instr_answers' p lp fixF3 hb hcol hfix m hI qs hl as m' h1⟩

theorem get_instr_order_irrelevant' (hb : 0 < lp.baseColors)
    (hcol : progColorsLt p lp.baseColors = true) (hfix : fixOk lp fixF3 = true)
    (m1 m2 : MacroProg Prog) (hI1 : Inv p lp fixF3 m1) (hI2 : Inv p lp fixF3 m2)
    (qs1 qs2 : List Slot)
    (hl1 : legalSeq (macroGet compGet fixF3) slotLegal m1 qs1 = true)
    (hl2 : legalSeq (macroGet compGet fixF3) slotLegal m2 qs2 = true)
    (as1 as2 : List (Option Instr)) (m1' m2' : MacroProg Prog)
    (h1 : getInstrs (macroGet compGet fixF3) m1 qs1 = .ok (as1, m1'))
    (h2 : getInstrs (macroGet compGet fixF3) m2 qs2 = .ok (as2, m2'))
    (i j : Nat) (s : Slot) (hi : qs1[i]? = some s) (hj : qs2[j]? = some s) :
    ∃ a, as1[i]? = some a ∧ as2[j]? = some a ∧ pure1 p lp fixF3 s = .ok a := by
  obtain ⟨_, ha1⟩ := get_instr_answers' p lp fixF3 hb hcol hfix m1 hI1 qs1 hl1 as1 m1' h1
  obtain ⟨_, ha2⟩ := get_instr_answers' p lp fixF3 hb hcol hfix m2 hI2 qs2 hl2 as2 m2' h2
  obtain ⟨a1, e1, f1⟩ := ha1.getElem? i s hi
  obtain ⟨a2, e2, f2⟩ := ha2.getElem? j s hj
  rw [f1] at f2
  cases f2
  exact ⟨a1, e1, e2, f1⟩

/-- every handed-out colour is cached with the tape it was made from, which is its positional
    decoding -/
theorem handed_out_decodes' (m : MacroProg Prog) (hI : Inv p lp fixF3 m) (c : Nat)
    (hc : handedOut m c = true) :
    ∃ t, m.logic.converter.colorToTape c = .ok t ∧ t = decode lp.baseColors lp.cells c ∧
      encode lp.baseColors t = c ∧ c < lp.baseColors ^ lp.cells ∧ t.length = lp.cells ∧
      (∀ x ∈ t, x < lp.baseColors) ∧
      (c ≠ 0 → (m.logic.converter.tapeToColor t) = (c, m.logic.converter)) := by
  obtain ⟨t, ht⟩ := (handedOut_iff m c).1 hc
  obtain ⟨hd, hlt⟩ := hI.cache.decode ht
  obtain ⟨hlen, hr, he⟩ := hI.cache.c2t c t ht
  refine ⟨t, by simp only [TapeColorConverter.colorToTape, ht], hd, he, hlt, hlen, hr, ?_⟩
  intro hc0
  rcases hI.cache.c2t_t2c c t ht with h | h
  · exact absurd h hc0
  · simp only [TapeColorConverter.tapeToColor, h]

end One

/-! ### two objects over base tables -/

theorem get_instr_two_objects_pure' (p : Prog) (lp1 lp2 : LogicParams) (fixF3 : Bool)
    (hb1 : 0 < lp1.baseColors) (hb2 : 0 < lp2.baseColors)
    (hcol1 : progColorsLt p lp1.baseColors = true) (hcol2 : progColorsLt p lp2.baseColors = true)
    (hfix1 : fixOk lp1 fixF3 = true) (hfix2 : fixOk lp2 fixF3 = true)
    (qs : List (Bool × Slot))
    (hl1 : legalSeq (macroGet compGet fixF3) slotLegal (freshMacro p lp1) (slotsOf false qs) = true)
    (hl2 : legalSeq (macroGet compGet fixF3) slotLegal (freshMacro p lp2) (slotsOf true qs) = true)
    (as : List (Option Instr)) (m1 m2 : MacroProg Prog)
    (hrun : getInstrsTwo (macroGet compGet fixF3) (macroGet compGet fixF3)
      (freshMacro p lp1, freshMacro p lp2) qs = .ok (as, (m1, m2))) :
    AnswersAre (pure1 p lp1 fixF3) (slotsOf false qs) (pickAnswers false qs as) ∧
    AnswersAre (pure1 p lp2 fixF3) (slotsOf true qs) (pickAnswers true qs as) := by
  obtain ⟨h1, h2⟩ := getInstrsTwo_ok _ _ qs _ _ as m1 m2 hrun
  exact ⟨(get_instr_answers' p lp1 fixF3 hb1 hcol1 hfix1 _ (inv_init' p lp1 fixF3 hb1) _ hl1 _ _ h1).2,
    (get_instr_answers' p lp2 fixF3 hb2 hcol2 hfix2 _ (inv_init' p lp2 fixF3 hb2) _ hl2 _ _ h2).2⟩

end BB.Macros
