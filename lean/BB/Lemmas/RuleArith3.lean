/-
C11 (rule arithmetic is exact), part 3: `get_count`, `count_apps`.
-/
import BB.Lemmas.RuleArith2

namespace BB.RuleArith

open BB

/-! ### get_count -/

theorem getCount_eq (t : Tape) (idx : Index) :
    t.getCount idx = match (tspan t idx.1)[idx.2]? with
      | some b => .ok b.count
      | none => .error (.panic "index out of bounds") := rfl

theorem getCount_ok_iff (t : Tape) (idx : Index) (c : Nat) :
    t.getCount idx = .ok c ↔ ∃ b, (tspan t idx.1)[idx.2]? = some b ∧ b.count = c := by
  rw [getCount_eq]
  split
  · next b hb => simp [hb]
  · next hb => simp [hb]

theorem getCount_inRange {t : Tape} {idx : Index} (h : InRange t idx) :
    ∃ c, t.getCount idx = .ok c := by
  unfold InRange at h
  rw [getCount_eq, List.getElem?_eq_getElem h]
  exact ⟨_, rfl⟩

theorem inRange_of_getCount {t : Tape} {idx : Index} {c : Nat} (h : t.getCount idx = .ok c) :
    InRange t idx := by
  obtain ⟨b, hb, _⟩ := (getCount_ok_iff t idx c).mp h
  unfold InRange
  exact (List.getElem?_eq_some_iff.mp hb).1

theorem getCount_not_inRange {t : Tape} {idx : Index} (h : ¬ InRange t idx) :
    t.getCount idx = .error (.panic "index out of bounds") := by
  unfold InRange at h
  rw [getCount_eq, List.getElem?_eq_none (by omega)]

/-! ### the arithmetic of one decreasing block -/

/-- `(count - 1) / absdiff`: the largest number of subtractions of `absdiff` that leave at least
    one cell -/
def maxApps (count absdiff : Nat) : Nat := (count - 1) / absdiff

theorem le_maxApps_iff {count ad : Nat} (had : 0 < ad) (hc : 1 ≤ count) (n : Nat) :
    n ≤ maxApps count ad ↔ ad * n + 1 ≤ count := by
  unfold maxApps
  rw [Nat.le_div_iff_mul_le had, Nat.mul_comm]
  omega

theorem timesMinRes_eq {count ad : Nat} (had : 0 < ad) (hlt : ad < count) :
    timesMinRes (count / ad) (count % ad) ad
      = .ok (maxApps count ad, count - ad * maxApps count ad) := by
  have hdm := Nat.div_add_mod count ad
  have hr := Nat.mod_lt count had
  generalize count / ad = q at hdm ⊢
  generalize count % ad = r at hdm hr ⊢
  unfold timesMinRes maxApps
  by_cases hrem : r > 0
  · rw [if_pos hrem]
    have : (count - 1) / ad = q ∧ (count - 1) % ad = r - 1 :=
      (Nat.div_mod_unique had).mpr ⟨by omega, by omega⟩
    rw [this.1]
    congr 2
    omega
  · rw [if_neg hrem]
    have hr0 : r = 0 := by omega
    subst hr0
    have hq : 2 ≤ q := by
      rcases Nat.lt_or_ge q 2 with h | h
      · have : q = 0 ∨ q = 1 := by omega
        rcases this with h | h <;> subst h <;> omega
      · exact h
    have hne : ¬ (q == 0) = true := by rw [beq_iff_eq]; omega
    rw [if_neg hne]
    obtain ⟨q', rfl⟩ : ∃ q', q = q' + 1 := ⟨q - 1, by omega⟩
    rw [Nat.mul_succ] at hdm
    have : (count - 1) / ad = q' ∧ (count - 1) % ad = ad - 1 :=
      (Nat.div_mod_unique had).mpr ⟨by omega, by omega⟩
    rw [this.1]
    congr 2
    omega

theorem one_le_maxApps {count ad : Nat} (had : 0 < ad) (hlt : ad < count) :
    1 ≤ maxApps count ad := by
  rw [le_maxApps_iff had (by omega)]; omega

/-! ### updateApps -/

theorem updateApps_cases (apps : Option Apps) (times : Nat) (pos : Index) (minRes : Nat) :
    ∃ a, updateApps apps times pos minRes = some a ∧ a.1 ≤ times ∧
      ((a = (times, pos, minRes) ∧ ∀ b, apps = some b → times < b.1) ∨ apps = some a) := by
  unfold updateApps
  cases apps with
  | none => exact ⟨_, rfl, Nat.le_refl _, Or.inl ⟨rfl, fun b hb => (by cases hb)⟩⟩
  | some b =>
    obtain ⟨curr, p, m⟩ := b
    simp only
    by_cases h : times < curr
    · rw [if_pos h]
      exact ⟨_, rfl, Nat.le_refl _, Or.inl ⟨rfl, fun b hb => (by cases hb; exact h)⟩⟩
    · rw [if_neg h]
      exact ⟨_, rfl, by simp only; omega, Or.inr rfl⟩

/-! ### the loop of count_apps -/

/-- what a `Some` result of the loop says -/
theorem loop_some (t : Tape) (rule : Rule) (apps : Option Apps) (T : Nat) (P : Index) (M : Nat)
    (h : countAppsLoop t rule apps = .ok (some (T, P, M))) :
    AllPlus rule ∧
      (∀ idx δ, (idx, Op.plus δ) ∈ rule → δ < 0 →
        ∃ c, t.getCount idx = .ok c ∧ δ.natAbs < c ∧ T ≤ maxApps c δ.natAbs) ∧
      (apps = some (T, P, M) ∨
        ∃ pre δ post c, rule = pre ++ (P, Op.plus δ) :: post ∧ δ < 0 ∧ t.getCount P = .ok c ∧
          δ.natAbs < c ∧ T = maxApps c δ.natAbs ∧ M = c - δ.natAbs * T ∧
          (∀ idx' δ', (idx', Op.plus δ') ∈ pre → δ' < 0 →
            ∃ c', t.getCount idx' = .ok c' ∧ T < maxApps c' δ'.natAbs) ∧
          (∀ a, apps = some a → T < a.1)) := by
  induction rule generalizing apps with
  | nil =>
    simp only [countAppsLoop] at h
    injection h with h
    exact ⟨fun e he => (by cases he), fun _ _ hm => (by cases hm), Or.inl h⟩
  | cons e rest ih =>
    obtain ⟨pos, op⟩ := e
    cases op with
    | mult q r => simp only [countAppsLoop] at h; cases h
    | plus diff =>
      simp only [countAppsLoop] at h
      split at h
      · next hnn =>
        -- non-decreasing entry: skipped
        obtain ⟨h1, h2, h3⟩ := ih apps h
        refine ⟨?_, ?_, ?_⟩
        · intro e he
          rcases List.mem_cons.mp he with he | he
          · subst he; exact ⟨diff, rfl⟩
          · exact h1 e he
        · intro idx δ hm hδ
          rcases List.mem_cons.mp hm with hm | hm
          · simp only [Prod.mk.injEq, Op.plus.injEq] at hm; omega
          · exact h2 idx δ hm hδ
        · rcases h3 with h3 | ⟨pre, δ, post, c, hr, hδ, hc, hlt, hT, hM, hpre, happs⟩
          · exact Or.inl h3
          · refine Or.inr ⟨(pos, Op.plus diff) :: pre, δ, post, c, by rw [hr]; rfl, hδ, hc, hlt,
              hT, hM, ?_, happs⟩
            intro idx' δ' hm hδ'
            rcases List.mem_cons.mp hm with hm | hm
            · simp only [Prod.mk.injEq, Op.plus.injEq] at hm; omega
            · exact hpre idx' δ' hm hδ'
      · next hneg =>
        have hneg : diff < 0 := by omega
        split at h
        · cases h
        · next count hcount =>
          split at h
          · cases h
          · next hge =>
            have had : 0 < diff.natAbs := by omega
            have hlt : diff.natAbs < count := by omega
            rw [timesMinRes_eq had hlt] at h
            simp only at h
            obtain ⟨a, ha, hale, hacase⟩ :=
              updateApps_cases apps (maxApps count diff.natAbs) pos
                (count - diff.natAbs * maxApps count diff.natAbs)
            obtain ⟨h1, h2, h3⟩ := ih _ h
            -- the head block survives `T` applications
            have hTle : T ≤ maxApps count diff.natAbs := by
              rcases h3 with h3 | ⟨_, _, _, _, _, _, _, _, _, _, _, happs⟩
              · rw [ha] at h3; injection h3 with h3; rw [h3] at hale; exact hale
              · have := happs a ha; omega
            refine ⟨?_, ?_, ?_⟩
            · intro e he
              rcases List.mem_cons.mp he with he | he
              · subst he; exact ⟨diff, rfl⟩
              · exact h1 e he
            · intro idx δ hm hδ
              rcases List.mem_cons.mp hm with hm | hm
              · simp only [Prod.mk.injEq, Op.plus.injEq] at hm
                obtain ⟨hi, hd⟩ := hm
                subst hi; subst hd
                exact ⟨count, hcount, hlt, hTle⟩
              · exact h2 idx δ hm hδ
            · rcases h3 with h3 | ⟨pre, δ, post, c, hr, hδ, hc, hlt', hT, hM, hpre, happs⟩
              · rw [ha] at h3; injection h3 with h3
                rcases hacase with ⟨hanew, hall⟩ | hold
                · -- the head entry is the new minimum
                  rw [h3] at hanew
                  injection hanew with eT hanew; injection hanew with eP eM
                  refine Or.inr ⟨[], diff, rest, count, by rw [eP]; rfl, hneg, by rw [eP]; exact hcount,
                    hlt, eT, by rw [eM, eT], ?_, ?_⟩
                  · intro _ _ hm; cases hm
                  · intro b hb; rw [eT]; exact hall b hb
                · exact Or.inl (by rw [hold, h3])
              · refine Or.inr ⟨(pos, Op.plus diff) :: pre, δ, post, c, by rw [hr]; rfl, hδ, hc, hlt',
                  hT, hM, ?_, ?_⟩
                · intro idx' δ' hm hδ'
                  rcases List.mem_cons.mp hm with hm | hm
                  · simp only [Prod.mk.injEq, Op.plus.injEq] at hm
                    obtain ⟨hi, hd⟩ := hm
                    subst hi; subst hd
                    have := happs a ha
                    exact ⟨count, hcount, by omega⟩
                  · exact hpre idx' δ' hm hδ'
                · intro b hb
                  have hTa := happs a ha
                  rcases hacase with ⟨hanew, hall⟩ | hold
                  · have := hall b hb
                    rw [hanew] at hTa; simp only at hTa; omega
                  · rw [hold] at hb; injection hb with hb; rw [← hb]; exact hTa

/-- what a `None` result of the loop says -/
theorem loop_none (t : Tape) (rule : Rule) (apps : Option Apps)
    (h : countAppsLoop t rule apps = .ok none) :
    (apps = none ∧ ∀ e ∈ rule, ∃ δ, e.2 = Op.plus δ ∧ 0 ≤ δ) ∨
      ∃ idx δ c, (idx, Op.plus δ) ∈ rule ∧ δ < 0 ∧ t.getCount idx = .ok c ∧ c ≤ δ.natAbs := by
  induction rule generalizing apps with
  | nil =>
    simp only [countAppsLoop] at h
    injection h with h
    exact Or.inl ⟨h, fun e he => (by cases he)⟩
  | cons e rest ih =>
    obtain ⟨pos, op⟩ := e
    cases op with
    | mult q r => simp only [countAppsLoop] at h; cases h
    | plus diff =>
      simp only [countAppsLoop] at h
      split at h
      · next hnn =>
        rcases ih apps h with ⟨h1, h2⟩ | ⟨idx, δ, c, hm, hr⟩
        · refine Or.inl ⟨h1, ?_⟩
          intro e he
          rcases List.mem_cons.mp he with he | he
          · subst he; exact ⟨diff, rfl, by omega⟩
          · exact h2 e he
        · exact Or.inr ⟨idx, δ, c, List.mem_cons_of_mem _ hm, hr⟩
      · next hneg =>
        split at h
        · cases h
        · next count hcount =>
          split at h
          · next hge =>
            exact Or.inr ⟨pos, diff, count, List.mem_cons_self, by omega, hcount, by omega⟩
          · next hge =>
            rw [timesMinRes_eq (by omega) (by omega)] at h
            simp only at h
            obtain ⟨a, ha, _⟩ :=
              updateApps_cases apps (maxApps count diff.natAbs) pos
                (count - diff.natAbs * maxApps count diff.natAbs)
            rcases ih _ h with ⟨h1, _⟩ | ⟨idx, δ, c, hm, hr⟩
            · rw [ha] at h1; cases h1
            · exact Or.inr ⟨idx, δ, c, List.mem_cons_of_mem _ hm, hr⟩

/-- the loop cannot panic on an additive rule whose decreasing blocks exist -/
theorem loop_no_error (t : Tape) (rule : Rule) (apps : Option Apps) (hp : AllPlus rule)
    (hr : ∀ idx δ, (idx, Op.plus δ) ∈ rule → δ < 0 → InRange t idx) (e : PErr) :
    countAppsLoop t rule apps ≠ .error e := by
  induction rule generalizing apps with
  | nil => simp [countAppsLoop]
  | cons e0 rest ih =>
    obtain ⟨pos, op⟩ := e0
    have hp' : AllPlus rest := fun e he => hp e (List.mem_cons_of_mem _ he)
    have hr' : ∀ idx δ, (idx, Op.plus δ) ∈ rest → δ < 0 → InRange t idx :=
      fun idx δ hm hδ => hr idx δ (List.mem_cons_of_mem _ hm) hδ
    cases op with
    | mult q r =>
      obtain ⟨δ, hδ⟩ := hp _ List.mem_cons_self
      cases hδ
    | plus diff =>
      simp only [countAppsLoop]
      split
      · exact ih apps hp' hr'
      · next hneg =>
        obtain ⟨c, hc⟩ := getCount_inRange (hr pos diff List.mem_cons_self (by omega))
        rw [hc]
        simp only
        split
        · simp
        · rw [timesMinRes_eq (by omega) (by omega)]
          exact ih _ hp' hr'

end BB.RuleArith
