/-
C16 — query sequences: a macro object over a history-independent inner program is itself
history-independent (`macro_histIndep`); a legal query sequence is answered as the stateless
reference answers it (`getInstrs_pure`); two objects side by side (`getInstrsTwo_*`).
-/
import BB.Lemmas.MacroHistStep

namespace BB.Macros

/-! ### definitions for the statements about sequences -/

/-- Every slot of the sequence is legal (`legal`, a proposition) in the state in which it is
    queried.  `legalSeq` is the same for a Boolean `legal`. -/
def LegalRun {σ : Type} (get : GetFn σ) (legal : σ → Slot → Prop) : σ → List Slot → Prop
  | _, [] => True
  | st, s :: rest =>
    legal st s ∧
      match get st s with
      | .error _ => True
      | .ok (_, st') => LegalRun get legal st' rest

/-- Boolean form of `MLS` -/
def mlsB {σ : Type} (ls : σ → Nat → Bool) (m : MacroProg σ) (q : Nat) : Bool :=
  match m.logic.params.kind with
  | .block => ls m.prog (q / 2)
  | .backsymbol =>
    handedOut m (q / 2 % m.logic.params.backsymbols) &&
      ls m.prog (q / 2 / m.logic.params.backsymbols)

/-- Boolean form of `MLC` -/
def mlcB {σ : Type} (lc : σ → Nat → Bool) (m : MacroProg σ) (c : Nat) : Bool :=
  match m.logic.params.kind with
  | .block => handedOut m c
  | .backsymbol => lc m.prog c

/-- Legality of a query to a macro over a macro over a base table: every colour that the outer
    or the inner object will look up on account of the slot itself was handed out by that
    object, and a colour that ends up on the base tape is a base colour. -/
def slotLegal2 (m : MacroProg (MacroProg Prog)) (slot : Slot) : Bool :=
  mlsB (mlsB fun _ _ => true) m slot.1 &&
    mlcB (mlcB fun _ c => decide (c < m.prog.logic.params.baseColors)) m slot.2

/-- Two programs side by side; a query names the one it goes to (`false` = the first).
    Models two `MacroProg` values alive at the same time: they share nothing. -/
def getInstrsTwo {σ τ : Type} (g1 : GetFn σ) (g2 : GetFn τ) :
    σ × τ → List (Bool × Slot) → Res (List (Option Instr) × (σ × τ))
  | st, [] => .ok ([], st)
  | (a, b), (false, s) :: rest =>
    match g1 a s with
    | .error e => .error e
    | .ok (x, a') =>
      match getInstrsTwo g1 g2 (a', b) rest with
      | .error e => .error e
      | .ok (xs, st) => .ok (x :: xs, st)
  | (a, b), (true, s) :: rest =>
    match g2 b s with
    | .error e => .error e
    | .ok (x, b') =>
      match getInstrsTwo g1 g2 (a, b') rest with
      | .error e => .error e
      | .ok (xs, st) => .ok (x :: xs, st)

/-- the slots addressed to one of the two programs, in order -/
def slotsOf (tag : Bool) : List (Bool × Slot) → List Slot
  | [] => []
  | (t, s) :: rest => if t == tag then s :: slotsOf tag rest else slotsOf tag rest

/-- the answers given by one of the two programs, in order -/
def pickAnswers (tag : Bool) : List (Bool × Slot) → List (Option Instr) → List (Option Instr)
  | (t, _) :: rest, a :: as => if t == tag then a :: pickAnswers tag rest as else pickAnswers tag rest as
  | _, _ => []

/-- `as` are the answers of the stateless program `f` to the slots `qs`, none of them an error -/
def AnswersAre (f : Slot → Res (Option Instr)) : List Slot → List (Option Instr) → Prop
  | [], [] => True
  | s :: qs, a :: as => f s = .ok a ∧ AnswersAre f qs as
  | _, _ => False

/-! ### a macro over a history-independent program is history-independent -/

section Lift

variable {σ : Type} {get : GetFn σ} {f : Slot → Res (Option Instr)}
  {IInv : σ → Prop} {LS LC : σ → Nat → Prop} {lp : LogicParams} {fixF3 : Bool}

theorem macro_zero (H : HistIndep get f IInv LS LC) (m : MacroProg σ)
    (hI : MInv f lp fixF3 IInv LS LC m) : MLS LS m 0 ∧ MLC LC m 0 := by
  obtain ⟨hs0, hc0⟩ := H.zero m.prog hI.inner
  have hh : handedOut m 0 = true := by
    simp only [handedOut, hI.cache.zero, Option.isSome_some]
  unfold MLS MLC
  constructor
  · split
    · exact hs0
    · simp only [Nat.zero_div, Nat.zero_mod]; exact ⟨hh, hs0⟩
  · split
    · exact hh
    · exact hc0

theorem macro_histIndep (H : HistIndep get f IInv LS LC)
    (hbound : ∀ st c, IInv st → LC st c → c < lp.baseColors) (hb : 0 < lp.baseColors)
    (hfix : lp.kind = .backsymbol → fixF3 = true) :
    HistIndep (macroGet get fixF3) (pureInstr f lp fixF3) (MInv f lp fixF3 IInv LS LC)
      (MLS LS) (MLC LC) :=
  ⟨fun m hI => macro_zero H m hI,
   fun _ q c hI hq hc => macro_step H hbound hb hfix hI q c hq hc⟩

/-- legal colours of the macro are below its `macro_colors` -/
theorem macro_bound (hbound : ∀ st c, IInv st → LC st c → c < lp.baseColors)
    (m : MacroProg σ) (c : Nat) (hI : MInv f lp fixF3 IInv LS LC m) (hc : MLC LC m c) :
    c < lp.macroColors := by
  unfold MLC at hc
  rw [hI.params] at hc
  unfold LogicParams.macroColors
  split at hc
  · rename_i hk
    obtain ⟨t, ht⟩ := (handedOut_iff m c).1 hc
    simp only [hk]
    exact (hI.cache.decode ht).2
  · rename_i hk
    simp only [hk]
    exact hbound _ c hI.inner hc

theorem MInv.init (kind : LogicKind) (cells : Nat) (params : Nat × Nat) (st : σ)
    (hi : IInv st) (h0 : LC st 0) (hb : 0 < params.2) :
    MInv f ⟨kind, cells, params.1, params.2⟩ fixF3 IInv LS LC
      (MacroProg.new st (Logic.new kind cells params)) := by
  refine ⟨rfl, hi, CacheInv.new _ _ hb, ?_, ?_⟩
  · intro c t h x hx
    simp only [MacroProg.new, Logic.new, TapeColorConverter.new, ColorToTape.get] at h
    split at h
    · cases h; rw [List.eq_of_mem_replicate hx]; exact h0
    · cases h
  · intro slot instr h
    simp [MacroProg.new, Prog.get] at h

end Lift

/-! ### base instances -/

/-- a base table: the state is the table and never changes -/
theorem histIndep_comp (p : Prog) (base : Nat) (hb : 0 < base)
    (hcol : ColorsLt (progFn p) base) :
    HistIndep compGet (progFn p) (fun st => st = p) TrueLeg (LtLeg base) := by
  refine ⟨fun _ _ => ⟨trivial, hb⟩, ?_⟩
  intro st q c hst _ _
  subst hst
  refine Agree.ok st rfl ⟨rfl, Mono.refl .., ?_⟩
  intro pr sh nx h
  exact ⟨hcol (q, c) pr sh nx (by simp only [progFn, h]), trivial⟩

theorem progColorsLt_sound (p : Prog) (base : Nat) (h : progColorsLt p base = true) :
    ColorsLt (progFn p) base := by
  intro s pr sh nx hf
  simp only [progFn, Except.ok.injEq] at hf
  induction p with
  | nil => simp [Prog.get] at hf
  | cons kv rest ih =>
    simp only [progColorsLt, List.all_cons, Bool.and_eq_true, decide_eq_true_eq] at h
    simp only [Prog.get] at hf
    split at hf
    · have h1 := h.1
      rw [Option.some.inj hf] at h1
      exact h1
    · exact ih h.2 hf

/-- any stateful program whose answers do not depend on the state -/
theorem histIndep_of_stateless {σ : Type} (get : GetFn σ) (f : Slot → Res (Option Instr))
    (base : Nat) (hb : 0 < base) (hcol : ColorsLt f base)
    (hpure : ∀ st s, Agree (get st s) (pureGet f () s) (fun _ _ => True)) :
    HistIndep get f TrueInv TrueLeg (LtLeg base) := by
  refine ⟨fun _ _ => ⟨trivial, hb⟩, ?_⟩
  intro st q c _ _ _
  have h := hpure st (q, c)
  unfold Agree at h ⊢
  simp only [pureGet] at h ⊢
  cases hf : f (q, c) with
  | error e => rw [hf] at h; exact h
  | ok a =>
    rw [hf] at h
    obtain ⟨st', h1, _⟩ := h
    refine ⟨st', h1, trivial, Mono.refl .., ?_⟩
    intro pr sh nx ha
    exact ⟨hcol (q, c) pr sh nx (by rw [hf, ha]), trivial⟩

/-! ### sequences -/

theorem legalRun_of_legalSeq {σ : Type} (get : GetFn σ) (legal : σ → Slot → Bool) :
    ∀ (qs : List Slot) (st : σ), legalSeq get legal st qs = true →
      LegalRun get (fun st s => legal st s = true) st qs := by
  intro qs
  induction qs with
  | nil => intro st _; trivial
  | cons s rest ih =>
    intro st h
    simp only [legalSeq, Bool.and_eq_true] at h
    refine ⟨h.1, ?_⟩
    have h2 := h.2
    cases hg : get st s with
    | error e => trivial
    | ok r =>
      rcases r with ⟨a, st'⟩
      rw [hg] at h2
      exact ih st' h2

theorem getInstrs_pure {σ : Type} {get : GetFn σ} {f : Slot → Res (Option Instr)}
    {IInv : σ → Prop} {LS LC : σ → Nat → Prop} (H : HistIndep get f IInv LS LC)
    (legal : σ → Slot → Prop)
    (hleg : ∀ st s, IInv st → legal st s → LS st s.1 ∧ LC st s.2) :
    ∀ (qs : List Slot) (st : σ), IInv st → LegalRun get legal st qs →
      Agree (getInstrs get st qs) (getInstrs (pureGet f) () qs)
        (fun _ st' => IInv st' ∧ Mono LS LC st st') := by
  intro qs
  induction qs with
  | nil => intro st hi _; exact Agree.ok st rfl ⟨hi, Mono.refl ..⟩
  | cons s rest ih =>
    intro st hi hl
    obtain ⟨hl1, hl2⟩ := hl
    obtain ⟨hq, hc⟩ := hleg st s hi hl1
    have hstep := H.step st s.1 s.2 hi hq hc
    simp only [getInstrs]
    cases hp : pureGet f () s with
    | error e =>
      rw [show ((s.1, s.2) : Slot) = s from rfl, hp] at hstep
      have : get st s = .error e := hstep
      rw [this]; exact Agree.error rfl
    | ok r =>
      rcases r with ⟨a, u⟩
      rw [show ((s.1, s.2) : Slot) = s from rfl, hp] at hstep
      obtain ⟨st', hg, hi', hmono, _⟩ := hstep
      rw [hg] at hl2 ⊢
      have := ih st' hi' hl2
      cases u
      simp only
      unfold Agree at this ⊢
      cases hrest : getInstrs (pureGet f) () rest with
      | error e =>
        rw [hrest] at this
        simp only at this ⊢
        rw [this]
      | ok r2 =>
        rcases r2 with ⟨as, u2⟩
        rw [hrest] at this
        obtain ⟨st'', h1, h2, h3⟩ := this
        simp only
        exact ⟨st'', by rw [h1], h2, hmono.trans h3⟩

/-- in words: the answers of the stateful run are the answers of the stateless reference -/
theorem answers_of_agree {σ : Type} {r : Res (List (Option Instr) × σ)}
    {e : Res (List (Option Instr) × Unit)} {Q : List (Option Instr) → σ → Prop}
    (h : Agree r e Q) : answers r = answers e := by
  unfold Agree at h
  cases e with
  | error err => simp only at h; rw [h]; rfl
  | ok x =>
    rcases x with ⟨as, u⟩
    obtain ⟨st', h1, _⟩ := h
    rw [h1]; rfl

theorem pureAnswers_are (f : Slot → Res (Option Instr)) :
    ∀ (qs : List Slot) (as : List (Option Instr)), pureAnswers f qs = .ok as →
      AnswersAre f qs as := by
  intro qs
  induction qs with
  | nil =>
    intro as h
    simp only [pureAnswers, getInstrs, answers, Except.ok.injEq] at h
    subst h; trivial
  | cons s rest ih =>
    intro as h
    simp only [pureAnswers, getInstrs, pureGet] at h
    cases hf : f s with
    | error e => rw [hf] at h; simp only [answers] at h; cases h
    | ok a =>
      rw [hf] at h
      simp only at h
      cases hr : getInstrs (pureGet f) () rest with
      | error e => rw [hr] at h; simp only [answers] at h; cases h
      | ok r =>
        rcases r with ⟨as', u⟩
        rw [hr] at h
        simp only [answers, Except.ok.injEq] at h
        subst h
        refine ⟨hf, ih as' ?_⟩
        simp only [pureAnswers, hr, answers]

theorem AnswersAre.getElem? {f : Slot → Res (Option Instr)} :
    ∀ {qs : List Slot} {as : List (Option Instr)}, AnswersAre f qs as →
      ∀ (i : Nat) (s : Slot), qs[i]? = some s → ∃ a, as[i]? = some a ∧ f s = .ok a := by
  intro qs
  induction qs with
  | nil => intro as _ i s h; simp at h
  | cons q rest ih =>
    intro as h i s hi
    cases as with
    | nil => exact absurd h (by simp [AnswersAre])
    | cons a as =>
      obtain ⟨h1, h2⟩ := h
      cases i with
      | zero =>
        simp only [List.getElem?_cons_zero, Option.some.injEq] at hi ⊢
        subst hi; exact ⟨a, rfl, h1⟩
      | succ i =>
        simp only [List.getElem?_cons_succ] at hi ⊢
        exact ih h2 i s hi

theorem AnswersAre.length {f : Slot → Res (Option Instr)} :
    ∀ {qs : List Slot} {as : List (Option Instr)}, AnswersAre f qs as → as.length = qs.length := by
  intro qs
  induction qs with
  | nil => intro as h; cases as with
    | nil => rfl
    | cons a as => exact absurd h (by simp [AnswersAre])
  | cons q rest ih =>
    intro as h
    cases as with
    | nil => exact absurd h (by simp [AnswersAre])
    | cons a as => simp only [List.length_cons, ih h.2]

/-! ### two objects -/

section Two

variable {σ τ : Type} (g1 : GetFn σ) (g2 : GetFn τ)

theorem getInstrsTwo_ok :
    ∀ (qs : List (Bool × Slot)) (a : σ) (b : τ) (as : List (Option Instr)) (a' : σ) (b' : τ),
      getInstrsTwo g1 g2 (a, b) qs = .ok (as, (a', b')) →
      getInstrs g1 a (slotsOf false qs) = .ok (pickAnswers false qs as, a') ∧
      getInstrs g2 b (slotsOf true qs) = .ok (pickAnswers true qs as, b') := by
  intro qs
  induction qs with
  | nil =>
    intro a b as a' b' h
    simp only [getInstrsTwo, Except.ok.injEq, Prod.mk.injEq] at h
    obtain ⟨h1, h2, h3⟩ := h
    subst h1 h2 h3
    exact ⟨rfl, rfl⟩
  | cons q rest ih =>
    intro a b as a' b' h
    rcases q with ⟨tag, s⟩
    cases tag with
    | false =>
      simp only [getInstrsTwo] at h
      cases hg : g1 a s with
      | error e => rw [hg] at h; cases h
      | ok r =>
        rcases r with ⟨x, a1⟩
        rw [hg] at h
        simp only at h
        cases hr : getInstrsTwo g1 g2 (a1, b) rest with
        | error e => rw [hr] at h; cases h
        | ok r2 =>
          rcases r2 with ⟨xs, st⟩
          rw [hr] at h
          simp only [Except.ok.injEq, Prod.mk.injEq] at h
          obtain ⟨h1, h2⟩ := h
          subst h1 h2
          obtain ⟨i1, i2⟩ := ih a1 b xs a' b' hr
          simp only [slotsOf, pickAnswers, getInstrs, hg, i1, beq_self_eq_true, if_true]
          exact ⟨trivial, i2⟩
    | true =>
      simp only [getInstrsTwo] at h
      cases hg : g2 b s with
      | error e => rw [hg] at h; cases h
      | ok r =>
        rcases r with ⟨x, b1⟩
        rw [hg] at h
        simp only at h
        cases hr : getInstrsTwo g1 g2 (a, b1) rest with
        | error e => rw [hr] at h; cases h
        | ok r2 =>
          rcases r2 with ⟨xs, st⟩
          rw [hr] at h
          simp only [Except.ok.injEq, Prod.mk.injEq] at h
          obtain ⟨h1, h2⟩ := h
          subst h1 h2
          obtain ⟨i1, i2⟩ := ih a b1 xs a' b' hr
          simp only [slotsOf, pickAnswers, getInstrs, hg, i2, beq_self_eq_true, if_true]
          exact ⟨i1, trivial⟩

theorem getInstrsTwo_of_alone :
    ∀ (qs : List (Bool × Slot)) (a : σ) (b : τ) (as1 as2 : List (Option Instr)) (a' : σ) (b' : τ),
      getInstrs g1 a (slotsOf false qs) = .ok (as1, a') →
      getInstrs g2 b (slotsOf true qs) = .ok (as2, b') →
      ∃ as, getInstrsTwo g1 g2 (a, b) qs = .ok (as, (a', b')) := by
  intro qs
  induction qs with
  | nil =>
    intro a b as1 as2 a' b' h1 h2
    simp only [slotsOf, getInstrs, Except.ok.injEq, Prod.mk.injEq] at h1 h2
    obtain ⟨_, h1⟩ := h1
    obtain ⟨_, h2⟩ := h2
    subst h1 h2
    exact ⟨[], rfl⟩
  | cons q rest ih =>
    intro a b as1 as2 a' b' h1 h2
    rcases q with ⟨tag, s⟩
    cases tag with
    | false =>
      simp only [slotsOf, beq_self_eq_true, if_true, getInstrs] at h1
      simp only [slotsOf, show (false == true) = false from rfl, Bool.false_eq_true, if_false] at h2
      cases hg : g1 a s with
      | error e => rw [hg] at h1; cases h1
      | ok r =>
        rcases r with ⟨x, a1⟩
        rw [hg] at h1
        simp only at h1
        cases hr : getInstrs g1 a1 (slotsOf false rest) with
        | error e => rw [hr] at h1; cases h1
        | ok r2 =>
          rcases r2 with ⟨xs, st⟩
          rw [hr] at h1
          simp only [Except.ok.injEq, Prod.mk.injEq] at h1
          obtain ⟨_, h12⟩ := h1
          subst h12
          obtain ⟨as, has⟩ := ih a1 b xs as2 st b' hr h2
          exact ⟨x :: as, by simp only [getInstrsTwo, hg, has]⟩
    | true =>
      simp only [slotsOf, beq_self_eq_true, if_true, getInstrs] at h2
      simp only [slotsOf, show (true == false) = false from rfl, Bool.false_eq_true, if_false] at h1
      cases hg : g2 b s with
      | error e => rw [hg] at h2; cases h2
      | ok r =>
        rcases r with ⟨x, b1⟩
        rw [hg] at h2
        simp only at h2
        cases hr : getInstrs g2 b1 (slotsOf true rest) with
        | error e => rw [hr] at h2; cases h2
        | ok r2 =>
          rcases r2 with ⟨xs, st⟩
          rw [hr] at h2
          simp only [Except.ok.injEq, Prod.mk.injEq] at h2
          obtain ⟨_, h22⟩ := h2
          subst h22
          obtain ⟨as, has⟩ := ih a b1 as1 xs a' st h1 hr
          exact ⟨x :: as, by simp only [getInstrsTwo, hg, has]⟩

end Two

end BB.Macros
