/-
C05 — segment analysis.  Part 21: the search for the goal `blank` never ends with an empty stack,
so `segCantBlank` never answers `refuted`.
-/
import BB.Lemmas.SegSound20

namespace BB.Segment

open BB

/-- invariant of the search for the goal `blank` while the initial positions are being tried -/
structure BInv (seg : Nat) (cs : Configs) : Prop where
  segEq : cs.seg = seg
  noLast : ¬ DHas cs.blanks 0 (seg - 1)
  raw : RawBound seg cs.blanks
  todoGood : ∀ c ∈ cs.todo, Good seg c.tape

theorem pos_zero_shape {t : Tape} (hwf : t.WF) (h : Tape.pos t = 0) :
    t.scan = none ∧ t.lspan = [] := by
  unfold Tape.pos at h
  cases hs : t.scan with
  | some s => simp [hs] at h
  | none =>
    simp only [hs, Option.isSome_none, Bool.false_or] at h
    have hl : Span.len t.lspan = 0 := by omega
    refine ⟨rfl, (Span.isEmpty_iff hwf.lpos).1 ?_⟩
    simp [Span.isEmpty, hl]

theorem stepIn_pos_left {seg : Nat} {t nt : Tape} {sh : Bool} (hg : Good seg t)
    (hs : t.scan = none) (hl : t.lspan = []) (hseg : 4 ≤ seg)
    (h : Tape.stepIn t sh = some nt) : Tape.pos nt = 1 := by
  obtain ⟨_, hr, _, hside⟩ := good_edge_left hseg hg hs hl
  cases sh with
  | true =>
    obtain ⟨x, r', h1, _, _⟩ := stepIn_right hg.1 hs hl hr
    rw [h1] at h
    simp only [Option.some.injEq] at h
    subst h
    simp [Tape.pos]
  | false =>
    unfold Tape.stepIn at h
    rw [hside] at h
    simp at h

/-- the next configuration is the next initial position -/
theorem nextInit_binv {seg : Nat} (hseg : 4 ≤ seg) {cs : Configs} (h : BInv seg cs) {r : Option Config × Configs}
    (hn : Configs.nextInit cs = some r) :
    ∃ pos t, pos < seg ∧ Tape.init seg pos = some t ∧
      r = (some ⟨0, t, true⟩,
        { cs with blanks := dictSetInsert (dictEnsure cs.blanks 0) 0 pos }) ∧
      ∀ j, j < pos → DHas cs.blanks 0 j := by
  obtain ⟨oc, c'⟩ := r
  cases oc with
  | none =>
    exfalso
    obtain ⟨_, hall⟩ := nextInit_none hn
    have hs := h.segEq
    have : seg - 1 < cs.seg := by rw [hs]; omega
    exact h.noLast ((dHas_dictEnsure _ _ _ _).1 (hall (seg - 1) this))
  | some cfg =>
    unfold Configs.nextInit at hn
    simp only at hn
    cases hf : (List.range cs.seg).find?
        (fun pos => !((dictGet (dictEnsure cs.blanks 0) 0).getD []).contains pos) with
    | none => rw [hf] at hn; simp at hn
    | some pos =>
      rw [hf] at hn
      simp only at hn
      obtain ⟨h1, _, h3⟩ := find?_range_min _ _ _ hf
      unfold Config.mkInit at hn
      cases hti : Tape.init cs.seg pos with
      | none => rw [hti] at hn; simp at hn
      | some t =>
        rw [hti] at hn
        simp only [Option.some.injEq, Prod.mk.injEq] at hn
        rw [h.segEq] at h1 hti
        refine ⟨pos, t, h1, hti, by rw [← hn.1, ← hn.2], ?_⟩
        intro j hj
        have := h3 j hj
        simp only [Bool.not_eq_false'] at this
        rw [← dHas_dictEnsure _ 0]
        unfold DHas
        cases hd : dictGet (dictEnsure cs.blanks 0) 0 with
        | none => rw [hd] at this; simp at this
        | some s =>
          rw [hd] at this
          exact ⟨s, rfl, by simpa using this⟩

/-- the bookkeeping after the initial position `pos` has been inserted -/
def afterInit (cs : Configs) (pos : Nat) : Configs :=
  { cs with blanks := dictSetInsert (dictEnsure cs.blanks 0) 0 pos }

theorem afterInit_dHas (cs : Configs) (pos q p : Nat) :
    DHas (afterInit cs pos).blanks q p ↔ DHas cs.blanks q p ∨ (q = 0 ∧ p = pos) := by
  unfold afterInit
  simp only
  rw [dHas_dictSetInsert, dHas_dictEnsure]

/-- `BInv` from a frame whose new entries avoid `(0, seg - 1)` -/
theorem binv_of_frame {seg : Nat} {P : Nat → Nat → Prop} {cs : Configs} {pos : Nat} {cs2 : Configs}
    (h : BInv seg cs) (hpos : pos < seg) (hne : pos ≠ seg - 1)
    (hf : BFrame seg P (afterInit cs pos) cs2) (hP : ∀ q p, P q p → ¬ (q = 0 ∧ p = seg - 1)) :
    BInv seg cs2 := by
  refine ⟨hf.segEq.trans h.segEq, ?_, hf.raw (rawBound_insert (rawBound_ensure h.raw 0) 0 hpos), ?_⟩
  · intro hd
    rcases hf.dnew 0 (seg - 1) hd with hd | hp
    · rw [afterInit_dHas] at hd
      rcases hd with hd | ⟨_, hd⟩
      · exact h.noLast hd
      · exact hne hd.symm
    · exact hP 0 (seg - 1) hp ⟨rfl, rfl⟩
  · intro x hx
    rcases hf.todoNew x hx with hx | hx
    · exact h.todoGood x hx
    · exact hx

theorem checkReached_blank (c : Configs) (config : Config) :
    Configs.checkReached c config .blank = Configs.checkReachedBlank c config := by
  simp [Configs.checkReached]

/-- one iteration of the search for the goal `blank` on the initial position `pos` -/
theorem searchStep_binv (ap : AnalyzedProg) (rf : Nat) {seg : Nat} (hseg : 4 ≤ seg) {cs : Configs}
    (h : BInv seg cs) {pos : Nat} {t : Tape} (hpos : pos < seg) (hti : Tape.init seg pos = some t)
    (hmin : ∀ j, j < pos → DHas cs.blanks 0 j) :
    match searchStep ap .blank rf ⟨0, t, true⟩ (afterInit cs pos) with
    | .error _ => True
    | .ok (.done _) => True
    | .ok (.cont cs2) => BInv seg cs2 := by
  obtain ⟨hgood, hblank, hpt⟩ := Tape.init_good hti
  have hseg1 : (afterInit cs pos).seg = seg := h.segEq
  have hraw1 : RawBound seg (afterInit cs pos).blanks :=
    rawBound_insert (rawBound_ensure h.raw 0) 0 hpos
  unfold searchStep
  cases hsc : t.scan with
  | none =>
    -- an edge position: `run_to_edge` returns at once
    have hrt : runToEdge ap.prog .blank rf ⟨0, t, true⟩ (afterInit cs pos)
        = .ok ⟨none, ⟨0, t, true⟩, afterInit cs pos⟩ := by
      simp [runToEdge, hsc]
    rw [hrt]
    simp only
    rw [edgeStep_eq]
    have hgt : goalTapeOf ap .blank ⟨0, t, true⟩ = .ok true := by
      simp [goalTapeOf, hblank]
    rw [hgt]
    simp only [if_true, checkReached_blank]
    by_cases hlast : pos = seg - 1
    · -- the last position: all positions are now in `blanks[0]`
      have hall : ∀ j, j < seg → DHas (afterInit cs pos).blanks 0 j := by
        intro j hj
        rw [afterInit_dHas]
        by_cases hjp : j = pos
        · exact Or.inr ⟨rfl, hjp⟩
        · exact Or.inl (hmin j (by omega))
      have := checkReachedBlank_hit hseg (afterInit cs pos) ⟨0, t, true⟩ hseg1 hgood rfl hraw1 hall
      rw [this]
      simp
    · by_cases hhit : (Configs.checkReachedBlank (afterInit cs pos) ⟨0, t, true⟩).1 = true
      · rw [hhit]; simp
      · simp only [hhit, Bool.false_eq_true, if_false]
        have f1 := checkReachedBlank_bframe hseg (afterInit cs pos) ⟨0, t, true⟩ hgood
        cases heb : edgeBranch ap ⟨0, t, true⟩
            (Configs.checkReachedBlank (afterInit cs pos) ⟨0, t, true⟩).2 with
        | error e => trivial
        | ok so =>
          cases so with
          | done v => trivial
          | cont cs2 =>
            simp only
            have f2 := edgeBranch_bframe hseg ap ⟨0, t, true⟩ _ cs2 hgood heb
            -- the position is 0 (it is an edge position other than the last)
            have hp0 : pos = 0 := by
              rcases hgood.1.edge hsc with hl | hr
              · have := (good_edge_left hseg hgood hsc hl).2.2.1
                omega
              · have := (good_edge_right hseg hgood hsc hr).2.2.1
                omega
            have hl : t.lspan = [] := (pos_zero_shape hgood.1 (by rw [hpt, hp0])).2
            refine binv_of_frame (P := fun q p => p = 0 ∨ p = 1) h hpos hlast
              ((f1.mono ?_).trans (f2.mono ?_)) ?_
            · intro q p hp
              left
              rw [hp.2]
              show Tape.pos t = 0
              rw [hpt, hp0]
            · intro q p hp
              simp only at hp
              rcases hp.2 with hp' | ⟨sh, nt, hsi, hp'⟩
              · left; rw [hp', hpt, hp0]
              · right; rw [hp']; exact stepIn_pos_left hgood hsc hl hseg hsi
            · intro q p hp hqp
              rcases hp with hp | hp <;> omega
  | some s =>
    -- an inner position
    have hin : 0 < pos ∧ pos < seg - 1 := by
      have hc := hgood.2
      simp only [Tape.cells, hsc, Option.isSome_some, if_true] at hc
      have hp : Tape.pos t = Span.len t.lspan + 1 := by simp [Tape.pos, hsc]
      omega
    cases hrt : runToEdge ap.prog .blank rf ⟨0, t, true⟩ (afterInit cs pos) with
    | error e => trivial
    | ok out =>
      have P := runToEdge_postB ap.prog seg hseg rf ⟨0, t, true⟩ (afterInit cs pos) out rfl hgood
        hsc hrt
      have hfr0 : BFrame seg (fun q p => q ≠ 0 ∨ False) (afterInit cs pos) out.configs :=
        P.frame.mono (fun _ _ hq => Or.inl hq)
      have hfin : ∀ cs2, BFrame seg (fun q p => q ≠ 0 ∨ False) (afterInit cs pos) cs2 →
          BInv seg cs2 := fun cs2 hf =>
        binv_of_frame h hpos (by omega) hf (fun q p hp hqp => by
          rcases hp with hp | hp
          · exact hp hqp.1
          · exact hp)
      obtain ⟨res, cfg, cfm⟩ := out
      cases res with
      | some r =>
        simp only
        cases r with
        | limit => exact hfin _ hfr0
        | reached => exact hfin _ hfr0
        | «repeat» =>
          have hi : cfg.init = true := P.init
          simp [resultStep, hi]
        | found tm =>
          have hi : cfg.init = true := P.init
          cases tm with
          | halt => simp [resultStep, hi]
          | spinout => simp [resultStep, hi]
          | blank =>
            simp only [resultStep, bne_self_eq_false, Bool.false_eq_true, if_false,
              checkReached_blank]
            by_cases hhit : (Configs.checkReachedBlank cfm cfg).1 = true
            · simp [hhit]
            · simp only [hhit, Bool.false_eq_true, if_false]
              have f1 := checkReachedBlank_bframe hseg cfm cfg P.good
              have hne : cfg.state ≠ 0 := P.blank rfl
              exact hfin _ (hfr0.trans (f1.mono (fun q p hp => Or.inl (by rw [hp.1]; exact hne))))
      | none =>
        simp only
        rw [edgeStep_eq]
        have hnb : Tape.blank cfg.tape = false := P.edge rfl
        have hgt : goalTapeOf ap .blank cfg = .ok false := by
          simp [goalTapeOf, hnb]
        rw [hgt]
        simp only [Bool.false_eq_true, if_false]
        cases heb : edgeBranch ap cfg cfm with
        | error e => trivial
        | ok so =>
          cases so with
          | done v => trivial
          | cont cs2 =>
            simp only
            have f2 := edgeBranch_bframe hseg ap cfg cfm cs2 P.good heb
            exact hfin _ (hfr0.trans (f2.mono (fun q p hp => Or.inr (by
              have := hp.1
              rw [hnb] at this; cases this))))

/-- **The search for the goal `blank` never ends with an empty stack.** -/
theorem searchLoop_blank_ne_none (ap : AnalyzedProg) (rf : Nat) {seg : Nat} (hseg : 4 ≤ seg) :
    ∀ (fuel : Nat) (cs : Configs), BInv seg cs →
      searchLoop ap .blank rf fuel cs ≠ .ok none := by
  intro fuel
  induction fuel with
  | zero => intro cs _ h; simp [searchLoop] at h
  | succ fuel ih =>
    intro cs hinv h
    simp only [searchLoop] at h
    unfold Configs.next at h
    cases hni : Configs.nextInit cs with
    | none => rw [hni] at h; simp at h
    | some r =>
      obtain ⟨pos, t, hpos, hti, rfl, hmin⟩ := nextInit_binv hseg hinv hni
      rw [hni] at h
      simp only at h
      have hstep := searchStep_binv ap rf hseg hinv hpos hti hmin
      unfold afterInit at hstep
      revert h hstep
      cases searchStep ap .blank rf ⟨0, t, true⟩
          { cs with blanks := dictSetInsert (dictEnsure cs.blanks 0) 0 pos } with
      | error e => intro h; simp at h
      | ok so =>
        cases so with
        | done v => intro h; simp at h
        | cont cs2 =>
          intro h hstep
          exact ih cs2 hstep h

theorem allSegmentsReached_blank_ne_none (ap : AnalyzedProg) {seg : Nat} (hseg : 4 ≤ seg) :
    allSegmentsReached ap seg .blank ≠ .ok none := by
  unfold allSegmentsReached
  apply searchLoop_blank_ne_none ap _ hseg
  refine ⟨rfl, ?_, ?_, ?_⟩
  · rintro ⟨s, hs, _⟩
    simp [Configs.new, dictGet] at hs
  · intro kv hkv
    simp [Configs.new] at hkv
  · intro c hc
    simp [Configs.new] at hc

/-- **`segCantBlank` never answers `refuted`** — for any program, table size and limit. -/
theorem seg_blank_never_refuted' (prog : Prog) (params : Nat × Nat) (segs k : Nat) :
    segCantBlank prog params segs ≠ .ok (.refuted k) := by
  intro h
  unfold segCantBlank segmentCantReach at h
  split at h
  · cases h
  · simp only at h
    split at h
    · rename_i hcond
      simp at hcond
    · obtain ⟨seg', hs', hnone⟩ := segmentLoop_refuted _ .blank _ 2 k (Nat.le_refl _) h
      exact allSegmentsReached_blank_ne_none _ (by omega) hnone

end BB.Segment
