/-
C04 support, part 7: for the erase goal every tape of the search has `blanks` at both ends, so
blank-state pruning is always justified (the instrumented flag stays `true`), and the soundness
theorem needs no side condition.
-/
import BB.Lemmas.ReasonSound

namespace BB.Reason

open BB

/-- both ends of the tape are `blanks` -/
def EndsB (t : Backstepper) : Prop := t.lspan.end_ = .blanks ∧ t.rspan.end_ = .blanks

theorem Span.pull_end (s : Span) : s.pull.end_ = s.end_ := by
  obtain ⟨bs, e⟩ := s
  cases bs with
  | nil => rfl
  | cons b rest =>
    simp only [Span.pull]
    split
    · rfl
    · split <;> rfl

theorem Span.push_end (s : Span) (c n : Nat) : (s.push c n).end_ = s.end_ := by
  obtain ⟨bs, e⟩ := s
  cases bs with
  | nil =>
    simp only [Span.push]
    split <;> rfl
  | cons b rest =>
    simp only [Span.push]
    split <;> rfl

theorem backstep_endsB {t : Backstepper} (h : EndsB t) (sh : Bool) (r : Nat) :
    EndsB (t.backstep sh r) := by
  cases sh
  · simp only [EndsB, Backstepper.backstep, Bool.false_eq_true, if_false, Span.pull_end,
      Span.push_end]
    exact h
  · simp only [EndsB, Backstepper.backstep, if_true, Span.pull_end, Span.push_end]
    exact h

theorem pushIndef_endsB {t : Backstepper} (h : EndsB t) (sh : Bool) : EndsB (t.pushIndef sh) := by
  cases sh
  · simp only [EndsB, Backstepper.pushIndef, Bool.false_eq_true, if_false, Span.pushBlock]
    exact h
  · simp only [EndsB, Backstepper.pushIndef, if_true, Span.pushBlock]
    exact h

theorem pruneOk_of_endsB {kept : Kept} {state : Nat} {tape : Backstepper} (h : EndsB tape)
    (hc : (kept.map (·.1)).contains state = true) : pruneOk kept state tape = true := by
  simp only [List.contains_iff_mem, List.mem_map] at hc
  obtain ⟨w, hw, hw1⟩ := hc
  simp only [pruneOk, List.any_eq_true, Bool.and_eq_true, beq_iff_eq]
  refine ⟨w, hw, hw1, ?_⟩
  simp [blankSub, sideSub, h.1, h.2]

theorem stepInstrsI_endsB (config : Config) (hc : EndsB config.tape) :
    ∀ (instrs : List Instr) (kept : Kept) (stepped : Configs) (kept' : Kept) (flag : Bool),
    stepInstrsI config instrs kept = .ok (stepped, kept', flag) →
    flag = true ∧ ∀ Z ∈ stepped, EndsB Z.tape := by
  intro instrs
  induction instrs with
  | nil =>
    intro kept stepped kept' flag h
    simp only [stepInstrsI, Except.ok.injEq, Prod.mk.injEq] at h
    obtain ⟨rfl, rfl, rfl⟩ := h
    exact ⟨rfl, fun _ h => by cases h⟩
  | cons i rest ih =>
    intro kept stepped kept' flag h
    obtain ⟨color, shift, state⟩ := i
    simp only [stepInstrsI] at h
    split at h
    · cases h
    · split at h
      · rename_i hprune
        simp only [Bool.and_eq_true] at hprune
        cases hr : stepInstrsI config rest kept with
        | error e => simp only [hr] at h; cases h
        | ok res =>
          obtain ⟨s, k, f⟩ := res
          simp only [hr, Except.ok.injEq, Prod.mk.injEq] at h
          obtain ⟨rfl, rfl, rfl⟩ := h
          obtain ⟨hf, hz⟩ := ih kept s k f hr
          refine ⟨?_, hz⟩
          rw [hf, pruneOk_of_endsB (backstep_endsB hc shift color) hprune.2]
          rfl
      · split at h
        · cases h
        · cases hr : stepInstrsI config rest
              (if (config.tape.backstep shift color).blank = true then
                (state, config.tape.backstep shift color) :: kept else kept) with
          | error e => simp only [hr] at h; cases h
          | ok res =>
            obtain ⟨s, k, f⟩ := res
            simp only [hr, Except.ok.injEq, Prod.mk.injEq] at h
            obtain ⟨rfl, rfl, rfl⟩ := h
            obtain ⟨hf, hz⟩ := ih _ s k f hr
            refine ⟨hf, ?_⟩
            intro Z hZ
            rcases List.mem_cons.1 hZ with rfl | hZ'
            · rw [(descendant_state_tape _ _ _).2]
              exact backstep_endsB hc shift color
            · exact hz Z hZ'

theorem stepConfigsI_endsB : ∀ (vs : ValidatedSteps) (kept : Kept)
    (stepped : Configs) (indefs : ValidatedSteps) (kept' : Kept) (flag : Bool),
    (∀ v ∈ vs, EndsB v.2.tape) →
    stepConfigsI vs kept = .ok (stepped, indefs, kept', flag) →
    flag = true ∧ ∀ Z ∈ stepped, EndsB Z.tape := by
  intro vs
  induction vs with
  | nil =>
    intro kept stepped indefs kept' flag _ h
    simp only [stepConfigsI, Except.ok.injEq, Prod.mk.injEq] at h
    obtain ⟨rfl, rfl, rfl, rfl⟩ := h
    exact ⟨rfl, fun _ h => by cases h⟩
  | cons v rest ih =>
    intro kept stepped indefs kept' flag hv h
    obtain ⟨instrs0, config⟩ := v
    simp only [stepConfigsI] at h
    cases h1 : stepInstrsI config (instrs0.filter fun i => !config.tape.pullsIndef i.2.1) kept with
    | error e => simp only [h1] at h; cases h
    | ok res1 =>
      obtain ⟨s1, k1, f1⟩ := res1
      simp only [h1] at h
      cases h2 : stepConfigsI rest k1 with
      | error e => simp only [h2] at h; cases h
      | ok res2 =>
        obtain ⟨s2, i2, k2, f2⟩ := res2
        simp only [h2, Except.ok.injEq, Prod.mk.injEq] at h
        obtain ⟨rfl, rfl, rfl, rfl⟩ := h
        obtain ⟨hf1, hz1⟩ := stepInstrsI_endsB config (hv _ List.mem_cons_self) _ kept s1 k1 f1 h1
        obtain ⟨hf2, hz2⟩ := ih k1 s2 i2 k2 f2 (fun v hv' => hv v (List.mem_cons_of_mem _ hv')) h2
        refine ⟨by rw [hf1, hf2]; rfl, ?_⟩
        intro Z hZ
        rcases List.mem_append.1 hZ with h | h
        · exact hz1 Z h
        · exact hz2 Z h

theorem getIndef_endsB {push : Bool} {X : Config} {diff same : Entries}
    {indef : List Instr × Config} (hX : EndsB X.tape) (h : getIndef push X diff same = some indef) :
    EndsB indef.2.tape := by
  simp only [getIndef] at h
  split at h
  · cases h
  · split at h
    · cases h
    · simp only [Option.some.injEq] at h
      subst h
      exact pushIndef_endsB hX push

theorem sameSteps_endsB (f : Bool) (X : Config) (diff same : Entries) (hX : EndsB X.tape) :
    ∀ (l : Entries), ∀ y ∈ (sameSteps f X diff same l).2, EndsB y.2.tape := by
  intro l
  induction l with
  | nil => intro y hy; cases hy
  | cons e rest ih =>
    obtain ⟨⟨state, color⟩, print, shift⟩ := e
    intro y hy
    simp only [sameSteps] at hy
    split at hy
    · exact ih y hy
    · split at hy
      · exact ih y hy
      · split at hy <;> exact ih y hy
      · split at hy
        · rename_i indef hgi
          rcases List.mem_cons.1 hy with rfl | hy'
          · exact getIndef_endsB hX hgi
          · exact ih y hy'
        · exact ih y hy

theorem getValidSteps_endsB (f : Bool) (ep : Entrypoints) : ∀ (configs : Configs)
    (vs : ValidatedSteps), (∀ X ∈ configs, EndsB X.tape) →
    getValidSteps f ep configs = .ok vs → ∀ v ∈ vs, EndsB v.2.tape := by
  intro configs
  induction configs with
  | nil =>
    intro vs _ h v hv
    simp only [getValidSteps, Except.ok.injEq] at h
    subst h; cases hv
  | cons c rest ih =>
    intro vs hc h v hv
    simp only [getValidSteps] at h
    cases hgc : ep.get c.state with
    | none =>
      simp only [hgc] at h
      split at h
      · exact ih vs (fun X hX => hc X (List.mem_cons_of_mem _ hX)) h v hv
      · cases h
    | some sd =>
      obtain ⟨same, diff⟩ := sd
      simp only [hgc] at h
      cases hr : getValidSteps f ep rest with
      | error e => simp only [hr] at h; cases h
      | ok checked =>
        simp only [hr, Except.ok.injEq] at h
        subst h
        have ihr := ih checked (fun X hX => hc X (List.mem_cons_of_mem _ hX)) hr
        rcases List.mem_append.1 hv with h1 | h1
        · exact sameSteps_endsB f c diff same (hc c List.mem_cons_self) same v h1
        · split at h1
          · exact ihr v h1
          · rcases List.mem_cons.1 h1 with rfl | h2
            · exact hc c List.mem_cons_self
            · exact ihr v h2

theorem cantReachLoopI_endsB (f : Bool) (ep : Entrypoints) :
    ∀ (fuel step : Nat) (configs : Configs) (kept : Kept) (indef : ValidatedSteps),
    (∀ X ∈ configs, EndsB X.tape) → (cantReachLoopI f ep fuel step configs kept indef).2 = true := by
  intro fuel
  induction fuel with
  | zero => intro step configs kept indef _; rfl
  | succ n ih =>
    intro step configs kept indef hc
    simp only [cantReachLoopI]
    cases hv : getValidSteps f ep configs with
    | error e => rfl
    | ok vs =>
      simp only
      split
      · rfl
      · split
        · rfl
        · cases hs : stepConfigsI vs kept with
          | error e => rfl
          | ok r =>
            obtain ⟨c', i', k', f'⟩ := r
            simp only
            split
            · rfl
            · obtain ⟨hf, hz⟩ := stepConfigsI_endsB vs kept c' i' k' f'
                (getValidSteps_endsB f ep configs vs hc hv) hs
              rw [hf, ih _ _ _ _ hz]
              rfl

theorem eraseConfigs_endsB (p : Prog) : ∀ X ∈ eraseConfigs p, EndsB X.tape := by
  intro X hX
  simp only [eraseConfigs, List.mem_map] at hX
  obtain ⟨⟨st, co⟩, _, rfl⟩ := hX
  exact ⟨rfl, rfl⟩

theorem erase_flag (p : Prog) (depth : Nat) :
    (cantReachI true p depth (eraseConfigs p)).2 = true := by
  simp only [cantReachI]
  split
  · rfl
  · split
    · rfl
    · apply cantReachLoopI_endsB
      intro X hX
      exact eraseConfigs_endsB p X (List.mem_filter.1 hX).1

theorem eraseConfigs_noInit (p : Prog) : NoInitC (eraseConfigs p) := by
  intro X hX ⟨_, hb⟩
  simp only [eraseConfigs, List.mem_map, Prog.eraseSlots, List.mem_filterMap] at hX
  obtain ⟨⟨st, co⟩, ⟨kv, _, hkv⟩, rfl⟩ := hX
  split at hkv
  · rename_i hc
    simp only [Option.some.injEq] at hkv
    simp only [Bool.and_eq_true, beq_iff_eq, bne_iff_ne, ne_eq] at hc
    simp only [Config.initBlank, Config.new, Backstepper.initBlank, Backstepper.blank,
      Bool.and_eq_true, beq_iff_eq] at hb
    rw [hkv] at hc
    exact hc.2 hb.1.1
  · cases hkv

theorem cant_blank_sound' (p : Prog) (depth k : Nat)
    (h : cantBlank p depth true = .ok (.refuted k)) : ¬ ∃ n, ErasesAt p.toF n := by
  rintro ⟨n, c, c', hrun, hnb, hstep, hb⟩
  obtain ⟨cfg, hcfg, hG⟩ := targets_cover_erase' p c ⟨hnb, c', hstep, hb⟩
  exact cantReach_sound p depth k _ h (erase_flag p depth) (eraseConfigs_noInit p) n c hrun cfg
    hcfg hG

end BB.Reason
