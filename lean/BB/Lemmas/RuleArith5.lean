/-
C11 (rule arithmetic is exact), part 5: `count_apps` and `apply_rule` as a whole; the primed
versions of the theorems of BB/Props/C11.lean.
-/
import BB.Lemmas.RuleArith4

namespace BB.RuleArith

open BB

/-! ### count_apps -/

/-- `count_apps` returned `Some`: everything it says, in `Nat` arithmetic -/
theorem countApps_some_nat {t : Tape} {rule : Rule} {T : Nat} {P : Index} {M : Nat}
    (h : countApps t rule = .ok (some (T, P, M))) :
    AllPlus rule ∧ 1 ≤ T ∧
      (∀ idx δ, (idx, Op.plus δ) ∈ rule → δ < 0 →
        ∃ c, t.getCount idx = .ok c ∧ δ.natAbs * T + 1 ≤ c) ∧
      ∃ pre δp post c, rule = pre ++ (P, Op.plus δp) :: post ∧ δp < 0 ∧ t.getCount P = .ok c ∧
        δp.natAbs * T + 1 ≤ c ∧ c ≤ δp.natAbs * (T + 1) ∧ M = c - δp.natAbs * T ∧
        ∀ idx δ, (idx, Op.plus δ) ∈ pre → δ < 0 →
          ∃ c', t.getCount idx = .ok c' ∧ δ.natAbs * (T + 1) + 1 ≤ c' := by
  unfold countApps at h
  obtain ⟨h1, h2, h3⟩ := loop_some t rule none T P M h
  rcases h3 with h3 | ⟨pre, δp, post, c, hr, hδ, hc, hlt, hT, hM, hpre, _⟩
  · cases h3
  · have had : 0 < δp.natAbs := by omega
    refine ⟨h1, ?_, ?_, pre, δp, post, c, hr, hδ, hc, ?_, ?_, hM, ?_⟩
    · rw [hT]; exact one_le_maxApps had hlt
    · intro idx δ hm hneg
      obtain ⟨c', hc', hlt', hle⟩ := h2 idx δ hm hneg
      exact ⟨c', hc', (le_maxApps_iff (by omega) (by omega) T).mp hle⟩
    · exact (le_maxApps_iff had (by omega) T).mp (by omega)
    · have : ¬ (T + 1 ≤ maxApps c δp.natAbs) := by omega
      rw [le_maxApps_iff had (by omega)] at this
      omega
    · intro idx δ hm hneg
      obtain ⟨c', hc', hlt'⟩ := hpre idx δ hm hneg
      have hpos : 1 ≤ c' := by
        unfold maxApps at hlt'
        rcases Nat.eq_zero_or_pos c' with h0 | h0
        · subst h0; simp at hlt'
        · exact h0
      exact ⟨c', hc', (le_maxApps_iff (by omega) hpos (T + 1)).mp (by omega)⟩

theorem count_apps_none_iff' (t : Tape) (rule : Rule) (hp : AllPlus rule)
    (hr : ∀ idx δ, (idx, Op.plus δ) ∈ rule → δ < 0 → InRange t idx) :
    countApps t rule = .ok none ↔
      (∀ idx δ, (idx, Op.plus δ) ∈ rule → 0 ≤ δ) ∨
        ∃ idx δ c, (idx, Op.plus δ) ∈ rule ∧ δ < 0 ∧ t.getCount idx = .ok c ∧ c ≤ δ.natAbs := by
  constructor
  · intro h
    rcases loop_none t rule none h with ⟨_, h2⟩ | h2
    · refine Or.inl ?_
      intro idx δ hm
      obtain ⟨δ', e, hδ'⟩ := h2 _ hm
      simp only [Op.plus.injEq] at e
      omega
    · exact Or.inr h2
  · intro hrhs
    cases hres : countApps t rule with
    | error e => exact absurd hres (loop_no_error t rule none hp hr e)
    | ok res =>
      cases res with
      | none => rfl
      | some a =>
        obtain ⟨T, P, M⟩ := a
        exfalso
        obtain ⟨_, _, h2, pre, δp, post, c, hrule, hδ, _⟩ := countApps_some_nat hres
        rcases hrhs with hall | ⟨idx, δ, c', hm, hneg, hc', hle⟩
        · have := hall P δp (by rw [hrule]; simp)
          omega
        · obtain ⟨c'', hc'', hge⟩ := h2 idx δ hm hneg
          rw [hc'] at hc''
          injection hc'' with hc''
          subst hc''
          have : δ.natAbs * 1 ≤ δ.natAbs * T := Nat.mul_le_mul_left _ (by omega)
          omega

theorem count_apps_no_error' (t : Tape) (rule : Rule) (hp : AllPlus rule)
    (hr : ∀ idx δ, (idx, Op.plus δ) ∈ rule → δ < 0 → InRange t idx) (e : PErr) :
    countApps t rule ≠ .error e :=
  loop_no_error t rule none hp hr e

/-! ### the first loop of apply_rule -/

/-- the relation between an entry `(pos, Plus δ)` of the rule and its result `r` -/
def ResultOf (t : Tape) (times : Nat) (minPos : Index) (minRes : Nat) (pos : Index) (δ : Int)
    (r : Nat) : Prop :=
  (pos = minPos ∧ δ < 0 ∧ r = minRes) ∨
    (pos ≠ minPos ∧ ∃ c, t.getCount pos = .ok c ∧ applyPlus c δ times = some r)

theorem results_some {t : Tape} {times : Nat} {minPos : Index} {minRes : Nat} {rule : Rule}
    {results : List (Index × Nat)}
    (h : applyRuleResults t times minPos minRes rule = .ok (some results)) :
    results.map Prod.fst = keys rule ∧
      ∀ pos δ, (pos, Op.plus δ) ∈ rule →
        ∃ r, (pos, r) ∈ results ∧ ResultOf t times minPos minRes pos δ r := by
  induction rule generalizing results with
  | nil =>
    simp only [applyRuleResults] at h
    injection h with h; injection h with h
    subst h
    exact ⟨rfl, fun _ _ hm => (by cases hm)⟩
  | cons e rest ih =>
    obtain ⟨pos, op⟩ := e
    cases op with
    | mult q r => simp only [applyRuleResults] at h; cases h
    | plus plus =>
      simp only [applyRuleResults] at h
      split at h
      · cases h
      · cases h
      · next r hr =>
        split at h
        · cases h
        · cases h
        · next results' hrest =>
          injection h with h; injection h with h
          subst h
          obtain ⟨ih1, ih2⟩ := ih hrest
          refine ⟨by simp only [List.map_cons, keys] at *; rw [ih1], ?_⟩
          intro pos' δ hm
          rcases List.mem_cons.mp hm with hm | hm
          · simp only [Prod.mk.injEq, Op.plus.injEq] at hm
            obtain ⟨hp, hd⟩ := hm
            subst hp; subst hd
            refine ⟨r, List.mem_cons_self, ?_⟩
            unfold ResultOf
            split at hr
            · next heq =>
              have heq : pos' = minPos := by simpa using heq
              split at hr
              · next hneg =>
                injection hr with hr; injection hr with hr
                exact Or.inl ⟨heq, hneg, hr.symm⟩
              · cases hr
            · next hne =>
              have hne : pos' ≠ minPos := by simpa using hne
              split at hr
              · cases hr
              · next c hc =>
                injection hr with hr
                exact Or.inr ⟨hne, c, hc, hr⟩
          · obtain ⟨r', hr', hres⟩ := ih2 pos' δ hm
            exact ⟨r', List.mem_cons_of_mem _ hr', hres⟩

theorem results_none {t : Tape} {times : Nat} {minPos : Index} {minRes : Nat} {rule : Rule}
    (h : applyRuleResults t times minPos minRes rule = .ok none) :
    ∃ pos δ c, (pos, Op.plus δ) ∈ rule ∧ pos ≠ minPos ∧ t.getCount pos = .ok c ∧
      applyPlus c δ times = none := by
  induction rule with
  | nil => simp only [applyRuleResults] at h; cases h
  | cons e rest ih =>
    obtain ⟨pos, op⟩ := e
    cases op with
    | mult q r => simp only [applyRuleResults] at h; cases h
    | plus plus =>
      simp only [applyRuleResults] at h
      split at h
      · cases h
      · next hr =>
        split at hr
        · split at hr <;> cases hr
        · next hne =>
          have hne : pos ≠ minPos := by simpa using hne
          split at hr
          · cases hr
          · next c hc =>
            injection hr with hr
            exact ⟨pos, plus, c, List.mem_cons_self, hne, hc, hr⟩
      · next r hr =>
        split at h
        · cases h
        · next hrest =>
          obtain ⟨pos', δ, c, hm, hrest'⟩ := ih hrest
          exact ⟨pos', δ, c, List.mem_cons_of_mem _ hm, hrest'⟩
        · cases h

theorem results_no_error {t : Tape} {times : Nat} {minPos : Index} {minRes : Nat} {rule : Rule}
    (hp : AllPlus rule) (hmin : ∀ δ, (minPos, Op.plus δ) ∈ rule → δ < 0)
    (hr : ∀ idx op, (idx, op) ∈ rule → idx ≠ minPos → InRange t idx) :
    ∀ e : PErr, applyRuleResults t times minPos minRes rule ≠ .error e := by
  induction rule with
  | nil => simp [applyRuleResults]
  | cons e0 rest ih =>
    obtain ⟨pos, op⟩ := e0
    have ih' := ih (fun e he => hp e (List.mem_cons_of_mem _ he))
      (fun δ hm => hmin δ (List.mem_cons_of_mem _ hm))
      (fun idx op hm => hr idx op (List.mem_cons_of_mem _ hm))
    cases op with
    | mult q r =>
      obtain ⟨δ, hδ⟩ := hp _ List.mem_cons_self
      cases hδ
    | plus plus =>
      simp only [applyRuleResults]
      intro e h
      split at h
      · next e' hr' =>
        split at hr'
        · next heq =>
          have heq : pos = minPos := by simpa using heq
          rw [if_pos (hmin plus (heq ▸ List.mem_cons_self))] at hr'
          cases hr'
        · next hne =>
          have hne : pos ≠ minPos := by simpa using hne
          obtain ⟨c, hc⟩ := getCount_inRange (hr pos _ List.mem_cons_self hne)
          rw [hc] at hr'
          cases hr'
      · cases h
      · split at h
        · next e' he' => exact ih' e' he'
        · cases h
        · cases h

/-! ### apply_rule -/

theorem applyRule_some_split {t t' : Tape} {rule : Rule} {times : Nat}
    (h : applyRule t rule = .ok (some times, t')) :
    ∃ minPos minRes results, countApps t rule = .ok (some (times, minPos, minRes)) ∧
      applyRuleResults t times minPos minRes rule = .ok (some results) ∧
      setCounts t results = .ok t' := by
  unfold applyRule at h
  split at h
  · cases h
  · cases h
  · next T P M hca =>
    split at h
    · cases h
    · cases h
    · next results hres =>
      split at h
      · cases h
      · next t1 ht1 =>
        injection h with h
        simp only [Prod.mk.injEq, Option.some.injEq] at h
        obtain ⟨hT, ht⟩ := h
        subst hT; subst ht
        exact ⟨P, M, results, hca, hres, ht1⟩

/-- two entries of a rule with distinct keys that carry the same key are the same entry -/
theorem entry_unique {rule : Rule} (hnd : (keys rule).Nodup) {idx : Index} {op op' : Op}
    (h1 : (idx, op) ∈ rule) (h2 : (idx, op') ∈ rule) : op = op' := by
  have e1 := (mem_iff_lookup hnd idx op).mp h1
  have e2 := (mem_iff_lookup hnd idx op').mp h2
  rw [e1] at e2
  injection e2

theorem apply_exact_nat {t t' : Tape} {rule : Rule} {times : Nat} (hnd : (keys rule).Nodup)
    (h : applyRule t rule = .ok (some times, t')) :
    (∃ pos minRes, countApps t rule = .ok (some (times, pos, minRes))) ∧
      (∀ idx δ, (idx, Op.plus δ) ∈ rule →
        ∃ c c', t.getCount idx = .ok c ∧ t'.getCount idx = .ok c' ∧ (c' : Int) = c + δ * times ∧
          (δ < 0 → 1 ≤ c')) ∧
      (∀ idx, idx ∉ keys rule → t'.getCount idx = t.getCount idx) ∧
      SameShape t t' := by
  obtain ⟨P, M, results, hca, hres, hset⟩ := applyRule_some_split h
  obtain ⟨hk, hresOf⟩ := results_some hres
  obtain ⟨hshape, _, hother, hwritten⟩ := setCounts_ok hset
  obtain ⟨_, _, hdec, pre, δp, post, cP, hrule, hδp, hcP, hgeP, _, hM, _⟩ := countApps_some_nat hca
  refine ⟨⟨P, M, hca⟩, ?_, ?_, hshape⟩
  · intro idx δ hm
    obtain ⟨r, hr, hro⟩ := hresOf idx δ hm
    have hw := hwritten (by rw [hk]; exact hnd) (idx, r) hr
    simp only at hw
    rcases hro with ⟨hidx, hneg, hrM⟩ | ⟨hne, c, hc, hap⟩
    · subst hidx
      have hmem : (idx, Op.plus δp) ∈ rule := by rw [hrule]; simp
      have := entry_unique hnd hm hmem
      simp only [Op.plus.injEq] at this
      subst this
      refine ⟨cP, r, hcP, hw, ?_, fun _ => by omega⟩
      have := natAbs_mul_cast hδp times
      omega
    · refine ⟨c, r, hc, hw, applyPlus_some hap, ?_⟩
      intro hneg
      obtain ⟨c', hc', hge⟩ := hdec idx δ hm hneg
      rw [hc] at hc'
      injection hc' with hc'
      subst hc'
      have h1 := applyPlus_some hap
      have h2 := natAbs_mul_cast hneg times
      omega
  · intro idx hidx
    exact hother idx (by rw [hk]; exact hidx)

theorem apply_none_untouched' (t t' : Tape) (rule : Rule)
    (h : applyRule t rule = .ok (none, t')) : t' = t := by
  unfold applyRule at h
  split at h
  · cases h
  · injection h with h; injection h with _ h; exact h.symm
  · split at h
    · cases h
    · injection h with h; injection h with _ h; exact h.symm
    · split at h
      · cases h
      · injection h with h; injection h with h _; cases h

theorem count_le_max {t : Tape} (hc : CountsInRange t) {idx : Index} {c : Nat}
    (h : t.getCount idx = .ok c) : c ≤ countMax := by
  obtain ⟨b, hb, hbc⟩ := (getCount_ok_iff t idx c).mp h
  have hmem := List.mem_of_getElem? hb
  unfold tspan at hmem
  rw [← hbc]
  split at hmem
  · exact hc.2 b hmem
  · exact hc.1 b hmem

/-- a `None` from `apply_rule`: `count_apps` said `None`, or some non-decreasing block would leave
    the `u64` range -/
theorem apply_none_cases' (t t' : Tape) (rule : Rule) (hc : CountsInRange t)
    (h : applyRule t rule = .ok (none, t')) :
    countApps t rule = .ok none ∨
      ∃ times pos minRes, countApps t rule = .ok (some (times, pos, minRes)) ∧
        ∃ idx δ c, (idx, Op.plus δ) ∈ rule ∧ 0 ≤ δ ∧ t.getCount idx = .ok c ∧
          (countMax : Int) < c + δ * times := by
  unfold applyRule at h
  split at h
  · cases h
  · next hca => exact Or.inl hca
  · next T P M hca =>
    refine Or.inr ⟨T, P, M, hca, ?_⟩
    split at h
    · cases h
    · next hres =>
      obtain ⟨idx, δ, c, hm, _, hcnt, hap⟩ := results_none hres
      -- a decreasing block cannot fail
      have hnn : 0 ≤ δ := by
        by_cases hnn : 0 ≤ δ
        · exact hnn
        · exfalso
          have hneg : δ < 0 := by omega
          obtain ⟨_, _, hdec, _⟩ := countApps_some_nat hca
          obtain ⟨c', hc', hge⟩ := hdec idx δ hm hneg
          rw [hcnt] at hc'
          injection hc' with hc'
          subst hc'
          rw [applyPlus_dec hneg (count_le_max hc hcnt) (by omega)] at hap
          cases hap
      exact ⟨idx, δ, c, hm, hnn, hcnt, (applyPlus_inc_none_iff hnn).mp hap⟩
    · split at h
      · cases h
      · injection h with h; injection h with h _; cases h

end BB.RuleArith
