/-
C14 support, part 5: the link to L0 runs (a machine that keeps visiting all its states has a
strongly connected transition graph), the graph-level form of the walk condition, and the
one-state case.
-/
import BB.Lemmas.GraphConn4

namespace BB.Graph

open BB

/-- (part of the statements) The run of `p` from the blank tape uses all of the states `0..n-1`
    forever: each of them is visited at arbitrarily late times. -/
def UsesAllStatesForever (p : Prog) (n : Nat) : Prop :=
  ∀ q, q < n → ∀ t, ∃ t' c, t ≤ t' ∧ RunAt p.toF t' c ∧ c.state = q

theorem step1_edge (p : Prog) (c c' : Cfg) (h : step1 p.toF c = some c') :
    Edge p c.state c'.state := by
  unfold step1 at h
  split at h
  · cases h
  · rename_i pr sh q hi
    cases h
    refine ⟨c.scan, (pr, sh, q), hi, ?_⟩
    unfold Cfg.move
    split <;> rfl

theorem stepN_path (p : Prog) (k : Nat) (c c' : Cfg) (h : stepN p.toF k c = some c') :
    Path p c.state c'.state := by
  induction k generalizing c with
  | zero =>
    simp only [stepN] at h
    cases h
    exact .refl _
  | succ k ih =>
    simp only [stepN] at h
    split at h
    · cases h
    · rename_i c1 h1
      exact .head (step1_edge p c c1 h1) (ih c1 h)

theorem stepN_split (p : ProgF) (a b : Nat) (c c'' : Cfg) (h : stepN p (a + b) c = some c'') :
    ∃ c', stepN p a c = some c' ∧ stepN p b c' = some c'' := by
  induction a generalizing c with
  | zero => exact ⟨c, rfl, by simpa using h⟩
  | succ a ih =>
    have e : a + 1 + b = (a + b) + 1 := by omega
    rw [e] at h
    simp only [stepN] at h ⊢
    split at h
    · cases h
    · rename_i c1 h1
      exact ih c1 h

theorem strong_of_recurrent' (p : Prog) (n : Nat) (h : UsesAllStatesForever p n) :
    StronglyConnected p n := by
  intro a b ha hb
  obtain ⟨t1, c1, _, hr1, hs1⟩ := h a ha 0
  obtain ⟨t2, c2, hle, hr2, hs2⟩ := h b hb t1
  unfold RunAt at hr1 hr2
  have e : t2 = t1 + (t2 - t1) := by omega
  rw [e] at hr2
  obtain ⟨c', h1, h2⟩ := stepN_split _ _ _ _ _ hr2
  rw [hr1] at h1
  cases h1
  rw [← hs1, ← hs2]
  exact stepN_path p _ _ _ h2

theorem isConnected_false_loses_nothing' (p : Prog) (n : Nat) (hn : 2 ≤ n) (hwf : wf p n = true)
    (h : isConnected p n = .ok false) : ¬ UsesAllStatesForever p n :=
  fun hu => isConnected_false_sound' p n hn hwf h (strong_of_recurrent' p n hu)

/-! ### The graph-level form of the walk condition -/

theorem path_up (p : Prog) (n : Nat) (hchain : ∀ k, k + 1 < n → Path p k (k + 1)) (a b : Nat)
    (hab : a ≤ b) (hb : b < n) : Path p a b := by
  induction b with
  | zero =>
    have : a = 0 := by omega
    subst this; exact .refl _
  | succ b ih =>
    by_cases h : a = b + 1
    · subst h; exact .refl _
    · exact (ih (by omega) (by omega)).trans (hchain b hb)

theorem chain_of_walk (p : Prog) (n : Nat) (w : List Nat) (hw : WalkGenerated p n w = true)
    (k : Nat) (hk : k + 1 < n) : Path p k (k + 1) := by
  have hw' := hw
  simp only [WalkGenerated, Bool.and_eq_true, decide_eq_true_eq, beq_iff_eq,
    List.contains_eq_mem] at hw'
  obtain ⟨⟨⟨⟨⟨⟨hn, hwf⟩, hns⟩, hhead⟩, hchain⟩, hord⟩, hlast⟩ := hw'
  cases w with
  | nil => simp at hhead
  | cons a xs =>
    have : a = 0 := by simpa using hhead
    subst this
    have hlast' : n - 1 ∈ xs := by
      rcases List.mem_cons.mp hlast with h | h
      · omega
      · exact h
    have hord' : ordered 0 xs = true := by
      simp only [ordered, Bool.and_eq_true] at hord
      simpa using hord.2
    have hk1 : k + 1 ∈ xs :=
      (walk_order p xs 0 (n - 1) (k + 1) (chainB_tail p 0 xs hchain) hord' hlast'
        (by omega) (by omega)).1
    by_cases hk0 : k = 0
    · subst hk0
      exact path_of_L p hns _ _ (walk_reach p xs 0 1 hchain (List.mem_cons_of_mem _ hk1))
    · exact path_of_L p hns _ _ (walk_order p xs 0 (k + 1) k (chainB_tail p 0 xs hchain) hord' hk1
        (by omega) (by omega)).2

theorem isConnected_true_iff_strong_of_chain' (p : Prog) (n : Nat) (hn : 2 ≤ n)
    (hwf : wf p n = true) (hns : noShadow p = true)
    (hchain : ∀ k, k + 1 < n → Path p k (k + 1)) :
    isConnected p n = .ok true ↔ StronglyConnected p n := by
  constructor
  · intro h
    have hback := ((isConnected_true_iff' p n (by omega) hwf hns).mp h).2
    intro a b ha hb
    exact ((path_up p n hchain a (n - 1) (by omega) (by omega)).trans hback).trans
      (path_up p n hchain 0 b (by omega) hb)
  · exact isConnected_of_strong' p n hn hwf

theorem isConnected_one_state' (p : Prog) (hwf : wf p 1 = true) : isConnected p 1 = .ok false := by
  obtain ⟨b, hb, hiff⟩ := isConnected_spec p 1 (by omega) hwf
  cases b with
  | false => exact hb
  | true =>
    exfalso
    obtain ⟨x, hx, hx0⟩ := (hiff.mp rfl).1 0 (by omega)
    have := (edgeL_lt p 1 hwf 0 x hx).2
    omega

end BB.Graph
