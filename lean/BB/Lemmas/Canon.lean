/-
Canonical form of run-length spans and its preservation by pull / push / step.
-/
import BB.Model.Tape

namespace BB

/-- A span is canonical: no empty block, adjacent blocks differ in colour, and the far-end block
    is not blank. -/
def Span.Canon : Span → Prop
  | [] => True
  | [b] => 0 < b.count ∧ b.color ≠ 0
  | b :: c :: rest => 0 < b.count ∧ b.color ≠ c.color ∧ Span.Canon (c :: rest)

/-- Boolean version (used by the driver / examples). -/
def Span.canonB : Span → Bool
  | [] => true
  | [b] => decide (0 < b.count) && (b.color != 0)
  | b :: c :: rest => decide (0 < b.count) && (b.color != c.color) && Span.canonB (c :: rest)

def Tape.Canon (t : Tape) : Prop := Span.Canon t.lspan ∧ Span.Canon t.rspan

theorem Span.canon_nil : Span.Canon [] := trivial

theorem Span.Canon.tail {b : Block} {s : Span} (h : Span.Canon (b :: s)) : Span.Canon s := by
  cases s with
  | nil => trivial
  | cons c rest => exact h.2.2

theorem Span.Canon.head_pos {b : Block} {s : Span} (h : Span.Canon (b :: s)) : 0 < b.count := by
  cases s with
  | nil => exact h.1
  | cons c rest => exact h.1

/-- consing a block of a different colour (or onto the empty span, a non-blank one) -/
theorem Span.Canon.cons {b : Block} {s : Span} (hs : Span.Canon s) (hb : 0 < b.count)
    (hne : match s with | [] => b.color ≠ 0 | c :: _ => b.color ≠ c.color) :
    Span.Canon (b :: s) := by
  cases s with
  | nil => exact ⟨hb, hne⟩
  | cons c rest => exact ⟨hb, hne, hs⟩

/-- replacing the count of the head block by another positive count -/
theorem Span.Canon.set_head {b : Block} {s : Span} (h : Span.Canon (b :: s)) {n : Nat} (hn : 0 < n) :
    Span.Canon (⟨b.color, n⟩ :: s) := by
  cases s with
  | nil => exact ⟨hn, h.2⟩
  | cons c rest => exact ⟨hn, h.2.1, h.2.2⟩

/-! ### pull -/

theorem Span.pull_stepped_pos (s : Span) (scan : Nat) (skip : Bool) :
    0 < (Span.pull s scan skip).2.1 := by
  unfold Span.pull
  cases s with
  | nil => simp
  | cons b rest =>
    by_cases h : (skip && b.color == scan) = true
    · simp only [h, if_true]
      cases rest with
      | nil => simp; omega
      | cons c r => by_cases hc : c.count > 1 <;> simp [hc] <;> omega
    · simp only [h]
      by_cases hc : b.count > 1 <;> simp [hc]

private theorem pull_tail_canon {s1 : Span} (h : Span.Canon s1) :
    Span.Canon (match s1 with
      | [] => ([] : Span)
      | b :: rest => if b.count > 1 then ⟨b.color, b.count - 1⟩ :: rest else rest) := by
  cases s1 with
  | nil => trivial
  | cons b rest =>
    by_cases hc : b.count > 1
    · simp only [hc, if_true]
      exact h.set_head (by omega)
    · simp only [hc, if_false]
      exact h.tail

theorem Span.pull_canon {s : Span} (h : Span.Canon s) (scan : Nat) (skip : Bool) :
    Span.Canon (Span.pull s scan skip).2.2 := by
  unfold Span.pull
  cases s with
  | nil => simp [Span.Canon]
  | cons b rest =>
    by_cases hsk : (skip && b.color == scan) = true
    · simp only [hsk, if_true]
      have := pull_tail_canon h.tail
      cases rest with
      | nil => simpa using this
      | cons c r =>
        by_cases hc : c.count > 1 <;> simp [hc] at this ⊢ <;> exact this
    · simp only [hsk]
      have := pull_tail_canon h
      by_cases hc : b.count > 1 <;> simp [hc] at this ⊢ <;> exact this

/-! ### push -/

theorem Span.push_canon {s : Span} (h : Span.Canon s) (print : Nat) {stepped : Nat}
    (hk : 0 < stepped) : Span.Canon (Span.push s print stepped) := by
  unfold Span.push
  cases s with
  | nil =>
    by_cases hp : print = 0
    · simp [hp, Span.Canon]
    · have : (print == 0) = false := by simpa using hp
      simp only [this]
      exact ⟨hk, hp⟩
  | cons b rest =>
    by_cases hb : b.color = print
    · have : (b.color == print) = true := by simpa using hb
      simp only [this, if_true]
      exact h.set_head (by omega)
    · have : (b.color == print) = false := by simpa using hb
      simp only [this]
      exact Span.Canon.cons (b := ⟨print, stepped⟩) h hk (by simpa using fun e => hb e.symm)

/-! ### step -/

theorem Tape.step_stepped_pos (t : Tape) (d : Bool) (c : Nat) (sk : Bool) : 0 < (t.step d c sk).2 := by
  unfold Tape.step
  cases d <;> simp <;> exact Span.pull_stepped_pos _ _ _

/-- **C12, first half.** One step keeps the tape canonical, for every direction, colour and sweep
    flag (consistent with the scanned block or not). -/
theorem Tape.canon_step {t : Tape} (h : t.Canon) (d : Bool) (c : Nat) (sk : Bool) :
    (t.step d c sk).1.Canon := by
  unfold Tape.step
  cases d
  · simp only [Bool.false_eq_true, if_false]
    exact ⟨Span.pull_canon h.1 _ _, Span.push_canon h.2 _ (Span.pull_stepped_pos _ _ _)⟩
  · simp only [if_true]
    exact ⟨Span.push_canon h.1 _ (Span.pull_stepped_pos _ _ _), Span.pull_canon h.2 _ _⟩

theorem Tape.canon_init (scan : Nat) : (Tape.init scan).Canon := ⟨trivial, trivial⟩

/-- A history: a list of (direction, colour, sweep flag) operations. -/
def Tape.runOps (t : Tape) : List (Bool × Nat × Bool) → Tape
  | [] => t
  | (d, c, sk) :: ops => Tape.runOps (t.step d c sk).1 ops

/-- **C12.** After any sequence of steps from a canonical tape (in particular the blank tape) the
    tape is canonical. -/
theorem Tape.canon_runOps {t : Tape} (h : t.Canon) (ops : List (Bool × Nat × Bool)) :
    (t.runOps ops).Canon := by
  induction ops generalizing t with
  | nil => exact h
  | cons o ops ih =>
    obtain ⟨d, c, sk⟩ := o
    exact ih (Tape.canon_step h d c sk)

end BB
