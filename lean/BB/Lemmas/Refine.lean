/-
Refinement of the run-length tape (L1) to the cell-by-cell machine (L0): statements.
-/
import BB.Model.Machine
import BB.Lemmas.Canon

namespace BB

/-- all block counts positive (the part of canonicity the refinement needs) -/
def Span.Pos (s : Span) : Prop := ∀ b ∈ s, 0 < b.count

def Tape.Pos (t : Tape) : Prop := Span.Pos t.lspan ∧ Span.Pos t.rspan

theorem Span.Canon.pos {s : Span} (h : Span.Canon s) : Span.Pos s := by
  induction s with
  | nil => intro b hb; cases hb
  | cons a rest ih =>
    intro b hb
    cases hb with
    | head => exact h.head_pos
    | tail _ hb' => exact ih h.tail b hb'

theorem Tape.Canon.pos {t : Tape} (h : t.Canon) : t.Pos := ⟨h.1.pos, h.2.pos⟩

end BB
