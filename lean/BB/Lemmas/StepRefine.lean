/-
The L0 machinery behind `step_refines`: additivity and ≈c-congruence of `stepN`, a
direction-generic view of `Cfg.move`, the pure-L0 sweep lemma, the cell-level meaning of
`Span.pull` / `Span.push`, and the refinement of one `Tape.step`.
-/
import BB.Lemmas.Unroll

namespace BB

/-! ### stepN -/

theorem stepN_zero (p : ProgF) (c : Cfg) : stepN p 0 c = some c := rfl

theorem stepN_succ (p : ProgF) (n : Nat) (c : Cfg) :
    stepN p (n + 1) c = (step1 p c).bind (stepN p n) := by
  simp only [stepN]
  cases step1 p c <;> rfl

theorem stepN_one (p : ProgF) (c : Cfg) : stepN p 1 c = step1 p c := by
  rw [stepN_succ]
  cases step1 p c <;> rfl

/-- additivity of `stepN` -/
theorem stepN_add (p : ProgF) (a b : Nat) (c : Cfg) :
    stepN p (a + b) c = (stepN p a c).bind (stepN p b) := by
  induction a generalizing c with
  | zero => simp [stepN_zero]
  | succ a ih =>
    have : a + 1 + b = (a + b) + 1 := by omega
    rw [this, stepN_succ, stepN_succ]
    cases step1 p c with
    | none => rfl
    | some c' => simpa using ih c'

theorem stepN_succ_last (p : ProgF) (n : Nat) (c : Cfg) :
    stepN p (n + 1) c = (stepN p n c).bind (step1 p) := by
  rw [stepN_add]
  cases stepN p n c with
  | none => rfl
  | some c' => simp [stepN_one]

theorem stepN_add_of_eq {p : ProgF} {a b : Nat} {c c' c'' : Cfg}
    (h1 : stepN p a c = some c') (h2 : stepN p b c' = some c'') :
    stepN p (a + b) c = some c'' := by
  rw [stepN_add, h1]; exact h2

/-- a run of `a + b` steps has a run of `a` steps as a prefix -/
theorem stepN_prefix {p : ProgF} {a b : Nat} {c c'' : Cfg} (h : stepN p (a + b) c = some c'') :
    ∃ c', stepN p a c = some c' ∧ stepN p b c' = some c'' := by
  rw [stepN_add] at h
  cases h1 : stepN p a c with
  | none => rw [h1] at h; cases h
  | some c' => rw [h1] at h; exact ⟨c', rfl, h⟩

theorem stepN_le {p : ProgF} {a n : Nat} {c c'' : Cfg} (h : stepN p n c = some c'') (ha : a ≤ n) :
    ∃ c', stepN p a c = some c' := by
  obtain ⟨b, rfl⟩ : ∃ b, n = a + b := ⟨n - a, by omega⟩
  obtain ⟨c', h1, _⟩ := stepN_prefix h
  exact ⟨c', h1⟩

/-! ### congruence under ≈c -/

theorem Cfg.Equiv.move {a b : Cfg} (h : a ≈c b) (pr : Nat) (d : Bool) (q : Nat) :
    a.move pr d q ≈c b.move pr d q := by
  obtain ⟨_, _, hl, hr⟩ := h
  cases d
  · exact ⟨rfl, hl.headD, hl.tail, hr.cons pr⟩
  · exact ⟨rfl, hr.headD, hl.cons pr, hr.tail⟩

theorem step1_congr {p : ProgF} {a b a' : Cfg} (h : a ≈c b) (ha : step1 p a = some a') :
    ∃ b', step1 p b = some b' ∧ a' ≈c b' := by
  unfold step1 at ha ⊢
  rw [← h.1, ← h.2.1]
  cases hp : p a.state a.scan with
  | none => rw [hp] at ha; cases ha
  | some i =>
    obtain ⟨pr, sh, q⟩ := i
    rw [hp] at ha
    simp only [Option.some.injEq] at ha
    subst ha
    exact ⟨_, rfl, h.move pr sh q⟩

theorem stepN_congr {p : ProgF} {n : Nat} {a b a' : Cfg} (h : a ≈c b)
    (ha : stepN p n a = some a') : ∃ b', stepN p n b = some b' ∧ a' ≈c b' := by
  induction n generalizing a b with
  | zero =>
    simp only [stepN_zero, Option.some.injEq] at ha
    subst ha
    exact ⟨b, rfl, h⟩
  | succ n ih =>
    rw [stepN_succ] at ha ⊢
    cases h1 : step1 p a with
    | none => rw [h1] at ha; cases ha
    | some a1 =>
      rw [h1] at ha
      obtain ⟨b1, hb1, he⟩ := step1_congr h h1
      rw [hb1]
      exact ih he ha

/-! ### direction-generic view of a configuration -/

/-- the configuration whose cells in the direction of travel `d` are `pull` and whose cells
    behind the head are `push` -/
def Cfg.ofDir (d : Bool) (q : Nat) (push : List Nat) (scan : Nat) (pull : List Nat) : Cfg :=
  if d then ⟨q, push, scan, pull⟩ else ⟨q, pull, scan, push⟩

@[simp] theorem Cfg.ofDir_state (d : Bool) (q : Nat) (push : List Nat) (scan : Nat)
    (pull : List Nat) : (Cfg.ofDir d q push scan pull).state = q := by cases d <;> rfl

@[simp] theorem Cfg.ofDir_scan (d : Bool) (q : Nat) (push : List Nat) (scan : Nat)
    (pull : List Nat) : (Cfg.ofDir d q push scan pull).scan = scan := by cases d <;> rfl

theorem Cfg.ofDir_move (d : Bool) (q : Nat) (push : List Nat) (scan : Nat) (pull : List Nat)
    (pr q' : Nat) :
    (Cfg.ofDir d q push scan pull).move pr d q'
      = Cfg.ofDir d q' (pr :: push) (pull.headD 0) pull.tail := by
  cases d <;> rfl

theorem Cfg.ofDir_equiv (d : Bool) (q : Nat) {push push' : List Nat} (scan : Nat)
    {pull pull' : List Nat} (h1 : SameCells push push') (h2 : SameCells pull pull') :
    Cfg.ofDir d q push scan pull ≈c Cfg.ofDir d q push' scan pull' := by
  cases d
  · exact ⟨rfl, rfl, h2, h1⟩
  · exact ⟨rfl, rfl, h1, h2⟩

theorem Tape.toCfg_ofDir_true (t : Tape) (q : Nat) :
    t.toCfg q = Cfg.ofDir true q (Span.unroll t.lspan) t.scan (Span.unroll t.rspan) := rfl

theorem Tape.toCfg_ofDir_false (t : Tape) (q : Nat) :
    t.toCfg q = Cfg.ofDir false q (Span.unroll t.rspan) t.scan (Span.unroll t.lspan) := rfl

theorem step1_ofDir {p : ProgF} {q s pr : Nat} {d : Bool} {q' : Nat}
    (hi : p q s = some (pr, d, q')) (push pull : List Nat) :
    step1 p (Cfg.ofDir d q push s pull)
      = some (Cfg.ofDir d q' (pr :: push) (pull.headD 0) pull.tail) := by
  unfold step1
  simp only [Cfg.ofDir_state, Cfg.ofDir_scan, hi, Cfg.ofDir_move]

/-! ### the L0 sweep lemma -/

/-- While the instruction keeps the state and the pull side shows `n` more cells of the scanned
    colour, `j ≤ n` steps print `j` cells and eat `j` cells. -/
theorem sweep_steps {p : ProgF} {q s pr : Nat} {d : Bool} (hi : p q s = some (pr, d, q))
    (n j : Nat) (hj : j ≤ n) (push rest : List Nat) :
    stepN p j (Cfg.ofDir d q push s (List.replicate n s ++ rest))
      = some (Cfg.ofDir d q (List.replicate j pr ++ push) s (List.replicate (n - j) s ++ rest)) := by
  induction j with
  | zero => simp [stepN_zero]
  | succ j ih =>
    rw [stepN_succ_last, ih (by omega)]
    obtain ⟨m, hm⟩ : ∃ m, n - j = m + 1 := ⟨n - j - 1, by omega⟩
    have hm' : n - (j + 1) = m := by omega
    rw [hm, hm']
    simp only [Option.bind_some]
    rw [step1_ofDir hi]
    simp [List.replicate_succ]

/-- **Sweep lemma.** If `p q s = some (pr, d, q')`, the pull side starts with `n` cells of colour
    `s`, and (`n ≠ 0 → q = q'`), then during the first `n+1` configurations the machine is in state
    `q` scanning `s`, and after `n+1` steps the push side has gained `n+1` cells `pr`, the scanned
    cell is the next pull cell and the state is `q'`. -/
theorem sweep_run {p : ProgF} {q s pr : Nat} {d : Bool} {q' : Nat}
    (hi : p q s = some (pr, d, q')) (n : Nat) (hn : n ≠ 0 → q = q') (push rest : List Nat) :
    (∀ j, j < n + 1 →
      ∃ c, stepN p j (Cfg.ofDir d q push s (List.replicate n s ++ rest)) = some c
        ∧ c.state = q ∧ c.scan = s) ∧
    stepN p (n + 1) (Cfg.ofDir d q push s (List.replicate n s ++ rest))
      = some (Cfg.ofDir d q' (List.replicate (n + 1) pr ++ push) (rest.headD 0) rest.tail) := by
  by_cases h0 : n = 0
  · subst h0
    constructor
    · intro j hj
      have : j = 0 := by omega
      subst this
      exact ⟨_, rfl, by simp, by simp⟩
    · rw [stepN_one, step1_ofDir hi]; simp
  · have hq := hn h0
    subst hq
    constructor
    · intro j hj
      exact ⟨_, sweep_steps hi n j (by omega) push rest, by simp, by simp⟩
    · rw [stepN_succ_last, sweep_steps hi n n (Nat.le_refl _) push rest]
      simp only [Option.bind_some, Nat.sub_self, List.replicate_zero, List.nil_append]
      rw [step1_ofDir hi]
      simp [List.replicate_succ]

/-! ### cell-level meaning of `Span.pull` and `Span.push` -/

/-- the second half of `Span.pull`: take one cell off the span -/
def Span.pullTail (s1 : Span) : Nat × Span :=
  match s1 with
  | [] => (0, [])
  | b :: rest =>
    if b.count > 1 then (b.color, ⟨b.color, b.count - 1⟩ :: rest) else (b.color, rest)

/-- the first half of `Span.pull`: drop the first block when sweeping over it -/
def Span.pullSkip (s : Span) (scan : Nat) (skip : Bool) : Nat × Span :=
  match s with
  | b :: rest => if skip && b.color == scan then (1 + b.count, rest) else (1, s)
  | [] => (1, s)

theorem Span.pull_eq (s : Span) (scan : Nat) (skip : Bool) :
    Span.pull s scan skip
      = ((Span.pullTail (Span.pullSkip s scan skip).2).1, (Span.pullSkip s scan skip).1,
         (Span.pullTail (Span.pullSkip s scan skip).2).2) := by
  unfold Span.pull Span.pullSkip Span.pullTail
  cases s with
  | nil => rfl
  | cons b rest =>
    by_cases h : (skip && b.color == scan) = true
    · simp only [h, if_true]
      cases rest with
      | nil => rfl
      | cons c r => by_cases hc : c.count > 1 <;> simp [hc]
    · simp only [h]
      by_cases hc : b.count > 1 <;> simp [hc]

theorem Span.pullTail_spec {s1 : Span} (h : Span.Pos s1) :
    (Span.pullTail s1).1 = (Span.unroll s1).headD 0 ∧
    Span.unroll (Span.pullTail s1).2 = (Span.unroll s1).tail ∧
    Span.Pos (Span.pullTail s1).2 := by
  cases s1 with
  | nil => exact ⟨rfl, rfl, Span.pos_nil⟩
  | cons b rest =>
    obtain ⟨k, hk⟩ : ∃ k, b.count = k + 1 := ⟨b.count - 1, by have := h.head; omega⟩
    by_cases hc : b.count > 1
    · simp only [Span.pullTail, hc, if_true, Span.unroll_cons]
      refine ⟨by simp [hk, List.replicate_succ], by simp [hk, List.replicate_succ], ?_⟩
      exact Span.Pos.cons (by simp; omega) h.tail
    · simp only [Span.pullTail, hc, if_false, Span.unroll_cons]
      have hk0 : k = 0 := by omega
      subst hk0
      refine ⟨by simp [hk], by simp [hk], h.tail⟩

/-- **Meaning of `pull`.** The span pulled from starts with `n` cells of the scanned colour
    (`n = 0` unless sweeping), `n + 1` cells are stepped over, the new scanned cell is the next cell
    and the rest is what remains. -/
theorem Span.pull_spec {P : Span} (hP : Span.Pos P) (scan : Nat) (skip : Bool) :
    ∃ n rest, (Span.pull P scan skip).2.1 = n + 1 ∧
      Span.unroll P = List.replicate n scan ++ rest ∧ (n ≠ 0 → skip = true) ∧
      (Span.pull P scan skip).1 = rest.headD 0 ∧
      Span.unroll (Span.pull P scan skip).2.2 = rest.tail ∧
      Span.Pos (Span.pull P scan skip).2.2 := by
  rw [Span.pull_eq]
  cases P with
  | nil =>
    refine ⟨0, [], rfl, rfl, by simp, rfl, rfl, Span.pos_nil⟩
  | cons b r =>
    by_cases h : (skip && b.color == scan) = true
    · have hs : Span.pullSkip (b :: r) scan skip = (1 + b.count, r) := by
        simp only [Span.pullSkip, h, if_true]
      simp only [Bool.and_eq_true, beq_iff_eq] at h
      obtain ⟨t1, t2, t3⟩ := Span.pullTail_spec hP.tail
      refine ⟨b.count, Span.unroll r, ?_, ?_, fun _ => h.1, ?_, ?_, ?_⟩
      · rw [hs]; simp only; omega
      · rw [Span.unroll_cons, h.2]
      · rw [hs]; exact t1
      · rw [hs]; exact t2
      · rw [hs]; exact t3
    · have hs : Span.pullSkip (b :: r) scan skip = (1, b :: r) := by
        simp only [Span.pullSkip, h]; rfl
      obtain ⟨t1, t2, t3⟩ := Span.pullTail_spec hP
      refine ⟨0, Span.unroll (b :: r), ?_, ?_, by simp, ?_, ?_, ?_⟩
      · rw [hs]
      · simp
      · rw [hs]; exact t1
      · rw [hs]; exact t2
      · rw [hs]; exact t3

/-- **Meaning of `push`**: `k` cells of colour `pr` are put in front (up to trailing blanks). -/
theorem Span.push_sameCells (U : Span) (pr k : Nat) :
    SameCells (Span.unroll (Span.push U pr k)) (List.replicate k pr ++ Span.unroll U) := by
  unfold Span.push
  cases U with
  | nil =>
    by_cases hp : pr = 0
    · subst hp
      simp only [BEq.rfl, if_true, Span.unroll_nil, List.append_nil]
      exact sameCells_nil_left.2 (allZero_replicate_zero k)
    · have : (pr == 0) = false := by simpa using hp
      simp only [this]
      exact SameCells.refl _
  | cons b rest =>
    by_cases hb : b.color = pr
    · subst hb
      simp only [BEq.rfl, if_true, Span.unroll_cons]
      rw [← List.append_assoc, List.replicate_append_replicate, Nat.add_comm]
      exact SameCells.refl _
    · have : (b.color == pr) = false := by simpa using hb
      simp only [this]
      exact SameCells.refl _

theorem Span.push_pos {U : Span} (hU : Span.Pos U) (pr : Nat) {k : Nat} (hk : 0 < k) :
    Span.Pos (Span.push U pr k) := by
  unfold Span.push
  cases U with
  | nil =>
    by_cases hp : (pr == 0) = true
    · simp only [hp, if_true]; exact Span.pos_nil
    · simp only [hp]; exact Span.Pos.cons hk Span.pos_nil
  | cons b rest =>
    by_cases hb : (b.color == pr) = true
    · simp only [hb, if_true]
      exact Span.Pos.cons (by simp; omega) hU.tail
    · simp only [hb]
      exact Span.Pos.cons hk hU

/-! ### one `Tape.step`, direction-generic -/

theorem step_refines_dir (p : ProgF) (d : Bool) (q pr q' scan : Nat) (P U : Span)
    (hP : Span.Pos P) (hi : p q scan = some (pr, d, q')) :
    (∀ j, j < (Span.pull P scan (q == q')).2.1 →
      ∃ c, stepN p j (Cfg.ofDir d q (Span.unroll U) scan (Span.unroll P)) = some c
        ∧ c.state = q ∧ c.scan = scan) ∧
    ∃ c', stepN p (Span.pull P scan (q == q')).2.1
              (Cfg.ofDir d q (Span.unroll U) scan (Span.unroll P)) = some c' ∧
      c' ≈c Cfg.ofDir d q' (Span.unroll (Span.push U pr (Span.pull P scan (q == q')).2.1))
              (Span.pull P scan (q == q')).1 (Span.unroll (Span.pull P scan (q == q')).2.2) := by
  obtain ⟨n, rest, h1, h2, h3, h4, h5, _⟩ := Span.pull_spec hP scan (q == q')
  have hn : n ≠ 0 → q = q' := fun h => by simpa using h3 h
  obtain ⟨s1, s2⟩ := sweep_run hi n hn (Span.unroll U) rest
  rw [h1, h2, h4, h5]
  refine ⟨s1, _, s2, ?_⟩
  exact Cfg.ofDir_equiv d q' _ (Span.push_sameCells U pr (n + 1)).symm (SameCells.refl _)

theorem Tape.step_true (t : Tape) (c : Nat) (sk : Bool) :
    t.step true c sk =
      (⟨(Span.pull t.rspan t.scan sk).1, Span.push t.lspan c (Span.pull t.rspan t.scan sk).2.1,
        (Span.pull t.rspan t.scan sk).2.2⟩, (Span.pull t.rspan t.scan sk).2.1) := rfl

theorem Tape.step_false (t : Tape) (c : Nat) (sk : Bool) :
    t.step false c sk =
      (⟨(Span.pull t.lspan t.scan sk).1, (Span.pull t.lspan t.scan sk).2.2,
        Span.push t.rspan c (Span.pull t.lspan t.scan sk).2.1⟩,
       (Span.pull t.lspan t.scan sk).2.1) := rfl

theorem Tape.step_pos {t : Tape} (h : t.Pos) (d : Bool) (c : Nat) (sk : Bool) :
    (t.step d c sk).1.Pos := by
  cases d
  · rw [Tape.step_false]
    obtain ⟨n, rest, _, _, _, _, _, h6⟩ := Span.pull_spec h.1 t.scan sk
    exact ⟨h6, Span.push_pos h.2 c (Span.pull_stepped_pos _ _ _)⟩
  · rw [Tape.step_true]
    obtain ⟨n, rest, _, _, _, _, _, h6⟩ := Span.pull_spec h.2 t.scan sk
    exact ⟨Span.push_pos h.1 c (Span.pull_stepped_pos _ _ _), h6⟩

/-- **step_refines** (the statement of `BB/Props/C01.lean`). -/
theorem Tape.step_refines (p : ProgF) (t : Tape) (q pr : Nat) (d : Bool) (q' : Nat)
    (hpos : t.Pos) (hi : p q t.scan = some (pr, d, q')) :
    0 < (t.step d pr (q == q')).2 ∧
    (∀ j, j < (t.step d pr (q == q')).2 →
        ∃ c, stepN p j (t.toCfg q) = some c ∧ c.state = q ∧ c.scan = t.scan) ∧
    (∃ c', stepN p (t.step d pr (q == q')).2 (t.toCfg q) = some c' ∧
        c' ≈c (t.step d pr (q == q')).1.toCfg q') ∧
    (t.step d pr (q == q')).1.Pos := by
  refine ⟨Tape.step_stepped_pos _ _ _ _, ?_, ?_, Tape.step_pos hpos _ _ _⟩
  · cases d
    · rw [Tape.step_false, Tape.toCfg_ofDir_false]
      exact (step_refines_dir p false q pr q' t.scan t.lspan t.rspan hpos.1 hi).1
    · rw [Tape.step_true, Tape.toCfg_ofDir_true]
      exact (step_refines_dir p true q pr q' t.scan t.rspan t.lspan hpos.2 hi).1
  · cases d
    · rw [Tape.step_false, Tape.toCfg_ofDir_false]
      exact (step_refines_dir p false q pr q' t.scan t.lspan t.rspan hpos.1 hi).2
    · rw [Tape.step_true, Tape.toCfg_ofDir_true]
      exact (step_refines_dir p true q pr q' t.scan t.rspan t.lspan hpos.2 hi).2

/-! ### inside a sweep -/

theorem Span.pull_nil (scan : Nat) (skip : Bool) : Span.pull [] scan skip = (0, 1, []) := rfl

/-- The configurations strictly inside one `Tape.step` (direction-generic): the machine stays in
    state `q` scanning `scan`, and if `scan` is blank and everything ahead is blank then the span
    pulled from was empty already (canonicity: no trailing blank block). -/
theorem step_mid_dir (p : ProgF) (d : Bool) (q pr q' scan : Nat) (P U : Span)
    (hP : Span.Canon P) (hi : p q scan = some (pr, d, q')) (j : Nat)
    (hj : j < (Span.pull P scan (q == q')).2.1) :
    ∃ pushj pullj,
      stepN p j (Cfg.ofDir d q (Span.unroll U) scan (Span.unroll P))
        = some (Cfg.ofDir d q pushj scan pullj) ∧
      (scan = 0 → AllZero pullj → P = []) := by
  obtain ⟨n, rest, h1, h2, h3, -, -, -⟩ := Span.pull_spec hP.pos scan (q == q')
  rw [h1] at hj
  by_cases h0 : n = 0
  · subst h0
    have : j = 0 := by omega
    subst this
    exact ⟨_, _, rfl, fun _ hz => hP.allZero_iff.1 hz⟩
  · have hq : q = q' := by simpa using h3 h0
    subst hq
    refine ⟨List.replicate j pr ++ Span.unroll U, List.replicate (n - j) scan ++ rest, ?_, ?_⟩
    · rw [h2]; exact sweep_steps hi n j (by omega) _ rest
    · intro hs hz
      subst hs
      have hr : AllZero rest := (allZero_append.1 hz).2
      apply hP.allZero_iff.1
      rw [h2]; exact allZero_append.2 ⟨allZero_replicate_zero n, hr⟩

/-- **Inside a sweep.** For every `j` below the number of cells stepped, the L0 machine after `j`
    steps is in state `q` scanning the same colour; if that colour is blank and all cells in the
    direction of travel are blank then `atEdge` already held on the compressed tape; and for
    `0 < j` the tape is not blank. -/
theorem Tape.step_mid (p : ProgF) (t : Tape) (q pr : Nat) (d : Bool) (q' : Nat)
    (hcan : t.Canon) (hi : p q t.scan = some (pr, d, q')) (j : Nat)
    (hj : j < (t.step d pr (q == q')).2) :
    ∃ c, stepN p j (t.toCfg q) = some c ∧ c.state = q ∧ c.scan = t.scan ∧
      (t.scan = 0 → AllZero (if d then c.right else c.left) → t.atEdge d = true) ∧
      (0 < j → ¬ c.Blank) := by
  cases d
  · have hj' : j < (Span.pull t.lspan t.scan (q == q')).2.1 := hj
    obtain ⟨pushj, pullj, hs, hz⟩ :=
      step_mid_dir p false q pr q' t.scan t.lspan t.rspan hcan.1 hi j hj'
    rw [Tape.toCfg_ofDir_false]
    refine ⟨_, hs, rfl, rfl, ?_, ?_⟩
    · intro h0 ha
      have : t.lspan = [] := hz h0 ha
      simp [Tape.atEdge, h0, this]
    · intro hj0 hb
      have : t.lspan = [] := hz hb.1 hb.2.1
      rw [this, Span.pull_nil] at hj'
      simp only at hj'
      omega
  · have hj' : j < (Span.pull t.rspan t.scan (q == q')).2.1 := hj
    obtain ⟨pushj, pullj, hs, hz⟩ :=
      step_mid_dir p true q pr q' t.scan t.rspan t.lspan hcan.2 hi j hj'
    rw [Tape.toCfg_ofDir_true]
    refine ⟨_, hs, rfl, rfl, ?_, ?_⟩
    · intro h0 ha
      have : t.rspan = [] := hz h0 ha
      simp [Tape.atEdge, h0, this]
    · intro hj0 hb
      have : t.rspan = [] := hz hb.1 hb.2.2
      rw [this, Span.pull_nil] at hj'
      simp only at hj'
      omega

theorem Span.push_eq_nil {U : Span} {pr k : Nat} (h : Span.push U pr k = []) : pr = 0 := by
  unfold Span.push at h
  cases U with
  | nil =>
    by_cases hp : pr = 0
    · exact hp
    · have : (pr == 0) = false := by simpa using hp
      simp [this] at h
  | cons b rest =>
    simp only at h
    split at h <;> cases h

/-- a step that leaves the compressed tape blank printed a blank -/
theorem Tape.step_blank_color {t : Tape} {d : Bool} {c : Nat} {sk : Bool}
    (h : (t.step d c sk).1.blank = true) : c = 0 := by
  cases d
  · rw [Tape.step_false] at h
    simp only [Tape.blank, Bool.and_eq_true, List.isEmpty_iff] at h
    exact Span.push_eq_nil h.2
  · rw [Tape.step_true] at h
    simp only [Tape.blank, Bool.and_eq_true, List.isEmpty_iff] at h
    exact Span.push_eq_nil h.1.2

end BB
