/-
C04 support, part 2: an instrumented copy of `stepInstrs` / `stepConfigs` / `cantReachLoop` /
`cantReach` which remembers the blank tapes that were kept (not only their states) and returns a
flag that becomes `false` when blank-state pruning discards a tape that is not subsumed by a kept
blank tape of the same state.  The answer component equals the uninstrumented function's.
-/
import BB.Model.Reason

namespace BB.Reason

open BB

/-- the blank tapes kept so far, with their states; `kept.map (·.1)` is the model's `blanks` -/
abbrev Kept := List (Nat × Backstepper)

/-- least number of cells the blocks stand for (an indefinite block stands for at least one) -/
def minLenB : List Block → Nat
  | [] => 0
  | b :: bs => (if b.count == 0 then 1 else b.count) + minLenB bs

/-- for *blank* spans: every stream matching `z` matches `y`.  Either `z` ends in `blanks` (then the
    stream is all zeros), or `y` ends in `unknown` and asks for no more leading zeros than `z`. -/
def sideSub (y z : Span) : Bool :=
  z.end_ == TapeEnd.blanks || (y.end_ == TapeEnd.unknown && minLenB y.span ≤ minLenB z.span)

/-- for *blank* tapes: γ of `z` is included in γ of `y` (same state) -/
def blankSub (y z : Backstepper) : Bool := sideSub y.lspan z.lspan && sideSub y.rspan z.rspan

/-- the pruned blank tape is covered by a kept blank tape of the same state -/
def pruneOk (kept : Kept) (state : Nat) (tape : Backstepper) : Bool :=
  kept.any fun y => y.1 == state && blankSub y.2 tape

def stepInstrsI (config : Config) :
    List Instr → Kept → Except BackwardResult (Configs × Kept × Bool)
  | [], kept => .ok ([], kept, true)
  | (color, shift, state) :: rest, kept =>
    let tape := config.tape.backstep shift color
    let isBlank := tape.blank
    if isBlank && state == 0 then .error .init
    else if isBlank && (kept.map (·.1)).contains state then
      match stepInstrsI config rest kept with
      | .error e => .error e
      | .ok (stepped, kept', flag) => .ok (stepped, kept', pruneOk kept state tape && flag)
    else
      let kept' := if isBlank then (state, tape) :: kept else kept
      let nextConfig := Config.descendant state tape config
      if nextConfig.recs > MAX_RECS then .error .linRec
      else
        match stepInstrsI config rest kept' with
        | .error e => .error e
        | .ok (stepped, kept'', flag) => .ok (nextConfig :: stepped, kept'', flag)

def stepConfigsI :
    ValidatedSteps → Kept → Except BackwardResult (Configs × ValidatedSteps × Kept × Bool)
  | [], kept => .ok ([], [], kept, true)
  | (instrs, config) :: rest, kept =>
    let pullsIndef := instrs.filter fun i => config.tape.pullsIndef i.2.1
    let instrs' := instrs.filter fun i => !config.tape.pullsIndef i.2.1
    match stepInstrsI config instrs' kept with
    | .error e => .error e
    | .ok (stepped, kept', flag) =>
      match stepConfigsI rest kept' with
      | .error e => .error e
      | .ok (stepped', indefs, kept'', flag') =>
        .ok (stepped ++ stepped',
             if pullsIndef.isEmpty then indefs else (pullsIndef, config) :: indefs,
             kept'', flag && flag')

def cantReachLoopI (fixF1 : Bool) (entrypoints : Entrypoints) :
    Nat → Nat → Configs → Kept → ValidatedSteps → PRes BackwardResult × Bool
  | 0, _, _, _, _ => (.ok .stepLimit, true)
  | fuel + 1, step, configs, kept, indefSteps =>
    match getValidSteps fixF1 entrypoints configs with
    | .error e => (.error e, true)
    | .ok validSteps =>
      if validSteps.isEmpty then
        (if !indefSteps.isEmpty then .ok .spinout else .ok (.refuted step), true)
      else if MAX_STACK_DEPTH < validSteps.length then (.ok .depthLimit, true)
      else
        match stepConfigsI validSteps kept with
        | .error err => (.ok err, true)
        | .ok (configs', indefs, kept', flag) =>
          let indefSteps' := indefSteps ++ indefs
          if indefSteps'.length > MAX_STACK_DEPTH then (.ok .depthLimit, true)
          else
            let r := cantReachLoopI fixF1 entrypoints fuel (step + 1) configs' kept' indefSteps'
            (r.1, flag && r.2)

def getKept (configs : Configs) : Kept :=
  configs.filterMap fun cfg => if cfg.tape.blank then some (cfg.state, cfg.tape) else none

def cantReachI (fixF1 : Bool) (comp : Prog) (depth : Nat) (configs : Configs) :
    PRes BackwardResult × Bool :=
  if configs.isEmpty then (.ok (.refuted 0), true)
  else
    let entrypoints := getEntrypoints comp
    let configs' := configs.filter fun config => entrypoints.containsKey config.state
    if configs'.isEmpty then (.ok (.refuted 0), true)
    else cantReachLoopI fixF1 entrypoints depth 0 configs' (getKept configs') []

/-! ### the answer component is the model's answer -/

def dropFlagI (r : Except BackwardResult (Configs × Kept × Bool)) :
    Except BackwardResult (Configs × Blanks) :=
  match r with
  | .error e => .error e
  | .ok (s, k, _) => .ok (s, k.map (·.1))

theorem stepInstrsI_fst (config : Config) : ∀ (instrs : List Instr) (kept : Kept),
    stepInstrs config instrs (kept.map (·.1)) = dropFlagI (stepInstrsI config instrs kept) := by
  intro instrs
  induction instrs with
  | nil => intro kept; simp [stepInstrs, stepInstrsI, dropFlagI]
  | cons i rest ih =>
    intro kept
    obtain ⟨color, shift, state⟩ := i
    simp only [stepInstrs, stepInstrsI]
    split
    · simp [dropFlagI]
    · split
      · rw [ih kept]
        cases stepInstrsI config rest kept with
        | error e => simp [dropFlagI]
        | ok r => obtain ⟨s, k, f⟩ := r; simp [dropFlagI]
      · split
        · simp [dropFlagI]
        · have hk : (if (config.tape.backstep shift color).blank = true then
                state :: kept.map (·.1) else kept.map (·.1)) =
              (if (config.tape.backstep shift color).blank = true then
                (state, config.tape.backstep shift color) :: kept else kept).map (·.1) := by
            split <;> simp
          rw [hk, ih]
          cases stepInstrsI config rest _ with
          | error e => simp [dropFlagI]
          | ok r => obtain ⟨s, k, f⟩ := r; simp [dropFlagI]

def dropFlagC (r : Except BackwardResult (Configs × ValidatedSteps × Kept × Bool)) :
    Except BackwardResult (Configs × ValidatedSteps × Blanks) :=
  match r with
  | .error e => .error e
  | .ok (s, i, k, _) => .ok (s, i, k.map (·.1))

theorem stepConfigsI_fst : ∀ (vs : ValidatedSteps) (kept : Kept),
    stepConfigs vs (kept.map (·.1)) = dropFlagC (stepConfigsI vs kept) := by
  intro vs
  induction vs with
  | nil => intro kept; simp [stepConfigs, stepConfigsI, dropFlagC]
  | cons v rest ih =>
    intro kept
    obtain ⟨instrs, config⟩ := v
    simp only [stepConfigs, stepConfigsI]
    rw [stepInstrsI_fst]
    cases stepInstrsI config _ kept with
    | error e => simp [dropFlagI, dropFlagC]
    | ok r =>
      obtain ⟨s, k, f⟩ := r
      simp only [dropFlagI]
      rw [ih k]
      cases stepConfigsI rest k with
      | error e => simp [dropFlagC]
      | ok r' => obtain ⟨s', i', k', f'⟩ := r'; simp [dropFlagC]

theorem cantReachLoopI_fst (fixF1 : Bool) (ep : Entrypoints) :
    ∀ (fuel step : Nat) (configs : Configs) (kept : Kept) (indef : ValidatedSteps),
      (cantReachLoopI fixF1 ep fuel step configs kept indef).1 =
        cantReachLoop fixF1 ep fuel step configs (kept.map (·.1)) indef := by
  intro fuel
  induction fuel with
  | zero => intro step configs kept indef; simp [cantReachLoopI, cantReachLoop]
  | succ n ih =>
    intro step configs kept indef
    simp only [cantReachLoopI, cantReachLoop]
    cases getValidSteps fixF1 ep configs with
    | error e => rfl
    | ok vs =>
      simp only
      split
      · rfl
      · split
        · rfl
        · rw [stepConfigsI_fst]
          cases stepConfigsI vs kept with
          | error e => simp [dropFlagC]
          | ok r =>
            obtain ⟨s, i, k, f⟩ := r
            simp only [dropFlagC]
            split
            · rfl
            · exact ih _ _ _ _

theorem getKept_fst (configs : Configs) : (getKept configs).map (·.1) = getBlanks configs := by
  induction configs with
  | nil => rfl
  | cons c rest ih =>
    simp only [getKept, getBlanks, List.filterMap_cons] at ih ⊢
    by_cases hb : c.tape.blank = true
    · simp only [hb, if_true, List.map_cons, ih]
    · simp only [hb, Bool.false_eq_true, if_false]; exact ih

theorem cantReachI_fst (fixF1 : Bool) (comp : Prog) (depth : Nat) (configs : Configs) :
    (cantReachI fixF1 comp depth configs).1 = cantReach fixF1 comp depth configs := by
  simp only [cantReachI, cantReach]
  split
  · rfl
  · split
    · rfl
    · rw [cantReachLoopI_fst, getKept_fst]

end BB.Reason
