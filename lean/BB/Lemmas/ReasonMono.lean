/-
Monotonicity in the depth limit of the backward reasoner (part of C15).
-/
import BB.Model.Reason

namespace BB.Reason

/-- An answer other than `stepLimit` (including a panic) is unchanged by more fuel. -/
theorem cantReachLoop_mono (fixF1 : Bool) (ep : Entrypoints) :
    ∀ (fuel step : Nat) (configs : Configs) (blanks : Blanks) (indef : ValidatedSteps)
      (r : PRes BackwardResult),
      cantReachLoop fixF1 ep fuel step configs blanks indef = r → r ≠ .ok .stepLimit →
      ∀ fuel', fuel ≤ fuel' → cantReachLoop fixF1 ep fuel' step configs blanks indef = r := by
  intro fuel
  induction fuel with
  | zero =>
    intro step configs blanks indef r h hne
    simp [cantReachLoop] at h
    exact absurd h.symm hne
  | succ n ih =>
    intro step configs blanks indef r h hne fuel' hle
    obtain ⟨m, rfl⟩ : ∃ m, fuel' = m + 1 := ⟨fuel' - 1, by omega⟩
    have hnm : n ≤ m := by omega
    simp only [cantReachLoop] at h ⊢
    cases hv : getValidSteps fixF1 ep configs with
    | error e => simp only [hv] at h ⊢; exact h
    | ok vs =>
      simp only [hv] at h ⊢
      by_cases h1 : vs.isEmpty = true
      · simp only [h1, if_true] at h ⊢; exact h
      · simp only [h1] at h ⊢
        by_cases h2 : MAX_STACK_DEPTH < vs.length
        · simp only [h2, if_true] at h ⊢; exact h
        · simp only [h2] at h ⊢
          cases hs : stepConfigs vs blanks with
          | error err => simp only [hs] at h ⊢; exact h
          | ok res =>
            obtain ⟨configs', indefs, blanks'⟩ := res
            simp only [hs] at h ⊢
            by_cases h3 : (indef ++ indefs).length > MAX_STACK_DEPTH
            · simp only [h3, if_true] at h ⊢; exact h
            · simp only [h3] at h ⊢
              exact ih _ _ _ _ _ h hne m hnm

end BB.Reason
