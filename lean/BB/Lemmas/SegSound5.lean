/-
C05 — segment analysis.  Part 5: the search loop keeps every pending configuration well formed
and `init`-exact, hence every positive verdict (`halt`, `blank`, `spinout`, `repeat`) is true of the
real machine.
-/
import BB.Lemmas.SegSound4

namespace BB.Segment

open BB

/-! ### blank tapes, initial tapes, stepping in -/

theorem Tape.blank_iff {t : Tape} (hwf : t.WF) :
    Tape.blank t = true ↔
      t.scan.getD 0 = 0 ∧ AllZero (Span.unroll t.lspan) ∧ AllZero (Span.unroll t.rspan) := by
  unfold Tape.blank
  simp only [Bool.and_eq_true, Span.blank_iff _ hwf.lpos, Span.blank_iff _ hwf.rpos]
  cases t.scan with
  | none => simp
  | some c => simp [and_assoc]

theorem toCfg_blank {cfg : Config} (hwf : cfg.tape.WF) (hb : Tape.blank cfg.tape = true) :
    cfg.toCfg.Blank := (Tape.blank_iff hwf).1 hb

theorem Tape.init_spec {seg pos : Nat} {t : Tape} (h : Tape.init seg pos = some t) :
    t.WF ∧ Tape.blank t = true := by
  unfold Tape.init at h
  split at h
  · cases h
  · split at h
    · cases h
    · simp only at h
      split at h
      · simp only [Option.some.injEq] at h
        subst h
        refine ⟨⟨Span.pos_nil, ?_, fun _ => Or.inl rfl⟩, by simp [Tape.blank, Span.blank]⟩
        intro b hb
        simp only [List.mem_singleton] at hb
        subst hb
        show 0 < seg - 2
        omega
      · split at h
        · simp only [Option.some.injEq] at h
          subst h
          refine ⟨⟨?_, Span.pos_nil, fun _ => Or.inr rfl⟩, by simp [Tape.blank, Span.blank]⟩
          intro b hb
          simp only [List.mem_singleton] at hb
          subst hb
          show 0 < seg - 2
          omega
        · split at h
          · cases h
          · simp only [Option.some.injEq] at h
            subst h
            refine ⟨⟨?_, ?_, by simp⟩, ?_⟩
            · intro b hb
              simp only at hb
              split at hb
              · simp only [List.mem_singleton] at hb
                subst hb
                assumption
              · cases hb
            · intro b hb
              simp only at hb
              split at hb
              · simp only [List.mem_singleton] at hb
                subst hb
                assumption
              · cases hb
            · simp only [Tape.blank, Span.blank, BEq.rfl, Bool.true_and, Bool.and_eq_true]
              constructor <;> split <;> simp

theorem Span.take_some {P P' : Span} {x : Nat} (hP : Span.Pos P) (h : Span.take P = some (x, P')) :
    Span.unroll P = x :: Span.unroll P' ∧ Span.Pos P' ∧ Span.len P = Span.len P' + 1 := by
  have hne : P ≠ [] := by
    intro hn
    subst hn
    simp [Span.take, Span.isEmpty] at h
  obtain ⟨x', P'', h1, h2, h3, h4⟩ := Span.take_spec hP hne
  rw [h1] at h
  simp only [Option.some.injEq, Prod.mk.injEq] at h
  obtain ⟨rfl, rfl⟩ := h
  exact ⟨h2, h3, h4⟩

theorem Tape.stepIn_spec {t t' : Tape} {shift : Bool} (hwf : t.WF) (h : Tape.stepIn t shift = some t') :
    t'.WF ∧ (Tape.blank t = true → Tape.blank t' = true) := by
  unfold Tape.stepIn at h
  cases hsd : Tape.side t with
  | none => rw [hsd] at h; cases h
  | some side =>
    rw [hsd] at h
    simp only at h
    split at h
    · cases h
    · cases shift with
      | true =>
        simp only [if_true] at h
        cases htk : Span.take t.rspan with
        | none => rw [htk] at h; cases h
        | some xr =>
          obtain ⟨x, r⟩ := xr
          rw [htk] at h
          simp only [Option.some.injEq] at h
          subst h
          obtain ⟨h1, h2, _⟩ := Span.take_some hwf.rpos htk
          have hwf' : Tape.WF ⟨some x, t.lspan, r⟩ := ⟨hwf.lpos, h2, by simp⟩
          refine ⟨hwf', fun hb => ?_⟩
          rw [Tape.blank_iff hwf] at hb
          rw [Tape.blank_iff hwf']
          obtain ⟨_, hb2, hb3⟩ := hb
          rw [h1, allZero_cons_iff] at hb3
          exact ⟨hb3.1, hb2, hb3.2⟩
      | false =>
        simp only [Bool.false_eq_true, if_false] at h
        cases htk : Span.take t.lspan with
        | none => rw [htk] at h; cases h
        | some xr =>
          obtain ⟨x, l⟩ := xr
          rw [htk] at h
          simp only [Option.some.injEq] at h
          subst h
          obtain ⟨h1, h2, _⟩ := Span.take_some hwf.lpos htk
          have hwf' : Tape.WF ⟨some x, l, t.rspan⟩ := ⟨h2, hwf.rpos, by simp⟩
          refine ⟨hwf', fun hb => ?_⟩
          rw [Tape.blank_iff hwf] at hb
          rw [Tape.blank_iff hwf']
          obtain ⟨_, hb2, hb3⟩ := hb
          rw [h1, allZero_cons_iff] at hb2
          exact ⟨hb2.1, hb2.2, hb3⟩

/-! ### the pending configurations -/

/-- well formed and `init`-exact -/
def CfgOK (prog : Prog) (c : Config) : Prop := c.tape.WF ∧ InitExact prog.toF c

def TodoOK (prog : Prog) (cs : Configs) : Prop := ∀ c ∈ cs.todo, CfgOK prog c

theorem cfgOK_of_blank {prog : Prog} {state : Nat} {t : Tape} {blank init : Bool} (hwf : t.WF)
    (hb : blank = true → Tape.blank t = true) (hi : init = (blank && state == 0)) :
    CfgOK prog ⟨state, t, init⟩ := by
  refine ⟨hwf, fun h => ⟨0, ?_⟩⟩
  simp only at h
  rw [hi, Bool.and_eq_true, beq_iff_eq] at h
  exact exactAt_zero_of_blank hwf (hb h.1) h.2

theorem checkSeen_spec (c : Configs) (state : Nat) (tape : Tape) (blank : Bool) :
    (Configs.checkSeen c state tape blank).2.todo = c.todo ∧
    ∀ init, (Configs.checkSeen c state tape blank).1 = some init → init = (blank && state == 0) := by
  unfold Configs.checkSeen
  cases blank with
  | true =>
    simp only [if_true]
    split
    · exact ⟨rfl, fun _ h => by cases h⟩
    · exact ⟨rfl, fun _ h => by simpa using h.symm⟩
  | false =>
    simp only [Bool.false_eq_true, if_false]
    split
    · exact ⟨rfl, fun _ h => by cases h⟩
    · exact ⟨rfl, fun _ h => by simpa using h.symm⟩

theorem checkReached_todo (c : Configs) (config : Config) (goal : Term) :
    (Configs.checkReached c config goal).2.todo = c.todo := by
  unfold Configs.checkReached Configs.checkReachedBlank
  split
  · split <;> rfl
  · split <;> rfl

theorem branchInLoop_ok {prog : Prog} {tape : Tape} {shift blank : Bool} (hwf : tape.WF)
    (hb : blank = true → Tape.blank tape = true) :
    ∀ (l : List Nat) (c c' : Configs), TodoOK prog c →
      Configs.branchInLoop c tape shift blank l = some c' → TodoOK prog c' := by
  intro l
  induction l with
  | nil =>
    intro c c' hc h
    simp only [Configs.branchInLoop, Option.some.injEq] at h
    subst h; exact hc
  | cons state rest ih =>
    intro c c' hc h
    simp only [Configs.branchInLoop] at h
    cases hsi : Tape.stepIn tape shift with
    | none => rw [hsi] at h; cases h
    | some nextTape =>
      rw [hsi] at h
      simp only at h
      obtain ⟨hwf', hb'⟩ := Tape.stepIn_spec hwf hsi
      obtain ⟨ht, hin⟩ := checkSeen_spec c state nextTape blank
      generalize Configs.checkSeen c state nextTape blank = cs at h ht hin
      obtain ⟨r, c1⟩ := cs
      have hc1 : TodoOK prog c1 := by
        intro x hx
        simp only at ht
        rw [ht] at hx
        exact hc x hx
      cases r with
      | none => exact ih c1 c' hc1 h
      | some init =>
        simp only at h
        refine ih _ c' ?_ h
        intro x hx
        simp only [Configs.addTodo, List.mem_cons] at hx
        rcases hx with rfl | hx
        · exact cfgOK_of_blank hwf' (fun hbl => hb' (hb hbl)) (hin init rfl)
        · exact hc1 x hx

theorem branchOut_ok {prog : Prog} {config : Config} {blank : Bool} (hwf : config.tape.WF)
    (hb : blank = true → Tape.blank config.tape = true) :
    ∀ (l : List Nat) (c : Configs), TodoOK prog c →
      TodoOK prog (Configs.branchOut c config blank l) := by
  intro l
  induction l with
  | nil => intro c hc; exact hc
  | cons state rest ih =>
    intro c hc
    simp only [Configs.branchOut]
    obtain ⟨ht, hin⟩ := checkSeen_spec c state config.tape blank
    generalize Configs.checkSeen c state config.tape blank = cs at ht hin
    obtain ⟨r, c1⟩ := cs
    have hc1 : TodoOK prog c1 := by
      intro x hx
      simp only at ht
      rw [ht] at hx
      exact hc x hx
    cases r with
    | none => exact ih c1 hc1
    | some init =>
      simp only
      apply ih
      intro x hx
      simp only [Configs.addTodo, List.mem_cons] at hx
      rcases hx with rfl | hx
      · exact cfgOK_of_blank hwf hb (hin init rfl)
      · exact hc1 x hx

/-! ### `run_to_edge` does not touch the stack -/

theorem spinCheck_todo (goal : Term) (self : Config) (instr : Instr) (configs : Configs) :
    (spinCheck goal self instr configs).2.todo = configs.todo := by
  unfold spinCheck
  split
  · split
    · rfl
    · exact checkReached_todo _ _ _
  · rfl

theorem blankCheck_todo (goal : Term) (instr : Instr) (self : Config) (configs : Configs) :
    (blankCheck goal instr self configs).2.2.todo = configs.todo := by
  unfold blankCheck
  split
  · split
    · rfl
    · simp only
      split <;> rfl
  · rfl

theorem runBody_todo (prog : Prog) (goal : Term) (T : List Config) (self copy : Config)
    (step : Bool) (configs : Configs) (h : configs.todo = T) :
    match runBody prog goal self copy step configs with
    | .error _ => True
    | .ok (.exit out) => out.configs.todo = T
    | .ok (.loop _ _ _ cf) => cf.todo = T := by
  have h1 := fun instr => spinCheck_todo goal self instr configs
  have h2 := fun instr s1 cf => blankCheck_todo goal instr s1 cf
  unfold runBody
  cases Config.slot self with
  | none => exact h
  | some slot =>
    simp only
    cases prog.get slot with
    | none => exact h
    | some instr =>
      simp only
      by_cases hsp : (spinCheck goal self instr configs).1 = true
      · simp only [hsp, if_true]; rw [h1, h]
      · simp only [hsp]
        cases Config.step self instr with
        | none => trivial
        | some self1 =>
          simp only
          have h3 : (blankCheck goal instr self1 (spinCheck goal self instr configs).2).2.2.todo = T := by
            rw [h2, h1, h]
          cases (blankCheck goal instr self1 (spinCheck goal self instr configs).2).1 with
          | some r => exact h3
          | none =>
            simp only
            cases step with
            | false => exact h3
            | true =>
              simp only [Bool.not_true, Bool.false_eq_true, if_false]
              cases copyStep prog copy with
              | none => trivial
              | some copy1 =>
                simp only
                by_cases heq : (copy1.state ==
                    (blankCheck goal instr self1 (spinCheck goal self instr configs).2).2.1.state &&
                  copy1.tape ==
                    (blankCheck goal instr self1 (spinCheck goal self instr configs).2).2.1.tape) = true
                · simp only [heq, if_true]; exact h3
                · simp only [heq]; exact h3

theorem runToEdge_todo {prog : Prog} {goal : Term} {fuel : Nat} {self : Config} {configs : Configs}
    {out : RunOut} (h : runToEdge prog goal fuel self configs = .ok out) :
    out.configs.todo = configs.todo := by
  unfold runToEdge at h
  split at h
  · simp only [Except.ok.injEq] at h
    subst h; rfl
  · exact runLoop_induct prog goal (fun _ _ _ cf => cf.todo = configs.todo)
      (fun out => out.configs.todo = configs.todo)
      (fun s c st cf hcf => runBody_todo prog goal configs.todo s c st cf hcf)
      fuel self self false configs out rfl h

/-! ### verdicts -/

/-- what each answer of the search claims about the real machine -/
def SearchVerdict (p : ProgF) : SearchResult → Prop
  | .found .halt => Halts p
  | .found .spinout => SpinsOut p
  | .found .blank => ∃ n q, BlankAfter p n q
  | .repeat => NeverHalts p
  | .limit => True
  | .reached => True

theorem halts_of_exact {prog : Prog} {cfg : Config} {s : Nat} (hex : InitExact prog.toF cfg)
    (hi : cfg.init = true) (hs : cfg.tape.scan = some s) (hg : prog.get (cfg.state, s) = none) :
    Halts prog.toF := by
  obtain ⟨n, c, hr, he⟩ := hex hi
  refine ⟨n, cfg.state, s, c, hr, he.1, ?_, hg⟩
  rw [he.2.1]
  simp [Config.toCfg, hs]

theorem spinsOut_of_exact {prog : Prog} {cfg : Config} {s : Nat} {instr : Instr}
    (hwf : cfg.tape.WF) (hex : InitExact prog.toF cfg)
    (hi : cfg.init = true) (hs : cfg.tape.scan = some s) (hg : prog.get (cfg.state, s) = some instr)
    (hsp : Config.spinout cfg instr = true) : SpinsOut prog.toF := by
  obtain ⟨n, c, hr, he⟩ := hex hi
  refine ⟨n, c, hr, ?_⟩
  obtain ⟨pr, sh, q⟩ := instr
  unfold Config.spinout Tape.atEdge at hsp
  simp only [hs, Bool.and_eq_true, beq_iff_eq] at hsp
  obtain ⟨hq, hs0, hbl⟩ := hsp
  subst hs0
  have hscan : c.scan = 0 := by rw [he.2.1]; simp [Config.toCfg, hs]
  refine ⟨hscan, pr, sh, ?_, ?_⟩
  · show prog.get (c.state, 0) = _
    rw [he.1]
    show prog.get (cfg.state, 0) = some (pr, sh, cfg.state)
    rw [hg, hq]
  · cases sh with
    | true =>
      simp only [if_true] at hbl ⊢
      exact (he.2.2.2.symm).allZero ((Span.blank_iff _ hwf.rpos).1 hbl)
    | false =>
      simp only [Bool.false_eq_true, if_false] at hbl ⊢
      exact (he.2.2.1.symm).allZero ((Span.blank_iff _ hwf.lpos).1 hbl)

theorem hitStep_spec (p : ProgF) (T : List Config) (hc : Bool × Configs) (h : hc.2.todo = T) :
    match (if hc.1 = true then Except.ok (StepOut.done .reached) else .ok (.cont hc.2) :
        Except Err StepOut) with
    | .error _ => True
    | .ok (.done v) => SearchVerdict p v
    | .ok (.cont cs) => cs.todo = T := by
  by_cases hh : hc.1 = true
  · simp only [hh, if_true]; trivial
  · simp only [hh]; exact h

theorem resultStep_spec (prog : Prog) (goal : Term) (out : RunOut) (r : SearchResult)
    (hp : RunPost prog goal out) (hr : out.result = some r) :
    match resultStep goal r out.config out.configs with
    | .error _ => True
    | .ok (.done v) => SearchVerdict prog.toF v
    | .ok (.cont cs) => cs.todo = out.configs.todo := by
  have hcr := hitStep_spec prog.toF out.configs.todo
    (Configs.checkReached out.configs out.config goal) (checkReached_todo _ _ _)
  cases r with
  | limit => exact rfl
  | reached => exact rfl
  | «repeat» =>
    simp only [resultStep]
    by_cases hi : out.config.init = true
    · simp only [hi, if_true]
      obtain ⟨hnh, hbl⟩ := hp.rep hr hi
      by_cases hb : (goal == Term.blank && Tape.blank out.config.tape) = true
      · simp only [hb, if_true]
        simp only [Bool.and_eq_true, beq_iff_eq] at hb
        obtain ⟨n, hn, c, hrun, he⟩ := hbl hb.1
        exact ⟨n, c.state, hn, c, hrun, rfl, he.symm.blank (toCfg_blank hp.wf hb.2)⟩
      · simp only [hb]
        exact hnh
    · simp only [hi]
      exact rfl
  | found t =>
    cases t with
    | halt =>
      simp only [resultStep]
      by_cases hi : out.config.init = true
      · simp only [hi, if_true]
        obtain ⟨s, hs, hg⟩ := hp.halt hr
        exact halts_of_exact hp.exa hi hs hg
      · simp only [hi]
        by_cases hg : (goal == Term.halt) = true
        · simp only [hg, if_true]; exact hcr
        · simp only [hg]; exact rfl
    | blank =>
      simp only [resultStep]
      by_cases hg : (goal != Term.blank) = true
      · simp [hg]
      · simp only [hg]; exact hcr
    | spinout =>
      simp only [resultStep]
      by_cases hi : out.config.init = true
      · simp only [hi, if_true]
        obtain ⟨s, instr, hs, hg, hsp⟩ := hp.spin hr
        exact spinsOut_of_exact hp.wf hp.exa hi hs hg hsp
      · simp only [hi]
        by_cases hg : (goal != Term.spinout) = true
        · simp [hg]
        · simp only [hg]; exact hcr

/-- the `goal_tape` test of `all_segments_reached` -/
def goalTapeOf (prog : AnalyzedProg) (goal : Term) (config : Config) : Except Err Bool :=
  match goal with
  | .halt => .ok true
  | .blank => .ok (Tape.blank config.tape)
  | .spinout =>
    match dictGet prog.spinouts config.state with
    | none => .ok false
    | some shift =>
      match Tape.side config.tape with
      | none => .error .panic
      | some side => .ok (shift == side || Tape.blank config.tape)

/-- the part of `edgeStep` after the `goal_tape` test and `check_reached` -/
def edgeBranch (prog : AnalyzedProg) (config : Config) (configs : Configs) : Except Err StepOut :=
  match dictGet prog.branches config.state with
  | none => .error .panic
  | some (diffs, dirs) =>
    let blank := Tape.blank config.tape
    match Configs.branchIn configs config.tape dirs blank with
    | none => .error .panic
    | some configs =>
      let configs := Configs.branchOut configs config blank diffs
      if Configs.checkDepth configs then .ok (.done .limit) else .ok (.cont configs)

theorem edgeStep_eq (prog : AnalyzedProg) (goal : Term) (config : Config) (configs : Configs) :
    edgeStep prog goal config configs =
      match goalTapeOf prog goal config with
      | .error e => .error e
      | .ok goalTape =>
        let hc : Bool × Configs :=
          if goalTape then Configs.checkReached configs config goal else (false, configs)
        if hc.1 then .ok (.done .reached) else edgeBranch prog config hc.2 := rfl

theorem edgeBranch_spec (prog : AnalyzedProg) (config : Config) (configs : Configs)
    (hwf : config.tape.WF) (hc : TodoOK prog.prog configs) :
    match edgeBranch prog config configs with
    | .error _ => True
    | .ok (.done v) => v = .reached ∨ v = .limit
    | .ok (.cont cs) => TodoOK prog.prog cs := by
  unfold edgeBranch
  cases dictGet prog.branches config.state with
  | none => trivial
  | some dd =>
    obtain ⟨diffs, dirs⟩ := dd
    simp only
    cases hbi : Configs.branchIn configs config.tape dirs (Tape.blank config.tape) with
    | none => trivial
    | some cfs2 =>
      simp only
      have hc2 : TodoOK prog.prog cfs2 := by
        unfold Configs.branchIn at hbi
        cases hsd : Tape.side config.tape with
        | none => rw [hsd] at hbi; cases hbi
        | some side =>
          rw [hsd] at hbi
          exact branchInLoop_ok hwf id _ _ _ hc hbi
      have hc3 := branchOut_ok (prog := prog.prog) (config := config) hwf id diffs cfs2 hc2
      by_cases hd : Configs.checkDepth
          (Configs.branchOut cfs2 config (Tape.blank config.tape) diffs) = true
      · simp [hd]
      · simp only [hd]; exact hc3

theorem edgeStep_spec (prog : AnalyzedProg) (goal : Term) (config : Config) (configs : Configs)
    (hwf : config.tape.WF) (hc : TodoOK prog.prog configs) :
    match edgeStep prog goal config configs with
    | .error _ => True
    | .ok (.done v) => v = .reached ∨ v = .limit
    | .ok (.cont cs) => TodoOK prog.prog cs := by
  rw [edgeStep_eq]
  cases goalTapeOf prog goal config with
  | error e => trivial
  | ok goalTape =>
    simp only
    have hc1 : TodoOK prog.prog (if goalTape = true then Configs.checkReached configs config goal
        else (false, configs)).2 := by
      intro x hx
      split at hx
      · rw [checkReached_todo] at hx; exact hc x hx
      · exact hc x hx
    generalize (if goalTape = true then Configs.checkReached configs config goal
        else (false, configs)) = hcfs at hc1
    obtain ⟨hit, cfs⟩ := hcfs
    cases hit with
    | true => simp
    | false =>
      simp only [Bool.false_eq_true, if_false]
      exact edgeBranch_spec prog config cfs hwf hc1

theorem searchStep_spec (prog : AnalyzedProg) (goal : Term) (fuel : Nat) (config : Config)
    (configs : Configs) (hok : CfgOK prog.prog config) (hc : TodoOK prog.prog configs) :
    match searchStep prog goal fuel config configs with
    | .error _ => True
    | .ok (.done v) => SearchVerdict prog.prog.toF v
    | .ok (.cont cs) => TodoOK prog.prog cs := by
  unfold searchStep
  cases hrt : runToEdge prog.prog goal fuel config configs with
  | error e => trivial
  | ok out =>
    have hp := runToEdge_post prog.prog goal fuel config configs out hok.1 hok.2 hrt
    have ht := runToEdge_todo hrt
    obtain ⟨res, cfg, cfs⟩ := out
    cases res with
    | some r =>
      simp only
      have := resultStep_spec prog.prog goal ⟨some r, cfg, cfs⟩ r hp rfl
      simp only at this ht
      revert this
      cases resultStep goal r cfg cfs with
      | error e => exact id
      | ok so =>
        cases so with
        | done v => exact id
        | cont cs =>
          intro h x hx
          simp only at h
          rw [h, ht] at hx
          exact hc x hx
    | none =>
      simp only
      have hc' : TodoOK prog.prog cfs := by
        intro x hx
        simp only at ht
        rw [ht] at hx
        exact hc x hx
      have := edgeStep_spec prog goal cfg cfs hp.wf hc'
      revert this
      cases edgeStep prog goal cfg cfs with
      | error e => exact id
      | ok so =>
        cases so with
        | done v =>
          intro h
          simp only at h
          rcases h with rfl | rfl <;> trivial
        | cont cs => exact id

theorem next_spec {prog : Prog} {c c' : Configs} {config : Config} (hc : TodoOK prog c)
    (h : Configs.next c = some (some config, c')) : CfgOK prog config ∧ TodoOK prog c' := by
  unfold Configs.next at h
  cases hni : Configs.nextInit c with
  | none => rw [hni] at h; cases h
  | some r =>
    rw [hni] at h
    obtain ⟨oc, c1⟩ := r
    have ht : c1.todo = c.todo := by
      unfold Configs.nextInit at hni
      simp only at hni
      split at hni
      · simp only [Option.some.injEq, Prod.mk.injEq] at hni
        rw [← hni.2]
      · split at hni
        · cases hni
        · simp only [Option.some.injEq, Prod.mk.injEq] at hni
          rw [← hni.2]
    cases oc with
    | some cfg =>
      simp only [Option.some.injEq, Prod.mk.injEq] at h
      obtain ⟨h1, h2⟩ := h
      subst h1 h2
      refine ⟨?_, fun x hx => hc x (ht ▸ hx)⟩
      unfold Configs.nextInit at hni
      simp only at hni
      split at hni
      · cases hni
      · cases hmk : Config.mkInit c.seg ‹Nat› with
        | none => rw [hmk] at hni; cases hni
        | some cf =>
          rw [hmk] at hni
          simp only [Option.some.injEq, Prod.mk.injEq] at hni
          obtain ⟨h1, _⟩ := hni
          subst h1
          unfold Config.mkInit at hmk
          cases hti : Tape.init c.seg ‹Nat› with
          | none => rw [hti] at hmk; cases hmk
          | some t =>
            rw [hti] at hmk
            simp only [Option.some.injEq] at hmk
            subst hmk
            obtain ⟨hwf, hb⟩ := Tape.init_spec hti
            exact cfgOK_of_blank (blank := true) hwf (fun _ => hb) rfl
    | none =>
      simp only at h
      cases htd : c1.todo with
      | nil => rw [htd] at h; cases h
      | cons x rest =>
        rw [htd] at h
        simp only [Option.some.injEq, Prod.mk.injEq] at h
        obtain ⟨h1, h2⟩ := h
        subst h1 h2
        have hx : ∀ y ∈ x :: rest, CfgOK prog y := by
          intro y hy
          rw [← htd, ht] at hy
          exact hc y hy
        exact ⟨hx x List.mem_cons_self, fun y hy => hx y (List.mem_cons_of_mem _ hy)⟩

theorem searchLoop_verdict (prog : AnalyzedProg) (goal : Term) (rf : Nat) :
    ∀ (fuel : Nat) (configs : Configs) (v : SearchResult), TodoOK prog.prog configs →
      searchLoop prog goal rf fuel configs = .ok (some v) → SearchVerdict prog.prog.toF v := by
  intro fuel
  induction fuel with
  | zero => intro configs v _ h; simp [searchLoop] at h
  | succ fuel ih =>
    intro configs v hc h
    simp only [searchLoop] at h
    cases hn : Configs.next configs with
    | none => rw [hn] at h; cases h
    | some r =>
      rw [hn] at h
      obtain ⟨oc, c1⟩ := r
      cases oc with
      | none => simp at h
      | some config =>
        simp only at h
        obtain ⟨hok, hc1⟩ := next_spec hc hn
        have hs := searchStep_spec prog goal rf config c1 hok hc1
        revert h hs
        cases searchStep prog goal rf config c1 with
        | error e => intro h; simp at h
        | ok so =>
          cases so with
          | done r =>
            intro h hs
            simp only [Except.ok.injEq, Option.some.injEq] at h
            subst h
            exact hs
          | cont cs =>
            intro h hs
            exact ih cs v hs h

end BB.Segment
