/-
C05 — segment analysis.  Part 10: `branch_in` / `branch_out` mark every successor of a
configuration at the edge and put the new ones on the stack (`Ext`).
-/
import BB.Lemmas.SegSound9

namespace BB.Segment

open BB

/-- `c'` is `c` after some `check_seen` + `add_todo`: marks only grow, every new mark has its
    configuration on the stack, `reached` is untouched -/
structure Ext (seg : Nat) (c c' : Configs) : Prop where
  segEq : c'.seg = c.seg
  reached : c'.reached = c.reached
  seenMono : ∀ q t, SHas c.seen q t → SHas c'.seen q t
  blanksMono : ∀ q pos, DHas c.blanks q pos → DHas c'.blanks q pos
  todoMono : ∀ x ∈ c.todo, x ∈ c'.todo
  seenNew : ∀ q t, SHas c'.seen q t → SHas c.seen q t ∨ ∃ x ∈ c'.todo, x.core = (q, t)
  blanksNew : ∀ q pos, DHas c'.blanks q pos → DHas c.blanks q pos ∨
    ∃ x ∈ c'.todo, x.state = q ∧ Tape.blank x.tape = true ∧ Tape.pos x.tape = pos
  todoNew : ∀ x ∈ c'.todo, x ∈ c.todo ∨ Good seg x.tape

theorem Ext.refl (seg : Nat) (c : Configs) : Ext seg c c :=
  ⟨rfl, rfl, fun _ _ h => h, fun _ _ h => h, fun _ h => h, fun _ _ h => Or.inl h,
    fun _ _ h => Or.inl h, fun _ h => Or.inl h⟩

theorem Ext.trans {seg : Nat} {a b c : Configs} (h1 : Ext seg a b) (h2 : Ext seg b c) :
    Ext seg a c := by
  refine ⟨h2.segEq.trans h1.segEq, h2.reached.trans h1.reached,
    fun q t h => h2.seenMono q t (h1.seenMono q t h),
    fun q p h => h2.blanksMono q p (h1.blanksMono q p h),
    fun x h => h2.todoMono x (h1.todoMono x h), ?_, ?_, ?_⟩
  · intro q t h
    rcases h2.seenNew q t h with h | h
    · rcases h1.seenNew q t h with h | ⟨x, hx, hc⟩
      · exact Or.inl h
      · exact Or.inr ⟨x, h2.todoMono x hx, hc⟩
    · exact Or.inr h
  · intro q p h
    rcases h2.blanksNew q p h with h | h
    · rcases h1.blanksNew q p h with h | ⟨x, hx, hc⟩
      · exact Or.inl h
      · exact Or.inr ⟨x, h2.todoMono x hx, hc⟩
    · exact Or.inr h
  · intro x hx
    rcases h2.todoNew x hx with h | h
    · exact h1.todoNew x h
    · exact Or.inr h

theorem Marked.ext {seg : Nat} {c c' : Configs} (h : Ext seg c c') {Z : Core} (hm : Marked c Z) :
    Marked c' Z := by
  unfold Marked at hm ⊢
  split
  · rename_i hb; rw [if_pos hb] at hm; exact h.blanksMono _ _ hm
  · rename_i hb; rw [if_neg hb] at hm; exact h.seenMono _ _ hm

/-- one `check_seen` followed by `add_todo` when new -/
theorem checkSeen_ext (seg : Nat) (c : Configs) (state : Nat) (tape : Tape) (blank : Bool)
    (hb : blank = Tape.blank tape) (hgood : Good seg tape) :
    let c' := match Configs.checkSeen c state tape blank with
      | (none, c1) => c1
      | (some init, c1) => Configs.addTodo c1 ⟨state, tape, init⟩
    Ext seg c c' ∧ Marked c' (state, tape) := by
  obtain ⟨h1, h2, h3, h4, h5, h6, h7, h8⟩ := checkSeen_spec3 c state tape blank hb
  generalize Configs.checkSeen c state tape blank = r at h1 h2 h3 h4 h5 h6 h7 h8
  obtain ⟨o, c1⟩ := r
  cases o with
  | none =>
    have h7' : c1 = c := h7 rfl
    subst h7'
    exact ⟨Ext.refl _ _, h4⟩
  | some init =>
    obtain ⟨h8a, h8b⟩ := h8 init rfl
    simp only at h1 h2 h3 h4 h5 h6 h8a h8b ⊢
    have hmem : (⟨state, tape, init⟩ : Config) ∈ (Configs.addTodo c1 ⟨state, tape, init⟩).todo := by
      simp [Configs.addTodo]
    refine ⟨⟨h2, h3, h5, h6, ?_, ?_, ?_, ?_⟩, h4⟩
    · intro x hx
      simp only [Configs.addTodo, List.mem_cons]
      right; rw [h1]; exact hx
    · intro q t h
      rcases h8a q t h with h | h
      · exact Or.inl h
      · exact Or.inr ⟨_, hmem, h.symm⟩
    · intro q p h
      rcases h8b q p h with h | ⟨e1, e2, e3⟩
      · exact Or.inl h
      · exact Or.inr ⟨_, hmem, e1.symm, e3, e2.symm⟩
    · intro x hx
      simp only [Configs.addTodo, List.mem_cons] at hx
      rcases hx with rfl | hx
      · exact Or.inr hgood
      · left; rw [← h1]; exact hx

theorem branchOut_spec (seg : Nat) (config : Config) (blank : Bool)
    (hb : blank = Tape.blank config.tape) (hgood : Good seg config.tape) :
    ∀ (l : List Nat) (c : Configs),
      Ext seg c (Configs.branchOut c config blank l) ∧
      ∀ s ∈ l, Marked (Configs.branchOut c config blank l) (s, config.tape) := by
  intro l
  induction l with
  | nil => intro c; exact ⟨Ext.refl _ _, fun _ h => by cases h⟩
  | cons state rest ih =>
    intro c
    have hcs := checkSeen_ext seg c state config.tape blank hb hgood
    simp only at hcs
    have e : Configs.branchOut c config blank (state :: rest) =
        Configs.branchOut (match Configs.checkSeen c state config.tape blank with
          | (none, c1) => c1
          | (some init, c1) => Configs.addTodo c1 ⟨state, config.tape, init⟩) config blank rest := by
      simp only [Configs.branchOut]
      generalize Configs.checkSeen c state config.tape blank = r
      obtain ⟨o, c1⟩ := r
      cases o <;> rfl
    rw [e]
    obtain ⟨ih1, ih2⟩ := ih (match Configs.checkSeen c state config.tape blank with
          | (none, c1) => c1
          | (some init, c1) => Configs.addTodo c1 ⟨state, config.tape, init⟩)
    refine ⟨hcs.1.trans ih1, ?_⟩
    intro s hs
    simp only [List.mem_cons] at hs
    rcases hs with rfl | hs
    · exact hcs.2.ext ih1
    · exact ih2 s hs

theorem branchInLoop_spec (seg : Nat) (tape nt : Tape) (shift blank : Bool)
    (hsi : Tape.stepIn tape shift = some nt) (hb : blank = Tape.blank nt) (hgood : Good seg nt) :
    ∀ (l : List Nat) (c : Configs), ∃ c', Configs.branchInLoop c tape shift blank l = some c' ∧
      Ext seg c c' ∧ ∀ s ∈ l, Marked c' (s, nt) := by
  intro l
  induction l with
  | nil => intro c; exact ⟨c, rfl, Ext.refl _ _, fun _ h => by cases h⟩
  | cons state rest ih =>
    intro c
    have hcs := checkSeen_ext seg c state nt blank hb hgood
    simp only at hcs
    have e : Configs.branchInLoop c tape shift blank (state :: rest) =
        Configs.branchInLoop (match Configs.checkSeen c state nt blank with
          | (none, c1) => c1
          | (some init, c1) => Configs.addTodo c1 ⟨state, nt, init⟩) tape shift blank rest := by
      simp only [Configs.branchInLoop, hsi]
      generalize Configs.checkSeen c state nt blank = r
      obtain ⟨o, c1⟩ := r
      cases o <;> rfl
    rw [e]
    obtain ⟨c', h0, ih1, ih2⟩ := ih (match Configs.checkSeen c state nt blank with
          | (none, c1) => c1
          | (some init, c1) => Configs.addTodo c1 ⟨state, nt, init⟩)
    refine ⟨c', h0, hcs.1.trans ih1, ?_⟩
    intro s hs
    simp only [List.mem_cons] at hs
    rcases hs with rfl | hs
    · exact hcs.2.ext ih1
    · exact ih2 s hs

end BB.Segment
