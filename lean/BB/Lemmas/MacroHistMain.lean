/-
C16 — the primed lemmas behind BB/Props/C16.lean: a macro object over a base table, a macro over a
macro over a base table, when the stateless reference errs, two objects.
-/
import BB.Lemmas.MacroHistSeq

namespace BB.Macros

/-! ### definitions for the statements -/

/-- a fresh macro object with parameters `lp` over the inner program (state) `st`:
    `make_block_macro(st, (lp.baseStates, lp.baseColors), lp.cells)` resp.
    `make_backsymbol_macro(..)` (`freshMacro_block`, `freshMacro_backsymbol`). -/
def freshMacro {σ : Type} (st : σ) (lp : LogicParams) : MacroProg σ :=
  MacroProg.new st (Logic.new lp.kind lp.cells (lp.baseStates, lp.baseColors))

theorem freshMacro_block {σ : Type} (st : σ) (params : Nat × Nat) (k : Nat) :
    makeBlockMacro st params k = freshMacro st ⟨.block, k, params.1, params.2⟩ := rfl

theorem freshMacro_backsymbol {σ : Type} (st : σ) (params : Nat × Nat) (k : Nat) :
    makeBacksymbolMacro st params k = freshMacro st ⟨.backsymbol, k, params.1, params.2⟩ := rfl

/-- the stateless reference of a macro with parameters `lp` over the base table `p` -/
abbrev pure1 (p : Prog) (lp : LogicParams) (fixF3 : Bool) : Slot → Res (Option Instr) :=
  pureInstr (progFn p) lp fixF3

/-- the stateless reference of a macro (`lpo`) over a macro (`lpi`) over the base table `p` -/
abbrev pure2 (p : Prog) (lpi lpo : LogicParams) (fixF3 : Bool) : Slot → Res (Option Instr) :=
  pureInstr (pure1 p lpi fixF3) lpo fixF3

/-- `fixF3` is on if the macro is a backsymbol macro -/
def fixOk (lp : LogicParams) (fixF3 : Bool) : Bool :=
  match lp.kind with
  | .block => true
  | .backsymbol => fixF3

theorem fixOk_imp {lp : LogicParams} {fixF3 : Bool} (h : fixOk lp fixF3 = true) :
    lp.kind = .backsymbol → fixF3 = true := by
  intro hk; simpa only [fixOk, hk] using h

/-! ### generalities -/

theorem Agree.of_ok {α τ σ : Type} {r : Res (α × σ)} {e : Res (α × τ)} {Q : α → σ → Prop}
    (h : Agree r e Q) {a : α} {st' : σ} (hr : r = .ok (a, st')) : ∃ u, e = .ok (a, u) ∧ Q a st' := by
  unfold Agree at h
  cases e with
  | error err => simp only at h; rw [h] at hr; cases hr
  | ok x =>
    rcases x with ⟨a0, u⟩
    obtain ⟨st0, h1, h2⟩ := h
    rw [h1] at hr
    cases hr
    exact ⟨u, rfl, h2⟩

theorem pureGet_ok {f : Slot → Res (Option Instr)} {s : Slot} {a : Option Instr} {u : Unit}
    (h : pureGet f () s = .ok (a, u)) : f s = .ok a := by
  simp only [pureGet] at h
  cases hf : f s with
  | error e => rw [hf] at h; cases h
  | ok b => rw [hf] at h; cases h; rfl

theorem macroColors_pos (lp : LogicParams) (hb : 0 < lp.baseColors) : 0 < lp.macroColors := by
  unfold LogicParams.macroColors
  split
  · exact Nat.pow_pos hb
  · exact hb

/-! ### own cache miss ⇒ panic (any inner program) -/

theorem not_handed_out_panics {σ : Type} (get : GetFn σ) {f : Slot → Res (Option Instr)}
    {lp : LogicParams} {fixF3 : Bool} {IInv : σ → Prop} {LS LC : σ → Nat → Prop}
    (m : MacroProg σ) (hI : MInv f lp fixF3 IInv LS LC m) (slot : Slot)
    (hl : ownLegal m slot = false) : MacroProg.getInstr get m slot fixF3 = .error .panic := by
  have hmemo : m.instrs.get slot = none := by
    cases hg : m.instrs.get slot with
    | none => rfl
    | some i => have := (hI.memo slot i hg).2.1; rw [hl] at this; cases this
  unfold ownLegal handedOut slotColor at hl
  have hdec : m.logic.deconstructInputs slot = .error .panic := by
    unfold Logic.deconstructInputs
    split at hl
    · rename_i hk
      simp only [hk, blockDeconstructInputs, TapeColorConverter.colorToTape]
      cases hg : m.logic.converter.colorToTapeCache.get slot.2 with
      | none => rfl
      | some t => rw [hg] at hl; cases hl
    · rename_i hk
      simp only [hk, backsymbolDeconstructInputs, TapeColorConverter.colorToTape]
      split
      · rfl
      · cases hg : m.logic.converter.colorToTapeCache.get (slot.1 / 2 % m.logic.params.backsymbols) with
        | none => rfl
        | some t => rw [hg] at hl; cases hl
  simp only [MacroProg.getInstr, hmemo, MacroProg.calculateInstr, hdec]

/-! ### one level: a macro over a base table -/

section One

variable (p : Prog) (lp : LogicParams) (fixF3 : Bool)

theorem histIndep_one (hb : 0 < lp.baseColors) (hcol : progColorsLt p lp.baseColors = true)
    (hfix : fixOk lp fixF3 = true) :
    HistIndep (macroGet compGet fixF3) (pure1 p lp fixF3) (Inv p lp fixF3)
      (MLS TrueLeg) (MLC (LtLeg lp.baseColors)) :=
  macro_histIndep (histIndep_comp p lp.baseColors hb (progColorsLt_sound p _ hcol))
    (fun _ _ _ h => h) hb (fixOk_imp hfix)

theorem slotLegal_sound {σ : Type} {m : MacroProg σ} (hp : m.logic.params = lp) (s : Slot)
    (h : slotLegal m s = true) : MLS TrueLeg m s.1 ∧ MLC (LtLeg lp.baseColors) m s.2 := by
  unfold slotLegal ownLegal slotColor at h
  unfold MLS MLC
  rw [hp] at h ⊢
  cases hk : lp.kind with
  | block =>
    simp only [hk, Bool.and_true] at h
    simp only
    exact ⟨trivial, h⟩
  | backsymbol =>
    simp only [hk, Bool.and_eq_true, decide_eq_true_eq] at h
    simp only
    exact ⟨⟨h.1, trivial⟩, h.2⟩

theorem inv_init' (hb : 0 < lp.baseColors) : Inv p lp fixF3 (freshMacro p lp) :=
  MInv.init lp.kind lp.cells (lp.baseStates, lp.baseColors) p rfl hb hb

theorem inv_step' (hb : 0 < lp.baseColors) (hcol : progColorsLt p lp.baseColors = true)
    (hfix : fixOk lp fixF3 = true) (m : MacroProg Prog) (hI : Inv p lp fixF3 m) (slot : Slot)
    (hl : slotLegal m slot = true) (a : Option Instr) (m' : MacroProg Prog)
    (hget : MacroProg.getInstr compGet m slot fixF3 = .ok (a, m')) :
    Inv p lp fixF3 m' ∧ pure1 p lp fixF3 slot = .ok a ∧
      (∀ c, handedOut m c = true → handedOut m' c = true) ∧
      (∀ pr sh nx, a = some (pr, sh, nx) → slotLegal m' (nx, pr) = true) := by
  obtain ⟨hq, hc⟩ := slotLegal_sound lp hI.params slot hl
  have hstep := (histIndep_one p lp fixF3 hb hcol hfix).step m slot.1 slot.2 hI hq hc
  obtain ⟨u, hpure, hI', hmono, hans⟩ := hstep.of_ok hget
  refine ⟨hI', pureGet_ok hpure, ?_, ?_⟩
  · intro c hc0
    have h1 := hI.params
    have h2 := hI'.params
    -- handed-out colours: use monotonicity of the block-/backsymbol-legality
    by_cases hk : lp.kind = .block
    · have := hmono.2 c (by unfold MLC; rw [h1]; simp only [hk]; exact hc0)
      unfold MLC at this; rw [h2] at this; simpa only [hk] using this
    · have hk' : lp.kind = .backsymbol := by cases h : lp.kind <;> simp_all
      have hbs : 0 < lp.backsymbols := Nat.pow_pos hb
      -- pick a macro state whose looked-up colour is `c`
      by_cases hlt : c < lp.backsymbols
      · have := hmono.1 (2 * c) (by
          unfold MLS; rw [h1]; simp only [hk']
          rw [Nat.mul_div_cancel_left c (by omega : 0 < 2), Nat.mod_eq_of_lt hlt]
          exact ⟨hc0, trivial⟩)
        unfold MLS at this; rw [h2] at this; simp only [hk'] at this
        rw [Nat.mul_div_cancel_left c (by omega : 0 < 2), Nat.mod_eq_of_lt hlt] at this
        exact this.1
      · obtain ⟨t, ht⟩ := (handedOut_iff m c).1 hc0
        have := (hI.cache.decode ht).2
        exact absurd this hlt
  · intro pr sh nx ha
    obtain ⟨h1, h2⟩ := hans pr sh nx ha
    have h2' := hI'.params
    unfold MLS at h2; unfold MLC at h1
    unfold slotLegal ownLegal slotColor
    rw [h2'] at h1 h2 ⊢
    cases hk : lp.kind with
    | block => simp only [hk] at h1 h2 ⊢; simp only [h1, Bool.and_true]
    | backsymbol =>
      simp only [hk] at h1 h2 ⊢
      simp only [h2.1, Bool.true_and, decide_eq_true_eq]; exact h1

theorem get_instr_pure' (hb : 0 < lp.baseColors) (hcol : progColorsLt p lp.baseColors = true)
    (hfix : fixOk lp fixF3 = true) (m : MacroProg Prog) (hI : Inv p lp fixF3 m) (qs : List Slot)
    (hl : legalSeq (macroGet compGet fixF3) slotLegal m qs = true) :
    Agree (getInstrs (macroGet compGet fixF3) m qs) (getInstrs (pureGet (pure1 p lp fixF3)) () qs)
      (fun _ m' => Inv p lp fixF3 m' ∧
        Mono (MLS TrueLeg) (MLC (LtLeg lp.baseColors)) m m') :=
  getInstrs_pure (histIndep_one p lp fixF3 hb hcol hfix) (fun st s => slotLegal st s = true)
    (fun _ s hi h => slotLegal_sound lp hi.params s h) qs m hI
    (legalRun_of_legalSeq _ _ qs m hl)

end One

/-! ### one level over any program whose answers do not depend on its state -/

theorem get_instr_pure_stateless' {σ : Type} (get : GetFn σ) (f : Slot → Res (Option Instr))
    (hpure : ∀ st s, Agree (get st s) (pureGet f () s) (fun _ _ => True))
    (lp : LogicParams) (fixF3 : Bool) (hb : 0 < lp.baseColors) (hcol : ColorsLt f lp.baseColors)
    (hfix : fixOk lp fixF3 = true) (st0 : σ) (qs : List Slot)
    (hl : legalSeq (macroGet get fixF3) slotLegal (freshMacro st0 lp) qs = true) :
    Agree (getInstrs (macroGet get fixF3) (freshMacro st0 lp) qs)
      (getInstrs (pureGet (pureInstr f lp fixF3)) () qs) (fun _ _ => True) := by
  have H := macro_histIndep (lp := lp) (fixF3 := fixF3)
    (histIndep_of_stateless get f lp.baseColors hb hcol hpure) (fun _ _ _ h => h) hb
    (fixOk_imp hfix)
  have hI : MInv f lp fixF3 TrueInv TrueLeg (LtLeg lp.baseColors) (freshMacro st0 lp) :=
    MInv.init lp.kind lp.cells (lp.baseStates, lp.baseColors) st0 trivial hb hb
  have := getInstrs_pure H (fun st s => slotLegal st s = true)
    (fun _ s hi h => slotLegal_sound lp hi.params s h) qs _ hI
    (legalRun_of_legalSeq _ _ qs _ hl)
  unfold Agree at this ⊢
  split at this
  · exact this
  · obtain ⟨st', h1, _⟩ := this
    exact ⟨st', h1, trivial⟩

/-! ### two levels: a macro over a macro over a base table -/

section TwoLevels

variable (p : Prog) (lpi lpo : LogicParams) (fixF3 : Bool)

/-- the invariant of the outer object of a macro over a macro over the base table `p` -/
abbrev Inv2 (m : MacroProg (MacroProg Prog)) : Prop :=
  MInv (pure1 p lpi fixF3) lpo fixF3 (Inv p lpi fixF3) (MLS TrueLeg) (MLC (LtLeg lpi.baseColors)) m

theorem histIndep_two (hbi : 0 < lpi.baseColors) (hcol : progColorsLt p lpi.baseColors = true)
    (hle : lpi.macroColors ≤ lpo.baseColors)
    (hfixi : fixOk lpi fixF3 = true) (hfixo : fixOk lpo fixF3 = true) :
    HistIndep (macroGet (macroGet compGet fixF3) fixF3) (pure2 p lpi lpo fixF3)
      (Inv2 p lpi lpo fixF3) (MLS (MLS TrueLeg)) (MLC (MLC (LtLeg lpi.baseColors))) :=
  macro_histIndep (histIndep_one p lpi fixF3 hbi hcol hfixi)
    (fun st c hI hc => Nat.lt_of_lt_of_le (macro_bound (fun _ _ _ h => h) st c hI hc) hle)
    (Nat.lt_of_lt_of_le (macroColors_pos lpi hbi) hle) (fixOk_imp hfixo)

theorem inv2_init (hbi : 0 < lpi.baseColors) (hcol : progColorsLt p lpi.baseColors = true)
    (hle : lpi.macroColors ≤ lpo.baseColors) (hfixi : fixOk lpi fixF3 = true) :
    Inv2 p lpi lpo fixF3 (freshMacro (freshMacro p lpi) lpo) :=
  MInv.init lpo.kind lpo.cells (lpo.baseStates, lpo.baseColors) (freshMacro p lpi)
    (inv_init' p lpi fixF3 hbi)
    ((histIndep_one p lpi fixF3 hbi hcol hfixi).zero _ (inv_init' p lpi fixF3 hbi)).2
    (Nat.lt_of_lt_of_le (macroColors_pos lpi hbi) hle)

theorem mlsB_sound {σ : Type} {ls : σ → Nat → Bool} {LS : σ → Nat → Prop} (m : MacroProg σ)
    (h : ∀ q, ls m.prog q = true → LS m.prog q) (q : Nat) (hq : mlsB ls m q = true) :
    MLS LS m q := by
  unfold mlsB at hq
  unfold MLS
  split
  · rename_i hk; simp only [hk] at hq; exact h _ hq
  · rename_i hk
    simp only [hk, Bool.and_eq_true] at hq
    exact ⟨hq.1, h _ hq.2⟩

theorem mlcB_sound {σ : Type} {lc : σ → Nat → Bool} {LC : σ → Nat → Prop} (m : MacroProg σ)
    (h : ∀ c, lc m.prog c = true → LC m.prog c) (c : Nat) (hc : mlcB lc m c = true) :
    MLC LC m c := by
  unfold mlcB at hc
  unfold MLC
  split
  · rename_i hk; simp only [hk] at hc; exact hc
  · rename_i hk; simp only [hk] at hc; exact h _ hc

theorem slotLegal2_sound {m : MacroProg (MacroProg Prog)} (hI : Inv2 p lpi lpo fixF3 m) (s : Slot)
    (h : slotLegal2 m s = true) :
    MLS (MLS TrueLeg) m s.1 ∧ MLC (MLC (LtLeg lpi.baseColors)) m s.2 := by
  unfold slotLegal2 at h
  simp only [Bool.and_eq_true] at h
  have hpi : m.prog.logic.params = lpi := hI.inner.params
  constructor
  · exact mlsB_sound m (fun q hq => mlsB_sound m.prog (fun _ _ => trivial) q hq) _ h.1
  · refine mlcB_sound m (fun c hc => mlcB_sound m.prog (fun c' hc' => ?_) c hc) _ h.2
    rw [hpi] at hc'
    simpa only [decide_eq_true_eq] using hc'

theorem get_instr_pure_nested' (hbi : 0 < lpi.baseColors)
    (hcol : progColorsLt p lpi.baseColors = true) (hle : lpi.macroColors ≤ lpo.baseColors)
    (hfixi : fixOk lpi fixF3 = true) (hfixo : fixOk lpo fixF3 = true)
    (m : MacroProg (MacroProg Prog)) (hI : Inv2 p lpi lpo fixF3 m) (qs : List Slot)
    (hl : legalSeq (macroGet (macroGet compGet fixF3) fixF3) slotLegal2 m qs = true) :
    Agree (getInstrs (macroGet (macroGet compGet fixF3) fixF3) m qs)
      (getInstrs (pureGet (pure2 p lpi lpo fixF3)) () qs)
      (fun _ m' => Inv2 p lpi lpo fixF3 m') := by
  have := getInstrs_pure (histIndep_two p lpi lpo fixF3 hbi hcol hle hfixi hfixo)
    (fun st s => slotLegal2 st s = true)
    (fun st s hi h => slotLegal2_sound p lpi lpo fixF3 hi s h) qs m hI
    (legalRun_of_legalSeq _ _ qs m hl)
  unfold Agree at this ⊢
  split at this
  · exact this
  · obtain ⟨st', h1, h2, _⟩ := this
    exact ⟨st', h1, h2⟩

end TwoLevels

end BB.Macros
