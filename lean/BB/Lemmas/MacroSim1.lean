/-
C08 / C09, part 1: the definitions the statements use (window embedding into L0, decoding of a
macro configuration, the macro program as a `ProgF`) and the positional number lemmas
(`decode (encode t) = t`, `encode t < base ^ |t|`).

Everything of this development lives in the namespace `BB.MacroSim`.
-/
import BB.Model.Macros
import BB.Lemmas.StepRefine

namespace BB.MacroSim

open BB BB.Macros

/-! ## Definitions used by the statements -/

/-- the base program `p` as the stateless inner `get_instr` of a macro (never an error).
    For a table `t : Prog`, `innerOf t.toF = fun s => .ok (t.get s)` holds by `rfl`. -/
def innerOf (p : ProgF) : Slot → Res (Option Instr) := fun s => .ok (p s.1 s.2)

/-- `p` restricted to states `< S` and colours `< C` prints only colours `< C` and goes only to
    states `< S`: the program really has the `params` the macro was built with.  (Decidable: a
    finite check.) -/
def closedB (p : ProgF) (S C : Nat) : Bool :=
  (List.range S).all fun q => (List.range C).all fun s =>
    match p q s with
    | none => true
    | some (pr, _, q') => decide (pr < C) && decide (q' < S)

/-- the `Prop` behind `closedB` -/
def Closed (p : ProgF) (S C : Nat) : Prop :=
  ∀ q s pr sh q', q < S → s < C → p q s = some (pr, sh, q') → pr < C ∧ q' < S

/-- L0 configuration: state `q`, head on the scanned cell of the window `w`; the cells left of the
    window are `outL` (nearest first), the cells right of it `outR` (nearest first). -/
def embed (q : Nat) (w : Win) (outL outR : List Nat) : Cfg :=
  ⟨q, w.left ++ outL, w.scan, w.right ++ outR⟩

/-- the head of `c` is on one of the `k` cells of the window whose outside is `outL` / `outR`
    (cell lists compared literally, so the head position is `|c.left| - |outL|`). -/
def InWindow (k : Nat) (outL outR : List Nat) (c : Cfg) : Prop :=
  ∃ w : Win, w.toTape.length = k ∧ c = embed c.state w outL outR

/-- state `q`, the window holds `tape` (left to right), head on its right end cell
    (`rightEdge = true`) or on its left end cell (`false`).  Meant for `tape ≠ []`. -/
def enterCfg (q : Nat) (rightEdge : Bool) (tape outL outR : List Nat) : Cfg :=
  if rightEdge then ⟨q, tape.reverse.tail ++ outL, tape.reverse.headD 0, outR⟩
  else ⟨q, outL, tape.headD 0, tape.tail ++ outR⟩

/-- state `q`, the window holds `tape`, the head has just left it: on the first cell right of the
    window (`d = true`) or the first cell left of it (`d = false`).  Outside cells unchanged. -/
def exitCfg (q : Nat) (d : Bool) (tape outL outR : List Nat) : Cfg :=
  if d then ⟨q, tape.reverse ++ outL, outR.headD 0, outR.tail⟩
  else ⟨q, outL.tail, outL.headD 0, tape ++ outR⟩

/-- `c` runs `n` steps to `c'` and the configurations at steps `0 .. n-1` have the head in the
    window. -/
def RunsIn (p : ProgF) (k : Nat) (outL outR : List Nat) (n : Nat) (c c' : Cfg) : Prop :=
  stepN p n c = some c' ∧ ∀ i, i < n → ∃ ci, stepN p i c = some ci ∧ InWindow k outL outR ci

/-- from `c` the machine stays in the window until it stands, still in the window, on an
    undefined instruction -/
def HaltsInside (p : ProgF) (k : Nat) (outL outR : List Nat) (c : Cfg) : Prop :=
  ∃ n c', RunsIn p k outL outR n c c' ∧ InWindow k outL outR c' ∧ step1 p c' = none

/-- from `c` the machine runs for ever and the head is in the window at every step -/
def NeverLeaves (p : ProgF) (k : Nat) (outL outR : List Nat) (c : Cfg) : Prop :=
  ∀ n, ∃ c', stepN p n c = some c' ∧ InWindow k outL outR c'

/-- The macro machine as an L0 program over macro states and macro colours: the pure macro
    instruction; a slot with no instruction or with an error (see `*_no_error`) is undefined. -/
def macroF (p : ProgF) (lp : LogicParams) (fixF3 : Bool) : ProgF := fun ms mc =>
  match pureInstr (innerOf p) lp fixF3 (ms, mc) with
  | .ok (some i) => some i
  | _ => none

/-- cells of the macro half-tape `L` left of the head, nearest first: each macro colour is a block
    of `k` base cells, and a block's cells are listed right to left. -/
def decL (b k : Nat) (L : List Nat) : List Nat := L.flatMap fun m => (decode b k m).reverse

/-- cells of the macro half-tape `R` right of the head, nearest first. -/
def decR (b k : Nat) (R : List Nat) : List Nat := R.flatMap fun m => decode b k m

/-- **Decoding a block-macro configuration.**  Macro state `ms` = base state `ms / 2`, head on the
    left end (`ms % 2 = 0`) or right end (`ms % 2 = 1`) of the block under the macro head. -/
def decCfg (lp : LogicParams) (c : Cfg) : Cfg :=
  enterCfg (c.state / 2) (c.state % 2 == 1) (decode lp.baseColors lp.cells c.scan)
    (decL lp.baseColors lp.cells c.left) (decR lp.baseColors lp.cells c.right)

/-! ## closedB -/

theorem closed_of_closedB {p : ProgF} {S C : Nat} (h : closedB p S C = true) : Closed p S C := by
  intro q s pr sh q' hq hs hp
  simp only [closedB, List.all_eq_true, List.mem_range] at h
  have := h q hq s hs
  rw [hp] at this
  simpa using this

theorem closedB_of_closed {p : ProgF} {S C : Nat} (h : Closed p S C) : closedB p S C = true := by
  simp only [closedB, List.all_eq_true, List.mem_range]
  intro q hq s hs
  cases hp : p q s with
  | none => rfl
  | some i =>
    obtain ⟨pr, sh, q'⟩ := i
    have := h q s pr sh q' hq hs hp
    simp [this.1, this.2]

/-! ## Positional numbers -/

/-- little-endian value -/
def val (b : Nat) : List Nat → Nat
  | [] => 0
  | x :: r => x + b * val b r

theorem encodeFrom_eq (b : Nat) (l : List Nat) (place acc : Nat) :
    encodeFrom b l place acc = acc + b ^ place * val b l := by
  induction l generalizing place acc with
  | nil => simp [encodeFrom, val]
  | cons x r ih =>
    simp only [encodeFrom, val, ih, Nat.pow_succ, Nat.mul_add, Nat.mul_assoc]
    rw [Nat.mul_comm x, Nat.add_assoc]

theorem encode_eq (b : Nat) (t : List Nat) : encode b t = val b t.reverse := by
  simp [encode, encodeFrom_eq]

theorem val_lt {b : Nat} {l : List Nat} (h : ∀ x ∈ l, x < b) : val b l < b ^ l.length := by
  induction l with
  | nil => simp [val]
  | cons x r ih =>
    have hx : x < b := h x (by simp)
    have hr := ih (fun y hy => h y (by simp [hy]))
    simp only [val, List.length_cons, Nat.pow_succ]
    have h1 : b * (val b r + 1) ≤ b * b ^ r.length := Nat.mul_le_mul_left b hr
    rw [Nat.mul_add, Nat.mul_one] at h1
    rw [Nat.mul_comm (b ^ r.length) b]
    omega

theorem encode_lt {b : Nat} {t : List Nat} (h : ∀ x ∈ t, x < b) : encode b t < b ^ t.length := by
  rw [encode_eq]
  have := val_lt (b := b) (l := t.reverse) (by simpa using h)
  simpa using this

theorem decodeAux_val {b : Nat} (l acc : List Nat) (h : ∀ x ∈ l, x < b) :
    decodeAux b l.length (val b l) acc = l.reverse ++ acc := by
  induction l generalizing acc with
  | nil => simp [decodeAux]
  | cons x r ih =>
    have hx : x < b := h x (by simp)
    have hb : 0 < b := by omega
    have hr := ih (x :: acc) (fun y hy => h y (by simp [hy]))
    simp only [List.length_cons, decodeAux, val]
    have h1 : (x + b * val b r) / b = val b r := by
      rw [Nat.add_mul_div_left _ _ hb, Nat.div_eq_of_lt hx, Nat.zero_add]
    have h2 : (x + b * val b r) % b = x := by
      rw [Nat.add_mul_mod_self_left, Nat.mod_eq_of_lt hx]
    rw [h1, h2, hr]
    simp

theorem decode_encode {b k : Nat} {t : List Nat} (hl : t.length = k) (h : ∀ x ∈ t, x < b) :
    decode b k (encode b t) = t := by
  have := decodeAux_val (b := b) t.reverse [] (by simpa using h)
  simp only [List.length_reverse, hl, List.reverse_reverse, List.append_nil] at this
  rw [decode, encode_eq]
  exact this

theorem decodeAux_length (b n c : Nat) (acc : List Nat) :
    (decodeAux b n c acc).length = n + acc.length := by
  induction n generalizing c acc with
  | zero => simp [decodeAux]
  | succ n ih => simp only [decodeAux, ih, List.length_cons]; omega

theorem decode_length (b k c : Nat) : (decode b k c).length = k := by
  simp [decode, decodeAux_length]

theorem decodeAux_lt {b : Nat} (hb : 0 < b) (n c : Nat) (acc : List Nat) (h : ∀ x ∈ acc, x < b) :
    ∀ x ∈ decodeAux b n c acc, x < b := by
  induction n generalizing c acc with
  | zero => simpa [decodeAux] using h
  | succ n ih =>
    simp only [decodeAux]
    apply ih
    intro y hy
    rcases List.mem_cons.1 hy with rfl | hy
    · exact Nat.mod_lt _ hb
    · exact h y hy

theorem decode_lt {b : Nat} (hb : 0 < b) (k c : Nat) : ∀ x ∈ decode b k c, x < b :=
  decodeAux_lt hb k c [] (by simp)

theorem decodeAux_zero (b n : Nat) (acc : List Nat) :
    decodeAux b n 0 acc = List.replicate n 0 ++ acc := by
  induction n generalizing acc with
  | zero => simp [decodeAux]
  | succ n ih =>
    simp only [decodeAux, Nat.zero_div, Nat.zero_mod, ih, List.replicate_succ']
    simp

theorem decode_zero (b k : Nat) : decode b k 0 = List.replicate k 0 := by
  simp [decode, decodeAux_zero]

end BB.MacroSim
