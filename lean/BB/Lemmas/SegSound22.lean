/-
C05 — segment analysis.  Part 22: `refuted` is sound for every goal (primed version of
`seg_refuted_sound`), and the repaired wrapper's parameters cover the program.
-/
import BB.Lemmas.SegSound21

namespace BB.Segment

open BB

/-- what the answer `refuted` for a goal claims about the real machine (a refutation of `blank` is
    held to the erase event) -/
def RefutedClaim (p : ProgF) : Term → Prop
  | .halt => ¬ Halts p
  | .blank => ¬ ∃ n, ErasesAt p n
  | .spinout => ¬ SpinsOut p

theorem seg_refuted_sound' (prog : Prog) (params : Nat × Nat) (segs k : Nat) (goal : Term)
    (hpc : paramsCover prog params = true)
    (h : segmentCantReach prog params segs goal = .ok (.refuted k)) :
    RefutedClaim prog.toF goal := by
  cases goal with
  | halt => exact seg_refuted_halt' prog params segs k hpc h
  | spinout => exact seg_refuted_spinout' prog params segs k hpc h
  | blank => exact absurd h (seg_blank_never_refuted' prog params segs k)

/-! ### the repaired wrapper -/

theorem paramsFix_fold (l : Prog) : ∀ (acc : Nat × Nat),
    acc.1 ≤ (l.foldl (fun acc kv => (max (max acc.1 kv.1.1) kv.2.2.2,
      max (max acc.2 kv.1.2) kv.2.1)) acc).1 ∧
    acc.2 ≤ (l.foldl (fun acc kv => (max (max acc.1 kv.1.1) kv.2.2.2,
      max (max acc.2 kv.1.2) kv.2.1)) acc).2 ∧
    ∀ kv ∈ l,
      kv.1.1 ≤ (l.foldl (fun acc kv => (max (max acc.1 kv.1.1) kv.2.2.2,
        max (max acc.2 kv.1.2) kv.2.1)) acc).1 ∧
      kv.2.2.2 ≤ (l.foldl (fun acc kv => (max (max acc.1 kv.1.1) kv.2.2.2,
        max (max acc.2 kv.1.2) kv.2.1)) acc).1 ∧
      kv.1.2 ≤ (l.foldl (fun acc kv => (max (max acc.1 kv.1.1) kv.2.2.2,
        max (max acc.2 kv.1.2) kv.2.1)) acc).2 ∧
      kv.2.1 ≤ (l.foldl (fun acc kv => (max (max acc.1 kv.1.1) kv.2.2.2,
        max (max acc.2 kv.1.2) kv.2.1)) acc).2 := by
  induction l with
  | nil => intro acc; exact ⟨Nat.le_refl _, Nat.le_refl _, fun _ h => by cases h⟩
  | cons e rest ih =>
    intro acc
    rw [List.foldl_cons]
    obtain ⟨h1, h2, h3⟩ := ih (max (max acc.1 e.1.1) e.2.2.2, max (max acc.2 e.1.2) e.2.1)
    simp only at h1 h2
    refine ⟨by omega, by omega, ?_⟩
    intro kv hkv
    simp only [List.mem_cons] at hkv
    rcases hkv with rfl | hkv
    · refine ⟨by omega, by omega, by omega, by omega⟩
    · exact h3 kv hkv

/-- the parameters of the repaired wrapper (`fixF2 = true`) cover the program -/
theorem paramsCover_fix (prog : Prog) : paramsCover prog (getCompParams prog true) = true := by
  unfold paramsCover getCompParams
  obtain ⟨_, _, h3⟩ := paramsFix_fold prog (0, 0)
  simp only [if_true, Bool.and_eq_true, decide_eq_true_eq, List.all_eq_true]
  refine ⟨⟨by omega, by omega⟩, fun kv hkv => ?_⟩
  obtain ⟨a, b, c, d⟩ := h3 kv hkv
  unfold Prog.paramsFix
  refine ⟨⟨⟨by omega, by omega⟩, by omega⟩, by omega⟩

theorem py_segment_fixed_sound' (prog : Prog) (segs k : Nat) (goal : Term)
    (h : pySegmentCantReach prog segs goal true = .ok (.refuted k)) :
    RefutedClaim prog.toF goal :=
  seg_refuted_sound' prog _ segs k goal (paramsCover_fix prog) h

end BB.Segment
