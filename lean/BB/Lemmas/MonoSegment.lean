/-
C15 for the finite-segment analysis (src/segment.rs): the limit `segs` of `segment_cant_reach` is
only the fuel of `segmentLoop` (`for seg in 2..=segs`).  The inner fuels `runFuel`/`searchFuel` are
computed from the *segment size of the iteration* (`2 + seg`), never from `segs`, so the outcome of
each iteration is the same under every limit that reaches it.

The answer given when the segments run out is `.ok .segmentLimit`.  Any other outcome of a call
that passes the entry assertion `segs >= 2` - every other `SegmentResult` (`refuted k` with the same
`k`, `halt`, `blank`, `repeat`, `spinout`, `depthLimit`) and both error outcomes (`.error .panic`,
`.error .fuel`) raised inside the loop - is unchanged by a larger `segs`.  The one outcome that is
*not* preserved is the panic of the entry assertion itself (`segs < 2`).
-/
import BB.Model.Segment
import BB.Lemmas.MonoBase

namespace BB.Segment

/-- the loop: an outcome other than `.ok .segmentLimit` is unchanged by more iterations -/
theorem segmentLoop_mono (ap : AnalyzedProg) (goal : Term) :
    ∀ (fuel seg : Nat) (r : Except Err SegmentResult),
      segmentLoop ap goal fuel seg = r → r ≠ .ok .segmentLimit →
      ∀ fuel', fuel ≤ fuel' → segmentLoop ap goal fuel' seg = r := by
  intro fuel
  induction fuel with
  | zero =>
    intro seg r h hne
    simp only [segmentLoop] at h
    exact absurd h.symm hne
  | succ n ih =>
    intro seg r h hne fuel' hle
    obtain ⟨m, rfl⟩ : ∃ m, fuel' = m + 1 := ⟨fuel' - 1, by omega⟩
    have hnm : n ≤ m := by omega
    simp only [segmentLoop] at h ⊢
    cases ha : allSegmentsReached ap (2 + seg) goal with
    | error e => simp only [ha] at h ⊢; exact h
    | ok o =>
      cases o with
      | none => simp only [ha] at h ⊢; exact h
      | some sr =>
        cases sr with
        | limit => simp only [ha] at h ⊢; exact h
        | «repeat» => simp only [ha] at h ⊢; exact h
        | found t => simp only [ha] at h ⊢; exact h
        | reached => simp only [ha] at h ⊢; exact ih _ _ h hne m hnm

/-- `segment_cant_reach`: an outcome other than `.ok .segmentLimit` of a call with `segs ≥ 2` is
    unchanged by a larger `segs`. -/
theorem segmentCantReach_mono' (prog : Prog) (params : Nat × Nat) (goal : Term) (s₁ s₂ : Nat)
    (r : Except Err SegmentResult) (h2 : 2 ≤ s₁)
    (h : segmentCantReach prog params s₁ goal = r) (hne : r ≠ .ok .segmentLimit) (hle : s₁ ≤ s₂) :
    segmentCantReach prog params s₂ goal = r := by
  unfold segmentCantReach at h ⊢
  have h1 : ¬ s₁ < 2 := by omega
  have h1' : ¬ s₂ < 2 := by omega
  simp only [h1, h1', if_false] at h ⊢
  split at h
  · rename_i hc; simp only [hc, if_true]; exact h
  · rename_i hc; simp only [hc]
    exact segmentLoop_mono _ goal _ _ r h hne _ (by omega)

/-- an `.ok` outcome can only come from a call with `segs ≥ 2` -/
theorem segmentCantReach_ok_ge (prog : Prog) (params : Nat × Nat) (goal : Term) (s : Nat)
    (r : SegmentResult) (h : segmentCantReach prog params s goal = .ok r) : 2 ≤ s := by
  unfold segmentCantReach at h
  by_cases h1 : s < 2
  · simp [h1] at h
  · omega

/-- the `.ok` form: no side condition on `s₁` is needed -/
theorem segmentCantReach_ok_mono' (prog : Prog) (params : Nat × Nat) (goal : Term) (s₁ s₂ : Nat)
    (r : SegmentResult)
    (h : segmentCantReach prog params s₁ goal = .ok r) (hne : r ≠ .segmentLimit) (hle : s₁ ≤ s₂) :
    segmentCantReach prog params s₂ goal = .ok r :=
  segmentCantReach_mono' prog params goal s₁ s₂ _
    (segmentCantReach_ok_ge prog params goal s₁ r h) h
    (fun hc => hne (by injection hc)) hle

/-- dichotomy form (for `segs ≥ 2`) -/
theorem segmentCantReach_dichotomy' (prog : Prog) (params : Nat × Nat) (goal : Term) (s₁ s₂ : Nat)
    (h2 : 2 ≤ s₁) (hle : s₁ ≤ s₂) :
    segmentCantReach prog params s₂ goal = segmentCantReach prog params s₁ goal ∨
      segmentCantReach prog params s₁ goal = .ok .segmentLimit := by
  by_cases h : segmentCantReach prog params s₁ goal = .ok .segmentLimit
  · exact Or.inr h
  · exact Or.inl (segmentCantReach_mono' prog params goal s₁ s₂ _ h2 rfl h hle)

/-- the entry assertion: every call with `segs < 2` panics, whatever the program -/
theorem segmentCantReach_lt_two (prog : Prog) (params : Nat × Nat) (goal : Term) (s : Nat)
    (h : s < 2) : segmentCantReach prog params s goal = .error .panic := by
  unfold segmentCantReach
  simp [h]

end BB.Segment
