/-
Monotonicity in the cycle limit of `quick_term_or_rec` (part of C15).
-/
import BB.Model.Machine

namespace BB

theorem recLoop_mono (p : Prog) :
    ∀ (fuel cycle : Nat) (s : RState) (r : RecRes),
      recLoop p fuel cycle s = r → r ≠ .limit →
      ∀ fuel', fuel ≤ fuel' → recLoop p fuel' cycle s = r := by
  intro fuel
  induction fuel with
  | zero =>
    intro cycle s r h hne
    simp [recLoop] at h
    exact absurd h.symm hne
  | succ n ih =>
    intro cycle s r h hne fuel' hle
    obtain ⟨m, rfl⟩ : ∃ m, fuel' = m + 1 := ⟨fuel' - 1, by omega⟩
    simp only [recLoop] at h ⊢
    cases hi : recIter p cycle s with
    | inl res => simp only [hi] at h ⊢; exact h
    | inr s' =>
      simp only [hi] at h ⊢
      exact ih _ _ _ h hne m (by omega)

/-- **C15 (cycle limit).** A verdict other than `limit` is unchanged by a larger limit. -/
theorem quickTermOrRec_mono (p : Prog) (l₁ l₂ : Nat) (h : l₁ ≤ l₂)
    (hne : quickTermOrRec p l₁ ≠ .limit) : quickTermOrRec p l₂ = quickTermOrRec p l₁ := by
  unfold quickTermOrRec at *
  exact recLoop_mono p _ _ _ _ rfl hne _ (by omega)

end BB
