/-
C11 (rule arithmetic is exact), part 1: the definitions used by the statements of
BB/Props/C11.lean, and `calculate_diff`.
-/
import BB.Model.Rules

namespace BB.RuleArith

open BB

/-! ### Definitions that are part of the statements -/

/-- the span of side `s` of a tape (`true` = right span), as `Tape.getCount` selects it -/
def tspan (t : Tape) (s : Bool) : Span := if s then t.rspan else t.lspan

/-- `index` names an existing block of the tape (`span.0[pos]` does not panic) -/
def InRange (t : Tape) (index : Index) : Prop := index.2 < (tspan t index.1).length

instance (t : Tape) (index : Index) : Decidable (InRange t index) := by
  unfold InRange; exact inferInstance

/-- the keys of a rule, in map order -/
def keys (rule : Rule) : List Index := rule.map Prod.fst

/-- every op of the rule is a `Plus` (an additive rule) -/
def AllPlus (rule : Rule) : Prop := ∀ e ∈ rule, ∃ δ, e.2 = Op.plus δ

instance (rule : Rule) : Decidable (AllPlus rule) := by
  unfold AllPlus
  have : ∀ e : Index × Op, Decidable (∃ δ, e.2 = Op.plus δ) := by
    intro e
    cases h : e.2 with
    | plus d => exact isTrue ⟨d, rfl⟩
    | mult q r => exact isFalse (by intro ⟨δ, hδ⟩; cases hδ)
  exact inferInstance

/-- the `BTreeMap` invariant of the association list: keys strictly increasing for the derived
    order of `(bool, usize)` -/
def Sorted (rule : Rule) : Prop := rule.Pairwise (fun x y => Index.lt x.1 y.1 = true)

instance (rule : Rule) : Decidable (Sorted rule) := by unfold Sorted; exact inferInstance

/-- the count vector of side `s` of a `Counts` pair (`true` = right) -/
def cside (c : Counts) (s : Bool) : List Nat := if s then c.2 else c.1

/-- every block count of the tape is a `u64` -/
def CountsInRange (t : Tape) : Prop :=
  (∀ b ∈ t.lspan, b.count ≤ countMax) ∧ (∀ b ∈ t.rspan, b.count ≤ countMax)

instance (t : Tape) : Decidable (CountsInRange t) := by unfold CountsInRange; exact inferInstance

/-- every block of the tape has at least one cell -/
def AllPositive (t : Tape) : Prop :=
  (∀ b ∈ t.lspan, 1 ≤ b.count) ∧ (∀ b ∈ t.rspan, 1 ≤ b.count)

instance (t : Tape) : Decidable (AllPositive t) := by unfold AllPositive; exact inferInstance

/-- an entry that the loop of `count_apps` steps over without returning or panicking: an additive
    entry that is non-decreasing, or whose block exists and has more than `|δ|` cells -/
def Passes (t : Tape) (e : Index × Op) : Prop :=
  ∃ δ, e.2 = Op.plus δ ∧ (0 ≤ δ ∨ ∃ c, t.getCount e.1 = .ok c ∧ δ.natAbs < c)

/-- an entry at which the loop of `count_apps` panics with `err`: a `Mult` op (`unimplemented!()`),
    or a decreasing additive entry that names no block of the tape (index out of bounds) -/
def PanicsAt (t : Tape) (e : Index × Op) (err : PErr) : Prop :=
  (∃ q r, e.2 = Op.mult q r ∧ err = .panic "not implemented") ∨
    (∃ δ, e.2 = Op.plus δ ∧ δ < 0 ∧ ¬ InRange t e.1 ∧ err = .panic "index out of bounds")

/-- decidable equality of outcomes (for the concrete examples) -/
instance instDecidableEqPRes {α : Type} [DecidableEq α] : DecidableEq (PRes α) := fun a b =>
  match a, b with
  | .ok x, .ok y =>
    if h : x = y then isTrue (by rw [h]) else isFalse (by intro h'; cases h'; exact h rfl)
  | .error x, .error y =>
    if h : x = y then isTrue (by rw [h]) else isFalse (by intro h'; cases h'; exact h rfl)
  | .ok _, .error _ => isFalse (by intro h; cases h)
  | .error _, .ok _ => isFalse (by intro h; cases h)

/-! ### diffTryFrom -/

theorem diffTryFrom_some {x y : Int} (h : diffTryFrom x = some y) :
    y = x ∧ diffMin ≤ x ∧ x ≤ diffMax := by
  unfold diffTryFrom at h
  split at h
  · next hx => cases h; exact ⟨rfl, hx.1, hx.2⟩
  · cases h

theorem diffTryFrom_of_range {x : Int} (h1 : diffMin ≤ x) (h2 : x ≤ diffMax) :
    diffTryFrom x = some x := by
  unfold diffTryFrom; rw [if_pos ⟨h1, h2⟩]

/-! ### calculate_diff -/

theorem calc_diff_none_iff' (a b c d : Nat) :
    calculateDiff a b c d = .ok none ↔ a = b ∧ b = c ∧ c = d := by
  unfold calculateDiff
  constructor
  · intro h
    split at h
    · next hc =>
      simp only [Bool.and_eq_true, beq_iff_eq] at hc
      exact ⟨hc.1.1, hc.1.2, hc.2⟩
    · split at h
      · split at h
        · cases h
        · split at h
          · split at h
            · cases h
            · simp only at h
              split at h
              · split at h
                · cases h
                · split at h <;> cases h
              · cases h
          · cases h
      · cases h
  · rintro ⟨rfl, rfl, rfl⟩
    simp

theorem calc_diff_plus_iff' (a b c d : Nat) (δ : Int) :
    calculateDiff a b c d = .ok (some (.got (.plus δ))) ↔
      δ ≠ 0 ∧ diffMin ≤ δ ∧ δ ≤ diffMax ∧
        (b : Int) = a + δ ∧ (c : Int) = b + δ ∧ (d : Int) = c + δ := by
  unfold calculateDiff
  constructor
  · intro h
    split at h
    · cases h
    · next hne =>
      simp only [Bool.and_eq_true, beq_iff_eq, not_and] at hne
      split at h
      · next d1 d2 d3 h1 h2 h3 =>
        obtain ⟨rfl, l1, u1⟩ := diffTryFrom_some h1
        obtain ⟨rfl, l2, u2⟩ := diffTryFrom_some h2
        obtain ⟨rfl, l3, u3⟩ := diffTryFrom_some h3
        split at h
        · next he =>
          simp only [Bool.and_eq_true, beq_iff_eq] at he
          injection h with h; injection h with h; injection h with h; injection h with h
          subst h
          refine ⟨?_, l1, u1, by omega, by omega, by omega⟩
          intro h0
          apply hne <;> omega
        · split at h
          · split at h
            · cases h
            · simp only at h
              split at h
              · split at h
                · cases h
                · split at h <;> cases h
              · cases h
          · cases h
      · cases h
  · rintro ⟨h0, hl, hu, hb, hc, hd⟩
    have e1 : (b : Int) - a = δ := by omega
    have e2 : (c : Int) - b = δ := by omega
    have e3 : (d : Int) - c = δ := by omega
    have hne : ¬ (a = b) := by omega
    simp [hne, e1, e2, e3, diffTryFrom_of_range hl hu]

theorem calc_diff_no_error' (a b c d : Nat) (e : PErr) : calculateDiff a b c d ≠ .error e := by
  unfold calculateDiff
  intro h
  split at h
  · cases h
  · split at h
    · split at h
      · cases h
      · split at h
        · next a' b' c' d' ha hb hc hd =>
          obtain ⟨rfl, la, ua⟩ := diffTryFrom_some ha
          obtain ⟨rfl, lb, ub⟩ := diffTryFrom_some hb
          obtain ⟨rfl, lc, uc⟩ := diffTryFrom_some hc
          split at h
          · cases h
          · next hab =>
            simp only [Bool.or_eq_true, beq_iff_eq, not_or] at hab
            simp only at h
            split at h
            · next hdm =>
              split at h
              · next hc0 =>
                simp only [beq_iff_eq] at hc0
                simp only [beq_iff_eq, Prod.mk.injEq] at hdm
                have hc0' : c = 0 := by omega
                subst hc0'
                simp only [Int.natCast_zero, Int.zero_tdiv, Int.zero_tmod] at hdm
                have := Int.mul_tdiv_add_tmod (b : Int) (a : Int)
                rw [hdm.1, hdm.2] at this
                omega
              · split at h <;> cases h
            · cases h
        · cases h
    · cases h

theorem tdivmod_unique {x y q r : Int} (hx : 0 ≤ x) (hy : 0 < y) :
    (x.tdiv y = q ∧ x.tmod y = r) ↔ (r + y * q = x ∧ 0 ≤ r ∧ r < y) := by
  rw [Int.tdiv_eq_ediv_of_nonneg hx, Int.tmod_eq_emod_of_nonneg hx]
  exact Int.ediv_emod_unique hy

/-- forward direction, raw -/
theorem calc_diff_mult_fwd (a b c d : Nat) (q r : Int)
    (h : calculateDiff a b c d = .ok (some (.got (.mult q r)))) :
    (0 : Int) < a ∧ (a : Int) ≤ diffMax ∧ (0 : Int) < b ∧ (b : Int) ≤ diffMax ∧ (0 : Int) < c ∧ (c : Int) ≤ diffMax ∧ (d : Int) ≤ diffMax ∧
      ((b : Int).tdiv a = q ∧ (b : Int).tmod a = r) ∧
      ((c : Int).tdiv b = q ∧ (c : Int).tmod b = r) ∧
      ((d : Int).tdiv c = q ∧ (d : Int).tmod c = r) ∧
      ¬ ((b : Int) - a = (c : Int) - b ∧ (c : Int) - b = (d : Int) - c) := by
  unfold calculateDiff at h
  split at h
  · cases h
  · split at h
    · next d1 d2 d3 h1 h2 h3 =>
      obtain ⟨rfl, l1, u1⟩ := diffTryFrom_some h1
      obtain ⟨rfl, l2, u2⟩ := diffTryFrom_some h2
      obtain ⟨rfl, l3, u3⟩ := diffTryFrom_some h3
      split at h
      · cases h
      · next hap =>
        simp only [Bool.and_eq_true, beq_iff_eq] at hap
        split at h
        · next a' b' c' d' ha hb hc hd =>
          obtain ⟨rfl, la, ua⟩ := diffTryFrom_some ha
          obtain ⟨rfl, lb, ub⟩ := diffTryFrom_some hb
          obtain ⟨rfl, lc, uc⟩ := diffTryFrom_some hc
          obtain ⟨rfl, ld, ud⟩ := diffTryFrom_some hd
          split at h
          · cases h
          · next hab =>
            simp only [Bool.or_eq_true, beq_iff_eq, not_or] at hab
            simp only at h
            split at h
            · next hdm =>
              simp only [beq_iff_eq, Prod.mk.injEq] at hdm
              split at h
              · cases h
              · next hc0 =>
                simp only [beq_iff_eq] at hc0
                split at h
                · next hdm2 =>
                  simp only [beq_iff_eq, Prod.mk.injEq] at hdm2
                  injection h with h; injection h with h; injection h with h; injection h with hq hr
                  refine ⟨by omega, ua, by omega, ub, by omega, uc, ud, ⟨hq, hr⟩, ⟨?_, ?_⟩, ⟨?_, ?_⟩, hap⟩
                  · rw [← hdm.1]; exact hq
                  · rw [← hdm.2]; exact hr
                  · rw [← hdm2.1, ← hdm.1]; exact hq
                  · rw [← hdm2.2, ← hdm.2]; exact hr
                · cases h
            · cases h
        · cases h
    · cases h

theorem calc_diff_mult_iff' (a b c d : Nat) (q r : Int) :
    calculateDiff a b c d = .ok (some (.got (.mult q r))) ↔
      (0 : Int) < a ∧ (d : Int) ≤ diffMax ∧ 2 ≤ q ∧ 0 ≤ r ∧ r < a ∧
        (b : Int) = q * a + r ∧ (c : Int) = q * b + r ∧ (d : Int) = q * c + r := by
  constructor
  · intro h
    obtain ⟨ha, _, hb, _, hc, _, ud, h1, h2, h3, hap⟩ := calc_diff_mult_fwd a b c d q r h
    rw [tdivmod_unique (by omega) ha] at h1
    rw [tdivmod_unique (by omega) hb] at h2
    rw [tdivmod_unique (by omega) hc] at h3
    obtain ⟨e1, r0, ra⟩ := h1
    obtain ⟨e2, _, rb⟩ := h2
    obtain ⟨e3, _, rc⟩ := h3
    have hq0 : 0 ≤ q := by
      by_cases hq : q < 0
      · exfalso
        have : (a : Int) * q ≤ a * (-1) := Int.mul_le_mul_of_nonneg_left (by omega) (by omega)
        omega
      · omega
    have hq : q = 0 ∨ q = 1 ∨ 2 ≤ q := by omega
    rcases hq with rfl | rfl | hq
    · simp only [Int.mul_zero] at e1 e2; omega
    · simp only [Int.mul_one] at e1 e2 e3; exfalso; apply hap; omega
    · refine ⟨ha, ud, hq, r0, ra, ?_, ?_, ?_⟩
      · rw [Int.mul_comm]; omega
      · rw [Int.mul_comm]; omega
      · rw [Int.mul_comm]; omega
  · rintro ⟨ha, ud, hq, r0, ra, eb, ec, ed⟩
    have m1 : 2 * (a : Int) ≤ q * a := Int.mul_le_mul_of_nonneg_right hq (by omega)
    have m2 : 2 * (b : Int) ≤ q * b := Int.mul_le_mul_of_nonneg_right hq (by omega)
    have m3 : 2 * (c : Int) ≤ q * c := Int.mul_le_mul_of_nonneg_right hq (by omega)
    have hD : diffMax = 2147483647 := by decide
    have hDm : diffMin = -2147483648 := by decide
    have t1 := (tdivmod_unique (x := b) (y := a) (q := q) (r := r) (by omega) ha).mpr
      ⟨by rw [Int.mul_comm]; omega, r0, ra⟩
    have t2 := (tdivmod_unique (x := c) (y := b) (q := q) (r := r) (by omega) (by omega)).mpr
      ⟨by rw [Int.mul_comm]; omega, r0, by omega⟩
    have t3 := (tdivmod_unique (x := d) (y := c) (q := q) (r := r) (by omega) (by omega)).mpr
      ⟨by rw [Int.mul_comm]; omega, r0, by omega⟩
    have n1 : ¬ (a = b) := by omega
    have n2 : ¬ ((b : Int) - a = (c : Int) - b) := by omega
    have a0 : ¬ (a = 0) := by omega
    have b0 : ¬ (b = 0) := by omega
    have c0 : ¬ (c = 0) := by omega
    unfold calculateDiff
    rw [diffTryFrom_of_range (x := (b : Int) - a) (by omega) (by omega),
      diffTryFrom_of_range (x := (c : Int) - b) (by omega) (by omega),
      diffTryFrom_of_range (x := (d : Int) - c) (by omega) (by omega),
      diffTryFrom_of_range (x := (a : Int)) (by omega) (by omega),
      diffTryFrom_of_range (x := (b : Int)) (by omega) (by omega),
      diffTryFrom_of_range (x := (c : Int)) (by omega) (by omega),
      diffTryFrom_of_range (x := (d : Int)) (by omega) (by omega)]
    simp [n1, n2, a0, b0, c0, t1.1, t1.2, t2.1, t2.2, t3.1, t3.2]

theorem calc_diff_plus_exact' (a b c d : Nat) (δ : Int)
    (h : calculateDiff a b c d = .ok (some (.got (.plus δ)))) :
    (b : Int) = a + δ ∧ (c : Int) = b + δ ∧ (d : Int) = c + δ :=
  ((calc_diff_plus_iff' a b c d δ).mp h).2.2.2

theorem calc_diff_mult_exact' (a b c d : Nat) (q r : Int)
    (h : calculateDiff a b c d = .ok (some (.got (.mult q r)))) :
    ((a : Int) ≤ diffMax ∧ (b : Int) ≤ diffMax ∧ (c : Int) ≤ diffMax ∧ (d : Int) ≤ diffMax) ∧
      (0 : Int) < a ∧ 2 ≤ q ∧ 0 ≤ r ∧ r < a ∧
      (b : Int) = q * a + r ∧ (c : Int) = q * b + r ∧ (d : Int) = q * c + r := by
  obtain ⟨_, ua, _, ub, _, uc, ud, _⟩ := calc_diff_mult_fwd a b c d q r h
  obtain ⟨ha, _, hq, r0, ra, e1, e2, e3⟩ := (calc_diff_mult_iff' a b c d q r).mp h
  exact ⟨⟨ua, ub, uc, ud⟩, ha, hq, r0, ra, e1, e2, e3⟩

end BB.RuleArith
