/-
C14 support, part 1: the definitions used by the statements (transition graph, paths, strong
connectivity, well-formedness, walk-generated programs) and the list facts about `get_exitpoints`
(sorted keys, membership of the value lists).
-/
import BB.Model.Graph

namespace BB.Graph

open BB

/-! ### Definitions that are part of the statements -/

/-- `q → q'` in the state-transition graph of the table: some defined instruction of state `q`
    (the one the machine would execute on some scanned colour `c`) goes to state `q'`.
    Stated on the L0 view `p.toF` of the program. -/
def Edge (p : Prog) (q q' : Nat) : Prop := ∃ c i, p.toF q c = some i ∧ i.2.2 = q'

/-- Reflexive-transitive closure of a relation on states (a path of length ≥ 0). -/
inductive Reach (r : Nat → Nat → Prop) : Nat → Nat → Prop
  | refl (a : Nat) : Reach r a a
  | head {a b c : Nat} : r a b → Reach r b c → Reach r a c

/-- A path (possibly empty) in the transition graph. -/
def Path (p : Prog) (a b : Nat) : Prop := Reach (Edge p) a b

/-- Every state `< n` reaches every state `< n`. -/
def StronglyConnected (p : Prog) (n : Nat) : Prop := ∀ a b, a < n → b < n → Path p a b

/-- State `q` has a way out: an edge to a different state. -/
def HasExit (p : Prog) (q : Nat) : Prop := ∃ q', Edge p q q' ∧ q' ≠ q

/-- Well-formedness for `n` states: every listed entry has source state and target state `< n`.
    (The real `is_connected(prog, states)` is only called with such programs; on others it can
    panic, see `isConnected_panic_witness`.) -/
def wf (p : Prog) (n : Nat) : Bool := p.all fun kv => decide (kv.1.1 < n) && decide (kv.2.2.2 < n)

/-- Every listed entry of the table is the one `get` finds, i.e. the association list has no
    shadowed duplicate key (the `BTreeMap` invariant; same text as `Prog.functionalB` of C04). -/
def noShadow (p : Prog) : Bool := p.all fun kv => p.get kv.1 == some kv.2

/-- some listed entry goes from `a` to `b` -/
def edgeB (p : Prog) (a b : Nat) : Bool := p.any fun kv => kv.1.1 == a && kv.2.2.2 == b

/-- consecutive elements of the list are joined by listed entries -/
def chainB (p : Prog) : List Nat → Bool
  | a :: b :: rest => edgeB p a b && chainB p (b :: rest)
  | _ => true

/-- states are introduced in increasing order: each element is at most one more than the largest
    element before it (`mx` = largest so far) -/
def ordered : Nat → List Nat → Bool
  | _, [] => true
  | mx, x :: xs => decide (x ≤ mx + 1) && ordered (max mx x) xs

/-- `w` (oldest first) is the sequence of states of a walk that generated `p` as a tree program on
    `n ≥ 2` states: the table is well-formed without shadowed keys, the walk starts in state 0,
    follows listed instructions, introduces the states in increasing order, and mentions the last
    state `n - 1`. -/
def WalkGenerated (p : Prog) (n : Nat) (w : List Nat) : Bool :=
  decide (2 ≤ n) && wf p n && noShadow p && (w.head? == some 0) && chainB p w && ordered 0 w
    && w.contains (n - 1)

/-! ### Auxiliary relations -/

/-- list-level edge: some listed entry (shadowed or not) goes from `q` to `q'` -/
def EdgeL (p : Prog) (q q' : Nat) : Prop := ∃ kv ∈ p, kv.1.1 = q ∧ kv.2.2.2 = q'

/-- exit edge as recorded in an `Exitpoints` table -/
def ExE (ex : Exitpoints) (q x : Nat) : Prop := ∃ v, ex.get q = some v ∧ x ∈ v

/-! ### `Reach` -/

theorem Reach.trans {r : Nat → Nat → Prop} {a b c : Nat} (h1 : Reach r a b) (h2 : Reach r b c) :
    Reach r a c := by
  induction h1 with
  | refl => exact h2
  | head e _ ih => exact .head e (ih h2)

theorem Reach.single {r : Nat → Nat → Prop} {a b : Nat} (h : r a b) : Reach r a b :=
  .head h (.refl b)

theorem Reach.mono {r s : Nat → Nat → Prop} (hrs : ∀ a b, r a b → s a b) {a b : Nat}
    (h : Reach r a b) : Reach s a b := by
  induction h with
  | refl => exact .refl _
  | head e _ ih => exact .head (hrs _ _ e) ih

/-- dropping self-loops does not change reachability -/
theorem Reach.mono_or_eq {r s : Nat → Nat → Prop} (hrs : ∀ a b, r a b → b = a ∨ s a b) {a b : Nat}
    (h : Reach r a b) : Reach s a b := by
  induction h with
  | refl => exact .refl _
  | head e _ ih =>
    rcases hrs _ _ e with h | h
    · subst h; exact ih
    · exact .head h ih

/-- a set closed under the relation contains everything reachable from it -/
theorem Reach.closed {r : Nat → Nat → Prop} (R : Nat → Prop)
    (hc : ∀ a b, R a → r a b → R b) {a b : Nat} (h : Reach r a b) (ha : R a) : R b := by
  induction h with
  | refl => exact ha
  | head e _ ih => exact ih (hc _ _ ha e)

/-- a nonempty path leaves its start by an edge to a different vertex -/
theorem Reach.exit_of_ne {r : Nat → Nat → Prop} {a b : Nat} (h : Reach r a b) (hne : a ≠ b) :
    ∃ x, r a x ∧ x ≠ a := by
  induction h with
  | refl => exact absurd rfl hne
  | @head a x c e _ ih =>
    by_cases hx : x = a
    · subst hx; exact ih hne
    · exact ⟨x, e, hx⟩

/-- a path to a different vertex starts with an edge -/
theorem Reach.first_of_ne {r : Nat → Nat → Prop} {a b : Nat} (h : Reach r a b) (hne : a ≠ b) :
    ∃ x, r a x ∧ Reach r x b := by
  cases h with
  | refl => exact absurd rfl hne
  | head e t => exact ⟨_, e, t⟩

/-! ### Counting -/

theorem length_le_of_nodup_subset : ∀ (l m : List Nat), l.Nodup → (∀ x ∈ l, x ∈ m) →
    l.length ≤ m.length
  | [], _, _, _ => Nat.zero_le _
  | a :: l, m, hn, hs => by
    have hn' := List.nodup_cons.mp hn
    have ham : a ∈ m := hs a (List.mem_cons_self ..)
    have hsub : ∀ x ∈ l, x ∈ m.erase a := by
      intro x hx
      have hxa : x ≠ a := fun h => hn'.1 (h ▸ hx)
      exact (List.mem_erase_of_ne hxa).mpr (hs x (List.mem_cons_of_mem _ hx))
    have ih := length_le_of_nodup_subset l (m.erase a) hn'.2 hsub
    have hl := List.length_erase_of_mem ham
    have hpos : 0 < m.length := List.length_pos_of_mem ham
    simp only [List.length_cons]
    omega

/-- a list containing all of `0..n-1` has at least `n` elements -/
theorem le_length_of_all_mem (l : List Nat) (n : Nat) (h : ∀ q, q < n → q ∈ l) : n ≤ l.length := by
  have := length_le_of_nodup_subset (List.range n) l List.nodup_range
    (fun x hx => h x (List.mem_range.mp hx))
  simpa using this

/-- a duplicate-free list of numbers `< n` with at least `n` elements contains all of `0..n-1` -/
theorem mem_of_nodup_lt_length (l : List Nat) (n : Nat) (hn : l.Nodup) (hlt : ∀ x ∈ l, x < n)
    (hlen : n ≤ l.length) (q : Nat) (hq : q < n) : q ∈ l := by
  apply Classical.byContradiction
  intro hnot
  have := length_le_of_nodup_subset (q :: l) (List.range n) (List.nodup_cons.mpr ⟨hnot, hn⟩)
    (by
      intro x hx
      rcases List.mem_cons.mp hx with rfl | hx
      · exact List.mem_range.mpr hq
      · exact List.mem_range.mpr (hlt x hx))
  simp at this
  omega

/-- a duplicate-free list of numbers in `1..n-1` has fewer than `n` elements -/
theorem length_lt_of_nodup_pos (l : List Nat) (n : Nat) (hn1 : 0 < n) (hn : l.Nodup)
    (h : ∀ x ∈ l, 0 < x ∧ x < n) : l.length < n := by
  have := length_le_of_nodup_subset (0 :: l) (List.range n)
    (List.nodup_cons.mpr ⟨fun h0 => by have := (h 0 h0).1; omega, hn⟩)
    (by
      intro x hx
      rcases List.mem_cons.mp hx with rfl | hx
      · exact List.mem_range.mpr hn1
      · exact List.mem_range.mpr (h x hx).2)
  simp at this
  omega

end BB.Graph
