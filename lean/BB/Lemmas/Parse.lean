/-
Helper lemmas for C13 (program text <-> compiled table round trip).
Facts about the L1 model of src/instrs.rs in BB/Model/Instrs.lean:
tokens, splitOne/splitTwo of joined texts, trimChars, Prog.get/Prog.insert, parseRow/parseRows,
mapM' and the printer.
-/
import BB.Model.Instrs

namespace BB
namespace Parse

/-! ### Characters of tokens (finite case analysis, by evaluation) -/

set_option maxRecDepth 4000 in
theorem natDigits_lt10 : ∀ c, c < 10 → natDigits c = [Char.ofNat (48 + c)] := by decide

theorem digit_facts : ∀ c, c < 10 →
    (Char.ofNat (48 + c)).isDigit = true ∧ (Char.ofNat (48 + c)).toNat - 48 = c ∧
    Char.ofNat (48 + c) ≠ ' ' ∧ Char.ofNat (48 + c) ≠ '.' ∧
    isWs (Char.ofNat (48 + c)) = false := by decide

theorem letter_facts : ∀ q, q < 26 →
    (Char.ofNat (65 + q)).toNat % 256 = 65 + q ∧
    Char.ofNat (65 + q) ≠ ' ' ∧ Char.ofNat (65 + q) ≠ '.' ∧
    isWs (Char.ofNat (65 + q)) = false := by decide

theorem shift_facts (sh : Bool) :
    (if sh then 'R' else 'L') ≠ ' ' ∧ (if sh then 'R' else 'L') ≠ '.' ∧
    readShift (if sh then 'R' else 'L') = sh := by
  cases sh <;> decide

theorem readColor_digit (c : Nat) (hc : c < 10) : readColor (Char.ofNat (48 + c)) = .ok c := by
  have h := digit_facts c hc
  simp only [readColor, h.1, h.2.1, if_true]

theorem readState_letter (q : Nat) (hq : q < 26) : readState (Char.ofNat (65 + q)) = .ok q := by
  have h := letter_facts q hq
  simp only [readState, h.1]
  rw [if_neg (by omega)]
  congr 1
  omega

theorem showState_letter (q : Nat) (hq : q < 26) : showState q = .ok (Char.ofNat (65 + q)) := by
  simp only [showState]
  have h1 : q % 256 = q := Nat.mod_eq_of_lt (by omega)
  rw [h1, if_neg (by omega), Nat.add_comm]

/-! ### Tokens -/

/-- a table cell is printable in three characters -/
def GoodCell : Option Instr → Prop
  | none => True
  | some (c, _, q) => c < 10 ∧ q < 26

/-- the three-character token of a cell -/
def tok : Option Instr → List Char
  | none => ['.', '.', '.']
  | some (co, sh, q) => [Char.ofNat (48 + co), if sh then 'R' else 'L', Char.ofNat (65 + q)]

theorem showInstr_good (x : Option Instr) (h : GoodCell x) : showInstr x = .ok (tok x) := by
  rcases x with _ | ⟨c, sh, q⟩
  · rfl
  · simp only [GoodCell] at h
    simp only [showInstr, showState_letter q h.2, natDigits_lt10 c h.1, tok, List.cons_append,
      List.nil_append]

theorem readInstr_tok (x : Option Instr) (h : GoodCell x) : readInstr (tok x) = .ok x := by
  rcases x with _ | ⟨c, sh, q⟩
  · rfl
  · simp only [GoodCell] at h
    have hd := digit_facts c h.1
    have hl := letter_facts q h.2
    have hs := shift_facts sh
    have hnc : (tok (some (c, sh, q))).contains '.' = false := by
      simp only [tok, List.contains_cons, List.contains_nil, Bool.or_false, Bool.or_eq_false_iff,
        beq_eq_false_iff_ne, ne_eq]
      exact ⟨fun e => hd.2.2.2.1 e.symm, fun e => hs.2.1 e.symm, fun e => hl.2.2.1 e.symm⟩
    simp only [readInstr, hnc, Bool.false_eq_true, if_false]
    simp only [tok, readColor_digit c h.1, readState_letter q h.2, hs.2.2]

theorem tok_no_space (x : Option Instr) (h : GoodCell x) : ∀ ch ∈ tok x, ch ≠ ' ' := by
  rcases x with _ | ⟨c, sh, q⟩
  · decide
  · simp only [GoodCell] at h
    have hd := digit_facts c h.1
    have hl := letter_facts q h.2
    have hs := shift_facts sh
    intro ch hch
    simp only [tok, List.mem_cons, List.not_mem_nil, or_false] at hch
    rcases hch with rfl | rfl | rfl
    · exact hd.2.2.1
    · exact hs.1
    · exact hl.2.1

theorem tok_ne_nil (x : Option Instr) : tok x ≠ [] := by
  rcases x with _ | ⟨c, sh, q⟩ <;> simp [tok]

theorem tok_head (x : Option Instr) (h : GoodCell x) :
    ∃ a s, tok x = a :: s ∧ isWs a = false := by
  rcases x with _ | ⟨c, sh, q⟩
  · exact ⟨'.', ['.', '.'], rfl, by decide⟩
  · simp only [GoodCell] at h
    exact ⟨_, _, rfl, (digit_facts c h.1).2.2.2.2⟩

theorem tok_last (x : Option Instr) (h : GoodCell x) :
    ∃ a, (tok x).getLast? = some a ∧ isWs a = false := by
  rcases x with _ | ⟨c, sh, q⟩
  · exact ⟨'.', rfl, by decide⟩
  · simp only [GoodCell] at h
    exact ⟨_, rfl, (letter_facts q h.2).2.2.2⟩

/-! ### joinWith -/

theorem joinWith_cons_cons (sep x y : List Char) (xs : List (List Char)) :
    joinWith sep (x :: y :: xs) = x ++ sep ++ joinWith sep (y :: xs) := rfl

theorem joinWith_head? (sep x : List Char) (xs : List (List Char)) (hx : x ≠ []) :
    (joinWith sep (x :: xs)).head? = x.head? := by
  rcases x with _ | ⟨a, s⟩
  · exact absurd rfl hx
  · cases xs <;> rfl

theorem joinWith_ne_nil (sep : List Char) (xs : List (List Char)) (hne : xs ≠ [])
    (h : ∀ x ∈ xs, x ≠ []) : joinWith sep xs ≠ [] := by
  rcases xs with _ | ⟨x, xs⟩
  · exact absurd rfl hne
  · have hx : x ≠ [] := h x (List.mem_cons_self ..)
    intro e
    have := joinWith_head? sep x xs hx
    rw [e] at this
    rcases x with _ | ⟨a, s⟩
    · exact hx rfl
    · simp at this

theorem joinWith_getLast? (sep : List Char) (xs : List (List Char)) (hne : xs ≠ [])
    (h : ∀ x ∈ xs, x ≠ []) :
    (joinWith sep xs).getLast? = (xs.getLast hne).getLast? := by
  induction xs with
  | nil => exact absurd rfl hne
  | cons x xs ih =>
    rcases xs with _ | ⟨y, ys⟩
    · rfl
    · have h' : ∀ z ∈ y :: ys, z ≠ [] := fun z hz => h z (List.mem_cons_of_mem _ hz)
      have hn : joinWith sep (y :: ys) ≠ [] := joinWith_ne_nil sep _ (by simp) h'
      obtain ⟨b, hb⟩ : ∃ b, (joinWith sep (y :: ys)).getLast? = some b := by
        rcases hj : joinWith sep (y :: ys) with _ | ⟨a, s⟩
        · exact absurd hj hn
        · exact ⟨_, List.getLast?_eq_some_getLast (by simp)⟩
      rw [joinWith_cons_cons, List.getLast?_append, hb, Option.some_or, ← hb, ih (by simp) h']
      rfl

/-! ### splitOne -/

theorem splitOne_go_end (t cur : List Char) (h : ∀ ch ∈ t, ch ≠ ' ') :
    splitOne.go cur t = [cur.reverse ++ t] := by
  induction t generalizing cur with
  | nil => simp [splitOne.go]
  | cons a t ih =>
    have ha : (a == ' ') = false := by simpa using h a (List.mem_cons_self ..)
    simp only [splitOne.go, ha, Bool.false_eq_true, if_false]
    rw [ih _ (fun ch hch => h ch (List.mem_cons_of_mem _ hch))]
    simp

theorem splitOne_go_sep (t cur rest : List Char) (h : ∀ ch ∈ t, ch ≠ ' ') :
    splitOne.go cur (t ++ ' ' :: rest) = (cur.reverse ++ t) :: splitOne.go [] rest := by
  induction t generalizing cur with
  | nil => simp [splitOne.go]
  | cons a t ih =>
    have ha : (a == ' ') = false := by simpa using h a (List.mem_cons_self ..)
    simp only [List.cons_append, splitOne.go, ha, Bool.false_eq_true, if_false]
    rw [ih _ (fun ch hch => h ch (List.mem_cons_of_mem _ hch))]
    simp

/-- splitting a single-space join of space-free tokens gives the tokens back -/
theorem splitOne_joinWith (toks : List (List Char)) (hne : toks ≠ [])
    (h : ∀ t ∈ toks, ∀ ch ∈ t, ch ≠ ' ') : splitOne (joinWith [' '] toks) = toks := by
  induction toks with
  | nil => exact absurd rfl hne
  | cons t ts ih =>
    rcases ts with _ | ⟨u, us⟩
    · simp only [joinWith, splitOne]
      rw [splitOne_go_end _ _ (h t (List.mem_cons_self ..))]
      rfl
    · have ih' := ih (by simp) (fun t ht => h t (List.mem_cons_of_mem _ ht))
      simp only [splitOne] at ih' ⊢
      rw [joinWith_cons_cons, List.append_assoc, List.singleton_append,
        splitOne_go_sep _ _ _ (h t (List.mem_cons_self ..)), ih']
      rfl

/-! ### splitTwo -/

/-- no two consecutive spaces, and no space at the end -/
def ssOk : List Char → Bool
  | [] => true
  | [c] => c != ' '
  | c :: d :: cs => !(c == ' ' && d == ' ') && ssOk (d :: cs)

theorem splitTwo_go_end (r cur : List Char) (h : ssOk r = true) :
    splitTwo.go cur r = [cur.reverse ++ r] := by
  induction r generalizing cur with
  | nil => simp [splitTwo.go]
  | cons c r ih =>
    rcases r with _ | ⟨d, cs⟩
    · simp [splitTwo.go]
    · simp only [ssOk, Bool.and_eq_true, Bool.not_eq_true'] at h
      simp only [splitTwo.go, h.1, Bool.false_eq_true, if_false]
      rw [ih _ h.2]
      simp

theorem splitTwo_go_sep (r cur rest : List Char) (h : ssOk r = true) :
    splitTwo.go cur (r ++ ' ' :: ' ' :: rest) = (cur.reverse ++ r) :: splitTwo.go [] rest := by
  induction r generalizing cur with
  | nil => simp [splitTwo.go]
  | cons c r ih =>
    rcases r with _ | ⟨d, cs⟩
    · have hc : (c == ' ') = false := by simpa [ssOk] using h
      have := ih (c :: cur) rfl
      simp only [List.nil_append] at this
      show splitTwo.go cur (c :: ' ' :: ' ' :: rest) = _
      rw [splitTwo.go]
      simp only [hc, Bool.false_and, Bool.false_eq_true, if_false]
      rw [this]
      simp
    · simp only [ssOk, Bool.and_eq_true, Bool.not_eq_true'] at h
      have := ih (c :: cur) h.2
      simp only [List.cons_append] at this
      simp only [List.cons_append, splitTwo.go, h.1, Bool.false_eq_true, if_false]
      rw [this]
      simp

/-- splitting a double-space join of single-spaced rows gives the rows back -/
theorem splitTwo_joinWith (rows : List (List Char)) (hne : rows ≠ [])
    (h : ∀ r ∈ rows, ssOk r = true) : splitTwo (joinWith [' ', ' '] rows) = rows := by
  induction rows with
  | nil => exact absurd rfl hne
  | cons t ts ih =>
    rcases ts with _ | ⟨u, us⟩
    · simp only [joinWith, splitTwo]
      rw [splitTwo_go_end _ _ (h t (List.mem_cons_self ..))]
      rfl
    · have ih' := ih (by simp) (fun t ht => h t (List.mem_cons_of_mem _ ht))
      simp only [splitTwo] at ih' ⊢
      rw [joinWith_cons_cons, List.append_assoc]
      show splitTwo.go [] (t ++ ' ' :: ' ' :: joinWith [' ', ' '] (u :: us)) = _
      rw [splitTwo_go_sep _ _ _ (h t (List.mem_cons_self ..)), ih']
      rfl

theorem ssOk_of_no_space (t : List Char) (h : ∀ ch ∈ t, ch ≠ ' ') : ssOk t = true := by
  induction t with
  | nil => rfl
  | cons a t ih =>
    have ha : a ≠ ' ' := h a (List.mem_cons_self ..)
    have := ih (fun ch hch => h ch (List.mem_cons_of_mem _ hch))
    rcases t with _ | ⟨d, cs⟩
    · simp [ssOk, ha]
    · simp [ssOk, ha, this]

theorem ssOk_tok_space (t : List Char) (c : Char) (s : List Char) (h : ∀ ch ∈ t, ch ≠ ' ')
    (hc : c ≠ ' ') (hs : ssOk (c :: s) = true) : ssOk (t ++ ' ' :: c :: s) = true := by
  induction t with
  | nil =>
    show ssOk (' ' :: c :: s) = true
    rw [ssOk, hs]
    simp [hc]
  | cons a t ih =>
    have ha : a ≠ ' ' := h a (List.mem_cons_self ..)
    have := ih (fun ch hch => h ch (List.mem_cons_of_mem _ hch))
    rcases t with _ | ⟨d, cs⟩
    · simp only [List.nil_append] at this
      show ssOk (a :: ' ' :: c :: s) = true
      rw [ssOk, this]
      simp [ha]
    · simp only [List.cons_append] at this
      show ssOk (a :: d :: (cs ++ ' ' :: c :: s)) = true
      rw [ssOk, this]
      simp [ha]

/-- a single-space join of non-empty space-free tokens is single-spaced and starts with a
    non-space -/
theorem ssOk_joinWith (toks : List (List Char)) (hne : toks ≠ [])
    (h : ∀ t ∈ toks, t ≠ [] ∧ ∀ ch ∈ t, ch ≠ ' ') :
    ∃ c s, joinWith [' '] toks = c :: s ∧ c ≠ ' ' ∧ ssOk (c :: s) = true := by
  induction toks with
  | nil => exact absurd rfl hne
  | cons t ts ih =>
    have ht := h t (List.mem_cons_self ..)
    rcases t with _ | ⟨a, t'⟩
    · exact absurd rfl ht.1
    have ha : a ≠ ' ' := ht.2 a (List.mem_cons_self ..)
    rcases ts with _ | ⟨u, us⟩
    · exact ⟨a, t', rfl, ha, ssOk_of_no_space _ ht.2⟩
    · obtain ⟨c, s, e, hc, hs⟩ := ih (by simp) (fun t ht => h t (List.mem_cons_of_mem _ ht))
      refine ⟨a, t' ++ ' ' :: c :: s, ?_, ha, ?_⟩
      · rw [joinWith_cons_cons, e]; simp
      · have := ssOk_tok_space (a :: t') c s ht.2 hc hs
        simpa using this

/-! ### trimChars -/

theorem trimL_of_head (a : Char) (s : List Char) (h : isWs a = false) : trimL (a :: s) = a :: s := by
  simp [trimL, h]

theorem trimChars_of_ends (s : List Char) (a b : Char) (ha : s.head? = some a)
    (hb : s.getLast? = some b) (hwa : isWs a = false) (hwb : isWs b = false) :
    trimChars s = s := by
  rcases s with _ | ⟨a', s'⟩
  · simp at ha
  · simp only [List.head?_cons, Option.some.injEq] at ha
    subst ha
    simp only [trimChars, trimL_of_head _ _ hwa]
    have : ((a' :: s').reverse).head? = some b := by rw [List.head?_reverse]; exact hb
    rcases hr : (a' :: s').reverse with _ | ⟨b', r'⟩
    · simp at hr
    · rw [hr] at this
      simp only [List.head?_cons, Option.some.injEq] at this
      subst this
      rw [trimL_of_head _ _ hwb, ← hr, List.reverse_reverse]

/-! ### Prog.get after Prog.insert -/

theorem slot_beq_self (s : Slot) : (s.1 == s.1 && s.2 == s.2) = true := by simp

theorem slot_beq_false {s s' : Slot} (h : s ≠ s') : (s.1 == s'.1 && s.2 == s'.2) = false := by
  rcases s with ⟨a, b⟩
  rcases s' with ⟨a', b'⟩
  cases hb : (a == a' && b == b')
  · rfl
  · simp only [Bool.and_eq_true, beq_iff_eq] at hb
    exact absurd (by rw [hb.1, hb.2]) h

theorem slot_of_beq {k s : Slot} (h : (k.1 == s.1 && k.2 == s.2) = true) : k = s := by
  rcases k with ⟨a, b⟩
  rcases s with ⟨a', b'⟩
  simp only [Bool.and_eq_true, beq_iff_eq] at h
  rw [h.1, h.2]

theorem get_insert_same (p : Prog) (s : Slot) (i : Instr) : (p.insert s i).get s = some i := by
  induction p with
  | nil => simp [Prog.insert, Prog.get]
  | cons kv rest ih =>
    rcases kv with ⟨k, v⟩
    simp only [Prog.insert]
    split
    · simp [Prog.get]
    · split
      · simp [Prog.get]
      · rename_i h1 _
        simp only [Prog.get, h1]
        exact ih

theorem get_insert_other (p : Prog) (s s' : Slot) (i : Instr) (hne : s ≠ s') :
    (p.insert s i).get s' = p.get s' := by
  have hne' := slot_beq_false hne
  induction p with
  | nil => simp [Prog.insert, Prog.get, hne']
  | cons kv rest ih =>
    rcases kv with ⟨k, v⟩
    simp only [Prog.insert]
    split
    · rename_i h1
      have hk : k = s := slot_of_beq h1
      subst hk
      simp only [Prog.get, hne', Bool.false_eq_true, if_false]
    · split
      · simp only [Prog.get, hne', Bool.false_eq_true, if_false]
      · simp only [Prog.get, ih]

/-! ### parseRow / parseRows on token rows -/

/-- what `parseRow` does to the accumulator, on a row of cells -/
def insertRow (st : Nat) : List (Option Instr) → Nat → Prog → Prog
  | [], _, acc => acc
  | none :: r, co, acc => insertRow st r (co + 1) acc
  | some i :: r, co, acc => insertRow st r (co + 1) (acc.insert (st, co) i)

def insertRows : List (List (Option Instr)) → Nat → Prog → Prog
  | [], _, acc => acc
  | r :: rs, st, acc => insertRows rs (st + 1) (insertRow st r 0 acc)

def rowText (r : List (Option Instr)) : List Char := joinWith [' '] (r.map tok)

def tableText (rows : List (List (Option Instr))) : List Char :=
  joinWith [' ', ' '] (rows.map rowText)

theorem parseRow_toks (st : Nat) (r : List (Option Instr)) (co : Nat) (acc : Prog)
    (h : ∀ c ∈ r, GoodCell c) : parseRow st (r.map tok) co acc = .ok (insertRow st r co acc) := by
  induction r generalizing co acc with
  | nil => rfl
  | cons x r ih =>
    have hx := readInstr_tok x (h x (List.mem_cons_self ..))
    have ih' := fun co acc => ih co acc (fun c hc => h c (List.mem_cons_of_mem _ hc))
    rcases x with _ | i
    · simp only [List.map_cons, parseRow, hx, insertRow, ih']
    · simp only [List.map_cons, parseRow, hx, insertRow, ih']

theorem get_insertRow (st : Nat) (r : List (Option Instr)) (co : Nat) (acc : Prog) (i j : Nat) :
    (insertRow st r co acc).get (i, j) =
      if i = st ∧ co ≤ j then (r.getD (j - co) none).or (acc.get (i, j)) else acc.get (i, j) := by
  induction r generalizing co acc with
  | nil => simp [insertRow]
  | cons x r ih =>
    rcases x with _ | v
    · simp only [insertRow, ih]
      by_cases h1 : i = st ∧ co + 1 ≤ j
      · have h2 : i = st ∧ co ≤ j := ⟨h1.1, by omega⟩
        have h3 : j - co = (j - (co + 1)) + 1 := by omega
        rw [if_pos h1, if_pos h2, h3, List.getD_cons_succ]
      · rw [if_neg h1]
        by_cases h2 : i = st ∧ co ≤ j
        · have h3 : j - co = 0 := by omega
          rw [if_pos h2, h3, List.getD_cons_zero, Option.none_or]
        · rw [if_neg h2]
    · simp only [insertRow, ih]
      by_cases h1 : i = st ∧ co + 1 ≤ j
      · have h2 : i = st ∧ co ≤ j := ⟨h1.1, by omega⟩
        have h3 : j - co = (j - (co + 1)) + 1 := by omega
        have hne : (st, co) ≠ (i, j) := by
          intro e; injection e with e1 e2; omega
        rw [if_pos h1, if_pos h2, h3, List.getD_cons_succ, get_insert_other _ _ _ _ hne]
      · rw [if_neg h1]
        by_cases h2 : i = st ∧ co ≤ j
        · have h3 : j - co = 0 := by omega
          have he : (i, j) = (st, co) := by rw [h2.1]; congr 1; omega
          rw [if_pos h2, h3, List.getD_cons_zero, Option.some_or, he, get_insert_same]
        · have hne : (st, co) ≠ (i, j) := by
            intro e; injection e with e1 e2; omega
          rw [if_neg h2, get_insert_other _ _ _ _ hne]

theorem get_insertRows (rows : List (List (Option Instr))) (st : Nat) (acc : Prog) (i j : Nat) :
    (insertRows rows st acc).get (i, j) =
      if st ≤ i then ((rows.getD (i - st) []).getD j none).or (acc.get (i, j))
      else acc.get (i, j) := by
  induction rows generalizing st acc with
  | nil => simp [insertRows]
  | cons r rs ih =>
    simp only [insertRows, ih, get_insertRow]
    by_cases h1 : st + 1 ≤ i
    · have h2 : st ≤ i := by omega
      have h3 : i - st = (i - (st + 1)) + 1 := by omega
      have h4 : ¬(i = st ∧ 0 ≤ j) := by omega
      rw [if_pos h1, if_pos h2, if_neg h4, h3, List.getD_cons_succ]
    · rw [if_neg h1]
      by_cases h2 : st ≤ i
      · have h3 : i - st = 0 := by omega
        have h4 : i = st ∧ 0 ≤ j := by omega
        rw [if_pos h2, if_pos h4, h3, List.getD_cons_zero, Nat.sub_zero]
      · have h4 : ¬(i = st ∧ 0 ≤ j) := by omega
        rw [if_neg h2, if_neg h4]

theorem splitOne_rowText (r : List (Option Instr)) (hne : r ≠ []) (h : ∀ c ∈ r, GoodCell c) :
    splitOne (rowText r) = r.map tok := by
  apply splitOne_joinWith
  · simpa using hne
  · intro t ht
    obtain ⟨c, hc, rfl⟩ := List.mem_map.1 ht
    exact tok_no_space c (h c hc)

theorem parseRows_rows (rows : List (List (Option Instr))) (st : Nat) (acc : Prog)
    (h : ∀ r ∈ rows, r ≠ [] ∧ ∀ c ∈ r, GoodCell c) :
    parseRows (rows.map rowText) st acc = .ok (insertRows rows st acc) := by
  induction rows generalizing st acc with
  | nil => rfl
  | cons r rs ih =>
    have hr := h r (List.mem_cons_self ..)
    simp only [List.map_cons, parseRows, splitOne_rowText r hr.1 hr.2,
      parseRow_toks st r 0 acc hr.2, insertRows]
    exact ih _ _ (fun r hr => h r (List.mem_cons_of_mem _ hr))

/-! ### ends of the text: nothing to trim -/

/-- first and last characters exist and are not whitespace -/
def CleanEnds (s : List Char) : Prop :=
  ∃ a b, s.head? = some a ∧ s.getLast? = some b ∧ isWs a = false ∧ isWs b = false

theorem CleanEnds.ne_nil {s : List Char} (h : CleanEnds s) : s ≠ [] := by
  obtain ⟨a, b, ha, _⟩ := h
  intro e; rw [e] at ha; simp at ha

theorem CleanEnds.trim {s : List Char} (h : CleanEnds s) : trimChars s = s := by
  obtain ⟨a, b, ha, hb, hwa, hwb⟩ := h
  exact trimChars_of_ends s a b ha hb hwa hwb

theorem cleanEnds_joinWith (sep : List Char) (xs : List (List Char)) (hne : xs ≠ [])
    (h : ∀ x ∈ xs, CleanEnds x) : CleanEnds (joinWith sep xs) := by
  have hnn : ∀ x ∈ xs, x ≠ [] := fun x hx => (h x hx).ne_nil
  obtain ⟨_, b, _, hb, _, hwb⟩ := h _ (List.getLast_mem hne)
  rcases xs with _ | ⟨x, rest⟩
  · exact absurd rfl hne
  · obtain ⟨a, _, ha, _, hwa, _⟩ := h x (List.mem_cons_self ..)
    refine ⟨a, b, ?_, ?_, hwa, hwb⟩
    · rw [joinWith_head? sep x rest (hnn x (List.mem_cons_self ..))]; exact ha
    · rw [joinWith_getLast? sep _ hne hnn]; exact hb

theorem cleanEnds_tok (x : Option Instr) (h : GoodCell x) : CleanEnds (tok x) := by
  obtain ⟨a, s, e, hwa⟩ := tok_head x h
  obtain ⟨b, hb, hwb⟩ := tok_last x h
  exact ⟨a, b, by rw [e]; rfl, hb, hwa, hwb⟩

theorem cleanEnds_rowText (r : List (Option Instr)) (hne : r ≠ []) (h : ∀ c ∈ r, GoodCell c) :
    CleanEnds (rowText r) := by
  apply cleanEnds_joinWith
  · simpa using hne
  · intro t ht
    obtain ⟨c, hc, rfl⟩ := List.mem_map.1 ht
    exact cleanEnds_tok c (h c hc)

theorem cleanEnds_tableText (rows : List (List (Option Instr))) (hne : rows ≠ [])
    (h : ∀ r ∈ rows, r ≠ [] ∧ ∀ c ∈ r, GoodCell c) : CleanEnds (tableText rows) := by
  apply cleanEnds_joinWith
  · simpa using hne
  · intro t ht
    obtain ⟨r, hr, rfl⟩ := List.mem_map.1 ht
    exact cleanEnds_rowText r (h r hr).1 (h r hr).2

theorem ssOk_rowText (r : List (Option Instr)) (hne : r ≠ []) (h : ∀ c ∈ r, GoodCell c) :
    ssOk (rowText r) = true := by
  obtain ⟨c, s, e, _, hs⟩ := ssOk_joinWith (r.map tok) (by simpa using hne) (by
    intro t ht
    obtain ⟨c, hc, rfl⟩ := List.mem_map.1 ht
    exact ⟨tok_ne_nil c, tok_no_space c (h c hc)⟩)
  rw [rowText, e]; exact hs

/-- **the parser on a table text** -/
theorem fromChars_tableText (rows : List (List (Option Instr))) (hne : rows ≠ [])
    (h : ∀ r ∈ rows, r ≠ [] ∧ ∀ c ∈ r, GoodCell c) :
    Prog.fromChars (tableText rows) = .ok (insertRows rows 0 []) := by
  have hsplit : splitTwo (tableText rows) = rows.map rowText := by
    apply splitTwo_joinWith
    · simpa using hne
    · intro t ht
      obtain ⟨r, hr, rfl⟩ := List.mem_map.1 ht
      exact ssOk_rowText r (h r hr).1 (h r hr).2
  rw [Prog.fromChars, (cleanEnds_tableText rows hne h).trim, hsplit]
  exact parseRows_rows rows 0 [] h

theorem get_parsed (rows : List (List (Option Instr))) (i j : Nat) :
    (insertRows rows 0 []).get (i, j) = (rows.getD i []).getD j none := by
  rw [get_insertRows]
  simp [Prog.get]

/-! ### mapM' and the printer -/

theorem mapM'_ok {α β : Type} (f : α → PRes β) (g : α → β) (l : List α)
    (h : ∀ x ∈ l, f x = .ok (g x)) : mapM' f l = .ok (l.map g) := by
  induction l with
  | nil => rfl
  | cons x xs ih =>
    simp only [mapM', h x (List.mem_cons_self ..),
      ih (fun y hy => h y (List.mem_cons_of_mem _ hy)), List.map_cons]

theorem map_range_getD {α β : Type} (l : List α) (d : α) (g : α → β) :
    (List.range l.length).map (fun j => g (l.getD j d)) = l.map g := by
  apply List.ext_getElem
  · simp
  · intro n h1 h2
    simp only [List.length_map, List.length_range] at h1
    simp [List.getD_eq_getElem?_getD, h1]

theorem good_getD (rows : List (List (Option Instr))) (h : ∀ r ∈ rows, ∀ c ∈ r, GoodCell c)
    (i j : Nat) : GoodCell ((rows.getD i []).getD j none) := by
  rcases hi : rows[i]? with _ | r
  · have : rows.getD i [] = [] := by rw [List.getD_eq_getElem?_getD, hi]; rfl
    rw [this]; trivial
  · have hr : r ∈ rows := List.mem_of_getElem? hi
    have : rows.getD i [] = r := by rw [List.getD_eq_getElem?_getD, hi]; rfl
    rw [this]
    rcases hj : r[j]? with _ | c
    · have : r.getD j none = none := by rw [List.getD_eq_getElem?_getD, hj]; rfl
      rw [this]; trivial
    · have : r.getD j none = c := by rw [List.getD_eq_getElem?_getD, hj]; rfl
      rw [this]; exact h r hr c (List.mem_of_getElem? hj)

/-- **the printer on a program that holds exactly the table** -/
theorem showChars_of_get (p : Prog) (rows : List (List (Option Instr))) (S C : Nat)
    (hS : rows.length = S) (h : ∀ r ∈ rows, r.length = C ∧ ∀ c ∈ r, GoodCell c)
    (hget : ∀ i j, p.get (i, j) = (rows.getD i []).getD j none) :
    p.showChars (some (S, C)) = .ok (tableText rows) := by
  have hgood := good_getD rows (fun r hr => (h r hr).2)
  simp only [Prog.showChars, Option.getD_some]
  rw [mapM'_ok (g := fun st => rowText (rows.getD st []))]
  · rw [← hS, map_range_getD]
    rfl
  · intro st hst
    have hst' : st < rows.length := by rw [hS]; exact List.mem_range.1 hst
    have hmem : rows.getD st [] ∈ rows := by
      rw [List.getD_eq_getElem?_getD, List.getElem?_eq_getElem hst']
      exact List.getElem_mem hst'
    have hlen : (rows.getD st []).length = C := (h _ hmem).1
    rw [mapM'_ok (g := fun co => tok ((rows.getD st []).getD co none))]
    · rw [← hlen, map_range_getD]
      rfl
    · intro co _
      rw [hget]
      exact showInstr_good _ (hgood st co)

/-- **everything about a well-formed table at once**: the parser succeeds on its text, the parsed
    program holds exactly the table, and printing it with the table size gives the text back.
    (`ok` is the caller's cell predicate; the size bounds `S ≤ 26`, `C ≤ 10` are not needed once
    every cell is printable.) -/
theorem table_roundtrip (rows : List (List (Option Instr))) (S C : Nat)
    (ok : Option Instr → Prop) (hok : ∀ c, ok c → GoodCell c)
    (h : 0 < S ∧ 0 < C ∧ S ≤ 26 ∧ C ≤ 10 ∧ rows.length = S ∧
      (∀ r ∈ rows, r.length = C ∧ ∀ c ∈ r, ok c)) :
    Prog.fromChars (tableText rows) = .ok (insertRows rows 0 []) ∧
    (∀ i j, (insertRows rows 0 []).get (i, j) = (rows.getD i []).getD j none) ∧
    (insertRows rows 0 []).showChars (some (S, C)) = .ok (tableText rows) := by
  obtain ⟨hS, hC, _, _, hlen, hrows⟩ := h
  have hne : rows ≠ [] := by
    intro e; rw [e] at hlen; simp at hlen; omega
  have hr1 : ∀ r ∈ rows, r ≠ [] ∧ ∀ c ∈ r, GoodCell c := by
    intro r hr
    refine ⟨?_, fun c hc => hok c ((hrows r hr).2 c hc)⟩
    intro e
    have := (hrows r hr).1
    rw [e] at this; simp at this; omega
  have hr2 : ∀ r ∈ rows, r.length = C ∧ ∀ c ∈ r, GoodCell c :=
    fun r hr => ⟨(hrows r hr).1, (hr1 r hr).2⟩
  exact ⟨fromChars_tableText rows hne hr1, get_parsed rows,
    showChars_of_get _ rows S C hlen hr2 (get_parsed rows)⟩

/-! ### strictly sorted association lists (the BTreeMap invariant) -/

/-- keys strictly increasing in the lexicographic order -/
abbrev Sorted (p : Prog) : Prop := List.Pairwise (fun a b => slotLt a.1 b.1 = true) p

theorem slotLt_iff (a b : Slot) :
    slotLt a b = true ↔ a.1 < b.1 ∨ (a.1 = b.1 ∧ a.2 < b.2) := by
  simp [slotLt]

theorem slotLt_trans {a b c : Slot} (h1 : slotLt a b = true) (h2 : slotLt b c = true) :
    slotLt a c = true := by
  simp only [slotLt_iff] at *
  omega

theorem slotLt_irrefl (a : Slot) : ¬ slotLt a a = true := by
  simp only [slotLt_iff]
  omega

theorem slotLt_tri (a b : Slot) : slotLt a b = true ∨ a = b ∨ slotLt b a = true := by
  rcases a with ⟨a1, a2⟩
  rcases b with ⟨b1, b2⟩
  simp only [slotLt_iff, Prod.mk.injEq]
  omega

theorem mem_insert {p : Prog} {s : Slot} {i : Instr} {b : Slot × Instr}
    (h : b ∈ p.insert s i) : b = (s, i) ∨ b ∈ p := by
  induction p with
  | nil => simpa [Prog.insert] using h
  | cons kv rest ih =>
    rcases kv with ⟨k, v⟩
    simp only [Prog.insert] at h
    split at h
    · rcases List.mem_cons.1 h with e | hm
      · exact Or.inl e
      · exact Or.inr (List.mem_cons_of_mem _ hm)
    · split at h
      · rcases List.mem_cons.1 h with e | hm
        · exact Or.inl e
        · exact Or.inr hm
      · rcases List.mem_cons.1 h with e | hm
        · exact Or.inr (e ▸ List.mem_cons_self ..)
        · rcases ih hm with e | hm'
          · exact Or.inl e
          · exact Or.inr (List.mem_cons_of_mem _ hm')

theorem sorted_insert (p : Prog) (s : Slot) (i : Instr) (hp : Sorted p) :
    Sorted (p.insert s i) := by
  induction p with
  | nil => simp [Prog.insert, Sorted]
  | cons kv rest ih =>
    rcases kv with ⟨k, v⟩
    have hp1 := List.pairwise_cons.1 hp
    simp only [Prog.insert]
    split
    · rename_i h1
      have hk : k = s := slot_of_beq h1
      subst hk
      exact List.pairwise_cons.2 ⟨hp1.1, hp1.2⟩
    · split
      · rename_i _ h2
        refine List.pairwise_cons.2 ⟨?_, hp⟩
        intro b hb
        rcases List.mem_cons.1 hb with e | hm
        · rw [e]; exact h2
        · exact slotLt_trans h2 (hp1.1 b hm)
      · rename_i h1 h2
        have hks : slotLt k s = true := by
          rcases slotLt_tri k s with h | h | h
          · exact h
          · subst h; simp at h1
          · exact absurd h h2
        refine List.pairwise_cons.2 ⟨?_, ih hp1.2⟩
        intro b hb
        rcases mem_insert hb with e | hm
        · rw [e]; exact hks
        · exact hp1.1 b hm

theorem get_some_mem {p : Prog} {s : Slot} {v : Instr} (h : p.get s = some v) : (s, v) ∈ p := by
  induction p with
  | nil => simp [Prog.get] at h
  | cons kv rest ih =>
    rcases kv with ⟨k, w⟩
    simp only [Prog.get] at h
    split at h
    · rename_i h1
      have hk : k = s := slot_of_beq h1
      injection h with hv
      rw [hk, hv]
      exact List.mem_cons_self ..
    · exact List.mem_cons_of_mem _ (ih h)

theorem get_none_of_forall_ne {p : Prog} {s : Slot} (h : ∀ kv ∈ p, kv.1 ≠ s) : p.get s = none := by
  rcases hg : p.get s with _ | v
  · rfl
  · exact absurd rfl (h _ (get_some_mem hg))

theorem get_none_of_all_gt {p : Prog} {s : Slot} (h : ∀ kv ∈ p, slotLt s kv.1 = true) :
    p.get s = none := by
  apply get_none_of_forall_ne
  intro kv hkv e
  have := h kv hkv
  rw [e] at this
  exact slotLt_irrefl s this

theorem get_head (k : Slot) (v : Instr) (rest : Prog) : Prog.get ((k, v) :: rest) k = some v := by
  simp [Prog.get]

theorem get_cons_ne {k s : Slot} (v : Instr) (rest : Prog) (h : k ≠ s) :
    Prog.get ((k, v) :: rest) s = Prog.get rest s := by
  simp only [Prog.get, slot_beq_false h, Bool.false_eq_true, if_false]

/-- two strictly sorted association lists with the same lookups are the same list -/
theorem sorted_ext (p q : Prog) (hp : Sorted p) (hq : Sorted q)
    (h : ∀ s, p.get s = q.get s) : p = q := by
  induction p generalizing q with
  | nil =>
    rcases q with _ | ⟨⟨k, v⟩, q'⟩
    · rfl
    · have := h k
      rw [get_head] at this
      simp [Prog.get] at this
  | cons kv p' ih =>
    rcases kv with ⟨k, v⟩
    rcases q with _ | ⟨⟨k', v'⟩, q'⟩
    · have := h k
      rw [get_head] at this
      simp [Prog.get] at this
    · have hp1 := List.pairwise_cons.1 hp
      have hq1 := List.pairwise_cons.1 hq
      have hk : k = k' := by
        rcases slotLt_tri k k' with hlt | he | hgt
        · have hn : Prog.get ((k', v') :: q') k = none := by
            apply get_none_of_all_gt
            intro kv hkv
            rcases List.mem_cons.1 hkv with e | hm
            · rw [e]; exact hlt
            · exact slotLt_trans hlt (hq1.1 kv hm)
          have h2 := h k
          rw [get_head, hn] at h2
          cases h2
        · exact he
        · have hn : Prog.get ((k, v) :: p') k' = none := by
            apply get_none_of_all_gt
            intro kv hkv
            rcases List.mem_cons.1 hkv with e | hm
            · rw [e]; exact hgt
            · exact slotLt_trans hgt (hp1.1 kv hm)
          have h2 := h k'
          rw [get_head, hn] at h2
          cases h2
      subst hk
      have hv : v = v' := by
        have := h k
        rw [get_head, get_head] at this
        injection this
      subst hv
      congr 1
      apply ih q' hp1.2 hq1.2
      intro s
      by_cases hs : k = s
      · subst hs
        rw [get_none_of_all_gt hp1.1, get_none_of_all_gt hq1.1]
      · have := h s
        rwa [get_cons_ne _ _ hs, get_cons_ne _ _ hs] at this

theorem sorted_insertRow (st : Nat) (r : List (Option Instr)) (co : Nat) (acc : Prog)
    (h : Sorted acc) : Sorted (insertRow st r co acc) := by
  induction r generalizing co acc with
  | nil => exact h
  | cons x r ih =>
    rcases x with _ | v
    · exact ih _ _ h
    · exact ih _ _ (sorted_insert _ _ _ h)

/-- `parseRows` builds a strictly sorted list -/
theorem sorted_insertRows (rows : List (List (Option Instr))) (st : Nat) (acc : Prog)
    (h : Sorted acc) : Sorted (insertRows rows st acc) := by
  induction rows generalizing st acc with
  | nil => exact h
  | cons r rs ih => exact ih _ _ (sorted_insertRow _ _ _ _ h)

/-! ### the table of a compiled program -/

/-- the `S × C` table a program holds -/
def rowsOf (p : Prog) (S C : Nat) : List (List (Option Instr)) :=
  (List.range S).map fun i => (List.range C).map fun j => p.get (i, j)

theorem rowsOf_getD (p : Prog) (S C : Nat) (hin : ∀ kv ∈ p, kv.1.1 < S ∧ kv.1.2 < C)
    (i j : Nat) : ((rowsOf p S C).getD i []).getD j none = p.get (i, j) := by
  by_cases hij : i < S ∧ j < C
  · simp [rowsOf, List.getD_eq_getElem?_getD, hij.1, hij.2]
  · have hn : p.get (i, j) = none := by
      apply get_none_of_forall_ne
      intro kv hkv e
      have := hin kv hkv
      rw [e] at this
      exact hij this
    rw [hn]
    by_cases hi : i < S
    · have hj : ¬ j < C := fun hj => hij ⟨hi, hj⟩
      simp [rowsOf, List.getD_eq_getElem?_getD, hi, hj]
    · simp [rowsOf, List.getD_eq_getElem?_getD, hi]

/-- **print-then-parse on an arbitrary compiled table**: a strictly sorted association list with
    keys inside the `S × C` rectangle and printable entries is printed (with that size) to a text
    that parses back to the very same list. No bound on `S`, `C` is needed: keys are never printed,
    they only index rows and columns. -/
theorem prog_roundtrip (p : Prog) (S C : Nat) (ok : Option Instr → Prop)
    (hok : ∀ c, ok c → GoodCell c) (hS : 0 < S) (hC : 0 < C)
    (h : List.Pairwise (fun a b => slotLt a.1 b.1 = true) p ∧
      ∀ kv ∈ p, kv.1.1 < S ∧ kv.1.2 < C ∧ ok (some kv.2)) :
    ∃ s, p.showChars (some (S, C)) = .ok s ∧ Prog.fromChars s = .ok p := by
  obtain ⟨hsorted, hkv⟩ := h
  have hin : ∀ kv ∈ p, kv.1.1 < S ∧ kv.1.2 < C := fun kv hm => ⟨(hkv kv hm).1, (hkv kv hm).2.1⟩
  have hget := rowsOf_getD p S C hin
  have hgoodget : ∀ s, GoodCell (p.get s) := by
    intro s
    rcases hg : p.get s with _ | v
    · trivial
    · exact hok _ (hkv _ (get_some_mem hg)).2.2
  have hlen : (rowsOf p S C).length = S := by simp [rowsOf]
  have hrows : ∀ r ∈ rowsOf p S C, r.length = C ∧ ∀ c ∈ r, GoodCell c := by
    intro r hr
    obtain ⟨i, _, rfl⟩ := List.mem_map.1 hr
    refine ⟨by simp, ?_⟩
    intro c hc
    obtain ⟨j, _, rfl⟩ := List.mem_map.1 hc
    exact hgoodget _
  have hne : rowsOf p S C ≠ [] := by
    intro e; rw [e] at hlen; simp at hlen; omega
  have hrows' : ∀ r ∈ rowsOf p S C, r ≠ [] ∧ ∀ c ∈ r, GoodCell c := by
    intro r hr
    refine ⟨?_, (hrows r hr).2⟩
    intro e
    have := (hrows r hr).1
    rw [e] at this; simp at this; omega
  refine ⟨tableText (rowsOf p S C),
    showChars_of_get p _ S C hlen hrows (fun i j => (hget i j).symm), ?_⟩
  rw [fromChars_tableText _ hne hrows']
  congr 1
  apply sorted_ext _ _ (sorted_insertRows _ _ _ List.Pairwise.nil) hsorted
  intro s
  rcases s with ⟨i, j⟩
  rw [get_parsed, hget]

end Parse
end BB
