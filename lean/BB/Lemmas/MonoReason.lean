/-
C15 for the backward reasoner (src/reason.rs): the depth limit of `cant_reach` is only the fuel of
`cantReachLoop`; any outcome other than `.ok .stepLimit` (the answer given when the `for step in
0..depth` loop runs out) is unchanged by a larger depth.  This covers every other value of
`BackwardResult` (`refuted k` with the same `k`, `init`, `linRec`, `spinout`, and also `depthLimit`,
which despite its name is the MAX_STACK_DEPTH answer, not the depth-limit answer) and the panic
outcome `.error _`.
-/
import BB.Lemmas.ReasonMono
import BB.Lemmas.MonoBase

namespace BB.Reason

/-- `cant_reach`: an outcome other than `.ok .stepLimit` is unchanged by a larger depth. -/
theorem cantReach_mono' (fixF1 : Bool) (comp : Prog) (configs : Configs) (d₁ d₂ : Nat)
    (r : PRes BackwardResult) (h : cantReach fixF1 comp d₁ configs = r)
    (hne : r ≠ .ok .stepLimit) (hle : d₁ ≤ d₂) : cantReach fixF1 comp d₂ configs = r := by
  unfold cantReach at h ⊢
  by_cases h1 : configs.isEmpty = true
  · simp only [h1, if_true] at h ⊢; exact h
  · simp only [h1] at h ⊢
    by_cases h2 : (configs.filter fun config =>
        (getEntrypoints comp).containsKey config.state).isEmpty = true
    · simp only [h2, if_true] at h ⊢; exact h
    · simp only [h2] at h ⊢
      exact cantReachLoop_mono fixF1 _ _ _ _ _ _ r h hne d₂ hle

/-- the same as a dichotomy: the larger depth gives the same outcome, or the smaller depth's
    outcome was `stepLimit`. -/
theorem cantReach_dichotomy' (fixF1 : Bool) (comp : Prog) (configs : Configs) (d₁ d₂ : Nat)
    (hle : d₁ ≤ d₂) :
    cantReach fixF1 comp d₂ configs = cantReach fixF1 comp d₁ configs ∨
      cantReach fixF1 comp d₁ configs = .ok .stepLimit := by
  by_cases h : cantReach fixF1 comp d₁ configs = .ok .stepLimit
  · exact Or.inr h
  · exact Or.inl (cantReach_mono' fixF1 comp configs d₁ d₂ _ rfl h hle)

theorem cantHalt_mono' (p : Prog) (d₁ d₂ : Nat) (fixF1 fixF2 : Bool) (r : PRes BackwardResult)
    (h : cantHalt p d₁ fixF1 fixF2 = r) (hne : r ≠ .ok .stepLimit) (hle : d₁ ≤ d₂) :
    cantHalt p d₂ fixF1 fixF2 = r :=
  cantReach_mono' fixF1 p _ d₁ d₂ r h hne hle

theorem cantBlank_mono' (p : Prog) (d₁ d₂ : Nat) (fixF1 : Bool) (r : PRes BackwardResult)
    (h : cantBlank p d₁ fixF1 = r) (hne : r ≠ .ok .stepLimit) (hle : d₁ ≤ d₂) :
    cantBlank p d₂ fixF1 = r :=
  cantReach_mono' fixF1 p _ d₁ d₂ r h hne hle

theorem cantSpinOut_mono' (p : Prog) (d₁ d₂ : Nat) (fixF1 : Bool) (r : PRes BackwardResult)
    (h : cantSpinOut p d₁ fixF1 = r) (hne : r ≠ .ok .stepLimit) (hle : d₁ ≤ d₂) :
    cantSpinOut p d₂ fixF1 = r :=
  cantReach_mono' fixF1 p _ d₁ d₂ r h hne hle

theorem cantHalt_dichotomy' (p : Prog) (d₁ d₂ : Nat) (fixF1 fixF2 : Bool) (hle : d₁ ≤ d₂) :
    cantHalt p d₂ fixF1 fixF2 = cantHalt p d₁ fixF1 fixF2 ∨
      cantHalt p d₁ fixF1 fixF2 = .ok .stepLimit :=
  cantReach_dichotomy' fixF1 p _ d₁ d₂ hle

theorem cantBlank_dichotomy' (p : Prog) (d₁ d₂ : Nat) (fixF1 : Bool) (hle : d₁ ≤ d₂) :
    cantBlank p d₂ fixF1 = cantBlank p d₁ fixF1 ∨ cantBlank p d₁ fixF1 = .ok .stepLimit :=
  cantReach_dichotomy' fixF1 p _ d₁ d₂ hle

theorem cantSpinOut_dichotomy' (p : Prog) (d₁ d₂ : Nat) (fixF1 : Bool) (hle : d₁ ≤ d₂) :
    cantSpinOut p d₂ fixF1 = cantSpinOut p d₁ fixF1 ∨ cantSpinOut p d₁ fixF1 = .ok .stepLimit :=
  cantReach_dichotomy' fixF1 p _ d₁ d₂ hle

end BB.Reason
