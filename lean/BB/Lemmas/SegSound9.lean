/-
C05 — segment analysis.  Part 9: `run_to_edge` walks the whole orbit of its configuration inside
the window, records every goal point it passes, and only adds positions of blank orbit points to
`blanks` (`runToEdge_post3`).  Goals `halt` and `spinout` only.
-/
import BB.Lemmas.SegSound8

namespace BB.Segment

open BB

/-! ### orbits: completeness of a walk -/

/-- a walk that ends in a terminal point has visited the whole orbit -/
theorem orbit_le_of_terminal {prog : Prog} {X Zm : Core} {m : Nat} (hm : citer prog m X = some Zm)
    (ht : cstep prog Zm = none) {Z : Core} (h : Orbit prog X Z) : ∃ j, j ≤ m ∧ citer prog j X = some Z := by
  obtain ⟨b, hb⟩ := h
  by_cases hbm : b ≤ m
  · exact ⟨b, hbm, hb⟩
  · obtain ⟨d, rfl⟩ : ∃ d, b = m + (d + 1) := ⟨b - m - 1, by omega⟩
    rw [citer_add, hm] at hb
    simp [citer, ht] at hb

/-- a walk that closes a cycle has visited the whole orbit, and no point of the orbit is terminal -/
theorem orbit_of_cycle {prog : Prog} {X C : Core} {a i : Nat} (ha : citer prog (a + 1) X = some C)
    (hi : 0 < i) (hc : citer prog i C = some C) :
    (∀ Z, Orbit prog X Z → ∃ j, j ≤ a + i ∧ citer prog j X = some Z) ∧
    (∀ Z, Orbit prog X Z → cstep prog Z ≠ none) := by
  have hall : ∀ b, ∃ Y, citer prog b X = some Y := by
    intro b
    by_cases hb : b ≤ a + 1
    · exact citer_le ha hb
    · obtain ⟨d, rfl⟩ : ∃ d, b = (a + 1) + d := ⟨b - (a + 1), by omega⟩
      rw [citer_add, ha]
      exact citer_cycle hi hc d
  constructor
  · intro Z ⟨b, hb⟩
    induction b using Nat.strongRecOn generalizing Z with
    | _ b ih =>
      by_cases hle : b ≤ a + i
      · exact ⟨b, hle, hb⟩
      · obtain ⟨d, rfl⟩ : ∃ d, b = (a + 1) + (i + d) := ⟨b - (a + 1) - i, by omega⟩
        have h1 : citer prog ((a + 1) + d) X = some Z := by
          rw [citer_add, ha] at hb ⊢
          simp only [Option.bind_some] at hb ⊢
          rw [citer_add, hc] at hb
          exact hb
        exact ih ((a + 1) + d) (by omega) Z h1
  · intro Z ⟨b, hb⟩ hn
    obtain ⟨Y, hY⟩ := hall (b + 1)
    rw [citer_succ_last, hb] at hY
    simp [hn] at hY

/-! ### the bookkeeping frame of one `run_to_edge` -/

/-- how `configs` may differ, during `run_to_edge` from `X0`, from what it was at the start -/
structure RunFrame (prog : Prog) (K : Nat → Prop) (X0 : Core) (cs0 cf : Configs) : Prop where
  todo : cf.todo = cs0.todo
  seen : cf.seen = cs0.seen
  segEq : cf.seg = cs0.seg
  blanksOld : ∀ q pos, DHas cs0.blanks q pos → DHas cf.blanks q pos
  blanksNew : ∀ q pos, DHas cf.blanks q pos → DHas cs0.blanks q pos ∨
    ∃ Z, Orbit prog X0 Z ∧ Z.1 = q ∧ Tape.blank Z.2 = true ∧ Tape.pos Z.2 = pos
  mono : ∀ Z, Recorded cs0 Z → Recorded cf Z
  keys : (∀ q, K q → (dictGet cs0.reached q).isSome = true) →
    ∀ q, K q → (dictGet cf.reached q).isSome = true

theorem RunFrame.refl (prog : Prog) (K : Nat → Prop) (X0 : Core) (cs : Configs) :
    RunFrame prog K X0 cs cs :=
  ⟨rfl, rfl, rfl, fun _ _ h => h, fun _ _ h => Or.inl h, fun _ h => h, fun h => h⟩

theorem RunFrame.reach {prog : Prog} {K : Nat → Prop} {X0 : Core} {cs0 cf cf' : Configs} {seg : Nat}
    (h : RunFrame prog K X0 cs0 cf) (h' : ReachFrame seg K cf cf') : RunFrame prog K X0 cs0 cf' :=
  ⟨h'.todo.trans h.todo, h'.seen.trans h.seen, h'.segEq.trans h.segEq,
    fun q pos hd => by rw [h'.blanks]; exact h.blanksOld q pos hd,
    fun q pos hd => by rw [h'.blanks] at hd; exact h.blanksNew q pos hd,
    fun Z hZ => h'.mono Z (h.mono Z hZ), fun hk => h'.keys (h.keys hk)⟩

theorem RunFrame.blank {prog : Prog} {K : Nat → Prop} {X0 : Core} {cs0 cf : Configs}
    (h : RunFrame prog K X0 cs0 cf) {Z : Core} (ho : Orbit prog X0 Z) (hb : Tape.blank Z.2 = true) :
    RunFrame prog K X0 cs0 { cf with blanks := dictSetInsert cf.blanks Z.1 (Tape.pos Z.2) } := by
  refine ⟨h.todo, h.seen, h.segEq, ?_, ?_, h.mono, h.keys⟩
  · intro q pos hd
    simp only
    rw [dHas_dictSetInsert]
    exact Or.inl (h.blanksOld q pos hd)
  · intro q pos hd
    simp only at hd
    rw [dHas_dictSetInsert] at hd
    rcases hd with hd | ⟨h1, h2⟩
    · exact h.blanksNew q pos hd
    · exact Or.inr ⟨Z, ho, h1.symm, hb, h2.symm⟩

/-! ### the spin-out test -/

theorem spinCheck_spec {prog : Prog} {goal : Term} (hg : goal ≠ .blank) (seg : Nat) (K : Nat → Prop)
    (slf : Config) (instr : Instr) (cf : Configs) (hseg : cf.seg = seg) {s : Nat}
    (hs : slf.tape.scan = some s) (hget : prog.get (slf.state, s) = some instr) :
    ReachFrame seg K cf (spinCheck goal slf instr cf).2 ∧
    ((spinCheck goal slf instr cf).1 = true → slf.init = false →
      (Configs.checkReached (spinCheck goal slf instr cf).2 slf goal).1 = true) ∧
    ((spinCheck goal slf instr cf).1 = false →
      (GoalIn prog goal slf.core → Recorded (spinCheck goal slf instr cf).2 slf.core) ∧
      ((∀ q r, dictGet cf.reached q = some r → r.length < seg) →
        ∀ q r, dictGet (spinCheck goal slf instr cf).2.reached q = some r → r.length < seg)) := by
  unfold spinCheck
  by_cases hc : ((slf.init || goal == Term.spinout) && Config.spinout slf instr) = true
  · simp only [hc, if_true]
    by_cases hi : slf.init = true
    · simp only [hi, if_true]
      exact ⟨ReachFrame.refl _ _ _, (fun _ h => by cases h), (fun h => by cases h)⟩
    · simp only [hi]
      obtain ⟨h1, h2, h3, h4⟩ := checkReached_spec hg seg K cf slf hseg
      exact ⟨h1, fun ht _ => h4 ht, fun hf => ⟨fun _ => h2, h3 hf⟩⟩
  · simp only [hc]
    refine ⟨ReachFrame.refl _ _ _, (fun h => by cases h), fun _ => ⟨?_, fun h => h⟩⟩
    intro hgi
    exfalso
    apply hc
    cases goal with
    | blank => exact absurd rfl hg
    | halt =>
      obtain ⟨s', hs', hn⟩ := hgi
      simp only [Config.core] at hs' hn
      rw [hs] at hs'
      simp only [Option.some.injEq] at hs'
      subst hs'
      rw [hget] at hn; cases hn
    | spinout =>
      obtain ⟨s', instr', hs', hg', hsp⟩ := hgi
      simp only [Config.core] at hs' hg'
      rw [hs] at hs'
      simp only [Option.some.injEq] at hs'
      subst hs'
      rw [hget] at hg'
      simp only [Option.some.injEq] at hg'
      subst hg'
      have : Config.spinout slf instr = true := hsp
      simp [this]

/-! ### invariant and postcondition -/

structure RunInv3 (prog : Prog) (goal : Term) (seg : Nat) (K : Nat → Prop) (X0 : Core)
    (cs0 : Configs) (slf copy : Config) (step : Bool) (cf : Configs) : Prop where
  frame : RunFrame prog K X0 cs0 cf
  rLen : ∀ q r, dictGet cf.reached q = some r → r.length < seg
  sGood : Good seg slf.tape
  cGood : Good seg copy.tape
  idx : ∃ a i, citer prog a X0 = some copy.core ∧ citer prog i copy.core = some slf.core ∧
    (step = true → 0 < i) ∧
    ∀ j, j < a + i → ∀ Z, citer prog j X0 = some Z → GoalIn prog goal Z → Recorded cf Z

/-- the facts that hold when `run_to_edge` returns and the search goes on -/
structure RunClosed (prog : Prog) (goal : Term) (seg : Nat) (X0 : Core) (out : RunOut) : Prop where
  rLen : ∀ q r, dictGet out.configs.reached q = some r → r.length < seg
  goalIn : ∀ Z, Orbit prog X0 Z → GoalIn prog goal Z →
    Recorded out.configs Z ∨ (out.result = some (.found .halt) ∧ Z = out.config.core)
  term : ∀ Z, Orbit prog X0 Z → cstep prog Z = none →
    Z = out.config.core ∧ (out.result = none ∨ out.result = some (.found .halt))
  edge : out.result = none → out.config.tape.scan = none
  haltAt : out.result = some (.found .halt) →
    ∃ s, out.config.tape.scan = some s ∧ prog.get (out.config.state, s) = none

structure RunPost3 (prog : Prog) (goal : Term) (seg : Nat) (K : Nat → Prop) (X0 : Core)
    (cs0 : Configs) (out : RunOut) : Prop where
  frame : RunFrame prog K X0 cs0 out.configs
  good : Good seg out.config.tape
  orbit : Orbit prog X0 out.config.core
  notBlank : out.result ≠ some (.found .blank)
  spinHit : out.result = some (.found .spinout) → out.config.init = false →
    (Configs.checkReached out.configs out.config goal).1 = true
  closed : out.result = some (.found .spinout) ∨
    (out.result = some .repeat ∧ out.config.init = true) ∨ RunClosed prog goal seg X0 out

theorem cstep_none_of_scan {prog : Prog} {X : Core} (h : X.2.scan = none) : cstep prog X = none := by
  unfold cstep; rw [h]

theorem cstep_none_of_get {prog : Prog} {X : Core} {s : Nat} (h : X.2.scan = some s)
    (hg : prog.get (X.1, s) = none) : cstep prog X = none := by
  unfold cstep; rw [h]; simp only; rw [hg]

theorem goalIn_scan {prog : Prog} {goal : Term} {Z : Core} (h : GoalIn prog goal Z) :
    ∃ s, Z.2.scan = some s := by
  cases goal with
  | halt => obtain ⟨s, hs, _⟩ := h; exact ⟨s, hs⟩
  | spinout => obtain ⟨s, _, hs, _⟩ := h; exact ⟨s, hs⟩
  | blank => exact absurd h id

/-- the three shapes of the blank test after a step -/
theorem blankCheck_eq (goal : Term) (instr : Instr) (self1 : Config) (cf1 : Configs) :
    (blankCheck goal instr self1 cf1 = (none, self1, cf1)) ∨
    (Tape.blank self1.tape = true ∧ self1.init = true ∧
      blankCheck goal instr self1 cf1 = (some .repeat, self1, cf1)) ∨
    (Tape.blank self1.tape = true ∧ ∃ self2 : Config, self2.core = self1.core ∧
      blankCheck goal instr self1 cf1 =
        (if goal == .blank then some (.found .blank) else none, self2,
          { cf1 with blanks := dictSetInsert cf1.blanks instr.2.2 (Tape.pos self1.tape) })) := by
  unfold blankCheck
  by_cases hA : (instr.1 == 0 && Tape.blank self1.tape) = true
  · simp only [hA, if_true]
    simp only [Bool.and_eq_true] at hA
    by_cases hB : (instr.2.2 == 0 && self1.init) = true
    · simp only [hB, if_true]
      simp only [Bool.and_eq_true] at hB
      exact Or.inr (Or.inl ⟨hA.2, hB.2, by first | rfl | trivial⟩)
    · simp only [hB]
      refine Or.inr (Or.inr ⟨hA.2, if instr.2.2 == 0 then { self1 with init := true } else self1,
        ?_, ?_⟩)
      · split <;> rfl
      · by_cases h0 : (instr.2.2 == 0) = true <;> by_cases hgb : (goal == Term.blank) = true <;>
          simp [h0, hgb]
  · simp only [hA]
    exact Or.inl (by first | rfl | trivial)

/-- the part of an iteration after the blank test -/
theorem runTail_post3 (prog : Prog) (goal : Term) (seg : Nat) (K : Nat → Prop)
    (X0 : Core) (cs0 : Configs) (slf copy s2 : Config) (step : Bool) (cf2 : Configs) (a i : Nat)
    (hfr : RunFrame prog K X0 cs0 cf2)
    (hrl : ∀ q r, dictGet cf2.reached q = some r → r.length < seg)
    (hgood2 : Good seg s2.tape) (cGood : Good seg copy.tape)
    (ha : citer prog a X0 = some copy.core) (hi : citer prog i copy.core = some slf.core)
    (hipos : step = true → 0 < i) (hcs : cstep prog slf.core = some s2.core)
    (hchk1 : ∀ j, j < a + i + 1 → ∀ Z, citer prog j X0 = some Z → GoalIn prog goal Z →
      Recorded cf2 Z) :
    match (if !step then Except.ok (BodyOut.loop s2 copy true cf2)
      else
        match copyStep prog copy with
        | none => .error .panic
        | some copy1 =>
          if copy1.state == s2.state && copy1.tape == s2.tape then
            .ok (.exit ⟨some .repeat, s2, cf2⟩)
          else .ok (.loop s2 copy1 false cf2) : Except Err BodyOut) with
    | .error _ => True
    | .ok (.exit out) => RunPost3 prog goal seg K X0 cs0 out
    | .ok (.loop s c st cf') => RunInv3 prog goal seg K X0 cs0 s c st cf' := by
  have hm : citer prog (a + i) X0 = some slf.core := by rw [citer_add, ha]; exact hi
  have hm1 : citer prog (a + i + 1) X0 = some s2.core := by
    rw [citer_succ_last, hm]; exact hcs
  cases step with
  | false =>
    simp only [Bool.not_false, if_true]
    refine ⟨hfr, hrl, hgood2, cGood, a, i + 1, ha, ?_, fun _ => Nat.succ_pos _, ?_⟩
    · rw [citer_succ_last, hi]; exact hcs
    · intro j hj; exact hchk1 j (by omega)
  | true =>
    simp only [Bool.not_true, Bool.false_eq_true, if_false]
    cases hcp : copyStep prog copy with
    | none => trivial
    | some copy1 =>
      simp only
      obtain ⟨hcc, _⟩ := copyStep_core hcp cGood.1
      have hcg : Good seg copy1.tape := cstep_good (X := copy.core) cGood hcc
      have ha1 : citer prog (a + 1) X0 = some copy1.core := by
        rw [citer_succ_last, ha]; exact hcc
      have hlag : citer prog i copy1.core = some s2.core := by
        have h1 : citer prog (i + 1) copy.core = some s2.core := by
          rw [citer_succ_last, hi]; exact hcs
        have h2 : citer prog (1 + i) copy.core = some s2.core := by rw [Nat.add_comm]; exact h1
        rw [citer_add] at h2
        simpa [citer, hcc] using h2
      have hi0 := hipos rfl
      by_cases heq : (copy1.state == s2.state && copy1.tape == s2.tape) = true
      · simp only [heq, if_true]
        simp only [Bool.and_eq_true, beq_iff_eq] at heq
        have hce : copy1.core = s2.core := by
          unfold Config.core; rw [heq.1, heq.2]
        refine ⟨hfr, hgood2, ⟨_, hm1⟩, by simp, by simp, ?_⟩
        by_cases hin : s2.init = true
        · exact Or.inr (Or.inl ⟨rfl, hin⟩)
        · refine Or.inr (Or.inr ⟨hrl, ?_, ?_, by simp, by simp⟩)
          rw [← hce] at hlag
          obtain ⟨hall, hnt⟩ := orbit_of_cycle ha1 hi0 hlag
          · intro Z hZ hgi
            obtain ⟨j, hj, hjZ⟩ := hall Z hZ
            exact Or.inl (hchk1 j (by omega) Z hjZ hgi)
          · intro Z hZ hz
            rw [← hce] at hlag
            exact absurd hz ((orbit_of_cycle ha1 hi0 hlag).2 Z hZ)
      · simp only [heq]
        refine ⟨hfr, hrl, hgood2, hcg, a + 1, i, ha1, hlag, fun _ => hi0, ?_⟩
        intro j hj; exact hchk1 j (by omega)

theorem runBody_post3 (prog : Prog) (goal : Term) (hg : goal ≠ .blank) (seg : Nat) (K : Nat → Prop)
    (X0 : Core) (cs0 : Configs) (hseg0 : cs0.seg = seg) (slf copy : Config) (step : Bool)
    (cf : Configs) (inv : RunInv3 prog goal seg K X0 cs0 slf copy step cf) :
    match runBody prog goal slf copy step cf with
    | .error _ => True
    | .ok (.exit out) => RunPost3 prog goal seg K X0 cs0 out
    | .ok (.loop s c st cf') => RunInv3 prog goal seg K X0 cs0 s c st cf' := by
  obtain ⟨a, i, ha, hi, hipos, hchk⟩ := inv.idx
  have hm : citer prog (a + i) X0 = some slf.core := by rw [citer_add, ha]; exact hi
  have hsegf : cf.seg = seg := inv.frame.segEq.trans hseg0
  have hgb : (goal == Term.blank) = false := by cases goal <;> simp_all
  unfold runBody
  cases hsl : Config.slot slf with
  | none =>
    -- the head is outside the window: the orbit ends here
    have hsc := slot_none hsl
    have hterm : cstep prog slf.core = none := cstep_none_of_scan hsc
    refine ⟨inv.frame, inv.sGood, ⟨a + i, hm⟩, by simp, by simp,
      Or.inr (Or.inr ⟨inv.rLen, ?_, ?_, fun _ => hsc, by simp⟩)⟩
    · intro Z hZ hgi
      obtain ⟨j, hj, hjZ⟩ := orbit_le_of_terminal hm hterm hZ
      by_cases hjm : j < a + i
      · exact Or.inl (hchk j hjm Z hjZ hgi)
      · have : j = a + i := by omega
        subst this
        rw [hm] at hjZ
        simp only [Option.some.injEq] at hjZ
        subst hjZ
        obtain ⟨s, hs⟩ := goalIn_scan hgi
        simp only [Config.core] at hs
        rw [hsc] at hs; cases hs
    · intro Z hZ hz
      exact ⟨orbit_terminal_unique hZ ⟨a + i, hm⟩ hz hterm, Or.inl rfl⟩
  | some slot =>
    obtain ⟨s, hsc, rfl⟩ := slot_some hsl
    simp only
    cases hget : prog.get (slf.state, s) with
    | none =>
      -- halted inside the window: the orbit ends here
      have hterm : cstep prog slf.core = none := cstep_none_of_get (X := slf.core) hsc hget
      refine ⟨inv.frame, inv.sGood, ⟨a + i, hm⟩, by simp, by simp,
        Or.inr (Or.inr ⟨inv.rLen, ?_, ?_, by simp, fun _ => ⟨s, hsc, hget⟩⟩)⟩
      · intro Z hZ hgi
        obtain ⟨j, hj, hjZ⟩ := orbit_le_of_terminal hm hterm hZ
        by_cases hjm : j < a + i
        · exact Or.inl (hchk j hjm Z hjZ hgi)
        · have : j = a + i := by omega
          subst this
          rw [hm] at hjZ
          simp only [Option.some.injEq] at hjZ
          exact Or.inr ⟨rfl, hjZ.symm⟩
      · intro Z hZ hz
        exact ⟨orbit_terminal_unique hZ ⟨a + i, hm⟩ hz hterm, Or.inr rfl⟩
    | some instr =>
      simp only
      obtain ⟨sp1, sp2, sp3⟩ := spinCheck_spec (prog := prog) hg seg K slf instr cf hsegf hsc hget
      have hfr1 := inv.frame.reach sp1
      by_cases hsp : (spinCheck goal slf instr cf).1 = true
      · simp only [hsp, if_true]
        exact ⟨hfr1, inv.sGood, ⟨a + i, hm⟩, by simp, fun _ hin => sp2 hsp hin, Or.inl rfl⟩
      · simp only [hsp]
        have hsp' : (spinCheck goal slf instr cf).1 = false := by
          cases h : (spinCheck goal slf instr cf).1 <;> simp_all
        obtain ⟨sp3a, sp3b⟩ := sp3 hsp'
        have hrl1 := sp3b inv.rLen
        have hmono1 := sp1.mono
        generalize (spinCheck goal slf instr cf).2 = cf1 at hfr1 sp3a hrl1 hmono1
        cases hst : Config.step slf instr with
        | none => trivial
        | some self1 =>
          simp only
          have hcs : cstep prog slf.core = some self1.core := cstep_of_step hsc hget hst
          have hgood1 : Good seg self1.tape := cstep_good (X := slf.core) inv.sGood hcs
          have hm1 : citer prog (a + i + 1) X0 = some self1.core := by
            rw [citer_succ_last, hm]; exact hcs
          -- every index up to `a + i` is now checked
          have hchk1 : ∀ j, j < a + i + 1 → ∀ Z, citer prog j X0 = some Z → GoalIn prog goal Z →
              Recorded cf1 Z := by
            intro j hj Z hjZ hgi
            by_cases hjm : j < a + i
            · exact hmono1 Z (hchk j hjm Z hjZ hgi)
            · have : j = a + i := by omega
              subst this
              rw [hm] at hjZ
              simp only [Option.some.injEq] at hjZ
              subst hjZ
              exact sp3a hgi
          rcases blankCheck_eq goal instr self1 cf1 with hbe | ⟨hb, hin, hbe⟩ | ⟨hb, self2, hc2, hbe⟩
          · rw [hbe]
            exact runTail_post3 prog goal seg K X0 cs0 slf copy self1 step cf1 a i hfr1 hrl1 hgood1
              inv.cGood ha hi hipos hcs hchk1
          · rw [hbe]
            exact ⟨hfr1, hgood1, ⟨_, hm1⟩, by simp, by simp, Or.inr (Or.inl ⟨rfl, hin⟩)⟩
          · rw [hbe]
            simp only [hgb, Bool.false_eq_true, if_false]
            have hgood2 : Good seg self2.tape := by
              have : self2.tape = self1.tape := congrArg Prod.snd hc2
              rw [this]; exact hgood1
            have hst1 : self1.state = instr.2.2 := (Config.step_core hst).2.1
            have hfr2 := hfr1.blank (Z := self1.core) ⟨a + i + 1, hm1⟩ hb
            simp only [Config.core, hst1] at hfr2
            refine runTail_post3 prog goal seg K X0 cs0 slf copy self2 step _ a i hfr2 hrl1 hgood2
              inv.cGood ha hi hipos (by rw [hc2]; exact hcs) hchk1

/-- **What `run_to_edge` does to the bookkeeping** (goals `halt`, `spinout`). -/
theorem runToEdge_post3 (prog : Prog) (goal : Term) (hg : goal ≠ .blank) (seg : Nat)
    (K : Nat → Prop) (fuel : Nat) (slf : Config) (cs0 : Configs) (out : RunOut)
    (hseg0 : cs0.seg = seg) (hgood : Good seg slf.tape)
    (hrl : ∀ q r, dictGet cs0.reached q = some r → r.length < seg)
    (h : runToEdge prog goal fuel slf cs0 = .ok out) :
    RunPost3 prog goal seg K slf.core cs0 out := by
  unfold runToEdge at h
  cases hs : slf.tape.scan with
  | none =>
    rw [hs] at h
    simp only [Except.ok.injEq] at h
    subst h
    have hterm : cstep prog slf.core = none := cstep_none_of_scan hs
    refine ⟨RunFrame.refl _ _ _ _, hgood, Orbit.refl _ _, by simp, by simp,
      Or.inr (Or.inr ⟨hrl, ?_, ?_, fun _ => hs, by simp⟩)⟩
    · intro Z hZ hgi
      exfalso
      obtain ⟨j, hj, hjZ⟩ := orbit_le_of_terminal (m := 0) rfl hterm hZ
      have : j = 0 := by omega
      subst this
      simp only [citer, Option.some.injEq] at hjZ
      subst hjZ
      obtain ⟨s, hs'⟩ := goalIn_scan hgi
      simp only [Config.core] at hs'
      rw [hs] at hs'; cases hs'
    · intro Z hZ hz
      exact ⟨orbit_terminal_unique hZ (Orbit.refl _ _) hz hterm, Or.inl rfl⟩
  | some s =>
    rw [hs] at h
    simp only at h
    exact runLoop_induct prog goal
      (fun s c st cf => RunInv3 prog goal seg K slf.core cs0 s c st cf)
      (RunPost3 prog goal seg K slf.core cs0)
      (fun s c st cf inv => runBody_post3 prog goal hg seg K slf.core cs0 hseg0 s c st cf inv)
      fuel slf slf false cs0 out
      ⟨RunFrame.refl _ _ _ _, hrl, hgood, hgood, 0, 0, rfl, rfl, by simp, by intro j hj; omega⟩ h

end BB.Segment
