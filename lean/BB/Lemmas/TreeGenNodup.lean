/-
C10 support, part 4: no program is emitted twice; the leaf filter; interleavings are
permutations of the sequential harvest.
-/
import BB.Lemmas.TreeGenBranch

namespace BB.Tree

open BB

/-! ### the leaf filter -/

theorem leafSkip_eq_false_iff (p : Prog) (S C : Nat) :
    leafSkip p (S, C) = false ↔ UsesLast S C p := by
  unfold leafSkip UsesLast
  rw [Bool.or_eq_false_iff]
  have h : ∀ (f : Slot × Instr → Nat) (m : Nat),
      (p.all (fun kv => decide (1 + f kv < m)) = false) ↔ ∃ kv ∈ p, m ≤ f kv + 1 := by
    intro f m
    rw [Bool.eq_false_iff, Ne, List.all_eq_true]
    simp only [decide_eq_true_eq]
    constructor
    · intro hh
      apply Classical.byContradiction
      intro hne
      apply hh
      intro kv hkv
      apply Classical.byContradiction
      intro hlt
      exact hne ⟨kv, hkv, by omega⟩
    · rintro ⟨kv, hkv, hh⟩ hall
      have := hall kv hkv
      omega
  exact and_congr (h (fun kv => kv.2.2.2) S) (h (fun kv => kv.2.1) C)

theorem mem_leaf {p q : Prog} {S C : Nat} : q ∈ leaf p (S, C) ↔ q = p ∧ UsesLast S C p := by
  unfold leaf
  by_cases h : leafSkip p (S, C) = true
  · have : ¬ UsesLast S C p := by
      rw [← leafSkip_eq_false_iff, h]; simp
    simp [h, this]
  · rw [Bool.not_eq_true] at h
    have h' := (leafSkip_eq_false_iff p S C).mp h
    simp [h, h']

theorem nodup_leaf (p : Prog) (params : Nat × Nat) : (leaf p params).Nodup := by
  unfold leaf; split <;> simp

/-- every program of `branchL` passes the filter -/
theorem branchL_usesLast {S C lim : Nat} {n : Node} {r : Nat} {p : Prog}
    (h : p ∈ branchL (S, C) lim n r) : UsesLast S C p := by
  induction r generalizing n with
  | zero =>
    unfold branchL at h
    split at h
    · cases h
    · exact (mem_leaf.mp h).1 ▸ (mem_leaf.mp h).2
  | succ r ih =>
    rw [branchL] at h
    split at h
    · obtain ⟨i, _, hi⟩ := List.mem_flatMap.mp h
      split at hi
      · exact (mem_leaf.mp hi).1 ▸ (mem_leaf.mp hi).2
      · exact ih hi
    · exact (mem_leaf.mp h).1 ▸ (mem_leaf.mp h).2

/-! ### emitted tables extend the table of the node -/

theorem branchL_extends {params : Nat × Nat} {lim : Nat} {n : Node} {r : Nat} {p : Prog}
    (h : p ∈ branchL params lim n r) (s : Slot) (v : Instr) (hv : n.prog.get s = some v) :
    p.get s = some v := by
  obtain ⟨S, C⟩ := params
  induction r generalizing n p with
  | zero =>
    unfold branchL at h
    split at h
    · cases h
    · rw [(mem_leaf.mp h).1]; exact hv
  | succ r ih =>
    rw [branchL] at h
    split at h
    · rename_i slot t' hrun
      have hnone := run_undefined_get hrun
      have hne : slot ≠ s := by
        rintro rfl
        rw [hnone] at hv; cases hv
      obtain ⟨i, _, hi⟩ := List.mem_flatMap.mp h
      split at hi
      · rw [(mem_leaf.mp hi).1, Prog.get_insert_ne _ _ _ _ hne]; exact hv
      · refine ih ?_ hi
        simp only [Node.child]
        rw [Prog.get_insert_ne _ _ _ _ hne]; exact hv
    · rw [(mem_leaf.mp h).1]; exact hv

/-! ### no duplicates -/

theorem branchL_nodup (params : Nat × Nat) (lim : Nat) (n : Node) (r : Nat) :
    (branchL params lim n r).Nodup := by
  induction r generalizing n with
  | zero =>
    unfold branchL
    split
    · simp
    · exact nodup_leaf _ _
  | succ r ih =>
    rw [branchL]
    split
    · rename_i slot t' hrun
      refine nodup_flatMap_of (nodup_makeInstrs _ _) ?_ ?_
      · intro i _
        split
        · exact nodup_leaf _ _
        · exact ih _
      · intro i _ j _ hij p hpi hpj
        have key : ∀ k : Instr, p ∈ (if r = 0 then leaf (n.prog.insert slot k) params
            else branchL params lim (n.child params slot t' k) r) → p.get slot = some k := by
          intro k hk
          split at hk
          · obtain ⟨S, C⟩ := params
            rw [(mem_leaf.mp hk).1]; exact Prog.get_insert_self ..
          · exact branchL_extends hk slot k (by simp [Node.child, Prog.get_insert_self])
        have := (key i hpi).symm.trans (key j hpj)
        exact hij (Option.some.inj this)
    · exact nodup_leaf _ _

theorem initProg_get (i : Instr) : (initProg i).get (1, 0) = some i := by
  unfold initProg; exact Prog.get_insert_self ..

theorem roots_flatMap_nodup (S C : Nat) (halt : Bool) (lim : Nat) :
    ((roots S C).flatMap fun i =>
      branchL (S, C) lim (rootNode S C i) (slots0 S C halt)).Nodup := by
  refine nodup_flatMap_of (nodup_makeInstrs _ _) (fun i _ => branchL_nodup ..) ?_
  intro i _ j _ hij p hpi hpj
  have hi := branchL_extends hpi (1, 0) i (initProg_get i)
  have hj := branchL_extends hpj (1, 0) j (initProg_get j)
  exact hij (Option.some.inj (hi.symm.trans hj))

theorem tree_nodup' (S C : Nat) (halt : Bool) (lim : Nat) (l : List Prog)
    (h : buildTreeSeq S C halt lim = .ok l) : l.Nodup := by
  rw [buildTreeSeq_ok h]; exact roots_flatMap_nodup S C halt lim

/-! ### interleavings -/

theorem Interleaving.perm {α : Type} {ls : List (List α)} {out : List α}
    (h : Interleaving ls out) : out.Perm ls.flatten := by
  induction h with
  | nil ls hnil =>
    have : ls.flatten = [] := by
      rw [List.flatten_eq_nil_iff]; exact hnil
    rw [this]
  | pick pre x l post out _ ih =>
    simp only [List.flatten_append, List.flatten_cons, List.cons_append] at ih ⊢
    exact (List.Perm.cons x ih).trans List.perm_middle.symm

/-- each list's own order is kept -/
theorem Interleaving.sublist {α : Type} {ls : List (List α)} {out : List α}
    (h : Interleaving ls out) : ∀ l ∈ ls, l.Sublist out := by
  induction h with
  | nil ls hnil => intro l hl; rw [hnil l hl]; exact List.Sublist.refl _
  | pick pre x l post out _ ih =>
    intro m hm
    rcases List.mem_append.mp hm with hm | hm
    · exact (ih m (List.mem_append_left _ hm)).cons _
    · rcases List.mem_cons.mp hm with hm | hm
      · subst hm
        exact (ih l (List.mem_append_right _ (List.mem_cons_self ..))).cons_cons _
      · exact (ih m (List.mem_append_right _ (List.mem_cons_of_mem _ hm))).cons _

/-- the sequential harvest is one of the interleavings -/
theorem Interleaving.flatten {α : Type} (ls : List (List α)) : Interleaving ls ls.flatten := by
  induction ls with
  | nil => exact .nil [] (fun _ h => by cases h)
  | cons l ls ih =>
    induction l with
    | nil =>
      simp only [List.flatten_cons, List.nil_append]
      -- an empty list in front changes nothing
      have aux : ∀ (ms : List (List α)) (out : List α), Interleaving ms out →
          Interleaving ([] :: ms) out := by
        intro ms out hm
        induction hm with
        | nil ms hnil =>
          exact .nil _ (fun l hl => by
            rcases List.mem_cons.mp hl with h | h
            · exact h
            · exact hnil l h)
        | pick pre x l post out _ ih' => exact .pick ([] :: pre) x l post out ih'
      exact aux ls _ ih
    | cons x l ihl => exact .pick [] x l ls _ ihl

theorem schedule_indep' (S C : Nat) (halt : Bool) (lim : Nat) (ls : List (List Prog))
    (l out : List Prog) (hls : buildTreeLists S C halt lim = .ok ls)
    (hl : buildTreeSeq S C halt lim = .ok l) (hout : Interleaving ls out) :
    out.Perm l ∧ out.Nodup ∧ ∀ p, p ∈ out ↔ p ∈ l := by
  have : l = ls.flatten := by
    obtain ⟨ls', h1, h2⟩ := (buildTreeSeq_ok_iff S C halt lim l).mp hl
    rw [hls] at h1
    cases h1; exact h2
  subst this
  have hp := hout.perm
  exact ⟨hp, hp.nodup_iff.mpr (tree_nodup' S C halt lim _ hl), fun p => hp.mem_iff⟩

end BB.Tree
