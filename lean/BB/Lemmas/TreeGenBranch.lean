/-
C10 support, part 3: `branch`, `buildTask`, `buildTreeLists`, `buildTreeSeq` in terms of the
plain-list form `branchL`; exactly when they fail.
-/
import BB.Lemmas.TreeGenBasic

namespace BB.Tree

open BB

theorem growAvail_ge (a m s i : Nat) : a ≤ growAvail a m s i := by
  unfold growAvail; split <;> omega

theorem growAvail_le_max {a m : Nat} (h : a ≤ m) (s i : Nat) : growAvail a m s i ≤ m := by
  unfold growAvail
  split
  · rename_i hc
    simp only [Bool.and_eq_true, decide_eq_true_eq] at hc
    omega
  · exact h

/-- the number of slots the budget is computed from -/
def slots0 (S C : Nat) (halt : Bool) : Nat := S * C - 2 - (if halt then 1 else 0)

theorem branch_zero (params : Nat × Nat) (lim : Nat) (n : Node) :
    branch n.instr n.prog n.state n.tape lim n.availS n.availC params 0 =
      match runForUndefined n.prog n.state n.tape lim with
      | (.undefined _, _) => .error (.overflow "remaining_slots - 1")
      | _ => .ok (branchL params lim n 0) := by
  unfold branch branchL
  rcases h : runForUndefined n.prog n.state n.tape lim with ⟨res, t'⟩
  cases res <;> rfl

theorem branch_eq (params : Nat × Nat) (lim : Nat) (n : Node) (r : Nat) (hS : 1 ≤ n.availS)
    (hC : 1 ≤ n.availC) :
    branch n.instr n.prog n.state n.tape lim n.availS n.availC params (r + 1) =
      .ok (branchL params lim n (r + 1)) := by
  induction r generalizing n with
  | zero =>
    unfold branch branchL
    rcases h : runForUndefined n.prog n.state n.tape lim with ⟨res, t'⟩
    cases res <;> simp
  | succ r ih =>
    unfold branch
    rw [branchL]
    rcases h : runForUndefined n.prog n.state n.tape lim with ⟨res, t'⟩
    cases res with
    | limit => rfl
    | blank => rfl
    | spinout => rfl
    | undefined slot =>
      have hS' : 1 ≤ growAvail n.availS params.1 slot.1 n.instr.2.2 :=
        Nat.le_trans hS (growAvail_ge ..)
      have hC' : 1 ≤ growAvail n.availC params.2 slot.2 n.instr.1 :=
        Nat.le_trans hC (growAvail_ge ..)
      obtain ⟨x, ini, hsl, hini⟩ := splitLast_spec _ (makeInstrs_ne_nil hS' hC')
      simp only [Nat.add_eq_zero_iff, Nat.succ_ne_self, and_false, beq_iff_eq, ↓reduceIte, hsl,
        hini]
      exact collect_ok _ _ _ (fun i _ => ih (n.child params slot t' i) hS' hC')

/-! ### `initSlots` -/

theorem initSlots_ok_iff (S C : Nat) (halt : Bool) (k : Nat) :
    initSlots S C halt = .ok k ↔
      S * C < u64Size ∧ 2 + (if halt then 1 else 0) ≤ S * C ∧ k = slots0 S C halt := by
  unfold initSlots slots0
  cases halt <;> simp only [] <;> (repeat' split) <;>
    simp only [reduceCtorEq, Except.ok.injEq, false_iff, not_and] <;> omega

theorem initSlots_error_iff (S C : Nat) (halt : Bool) :
    (∃ e, initSlots S C halt = .error e) ↔
      ¬ (S * C < u64Size ∧ 2 + (if halt then 1 else 0) ≤ S * C) := by
  constructor
  · rintro ⟨e, he⟩ ⟨h1, h2⟩
    rw [((initSlots_ok_iff S C halt _).mpr ⟨h1, h2, rfl⟩)] at he
    cases he
  · intro h
    cases hi : initSlots S C halt with
    | error e => exact ⟨e, rfl⟩
    | ok k => exact absurd ⟨((initSlots_ok_iff S C halt k).mp hi).1,
        ((initSlots_ok_iff S C halt k).mp hi).2.1⟩ h

theorem pos_of_mul_ge {S C : Nat} (h : 1 ≤ S * C) : 1 ≤ S ∧ 1 ≤ C := by
  constructor
  · rcases Nat.eq_zero_or_pos S with h0 | h0
    · subst h0; simp at h
    · exact h0
  · rcases Nat.eq_zero_or_pos C with h0 | h0
    · subst h0; simp at h
    · exact h0

/-! ### one task -/

/-- the first run of the top-level task for `i` reaches an undefined slot -/
def RootUndefined (lim : Nat) (i : Instr) : Prop :=
  ∃ slot t', runForUndefined (initProg i) 1 Tape.initStepped lim = (.undefined slot, t')

theorem buildTask_eq {S C : Nat} {halt : Bool} (lim : Nat) (i : Instr)
    (h1 : S * C < u64Size) (h2 : 2 + (if halt then 1 else 0) ≤ S * C) :
    buildTask S C halt lim i =
      branch i (initProg i) 1 Tape.initStepped lim (min 3 S) (min 3 C) (S, C) (slots0 S C halt) := by
  unfold buildTask
  rw [(initSlots_ok_iff S C halt _).mpr ⟨h1, h2, rfl⟩]

/-- a task fails exactly when the budget computation fails, or the budget is zero and the first
    run reaches an undefined slot (`remaining_slots - 1` underflows). -/
theorem buildTask_error_iff (S C : Nat) (halt : Bool) (lim : Nat) (i : Instr) :
    (∃ e, buildTask S C halt lim i = .error e) ↔
      ¬ (S * C < u64Size ∧ 2 + (if halt then 1 else 0) ≤ S * C) ∨
      (slots0 S C halt = 0 ∧ RootUndefined lim i) := by
  by_cases hsz : S * C < u64Size ∧ 2 + (if halt then 1 else 0) ≤ S * C
  · obtain ⟨hS, hC⟩ := pos_of_mul_ge (by omega : 1 ≤ S * C)
    rw [buildTask_eq lim i hsz.1 hsz.2]
    simp only [hsz, and_self, not_true_eq_false, false_or]
    rcases hk : slots0 S C halt with _ | r
    · have := branch_zero (S, C) lim (rootNode S C i)
      simp only [rootNode] at this
      rw [this]
      unfold RootUndefined
      rcases h : runForUndefined (initProg i) 1 Tape.initStepped lim with ⟨res, t'⟩
      cases res <;> simp
    · have := branch_eq (S, C) lim (rootNode S C i) r (by simp [rootNode]; omega)
        (by simp [rootNode]; omega)
      simp only [rootNode] at this
      rw [this]
      simp
  · simp only [hsz, not_false_eq_true, true_or, iff_true]
    obtain ⟨e, he⟩ := (initSlots_error_iff S C halt).mpr hsz
    exact ⟨e, by unfold buildTask; rw [he]⟩

theorem buildTask_ok {S C : Nat} {halt : Bool} {lim : Nat} {i : Instr} {l : List Prog}
    (h : buildTask S C halt lim i = .ok l) :
    l = branchL (S, C) lim (rootNode S C i) (slots0 S C halt) := by
  by_cases hsz : S * C < u64Size ∧ 2 + (if halt then 1 else 0) ≤ S * C
  · obtain ⟨hS, hC⟩ := pos_of_mul_ge (by omega : 1 ≤ S * C)
    rw [buildTask_eq lim i hsz.1 hsz.2] at h
    rcases hk : slots0 S C halt with _ | r
    · have := branch_zero (S, C) lim (rootNode S C i)
      simp only [rootNode] at this
      rw [hk, this] at h
      rcases hr : runForUndefined (initProg i) 1 Tape.initStepped lim with ⟨res, t'⟩
      rw [hr] at h
      cases res <;> simp only [reduceCtorEq, Except.ok.injEq] at h <;> exact h.symm
    · have := branch_eq (S, C) lim (rootNode S C i) r (by simp [rootNode]; omega)
        (by simp [rootNode]; omega)
      simp only [rootNode] at this
      rw [hk, this] at h
      simp only [Except.ok.injEq] at h
      exact h.symm
  · obtain ⟨e, he⟩ := (initSlots_error_iff S C halt).mpr hsz
    unfold buildTask at h
    rw [he] at h
    cases h

/-! ### all tasks -/

theorem sequenceTasks_ok_iff (rs : List (PRes (List Prog))) (ls : List (List Prog)) :
    sequenceTasks rs = .ok ls ↔ rs = ls.map .ok := by
  constructor
  · intro h
    induction rs generalizing ls with
    | nil =>
      simp only [sequenceTasks, Except.ok.injEq] at h
      subst h; rfl
    | cons r rs ih =>
      cases r with
      | error e => simp [sequenceTasks] at h
      | ok a =>
        simp only [sequenceTasks] at h
        cases hs : sequenceTasks rs with
        | error e => simp [hs] at h
        | ok b =>
          simp only [hs, Except.ok.injEq] at h
          subst h
          simp [ih b hs]
  · exact sequenceTasks_ok rs ls

/-- the top-level instructions -/
def roots (S C : Nat) : List Instr := makeInstrs (min 3 S) (min 3 C)

/-- the sub-lists of a successful `buildTreeLists`, task by task. -/
theorem buildTreeLists_ok {S C : Nat} {halt : Bool} {lim : Nat} {ls : List (List Prog)}
    (h : buildTreeLists S C halt lim = .ok ls) :
    ls = (roots S C).map fun i => branchL (S, C) lim (rootNode S C i) (slots0 S C halt) := by
  unfold buildTreeLists buildTree at h
  rw [sequenceTasks_ok_iff] at h
  apply List.ext_getElem
  · have := congrArg List.length h
    simpa [roots] using this.symm
  · intro k h1 h2
    have hk : k < (makeInstrs (min 3 S) (min 3 C)).length := by simpa [roots] using h2
    have := congrArg (fun l => l[k]?) h
    simp only [List.getElem?_map, List.getElem?_eq_getElem hk, List.getElem?_eq_getElem h1,
      Option.map_some, Option.some.injEq] at this
    rw [buildTask_ok this]
    simp [roots]

theorem buildTreeSeq_ok {S C : Nat} {halt : Bool} {lim : Nat} {l : List Prog}
    (h : buildTreeSeq S C halt lim = .ok l) :
    l = (roots S C).flatMap fun i => branchL (S, C) lim (rootNode S C i) (slots0 S C halt) := by
  unfold buildTreeSeq at h
  cases hl : buildTreeLists S C halt lim with
  | error e => simp [hl] at h
  | ok ls =>
    simp only [hl, Except.ok.injEq] at h
    rw [← h, buildTreeLists_ok hl, List.flatMap_def]

theorem buildTreeSeq_ok_iff (S C : Nat) (halt : Bool) (lim : Nat) (l : List Prog) :
    buildTreeSeq S C halt lim = .ok l ↔
      ∃ ls, buildTreeLists S C halt lim = .ok ls ∧ l = ls.flatten := by
  unfold buildTreeSeq
  cases buildTreeLists S C halt lim with
  | error e => simp
  | ok ls => simp [eq_comm]

/-- `buildTreeLists` fails exactly when some task fails (whatever the schedule: a panic in any
    task makes the whole call panic). -/
theorem buildTreeLists_error_iff_task (S C : Nat) (halt : Bool) (lim : Nat) :
    (∃ e, buildTreeLists S C halt lim = .error e) ↔
      ∃ i ∈ roots S C, ∃ e, buildTask S C halt lim i = .error e := by
  unfold buildTreeLists buildTree
  rw [sequenceTasks_error_iff]
  constructor
  · rintro ⟨r, hr, e, rfl⟩
    obtain ⟨i, hi, hie⟩ := List.mem_map.mp hr
    exact ⟨i, hi, e, hie⟩
  · rintro ⟨i, hi, e, he⟩
    exact ⟨_, List.mem_map.mpr ⟨i, hi, rfl⟩, e, he⟩

end BB.Tree
