/-
C05 — segment analysis.  Part 20: for the goal `blank` the search never ends with an empty stack:
the initial positions are tried in order, the last one (`seg - 1`) is still missing from
`blanks[0]` while the earlier ones are processed, and when it is finally tried all `seg`
positions are in the union of the `blanks` sets, so `check_reached_blank` answers `reached`.
Hence `segCantBlank` never answers `refuted`.
-/
import BB.Lemmas.SegSound19

namespace BB.Segment

open BB

/-- how the bookkeeping may change (goal `blank`): new positions in `blanks` satisfy `P` and are
    below `seg`, new configurations on the stack are good -/
structure BFrame (seg : Nat) (P : Nat → Nat → Prop) (c c' : Configs) : Prop where
  segEq : c'.seg = c.seg
  raw : RawBound seg c.blanks → RawBound seg c'.blanks
  dnew : ∀ q pos, DHas c'.blanks q pos → DHas c.blanks q pos ∨ P q pos
  todoNew : ∀ x ∈ c'.todo, x ∈ c.todo ∨ Good seg x.tape

theorem BFrame.refl (seg : Nat) (P : Nat → Nat → Prop) (c : Configs) : BFrame seg P c c :=
  ⟨rfl, fun h => h, fun _ _ h => Or.inl h, fun _ h => Or.inl h⟩

theorem BFrame.trans {seg : Nat} {P : Nat → Nat → Prop} {a b c : Configs}
    (h1 : BFrame seg P a b) (h2 : BFrame seg P b c) : BFrame seg P a c := by
  refine ⟨h2.segEq.trans h1.segEq, fun h => h2.raw (h1.raw h), ?_, ?_⟩
  · intro q pos h
    rcases h2.dnew q pos h with h | h
    · exact h1.dnew q pos h
    · exact Or.inr h
  · intro x hx
    rcases h2.todoNew x hx with h | h
    · exact h1.todoNew x h
    · exact Or.inr h

theorem BFrame.mono {seg : Nat} {P P' : Nat → Nat → Prop} {a b : Configs}
    (h : BFrame seg P a b) (hp : ∀ q pos, P q pos → P' q pos) : BFrame seg P' a b :=
  ⟨h.segEq, h.raw, fun q pos hd => (h.dnew q pos hd).imp id (hp q pos), h.todoNew⟩

theorem bframe_blanks {seg : Nat} (hseg : 4 ≤ seg) (c : Configs) (k : Nat) {t : Tape}
    (hg : Good seg t) :
    BFrame seg (fun q pos => q = k ∧ pos = Tape.pos t) c
      { c with blanks := dictSetInsert c.blanks k (Tape.pos t) } := by
  refine ⟨rfl, fun h => rawBound_insert h k (hg.pos_lt hseg), ?_, fun _ h => Or.inl h⟩
  intro q pos hd
  simp only at hd
  rw [dHas_dictSetInsert] at hd
  exact hd

/-- `check_seen` followed by `add_todo` when new -/
theorem checkSeen_bframe {seg : Nat} (hseg : 4 ≤ seg) (c : Configs) (state : Nat) (tape : Tape)
    (blank : Bool) (hgood : Good seg tape) :
    BFrame seg (fun _ pos => blank = true ∧ pos = Tape.pos tape) c
      (match Configs.checkSeen c state tape blank with
        | (none, c1) => c1
        | (some init, c1) => Configs.addTodo c1 ⟨state, tape, init⟩) := by
  rcases checkSeen_cases c state tape blank with ⟨he, _⟩ | ⟨hbl, _, he⟩ | ⟨_, _, he⟩
  · rw [he]; exact BFrame.refl _ _ _
  · rw [he]
    simp only
    refine ⟨rfl, fun h => rawBound_insert h state (hgood.pos_lt hseg), ?_, ?_⟩
    · intro q pos hd
      simp only [Configs.addTodo] at hd
      rw [dHas_dictSetInsert] at hd
      exact hd.imp id (fun h => ⟨hbl, h.2⟩)
    · intro x hx
      simp only [Configs.addTodo, List.mem_cons] at hx
      rcases hx with rfl | hx
      · exact Or.inr hgood
      · exact Or.inl hx
  · rw [he]
    simp only
    refine ⟨rfl, fun h => h, fun _ _ hd => Or.inl hd, ?_⟩
    intro x hx
    simp only [Configs.addTodo, List.mem_cons] at hx
    rcases hx with rfl | hx
    · exact Or.inr hgood
    · exact Or.inl hx

theorem branchOut_bframe {seg : Nat} (hseg : 4 ≤ seg) (config : Config) (blank : Bool)
    (hgood : Good seg config.tape) :
    ∀ (l : List Nat) (c : Configs),
      BFrame seg (fun _ pos => blank = true ∧ pos = Tape.pos config.tape) c
        (Configs.branchOut c config blank l) := by
  intro l
  induction l with
  | nil => intro c; exact BFrame.refl _ _ _
  | cons state rest ih =>
    intro c
    have hcs := checkSeen_bframe hseg c state config.tape blank hgood
    have e : Configs.branchOut c config blank (state :: rest) =
        Configs.branchOut (match Configs.checkSeen c state config.tape blank with
          | (none, c1) => c1
          | (some init, c1) => Configs.addTodo c1 ⟨state, config.tape, init⟩) config blank rest := by
      simp only [Configs.branchOut]
      generalize Configs.checkSeen c state config.tape blank = r
      obtain ⟨o, c1⟩ := r
      cases o <;> rfl
    rw [e]
    exact hcs.trans (ih _)

theorem branchInLoop_bframe {seg : Nat} (hseg : 4 ≤ seg) (tape nt : Tape) (shift blank : Bool)
    (hsi : Tape.stepIn tape shift = some nt) (hgood : Good seg nt) :
    ∀ (l : List Nat) (c c' : Configs), Configs.branchInLoop c tape shift blank l = some c' →
      BFrame seg (fun _ pos => blank = true ∧ pos = Tape.pos nt) c c' := by
  intro l
  induction l with
  | nil =>
    intro c c' h
    simp only [Configs.branchInLoop, Option.some.injEq] at h
    subst h; exact BFrame.refl _ _ _
  | cons state rest ih =>
    intro c c' h
    have hcs := checkSeen_bframe hseg c state nt blank hgood
    have e : Configs.branchInLoop c tape shift blank (state :: rest) =
        Configs.branchInLoop (match Configs.checkSeen c state nt blank with
          | (none, c1) => c1
          | (some init, c1) => Configs.addTodo c1 ⟨state, nt, init⟩) tape shift blank rest := by
      simp only [Configs.branchInLoop, hsi]
      generalize Configs.checkSeen c state nt blank = r
      obtain ⟨o, c1⟩ := r
      cases o <;> rfl
    rw [e] at h
    exact hcs.trans (ih _ c' h)

/-- the branching part of `edgeStep` -/
theorem edgeBranch_bframe {seg : Nat} (hseg : 4 ≤ seg) (ap : AnalyzedProg) (config : Config)
    (cs cs2 : Configs) (hgood : Good seg config.tape)
    (h : edgeBranch ap config cs = .ok (.cont cs2)) :
    BFrame seg (fun _ pos => Tape.blank config.tape = true ∧ (pos = Tape.pos config.tape ∨
      ∃ sh nt, Tape.stepIn config.tape sh = some nt ∧ pos = Tape.pos nt)) cs cs2 := by
  unfold edgeBranch at h
  cases hbr : dictGet ap.branches config.state with
  | none => rw [hbr] at h; cases h
  | some dd =>
    obtain ⟨diffs, dirs⟩ := dd
    rw [hbr] at h
    simp only at h
    cases hbi : Configs.branchIn cs config.tape dirs (Tape.blank config.tape) with
    | none => rw [hbi] at h; cases h
    | some c3 =>
      rw [hbi] at h
      simp only at h
      split at h
      · cases h
      · simp only [Except.ok.injEq, StepOut.cont.injEq] at h
        subst h
        have f2 := (branchOut_bframe hseg config (Tape.blank config.tape) hgood diffs c3).mono
          (P' := fun _ pos => Tape.blank config.tape = true ∧ (pos = Tape.pos config.tape ∨
            ∃ sh nt, Tape.stepIn config.tape sh = some nt ∧ pos = Tape.pos nt))
          (fun _ _ hp => ⟨hp.1, Or.inl hp.2⟩)
        refine BFrame.trans ?_ f2
        unfold Configs.branchIn at hbi
        cases hsd : Tape.side config.tape with
        | none => rw [hsd] at hbi; cases hbi
        | some side =>
          rw [hsd] at hbi
          simp only at hbi
          cases hsi : Tape.stepIn config.tape (!side) with
          | none =>
            cases hl : Dirs.get dirs (!side) with
            | nil =>
              rw [hl] at hbi
              simp only [Configs.branchInLoop, Option.some.injEq] at hbi
              subst hbi; exact BFrame.refl _ _ _
            | cons s rest =>
              rw [hl] at hbi
              simp [Configs.branchInLoop, hsi] at hbi
          | some nt =>
            have hg' := (Tape.stepIn_good hgood hsi).1
            exact (branchInLoop_bframe hseg config.tape nt (!side) _ hsi hg' _ cs c3 hbi).mono
              (fun _ _ hp => ⟨hp.1, Or.inr ⟨!side, nt, hsi, hp.2⟩⟩)

/-! ### `check_reached_blank` -/

theorem checkReachedBlank_bframe {seg : Nat} (hseg : 4 ≤ seg) (c : Configs) (config : Config)
    (hgood : Good seg config.tape) :
    BFrame seg (fun q pos => q = config.state ∧ pos = Tape.pos config.tape) c
      (Configs.checkReachedBlank c config).2 := by
  unfold Configs.checkReachedBlank
  cases dictGet c.blanks config.state with
  | none => exact BFrame.refl _ _ _
  | some s => exact bframe_blanks hseg c config.state hgood

/-- when all `seg` positions are in `blanks[0]`, a configuration in state 0 is `reached` -/
theorem checkReachedBlank_hit {seg : Nat} (hseg : 4 ≤ seg) (c : Configs) (config : Config)
    (hs : c.seg = seg) (hgood : Good seg config.tape) (hst : config.state = 0)
    (hraw : RawBound seg c.blanks)
    (hall : ∀ j, j < seg → DHas c.blanks 0 j) :
    (Configs.checkReachedBlank c config).1 = true := by
  unfold Configs.checkReachedBlank
  obtain ⟨s, hs0, _⟩ := hall 0 (by omega)
  rw [hst, hs0]
  simp only [beq_iff_eq]
  rw [hs]
  apply unionSize_eq (k := 0) (rawBound_insert hraw 0 (hgood.pos_lt hseg))
  intro j hj
  rw [dHas_dictSetInsert]
  exact Or.inl (hall j hj)

/-! ### `run_to_edge` on an initial configuration -/

theorem spinCheck_init {goal : Term} {slf : Config} (instr : Instr) (cf : Configs)
    (hi : slf.init = true) : (spinCheck goal slf instr cf).2 = cf := by
  unfold spinCheck
  split <;> first | rfl | (exfalso; simp_all)

/-- the outcomes of the blank test for the goal `blank` on a configuration with `init` set -/
theorem blankCheck_blank_init (instr : Instr) (self1 : Config) (cf : Configs)
    (hi : self1.init = true) :
    ((instr.1 ≠ 0 ∨ Tape.blank self1.tape = false) ∧
      blankCheck .blank instr self1 cf = (none, self1, cf)) ∨
    (blankCheck .blank instr self1 cf = (some .repeat, self1, cf)) ∨
    (instr.2.2 ≠ 0 ∧ Tape.blank self1.tape = true ∧
      blankCheck .blank instr self1 cf = (some (.found .blank), self1,
        { cf with blanks := dictSetInsert cf.blanks instr.2.2 (Tape.pos self1.tape) })) := by
  unfold blankCheck
  by_cases hA : (instr.1 == 0 && Tape.blank self1.tape) = true
  · simp only [hA, if_true]
    simp only [Bool.and_eq_true] at hA
    by_cases h0 : (instr.2.2 == 0) = true
    · simp only [h0, hi, Bool.and_self, if_true]
      exact Or.inr (Or.inl (by first | rfl | trivial))
    · have h0' : instr.2.2 ≠ 0 := by simpa using h0
      simp only [h0, Bool.false_and, Bool.false_eq_true, if_false, BEq.rfl, if_true]
      exact Or.inr (Or.inr ⟨h0', hA.2, by first | rfl | trivial⟩)
  · simp only [hA]
    refine Or.inl ⟨?_, by first | rfl | trivial⟩
    by_cases h1 : instr.1 = 0
    · right
      cases hb : Tape.blank self1.tape with
      | false => rfl
      | true => simp [h1, hb] at hA
    · exact Or.inl h1

structure RunInvB (seg : Nat) (cs0 : Configs) (slf : Config) (cf : Configs) : Prop where
  init : slf.init = true
  good : Good seg slf.tape
  edge : slf.tape.scan = none → Tape.blank slf.tape = false
  frame : BFrame seg (fun q _ => q ≠ 0) cs0 cf
  todo : cf.todo = cs0.todo

structure RunPostB (seg : Nat) (cs0 : Configs) (out : RunOut) : Prop where
  init : out.config.init = true
  good : Good seg out.config.tape
  frame : BFrame seg (fun q _ => q ≠ 0) cs0 out.configs
  todo : out.configs.todo = cs0.todo
  edge : out.result = none → Tape.blank out.config.tape = false
  blank : out.result = some (.found .blank) → out.config.state ≠ 0

theorem runBody_postB (prog : Prog) (seg : Nat) (hseg : 4 ≤ seg) (cs0 : Configs)
    (slf copy : Config) (step : Bool) (cf : Configs) (inv : RunInvB seg cs0 slf cf) :
    match runBody prog .blank slf copy step cf with
    | .error _ => True
    | .ok (.exit out) => RunPostB seg cs0 out
    | .ok (.loop s _ _ cf') => RunInvB seg cs0 s cf' := by
  unfold runBody
  cases hsl : Config.slot slf with
  | none =>
    exact ⟨inv.init, inv.good, inv.frame, inv.todo, fun _ => inv.edge (slot_none hsl), by simp⟩
  | some slot =>
    obtain ⟨s, hsc, rfl⟩ := slot_some hsl
    simp only
    cases hget : prog.get (slf.state, s) with
    | none => exact ⟨inv.init, inv.good, inv.frame, inv.todo, by simp, by simp⟩
    | some instr =>
      simp only
      rw [spinCheck_init instr cf inv.init]
      by_cases hsp : (spinCheck Term.blank slf instr cf).1 = true
      · simp only [hsp, if_true]
        exact ⟨inv.init, inv.good, inv.frame, inv.todo, by simp, by simp⟩
      · simp only [hsp]
        cases hst : Config.step slf instr with
        | none => trivial
        | some self1 =>
          simp only
          have hcs : cstep prog slf.core = some self1.core := cstep_of_step hsc hget hst
          have hgood1 : Good seg self1.tape := cstep_good (X := slf.core) inv.good hcs
          obtain ⟨hts, hstate1, hinit1⟩ := Config.step_core hst
          have hi1 : self1.init = true := by rw [hinit1]; exact inv.init
          have hnb : Tape.blank self1.tape = true → instr.1 = 0 := Tape.step_blank_print hts
          rcases blankCheck_blank_init instr self1 cf hi1 with ⟨hne, hbe⟩ | hbe | ⟨h0, hb, hbe⟩
          · rw [hbe]
            simp only
            have hedge : Tape.blank self1.tape = false := by
              rcases hne with hne | hne
              · cases hb : Tape.blank self1.tape with
                | false => rfl
                | true => exact absurd (hnb hb) hne
              · exact hne
            have hinv1 : RunInvB seg cs0 self1 cf :=
              ⟨hi1, hgood1, fun _ => hedge, inv.frame, inv.todo⟩
            have hpost1 : RunPostB seg cs0 ⟨some .repeat, self1, cf⟩ :=
              ⟨hi1, hgood1, inv.frame, inv.todo, by simp, by simp⟩
            cases step with
            | false => exact hinv1
            | true =>
              simp only [Bool.not_true, Bool.false_eq_true, if_false]
              cases copyStep prog copy with
              | none => trivial
              | some copy1 =>
                simp only
                by_cases heq : (copy1.state == self1.state && copy1.tape == self1.tape) = true
                · simp only [heq, if_true]; exact hpost1
                · simp only [heq]; exact hinv1
          · rw [hbe]
            exact ⟨hi1, hgood1, inv.frame, inv.todo, by simp, by simp⟩
          · rw [hbe]
            simp only
            refine ⟨hi1, hgood1, ?_, inv.todo, by simp, fun _ => by rw [hstate1]; exact h0⟩
            exact inv.frame.trans ((bframe_blanks hseg cf instr.2.2 hgood1).mono
              (fun q _ hq => by rw [hq.1]; exact h0))

theorem runToEdge_postB (prog : Prog) (seg : Nat) (hseg : 4 ≤ seg) (fuel : Nat) (slf : Config)
    (cs0 : Configs) (out : RunOut) (hi : slf.init = true) (hgood : Good seg slf.tape)
    {s : Nat} (hs : slf.tape.scan = some s)
    (h : runToEdge prog .blank fuel slf cs0 = .ok out) : RunPostB seg cs0 out := by
  unfold runToEdge at h
  rw [hs] at h
  simp only at h
  exact runLoop_induct prog .blank (fun s _ _ cf => RunInvB seg cs0 s cf) (RunPostB seg cs0)
    (fun s c st cf inv => runBody_postB prog seg hseg cs0 s c st cf inv) fuel slf slf false cs0 out
    ⟨hi, hgood, (fun h' => by rw [hs] at h'; cases h'), BFrame.refl _ _ _, rfl⟩ h

end BB.Segment
