/-
C05 — segment analysis.  Part 1: the definitions used by the statements of `BB/Props/C05.lean`
and the cell-level meaning of the segment tape operations (`Span.push`, `Span.pull`, `Span.take`,
`Tape.step`, `Tape.stepIn`).
-/
import BB.Model.Segment
import BB.Lemmas.LinRec

namespace BB.Segment

open BB

/-! ### Definitions that are part of the statements -/

/-- the cells of a span, nearest to the head first -/
def Span.unroll : Span → List Nat
  | [] => []
  | b :: rest => List.replicate b.count b.color ++ Span.unroll rest

/-- The L0 configuration that a segment configuration denotes when it is *exact*: the cells of the
    window are the cells of the two spans, every cell outside the window is blank; when the head is
    outside the window (`scan = none`) it stands on the (blank) cell next to the window, on the side
    whose span is empty. -/
def Config.toCfg (c : Config) : Cfg :=
  ⟨c.state, Span.unroll c.tape.lspan, c.tape.scan.getD 0, Span.unroll c.tape.rspan⟩

/-- `cfg` is, cell for cell, the configuration of the real machine `n` steps after the start from
    the blank tape. -/
def ExactAt (p : ProgF) (cfg : Config) (n : Nat) : Prop :=
  ∃ c, RunAt p n c ∧ c ≈c cfg.toCfg

/-- the invariant of the `init` flag: a flagged configuration is exact at some time -/
def InitExact (p : ProgF) (cfg : Config) : Prop :=
  cfg.init = true → ∃ n, ExactAt p cfg n

/-- Decidable hypothesis on the explicit table size: it has at least the start state 0 and the
    blank colour 0, and every state and every colour that the program mentions — in a key or inside
    an instruction — is below `params`. -/
def paramsCover (p : Prog) (params : Nat × Nat) : Bool :=
  decide (0 < params.1) && decide (0 < params.2) &&
  p.all fun kv =>
    decide (kv.1.1 < params.1) && decide (kv.1.2 < params.2) &&
    decide (kv.2.1 < params.2) && decide (kv.2.2.2 < params.1)

/-- decidable equality of answers (for the concrete witnesses and examples) -/
instance instDecidableEqSegRes : DecidableEq (Except Err SegmentResult) := fun a b =>
  match a, b with
  | .ok x, .ok y =>
    if h : x = y then isTrue (by rw [h]) else isFalse (by intro h'; cases h'; exact h rfl)
  | .error x, .error y =>
    if h : x = y then isTrue (by rw [h]) else isFalse (by intro h'; cases h'; exact h rfl)
  | .ok _, .error _ => isFalse (by intro h; cases h)
  | .error _, .ok _ => isFalse (by intro h; cases h)

/-! ### Well-formed segment tapes -/

/-- all block counts positive -/
def Span.Pos (s : Span) : Prop := ∀ b ∈ s, 0 < b.count

/-- block counts positive, and a head outside the window has an empty span on its side -/
structure Tape.WF (t : Tape) : Prop where
  lpos : Span.Pos t.lspan
  rpos : Span.Pos t.rspan
  edge : t.scan = none → t.lspan = [] ∨ t.rspan = []

theorem Span.pos_nil : Span.Pos [] := fun _ h => by cases h

theorem Span.Pos.tail {b : Block} {s : Span} (h : Span.Pos (b :: s)) : Span.Pos s :=
  fun x hx => h x (List.mem_cons_of_mem _ hx)

theorem Span.Pos.head {b : Block} {s : Span} (h : Span.Pos (b :: s)) : 0 < b.count :=
  h b List.mem_cons_self

theorem Span.Pos.cons {b : Block} {s : Span} (hb : 0 < b.count) (h : Span.Pos s) :
    Span.Pos (b :: s) := by
  intro x hx
  cases hx with
  | head => exact hb
  | tail _ hx' => exact h x hx'

@[simp] theorem Span.unroll_nil : Span.unroll [] = [] := rfl

@[simp] theorem Span.unroll_cons (b : Block) (s : Span) :
    Span.unroll (b :: s) = List.replicate b.count b.color ++ Span.unroll s := rfl

@[simp] theorem Span.len_nil : Span.len [] = 0 := rfl

@[simp] theorem Span.len_cons (b : Block) (s : Span) :
    Span.len (b :: s) = b.count + Span.len s := rfl

theorem Span.length_unroll (s : Span) : (Span.unroll s).length = Span.len s := by
  induction s with
  | nil => rfl
  | cons b rest ih => simp [ih]

theorem Span.isEmpty_iff {s : Span} (h : Span.Pos s) : Span.isEmpty s = true ↔ s = [] := by
  cases s with
  | nil => simp [Span.isEmpty]
  | cons b rest =>
    have := h.head
    simp [Span.isEmpty]
    omega

theorem Span.isEmpty_cons_false {b : Block} {s : Span} (h : Span.Pos (b :: s)) :
    Span.isEmpty (b :: s) = false := by
  cases hh : Span.isEmpty (b :: s) with
  | false => rfl
  | true => exact absurd ((Span.isEmpty_iff h).1 hh) (by simp)

/-! ### blank spans -/

theorem Span.blank_iff (s : Span) (h : Span.Pos s) :
    Span.blank s = true ↔ AllZero (Span.unroll s) := by
  induction s with
  | nil => simp [Span.blank, allZero_nil]
  | cons b rest ih =>
    have hb := h.head
    have ih' := ih h.tail
    simp only [Span.blank, List.all_cons, Bool.and_eq_true, beq_iff_eq, Span.unroll_cons,
      allZero_append] at ih' ⊢
    rw [ih']
    constructor
    · rintro ⟨h1, h2⟩
      exact ⟨by rw [h1]; exact allZero_replicate_zero _, h2⟩
    · rintro ⟨h1, h2⟩
      refine ⟨?_, h2⟩
      have := h1 0
      rwa [cellAt_replicate hb] at this

/-! ### push -/

theorem Span.unroll_push (U : Span) (pr k : Nat) :
    Span.unroll (Span.push U pr k) = List.replicate k pr ++ Span.unroll U := by
  unfold Span.push
  cases U with
  | nil => simp [Span.pushBlock]
  | cons b rest =>
    by_cases hb : b.color = pr
    · subst hb
      simp only [BEq.rfl, if_true, Span.unroll_cons]
      rw [← List.append_assoc, List.replicate_append_replicate, Nat.add_comm]
    · have : (b.color == pr) = false := by simpa using hb
      simp [this, Span.pushBlock]

theorem Span.push_pos {U : Span} (hU : Span.Pos U) (pr : Nat) {k : Nat} (hk : 0 < k) :
    Span.Pos (Span.push U pr k) := by
  unfold Span.push
  cases U with
  | nil => exact Span.Pos.cons hk Span.pos_nil
  | cons b rest =>
    by_cases hb : (b.color == pr) = true
    · simp only [hb, if_true]
      exact Span.Pos.cons (by simp; omega) hU.tail
    · simp only [hb]
      exact Span.Pos.cons hk hU

theorem Span.len_push (U : Span) (pr k : Nat) : Span.len (Span.push U pr k) = Span.len U + k := by
  rw [← Span.length_unroll, Span.unroll_push, List.length_append, List.length_replicate,
    Span.length_unroll, Nat.add_comm]

theorem Span.push_ne_nil (U : Span) (pr k : Nat) : Span.push U pr k ≠ [] := by
  unfold Span.push
  cases U with
  | nil => simp [Span.pushBlock]
  | cons b rest => simp only [Span.pushBlock]; split <;> simp

/-! ### pull -/

/-- the second half of `Span.pull`: take one cell off the span -/
def Span.pullTail (s1 : Span) : Option Nat × Span :=
  match s1 with
  | [] => (none, [])
  | b :: rest =>
    if b.count > 1 then (some b.color, ⟨b.color, b.count - 1⟩ :: rest) else (some b.color, rest)

/-- the first half of `Span.pull`: drop the first block when sweeping over it -/
def Span.pullSkip (s : Span) (scan : Nat) (skip : Bool) : Nat × Span :=
  match s with
  | b :: rest => if skip && b.color == scan then (1 + b.count, rest) else (1, s)
  | [] => (1, s)

theorem Span.pullSkip_pos {s : Span} (h : Span.Pos s) (scan : Nat) (skip : Bool) :
    Span.Pos (Span.pullSkip s scan skip).2 := by
  unfold Span.pullSkip
  cases s with
  | nil => exact h
  | cons b rest =>
    simp only
    split
    · exact h.tail
    · exact h

theorem Span.pull_eq {s : Span} (h : Span.Pos s) (scan : Nat) (skip : Bool) :
    Span.pull s scan skip
      = ((Span.pullTail (Span.pullSkip s scan skip).2).1, (Span.pullSkip s scan skip).1,
         (Span.pullTail (Span.pullSkip s scan skip).2).2) := by
  have key : ∀ (s1 : Span) (stepped : Nat), Span.Pos s1 →
      (if Span.isEmpty s1 then ((none : Option Nat), stepped, s1)
        else
          match s1 with
          | b :: rest =>
            if b.count > 1 then (some b.color, stepped, ⟨b.color, b.count - 1⟩ :: rest)
            else (some b.color, stepped, rest)
          | [] => (none, stepped, s1))
      = ((Span.pullTail s1).1, stepped, (Span.pullTail s1).2) := by
    intro s1 stepped h1
    cases s1 with
    | nil => simp [Span.isEmpty, Span.pullTail]
    | cons b rest =>
      rw [Span.isEmpty_cons_false h1]
      simp only [Bool.false_eq_true, if_false, Span.pullTail]
      split <;> rfl
  have hp := Span.pullSkip_pos h scan skip
  unfold Span.pull
  cases s with
  | nil => exact key [] 1 Span.pos_nil
  | cons b rest =>
    rw [Span.isEmpty_cons_false h]
    simp only [Bool.not_false, Bool.and_true]
    by_cases hc : (skip && b.color == scan) = true
    · have e : Span.pullSkip (b :: rest) scan skip = (1 + b.count, rest) := by
        simp only [Span.pullSkip, hc, if_true]
      rw [e] at hp ⊢
      simp only [hc, if_true]
      exact key rest (1 + b.count) hp
    · have e : Span.pullSkip (b :: rest) scan skip = (1, b :: rest) := by
        simp only [Span.pullSkip, hc]; rfl
      rw [e] at hp ⊢
      simp only [hc]
      exact key (b :: rest) 1 hp

theorem Span.pullTail_spec {s1 : Span} (h : Span.Pos s1) :
    (match (Span.pullTail s1).1 with
      | some x => Span.unroll s1 = x :: Span.unroll (Span.pullTail s1).2
      | none => s1 = [] ∧ (Span.pullTail s1).2 = []) ∧
    Span.Pos (Span.pullTail s1).2 := by
  cases s1 with
  | nil => exact ⟨⟨rfl, rfl⟩, Span.pos_nil⟩
  | cons b rest =>
    have hb := h.head
    obtain ⟨k, hk⟩ : ∃ k, b.count = k + 1 := ⟨b.count - 1, by omega⟩
    by_cases hc : b.count > 1
    · simp only [Span.pullTail, hc, if_true, Span.unroll_cons]
      refine ⟨?_, Span.Pos.cons (by simp; omega) h.tail⟩
      simp [hk, List.replicate_succ]
    · have hk0 : k = 0 := by omega
      subst hk0
      simp only [Span.pullTail, hc, if_false, Span.unroll_cons]
      refine ⟨?_, h.tail⟩
      simp [hk]

/-- **Meaning of `pull`.**  The span pulled from starts with `n` cells of the scanned colour
    (`n = 0` unless sweeping); `n + 1` cells are stepped over; if a cell is left it becomes the
    scanned cell, otherwise the span is exhausted and the head leaves the window. -/
theorem Span.pull_spec {P : Span} (hP : Span.Pos P) (scan : Nat) (skip : Bool) :
    ∃ n rest, (Span.pull P scan skip).2.1 = n + 1 ∧
      Span.unroll P = List.replicate n scan ++ rest ∧ (n ≠ 0 → skip = true) ∧
      (match (Span.pull P scan skip).1 with
        | some x => rest = x :: Span.unroll (Span.pull P scan skip).2.2
        | none => rest = [] ∧ (Span.pull P scan skip).2.2 = []) ∧
      Span.Pos (Span.pull P scan skip).2.2 := by
  rw [Span.pull_eq hP]
  simp only
  cases P with
  | nil =>
    exact ⟨0, [], rfl, rfl, by simp, ⟨rfl, rfl⟩, Span.pos_nil⟩
  | cons b r =>
    by_cases h : (skip && b.color == scan) = true
    · have hs : Span.pullSkip (b :: r) scan skip = (1 + b.count, r) := by
        simp only [Span.pullSkip, h, if_true]
      simp only [Bool.and_eq_true, beq_iff_eq] at h
      obtain ⟨t1, t2⟩ := Span.pullTail_spec hP.tail
      rw [hs]
      refine ⟨b.count, Span.unroll r, by simp only; omega, ?_, fun _ => h.1, ?_, t2⟩
      · rw [Span.unroll_cons, h.2]
      · revert t1
        simp only
        cases (Span.pullTail r).1 with
        | some x => exact id
        | none => intro t1; exact ⟨by rw [t1.1]; rfl, t1.2⟩
    · have hs : Span.pullSkip (b :: r) scan skip = (1, b :: r) := by
        simp only [Span.pullSkip, h]; rfl
      obtain ⟨t1, t2⟩ := Span.pullTail_spec hP
      rw [hs]
      refine ⟨0, Span.unroll (b :: r), rfl, by simp, by simp, ?_, t2⟩
      revert t1
      simp only
      cases (Span.pullTail (b :: r)).1 with
      | some x => exact id
      | none => intro t1; exact absurd t1.1 (by simp)

/-! ### take -/

theorem Span.take_spec {P : Span} (hP : Span.Pos P) (hne : P ≠ []) :
    ∃ x P', Span.take P = some (x, P') ∧ Span.unroll P = x :: Span.unroll P' ∧ Span.Pos P' ∧
      Span.len P = Span.len P' + 1 := by
  cases P with
  | nil => exact absurd rfl hne
  | cons b rest =>
    have hb := hP.head
    unfold Span.take
    rw [Span.isEmpty_cons_false hP]
    obtain ⟨k, hk⟩ : ∃ k, b.count = k + 1 := ⟨b.count - 1, by omega⟩
    by_cases hc : b.count = 1
    · have hk0 : k = 0 := by omega
      subst hk0
      refine ⟨b.color, rest, by simp [hc], by simp [hk], hP.tail, by simp [hk]; omega⟩
    · have hc' : (b.count == 1) = false := by simpa using hc
      refine ⟨b.color, ⟨b.color, b.count - 1⟩ :: rest, by simp [hc'], ?_,
        Span.Pos.cons (by simp; omega) hP.tail, by simp; omega⟩
      simp [hk, List.replicate_succ]

/-! ### the configuration denoted by a tape, with arbitrary cells outside the window -/

/-- The L0 configuration in state `q` whose window cells are those of `t`, with `oL` / `oR` the cells
    to the left / right of the window (nearest first).  A head outside the window stands on the
    first outside cell. -/
def Tape.toCfgX (t : Tape) (q : Nat) (oL oR : List Nat) : Cfg :=
  match t.scan with
  | some s => ⟨q, Span.unroll t.lspan ++ oL, s, Span.unroll t.rspan ++ oR⟩
  | none =>
    if Span.isEmpty t.rspan then ⟨q, Span.unroll t.lspan ++ oL, oR.headD 0, oR.tail⟩
    else ⟨q, oL.tail, oL.headD 0, Span.unroll t.rspan ++ oR⟩

theorem Tape.toCfgX_nil {t : Tape} (h : t.WF) (q : Nat) :
    t.toCfgX q [] [] = (⟨q, t, false⟩ : Config).toCfg := by
  unfold Tape.toCfgX Config.toCfg
  cases hs : t.scan with
  | some s => simp
  | none =>
    by_cases he : Span.isEmpty t.rspan = true
    · have := (Span.isEmpty_iff h.rpos).1 he
      rw [if_pos he]
      simp [this]
    · have hr : t.rspan ≠ [] := fun hr => he (by rw [hr]; rfl)
      have hl : t.lspan = [] := (h.edge hs).resolve_right hr
      rw [if_neg he]
      simp [hl]

theorem Config.toCfg_eq (c : Config) (h : c.tape.WF) :
    c.toCfg = c.tape.toCfgX c.state [] [] := by
  rw [Tape.toCfgX_nil h]; rfl

@[simp] theorem Tape.toCfgX_state (t : Tape) (q : Nat) (oL oR : List Nat) :
    (t.toCfgX q oL oR).state = q := by
  unfold Tape.toCfgX
  split
  · rfl
  · split <;> rfl

theorem Tape.toCfgX_scan {t : Tape} {s : Nat} (hs : t.scan = some s) (q : Nat) (oL oR : List Nat) :
    (t.toCfgX q oL oR).scan = s := by
  unfold Tape.toCfgX; rw [hs]

/-! ### one `Tape.step` -/

/-- direction-generic core of `Tape.step`: pulling from `P`, pushing on `U` -/
theorem step_dir (p : ProgF) (d : Bool) (q pr q' scan : Nat) (P U : Span) (oP oU : List Nat)
    (hP : Span.Pos P) (hi : p q scan = some (pr, d, q')) :
    let r := Span.pull P scan (q' == q)
    (∀ j, j < r.2.1 →
      ∃ c, stepN p j (Cfg.ofDir d q (Span.unroll U ++ oU) scan (Span.unroll P ++ oP)) = some c
        ∧ c.state = q ∧ c.scan = scan) ∧
    stepN p r.2.1 (Cfg.ofDir d q (Span.unroll U ++ oU) scan (Span.unroll P ++ oP))
      = some (match r.1 with
        | some x => Cfg.ofDir d q' (Span.unroll (Span.push U pr r.2.1) ++ oU) x
                      (Span.unroll r.2.2 ++ oP)
        | none => Cfg.ofDir d q' (Span.unroll (Span.push U pr r.2.1) ++ oU) (oP.headD 0) oP.tail) := by
  intro r
  obtain ⟨n, rest, h1, h2, h3, h4, _⟩ := Span.pull_spec hP scan (q' == q)
  have hn : n ≠ 0 → q = q' := fun h => by
    have := h3 h
    simp only [beq_iff_eq] at this
    exact this.symm
  obtain ⟨s1, s2⟩ := sweep_run hi n hn (Span.unroll U ++ oU) (rest ++ oP)
  have e1 : r.2.1 = n + 1 := h1
  rw [e1, h2, List.append_assoc]
  refine ⟨s1, ?_⟩
  rw [s2, Span.unroll_push]
  congr 1
  have h4' : (match r.1 with
        | some x => rest = x :: Span.unroll r.2.2
        | none => rest = [] ∧ r.2.2 = []) := h4
  revert h4'
  cases r.1 with
  | some x =>
    intro h4
    simp only at h4 ⊢
    rw [h4]
    simp [List.append_assoc]
  | none =>
    intro h4
    simp only at h4 ⊢
    rw [h4.1]
    simp [List.append_assoc]

/-- number of window cells held by a tape -/
def Tape.cells (t : Tape) : Nat :=
  Span.len t.lspan + (if t.scan.isSome then 1 else 0) + Span.len t.rspan

theorem Span.pull_len {P : Span} (hP : Span.Pos P) (scan : Nat) (skip : Bool) :
    Span.len P + (if (Span.pull P scan skip).1.isSome then 0 else 1)
      = (Span.pull P scan skip).2.1 + Span.len (Span.pull P scan skip).2.2 := by
  obtain ⟨n, rest, h1, h2, _, h4, _⟩ := Span.pull_spec hP scan skip
  have hl := congrArg List.length h2
  rw [Span.length_unroll, List.length_append, List.length_replicate] at hl
  rw [h1, hl]
  revert h4
  cases (Span.pull P scan skip).1 with
  | some x =>
    intro h4
    simp only at h4
    rw [h4]
    simp [Span.length_unroll]
    omega
  | none =>
    intro h4
    simp only at h4
    rw [h4.1, h4.2]
    simp

/-- **Meaning of `Tape.step`** (head inside the window).  With arbitrary cells `oL`, `oR` outside
    the window, the L0 machine started in the configuration denoted by `t` makes `k ≥ 1` steps, all
    from the slot `(q, s)`, and arrives at the configuration denoted by the new tape. -/
theorem Tape.step_spec (p : ProgF) (t : Tape) (q pr q' s : Nat) (d : Bool) (oL oR : List Nat)
    (hwf : t.WF) (hs : t.scan = some s) (hi : p q s = some (pr, d, q')) :
    ∃ t' k, Tape.step t d pr (q' == q) = some t' ∧ t'.WF ∧ 0 < k ∧
      (∀ j, j < k → ∃ c, stepN p j (t.toCfgX q oL oR) = some c ∧ c.state = q ∧ c.scan = s) ∧
      stepN p k (t.toCfgX q oL oR) = some (t'.toCfgX q' oL oR) ∧
      Tape.cells t' = Tape.cells t ∧
      (Tape.pos t' : Int) = Tape.pos t + dirI d * k := by
  cases d with
  | true =>
    have hsd := step_dir p true q pr q' s t.rspan t.lspan oR oL hwf.rpos hi
    have hlen := Span.pull_len hwf.rpos s (q' == q)
    obtain ⟨n, rest, h1, _, _, h4, h5⟩ := Span.pull_spec hwf.rpos s (q' == q)
    simp only at hsd
    have hstep : Tape.step t true pr (q' == q)
        = some ⟨(Span.pull t.rspan s (q' == q)).1,
            Span.push t.lspan pr (Span.pull t.rspan s (q' == q)).2.1,
            (Span.pull t.rspan s (q' == q)).2.2⟩ := by
      simp only [Tape.step, hs, if_true]
    have hk : 0 < (Span.pull t.rspan s (q' == q)).2.1 := by omega
    have e0 : t.toCfgX q oL oR
        = Cfg.ofDir true q (Span.unroll t.lspan ++ oL) s (Span.unroll t.rspan ++ oR) := by
      simp only [Tape.toCfgX, hs, Cfg.ofDir, if_true]
    refine ⟨_, _, hstep, ⟨Span.push_pos hwf.lpos pr hk, h5, ?_⟩, hk, ?_, ?_, ?_, ?_⟩
    · intro hn
      simp only at hn
      rw [hn] at h4
      exact Or.inr h4.2
    · rw [e0]; exact hsd.1
    · rw [e0, hsd.2]
      congr 1
      revert h4
      simp only [Tape.toCfgX]
      cases (Span.pull t.rspan s (q' == q)).1 with
      | some x => intro _; simp only [Cfg.ofDir, if_true]
      | none =>
        intro h4
        simp only at h4
        simp only [h4.2, Cfg.ofDir, if_true]
        rfl
    · simp only [Tape.cells, hs, Option.isSome_some, if_true, Span.len_push]
      revert hlen
      cases (Span.pull t.rspan s (q' == q)).1 <;> simp <;> omega
    · have hp : 0 < Span.len t.lspan + (Span.pull t.rspan s (q' == q)).2.1 := by omega
      simp only [Tape.pos, hs, Option.isSome_some, Bool.true_or, if_true, Span.len_push, dirI,
        decide_eq_true hp, Bool.or_true]
      push_cast
      omega
  | false =>
    have hsd := step_dir p false q pr q' s t.lspan t.rspan oL oR hwf.lpos hi
    have hlen := Span.pull_len hwf.lpos s (q' == q)
    obtain ⟨n, rest, h1, _, _, h4, h5⟩ := Span.pull_spec hwf.lpos s (q' == q)
    simp only at hsd
    have hstep : Tape.step t false pr (q' == q)
        = some ⟨(Span.pull t.lspan s (q' == q)).1, (Span.pull t.lspan s (q' == q)).2.2,
            Span.push t.rspan pr (Span.pull t.lspan s (q' == q)).2.1⟩ := by
      simp only [Tape.step, hs, Bool.false_eq_true, if_false]
    have hk : 0 < (Span.pull t.lspan s (q' == q)).2.1 := by omega
    have hpp := Span.push_pos hwf.rpos pr hk
    have e0 : t.toCfgX q oL oR
        = Cfg.ofDir false q (Span.unroll t.rspan ++ oR) s (Span.unroll t.lspan ++ oL) := by
      simp only [Tape.toCfgX, hs, Cfg.ofDir, Bool.false_eq_true, if_false]
    refine ⟨_, _, hstep, ⟨h5, hpp, ?_⟩, hk, ?_, ?_, ?_, ?_⟩
    · intro hn
      simp only at hn
      rw [hn] at h4
      exact Or.inl h4.2
    · rw [e0]; exact hsd.1
    · rw [e0, hsd.2]
      congr 1
      revert h4
      simp only [Tape.toCfgX]
      cases (Span.pull t.lspan s (q' == q)).1 with
      | some x => intro _; simp only [Cfg.ofDir, Bool.false_eq_true, if_false]
      | none =>
        intro h4
        simp only at h4
        have hne : Span.isEmpty (Span.push t.rspan pr (Span.pull t.lspan s (q' == q)).2.1)
            = false := by
          cases hh : Span.isEmpty (Span.push t.rspan pr (Span.pull t.lspan s (q' == q)).2.1) with
          | false => rfl
          | true => exact absurd ((Span.isEmpty_iff hpp).1 hh) (Span.push_ne_nil _ _ _)
        simp only [hne, Cfg.ofDir, Bool.false_eq_true, if_false]
    · simp only [Tape.cells, hs, Option.isSome_some, if_true, Span.len_push]
      revert hlen
      cases (Span.pull t.lspan s (q' == q)).1 <;> simp <;> omega
    · simp only [Tape.pos, hs, Option.isSome_some, Bool.true_or, if_true, dirI,
        Bool.false_eq_true, if_false]
      revert hlen h4
      cases (Span.pull t.lspan s (q' == q)).1 with
      | some x =>
        intro hlen _
        simp only [Option.isSome_some, Bool.true_or, if_true] at hlen ⊢
        push_cast
        omega
      | none =>
        intro hlen h4
        simp only at h4
        simp only [h4.2, Span.len_nil, Option.isSome_none, Bool.false_eq_true, if_false] at hlen ⊢
        simp
        omega

end BB.Segment
