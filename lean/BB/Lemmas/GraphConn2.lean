/-
C14 support, part 2: what `get_exitpoints` computes.
-/
import BB.Lemmas.GraphConn

namespace BB.Graph

open BB

/-- keys strictly increasing -/
def SortedK (e : Exitpoints) : Prop := e.Pairwise (fun a b => a.1 < b.1)

theorem get_none_of_ne (e : Exitpoints) (s : Nat) (h : ∀ y ∈ e, y.1 ≠ s) : e.get s = none := by
  induction e with
  | nil => rfl
  | cons a rest ih =>
    obtain ⟨k, v⟩ := a
    have hk : k ≠ s := h (k, v) (List.mem_cons_self ..)
    simp only [Exitpoints.get, beq_iff_eq, hk, if_false]
    exact ih (fun y hy => h y (List.mem_cons_of_mem _ hy))

theorem get_mem (e : Exitpoints) (q : Nat) (v : List Nat) (h : e.get q = some v) : (q, v) ∈ e := by
  induction e with
  | nil => simp [Exitpoints.get] at h
  | cons a rest ih =>
    obtain ⟨k, w⟩ := a
    simp only [Exitpoints.get, beq_iff_eq] at h
    split at h
    · rename_i hk; subst hk; cases h; exact List.mem_cons_self ..
    · exact List.mem_cons_of_mem _ (ih h)

theorem get_isSome_of_key (e : Exitpoints) (q : Nat) (h : q ∈ e.map Prod.fst) :
    (e.get q).isSome = true := by
  induction e with
  | nil => simp at h
  | cons a rest ih =>
    obtain ⟨k, w⟩ := a
    simp only [Exitpoints.get, beq_iff_eq]
    split
    · rfl
    · rename_i hk
      simp only [List.map_cons, List.mem_cons] at h
      rcases h with h | h
      · exact absurd h.symm hk
      · exact ih h

theorem pushExit_key (e : Exitpoints) (s d : Nat) (y : Nat × List Nat)
    (h : y ∈ e.pushExit s d) : y.1 = s ∨ ∃ y' ∈ e, y'.1 = y.1 := by
  induction e with
  | nil => simp only [Exitpoints.pushExit, List.mem_singleton] at h; left; rw [h]
  | cons a rest ih =>
    obtain ⟨k, w⟩ := a
    simp only [Exitpoints.pushExit, beq_iff_eq] at h
    split at h
    · rename_i hk
      rcases List.mem_cons.mp h with h | h
      · left; rw [h]; exact hk
      · right; exact ⟨y, List.mem_cons_of_mem _ h, rfl⟩
    · split at h
      · rcases List.mem_cons.mp h with h | h
        · left; rw [h]
        · right; exact ⟨y, h, rfl⟩
      · rcases List.mem_cons.mp h with h | h
        · right; exact ⟨(k, w), List.mem_cons_self .., by rw [h]⟩
        · rcases ih h with h | ⟨y', hy', hk⟩
          · left; exact h
          · right; exact ⟨y', List.mem_cons_of_mem _ hy', hk⟩

theorem pushExit_sorted (e : Exitpoints) (s d : Nat) (h : SortedK e) : SortedK (e.pushExit s d) := by
  induction e with
  | nil => simp [Exitpoints.pushExit, SortedK]
  | cons a rest ih =>
    obtain ⟨k, w⟩ := a
    have hc := List.pairwise_cons.mp h
    simp only [Exitpoints.pushExit, beq_iff_eq]
    split
    · exact List.pairwise_cons.mpr ⟨hc.1, hc.2⟩
    · split
      · rename_i _ hlt
        refine List.pairwise_cons.mpr ⟨?_, h⟩
        intro y hy
        rcases List.mem_cons.mp hy with rfl | hy
        · exact hlt
        · exact Nat.lt_trans hlt (hc.1 y hy)
      · rename_i hne hnlt
        refine List.pairwise_cons.mpr ⟨?_, ih hc.2⟩
        intro y hy
        rcases pushExit_key rest s d y hy with h1 | ⟨y', hy', h1⟩
        · show k < y.1
          omega
        · show k < y.1
          rw [← h1]; exact hc.1 y' hy'

/-- the value list of a key, `[]` when absent -/
def val (e : Exitpoints) (q : Nat) : List Nat := (e.get q).getD []

theorem get_pushExit (e : Exitpoints) (s d q : Nat) (h : SortedK e) :
    (e.pushExit s d).get q = if q = s then some (val e s ++ [d]) else e.get q := by
  induction e with
  | nil =>
    simp only [Exitpoints.pushExit, Exitpoints.get, beq_iff_eq, val, Option.getD_none,
      List.nil_append]
    by_cases hq : q = s
    · subst hq; simp
    · have : ¬ s = q := fun h => hq h.symm
      simp [hq, this]
  | cons a rest ih =>
    obtain ⟨k, w⟩ := a
    have hc := List.pairwise_cons.mp h
    simp only [Exitpoints.pushExit, beq_iff_eq]
    split
    · rename_i hk
      subst hk
      simp only [Exitpoints.get, beq_iff_eq, val, if_true, BEq.rfl, Option.getD_some]
      by_cases hq : q = k
      · subst hq; simp
      · have : ¬ k = q := fun h => hq h.symm
        simp [hq, this]
    · split
      · rename_i hne hlt
        have hnone : Exitpoints.get ((k, w) :: rest) s = none := by
          apply get_none_of_ne
          intro y hy
          rcases List.mem_cons.mp hy with rfl | hy
          · exact hne
          · have := hc.1 y hy
            show y.1 ≠ s
            omega
        by_cases hq : q = s
        · subst hq
          simp only [val, hnone, Option.getD_none, List.nil_append, if_true]
          simp [Exitpoints.get]
        · have : ¬ s = q := fun h => hq h.symm
          simp only [Exitpoints.get, beq_iff_eq, this, if_false, hq]
      · rename_i hne hnlt
        simp only [Exitpoints.get, beq_iff_eq, ih hc.2, val, hne, if_false]
        by_cases hq : q = s
        · subst hq
          simp [hne]
        · simp [hq]

/-- the fold step of `get_exitpoints` -/
def exStep (e : Exitpoints) (kv : Slot × Instr) : Exitpoints :=
  if kv.1.1 == kv.2.2.2 then e else e.pushExit kv.1.1 kv.2.2.2

/-- targets of the listed entries of state `q` that leave `q`, in table order -/
def exitsOf (p : Prog) (q : Nat) : List Nat :=
  (p.filter fun kv => kv.1.1 == q && kv.2.2.2 != q).map fun kv => kv.2.2.2

theorem exStep_sorted (e : Exitpoints) (kv : Slot × Instr) (h : SortedK e) :
    SortedK (exStep e kv) := by
  unfold exStep; split
  · exact h
  · exact pushExit_sorted _ _ _ h

theorem fold_sorted (l : Prog) (e : Exitpoints) (h : SortedK e) : SortedK (l.foldl exStep e) := by
  induction l generalizing e with
  | nil => exact h
  | cons kv l ih => exact ih _ (exStep_sorted e kv h)

theorem fold_get (l : Prog) (e : Exitpoints) (q : Nat) (h : SortedK e) :
    (l.foldl exStep e).get q =
      if exitsOf l q = [] then e.get q else some (val e q ++ exitsOf l q) := by
  induction l generalizing e with
  | nil => simp [exitsOf]
  | cons kv l ih =>
    rw [List.foldl_cons, ih _ (exStep_sorted e kv h)]
    unfold exStep
    by_cases hself : kv.1.1 = kv.2.2.2
    · have hf : (kv.1.1 == q && kv.2.2.2 != q) = false := by
        by_cases hq : kv.1.1 = q
        · have : kv.2.2.2 = q := by rw [← hself]; exact hq
          simp [this]
        · simp [hq]
      have he : exitsOf (kv :: l) q = exitsOf l q := by
        simp only [exitsOf, List.filter_cons, hf]; rfl
      simp only [hself, BEq.rfl, if_true, he]
    · have hb : (kv.1.1 == kv.2.2.2) = false := by simp [hself]
      simp only [hb, Bool.false_eq_true, if_false]
      by_cases hq : q = kv.1.1
      · have hf : (kv.1.1 == q && kv.2.2.2 != q) = true := by
          subst hq
          simp only [BEq.rfl, Bool.true_and, bne_iff_ne, ne_eq]
          exact fun h => hself h.symm
        have he : exitsOf (kv :: l) q = kv.2.2.2 :: exitsOf l q := by
          simp only [exitsOf, List.filter_cons, hf, if_true, List.map_cons]
        rw [he]
        simp only [get_pushExit _ _ _ _ h, val, hq, if_true, Option.getD_some]
        split <;> simp_all
      · have hf : (kv.1.1 == q && kv.2.2.2 != q) = false := by
          have : ¬ kv.1.1 = q := fun h => hq h.symm
          simp [this]
        have he : exitsOf (kv :: l) q = exitsOf l q := by
          simp only [exitsOf, List.filter_cons, hf]; rfl
        simp only [he, get_pushExit _ _ _ _ h, val, hq, if_false]

theorem get_map (e : Exitpoints) (g : List Nat → List Nat) (q : Nat) :
    Exitpoints.get (e.map fun kv => (kv.1, g kv.2)) q = (e.get q).map g := by
  induction e with
  | nil => rfl
  | cons a rest ih =>
    obtain ⟨k, w⟩ := a
    simp only [List.map_cons, Exitpoints.get, ih]
    split <;> simp

theorem getExitpoints_eq (p : Prog) :
    getExitpoints p = (p.foldl exStep []).map fun kv => (kv.1, dedup (sortNat kv.2)) := rfl

theorem mem_exitsOf (p : Prog) (q x : Nat) : x ∈ exitsOf p q ↔ EdgeL p q x ∧ x ≠ q := by
  simp only [exitsOf, List.mem_map, List.mem_filter, Bool.and_eq_true, beq_iff_eq, bne_iff_ne,
    EdgeL]
  constructor
  · rintro ⟨kv, ⟨hkv, h1, h2⟩, rfl⟩
    exact ⟨⟨kv, hkv, h1, rfl⟩, h2⟩
  · rintro ⟨⟨kv, hkv, h1, rfl⟩, h2⟩
    exact ⟨kv, ⟨hkv, h1, h2⟩, rfl⟩

/-! ### sort and dedup -/

theorem mem_insertSorted (x y : Nat) (l : List Nat) : y ∈ insertSorted x l ↔ y = x ∨ y ∈ l := by
  induction l with
  | nil => simp [insertSorted]
  | cons a l ih =>
    simp only [insertSorted]
    split
    · simp
    · simp only [List.mem_cons, ih]
      constructor
      · rintro (h | h | h) <;> simp [h]
      · rintro (h | h | h) <;> simp [h]

theorem length_insertSorted (x : Nat) (l : List Nat) : (insertSorted x l).length = l.length + 1 := by
  induction l with
  | nil => rfl
  | cons a l ih =>
    simp only [insertSorted]
    split
    · simp
    · simp [ih]

theorem nodup_insertSorted (x : Nat) (l : List Nat) (hx : x ∉ l) (h : l.Nodup) :
    (insertSorted x l).Nodup := by
  induction l with
  | nil => simp [insertSorted]
  | cons a l ih =>
    have hc := List.nodup_cons.mp h
    simp only [insertSorted]
    split
    · exact List.nodup_cons.mpr ⟨hx, h⟩
    · refine List.nodup_cons.mpr ⟨?_, ih (fun h' => hx (List.mem_cons_of_mem _ h')) hc.2⟩
      rw [mem_insertSorted]
      rintro (h' | h')
      · exact hx (h' ▸ List.mem_cons_self ..)
      · exact hc.1 h'

theorem sorted_insertSorted (x : Nat) (l : List Nat) (h : l.Pairwise (· ≤ ·)) :
    (insertSorted x l).Pairwise (· ≤ ·) := by
  induction l with
  | nil => simp [insertSorted]
  | cons a l ih =>
    have hc := List.pairwise_cons.mp h
    simp only [insertSorted]
    split
    · rename_i hle
      refine List.pairwise_cons.mpr ⟨?_, h⟩
      intro y hy
      rcases List.mem_cons.mp hy with rfl | hy
      · exact hle
      · exact Nat.le_trans hle (hc.1 y hy)
    · rename_i hnle
      refine List.pairwise_cons.mpr ⟨?_, ih hc.2⟩
      intro y hy
      rcases (mem_insertSorted x y l).mp hy with rfl | hy
      · omega
      · exact hc.1 y hy

theorem mem_sortNat (y : Nat) (l : List Nat) : y ∈ sortNat l ↔ y ∈ l := by
  induction l with
  | nil => simp [sortNat]
  | cons a l ih => simp [sortNat, mem_insertSorted, ih]

theorem sorted_sortNat (l : List Nat) : (sortNat l).Pairwise (· ≤ ·) := by
  induction l with
  | nil => simp [sortNat]
  | cons a l ih => exact sorted_insertSorted _ _ ih

theorem mem_dedup (y : Nat) (l : List Nat) : y ∈ dedup l ↔ y ∈ l := by
  fun_induction dedup l with
  | case1 => simp
  | case2 => simp
  | case3 x z rest hxz ih =>
    have : x = z := by simpa using hxz
    subst this
    simp [ih]
  | case4 x z rest hxz ih =>
    simp only [List.mem_cons] at ih ⊢
    rw [ih]

theorem strict_dedup (l : List Nat) (h : l.Pairwise (· ≤ ·)) : (dedup l).Pairwise (· < ·) := by
  fun_induction dedup l with
  | case1 => simp
  | case2 => simp
  | case3 x z rest hxz ih => exact ih (List.pairwise_cons.mp h).2
  | case4 x z rest hxz ih =>
    have hc := List.pairwise_cons.mp h
    have hc2 := List.pairwise_cons.mp hc.2
    refine List.pairwise_cons.mpr ⟨?_, ih hc.2⟩
    intro y hy
    have hy' := (mem_dedup y (z :: rest)).mp hy
    have hne : x ≠ z := by simpa using hxz
    have hxz' : x ≤ z := hc.1 z (List.mem_cons_self ..)
    rcases List.mem_cons.mp hy' with rfl | hy'
    · omega
    · have := hc2.1 y hy'
      omega

theorem nodup_of_strict (l : List Nat) (h : l.Pairwise (· < ·)) : l.Nodup :=
  h.imp (fun hab => Nat.ne_of_lt hab)

theorem nodup_dedup_sortNat (l : List Nat) : (dedup (sortNat l)).Nodup :=
  nodup_of_strict _ (strict_dedup _ (sorted_sortNat l))

/-! ### The specification of `get_exitpoints` -/

theorem getExitpoints_get (p : Prog) (q : Nat) :
    (getExitpoints p).get q =
      if exitsOf p q = [] then none else some (dedup (sortNat (exitsOf p q))) := by
  rw [getExitpoints_eq, get_map _ (fun v => dedup (sortNat v)), fold_get _ _ _ (by simp [SortedK])]
  split <;> simp [Exitpoints.get, val]

/-- recorded exits are exactly the listed edges to a different state -/
theorem exE_iff (p : Prog) (q x : Nat) : ExE (getExitpoints p) q x ↔ EdgeL p q x ∧ x ≠ q := by
  unfold ExE
  rw [getExitpoints_get, ← mem_exitsOf]
  split
  · rename_i h; simp [h]
  · simp [mem_dedup, mem_sortNat]

theorem getExitpoints_isSome (p : Prog) (q : Nat) :
    ((getExitpoints p).get q).isSome = true ↔ ∃ x, EdgeL p q x ∧ x ≠ q := by
  rw [getExitpoints_get]
  constructor
  · intro h
    split at h
    · simp at h
    · rename_i hne
      obtain ⟨x, hx⟩ := List.exists_mem_of_ne_nil _ hne
      exact ⟨x, (mem_exitsOf p q x).mp hx⟩
  · rintro ⟨x, hx⟩
    have := (mem_exitsOf p q x).mpr hx
    have hne : exitsOf p q ≠ [] := List.ne_nil_of_mem this
    simp [hne]

theorem getExitpoints_val_nodup (p : Prog) (q : Nat) (v : List Nat)
    (h : (getExitpoints p).get q = some v) : v.Nodup := by
  rw [getExitpoints_get] at h
  split at h
  · cases h
  · cases h; exact nodup_dedup_sortNat _

theorem getExitpoints_keys_nodup (p : Prog) : ((getExitpoints p).map Prod.fst).Nodup := by
  rw [getExitpoints_eq, List.map_map]
  have hs : SortedK (p.foldl exStep []) := fold_sorted p [] (by simp [SortedK])
  have : ((p.foldl exStep []).map Prod.fst).Pairwise (· < ·) := by
    rw [List.pairwise_map]; exact hs
  exact nodup_of_strict _ this

theorem getExitpoints_key_iff (p : Prog) (q : Nat) :
    q ∈ (getExitpoints p).map Prod.fst ↔ ((getExitpoints p).get q).isSome = true := by
  constructor
  · exact get_isSome_of_key _ _
  · intro h
    obtain ⟨v, hv⟩ := Option.isSome_iff_exists.mp h
    exact List.mem_map.mpr ⟨(q, v), get_mem _ _ _ hv, rfl⟩

end BB.Graph
