/-
C05 — segment analysis.  Part 4: what `run_to_edge` guarantees about a configuration whose `init`
flag is set (`runToEdge_post`): it stays exact; a halt / spin-out found on it is real; a repeat
found on it means the machine never halts.
-/
import BB.Lemmas.SegSound3

namespace BB.Segment

open BB

/-! ### exactness of single operations -/

theorem ExactAt.congr_core {p : ProgF} {a b : Config} {n : Nat} (h : ExactAt p a n)
    (hs : a.state = b.state) (ht : a.tape = b.tape) : ExactAt p b n := by
  obtain ⟨c, hr, he⟩ := h
  refine ⟨c, hr, ?_⟩
  unfold Config.toCfg at he ⊢
  rw [← hs, ← ht]; exact he

/-- a blank window in state 0 is the initial configuration -/
theorem exact_of_blank {cfg : Config} (hwf : cfg.tape.WF) (hb : Tape.blank cfg.tape = true)
    (hs : cfg.state = 0) : Cfg.init ≈c cfg.toCfg := by
  unfold Tape.blank at hb
  simp only [Bool.and_eq_true] at hb
  obtain ⟨⟨h1, h2⟩, h3⟩ := hb
  have hl := (Span.blank_iff _ hwf.lpos).1 h2
  have hr := (Span.blank_iff _ hwf.rpos).1 h3
  refine ⟨hs.symm, ?_, sameCells_nil_left.2 hl, sameCells_nil_left.2 hr⟩
  show (0 : Nat) = cfg.tape.scan.getD 0
  cases hsc : cfg.tape.scan with
  | none => rfl
  | some c =>
    rw [hsc] at h1
    simp only [beq_iff_eq] at h1
    simp [h1]

theorem exactAt_zero_of_blank {p : ProgF} {cfg : Config} (hwf : cfg.tape.WF)
    (hb : Tape.blank cfg.tape = true) (hs : cfg.state = 0) : ExactAt p cfg 0 :=
  ⟨Cfg.init, rfl, exact_of_blank hwf hb hs⟩

/-- `Config.step` on an exact configuration -/
theorem Config.step_exact {prog : Prog} {c c' : Config} {s : Nat} {instr : Instr}
    (hwf : c.tape.WF) (hs : c.tape.scan = some s) (hg : prog.get (c.state, s) = some instr)
    (h : Config.step c instr = some c') :
    c'.tape.WF ∧ ∀ n, ExactAt prog.toF c n → ∃ k, 0 < k ∧ ExactAt prog.toF c' (n + k) := by
  have hc := cstep_of_step hs hg h
  have hwf' : c.core.2.WF := hwf
  refine ⟨(cstep_exact hwf' hc (Cfg.Equiv.refl _)).1, ?_⟩
  intro n ⟨c0, hr, he⟩
  obtain ⟨_, k, c1, hk, hst, he1⟩ := cstep_exact (c := c0) hwf' hc he
  exact ⟨k, hk, c1, stepN_add_of_eq hr hst, he1⟩

theorem copyStep_core {prog : Prog} {c c' : Config} (h : copyStep prog c = some c') (hwf : c.tape.WF) :
    cstep prog c.core = some c'.core ∧ c'.tape.WF := by
  unfold copyStep at h
  cases hs : Config.slot c with
  | none => rw [hs] at h; cases h
  | some slot =>
    rw [hs] at h
    simp only at h
    cases hg : prog.get slot with
    | none => rw [hg] at h; cases h
    | some instr =>
      rw [hg] at h
      simp only at h
      unfold Config.slot at hs
      cases hsc : c.tape.scan with
      | none => rw [hsc] at hs; cases hs
      | some s =>
        rw [hsc] at hs
        simp only [Option.some.injEq] at hs
        subst hs
        exact ⟨cstep_of_step hsc hg h, (Config.step_exact hwf hsc hg h).1⟩

/-! ### the checks of one iteration -/

theorem spinCheck_true {goal : Term} {self : Config} {instr : Instr} {configs : Configs}
    (h : (spinCheck goal self instr configs).1 = true) : Config.spinout self instr = true := by
  unfold spinCheck at h
  by_cases hc : ((self.init || goal == .spinout) && Config.spinout self instr) = true
  · simp only [Bool.and_eq_true] at hc
    exact hc.2
  · simp [hc] at h

/-- the three outcomes of the blank test after a step -/
theorem blankCheck_cases (goal : Term) (instr : Instr) (self : Config) (configs : Configs) :
    let blk := blankCheck goal instr self configs
    (blk.1 = none ∧ blk.2.1 = self) ∨
    (blk.1 = some .repeat ∧ blk.2.1 = self ∧ Tape.blank self.tape = true ∧ instr.2.2 = 0 ∧
      self.init = true) ∨
    (Tape.blank self.tape = true ∧
      blk.2.1 = (if instr.2.2 == 0 then { self with init := true } else self) ∧
      ((goal = .blank ∧ blk.1 = some (.found .blank)) ∨ (goal ≠ .blank ∧ blk.1 = none))) := by
  intro blk
  show _ ∨ _ ∨ _
  unfold blk blankCheck
  by_cases hA : (instr.1 == 0 && Tape.blank self.tape) = true
  · simp only [hA, if_true]
    simp only [Bool.and_eq_true] at hA
    by_cases hB : (instr.2.2 == 0 && self.init) = true
    · simp only [hB, if_true]
      simp only [Bool.and_eq_true, beq_iff_eq] at hB
      exact Or.inr (Or.inl ⟨by first | rfl | trivial, by first | rfl | trivial, hA.2, hB.1, hB.2⟩)
    · simp only [hB]
      refine Or.inr (Or.inr ⟨hA.2, ?_, ?_⟩)
      · by_cases hg : (goal == Term.blank) = true <;> simp [hg]
      · by_cases hg : (goal == Term.blank) = true
        · simp only [hg, if_true]
          exact Or.inl ⟨by simpa using hg, by first | rfl | trivial⟩
        · simp only [hg]
          exact Or.inr ⟨by simpa using hg, by first | rfl | trivial⟩
  · simp only [hA]
    simp

/-! ### invariant and postcondition of `runLoop` -/

structure RunInv (prog : Prog) (slf copy : Config) (step : Bool) : Prop where
  swf : slf.tape.WF
  cwf : copy.tape.WF
  lag : ∃ i, citer prog i copy.core = some slf.core ∧ (step = true → 0 < i)
  exa : InitExact prog.toF slf

structure RunPost (prog : Prog) (goal : Term) (out : RunOut) : Prop where
  wf : out.config.tape.WF
  exa : InitExact prog.toF out.config
  halt : out.result = some (.found .halt) →
    ∃ s, out.config.tape.scan = some s ∧ prog.get (out.config.state, s) = none
  spin : out.result = some (.found .spinout) →
    ∃ s instr, out.config.tape.scan = some s ∧ prog.get (out.config.state, s) = some instr ∧
      Config.spinout out.config instr = true
  rep : out.result = some .repeat → out.config.init = true →
    NeverHalts prog.toF ∧ (goal = .blank → ∃ n, 0 < n ∧ ExactAt prog.toF out.config n)
  edge : out.result = none → out.config.tape.scan = none

theorem slot_some {c : Config} {slot : Slot} (h : Config.slot c = some slot) :
    ∃ s, c.tape.scan = some s ∧ slot = (c.state, s) := by
  unfold Config.slot at h
  cases hs : c.tape.scan with
  | none => rw [hs] at h; cases h
  | some s =>
    rw [hs] at h
    simp only [Option.some.injEq] at h
    exact ⟨s, rfl, h.symm⟩

theorem slot_none {c : Config} (h : Config.slot c = none) : c.tape.scan = none := by
  unfold Config.slot at h
  cases hs : c.tape.scan with
  | none => rfl
  | some s => rw [hs] at h; cases h

theorem runBody_post (prog : Prog) (goal : Term) (self copy : Config) (step : Bool)
    (configs : Configs) (inv : RunInv prog self copy step) :
    match runBody prog goal self copy step configs with
    | .error _ => True
    | .ok (.exit out) => RunPost prog goal out
    | .ok (.loop s c st _) => RunInv prog s c st := by
  unfold runBody
  cases hsl : Config.slot self with
  | none =>
    exact ⟨inv.swf, inv.exa, by simp, by simp, by simp, fun _ => slot_none hsl⟩
  | some slot =>
    obtain ⟨s, hsc, rfl⟩ := slot_some hsl
    simp only
    cases hg : prog.get (self.state, s) with
    | none =>
      exact ⟨inv.swf, inv.exa, fun _ => ⟨s, hsc, hg⟩, by simp, by simp, by simp⟩
    | some instr =>
      simp only
      by_cases hsp : (spinCheck goal self instr configs).1 = true
      · simp only [hsp, if_true]
        exact ⟨inv.swf, inv.exa, by simp, fun _ => ⟨s, instr, hsc, hg, spinCheck_true hsp⟩,
          by simp, by simp⟩
      · simp only [hsp]
        cases hst : Config.step self instr with
        | none => trivial
        | some self1 =>
          simp only
          obtain ⟨hwf1, hex1⟩ := Config.step_exact inv.swf hsc hg hst
          obtain ⟨_, hstate1, hinit1⟩ := Config.step_core hst
          have hcs : cstep prog self.core = some self1.core := cstep_of_step hsc hg hst
          -- exactness of `self1`, with a positive time
          have hex1' : self1.init = true → ∃ n, 0 < n ∧ ExactAt prog.toF self1 n := by
            intro hi
            obtain ⟨n, hn⟩ := inv.exa (hinit1 ▸ hi)
            obtain ⟨k, hk, he⟩ := hex1 n hn
            exact ⟨n + k, by omega, he⟩
          generalize hblk : blankCheck goal instr self1 (spinCheck goal self instr configs).2 = blk
          have hcases := blankCheck_cases goal instr self1 (spinCheck goal self instr configs).2
          simp only [hblk] at hcases
          -- facts common to all outcomes of the blank test
          have hcore : blk.2.1.core = self1.core ∧ blk.2.1.tape.WF ∧ InitExact prog.toF blk.2.1 ∧
              (goal = .blank → blk.1 = none → blk.2.1.init = true →
                ∃ n, 0 < n ∧ ExactAt prog.toF blk.2.1 n) := by
            rcases hcases with ⟨_, h2⟩ | ⟨_, h2, _⟩ | ⟨hb, h2, h3⟩
            · rw [h2]
              exact ⟨rfl, hwf1, fun hi => (hex1' hi).imp fun _ h => h.2, fun _ _ hi => hex1' hi⟩
            · rw [h2]
              exact ⟨rfl, hwf1, fun hi => (hex1' hi).imp fun _ h => h.2, fun _ _ hi => hex1' hi⟩
            · rw [h2]
              by_cases h0 : (instr.2.2 == 0) = true
              · simp only [h0, if_true]
                refine ⟨rfl, hwf1, fun _ => ⟨0, ?_⟩, ?_⟩
                · apply exactAt_zero_of_blank hwf1 hb
                  show self1.state = 0
                  rw [hstate1]; simpa using h0
                · intro hgb hn
                  rcases h3 with ⟨_, h3⟩ | ⟨h3, _⟩
                  · rw [h3] at hn; cases hn
                  · exact absurd hgb h3
              · simp only [h0]
                exact ⟨rfl, hwf1, fun hi => (hex1' hi).imp fun _ h => h.2,
                  fun _ _ hi => hex1' hi⟩
          obtain ⟨hc1, hc2, hc3, hc4⟩ := hcore
          cases hb1 : blk.1 with
          | some r =>
            simp only
            refine ⟨hc2, hc3, ?_, ?_, ?_, by simp⟩
            · intro hr
              rcases hcases with ⟨h1, _⟩ | ⟨h1, _⟩ | ⟨_, _, ⟨_, h1⟩ | ⟨_, h1⟩⟩ <;>
                rw [h1] at hb1 <;> simp_all
            · intro hr
              rcases hcases with ⟨h1, _⟩ | ⟨h1, _⟩ | ⟨_, _, ⟨_, h1⟩ | ⟨_, h1⟩⟩ <;>
                rw [h1] at hb1 <;> simp_all
            · intro hr hi
              rcases hcases with ⟨h1, _⟩ | ⟨_, h2, hb, h0, hin⟩ | ⟨_, _, ⟨_, h1⟩ | ⟨_, h1⟩⟩
              · rw [h1] at hb1; cases hb1
              · -- back to the blank initial configuration
                rw [h2] at hi ⊢
                obtain ⟨n, hn, c, hrun, he⟩ := hex1' hin
                have hz : Cfg.init ≈c self1.toCfg :=
                  exact_of_blank hwf1 hb (by rw [hstate1]; exact h0)
                exact ⟨neverHalts_of_return hn hrun (he.trans hz.symm), fun _ => ⟨n, hn, c, hrun, he⟩⟩
              · rw [h1] at hb1
                simp only [Option.some.injEq] at hb1 hr
                rw [← hb1] at hr; cases hr
              · rw [h1] at hb1; cases hb1
          | none =>
            simp only
            obtain ⟨i, hi, hipos⟩ := inv.lag
            cases step with
            | false =>
              simp only [Bool.not_false, if_true]
              refine ⟨hc2, inv.cwf, ⟨i + 1, ?_, fun _ => Nat.succ_pos _⟩, hc3⟩
              rw [citer_succ_last, hi, hc1]
              exact hcs
            | true =>
              simp only [Bool.not_true, Bool.false_eq_true, if_false]
              cases hcp : copyStep prog copy with
              | none => trivial
              | some copy1 =>
                simp only
                obtain ⟨hcc, hcwf⟩ := copyStep_core hcp inv.cwf
                have hlag : citer prog i copy1.core = some blk.2.1.core := by
                  have h1 : citer prog (i + 1) copy.core = some self1.core := by
                    rw [citer_succ_last, hi]; exact hcs
                  rw [hc1]
                  simpa [citer, hcc] using h1
                by_cases heq : (copy1.state == blk.2.1.state && copy1.tape == blk.2.1.tape) = true
                · simp only [heq, if_true]
                  simp only [Bool.and_eq_true, beq_iff_eq] at heq
                  have hce : copy1.core = blk.2.1.core := by
                    unfold Config.core; rw [heq.1, heq.2]
                  rw [hce] at hlag
                  refine ⟨hc2, hc3, by simp, by simp, ?_, by simp⟩
                  intro _ hin
                  obtain ⟨n, c, hrun, he⟩ := hc3 hin
                  exact ⟨neverHalts_of_cycle (x := blk.2.1.core) hc2 (hipos rfl) hlag hrun he,
                    fun hgb => hc4 hgb hb1 hin⟩
                · simp only [heq]
                  exact ⟨hc2, hcwf, ⟨i, hlag, by simp⟩, hc3⟩

/-- **What `run_to_edge` guarantees.** -/
theorem runToEdge_post (prog : Prog) (goal : Term) (fuel : Nat) (self : Config) (configs : Configs)
    (out : RunOut) (hwf : self.tape.WF) (hex : InitExact prog.toF self)
    (h : runToEdge prog goal fuel self configs = .ok out) : RunPost prog goal out := by
  unfold runToEdge at h
  cases hs : self.tape.scan with
  | none =>
    rw [hs] at h
    simp only [Except.ok.injEq] at h
    subst h
    exact ⟨hwf, hex, by simp, by simp, by simp, fun _ => hs⟩
  | some s =>
    rw [hs] at h
    simp only at h
    exact runLoop_induct prog goal (fun s c st _ => RunInv prog s c st) (RunPost prog goal)
      (fun s c st cf inv => runBody_post prog goal s c st cf inv) fuel self self false configs out
      ⟨hwf, hwf, ⟨0, rfl, by simp⟩, hex⟩ h

end BB.Segment
