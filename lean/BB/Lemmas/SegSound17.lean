/-
C05 — segment analysis.  Part 17: a search that ends with an empty stack contradicts a real event
(`none_contra`): through every window placement the event is a recorded goal point, so some state
would have all `seg` positions recorded.
-/
import BB.Lemmas.SegSound16

namespace BB.Segment

open BB

/-! ### pigeonhole -/

theorem length_ge_of_all_mem : ∀ (n : Nat) (r : List Nat), (∀ o, o < n → o ∈ r) → n ≤ r.length := by
  intro n
  induction n with
  | zero => intro r _; exact Nat.zero_le _
  | succ n ih =>
    intro r h
    have hn : n ∈ r := h n (Nat.lt_succ_self n)
    have h' : ∀ o, o < n → o ∈ r.erase n := by
      intro o ho
      exact (List.mem_erase_of_ne (by omega)).2 (h o (by omega))
    have := ih (r.erase n) h'
    rw [List.length_erase_of_mem hn] at this
    have : 0 < r.length := List.length_pos_of_mem hn
    omega

/-! ### the initial bookkeeping -/

theorem reached_fold_nil {α : Type} (f : α → Nat) :
    ∀ (l : List α) (d : List (Nat × List Nat)), (∀ q r, dictGet d q = some r → r = []) →
      ∀ q r, dictGet (l.foldl (fun d x => dictSet d (f x) []) d) q = some r → r = [] := by
  intro l
  induction l with
  | nil => intro d h; exact h
  | cons x xs ih =>
    intro d h
    rw [List.foldl_cons]
    apply ih
    intro q r hr
    rw [dictGet_dictSet] at hr
    by_cases hq : q = f x
    · simp only [hq, if_true, Option.some.injEq] at hr; exact hr.symm
    · simp only [hq, if_false] at hr; exact h q r hr

theorem reached_fold_key {α : Type} (f : α → Nat) :
    ∀ (l : List α) (d : List (Nat × List Nat)) (q : Nat),
      ((dictGet d q).isSome = true ∨ ∃ x ∈ l, f x = q) →
      (dictGet (l.foldl (fun d x => dictSet d (f x) []) d) q).isSome = true := by
  intro l
  induction l with
  | nil =>
    intro d q h
    rcases h with h | ⟨x, hx, _⟩
    · exact h
    · cases hx
  | cons y ys ih =>
    intro d q h
    rw [List.foldl_cons]
    apply ih
    rcases h with h | ⟨x, hx, hfx⟩
    · left
      rw [dictGet_dictSet]
      split
      · rfl
      · exact h
    · simp only [List.mem_cons] at hx
      rcases hx with rfl | hx
      · left; rw [← hfx, dictGet_dictSet_self]; rfl
      · exact Or.inr ⟨x, hx, hfx⟩

theorem dictGet_mem {α : Type} {d : List (Nat × α)} {k : Nat} {v : α} (h : dictGet d k = some v) :
    (k, v) ∈ d := by
  induction d with
  | nil => simp [dictGet] at h
  | cons e rest ih =>
    obtain ⟨k0, v0⟩ := e
    simp only [dictGet] at h
    by_cases hk : (k0 == k) = true
    · simp only [hk, if_true, Option.some.injEq] at h
      simp only [beq_iff_eq] at hk
      rw [hk, h]; exact List.mem_cons_self
    · simp only [hk] at h
      exact List.mem_cons_of_mem _ (ih h)

/-- the states that have an entry in `reached` -/
def KeyOf (ap : AnalyzedProg) (goal : Term) (q : Nat) : Prop :=
  match goal with
  | .halt => q ∈ ap.halts
  | .spinout => ∃ sh, dictGet ap.spinouts q = some sh
  | .blank => False

theorem sinv_new (ap : AnalyzedProg) (goal : Term) (seg : Nat) (hseg : 0 < seg) :
    SInv ap goal seg (KeyOf ap goal) (fun _ => False) (Configs.new ap.halts ap.spinouts seg goal) := by
  refine ⟨rfl, ⟨fun _ h => h.elim, fun _ _ h => h.elim, fun _ _ h => h.elim, fun _ h => h.elim,
    fun _ h => h.elim⟩, ⟨?_, ?_, ?_⟩, ?_, ?_⟩
  · intro q t hs
    simp [SHas, Configs.new, dictGet, TapeSet.not_contains_empty] at hs
  · intro q pos hd
    obtain ⟨s, hs, _⟩ := hd
    simp [Configs.new, dictGet] at hs
  · intro c hc
    simp [Configs.new] at hc
  · intro q r hr
    have : r = [] := by
      cases goal with
      | blank => simp [Configs.new, dictGet] at hr
      | halt =>
        exact reached_fold_nil (fun s : Nat => s) ap.halts [] (fun _ _ h => by simp [dictGet] at h) q r hr
      | spinout =>
        exact reached_fold_nil (fun kv : Nat × Bool => kv.1) ap.spinouts []
          (fun _ _ h => by simp [dictGet] at h) q r hr
    rw [this]; exact hseg
  · intro q hq
    cases goal with
    | blank => exact hq.elim
    | halt =>
      exact reached_fold_key (fun s : Nat => s) ap.halts [] q (Or.inr ⟨q, hq, rfl⟩)
    | spinout =>
      obtain ⟨sh, hsh⟩ := hq
      exact reached_fold_key (fun kv : Nat × Bool => kv.1) ap.spinouts [] q
        (Or.inr ⟨(q, sh), dictGet_mem hsh, rfl⟩)

/-! ### from the final state to a closed explored set -/

theorem closed_of_sinv {ap : AnalyzedProg} {goal : Term} {seg : Nat} {K : Nat → Prop}
    {E : Core → Prop} {F : Configs} (h : SInv ap goal seg K E F) (htodo : F.todo = [])
    (hinit : ∀ pos, pos < seg → DHas F.blanks 0 pos) : Closed ap seg E := by
  refine ⟨h.clos.eGood, h.clos.eStep, ?_, ?_⟩
  · intro X Z hE hs he
    have hm := h.clos.eEdge X Z hE hs he
    unfold Marked at hm
    by_cases hb : Tape.blank Z.2 = true
    · rw [if_pos hb] at hm
      obtain ⟨t, t1, t2, t3, t4⟩ := h.mark.mBlank _ _ hm
      rcases t4 with t4 | ⟨c, hc, _⟩
      · exact ⟨t, t4, Or.inr ⟨t1, t2, hb, t3⟩⟩
      · rw [htodo] at hc; cases hc
    · rw [if_neg hb] at hm
      rcases h.mark.mSeen _ _ hm with h' | ⟨c, hc, _⟩
      · exact ⟨Z.2, h', Or.inl rfl⟩
      · rw [htodo] at hc; cases hc
  · intro pos hpos
    obtain ⟨t, t1, t2, t3, t4⟩ := h.mark.mBlank _ _ (hinit pos hpos)
    rcases t4 with t4 | ⟨c, hc, _⟩
    · exact ⟨t, t1, t2, t3, t4⟩
    · rw [htodo] at hc; cases hc

/-- **Core of the refutation argument.**  If the search for `goal` ends with an empty stack, there
    is no time `T`, not reached in the middle of a sweep, at which the real configuration is a goal
    point through every window placement and its state has an entry in `reached`. -/
theorem none_contra (ap : AnalyzedProg) (goal : Term) (hg : goal ≠ .blank) (seg : Nat)
    (hseg : 4 ≤ seg) (hbs : BranchSound ap)
    (h : allSegmentsReached ap seg goal = .ok none) {T : Nat} {cT : Cfg}
    (hrT : RunAt ap.prog.toF T cT) (hns : ∀ T', T' + 1 = T → NoSweepInto ap.prog.toF T')
    (hK : KeyOf ap goal cT.state)
    (hgoal : ∀ (X : Core) (o : Nat), o < seg → View cT (o : Int) X → Good seg X.2 →
      GoalIn ap.prog goal X ∨ GoalEdge ap goal X) : False := by
  unfold allSegmentsReached at h
  obtain ⟨E, F, hF, htodo, hinit⟩ := searchLoop_closed ap goal hg seg (KeyOf ap goal) _ _ _ _
    (sinv_new ap goal seg (by omega)) h
  have hcl := closed_of_sinv hF htodo hinit
  have hkey := hF.keys cT.state hK
  cases hr : dictGet F.reached cT.state with
  | none => rw [hr] at hkey; cases hkey
  | some r =>
    have hall : ∀ o, o < seg → o ∈ r := by
      intro o ho
      obtain ⟨X, hE, hv⟩ := sim_main hseg hcl hbs hrT hns (o : Int)
      have hgX := hcl.eGood X hE
      have hpos := View.pos_eq hseg hgX ho hv
      have hrec : Recorded F X := by
        rcases hgoal X o ho hv hgX with h' | h'
        · exact hF.clos.eGoalIn X hE h'
        · exact hF.clos.eGoalEdge X hE h'
      have := hrec r (by rw [← hv.1]; exact hr)
      rwa [hpos] at this
    have h1 := length_ge_of_all_mem seg r hall
    have h2 := hF.rLen _ _ hr
    omega

end BB.Segment
