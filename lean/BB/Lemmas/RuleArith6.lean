/-
C11 (rule arithmetic is exact), part 6: the integer-arithmetic forms of the `count_apps` facts,
positivity, absence of panics, the `None` characterisation.
-/
import BB.Lemmas.RuleArith5

namespace BB.RuleArith

open BB

/-! ### count_apps, in integer arithmetic -/

theorem count_apps_max' (t : Tape) (rule : Rule) (times : Nat) (pos : Index) (minRes : Nat)
    (h : countApps t rule = .ok (some (times, pos, minRes))) :
    AllPlus rule ∧ 1 ≤ times ∧
      (∀ idx δ, (idx, Op.plus δ) ∈ rule → δ < 0 →
        ∃ c, t.getCount idx = .ok c ∧ 1 ≤ (c : Int) + δ * times) ∧
      ∃ pre δp post c, rule = pre ++ (pos, Op.plus δp) :: post ∧ δp < 0 ∧
        t.getCount pos = .ok c ∧
        (c : Int) + δp * (times + 1) < 1 ∧ (minRes : Int) = c + δp * times ∧
        ∀ idx δ, (idx, Op.plus δ) ∈ pre → δ < 0 →
          ∃ c', t.getCount idx = .ok c' ∧ 1 ≤ (c' : Int) + δ * (times + 1) := by
  obtain ⟨h1, h2, h3, pre, δp, post, c, hr, hδ, hc, hge, hle, hM, hpre⟩ := countApps_some_nat h
  refine ⟨h1, h2, ?_, pre, δp, post, c, hr, hδ, hc, ?_, ?_, ?_⟩
  · intro idx δ hm hneg
    obtain ⟨c', hc', hge'⟩ := h3 idx δ hm hneg
    refine ⟨c', hc', ?_⟩
    have := natAbs_mul_cast hneg times
    omega
  · have := natAbs_mul_cast hδ (times + 1)
    rw [Int.natCast_add, Int.natCast_one] at this
    omega
  · have := natAbs_mul_cast hδ times
    omega
  · intro idx δ hm hneg
    obtain ⟨c', hc', hge'⟩ := hpre idx δ hm hneg
    refine ⟨c', hc', ?_⟩
    have := natAbs_mul_cast hneg (times + 1)
    rw [Int.natCast_add, Int.natCast_one] at this
    omega

/-- `times` is the largest number of applications that leaves every decreasing block with at
    least one cell -/
theorem count_apps_largest' (t : Tape) (rule : Rule) (times : Nat) (pos : Index) (minRes : Nat)
    (h : countApps t rule = .ok (some (times, pos, minRes))) (n : Nat) :
    (∀ idx δ, (idx, Op.plus δ) ∈ rule → δ < 0 →
        ∃ c, t.getCount idx = .ok c ∧ 1 ≤ (c : Int) + δ * n) ↔ n ≤ times := by
  obtain ⟨_, _, h3, pre, δp, post, c, hr, hδ, hc, hmax, _, _⟩ := count_apps_max' t rule times pos minRes h
  constructor
  · intro hall
    obtain ⟨c', hc', hge⟩ := hall pos δp (by rw [hr]; simp) hδ
    rw [hc] at hc'
    injection hc' with hc'
    subst hc'
    by_cases hn : n ≤ times
    · exact hn
    · exfalso
      have : δp * (n : Int) ≤ δp * ((times : Int) + 1) :=
        Int.mul_le_mul_of_nonpos_left (by omega) (by omega)
      omega
  · intro hn idx δ hm hneg
    obtain ⟨c', hc', hge⟩ := h3 idx δ hm hneg
    refine ⟨c', hc', ?_⟩
    have : δ * (times : Int) ≤ δ * (n : Int) :=
      Int.mul_le_mul_of_nonpos_left (by omega) (by omega)
    omega

/-! ### blocks not named by the rule; positivity -/

theorem block_eq_of {t t' : Tape} (hs : SameShape t t') {idx : Index}
    (h : t'.getCount idx = t.getCount idx) :
    (tspan t' idx.1)[idx.2]? = (tspan t idx.1)[idx.2]? := by
  have hc := congrArg (fun l => l[idx.2]?) (hs.2 idx.1)
  simp only [List.getElem?_map] at hc
  rw [getCount_eq, getCount_eq] at h
  cases h' : (tspan t' idx.1)[idx.2]? with
  | none =>
    cases h0 : (tspan t idx.1)[idx.2]? with
    | none => rfl
    | some b => rw [h', h0] at hc; simp at hc
  | some b' =>
    cases h0 : (tspan t idx.1)[idx.2]? with
    | none => rw [h', h0] at hc; simp at hc
    | some b =>
      rw [h', h0] at hc h
      simp only [Option.map_some, Option.some.injEq] at hc
      simp only [Except.ok.injEq] at h
      cases b; cases b'
      simp only at hc h
      subst hc; subst h
      rfl

theorem allPositive_iff (t : Tape) :
    AllPositive t ↔ ∀ idx c, t.getCount idx = .ok c → 1 ≤ c := by
  constructor
  · intro hp idx c hc
    obtain ⟨b, hb, hbc⟩ := (getCount_ok_iff t idx c).mp hc
    have hmem := List.mem_of_getElem? hb
    unfold tspan at hmem
    rw [← hbc]
    split at hmem
    · exact hp.2 b hmem
    · exact hp.1 b hmem
  · intro h
    constructor
    · intro b hb
      obtain ⟨j, hj⟩ := List.getElem?_of_mem hb
      exact h (false, j) b.count ((getCount_ok_iff t (false, j) b.count).mpr ⟨b, by simpa [tspan] using hj, rfl⟩)
    · intro b hb
      obtain ⟨j, hj⟩ := List.getElem?_of_mem hb
      exact h (true, j) b.count ((getCount_ok_iff t (true, j) b.count).mpr ⟨b, by simpa [tspan] using hj, rfl⟩)

theorem apply_keeps_positive' (t t' : Tape) (rule : Rule) (times : Nat)
    (hnd : (keys rule).Nodup) (h : applyRule t rule = .ok (some times, t'))
    (hp : AllPositive t) : AllPositive t' := by
  rw [allPositive_iff] at hp ⊢
  obtain ⟨⟨P, M, hca⟩, hex, hother, hshape⟩ := apply_exact_nat hnd h
  have hallplus := (countApps_some_nat hca).1
  intro idx c' hc'
  by_cases hk : idx ∈ keys rule
  · obtain ⟨e, he, hek⟩ := List.mem_map.mp hk
    obtain ⟨idx0, op⟩ := e
    simp only at hek
    subst hek
    obtain ⟨δ, hδ⟩ := hallplus _ he
    simp only at hδ
    subst hδ
    obtain ⟨c, c'', hc, hc'', heq, hdec⟩ := hex idx0 δ he
    rw [hc'] at hc''
    injection hc'' with hc''
    subst hc''
    by_cases hneg : δ < 0
    · exact hdec hneg
    · have := hp idx0 c hc
      have : 0 ≤ δ * (times : Int) := Int.mul_nonneg (by omega) (by omega)
      omega
  · rw [hother idx hk] at hc'
    exact hp idx c' hc'

/-! ### no panic -/

theorem min_entry_neg {t : Tape} {rule : Rule} {T : Nat} {P : Index} {M : Nat}
    (hnd : (keys rule).Nodup) (hca : countApps t rule = .ok (some (T, P, M))) :
    ∀ δ, (P, Op.plus δ) ∈ rule → δ < 0 := by
  obtain ⟨_, _, _, pre, δp, post, c, hr, hδ, _⟩ := countApps_some_nat hca
  intro δ hm
  have hmem : (P, Op.plus δp) ∈ rule := by rw [hr]; simp
  have := entry_unique hnd hm hmem
  simp only [Op.plus.injEq] at this
  omega

theorem apply_no_error' (t : Tape) (rule : Rule) (hp : AllPlus rule)
    (hr : ∀ idx ∈ keys rule, InRange t idx) (hnd : (keys rule).Nodup) (e : PErr) :
    applyRule t rule ≠ .error e := by
  have hr' : ∀ idx op, (idx, op) ∈ rule → InRange t idx :=
    fun idx op hm => hr idx (mem_keys_of_mem hm)
  unfold applyRule
  intro h
  split at h
  · next e' hca =>
    exact count_apps_no_error' t rule hp (fun idx δ hm _ => hr' idx _ hm) e' hca
  · cases h
  · next T P M hca =>
    split at h
    · next e' hres =>
      exact results_no_error hp (min_entry_neg hnd hca) (fun idx op hm _ => hr' idx op hm) e' hres
    · cases h
    · next results hres =>
      obtain ⟨hk, _⟩ := results_some hres
      obtain ⟨t1, ht1⟩ := setCounts_exists (t := t) (results := results) (by
        intro e0 he0
        apply hr
        rw [← hk]
        exact List.mem_map.mpr ⟨e0, he0, rfl⟩)
      rw [ht1] at h
      cases h

/-! ### the `None` outcome, characterised -/

theorem apply_none_iff' (t : Tape) (rule : Rule) (hr : ∀ idx ∈ keys rule, InRange t idx)
    (hnd : (keys rule).Nodup) (hc : CountsInRange t) :
    applyRule t rule = .ok (none, t) ↔
      countApps t rule = .ok none ∨
        ∃ times pos minRes, countApps t rule = .ok (some (times, pos, minRes)) ∧
          ∃ idx δ c, (idx, Op.plus δ) ∈ rule ∧ 0 ≤ δ ∧ t.getCount idx = .ok c ∧
            (countMax : Int) < c + δ * times := by
  constructor
  · exact apply_none_cases' t t rule hc
  · intro h
    rcases h with hca | ⟨T, P, M, hca, idx, δ, c, hm, hnn, hcnt, hov⟩
    · unfold applyRule; rw [hca]
    · unfold applyRule
      rw [hca]
      simp only
      have hp := (countApps_some_nat hca).1
      cases hres : applyRuleResults t T P M rule with
      | error e' =>
        exact absurd hres (results_no_error hp (min_entry_neg hnd hca)
          (fun idx op hm _ => hr idx (mem_keys_of_mem hm)) e')
      | ok res =>
        cases res with
        | none => rfl
        | some results =>
          exfalso
          obtain ⟨_, hro⟩ := results_some hres
          obtain ⟨r, _, hro⟩ := hro idx δ hm
          rcases hro with ⟨_, hneg, _⟩ | ⟨_, c', hc', hap⟩
          · omega
          · rw [hcnt] at hc'
            injection hc' with hc'
            subst hc'
            rw [(applyPlus_inc_none_iff hnn).mpr hov] at hap
            cases hap

/-- when `count_apps` gives `times` and no non-decreasing block leaves the `u64` range, the rule
    is applied -/
theorem apply_succeeds' (t : Tape) (rule : Rule) (hr : ∀ idx ∈ keys rule, InRange t idx)
    (hnd : (keys rule).Nodup) (hc : CountsInRange t) (times : Nat) (pos : Index) (minRes : Nat)
    (hca : countApps t rule = .ok (some (times, pos, minRes)))
    (hfit : ∀ idx δ c, (idx, Op.plus δ) ∈ rule → 0 ≤ δ → t.getCount idx = .ok c →
      (c : Int) + δ * times ≤ countMax) :
    ∃ t', applyRule t rule = .ok (some times, t') := by
  have hp := (countApps_some_nat hca).1
  cases hres : applyRule t rule with
  | error e => exact absurd hres (apply_no_error' t rule hp hr hnd e)
  | ok res =>
    obtain ⟨o, t'⟩ := res
    cases o with
    | none =>
      exfalso
      rcases apply_none_cases' t t' rule hc hres with hn | ⟨T, P, M, hca', idx, δ, c, hm, hnn, hcnt, hov⟩
      · rw [hca] at hn; cases hn
      · rw [hca] at hca'
        simp only [Except.ok.injEq, Option.some.injEq, Prod.mk.injEq] at hca'
        obtain ⟨hT, _⟩ := hca'
        subst hT
        have := hfit idx δ c hm hnn hcnt
        omega
    | some T =>
      obtain ⟨⟨P, M, hca'⟩, _⟩ := apply_exact_nat hnd hres
      rw [hca] at hca'
      simp only [Except.ok.injEq, Option.some.injEq, Prod.mk.injEq] at hca'
      obtain ⟨hT, _⟩ := hca'
      subst hT
      exact ⟨t', rfl⟩

/-! ### apply_exact, final form -/

theorem apply_exact' (t t' : Tape) (rule : Rule) (times : Nat) (hnd : (keys rule).Nodup)
    (h : applyRule t rule = .ok (some times, t')) :
    AllPlus rule ∧
      (∃ pos minRes, countApps t rule = .ok (some (times, pos, minRes))) ∧
      (∀ idx δ, (idx, Op.plus δ) ∈ rule →
        ∃ c c', t.getCount idx = .ok c ∧ t'.getCount idx = .ok c' ∧
          (c' : Int) = c + δ * times) ∧
      (∀ s j, (s, j) ∉ keys rule → (tspan t' s)[j]? = (tspan t s)[j]?) ∧
      t'.scan = t.scan ∧ t'.lspan.map (·.color) = t.lspan.map (·.color) ∧
      t'.rspan.map (·.color) = t.rspan.map (·.color) := by
  obtain ⟨⟨P, M, hca⟩, hex, hother, hshape⟩ := apply_exact_nat hnd h
  refine ⟨(countApps_some_nat hca).1, ⟨P, M, hca⟩, ?_, ?_, hshape.1, ?_, ?_⟩
  · intro idx δ hm
    obtain ⟨c, c', hc, hc', heq, _⟩ := hex idx δ hm
    exact ⟨c, c', hc, hc', heq⟩
  · intro s j hk
    exact block_eq_of (idx := (s, j)) hshape (hother (s, j) hk)
  · simpa [tspan] using hshape.2 false
  · simpa [tspan] using hshape.2 true

end BB.RuleArith
