/-
Pieces of the Python runner's model that are EQUAL to (or exactly characterised by) the
corresponding pieces of the Rust runner's model, although the source text differs.
-/
import BB.Model.PyMachine

namespace BB.PyM

open BB

/-! ### `get_rule`: slice comparison = `starts_with` -/

theorem beq_take_eq_isPrefixOf {α : Type} [BEq α] [LawfulBEq α] (l s : List α) :
    (l == s.take l.length) = l.isPrefixOf s := by
  induction l generalizing s with
  | nil => simp
  | cons a l ih =>
    cases s with
    | nil => simp
    | cons b s =>
      simp only [List.length_cons, List.take_succ_cons, List.isPrefixOf, ← ih]
      by_cases h : a = b
      · subst h; simp
      · simp

theorem pyMatchesSig_eq (ms : MinSig) (sig : Signature) :
    pyMatchesSig ms sig = ms.matchesSig sig := by
  unfold pyMatchesSig MinSig.matchesSig
  congr 1
  · congr 1
    cases ms.2.1
    · simp only [Bool.false_eq_true, if_false]; exact beq_take_eq_isPrefixOf _ _
    · simp only [if_true]
  · cases ms.2.2
    · simp only [Bool.false_eq_true, if_false]; exact beq_take_eq_isPrefixOf _ _
    · simp only [if_true]

theorem pyFindRule_eq (rules : List (MinSig × Rule)) (sig : Signature) :
    pyFindRule rules sig = findRule rules sig := by
  induction rules with
  | nil => rfl
  | cons x rest ih =>
    obtain ⟨ms, rule⟩ := x
    simp only [pyFindRule, findRule, pyMatchesSig_eq, ih]

/-- the Python `Prover.get_rule` and the Rust one find the same rule -/
theorem pyGetRule_eq (pv : Prover) (state : Nat) (tape : Tape) (sig : Option Signature) :
    pyGetRule pv state tape sig = pv.getRule state tape sig := by
  unfold pyGetRule Prover.getRule
  cases rulesGet pv.rules (state, tape.scan) with
  | none => rfl
  | some temp => exact pyFindRule_eq _ _

/-! ### `sig_compatible`: Python asks for equal lengths, Rust for at least the lengths -/

theorem pySpanCompatible_eq (s : Span) (sig : SigSpan) :
    pySpanCompatible s sig = (s.length == sig.length && Span.sigCompatible s sig) := by
  induction s generalizing sig with
  | nil =>
    cases sig with
    | nil => simp [pySpanCompatible, Span.sigCompatible]
    | cons c cs => simp [pySpanCompatible]
  | cons b bs ih =>
    cases sig with
    | nil => simp [pySpanCompatible]
    | cons c cs =>
      simp only [pySpanCompatible, Span.sigCompatible, ih, List.length_cons]
      by_cases h1 : (b.color == c.color) = true
      · simp [h1]
      · simp [h1]

/-- **difference**: the Python `Tape.sig_compatible` is the Rust one AND equality of the span
    lengths with the signature's -/
theorem pySigCompatible_eq (t : Tape) (sig : Signature) :
    pySigCompatible t sig
      = (t.sigCompatible sig && t.lspan.length == sig.lspan.length
          && t.rspan.length == sig.rspan.length) := by
  unfold pySigCompatible Tape.sigCompatible
  rw [pySpanCompatible_eq, pySpanCompatible_eq]
  have hl : (t.lspan.length == sig.lspan.length) = true →
      decide (t.lspan.length ≥ sig.lspan.length) = true := by
    intro h; simp only [beq_iff_eq] at h; simp [h]
  have hr : (t.rspan.length == sig.rspan.length) = true →
      decide (t.rspan.length ≥ sig.rspan.length) = true := by
    intro h; simp only [beq_iff_eq] at h; simp [h]
  revert hl hr
  generalize (t.lspan.length == sig.lspan.length) = le
  generalize decide (t.lspan.length ≥ sig.lspan.length) = lg
  generalize (t.rspan.length == sig.rspan.length) = re
  generalize decide (t.rspan.length ≥ sig.rspan.length) = rg
  generalize (t.scan == sig.scan) = a
  generalize Span.sigCompatible t.lspan sig.lspan = cl
  generalize Span.sigCompatible t.rspan sig.rspan = cr
  cases le <;> cases lg <;> cases re <;> cases rg <;> cases a <;> cases cl <;> cases cr <;> simp

/-- a tape on which the two tests differ: one more block than the signature has -/
example : pySigCompatible ⟨0, [⟨1, 2⟩, ⟨2, 1⟩], []⟩ ⟨0, [.mult 1], []⟩ = false
    ∧ Tape.sigCompatible ⟨0, [⟨1, 2⟩, ⟨2, 1⟩], []⟩ ⟨0, [.mult 1], []⟩ = true := by decide

end BB.PyM
