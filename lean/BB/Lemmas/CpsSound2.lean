/-
C06 support, part 2: a closed triple covers every reachable configuration, and a closed triple
without goal-compatible view excludes the goal event (`closed_check_sound'`, `closed_sound'`).
-/
import BB.Lemmas.CpsSound1

namespace BB.Cps

open BB

/-! ### reading `checkConfig` -/

theorem checkConfig_none_iff {p : Prog} {goal : Goal} {idx : TMap Unit} {ls rs : Spans} {c : Config}
    {pr : Nat} {sh : Bool} {nx : Nat} (hi : p.get (c.state, c.tape.scan) = some (pr, sh, nx)) :
    checkConfig p goal idx ls rs c = none ↔
      (hasColor (if sh then ls else rs) (if sh then c.tape.lspan else c.tape.rspan) = true ∧
       ∃ colors,
        getColors (if sh then rs else ls) (if sh then c.tape.rspan else c.tape.lspan).pull.2
          = some colors ∧
        goalTest goal colors (if sh then c.tape.rspan else c.tape.lspan).pull.1
          (if sh then c.tape.rspan else c.tape.lspan).pull.2
          ((if sh then c.tape.lspan else c.tape.rspan).push pr) c.state nx = false ∧
        ∀ color ∈ colors,
          idx.contains (mkNext nx (if sh then c.tape.rspan else c.tape.lspan).pull.1
            ((if sh then c.tape.lspan else c.tape.rspan).push pr)
            (if sh then c.tape.rspan else c.tape.lspan).pull.2 sh color).key = true) := by
  simp only [checkConfig, hi]
  generalize hasColor _ _ = b
  cases b with
  | false => simp
  | true =>
    generalize getColors _ _ = gc
    cases gc with
    | none => simp
    | some colors =>
      simp only [Bool.not_true, Bool.false_eq_true, if_false, true_and, Option.some.injEq,
        exists_eq_left']
      generalize goalTest _ _ _ _ _ _ _ = g
      cases g with
      | true => simp
      | false => simp [List.all_eq_true]

theorem checkConfig_none_of_get_none {p : Prog} {goal : Goal} {idx : TMap Unit} {ls rs : Spans}
    {c : Config} (hi : p.get (c.state, c.tape.scan) = none) :
    checkConfig p goal idx ls rs c = none ↔ goal ≠ .halt := by
  simp only [checkConfig, hi]
  cases goal <;> simp

/-! ### the closure conditions, with the membership index as a parameter -/

structure ClosedIdx (p : Prog) (goal : Goal) (rad : Nat) (idx : TMap Unit) (ls rs : Spans) :
    Prop where
  init : idx.contains (Config.init rad).key = true
  initL : hasColor ls (Span.init rad) = true
  initR : hasColor rs (Span.init rad) = true
  all : ∀ c : Config, idx.contains c.key = true → checkConfig p goal idx ls rs c = none

def CoversIdx (rad : Nat) (idx : TMap Unit) (ls rs : Spans) (c : Cfg) : Prop :=
  idx.contains (viewOf rad c).key = true ∧
    ∀ k, 1 ≤ k → hasColor ls (windowAt rad c.left k) = true ∧
      hasColor rs (windowAt rad c.right k) = true

def pullSide (sh : Bool) (c : Cfg) : List Nat := if sh then c.right else c.left
def pushSide (sh : Bool) (c : Cfg) : List Nat := if sh then c.left else c.right

theorem covers_init {p : Prog} {goal : Goal} {rad : Nat} {idx : TMap Unit} {ls rs : Spans}
    (hcl : ClosedIdx p goal rad idx ls rs) : CoversIdx rad idx ls rs Cfg.init := by
  refine ⟨by rw [viewOf_init]; exact hcl.init, fun k _ => ?_⟩
  simp only [Cfg.init, windowAt_nil]
  exact ⟨hcl.initL, hcl.initR⟩

/-- one machine step from a covered configuration: the successor is covered, and the goal test
    made on the way was negative -/
theorem covers_step {p : Prog} {goal : Goal} {rad : Nat} {idx : TMap Unit} {ls rs : Spans}
    (hcl : ClosedIdx p goal rad idx ls rs) {c : Cfg} (hc : CoversIdx rad idx ls rs c)
    {pr : Nat} {sh : Bool} {q : Nat} (hi : p.get (c.state, c.scan) = some (pr, sh, q)) :
    CoversIdx rad idx ls rs (c.move pr sh q) ∧
    ∃ colors, cellAt (pullSide sh c) (1 + (rad - 1)) ∈ colors ∧
      goalTest goal colors ((pullSide sh c).headD 0) ((windowAt rad (pullSide sh c) 0).pull.2)
        (windowAt rad (pr :: pushSide sh c) 0) c.state q = false := by
  have hchk := hcl.all _ hc.1
  have hi' : p.get ((viewOf rad c).state, (viewOf rad c).tape.scan) = some (pr, sh, q) := hi
  obtain ⟨hpush, colors, hcol, hgoal, hall⟩ := (checkConfig_none_iff hi').1 hchk
  cases sh with
  | true =>
    simp only [viewOf, if_true] at hpush hcol hgoal hall
    obtain ⟨col', hcol', hmem⟩ := getColors_of_hasColor (hc.2 1 (Nat.le_refl 1)).2
      ((windowAt rad c.right 0).pull.2) (pull_windowAt rad c.right).2
    rw [hcol] at hcol'; cases hcol'
    have hmem' : cellAt c.right (1 + (rad - 1)) ∈ colors := hmem
    have hnext := hall _ hmem'
    rw [push_windowAt, (pull_windowAt rad c.right).1] at hgoal
    refine ⟨⟨?_, fun k hk => ⟨?_, ?_⟩⟩, colors, hmem', hgoal⟩
    · rw [push_windowAt, (pull_windowAt rad c.right).1] at hnext
      simp only [mkNext, Tape.fromSpans, if_true] at hnext
      rw [pull_windowAt_last rad c.right _ rfl] at hnext
      simpa [viewOf, Cfg.move] using hnext
    · simp only [Cfg.move, if_true]
      obtain ⟨j, rfl⟩ : ∃ j, k = j + 1 := ⟨k - 1, by omega⟩
      rw [windowAt_cons]
      cases j with
      | zero => exact hpush
      | succ j => exact (hc.2 (j + 1) (by omega)).1
    · simp only [Cfg.move, if_true]
      rw [windowAt_tail]
      exact (hc.2 (k + 1) (by omega)).2
  | false =>
    simp only [viewOf, Bool.false_eq_true, if_false] at hpush hcol hgoal hall
    obtain ⟨col', hcol', hmem⟩ := getColors_of_hasColor (hc.2 1 (Nat.le_refl 1)).1
      ((windowAt rad c.left 0).pull.2) (pull_windowAt rad c.left).2
    rw [hcol] at hcol'; cases hcol'
    have hmem' : cellAt c.left (1 + (rad - 1)) ∈ colors := hmem
    have hnext := hall _ hmem'
    rw [push_windowAt, (pull_windowAt rad c.left).1] at hgoal
    refine ⟨⟨?_, fun k hk => ⟨?_, ?_⟩⟩, colors, hmem', hgoal⟩
    · rw [push_windowAt, (pull_windowAt rad c.left).1] at hnext
      simp only [mkNext, Tape.fromSpans, Bool.false_eq_true, if_false] at hnext
      rw [pull_windowAt_last rad c.left _ rfl] at hnext
      simpa [viewOf, Cfg.move] using hnext
    · simp only [Cfg.move, Bool.false_eq_true, if_false]
      rw [windowAt_tail]
      exact (hc.2 (k + 1) (by omega)).1
    · simp only [Cfg.move, Bool.false_eq_true, if_false]
      obtain ⟨j, rfl⟩ : ∃ j, k = j + 1 := ⟨k - 1, by omega⟩
      rw [windowAt_cons]
      cases j with
      | zero => exact hpush
      | succ j => exact (hc.2 (j + 1) (by omega)).2

/-- every configuration of the run from the blank tape is covered -/
theorem covers_run {p : Prog} {goal : Goal} {rad : Nat} {idx : TMap Unit} {ls rs : Spans}
    (hcl : ClosedIdx p goal rad idx ls rs) :
    ∀ n c, RunAt p.toF n c → CoversIdx rad idx ls rs c := by
  intro n
  induction n with
  | zero =>
    intro c h
    simp only [RunAt, stepN, Option.some.injEq] at h
    subst h
    exact covers_init hcl
  | succ n ih =>
    intro c h
    simp only [RunAt] at h
    rw [stepN_succ_last] at h
    cases hn : stepN p.toF n Cfg.init with
    | none => rw [hn] at h; cases h
    | some c0 =>
      rw [hn] at h
      simp only [Option.bind_some, step1, Prog.toF] at h
      cases hi : p.get (c0.state, c0.scan) with
      | none => rw [hi] at h; cases h
      | some ins =>
        obtain ⟨pr, sh, q⟩ := ins
        rw [hi] at h
        simp only [Option.some.injEq] at h
        subst h
        exact (covers_step hcl (ih c0 hn) hi).1

/-! ### the goal events -/

theorem no_halt_of_closed {p : Prog} {rad : Nat} {idx : TMap Unit} {ls rs : Spans}
    (hcl : ClosedIdx p .halt rad idx ls rs) : ¬ Halts p.toF := by
  rintro ⟨n, q, s, c, hrun, rfl, rfl, hnone⟩
  have hc := covers_run hcl n c hrun
  have hchk := hcl.all _ hc.1
  have hi : p.get ((viewOf rad c).state, (viewOf rad c).tape.scan) = none := hnone
  exact ((checkConfig_none_of_get_none hi).1 hchk) rfl

theorem allZero_tail {l : List Nat} (h : AllZero l) : AllZero l.tail := by
  intro i; rw [cellAt_tail]; exact h (i + 1)

theorem blankSpan_pull {rad : Nat} {l : List Nat} (h : AllZero l) :
    ((windowAt rad l 0).pull.2).blankSpan = true := by
  simp only [Span.blankSpan, (pull_windowAt rad l).2]
  exact cellsFrom_all_zero h 1 _

theorem allBlank_windowAt {rad : Nat} {l : List Nat} (h : AllZero l) (k : Nat) :
    (windowAt rad l k).allBlank = true := by
  simp only [Span.allBlank, Span.blankSpan, windowAt, cellsFrom_all_zero h, h _]
  simp

/-- no step of the run lands on a blank tape (stronger than "no erase event") -/
theorem no_blank_step_of_closed {p : Prog} {rad : Nat} {idx : TMap Unit} {ls rs : Spans}
    (hcl : ClosedIdx p .blank rad idx ls rs) (n : Nat) (c c' : Cfg) (hrun : RunAt p.toF n c)
    (hstep : step1 p.toF c = some c') : ¬ c'.Blank := by
  intro hb
  have hc := covers_run hcl n c hrun
  simp only [step1, Prog.toF] at hstep
  cases hi : p.get (c.state, c.scan) with
  | none => rw [hi] at hstep; cases hstep
  | some ins =>
    obtain ⟨pr, sh, q⟩ := ins
    rw [hi] at hstep
    simp only [Option.some.injEq] at hstep
    subst hstep
    obtain ⟨_, colors, hmem, hgoal⟩ := covers_step hcl hc hi
    obtain ⟨hs, hl, hr⟩ := hb
    cases sh with
    | true =>
      simp only [Cfg.move, if_true] at hs hl hr
      simp only [pullSide, pushSide, if_true] at hmem hgoal
      have hz : AllZero c.right := by
        intro i
        cases i with
        | zero => rw [← cellAt_headD]; exact hs
        | succ i => rw [← cellAt_tail]; exact hr i
      rw [hz _] at hmem
      simp [goalTest, blankSpan_pull hz, allBlank_windowAt hl, hmem] at hgoal
      exact hgoal (by simpa using hs)
    | false =>
      simp only [Cfg.move, Bool.false_eq_true, if_false] at hs hl hr
      simp only [pullSide, pushSide, Bool.false_eq_true, if_false] at hmem hgoal
      have hz : AllZero c.left := by
        intro i
        cases i with
        | zero => rw [← cellAt_headD]; exact hs
        | succ i => rw [← cellAt_tail]; exact hl i
      rw [hz _] at hmem
      simp [goalTest, blankSpan_pull hz, allBlank_windowAt hr, hmem] at hgoal
      exact hgoal (by simpa using hs)

theorem no_erase_of_closed {p : Prog} {rad : Nat} {idx : TMap Unit} {ls rs : Spans}
    (hcl : ClosedIdx p .blank rad idx ls rs) : ¬ ∃ n, ErasesAt p.toF n := by
  rintro ⟨n, c, c', hrun, _, hstep, hb⟩
  exact no_blank_step_of_closed hcl n c c' hrun hstep hb

theorem no_blankAfter_of_closed {p : Prog} {rad : Nat} {idx : TMap Unit} {ls rs : Spans}
    (hcl : ClosedIdx p .blank rad idx ls rs) : ¬ ∃ n q, BlankAfter p.toF n q := by
  rintro ⟨n, q, hpos, c', hrun, _, hb⟩
  obtain ⟨m, rfl⟩ : ∃ m, n = m + 1 := ⟨n - 1, by omega⟩
  simp only [RunAt] at hrun
  rw [stepN_succ_last] at hrun
  cases hn : stepN p.toF m Cfg.init with
  | none => rw [hn] at hrun; cases hrun
  | some c =>
    rw [hn] at hrun
    exact no_blank_step_of_closed hcl m c c' hn hrun hb

theorem no_spinout_of_closed {p : Prog} {rad : Nat} {idx : TMap Unit} {ls rs : Spans}
    (hcl : ClosedIdx p .spinout rad idx ls rs) : ¬ SpinsOut p.toF := by
  rintro ⟨n, c, hrun, hs, pr, sh, hi, hz⟩
  have hc := covers_run hcl n c hrun
  have hi' : p.get (c.state, c.scan) = some (pr, sh, c.state) := by rw [hs]; exact hi
  obtain ⟨_, colors, hmem, hgoal⟩ := covers_step hcl hc hi'
  have hz' : AllZero (pullSide sh c) := hz
  rw [hz' _] at hmem
  have hh : (pullSide sh c).headD 0 = 0 := by rw [cellAt_headD]; exact hz' 0
  simp [goalTest, blankSpan_pull hz', hmem] at hgoal
  exact hgoal (by simpa using hh)

/-! ### `closedCheck` -/

theorem foldl_index_contains (seen : List Config) (m : TMap Unit) (k : List Nat) :
    (seen.foldl (fun m c => m.insert c.key ()) m).contains k = true ↔
      m.contains k = true ∨ ∃ c ∈ seen, c.key = k := by
  induction seen generalizing m with
  | nil => simp
  | cons x xs ih =>
    rw [List.foldl_cons, ih]
    simp only [TMap.contains, TMap.find?_insert, List.mem_cons]
    constructor
    · rintro (h | ⟨c, hc, rfl⟩)
      · by_cases hk : k = x.key
        · exact Or.inr ⟨x, Or.inl rfl, hk.symm⟩
        · rw [if_neg hk] at h; exact Or.inl h
      · exact Or.inr ⟨c, Or.inr hc, rfl⟩
    · rintro (h | ⟨c, rfl | hc, rfl⟩)
      · by_cases hk : k = x.key
        · left; rw [if_pos hk]; rfl
        · left; rw [if_neg hk]; exact h
      · left; simp
      · exact Or.inr ⟨c, hc, rfl⟩

/-- the index `closedCheck` builds is the membership test of `seen` -/
theorem index_contains_iff (seen : List Config) (c : Config) :
    (seen.foldl (fun m c => m.insert c.key ()) ({} : TMap Unit)).contains c.key = true ↔
      c ∈ seen := by
  rw [foldl_index_contains]
  simp only [TMap.contains, TMap.find?_empty, Option.isSome_none, Bool.false_eq_true, false_or]
  constructor
  · rintro ⟨c', hc', hk⟩
    rw [← Config.key_inj _ _ hk]; exact hc'
  · intro h; exact ⟨c, h, rfl⟩

theorem checkAll_none_iff (p : Prog) (goal : Goal) (idx : TMap Unit) (ls rs : Spans)
    (l : List Config) :
    checkAll p goal idx ls rs l = none ↔ ∀ c ∈ l, checkConfig p goal idx ls rs c = none := by
  induction l with
  | nil => simp [checkAll]
  | cons x xs ih =>
    simp only [checkAll, List.mem_cons, forall_eq_or_imp]
    cases hx : checkConfig p goal idx ls rs x with
    | none => simp [ih]
    | some e => simp

theorem closedCheck_none_iff (p : Prog) (goal : Goal) (rad : Nat) (seen : List Config)
    (ls rs : Spans) :
    closedCheck p goal rad seen ls rs = none ↔
      (Config.init rad ∈ seen ∧ hasColor ls (Span.init rad) = true ∧
        hasColor rs (Span.init rad) = true ∧
        ∀ c ∈ seen, checkConfig p goal
          (seen.foldl (fun m c => m.insert c.key ()) ({} : TMap Unit)) ls rs c = none) := by
  simp only [closedCheck]
  rw [← checkAll_none_iff, ← index_contains_iff seen (Config.init rad)]
  simp only [Config.init, Tape.init]
  by_cases h1 : (seen.foldl (fun m c => m.insert c.key ()) ({} : TMap Unit)).contains
      (Config.key ⟨0, ⟨0, Span.init rad, Span.init rad⟩⟩) = true <;>
  by_cases h2 : hasColor ls (Span.init rad) = true <;>
  by_cases h3 : hasColor rs (Span.init rad) = true <;>
  simp [h1, h2, h3]

theorem closedIdx_of_closedCheck {p : Prog} {goal : Goal} {rad : Nat} {seen : List Config}
    {ls rs : Spans} (h : closedCheck p goal rad seen ls rs = none) :
    ClosedIdx p goal rad (seen.foldl (fun m c => m.insert c.key ()) ({} : TMap Unit)) ls rs := by
  obtain ⟨h1, h2, h3, h4⟩ := (closedCheck_none_iff p goal rad seen ls rs).1 h
  exact ⟨(index_contains_iff seen _).2 h1, h2, h3,
    fun c hc => h4 c ((index_contains_iff seen c).1 hc)⟩

/-- **closed_sound**, first half: a closed triple covers every configuration of the run -/
theorem closed_covers' (p : Prog) (goal : Goal) (rad : Nat) (seen : List Config) (ls rs : Spans)
    (h : closedCheck p goal rad seen ls rs = none) (n : Nat) (c : Cfg) (hrun : RunAt p.toF n c) :
    Covers rad seen ls rs c := by
  have hc := covers_run (closedIdx_of_closedCheck h) n c hrun
  exact ⟨(index_contains_iff seen _).1 hc.1, hc.2⟩

/-- **closed_check_sound**: a closed triple excludes the goal event -/
theorem closed_check_sound' (p : Prog) (goal : Goal) (rad : Nat) (seen : List Config)
    (ls rs : Spans) (h : closedCheck p goal rad seen ls rs = none) : goal.Never p.toF := by
  have hcl := closedIdx_of_closedCheck h
  cases goal with
  | halt => exact no_halt_of_closed hcl
  | blank => exact no_erase_of_closed hcl
  | spinout => exact no_spinout_of_closed hcl

/-- for the goal `blank` a closed triple excludes more than the erase event: the tape is never
    blank again after the start -/
theorem closed_check_sound_blankAfter' (p : Prog) (rad : Nat) (seen : List Config)
    (ls rs : Spans) (h : closedCheck p .blank rad seen ls rs = none) :
    ¬ ∃ n q, BlankAfter p.toF n q :=
  no_blankAfter_of_closed (closedIdx_of_closedCheck h)

end BB.Cps
