/-
Symbolic rule validation, part 2: one validated period (`symPeriodLoop`, `symPeriod`) is, under
every valuation, a run of real machine steps (`sym_period_sound'`).
-/
import BB.Lemmas.SymRule1

namespace BB.Sym

theorem symPeriodLoop_sound (p : Prog) (q : Nat) (target : STape) (v : Val) (K : Prop) :
    ∀ (fuel cycles : Nat) (steps : Form) (cur : Nat) (t : STape) (C : Nat) (f : Form),
      t.posB = true → (K → (t.inst v).Canon) →
      symPeriodLoop p q target fuel cycles steps cur t = some (C, f) →
      ∃ d, f.eval v = steps.eval v + d ∧ 1 ≤ d ∧
        RunVia p.toF (OnWay p.toF K) ((t.inst v).toCfg cur) d ((target.inst v).toCfg q) ∧
        (K → (target.inst v).Canon) := by
  intro fuel
  induction fuel with
  | zero => intro cycles steps cur t C f _ _ h; simp only [symPeriodLoop] at h; cases h
  | succ fuel ih =>
    intro cycles steps cur t C f hpos hK h
    simp only [symPeriodLoop] at h
    cases hss : symStep p cur t with
    | undefined => rw [hss] at h; cases h
    | spinout => rw [hss] at h; cases h
    | unknown => rw [hss] at h; cases h
    | next cur' t' k =>
      rw [hss] at h
      simp only at h
      obtain ⟨hps, hpos'⟩ := sym_step_sound' p cur t cur' t' k hpos hss v
      obtain ⟨hk, _, hcan', hrun⟩ := plainStep_sound (STape.posB_inst hpos v) hps
      have hrunK : RunVia p.toF (OnWay p.toF K) ((t.inst v).toCfg cur) (k.eval v)
          ((t'.inst v).toCfg cur') := hrun.mono fun c hc => hc.mono hK
      by_cases hhit : (cur' == q && t'.eqv target) = true
      · rw [if_pos hhit] at h
        simp only [Option.some.injEq, Prod.mk.injEq] at h
        obtain ⟨_, rfl⟩ := h
        simp only [Bool.and_eq_true, beq_iff_eq] at hhit
        obtain ⟨rfl, heqv⟩ := hhit
        rw [← STape.eqv_inst heqv v]
        exact ⟨k.eval v, eval_add _ _ _, hk, hrunK, fun hk' => hcan' (hK hk')⟩
      · rw [if_neg hhit] at h
        obtain ⟨d, hS, hd, hrun', hcanA⟩ :=
          ih (cycles + 1) (steps.add k) cur' t' C f hpos' (fun hk' => hcan' (hK hk')) h
        rw [eval_add] at hS
        refine ⟨k.eval v + d, by omega, by omega, ?_, hcanA⟩
        exact RunVia.trans (fun a b hab => OnWay.congr hab) hrunK hrun'

/-! ### the shifted tape -/

theorem shiftSpan_posB {s : SSpan} {ds : List Int} {r : SSpan} (h : shiftSpan s ds = some r) :
    SSpan.posB r = true := by
  induction s generalizing ds r with
  | nil =>
    cases ds with
    | nil => simp only [shiftSpan, Option.some.injEq] at h; subst h; rfl
    | cons d ds => simp only [shiftSpan] at h; cases h
  | cons b bs ih =>
    cases ds with
    | nil => simp only [shiftSpan] at h; cases h
    | cons d ds =>
      simp only [shiftSpan] at h
      split at h
      · cases h
      · rename_i hc
        cases hr : shiftSpan bs ds with
        | none => rw [hr] at h; cases h
        | some r' =>
          rw [hr] at h
          simp only [Option.map_some, Option.some.injEq] at h
          subst h
          rw [SSpan.posB_cons]
          exact ⟨by simp only; omega, ih hr⟩

theorem STape.shift_some {t : STape} {dl dr : List Int} {target : STape}
    (h : t.shift dl dr = some target) :
    ∃ l r, shiftSpan t.lspan dl = some l ∧ shiftSpan t.rspan dr = some r ∧
      target = ⟨t.scan, l, r⟩ := by
  unfold STape.shift at h
  cases hl : shiftSpan t.lspan dl with
  | none => rw [hl] at h; cases h
  | some l =>
    cases hr : shiftSpan t.rspan dr with
    | none => rw [hl, hr] at h; cases h
    | some r =>
      rw [hl, hr] at h
      simp only [Option.some.injEq] at h
      exact ⟨l, r, rfl, rfl, h.symm⟩

theorem STape.shift_posB {t : STape} {dl dr : List Int} {target : STape}
    (h : t.shift dl dr = some target) : target.posB = true := by
  obtain ⟨l, r, hl, hr, rfl⟩ := STape.shift_some h
  simp only [STape.posB, Bool.and_eq_true]
  exact ⟨shiftSpan_posB hl, shiftSpan_posB hr⟩

theorem symPeriod_some {p : Prog} {q : Nat} {s : STape} {dl dr : List Int} {budget cycles : Nat}
    {f : Form} (h : symPeriod p q s dl dr budget = some (cycles, f)) :
    s.posB = true ∧ ∃ target, s.shift dl dr = some target ∧
      symPeriodLoop p q target budget 0 (Form.const 0) q s = some (cycles, f) := by
  unfold symPeriod at h
  by_cases hp : s.posB = true
  · simp only [hp, Bool.not_true, Bool.false_eq_true, if_false] at h
    cases hsh : s.shift dl dr with
    | none => rw [hsh] at h; cases h
    | some target => rw [hsh] at h; exact ⟨hp, target, rfl, h⟩
  · simp only [hp, Bool.not_false, if_true] at h
    cases h

/-- **sym_period_sound**, lemma form. -/
theorem sym_period_sound' (p : Prog) (q : Nat) (s target : STape) (dl dr : List Int)
    (budget cycles : Nat) (f : Form) (h : symPeriod p q s dl dr budget = some (cycles, f))
    (ht : s.shift dl dr = some target) (v : Val) :
    1 ≤ f.eval v ∧ (s.inst v).Pos ∧ (target.inst v).Pos ∧
      RunVia p.toF (OnWay p.toF (s.inst v).Canon) ((s.inst v).toCfg q) (f.eval v)
        ((target.inst v).toCfg q) ∧
      ((s.inst v).Canon → (target.inst v).Canon) := by
  obtain ⟨hpos, target', ht', hloop⟩ := symPeriod_some h
  rw [ht] at ht'
  simp only [Option.some.injEq] at ht'
  subst ht'
  obtain ⟨d, hS, hd, hrun, hcan⟩ :=
    symPeriodLoop_sound p q target v (s.inst v).Canon budget 0 (Form.const 0) q s cycles f hpos id
      hloop
  rw [eval_const, Nat.zero_add] at hS
  rw [hS]
  exact ⟨hd, STape.posB_inst hpos v, STape.posB_inst (STape.shift_posB ht) v, hrun, hcan⟩

end BB.Sym
