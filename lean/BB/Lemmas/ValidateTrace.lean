/-
C02 (the rule-accelerated run reports the true outcome): soundness of the whole-run validator
`replay` / `replayGo` of BB/Model/ValidateTrace.lean against the L0 machine.

One invariant (`RInv`) is carried along the replay loop: the L0 machine, after `steps` steps from
the blank tape, is in the unrolled configuration of the replay (up to trailing blanks), every
configuration met before has a defined instruction and is not a spin-out configuration, the tape
is canonical, every entry of the blank record is true, and the record holds each state once.
A plain cycle keeps it (`plainStep_sound`), a validated application keeps it: the loop is generic
over the application validator `va`, of which only soundness (`VaSound`) is used; `vaCheck`
(`replay`) is sound by `check_app_sound'`, `vaSym` (`replaySym`) by that and `validate_app_sound'`.
-/
import BB.Model.ValidateTrace
import BB.Lemmas.Validate
import BB.Lemmas.RunQuick2
import BB.Lemmas.SymRule5

namespace BB

/-! ### unfolding `replayGo` -/

/-- the plain branch of one replay cycle (the local `plain` of `replayGo`) -/
def replayPlain (p : Prog) (va : Nat → Tape → AppRec → Option Nat)
    (why : Nat → Tape → AppRec → AppRes) (fuel cycle q : Nat) (t : Tape) (steps : Nat)
    (blanks : List (Nat × Nat)) (apps : List AppRec) : ReplayEnd × List (Nat × Nat) :=
  match plainStep p q t with
  | .undefined slot => (.undfnd cycle slot t.marks steps, blanks)
  | .spinout => (.spnout cycle t.marks steps, blanks)
  | .next q' t' k =>
    if t'.cellsBlank then
      if blanks.any (fun e => e.1 == q') then (.blankRec cycle q' (steps + k), blanks)
      else if q' == 0 then (.blankRec cycle q' (steps + k), (q', steps + k) :: blanks)
      else replayGo p va why fuel (cycle + 1) q' t' (steps + k) ((q', steps + k) :: blanks) apps
    else replayGo p va why fuel (cycle + 1) q' t' (steps + k) blanks apps

theorem replayGo_zero (p : Prog) (va : Nat → Tape → AppRec → Option Nat)
    (why : Nat → Tape → AppRec → AppRes) (cycle q : Nat) (t : Tape) (steps : Nat)
    (blanks : List (Nat × Nat)) (apps : List AppRec) :
    replayGo p va why 0 cycle q t steps blanks apps = (.limit q t steps, blanks) := by
  rw [replayGo]

theorem replayGo_succ_nil (p : Prog) (va : Nat → Tape → AppRec → Option Nat)
    (why : Nat → Tape → AppRec → AppRes) (fuel cycle q : Nat) (t : Tape) (steps : Nat)
    (blanks : List (Nat × Nat)) :
    replayGo p va why (fuel + 1) cycle q t steps blanks []
      = replayPlain p va why fuel cycle q t steps blanks [] := by
  rw [replayGo]; rfl

theorem replayGo_succ_cons (p : Prog) (va : Nat → Tape → AppRec → Option Nat)
    (why : Nat → Tape → AppRec → AppRes) (fuel cycle q : Nat) (t : Tape) (steps : Nat)
    (blanks : List (Nat × Nat)) (a : AppRec) (rest : List AppRec) :
    replayGo p va why (fuel + 1) cycle q t steps blanks (a :: rest)
      = if a.cycle < cycle then (.appMismatch cycle, blanks)
        else if a.cycle == cycle then
          if a.state != q || a.before != t then (.appMismatch cycle, blanks)
          else match va q t a with
            | some s => replayGo p va why fuel (cycle + 1) q a.after (steps + s) blanks rest
            | none => (.badApp cycle (why q t a), blanks)
        else replayPlain p va why fuel cycle q t steps blanks (a :: rest) := by
  rw [replayGo]; rfl

/-! ### small facts -/

theorem Span.blankB_allZeroB {s : Span} (h : Span.blankB s = true) :
    allZeroB (Span.unroll s) = true := by
  induction s with
  | nil => rfl
  | cons b rest ih =>
    simp only [Span.blankB, List.all_cons, Bool.and_eq_true, Bool.or_eq_true, beq_iff_eq] at h
    have ih' := ih (by simpa [Span.blankB] using h.2)
    simp only [allZeroB, Span.unroll, List.flatMap_cons, List.all_append, Bool.and_eq_true] at ih' ⊢
    refine ⟨?_, ih'⟩
    rw [List.all_eq_true]
    intro x hx
    rw [List.mem_replicate] at hx
    rcases h.1 with hc | hc
    · rw [hx.2, hc]; rfl
    · exact absurd hc hx.1

theorem Tape.cellsBlank_toCfg {t : Tape} (h : t.cellsBlank = true) (q : Nat) :
    (t.toCfg q).Blank := by
  simp only [Tape.cellsBlank, Bool.and_eq_true, beq_iff_eq] at h
  exact ⟨h.1.1, (allZeroB_iff _).1 (Span.blankB_allZeroB h.1.2), (allZeroB_iff _).1 (Span.blankB_allZeroB h.2)⟩

theorem any_fst_exists {b : List (Nat × Nat)} {q : Nat}
    (h : b.any (fun e => e.1 == q) = true) : ∃ n, (q, n) ∈ b := by
  simp only [List.any_eq_true, beq_iff_eq] at h
  obtain ⟨⟨k, v⟩, hx, hk⟩ := h
  simp only at hk
  subst hk
  exact ⟨v, hx⟩

theorem not_mem_fst_of_any {b : List (Nat × Nat)} {q : Nat}
    (h : ¬ b.any (fun e => e.1 == q) = true) : q ∉ b.map (·.1) := by
  intro hm
  apply h
  simp only [List.mem_map] at hm
  obtain ⟨e, he, rfl⟩ := hm
  simp only [List.any_eq_true, beq_iff_eq]
  exact ⟨e, he, rfl⟩

/-! ### the invariant -/

/-- what is known at the top of every replay cycle -/
structure RInv (p : Prog) (q : Nat) (t : Tape) (steps : Nat) (bl : List (Nat × Nat)) :
    Prop where
  canon : t.Canon
  run : RunVia p.toF (OnWay p.toF True) Cfg.init steps (t.toCfg q)
  blanks : ∀ q' n, (q', n) ∈ bl → BlankAfter p.toF n q' ∧ n ≤ steps
  nodup : (bl.map (·.1)).Nodup

theorem RInv.init (p : Prog) : RInv p 0 Tape.init 0 [] where
  canon := Tape.canon_init 0
  run := RunVia.zero _ _ _
  blanks := fun _ _ h => nomatch h
  nodup := List.nodup_nil

theorem RInv.runAt {p : Prog} {q : Nat} {t : Tape} {steps : Nat} {blanks : List (Nat × Nat)}
    (inv : RInv p q t steps blanks) : ∃ c, RunAt p.toF steps c ∧ c ≈c t.toCfg q := inv.run.1

theorem RunVia.noSpin {p : ProgF} {n : Nat} {e : Cfg} (h : RunVia p (OnWay p True) Cfg.init n e) :
    ∀ j c, j < n → RunAt p j c → ¬ SpinOutCfg p c := by
  intro j c hj hr
  obtain ⟨c', hc', hw⟩ := h.2 j hj
  have : c' = c := RunAt.unique hc' hr
  subst this
  exact hw.2 trivial

/-- a run of real steps from the replayed configuration extends the invariant's run -/
theorem RInv.extend {p : Prog} {q : Nat} {t : Tape} {steps : Nat} {blanks : List (Nat × Nat)}
    (inv : RInv p q t steps blanks) {k : Nat} {q' : Nat} {t' : Tape}
    (h : RunVia p.toF (OnWay p.toF t.Canon) (t.toCfg q) k (t'.toCfg q')) :
    RunVia p.toF (OnWay p.toF True) Cfg.init (steps + k) (t'.toCfg q') :=
  RunVia.trans (fun _ _ hab => OnWay.congr hab) inv.run
    (h.mono fun _ hc => hc.mono fun _ => inv.canon)

/-! ### what a replay result says -/

/-- everything the property theorems say about the result of a replay that was allowed to go up to
    cycle `hi` -/
structure REnd (p : Prog) (hi : Nat) (r : ReplayEnd × List (Nat × Nat)) : Prop where
  blanks : ∀ q n, (q, n) ∈ r.2 → BlankAfter p.toF n q
  nodup : (r.2.map (·.1)).Nodup
  undfnd : ∀ cyc q s m n, r.1 = .undfnd cyc (q, s) m n →
    HaltsAt p.toF n q s ∧ (∃ c, RunAt p.toF n c ∧ c.marks = m) ∧
      (∀ j c, j < n → RunAt p.toF j c → ¬ SpinOutCfg p.toF c) ∧ cyc < hi
  spnout : ∀ cyc m n, r.1 = .spnout cyc m n →
    (∃ c, RunAt p.toF n c ∧ SpinOutCfg p.toF c ∧ c.marks = m) ∧
      (∀ j c, j < n → RunAt p.toF j c → ¬ SpinOutCfg p.toF c) ∧ cyc < hi
  blankRec : ∀ cyc q n, r.1 = .blankRec cyc q n → BlankAfter p.toF n q ∧ NeverHalts p.toF
  limit : ∀ q t n, r.1 = .limit q t n →
    (∃ c, RunAt p.toF n c ∧ c ≈c t.toCfg q) ∧ t.Canon ∧
      (∀ j c, j < n → RunAt p.toF j c → ¬ SpinOutCfg p.toF c)

/-- a replay that stops with a validation failure: only the blank record is claimed -/
theorem REnd.ofFailure {p : Prog} {q : Nat} {t : Tape} {steps : Nat} {blanks : List (Nat × Nat)}
    (inv : RInv p q t steps blanks) (hi : Nat) (e : ReplayEnd)
    (he : (∃ c w, e = .badApp c w) ∨ (∃ c, e = .appMismatch c)) : REnd p hi (e, blanks) where
  blanks := fun q n h => (inv.blanks q n h).1
  nodup := inv.nodup
  undfnd := fun _ _ _ _ _ h => by
    rcases he with ⟨_, _, rfl⟩ | ⟨_, rfl⟩ <;> cases h
  spnout := fun _ _ _ h => by
    rcases he with ⟨_, _, rfl⟩ | ⟨_, rfl⟩ <;> cases h
  blankRec := fun _ _ _ h => by
    rcases he with ⟨_, _, rfl⟩ | ⟨_, rfl⟩ <;> cases h
  limit := fun _ _ _ h => by
    rcases he with ⟨_, _, rfl⟩ | ⟨_, rfl⟩ <;> cases h

theorem REnd.ofLimit {p : Prog} {q : Nat} {t : Tape} {steps : Nat} {blanks : List (Nat × Nat)}
    (inv : RInv p q t steps blanks) (hi : Nat) : REnd p hi (.limit q t steps, blanks) where
  blanks := fun q n h => (inv.blanks q n h).1
  nodup := inv.nodup
  undfnd := fun _ _ _ _ _ h => by cases h
  spnout := fun _ _ _ h => by cases h
  blankRec := fun _ _ _ h => by cases h
  limit := fun q' t' n h => by
    simp only [ReplayEnd.limit.injEq] at h
    obtain ⟨rfl, rfl, rfl⟩ := h
    exact ⟨inv.runAt, inv.canon, inv.run.noSpin⟩

theorem REnd.ofUndefined {p : Prog} {q : Nat} {t : Tape} {steps : Nat}
    {blanks : List (Nat × Nat)} (inv : RInv p q t steps blanks) {cycle hi : Nat}
    (hlt : cycle < hi) {slot : Slot} (h : plainStep p q t = .undefined slot) :
    REnd p hi (.undfnd cycle slot t.marks steps, blanks) where
  blanks := fun q n h => (inv.blanks q n h).1
  nodup := inv.nodup
  undfnd := fun cyc q' s m n he => by
    obtain ⟨hslot, hget⟩ := plainStep_undefined h
    simp only [ReplayEnd.undfnd.injEq] at he
    obtain ⟨rfl, hs, rfl, rfl⟩ := he
    rw [hslot] at hs
    simp only [Prod.mk.injEq] at hs
    obtain ⟨rfl, rfl⟩ := hs
    obtain ⟨c, hrun, hc⟩ := inv.runAt
    refine ⟨⟨c, hrun, hc.1, hc.2.1, hget⟩, ⟨c, hrun, ?_⟩, inv.run.noSpin, hlt⟩
    exact hc.marks_eq.trans (t.marks_toCfg q).symm
  spnout := fun _ _ _ h => by cases h
  blankRec := fun _ _ _ h => by cases h
  limit := fun _ _ _ h => by cases h

theorem REnd.ofSpinout {p : Prog} {q : Nat} {t : Tape} {steps : Nat}
    {blanks : List (Nat × Nat)} (inv : RInv p q t steps blanks) {cycle hi : Nat}
    (hlt : cycle < hi) (h : plainStep p q t = .spinout) :
    REnd p hi (.spnout cycle t.marks steps, blanks) where
  blanks := fun q n h => (inv.blanks q n h).1
  nodup := inv.nodup
  undfnd := fun _ _ _ _ _ h => by cases h
  spnout := fun cyc m n he => by
    obtain ⟨color, shift, hget, hat⟩ := plainStep_spinout h
    simp only [ReplayEnd.spnout.injEq] at he
    obtain ⟨rfl, rfl, rfl⟩ := he
    obtain ⟨c, hrun, hc⟩ := inv.runAt
    obtain ⟨hscan, hzero⟩ := (Tape.atEdge_iff inv.canon shift).1 hat
    have hspin : SpinOutCfg p.toF c := by
      have hcs : c.state = q := hc.1
      have hcn : c.scan = 0 := hc.2.1.trans hscan
      refine ⟨hcn, color, shift, ?_, ?_⟩
      · rw [hcs]
        have : p.toF q t.scan = some (color, shift, q) := hget
        rw [hscan] at this
        exact this
      · cases shift
        · exact (hc.2.2.1.symm).allZero hzero
        · exact (hc.2.2.2.symm).allZero hzero
    exact ⟨⟨c, hrun, hspin, hc.marks_eq.trans (t.marks_toCfg q).symm⟩, inv.run.noSpin, hlt⟩
  blankRec := fun _ _ _ h => by cases h
  limit := fun _ _ _ h => by cases h

theorem REnd.ofBlankRec {p : Prog} {hi cycle q n : Nat} {bl : List (Nat × Nat)}
    (hb : ∀ q' n', (q', n') ∈ bl → BlankAfter p.toF n' q') (hn : (bl.map (·.1)).Nodup)
    (h1 : BlankAfter p.toF n q) (h2 : NeverHalts p.toF) :
    REnd p hi (.blankRec cycle q n, bl) where
  blanks := hb
  nodup := hn
  undfnd := fun _ _ _ _ _ h => by cases h
  spnout := fun _ _ _ h => by cases h
  blankRec := fun _ _ _ he => by
    simp only [ReplayEnd.blankRec.injEq] at he
    obtain ⟨_, rfl, rfl⟩ := he
    exact ⟨h1, h2⟩
  limit := fun _ _ _ h => by cases h

/-! ### one cycle -/

/-- the plain branch: given the result for every shorter replay (`ih`) -/
theorem replayPlain_spec (p : Prog) (va : Nat → Tape → AppRec → Option Nat)
    (why : Nat → Tape → AppRec → AppRes) (fuel : Nat)
    (ih : ∀ (cycle q : Nat) (t : Tape) (steps : Nat) (blanks : List (Nat × Nat))
      (apps : List AppRec), RInv p q t steps blanks →
      REnd p (cycle + fuel) (replayGo p va why fuel cycle q t steps blanks apps))
    (cycle q : Nat) (t : Tape) (steps : Nat) (blanks : List (Nat × Nat)) (apps : List AppRec)
    (inv : RInv p q t steps blanks) :
    REnd p (cycle + (fuel + 1)) (replayPlain p va why fuel cycle q t steps blanks apps) := by
  have hhi : cycle + (fuel + 1) = cycle + 1 + fuel := by omega
  unfold replayPlain
  cases hps : plainStep p q t with
  | undefined slot => exact REnd.ofUndefined inv (by omega) hps
  | spinout => exact REnd.ofSpinout inv (by omega) hps
  | next q' t' k =>
    simp only
    obtain ⟨hk, _, hcan', hrun⟩ := plainStep_sound inv.canon.pos hps
    have hrun' := inv.extend hrun
    have hcanon' : t'.Canon := hcan' inv.canon
    have hold : ∀ q'' n, (q'', n) ∈ blanks → BlankAfter p.toF n q'' ∧ n ≤ steps + k :=
      fun q'' n h => ⟨(inv.blanks q'' n h).1, Nat.le_trans (inv.blanks q'' n h).2 (Nat.le_add_right _ _)⟩
    by_cases hbl : t'.cellsBlank = true
    · rw [if_pos hbl]
      obtain ⟨c', hr', hc'⟩ := hrun'.1
      have hblank' : c'.Blank := hc'.symm.blank (Tape.cellsBlank_toCfg hbl q')
      have hstate' : c'.state = q' := hc'.1
      have hnew : BlankAfter p.toF (steps + k) q' := ⟨by omega, c', hr', hstate', hblank'⟩
      by_cases hany : blanks.any (fun e => e.1 == q') = true
      · rw [if_pos hany]
        obtain ⟨n, hn⟩ := any_fst_exists hany
        obtain ⟨⟨_, c1, hr1, hs1, hb1⟩, hle⟩ := inv.blanks q' n hn
        exact REnd.ofBlankRec (fun a b h => (inv.blanks a b h).1) inv.nodup hnew
          (blank_twice_loops (by omega) hr1 hb1 hs1 hr' hblank' hstate')
      · rw [if_neg hany]
        have hnd : (((q', steps + k) :: blanks).map (·.1)).Nodup := by
          rw [List.map_cons, List.nodup_cons]
          exact ⟨not_mem_fst_of_any hany, inv.nodup⟩
        have hblanks' : ∀ q'' n, (q'', n) ∈ (q', steps + k) :: blanks →
            BlankAfter p.toF n q'' ∧ n ≤ steps + k := by
          intro q'' n h
          cases h with
          | head => exact ⟨hnew, Nat.le_refl _⟩
          | tail _ h' => exact hold q'' n h'
        by_cases hz : (q' == 0) = true
        · rw [if_pos hz]
          simp only [beq_iff_eq] at hz
          exact REnd.ofBlankRec (fun a b h => (hblanks' a b h).1) hnd hnew
            (blank_twice_loops (n := 0) (by omega) (rfl : RunAt p.toF 0 Cfg.init)
              ⟨rfl, allZero_nil, allZero_nil⟩ (rfl : Cfg.init.state = 0)
              hr' hblank' (hstate'.trans hz))
        · rw [if_neg hz, hhi]
          exact ih (cycle + 1) q' t' (steps + k) _ apps ⟨hcanon', hrun', hblanks', hnd⟩
    · rw [if_neg hbl, hhi]
      exact ih (cycle + 1) q' t' (steps + k) _ apps ⟨hcanon', hrun', hold, inv.nodup⟩

/-- what the replay needs of an application validator: an accepted application from a canonical
    tape is a run of `s ≥ 1` real machine steps to `a.after`, through configurations with a defined
    instruction that are not spin-out configurations, and `a.after` is canonical -/
def VaSound (p : Prog) (va : Nat → Tape → AppRec → Option Nat) : Prop :=
  ∀ (q : Nat) (t : Tape) (a : AppRec) (s : Nat), va q t a = some s → t.Canon →
    RunVia p.toF (OnWay p.toF True) (t.toCfg q) s (a.after.toCfg q) ∧ 1 ≤ s ∧ a.after.Canon

/-- **the replay loop is sound**, for every sound application validator -/
theorem replayGo_spec (p : Prog) (va : Nat → Tape → AppRec → Option Nat)
    (why : Nat → Tape → AppRec → AppRes) (hva : VaSound p va) :
    ∀ (fuel cycle q : Nat) (t : Tape) (steps : Nat) (blanks : List (Nat × Nat))
      (apps : List AppRec), RInv p q t steps blanks →
      REnd p (cycle + fuel) (replayGo p va why fuel cycle q t steps blanks apps) := by
  intro fuel
  induction fuel with
  | zero =>
    intro cycle q t steps blanks apps inv
    rw [replayGo_zero]
    exact REnd.ofLimit inv _
  | succ fuel ih =>
    intro cycle q t steps blanks apps inv
    cases apps with
    | nil =>
      rw [replayGo_succ_nil]
      exact replayPlain_spec p va why fuel ih cycle q t steps blanks [] inv
    | cons a rest =>
      rw [replayGo_succ_cons]
      by_cases h1 : a.cycle < cycle
      · rw [if_pos h1]
        exact REnd.ofFailure inv _ _ (Or.inr ⟨_, rfl⟩)
      · rw [if_neg h1]
        by_cases h2 : (a.cycle == cycle) = true
        · rw [if_pos h2]
          by_cases h3 : (a.state != q || a.before != t) = true
          · rw [if_pos h3]
            exact REnd.ofFailure inv _ _ (Or.inr ⟨_, rfl⟩)
          · rw [if_neg h3]
            cases hca : va q t a with
            | some s =>
              simp only
              obtain ⟨hrun, _, hcan⟩ := hva q t a s hca inv.canon
              have hhi : cycle + (fuel + 1) = cycle + 1 + fuel := by omega
              rw [hhi]
              refine ih (cycle + 1) q a.after (steps + s) blanks rest
                ⟨hcan, RunVia.trans (fun _ _ hab => OnWay.congr hab) inv.run hrun,
                  fun q' n h => ?_, inv.nodup⟩
              exact ⟨(inv.blanks q' n h).1, Nat.le_trans (inv.blanks q' n h).2 (Nat.le_add_right _ _)⟩
            | none => exact REnd.ofFailure inv _ _ (Or.inl ⟨_, _, rfl⟩)
        · rw [if_neg h2]
          exact replayPlain_spec p va why fuel ih cycle q t steps blanks (a :: rest) inv

/-! ### the two validators are sound -/

theorem vaCheck_sound (p : Prog) (budget : Nat) : VaSound p (vaCheck p budget) := by
  intro q t a s h hcanon
  unfold vaCheck at h
  cases hca : checkApp p q t a.after budget with
  | ok cyc s' =>
    rw [hca] at h
    simp only [Option.some.injEq] at h
    subst h
    obtain ⟨h1, _, h3, hrun, _, hcan⟩ :=
      check_app_sound' p q t a.after budget cyc s' hcanon.pos hca
    exact ⟨hrun.mono fun _ hc => hc.mono fun _ => hcanon, by omega, hcan hcanon⟩
  | undefinedOnWay slot => rw [hca] at h; cases h
  | spinoutOnWay => rw [hca] at h; cases h
  | overBudget => rw [hca] at h; cases h
  | notCanon => rw [hca] at h; cases h

theorem vaSym_sound (p : Prog) (budget : Nat) : VaSound p (vaSym p budget) := by
  intro q t a s h hcanon
  unfold vaSym at h
  cases hca : checkApp p q t a.after budget with
  | ok cyc s' =>
    rw [hca] at h
    simp only [Option.some.injEq] at h
    subst h
    obtain ⟨h1, _, h3, hrun, _, hcan⟩ :=
      check_app_sound' p q t a.after budget cyc s' hcanon.pos hca
    exact ⟨hrun.mono fun _ hc => hc.mono fun _ => hcanon, by omega, hcan hcanon⟩
  | undefinedOnWay slot => rw [hca] at h; cases h
  | spinoutOnWay => rw [hca] at h; cases h
  | overBudget =>
    rw [hca] at h
    simp only at h
    obtain ⟨h1, _, _, hrun, hcan⟩ := Sym.validate_app_sound' p q t a.after a.times budget s h
    exact ⟨hrun.mono fun _ hc => hc.mono fun _ => hcanon, h1, hcan hcanon⟩
  | notCanon => rw [hca] at h; cases h

theorem replay_spec (p : Prog) (budget lim : Nat) (apps : List AppRec) :
    REnd p lim (replay p budget lim apps) := by
  have := replayGo_spec p _ (whyCheck p budget) (vaCheck_sound p budget) lim 0 0 Tape.init 0 []
    apps (RInv.init p)
  rw [Nat.zero_add] at this
  exact this

theorem replaySym_spec (p : Prog) (budget lim : Nat) (apps : List AppRec) :
    REnd p lim (replaySym p budget lim apps) := by
  have := replayGo_spec p _ (whyCheck p budget) (vaSym_sound p budget) lim 0 0 Tape.init 0 []
    apps (RInv.init p)
  rw [Nat.zero_add] at this
  exact this

/-! ### without applications -/

/-- the end of a replay is not a validation failure -/
def ReplayEnd.Valid (e : ReplayEnd) : Prop := (∀ c w, e ≠ .badApp c w) ∧ (∀ c, e ≠ .appMismatch c)

theorem ReplayEnd.valid_of {e : ReplayEnd} (h1 : ∀ c w, e ≠ .badApp c w)
    (h2 : ∀ c, e ≠ .appMismatch c) : e.Valid := ⟨h1, h2⟩

theorem replayGo_nil_valid (p : Prog) (va : Nat → Tape → AppRec → Option Nat)
    (why : Nat → Tape → AppRec → AppRes) :
    ∀ (fuel cycle q : Nat) (t : Tape) (steps : Nat) (blanks : List (Nat × Nat)),
      (replayGo p va why fuel cycle q t steps blanks []).1.Valid := by
  intro fuel
  induction fuel with
  | zero =>
    intro cycle q t steps blanks
    rw [replayGo_zero]
    exact ReplayEnd.valid_of (fun _ _ h => by cases h) (fun _ h => by cases h)
  | succ fuel ih =>
    intro cycle q t steps blanks
    rw [replayGo_succ_nil]
    unfold replayPlain
    cases hps : plainStep p q t with
    | undefined slot => exact ReplayEnd.valid_of (fun _ _ h => by cases h) (fun _ h => by cases h)
    | spinout => exact ReplayEnd.valid_of (fun _ _ h => by cases h) (fun _ h => by cases h)
    | next q' t' k =>
      simp only
      split
      · split
        · exact ReplayEnd.valid_of (fun _ _ h => by cases h) (fun _ h => by cases h)
        · split
          · exact ReplayEnd.valid_of (fun _ _ h => by cases h) (fun _ h => by cases h)
          · exact ih _ _ _ _ _
      · exact ih _ _ _ _ _

/-! ### the lemma forms of the property theorems -/

theorem replay_undfnd' (p : Prog) (budget lim : Nat) (apps : List AppRec) (cyc q s m n : Nat)
    (bl : List (Nat × Nat)) (h : replay p budget lim apps = (.undfnd cyc (q, s) m n, bl)) :
    HaltsAt p.toF n q s ∧ (∃ c, RunAt p.toF n c ∧ c.marks = m) ∧
      (∀ j c, j < n → RunAt p.toF j c → ¬ SpinOutCfg p.toF c) ∧ cyc < lim :=
  (replay_spec p budget lim apps).undfnd cyc q s m n (by rw [h])

theorem replay_spnout' (p : Prog) (budget lim : Nat) (apps : List AppRec) (cyc m n : Nat)
    (bl : List (Nat × Nat)) (h : replay p budget lim apps = (.spnout cyc m n, bl)) :
    (∃ c, RunAt p.toF n c ∧ SpinOutCfg p.toF c ∧ c.marks = m) ∧
      (∀ j c, j < n → RunAt p.toF j c → ¬ SpinOutCfg p.toF c) ∧ cyc < lim :=
  (replay_spec p budget lim apps).spnout cyc m n (by rw [h])

theorem replay_blankRec' (p : Prog) (budget lim : Nat) (apps : List AppRec) (cyc q n : Nat)
    (bl : List (Nat × Nat)) (h : replay p budget lim apps = (.blankRec cyc q n, bl)) :
    BlankAfter p.toF n q ∧ NeverHalts p.toF :=
  (replay_spec p budget lim apps).blankRec cyc q n (by rw [h])

theorem replay_limit' (p : Prog) (budget lim : Nat) (apps : List AppRec) (q : Nat) (t : Tape)
    (n : Nat) (bl : List (Nat × Nat)) (h : replay p budget lim apps = (.limit q t n, bl)) :
    (∃ c, RunAt p.toF n c ∧ c ≈c t.toCfg q) ∧ t.Canon ∧
      (∀ j c, j < n → RunAt p.toF j c → ¬ SpinOutCfg p.toF c) :=
  (replay_spec p budget lim apps).limit q t n (by rw [h])

theorem replay_blanks' (p : Prog) (budget lim : Nat) (apps : List AppRec) (e : ReplayEnd)
    (bl : List (Nat × Nat)) (h : replay p budget lim apps = (e, bl)) :
    (∀ q n, (q, n) ∈ bl → BlankAfter p.toF n q) ∧ (bl.map (·.1)).Nodup := by
  have spec := replay_spec p budget lim apps
  rw [h] at spec
  exact ⟨spec.blanks, spec.nodup⟩

theorem replay_no_apps' (p : Prog) (budget lim : Nat) (e : ReplayEnd) (bl : List (Nat × Nat))
    (h : replay p budget lim [] = (e, bl)) :
    (∀ c w, e ≠ .badApp c w) ∧ (∀ c, e ≠ .appMismatch c) := by
  have := replayGo_nil_valid p (vaCheck p budget) (whyCheck p budget) lim 0 0 Tape.init 0 []
  unfold replay at h
  rw [h] at this
  exact this

/-! ### the same for `replaySym` -/

theorem replaySym_undfnd' (p : Prog) (budget lim : Nat) (apps : List AppRec) (cyc q s m n : Nat)
    (bl : List (Nat × Nat)) (h : replaySym p budget lim apps = (.undfnd cyc (q, s) m n, bl)) :
    HaltsAt p.toF n q s ∧ (∃ c, RunAt p.toF n c ∧ c.marks = m) ∧
      (∀ j c, j < n → RunAt p.toF j c → ¬ SpinOutCfg p.toF c) ∧ cyc < lim :=
  (replaySym_spec p budget lim apps).undfnd cyc q s m n (by rw [h])

theorem replaySym_spnout' (p : Prog) (budget lim : Nat) (apps : List AppRec) (cyc m n : Nat)
    (bl : List (Nat × Nat)) (h : replaySym p budget lim apps = (.spnout cyc m n, bl)) :
    (∃ c, RunAt p.toF n c ∧ SpinOutCfg p.toF c ∧ c.marks = m) ∧
      (∀ j c, j < n → RunAt p.toF j c → ¬ SpinOutCfg p.toF c) ∧ cyc < lim :=
  (replaySym_spec p budget lim apps).spnout cyc m n (by rw [h])

theorem replaySym_blankRec' (p : Prog) (budget lim : Nat) (apps : List AppRec) (cyc q n : Nat)
    (bl : List (Nat × Nat)) (h : replaySym p budget lim apps = (.blankRec cyc q n, bl)) :
    BlankAfter p.toF n q ∧ NeverHalts p.toF :=
  (replaySym_spec p budget lim apps).blankRec cyc q n (by rw [h])

theorem replaySym_limit' (p : Prog) (budget lim : Nat) (apps : List AppRec) (q : Nat) (t : Tape)
    (n : Nat) (bl : List (Nat × Nat)) (h : replaySym p budget lim apps = (.limit q t n, bl)) :
    (∃ c, RunAt p.toF n c ∧ c ≈c t.toCfg q) ∧ t.Canon ∧
      (∀ j c, j < n → RunAt p.toF j c → ¬ SpinOutCfg p.toF c) :=
  (replaySym_spec p budget lim apps).limit q t n (by rw [h])

theorem replaySym_blanks' (p : Prog) (budget lim : Nat) (apps : List AppRec) (e : ReplayEnd)
    (bl : List (Nat × Nat)) (h : replaySym p budget lim apps = (e, bl)) :
    (∀ q n, (q, n) ∈ bl → BlankAfter p.toF n q) ∧ (bl.map (·.1)).Nodup := by
  have spec := replaySym_spec p budget lim apps
  rw [h] at spec
  exact ⟨spec.blanks, spec.nodup⟩

theorem replaySym_no_apps' (p : Prog) (budget lim : Nat) (e : ReplayEnd) (bl : List (Nat × Nat))
    (h : replaySym p budget lim [] = (e, bl)) :
    (∀ c w, e ≠ .badApp c w) ∧ (∀ c, e ≠ .appMismatch c) := by
  have := replayGo_nil_valid p (vaSym p budget) (whyCheck p budget) lim 0 0 Tape.init 0 []
  unfold replaySym at h
  rw [h] at this
  exact this

/-! ### an infinite rule at the end of a replay -/

/-- a configuration reached without halt or spin-out from which the machine neither halts nor
    spins out: the machine never halts and never spins out -/
theorem never_halts_from {p : ProgF} {n : Nat} {c e : Cfg} (hr : RunAt p n c) (he : c ≈c e)
    (hbefore : ∀ j c', j < n → RunAt p j c' → ¬ SpinOutCfg p c')
    (hrun : ∀ k, ∃ c', stepN p k e = some c')
    (hns : ∀ k c', stepN p k e = some c' → ¬ SpinOutCfg p c') :
    NeverHalts p ∧ ¬ SpinsOut p := by
  refine ⟨fun N => ?_, ?_⟩
  · by_cases hN : N ≤ n
    · exact stepN_le hr hN
    · obtain ⟨k, rfl⟩ : ∃ k, N = n + k := ⟨N - n, by omega⟩
      obtain ⟨c', hc'⟩ := hrun k
      obtain ⟨b', hb', _⟩ := stepN_congr he.symm hc'
      exact ⟨b', stepN_add_of_eq hr hb'⟩
  · rintro ⟨N, cN, hN, hspin⟩
    by_cases hlt : N < n
    · exact hbefore N cN hlt hN hspin
    · obtain ⟨k, rfl⟩ : ∃ k, N = n + k := ⟨N - n, by omega⟩
      obtain ⟨c0, h0, hk⟩ := stepN_prefix hN
      have : c0 = c := RunAt.unique h0 hr
      subst this
      obtain ⟨b', hb', heq⟩ := stepN_congr he hk
      exact hns k b' hb' (SpinOutCfg.congr heq hspin)

theorem replaySym_limit_inf' (p : Prog) (budget lim : Nat) (apps : List AppRec) (q : Nat)
    (t : Tape) (n : Nat) (bl : List (Nat × Nat)) (budget' : Nat)
    (h : replaySym p budget lim apps = (.limit q t n, bl))
    (hinf : Sym.validateInf p q t budget' = true) :
    NeverHalts p.toF ∧ ¬ SpinsOut p.toF := by
  obtain ⟨⟨c, hr, he⟩, hcanon, hbefore⟩ := replaySym_limit' p budget lim apps q t n bl h
  obtain ⟨hrun, hns⟩ := Sym.validate_inf_sound' p q t budget' hinf
  exact never_halts_from hr he hbefore hrun (hns hcanon)

end BB
