/-
Symbolic rule validation, part 3: valuations along the periods of a rule (`valAt v D j` = `v + j·D`),
the value of a linear form on them, the sum of the step forms (`totalSteps`), and the structure of
the symbolic span built by `symSpan`: the shifted span at period `j` is the span at period `j+1`,
and at the last period it is the reported `after`.
-/
import BB.Lemmas.SymRule2

namespace BB.Sym

/-! ### valuations along the periods -/

/-- the valuation after `j` periods: `v + j·D` (truncated at 0, see `NonnegAt`) -/
def valAt : Val → List Int → Nat → Val
  | x :: xs, d :: ds, j => ((x : Int) + j * d).toNat :: valAt xs ds j
  | _, _, _ => []

/-- `v + j·D` has no negative entry -/
def NonnegAt : Val → List Int → Nat → Prop
  | x :: xs, d :: ds, j => 0 ≤ (x : Int) + j * d ∧ NonnegAt xs ds j
  | _, _, _ => True

/-- `Σ kᵢ·dᵢ` -/
def dotD : List Nat → List Int → Int
  | k :: ks, d :: ds => k * d + dotD ks ds
  | _, _ => 0

theorem valAt_zero (v : Val) (D : List Int) (h : v.length = D.length) : valAt v D 0 = v := by
  induction v generalizing D with
  | nil => cases D <;> rfl
  | cons x xs ih =>
    cases D with
    | nil => cases h
    | cons d ds =>
      simp only [List.length_cons, Nat.add_right_cancel_iff] at h
      simp only [valAt, ih ds h]
      congr 1
      simp only [Int.natCast_zero, Int.zero_mul, Int.add_zero, Int.toNat_natCast]

theorem valAt_getD (v : Val) (D : List Int) (j : Nat) (h : v.length = D.length)
    (hn : NonnegAt v D j) (k : Nat) :
    ((valAt v D j).getD k 0 : Int) = v.getD k 0 + j * D.getD k 0 := by
  induction v generalizing D k with
  | nil =>
    cases D with
    | nil => simp [valAt]
    | cons d ds => cases h
  | cons x xs ih =>
    cases D with
    | nil => cases h
    | cons d ds =>
      simp only [List.length_cons, Nat.add_right_cancel_iff] at h
      simp only [NonnegAt] at hn
      cases k with
      | zero =>
        simp only [valAt, List.getD_cons_zero]
        omega
      | succ k =>
        simp only [valAt, List.getD_cons_succ]
        exact ih ds h hn.2 k

theorem dot_valAt (ks : List Nat) (v : Val) (D : List Int) (j : Nat) (h : v.length = D.length)
    (hn : NonnegAt v D j) : (dot ks (valAt v D j) : Int) = dot ks v + j * dotD ks D := by
  induction ks generalizing v D with
  | nil => simp only [dot_nil_left, dotD, Int.natCast_zero, Int.mul_zero, Int.add_zero]
  | cons k ks ih =>
    cases v with
    | nil =>
      cases D with
      | nil => simp [valAt, dot_nil_right, dotD]
      | cons d ds => cases h
    | cons x xs =>
      cases D with
      | nil => cases h
      | cons d ds =>
        simp only [List.length_cons, Nat.add_right_cancel_iff] at h
        simp only [NonnegAt] at hn
        simp only [valAt, dot_cons, dotD, Int.natCast_add, Int.natCast_mul, ih xs ds h hn.2,
          Int.toNat_of_nonneg hn.1]
        grind

theorem eval_valAt (f : Form) (v : Val) (D : List Int) (j : Nat) (h : v.length = D.length)
    (hn : NonnegAt v D j) : (f.eval (valAt v D j) : Int) = f.eval v + j * dotD f.ks D := by
  simp only [Form.eval, Int.natCast_add, dot_valAt f.ks v D j h hn]
  omega

theorem NonnegAt_of_nonneg (v : Val) (D : List Int) (j : Nat) (h : ∀ d ∈ D, 0 ≤ d) :
    NonnegAt v D j := by
  induction v generalizing D with
  | nil => cases D <;> trivial
  | cons x xs ih =>
    cases D with
    | nil => trivial
    | cons d ds =>
      refine ⟨?_, ih ds fun e he => h e (List.mem_cons_of_mem _ he)⟩
      have hd : 0 ≤ d := h d (List.mem_cons_self ..)
      have : 0 ≤ (j : Int) * d := Int.mul_nonneg (Int.natCast_nonneg j) hd
      omega

theorem NonnegAt_append {v1 v2 : Val} {D1 D2 : List Int} {j : Nat} (h : v1.length = D1.length)
    (h1 : NonnegAt v1 D1 j) (h2 : NonnegAt v2 D2 j) : NonnegAt (v1 ++ v2) (D1 ++ D2) j := by
  induction v1 generalizing D1 with
  | nil =>
    cases D1 with
    | nil => exact h2
    | cons d ds => cases h
  | cons x xs ih =>
    cases D1 with
    | nil => cases h
    | cons d ds =>
      simp only [List.length_cons, Nat.add_right_cancel_iff] at h
      exact ⟨h1.1, ih h h1.2⟩

/-! ### the total number of steps -/

/-- `Σ_{j<n} g j` -/
def sumTo (g : Nat → Nat) : Nat → Nat
  | 0 => 0
  | n + 1 => sumTo g n + g n

theorem sumTo_ge (g : Nat → Nat) (h : ∀ j, 1 ≤ g j) (n : Nat) : n ≤ sumTo g n := by
  induction n with
  | zero => exact Nat.le_refl _
  | succ n ih => have := h n; simp only [sumTo]; omega

theorem sumTo_congr {g g' : Nat → Nat} {n : Nat} (h : ∀ j, j < n → g j = g' j) :
    sumTo g n = sumTo g' n := by
  induction n with
  | zero => rfl
  | succ n ih =>
    simp only [sumTo]
    rw [ih fun j hj => h j (by omega), h n (by omega)]

theorem foldl_add_init (l : List Int) (a : Int) :
    l.foldl (· + ·) a = a + l.foldl (· + ·) 0 := by
  induction l generalizing a with
  | nil => simp
  | cons x xs ih =>
    simp only [List.foldl_cons]
    rw [ih (a + x), ih (0 + x)]
    omega

theorem foldl_zipWith_dotD (ks : List Nat) (ds : List Int) :
    (List.zipWith (fun (k : Nat) (d : Int) => (k : Int) * d) ks ds).foldl (· + ·) 0 = dotD ks ds := by
  induction ks generalizing ds with
  | nil => simp [dotD]
  | cons k ks ih =>
    cases ds with
    | nil => simp [dotD]
    | cons d ds =>
      simp only [List.zipWith_cons_cons, List.foldl_cons, dotD]
      rw [foldl_add_init, ih]
      omega

theorem totalSteps_eq (f : Form) (x : Val) (ds : List Int) (t : Nat) :
    totalSteps f x ds t = (t : Int) * (f.eval x : Int) + dotD f.ks ds * ((t : Int) * ((t : Int) - 1) / 2) := by
  simp only [totalSteps, foldl_zipWith_dotD]

theorem tri_succ (t : Nat) :
    ((t + 1 : Nat) : Int) * (((t + 1 : Nat) : Int) - 1) / 2 = (t : Int) * ((t : Int) - 1) / 2 + t := by
  have h : ((t + 1 : Nat) : Int) * (((t + 1 : Nat) : Int) - 1) = (t : Int) * ((t : Int) - 1) + 2 * t := by
    grind
  rw [h]
  omega

/-- the steps of the first `t` periods add up to `totalSteps` -/
theorem sumTo_totalSteps (f : Form) (v : Val) (D : List Int) (h : v.length = D.length) (t : Nat)
    (hn : ∀ j, j < t → NonnegAt v D j) :
    ((sumTo (fun j => f.eval (valAt v D j)) t : Nat) : Int) = totalSteps f v D t := by
  rw [totalSteps_eq]
  induction t with
  | zero => simp [sumTo]
  | succ t ih =>
    rw [sumTo, Int.natCast_add, ih fun j hj => hn j (by omega),
      eval_valAt f v D t h (hn t (by omega)), tri_succ]
    grind

/-! ### the structure of `symSpan` -/

theorem symSpan_nil_left (times : Nat) (ds : List Int) (i : Nat) :
    symSpan times [] ds i = ([], [], i) := by
  simp only [symSpan]

theorem symSpan_nil_right (times : Nat) (s : Span) (i : Nat) :
    symSpan times s [] i = ([], [], i) := by
  cases s <;> simp only [symSpan]

theorem symSpan_cons_zero (times : Nat) (a : Block) (as : Span) (ds : List Int) (i : Nat) :
    symSpan times (a :: as) (0 :: ds) i =
      (⟨a.color, Form.const a.count⟩ :: (symSpan times as ds i).1, (symSpan times as ds i).2.1,
        (symSpan times as ds i).2.2) := by
  simp only [symSpan, beq_self_eq_true, if_true]

theorem symSpan_cons_ne (times : Nat) (a : Block) (as : Span) (d : Int) (ds : List Int) (i : Nat)
    (hd : d ≠ 0) :
    symSpan times (a :: as) (d :: ds) i =
      (⟨a.color, Form.var (if d > 0 then a.count else a.count - (times - 1) * d.natAbs) i⟩ ::
          (symSpan times as ds (i + 1)).1,
        (a.count - (if d > 0 then a.count else a.count - (times - 1) * d.natAbs)) ::
          (symSpan times as ds (i + 1)).2.1,
        (symSpan times as ds (i + 1)).2.2) := by
  have : (d == 0) = false := by simpa using hd
  simp only [symSpan, this, Bool.false_eq_true, if_false]

theorem filter_cons_zero (ds : List Int) : (0 :: ds).filter (· != 0) = ds.filter (· != 0) := by
  simp

theorem filter_cons_ne {d : Int} (hd : d ≠ 0) (ds : List Int) :
    (d :: ds).filter (· != 0) = d :: ds.filter (· != 0) := by
  simp [hd]

/-- number of variables and length of the start valuation -/
theorem symSpan_length (times : Nat) (s : Span) (ds : List Int) (i : Nat)
    (hl : s.length = ds.length) :
    (symSpan times s ds i).2.1.length = (ds.filter (· != 0)).length ∧
      (symSpan times s ds i).2.2 = i + (ds.filter (· != 0)).length := by
  induction s generalizing ds i with
  | nil =>
    cases ds with
    | nil => simp [symSpan_nil_left]
    | cons d ds => cases hl
  | cons a as ih =>
    cases ds with
    | nil => cases hl
    | cons d ds =>
      simp only [List.length_cons, Nat.add_right_cancel_iff] at hl
      by_cases hd : d = 0
      · subst hd
        rw [symSpan_cons_zero, filter_cons_zero]
        exact ih ds i hl
      · rw [symSpan_cons_ne _ _ _ _ _ _ hd, filter_cons_ne hd]
        obtain ⟨h1, h2⟩ := ih ds (i + 1) hl
        simp only [List.length_cons, h1, h2]
        exact ⟨trivial, by omega⟩

theorem shiftSpan_cons {b : SBlock} {bs : SSpan} {d : Int} {ds : List Int} {tgt : SSpan}
    (h : shiftSpan (b :: bs) (d :: ds) = some tgt) :
    1 ≤ (b.count.c : Int) + d ∧ ∃ r, shiftSpan bs ds = some r ∧
      tgt = ⟨b.color, ⟨((b.count.c : Int) + d).toNat, b.count.ks⟩⟩ :: r := by
  simp only [shiftSpan] at h
  split at h
  · cases h
  · rename_i hc
    cases hr : shiftSpan bs ds with
    | none => rw [hr] at h; cases h
    | some r =>
      rw [hr] at h
      simp only [Option.map_some, Option.some.injEq] at h
      exact ⟨by omega, r, rfl, h.symm⟩

theorem shiftSpan_nil {ds : List Int} {tgt : SSpan} (h : shiftSpan [] ds = some tgt) :
    tgt = [] := by
  cases ds with
  | nil => simp only [shiftSpan, Option.some.injEq] at h; exact h.symm
  | cons d ds => simp only [shiftSpan] at h; cases h

/-- **the shifted span at one valuation is the span at the next**: if `w'` is `w` plus the
    differences on the variables of this span -/
theorem symSpan_shift_inst (times : Nat) (s : Span) (ds : List Int) (i : Nat) (tgt : SSpan)
    (hl : s.length = ds.length)
    (hs : shiftSpan (symSpan times s ds i).1 ds = some tgt) (w w' : Val)
    (hw : ∀ k, k < (ds.filter (· != 0)).length →
      ((w'.getD (i + k) 0 : Nat) : Int) = w.getD (i + k) 0 + (ds.filter (· != 0)).getD k 0) :
    tgt.inst w = (symSpan times s ds i).1.inst w' := by
  induction s generalizing ds i tgt with
  | nil =>
    rw [symSpan_nil_left] at hs ⊢
    rw [shiftSpan_nil hs]
    rfl
  | cons a as ih =>
    cases ds with
    | nil => cases hl
    | cons d ds =>
      simp only [List.length_cons, Nat.add_right_cancel_iff] at hl
      by_cases hd : d = 0
      · subst hd
        rw [symSpan_cons_zero] at hs ⊢
        rw [filter_cons_zero] at hw
        obtain ⟨_, r, hr, rfl⟩ := shiftSpan_cons hs
        rw [SSpan.inst_cons, SSpan.inst_cons, ih ds i r hl hr hw]
        simp only [Form.const, Form.eval, dot_nil_left, Int.add_zero, Int.toNat_natCast]
      · rw [symSpan_cons_ne _ _ _ _ _ _ hd] at hs ⊢
        rw [filter_cons_ne hd] at hw
        obtain ⟨hc, r, hr, rfl⟩ := shiftSpan_cons hs
        have hw0 := hw 0 (by simp only [List.length_cons]; omega)
        simp only [Nat.add_zero, List.getD_cons_zero] at hw0
        have hrest : r.inst w = (symSpan times as ds (i + 1)).1.inst w' := by
          refine ih ds (i + 1) r hl hr fun k hk => ?_
          have := hw (k + 1) (by simp only [List.length_cons]; omega)
          simp only [List.getD_cons_succ] at this
          rw [show i + 1 + k = i + (k + 1) by omega]
          exact this
        rw [SSpan.inst_cons, SSpan.inst_cons, hrest]
        simp only at hc ⊢
        congr 2
        have e1 : Form.eval ⟨((Form.var (if d > 0 then a.count else a.count - (times - 1) * d.natAbs) i).c + d).toNat,
            (Form.var (if d > 0 then a.count else a.count - (times - 1) * d.natAbs) i).ks⟩ w =
            ((Form.var (if d > 0 then a.count else a.count - (times - 1) * d.natAbs) i).c + d).toNat
              + w.getD i 0 := eval_var _ i w
        rw [e1, eval_var]
        simp only [Form.var] at hc ⊢
        omega

end BB.Sym
