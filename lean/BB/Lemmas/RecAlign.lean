/-
Meaning of `Span.compareTakeRs` and `HeadTape.alignsWith` on canonical tapes.

* `compareTakeRs s p take = true` on canonical spans ⇒ the first `take` cells of the two spans are
  equal.  (The Rust loop keeps a partially consumed block *with its full count*; on canonical spans
  this is harmless because the next comparison then meets two different colours and fails.)
* `alignsWith` ⇒ the two configurations hold the same cells, relative to their heads, on the window
  visited since the reference was taken, and on the whole half-line on the side moved towards.
-/
import BB.Lemmas.LinRec

namespace BB

/-! ### cells of a span that starts with a block -/

theorem cellAt_block_lt {a c : Nat} (rest : List Nat) {i : Nat} (h : i < a) :
    cellAt (List.replicate a c ++ rest) i = c := by
  rw [cellAt_append_left _ (by simpa using h), cellAt_replicate h]

theorem cellAt_block_ge {a c : Nat} (rest : List Nat) {i : Nat} (h : a ≤ i) :
    cellAt (List.replicate a c ++ rest) i = cellAt rest (i - a) := by
  have := cellAt_append_right (List.replicate a c) rest (i - a)
  simp only [List.length_replicate] at this
  have e : a + (i - a) = i := by omega
  rw [e] at this
  exact this

/-! ### compareTakeGo -/

theorem Span.compareTakeGo_cons (fuel take : Nat) (sb pb : Block) (ss ps : Span) (ht : take ≠ 0)
    (hc : sb.color = pb.color) (ha : 0 < sb.count) (hb : 0 < pb.count) :
    Span.compareTakeGo (fuel + 1) (sb :: ss) (pb :: ps) take
      = Span.compareTakeGo fuel
          (if sb.count == min take (min sb.count pb.count) then ss else sb :: ss)
          (if pb.count == min take (min sb.count pb.count) then ps else pb :: ps)
          (take - min take (min sb.count pb.count)) := by
  have h1 : (take == 0) = false := by simpa using ht
  have h2 : (sb.color != pb.color) = false := by simpa using hc
  have h3 : (sb.count == 0 || pb.count == 0) = false := by
    have : sb.count ≠ 0 := by omega
    have : pb.count ≠ 0 := by omega
    simp [*]
  simp only [Span.compareTakeGo, h1, h2, h3, Bool.false_eq_true, if_false]

/-- a non-trivial comparison against a span whose first block has another colour fails -/
theorem Span.compareTakeGo_ne_left (fuel take : Nat) (s : Span) (pb : Block) (ps : Span)
    (ht : take ≠ 0) (hs : match s with | [] => True | x :: _ => x.color ≠ pb.color) :
    Span.compareTakeGo (fuel + 1) s (pb :: ps) take = false := by
  have h1 : (take == 0) = false := by simpa using ht
  cases s with
  | nil => simp only [Span.compareTakeGo, h1, Bool.false_eq_true, if_false]
  | cons x xs =>
    have h2 : (x.color != pb.color) = true := by simpa using hs
    simp only [Span.compareTakeGo, h1, h2, Bool.false_eq_true, if_false, if_true]

theorem Span.compareTakeGo_ne_right (fuel take : Nat) (sb : Block) (ss : Span) (p : Span)
    (ht : take ≠ 0) (hs : match p with | [] => True | x :: _ => sb.color ≠ x.color) :
    Span.compareTakeGo (fuel + 1) (sb :: ss) p take = false := by
  have h1 : (take == 0) = false := by simpa using ht
  cases p with
  | nil => simp only [Span.compareTakeGo, h1, Bool.false_eq_true, if_false]
  | cons x xs =>
    have h2 : (sb.color != x.color) = true := by simpa using hs
    simp only [Span.compareTakeGo, h1, h2, Bool.false_eq_true, if_false, if_true]

/-- the colour of the second block of a canonical span differs from the first -/
theorem Span.Canon.next_ne {b : Block} {s : Span} (h : Span.Canon (b :: s)) :
    match s with | [] => True | x :: _ => b.color ≠ x.color := by
  cases s with
  | nil => trivial
  | cons c r => exact h.2.1

theorem Span.compareTakeGo_cells : ∀ (fuel : Nat) (s p : Span) (take : Nat),
    Span.Canon s → Span.Canon p → take ≤ fuel → Span.compareTakeGo fuel s p take = true →
    ∀ i, i < take → cellAt (Span.unroll s) i = cellAt (Span.unroll p) i := by
  intro fuel
  induction fuel with
  | zero => intro s p take _ _ hle _ i hi; omega
  | succ fuel ih =>
    intro s p take hs hp hle h i hi
    have ht : take ≠ 0 := by omega
    have h1 : (take == 0) = false := by simpa using ht
    cases s with
    | nil =>
      cases p with
      | nil => rfl
      | cons pb ps => simp [Span.compareTakeGo, h1] at h
    | cons sb ss =>
      cases p with
      | nil => simp [Span.compareTakeGo, h1] at h
      | cons pb ps =>
        by_cases hc : sb.color = pb.color
        · have ha := hs.head_pos
          have hb := hp.head_pos
          rw [Span.compareTakeGo_cons fuel take sb pb ss ps ht hc ha hb] at h
          rw [Span.unroll_cons, Span.unroll_cons, ← hc]
          by_cases hall : take ≤ sb.count ∧ take ≤ pb.count
          · rw [cellAt_block_lt _ (by omega), cellAt_block_lt _ (by omega)]
          · -- some block is consumed before `take` is exhausted
            have hm : min take (min sb.count pb.count) = min sb.count pb.count := by omega
            rw [hm] at h
            have hrem : take - min sb.count pb.count ≠ 0 := by omega
            obtain ⟨f', hf'⟩ : ∃ f', fuel = f' + 1 := ⟨fuel - 1, by omega⟩
            by_cases hab : sb.count = pb.count
            · have e1 : (sb.count == min sb.count pb.count) = true := by simp [hab]
              have e2 : (pb.count == min sb.count pb.count) = true := by simp [hab]
              rw [e1, e2] at h
              simp only [if_true] at h
              by_cases hi' : i < sb.count
              · rw [cellAt_block_lt _ hi', cellAt_block_lt _ (by omega)]
              · rw [cellAt_block_ge _ (by omega), cellAt_block_ge _ (by omega), ← hab]
                exact ih ss ps _ hs.tail hp.tail (by omega) h (i - sb.count) (by omega)
            · exfalso
              by_cases hlt : sb.count < pb.count
              · have e1 : (sb.count == min sb.count pb.count) = true := by
                  have : min sb.count pb.count = sb.count := by omega
                  simp [this]
                have e2 : (pb.count == min sb.count pb.count) = false := by
                  have : min sb.count pb.count = sb.count := by omega
                  rw [this]; simpa using fun e => hab e.symm
                rw [e1, e2, hf'] at h
                simp only [if_true, Bool.false_eq_true, if_false] at h
                rw [Span.compareTakeGo_ne_left f' _ ss pb ps hrem] at h
                · cases h
                · have := hs.next_ne
                  cases ss with
                  | nil => trivial
                  | cons x xs => exact fun e => this (hc.trans e.symm)
              · have e1 : (sb.count == min sb.count pb.count) = false := by
                  have : min sb.count pb.count = pb.count := by omega
                  rw [this]; simpa using hab
                have e2 : (pb.count == min sb.count pb.count) = true := by
                  have : min sb.count pb.count = pb.count := by omega
                  simp [this]
                rw [e1, e2, hf'] at h
                simp only [if_true, Bool.false_eq_true, if_false] at h
                rw [Span.compareTakeGo_ne_right f' _ sb ss ps hrem] at h
                · cases h
                · have := hp.next_ne
                  cases ps with
                  | nil => trivial
                  | cons x xs => exact fun e => this (hc.symm.trans e)
        · have h2 : (sb.color != pb.color) = true := by simpa using hc
          simp [Span.compareTakeGo, h1, h2] at h

/-- **Meaning of `compare_take`** on canonical spans. -/
theorem Span.compareTakeRs_cells {s p : Span} {take : Nat} (hs : Span.Canon s) (hp : Span.Canon p)
    (h : Span.compareTakeRs s p take = true) :
    ∀ i, i < take → cellAt (Span.unroll s) i = cellAt (Span.unroll p) i :=
  Span.compareTakeGo_cells take s p take hs hp (Nat.le_refl _) h

/-! ### alignsWith -/

theorem Tape.toCfg_cell_zero (t : Tape) (q : Nat) : (t.toCfg q).cell 0 = t.scan := by
  simp [Tape.toCfg]

theorem Tape.toCfg_cell_pos (t : Tape) (q : Nat) (k : Nat) :
    (t.toCfg q).cell ((k : Int) + 1) = cellAt (Span.unroll t.rspan) k := by
  rw [Cfg.cell_pos]; rfl

theorem Tape.toCfg_cell_neg (t : Tape) (q : Nat) (k : Nat) :
    (t.toCfg q).cell (-((k : Int) + 1)) = cellAt (Span.unroll t.lspan) k := by
  rw [Cfg.cell_neg]; rfl

/-- **Meaning of `aligns_with`.** With `δ = self.head - prev.head`:
    moved right ⇒ same cells at every offset `≥ leftmost - prev.head`; moved left ⇒ same cells at
    every offset `≤ rightmost - prev.head`; not moved ⇒ same cells at the offsets in between. -/
theorem HeadTape.alignsWith_spec {self prev : HeadTape} {lm rm : Int} (hc : self.tape.Canon)
    (hp : prev.tape.Canon) (hl : lm ≤ prev.head) (hr : prev.head ≤ rm)
    (h : self.alignsWith prev lm rm = true) (q q' : Nat) :
    (0 < self.head - prev.head ∧ ∀ i : Int, lm - prev.head ≤ i →
        (prev.tape.toCfg q).cell i = (self.tape.toCfg q').cell i) ∨
    (self.head - prev.head < 0 ∧ ∀ i : Int, i ≤ rm - prev.head →
        (prev.tape.toCfg q).cell i = (self.tape.toCfg q').cell i) ∨
    (self.head - prev.head = 0 ∧ ∀ i : Int, lm - prev.head ≤ i → i ≤ rm - prev.head →
        (prev.tape.toCfg q).cell i = (self.tape.toCfg q').cell i) := by
  unfold HeadTape.alignsWith at h
  by_cases hscan : self.tape.scan = prev.tape.scan
  · have e1 : (self.tape.scan != prev.tape.scan) = false := by simpa using hscan
    simp only [e1, Bool.false_eq_true, if_false] at h
    split at h
    · cases h
    · -- the three directions
      have left_ok : Span.compareTakeRs self.tape.lspan prev.tape.lspan (prev.head - lm).natAbs = true →
          ∀ k : Nat, lm - prev.head ≤ -((k : Int) + 1) →
            (prev.tape.toCfg q).cell (-((k : Int) + 1)) = (self.tape.toCfg q').cell (-((k : Int) + 1)) := by
        intro hcmp k hk
        rw [Tape.toCfg_cell_neg, Tape.toCfg_cell_neg]
        exact (Span.compareTakeRs_cells hc.1 hp.1 hcmp k (by omega)).symm
      have right_ok : Span.compareTakeRs self.tape.rspan prev.tape.rspan (prev.head - rm).natAbs = true →
          ∀ k : Nat, (k : Int) + 1 ≤ rm - prev.head →
            (prev.tape.toCfg q).cell ((k : Int) + 1) = (self.tape.toCfg q').cell ((k : Int) + 1) := by
        intro hcmp k hk
        rw [Tape.toCfg_cell_pos, Tape.toCfg_cell_pos]
        exact (Span.compareTakeRs_cells hc.2 hp.2 hcmp k (by omega)).symm
      have zero_ok : (prev.tape.toCfg q).cell 0 = (self.tape.toCfg q').cell 0 := by
        rw [Tape.toCfg_cell_zero, Tape.toCfg_cell_zero, hscan]
      by_cases hpos : 0 < self.head - prev.head
      · simp only [hpos, if_true, Bool.and_eq_true, beq_iff_eq] at h
        refine Or.inl ⟨hpos, fun i hi => ?_⟩
        rcases int_cases i with rfl | ⟨k, rfl⟩ | ⟨k, rfl⟩
        · exact zero_ok
        · rw [Tape.toCfg_cell_pos, Tape.toCfg_cell_pos, h.2]
        · exact left_ok h.1 k hi
      · by_cases hneg : self.head - prev.head < 0
        · simp only [hpos, hneg, if_true, if_false, Bool.and_eq_true, beq_iff_eq] at h
          refine Or.inr (Or.inl ⟨hneg, fun i hi => ?_⟩)
          rcases int_cases i with rfl | ⟨k, rfl⟩ | ⟨k, rfl⟩
          · exact zero_ok
          · exact right_ok h.1 k hi
          · rw [Tape.toCfg_cell_neg, Tape.toCfg_cell_neg, h.2]
        · simp only [hpos, hneg, if_false, Bool.and_eq_true] at h
          refine Or.inr (Or.inr ⟨by omega, fun i hi1 hi2 => ?_⟩)
          rcases int_cases i with rfl | ⟨k, rfl⟩ | ⟨k, rfl⟩
          · exact zero_ok
          · exact right_ok h.2 k hi2
          · exact left_ok h.1 k hi1
  · have e1 : (self.tape.scan != prev.tape.scan) = true := by simpa using hscan
    simp [e1] at h

end BB
