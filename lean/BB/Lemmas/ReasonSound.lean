/-
C04 support, part 6: soundness of `refuted` for the repaired backward reasoner
(`fixF1 = true`), by strong induction on the real time of a run that reaches a target.
-/
import BB.Lemmas.ReasonGamma
import BB.Lemmas.ReasonInstr
import BB.Lemmas.ReasonEntry
import BB.Lemmas.ReasonSweep
import BB.Lemmas.ReasonStep

namespace BB.Reason

open BB

/-! ### the L0 run, from the back -/

theorem stepN_succ_last (p : ProgF) : ∀ (n : Nat) (c c' : Cfg),
    stepN p (n + 1) c = some c' → ∃ c₁, stepN p n c = some c₁ ∧ step1 p c₁ = some c' := by
  intro n
  induction n with
  | zero =>
    intro c c' h
    simp only [stepN] at h
    cases hs : step1 p c with
    | none => simp [hs] at h
    | some c2 =>
      simp only [hs, Option.some.injEq] at h
      subst h
      exact ⟨c, rfl, hs⟩
  | succ n ih =>
    intro c c' h
    rw [stepN] at h
    cases hs : step1 p c with
    | none => simp [hs] at h
    | some c2 =>
      simp only [hs] at h
      obtain ⟨c₁, h1, h2⟩ := ih c2 c' h
      exact ⟨c₁, by rw [stepN]; simp only [hs]; exact h1, h2⟩

/-- a real step, with everything the backward reasoner needs to know about it -/
theorem run_pred (p : Prog) (t : Nat) (c : Cfg) (h : RunAt p.toF (t + 1) c) :
    ∃ c₁ pr sh, RunAt p.toF t c₁ ∧ p.get (c₁.state, c₁.scan) = some (pr, sh, c.state) ∧
      IsPred c₁ c pr sh := by
  obtain ⟨c₁, h1, h2⟩ := stepN_succ_last p.toF t _ c h
  cases hg : p.toF c₁.state c₁.scan with
  | none => simp [step1, hg] at h2
  | some ins =>
    obtain ⟨pr, sh, q⟩ := ins
    have := step1_eq hg h2
    subst this
    refine ⟨c₁, pr, sh, h1, ?_, isPred_move c₁ pr sh q⟩
    rw [move_state]; exact hg

/-! ### the loop as a transition system -/

structure LState where
  fuel : Nat
  step : Nat
  configs : Configs
  kept : Kept
  indef : ValidatedSteps

def runI (f : Bool) (ep : Entrypoints) (S : LState) : PRes BackwardResult × Bool :=
  cantReachLoopI f ep S.fuel S.step S.configs S.kept S.indef

/-- `S` is a state of the loop started in `S0` -/
inductive Reach (f : Bool) (ep : Entrypoints) (S0 : LState) : LState → Prop
  | refl : Reach f ep S0 S0
  | step {S : LState} {fuel' : Nat} {vs : ValidatedSteps} {configs' : Configs}
      {indefs : ValidatedSteps} {kept' : Kept} {flag : Bool} :
      Reach f ep S0 S → S.fuel = fuel' + 1 → getValidSteps f ep S.configs = .ok vs →
      vs.isEmpty = false → ¬ MAX_STACK_DEPTH < vs.length →
      stepConfigsI vs S.kept = .ok (configs', indefs, kept', flag) →
      ¬ (S.indef ++ indefs).length > MAX_STACK_DEPTH →
      Reach f ep S0 ⟨fuel', S.step + 1, configs', kept', S.indef ++ indefs⟩

/-- the run from `S` answers `refuted k` and no unjustified pruning happens in it -/
def Good (f : Bool) (ep : Entrypoints) (k : Nat) (S : LState) : Prop :=
  runI f ep S = (.ok (.refuted k), true)

theorem no_refute_indef (f : Bool) (ep : Entrypoints) (k : Nat) :
    ∀ (fuel step : Nat) (configs : Configs) (kept : Kept) (indef : ValidatedSteps),
    indef ≠ [] → (cantReachLoopI f ep fuel step configs kept indef).1 ≠ .ok (.refuted k) := by
  intro fuel
  induction fuel with
  | zero => intro step configs kept indef _; simp [cantReachLoopI]
  | succ n ih =>
    intro step configs kept indef hne
    simp only [cantReachLoopI]
    cases getValidSteps f ep configs with
    | error e => simp
    | ok vs =>
      simp only
      split
      · have : indef.isEmpty = false := by
          cases indef with
          | nil => exact absurd rfl hne
          | cons a l => rfl
        simp [this]
      · split
        · simp
        · cases hs : stepConfigsI vs kept with
          | error e =>
            simp only
            intro h
            simp only [Except.ok.injEq] at h
            rcases stepConfigsI_error _ _ _ hs with h' | h' <;> rw [h'] at h <;> cases h
          | ok r =>
            obtain ⟨c', i', k', f'⟩ := r
            simp only
            split
            · simp
            · apply ih
              intro h
              exact hne (List.append_eq_nil_iff.1 h).1

/-- one iteration of a good run -/
theorem good_unfold {f : Bool} {ep : Entrypoints} {k : Nat} {S : LState} (h : Good f ep k S) :
    ∃ fuel' vs, S.fuel = fuel' + 1 ∧ getValidSteps f ep S.configs = .ok vs ∧
      (vs.isEmpty = true ∨
       (vs.isEmpty = false ∧ ¬ MAX_STACK_DEPTH < vs.length ∧
        ∃ configs' indefs kept', stepConfigsI vs S.kept = .ok (configs', indefs, kept', true) ∧
          ¬ (S.indef ++ indefs).length > MAX_STACK_DEPTH ∧
          Good f ep k ⟨fuel', S.step + 1, configs', kept', S.indef ++ indefs⟩)) := by
  obtain ⟨fuel, step, configs, kept, indef⟩ := S
  simp only [Good, runI] at h
  cases fuel with
  | zero => simp [cantReachLoopI] at h
  | succ fuel' =>
    simp only [cantReachLoopI] at h
    cases hv : getValidSteps f ep configs with
    | error e => simp [hv] at h
    | ok vs =>
      simp only [hv] at h
      refine ⟨fuel', vs, rfl, rfl, ?_⟩
      by_cases he : vs.isEmpty = true
      · exact Or.inl he
      · refine Or.inr ⟨by simpa using he, ?_⟩
        simp only [he, Bool.false_eq_true, if_false] at h
        by_cases hl : MAX_STACK_DEPTH < vs.length
        · simp [hl] at h
        · simp only [hl, if_false] at h
          refine ⟨hl, ?_⟩
          cases hs : stepConfigsI vs kept with
          | error e =>
            simp only [hs, Prod.mk.injEq, Except.ok.injEq] at h
            rcases stepConfigsI_error _ _ _ hs with h' | h' <;> rw [h'] at h <;> cases h.1
          | ok r =>
            obtain ⟨c', i', k', f'⟩ := r
            simp only [hs] at h
            by_cases hl2 : (indef ++ i').length > MAX_STACK_DEPTH
            · rw [if_pos hl2] at h
              simp at h
            · rw [if_neg hl2] at h
              simp only [Prod.mk.injEq, Bool.and_eq_true] at h
              obtain ⟨h1, h2, h3⟩ := h
              subst h2
              refine ⟨c', i', k', rfl, hl2, ?_⟩
              simp only [Good, runI]
              exact Prod.ext h1 h3

theorem good_indef_nil {f : Bool} {ep : Entrypoints} {k : Nat} {S : LState} (h : Good f ep k S) :
    S.indef = [] := by
  by_cases hne : S.indef = []
  · exact hne
  · exact absurd (congrArg Prod.fst h) (no_refute_indef f ep k _ _ _ _ _ hne)

/-- no configuration in the list is the blank tape in state 0 -/
def NoInitC (configs : Configs) : Prop := ∀ X ∈ configs, ¬ (X.state = 0 ∧ X.tape.blank = true)

/-- every kept blank tape is the tape of a configuration of some state of the loop -/
def KeptInv (f : Bool) (ep : Entrypoints) (S0 S : LState) : Prop :=
  ∀ w ∈ S.kept, w.2.blank = true ∧
    ∃ S', Reach f ep S0 S' ∧ ∃ Y ∈ S'.configs, Y.state = w.1 ∧ Y.tape = w.2

theorem reach_inv {f : Bool} {ep : Entrypoints} {k : Nat} {S0 : LState}
    (hgood : Good f ep k S0) (hnoinit : NoInitC S0.configs)
    (hkept : ∀ w ∈ S0.kept, w.2.blank = true ∧ ∃ Y ∈ S0.configs, Y.state = w.1 ∧ Y.tape = w.2)
    {S : LState} (hr : Reach f ep S0 S) :
    Good f ep k S ∧ NoInitC S.configs ∧ KeptInv f ep S0 S := by
  induction hr with
  | refl =>
    refine ⟨hgood, hnoinit, fun w hw => ?_⟩
    obtain ⟨hb, Y, hY, h1, h2⟩ := hkept w hw
    exact ⟨hb, S0, Reach.refl, Y, hY, h1, h2⟩
  | @step S fuel' vs configs' indefs kept' flag hr hf hv hne hl hs hl2 ih =>
    obtain ⟨hg, hn, hk⟩ := ih
    obtain ⟨fuel'', vs', hf', hv', hcase⟩ := good_unfold hg
    rw [hv] at hv'
    simp only [Except.ok.injEq] at hv'
    subst hv'
    rcases hcase with he | ⟨_, _, c2, i2, k2, hs', _, hg'⟩
    · rw [he] at hne; cases hne
    · rw [hs] at hs'
      simp only [Except.ok.injEq, Prod.mk.injEq] at hs'
      obtain ⟨rfl, rfl, rfl, rfl⟩ := hs'
      have hfe : fuel'' = fuel' := by omega
      subst hfe
      obtain ⟨hks, hni, _⟩ := stepConfigsI_spec vs S.kept configs' indefs kept' true hs
      refine ⟨hg', hni, ?_⟩
      intro w hw
      rcases hks.2 w hw with h | ⟨hb, Z, hZ, h1, h2⟩
      · exact hk w h
      · exact ⟨hb, _, Reach.step hr hf hv hne hl hs hl2, Z, hZ, h1, h2⟩

theorem blank_of_pushIndef {t : Backstepper} {sh : Bool} (h : (t.pushIndef sh).blank = true) :
    t.blank = true := by
  cases sh <;>
    simp only [Backstepper.pushIndef, Backstepper.blank, Span.blank, Span.pushBlock,
      List.all_cons, Bool.and_eq_true, beq_iff_eq, Bool.false_eq_true, if_false, if_true] at h ⊢
  · exact ⟨⟨h.1.1, h.1.2.2⟩, h.2⟩
  · exact ⟨⟨h.1.1, h.1.2⟩, h.2.2⟩


/-! ### a validated instruction whose predecessor is real -/

/-- If `(r, sh, q)` is a validated instruction of the current iteration, on a configuration `Y`, and
    the L0 configuration `d` is in γ of the back-stepped `Y` (when the step can be executed), then
    `d` is in γ of a configuration of some state of the loop — which the hypothesis `IHd` excludes. -/
theorem plain_step {f : Bool} {ep : Entrypoints} {k : Nat} {S0 : LState}
    (hgood : Good f ep k S0) (hnoinit : NoInitC S0.configs)
    (hkept : ∀ w ∈ S0.kept, w.2.blank = true ∧ ∃ Y ∈ S0.configs, Y.state = w.1 ∧ Y.tape = w.2)
    {S : LState} (hS : Reach f ep S0 S) {vs : ValidatedSteps}
    (hv : getValidSteps f ep S.configs = .ok vs) {instrs : List Instr} {Y : Config}
    (hY : (instrs, Y) ∈ vs) {r : Nat} {sh : Bool} {q : Nat} (hi : (r, sh, q) ∈ instrs) (d : Cfg)
    (hd : Y.tape.pullsIndef sh = false → GammaT q (Y.tape.backstep sh r) d)
    (IHd : ∀ S', Reach f ep S0 S' → ∀ X ∈ S'.configs, ¬ Gamma X d) : False := by
  obtain ⟨hg, _, _⟩ := reach_inv hgood hnoinit hkept hS
  obtain ⟨fuel', vs', hf, hv', hcase⟩ := good_unfold hg
  rw [hv] at hv'
  simp only [Except.ok.injEq] at hv'
  subst hv'
  have hne : vs.isEmpty = false := by
    cases vs with
    | nil => cases hY
    | cons a l => rfl
  rcases hcase with he | ⟨_, hl, c2, i2, k2, hs, hl2, hg'⟩
  · rw [he] at hne; cases hne
  · have hS' := Reach.step hS hf hv hne hl hs hl2
    obtain ⟨_, _, hk'⟩ := reach_inv hgood hnoinit hkept hS'
    have hnil := good_indef_nil hg'
    simp only at hnil
    have hi2 : i2 = [] := (List.append_eq_nil_iff.1 hnil).2
    obtain ⟨_, _, hh⟩ := stepConfigsI_spec vs S.kept c2 i2 k2 true hs
    have := hh instrs Y hY r sh q hi
    by_cases hp : Y.tape.pullsIndef sh = true
    · simp only [hp, if_true] at this
      exact this hi2
    · simp only [hp] at this
      have hp' : Y.tape.pullsIndef sh = false := by simpa using hp
      have hdg := hd hp'
      rcases this.2 with ⟨Z, hZ, h1, h2⟩ | ⟨hb, hw⟩
      · apply IHd _ hS' Z hZ
        rw [gamma_iff, h1, h2]; exact hdg
      · obtain ⟨w, hw1, hw2, hw3⟩ := hw rfl
        obtain ⟨hwb, S'', hS'', W, hW, hW1, hW2⟩ := hk' w hw1
        apply IHd _ hS'' W hW
        rw [gamma_iff, hW1, hW2, hw2]
        exact blankSub_sound hwb hb hw3 hdg


/-! ### the main induction -/

/-- **Soundness of the loop.**  If the (instrumented, repaired) loop started in `S0` answers
    `refuted k` with the flag still `true`, then no configuration of the real run from the blank
    tape is in γ of a configuration that is in the loop's `configs` list at any iteration. -/
theorem loop_sound (p : Prog) (k : Nat) (S0 : LState)
    (hgood : Good true (getEntrypoints p) k S0) (hnoinit : NoInitC S0.configs)
    (hkept : ∀ w ∈ S0.kept, w.2.blank = true ∧ ∃ Y ∈ S0.configs, Y.state = w.1 ∧ Y.tape = w.2) :
    ∀ (t : Nat) (c : Cfg), RunAt p.toF t c →
      ∀ S, Reach true (getEntrypoints p) S0 S → ∀ X ∈ S.configs, ¬ Gamma X c := by
  intro t
  induction t using Nat.strongRecOn with
  | ind t ih =>
    intro c hrun S hS X hX hG
    obtain ⟨hg, hn, _⟩ := reach_inv hgood hnoinit hkept hS
    cases t with
    | zero =>
      simp only [RunAt, stepN, Option.some.injEq] at hrun
      subst hrun
      exact hn X hX (init_detected' X hG)
    | succ t' =>
      obtain ⟨c₁, pr, sh, hrun1, hget, hpred⟩ := run_pred p t' c hrun
      have hGT : GammaT X.state X.tape c := hG
      rw [hGT.1] at hget
      obtain ⟨same, diff, hepg, hein⟩ := getEntrypoints_mem p _ _ _ _ _ (Prog.get_mem hget)
      obtain ⟨fuel', vs, _, hv, _⟩ := good_unfold hg
      obtain ⟨hindef, hsteps⟩ := getValidSteps_mem true _ _ vs hv X hX same diff hepg
      have hc := checkStep_of_pred hpred hGT
      have IH' : ∀ m, m ≤ t' → ∀ d, RunAt p.toF m d →
          ∀ S', Reach true (getEntrypoints p) S0 S' → ∀ X' ∈ S'.configs, ¬ Gamma X' d :=
        fun m hm => ih m (by omega)
      -- the ordinary case: the step is among the validated steps of `X`
      have hplain : (c₁.scan, sh, c₁.state) ∈
          checkedSteps X.tape diff ++ (sameSteps true X diff same same).1 → False := by
        intro hmem
        obtain ⟨instrs, hin, hi⟩ := hsteps _ hmem
        exact plain_step hgood hnoinit hkept hS hv hin hi c₁
          (fun hp => gammaT_backstep hpred hGT rfl hp) (IH' t' (Nat.le_refl _) c₁ hrun1)
      by_cases hq : c₁.state = X.state
      · have hbe : (c₁.state == X.state) = true := by simp [hq]
        rw [hbe] at hein
        simp only [if_true] at hein
        have hss := sameSteps_mem true X diff same c₁.state c₁.scan pr sh hc same hein
        cases hcs : X.tape.checkSpinout sh c₁.scan with
        | none =>
          rw [hcs] at hss
          exact hplain (List.mem_append_right _ hss)
        | some b =>
          rw [hcs] at hss
          obtain ⟨h1, h2, h3⟩ := checkSpinout_some hcs
          cases b with
          | false =>
            simp only at hss
            by_cases ha : X.tape.sweepAbsorbed sh = true
            · have hm : (X.tape.pushSpan sh).matchesColor X.tape.scan = true := by
                cases hmm : (X.tape.pushSpan sh).matchesColor X.tape.scan with
                | true => rfl
                | false => rw [hmm] at h3; cases h3
              have := sweep_absorbed hpred hGT h2 hq h1.symm hm ha
              exact IH' t' (Nat.le_refl _) c₁ hrun1 S hS X hX this
            · exact hplain (List.mem_append_right _ (hss (by simp [ha])))
          | true =>
            simp only at hss
            have hA : GammaT X.state (X.tape.pushIndef sh) c₁ :=
              sweep_pred_indef hpred hGT h2 hq h1.symm
            -- follow the sweep back to where it was entered
            have back : ∀ m, m ≤ t' → ∀ d, RunAt p.toF m d →
                GammaT X.state (X.tape.pushIndef sh) d → False := by
              intro m
              induction m with
              | zero =>
                intro _ d hd hgd
                simp only [RunAt, stepN, Option.some.injEq] at hd
                subst hd
                have := init_detected' ⟨X.state, X.tape.pushIndef sh, 0, []⟩ hgd
                exact hn X hX ⟨this.1, blank_of_pushIndef this.2⟩
              | succ m ihm =>
                intro hm d hd hgd
                obtain ⟨d₁, pr', sh', hrd1, hget', hpred'⟩ := run_pred p m d hd
                rw [hgd.1] at hget'
                by_cases hslot : d₁.state = X.state ∧ d₁.scan = X.tape.scan
                · have hsame : p.get (d₁.state, d₁.scan) = p.get (c₁.state, c₁.scan) := by
                    rw [hslot.1, hslot.2, hq, h1]
                  rw [hget', hget] at hsame
                  simp only [Option.some.injEq, Prod.mk.injEq, and_true] at hsame
                  obtain ⟨rfl, rfl⟩ := hsame
                  exact ihm (by omega) d₁ hrd1 (sweep_pred_stay hpred' hgd h2 hslot.1 hslot.2)
                · obtain ⟨same', diff', hepg', hein'⟩ :=
                    getEntrypoints_mem p _ _ _ _ _ (Prog.get_mem hget')
                  rw [hepg] at hepg'
                  simp only [Option.some.injEq, Prod.mk.injEq] at hepg'
                  obtain ⟨rfl, rfl⟩ := hepg'
                  have hmemE : ((d₁.state, d₁.scan), (pr', sh')) ∈ diff ++ same := by
                    cases hb : (d₁.state == X.state) with
                    | true => rw [hb] at hein'; exact List.mem_append_right _ hein'
                    | false => rw [hb] at hein'; exact List.mem_append_left _ hein'
                  have hck := checkStep_of_pred hpred' hgd
                  obtain ⟨steps, hgi, hst⟩ := getIndef_some sh X diff same d₁.state d₁.scan pr' sh'
                    hmemE (fun ⟨a, _, c⟩ => hslot ⟨a, c.symm⟩) hck
                  have hin := hindef _ (hss _ hgi)
                  exact plain_step hgood hnoinit hkept hS hv hin hst d₁
                    (fun hp => gammaT_backstep hpred' hgd rfl hp) (IH' m (by omega) d₁ hrd1)
            exact back t' (Nat.le_refl _) c₁ hrun1 hA
      · have hbe : (c₁.state == X.state) = false := by simp [hq]
        rw [hbe] at hein
        simp only [Bool.false_eq_true, if_false] at hein
        exact hplain (List.mem_append_left _ (checkedSteps_mem _ _ _ _ _ _ hein hc))


/-! ### from the loop to `cant_reach` -/

theorem getKept_mem {configs : Configs} {w : Nat × Backstepper} (h : w ∈ getKept configs) :
    w.2.blank = true ∧ ∃ Y ∈ configs, Y.state = w.1 ∧ Y.tape = w.2 := by
  simp only [getKept, List.mem_filterMap] at h
  obtain ⟨cfg, hc, hw⟩ := h
  split at hw
  · rename_i hb
    simp only [Option.some.injEq] at hw
    subst hw
    exact ⟨hb, cfg, hc, rfl, rfl⟩
  · cases hw

theorem containsKey_of_EIn {ep : Entrypoints} {st : Nat} {b : Bool} {en : Entry}
    (h : EIn ep st b en) : ep.containsKey st = true := by
  obtain ⟨s, d, hg, _⟩ := h
  simp [Entrypoints.containsKey, hg]

/-- **Soundness of `cant_reach`** (repaired, instrumented): a `refuted` answer with the flag `true`
    means that no configuration of the real run is in γ of a target, provided no target is the
    blank tape in state 0. -/
theorem cantReach_sound (p : Prog) (depth k : Nat) (targets : Configs)
    (h : cantReach true p depth targets = .ok (.refuted k))
    (hp : (cantReachI true p depth targets).2 = true) (hnoinit : NoInitC targets) :
    ∀ (t : Nat) (c : Cfg), RunAt p.toF t c → ∀ X ∈ targets, ¬ Gamma X c := by
  intro t c hrun X hX hG
  -- the target's state has entry points
  have hkey : (getEntrypoints p).containsKey X.state = true := by
    cases t with
    | zero =>
      simp only [RunAt, stepN, Option.some.injEq] at hrun
      subst hrun
      exact absurd (init_detected' X hG) (hnoinit X hX)
    | succ t' =>
      obtain ⟨c₁, pr, sh, _, hget, _⟩ := run_pred p t' c hrun
      rw [hG.1] at hget
      exact containsKey_of_EIn (getEntrypoints_mem p _ _ _ _ _ (Prog.get_mem hget))
  have hX' : X ∈ targets.filter fun config => (getEntrypoints p).containsKey config.state := by
    rw [List.mem_filter]; exact ⟨hX, hkey⟩
  have hne1 : targets.isEmpty = false := by
    cases targets with
    | nil => cases hX
    | cons a l => rfl
  have hne2 : (targets.filter fun config =>
      (getEntrypoints p).containsKey config.state).isEmpty = false := by
    cases hl : targets.filter fun config => (getEntrypoints p).containsKey config.state with
    | nil => rw [hl] at hX'; cases hX'
    | cons a l => rfl
  have h1 := cantReachI_fst true p depth targets
  rw [h] at h1
  simp only [cantReachI, hne1, hne2, Bool.false_eq_true, if_false] at h1 hp
  let S0 : LState := ⟨depth, 0, targets.filter fun config =>
    (getEntrypoints p).containsKey config.state, getKept (targets.filter fun config =>
    (getEntrypoints p).containsKey config.state), []⟩
  have hgood : Good true (getEntrypoints p) k S0 := Prod.ext h1 hp
  have hn0 : NoInitC S0.configs := fun Y hY => hnoinit Y (List.mem_filter.1 hY).1
  exact loop_sound p k S0 hgood hn0 (fun w hw => getKept_mem hw) t c hrun S0 Reach.refl X hX' hG

/-! ### halt -/

theorem haltSlots_none {p : Prog} {f : Bool} {st co : Nat} (h : (st, co) ∈ p.haltSlots f) :
    p.get (st, co) = none := by
  simp only [Prog.haltSlots, List.mem_flatMap, List.mem_filterMap] at h
  obtain ⟨st', _, co', _, h2⟩ := h
  split at h2
  · rename_i hn
    simp only [Option.some.injEq, Prod.mk.injEq] at h2
    obtain ⟨rfl, rfl⟩ := h2
    simpa using hn
  · cases h2

theorem haltConfigs_noInit (p : Prog) (f : Bool) (h0 : (p.get (0, 0)).isSome) :
    NoInitC (haltConfigs p f) := by
  intro X hX ⟨hs, hb⟩
  simp only [haltConfigs, List.mem_map] at hX
  obtain ⟨⟨st, co⟩, hm, rfl⟩ := hX
  simp only [Config.initHalt, Config.new] at hs hb
  simp only [Backstepper.initHalt, Backstepper.blank, Bool.and_eq_true, beq_iff_eq] at hb
  subst hs
  have : co = 0 := hb.1.1
  subst this
  rw [haltSlots_none hm] at h0
  cases h0

theorem cant_halt_sound' (p : Prog) (depth k : Nat) (h0 : (p.get (0, 0)).isSome)
    (h : cantHalt p depth true true = .ok (.refuted k))
    (hp : (cantReachI true p depth (haltConfigs p true)).2 = true) : ¬ Halts p.toF := by
  rintro ⟨n, q, s, c, hrun, hq, hs, hnone⟩
  have hh : HaltPoint p.toF c := by rw [HaltPoint, hq, hs]; exact hnone
  obtain ⟨cfg, hcfg, hG⟩ := targets_cover_halt' p n c hrun hh
  exact cantReach_sound p depth k _ h hp (haltConfigs_noInit p true h0) n c hrun cfg hcfg hG

/-! ### spin-out -/

theorem zrShifts_mem {p : Prog} {st : Nat} {sh : Bool} (h : (st, sh) ∈ p.zrShifts) :
    ∃ pr, ((st, 0), (pr, sh, st)) ∈ p := by
  simp only [Prog.zrShifts, List.mem_filterMap] at h
  obtain ⟨⟨⟨q, r⟩, pr, sh', q'⟩, hm, h2⟩ := h
  split at h2
  · rename_i hc
    simp only [Bool.and_eq_true, beq_iff_eq] at hc
    simp only [Option.some.injEq, Prod.mk.injEq] at h2
    obtain ⟨rfl, rfl⟩ := h2
    obtain ⟨rfl, rfl⟩ := hc
    exact ⟨pr, hm⟩
  · cases h2

/-- if `(0,0)` is zero-reflexive the loop finds the initial configuration at once -/
theorem spinout_init_case (p : Prog) (depth k : Nat) (sh : Bool) (hz : (0, sh) ∈ p.zrShifts)
    (h : cantSpinOut p depth true = .ok (.refuted k))
    (hp : (cantReachI true p depth (zeroReflexiveConfigs p)).2 = true) : False := by
  obtain ⟨pr, hmem⟩ := zrShifts_mem hz
  have hein := getEntrypoints_mem p 0 0 pr sh 0 hmem
  have hX : Config.initSpinout 0 sh ∈ zeroReflexiveConfigs p := by
    simp only [zeroReflexiveConfigs, List.mem_map]
    exact ⟨(0, sh), hz, rfl⟩
  have hkey := containsKey_of_EIn hein
  have hX' : Config.initSpinout 0 sh ∈ (zeroReflexiveConfigs p).filter fun config =>
      (getEntrypoints p).containsKey config.state := by
    rw [List.mem_filter]; exact ⟨hX, hkey⟩
  have hne1 : (zeroReflexiveConfigs p).isEmpty = false := by
    cases hl : zeroReflexiveConfigs p with
    | nil => rw [hl] at hX; cases hX
    | cons a l => rfl
  have hne2 : ((zeroReflexiveConfigs p).filter fun config =>
      (getEntrypoints p).containsKey config.state).isEmpty = false := by
    cases hl : (zeroReflexiveConfigs p).filter fun config =>
        (getEntrypoints p).containsKey config.state with
    | nil => rw [hl] at hX'; cases hX'
    | cons a l => rfl
  have h1 := cantReachI_fst true p depth (zeroReflexiveConfigs p)
  rw [show cantReach true p depth (zeroReflexiveConfigs p) = cantSpinOut p depth true from rfl, h]
    at h1
  simp only [cantReachI, hne1, hne2, Bool.false_eq_true, if_false] at h1 hp
  let S0 : LState := ⟨depth, 0, (zeroReflexiveConfigs p).filter fun config =>
    (getEntrypoints p).containsKey config.state, getKept ((zeroReflexiveConfigs p).filter
    fun config => (getEntrypoints p).containsKey config.state), []⟩
  have hgood : Good true (getEntrypoints p) k S0 := Prod.ext h1 hp
  obtain ⟨fuel', vs, _, hv, hcase⟩ := good_unfold hgood
  obtain ⟨same, diff, hepg, hein'⟩ := hein
  simp only [beq_self_eq_true, if_true] at hein'
  obtain ⟨_, hsteps⟩ := getValidSteps_mem true _ _ vs hv _ hX' same diff hepg
  have hc : (Config.initSpinout 0 sh).tape.checkStep sh pr = true := by
    cases sh <;> rfl
  have hss := sameSteps_mem true (Config.initSpinout 0 sh) diff same 0 0 pr sh hc same hein'
  have hcs : (Config.initSpinout 0 sh).tape.checkSpinout sh 0 = none := by
    cases sh <;> rfl
  rw [hcs] at hss
  obtain ⟨instrs, hin, hi⟩ := hsteps _ (List.mem_append_right _ hss)
  rcases hcase with he | ⟨_, _, c2, i2, k2, hs, _, _⟩
  · cases vs with
    | nil => cases hin
    | cons a l => cases he
  · obtain ⟨_, _, hh⟩ := stepConfigsI_spec vs _ c2 i2 k2 true hs
    have := hh instrs _ hin 0 sh 0 hi
    have hpi : (Config.initSpinout 0 sh).tape.pullsIndef sh = false := by
      cases sh <;> rfl
    simp only [hpi, Bool.false_eq_true, if_false] at this
    have hb : ((Config.initSpinout 0 sh).tape.backstep sh 0).blank = true := by
      cases sh <;> rfl
    exact this.1 ⟨hb, rfl⟩

theorem cant_spin_out_sound' (p : Prog) (depth k : Nat)
    (h : cantSpinOut p depth true = .ok (.refuted k))
    (hp : (cantReachI true p depth (zeroReflexiveConfigs p)).2 = true) : ¬ SpinsOut p.toF := by
  rintro ⟨n, c, hrun, hsp⟩
  obtain ⟨cfg, hcfg, hG⟩ := targets_cover_spinout' p c hsp
  have hnoinit : NoInitC (zeroReflexiveConfigs p) := by
    intro X hX ⟨hs, _⟩
    simp only [zeroReflexiveConfigs, List.mem_map] at hX
    obtain ⟨⟨st, sh⟩, hm, rfl⟩ := hX
    simp only [Config.initSpinout, Config.new] at hs
    subst hs
    exact spinout_init_case p depth k sh hm h hp
  exact cantReach_sound p depth k _ h hp hnoinit n c hrun cfg hcfg hG

end BB.Reason
