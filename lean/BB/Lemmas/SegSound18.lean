/-
C05 — segment analysis.  Part 18: `refuted` is sound for the goals `halt` and `spinout`
(primed versions of the theorems of `BB/Props/C05.lean`).
-/
import BB.Lemmas.SegSound17

namespace BB.Segment

open BB

theorem nat_min {P : Nat → Prop} (h : ∃ n, P n) : ∃ n, P n ∧ ∀ m, m < n → ¬ P m := by
  obtain ⟨n, hn⟩ := h
  induction n using Nat.strongRecOn with
  | _ n ih =>
    by_cases hm : ∃ m, m < n ∧ P m
    · obtain ⟨m, hlt, hpm⟩ := hm
      exact ih m hlt hpm
    · exact ⟨n, hn, fun m hlt hpm => hm ⟨m, hlt, hpm⟩⟩

theorem allZero_of_head_tail {l : List Nat} (h0 : l.headD 0 = 0) (ht : AllZero l.tail) :
    AllZero l := by
  intro i
  cases i with
  | zero => rw [← cellAt_headD]; exact h0
  | succ i => rw [← cellAt_tail]; exact ht i

/-! ### halt -/

theorem none_not_halts (prog : Prog) (S C seg : Nat) (hpc : paramsCover prog (S, C) = true)
    (hseg : 4 ≤ seg)
    (h : allSegmentsReached (AnalyzedProg.new prog (S, C)) seg .halt = .ok none) :
    ¬ Halts prog.toF := by
  rintro ⟨T, q, s, cT, hrT, hq, hs, hn⟩
  have hap := AnalyzedProg.new_prog prog (S, C)
  have htab := analyzed_ok prog S C
  obtain ⟨r1, r2, _, _⟩ := run_inRange hpc T cT hrT
  refine none_contra (AnalyzedProg.new prog (S, C)) .halt (by simp) seg hseg
    (branchSound_of_cover hpc) h (T := T) (cT := cT) (by rw [hap]; exact hrT) ?_ ?_ ?_
  · -- the configuration before `T` has an instruction, the one at `T` has none
    intro T' hT' c' c hr' hr hsame
    rw [hap] at hr' hr
    subst hT'
    have : c = cT := hr.unique hrT
    subst this
    obtain ⟨d, hd', _⟩ := hr'.step_of_later hr (Nat.lt_succ_self _)
    unfold step1 at hd'
    rw [hsame.1, hsame.2, hq, hs] at hd'
    rw [hn] at hd'; cases hd'
  · show cT.state ∈ (AnalyzedProg.new prog (S, C)).halts
    exact htab.halts cT.state cT.scan r1 r2 (by rw [hq, hs]; exact hn)
  · intro X o _ hv _
    cases hsc : X.2.scan with
    | some s' =>
      left
      obtain ⟨hst, hv2⟩ := hv
      rw [hsc] at hv2
      obtain ⟨⟨oL, oR, he⟩, _⟩ := hv2
      have hscan : cT.scan = s' := by rw [he.2.1]; exact Tape.toCfgX_scan hsc _ _ _
      refine ⟨s', hsc, ?_⟩
      rw [hap, ← hst, ← hscan, hq, hs]; exact hn
    | none => exact Or.inr ⟨hsc, rfl⟩

/-! ### spin-out -/

theorem view_atEdge {cT : Cfg} {o : Int} {X : Core} {s : Nat} (hwf : X.2.WF)
    (hsc : X.2.scan = some s) (hv : View cT o X) (sh : Bool)
    (hz : AllZero (if sh then cT.right else cT.left)) (h0 : cT.scan = 0) :
    Tape.atEdge X.2 sh = true := by
  obtain ⟨_, hv2⟩ := hv
  rw [hsc] at hv2
  obtain ⟨⟨oL, oR, he⟩, _⟩ := hv2
  have hscan : cT.scan = s := by rw [he.2.1]; exact Tape.toCfgX_scan hsc _ _ _
  have hs0 : s = 0 := by rw [← hscan]; exact h0
  unfold Tape.atEdge
  rw [hsc]
  simp only [hs0, BEq.rfl, Bool.true_and]
  have hl : SameCells cT.left (Span.unroll X.2.lspan ++ oL) := by
    have := he.2.2.1; simpa [Tape.toCfgX, hsc] using this
  have hr : SameCells cT.right (Span.unroll X.2.rspan ++ oR) := by
    have := he.2.2.2; simpa [Tape.toCfgX, hsc] using this
  cases sh with
  | true =>
    simp only [if_true] at hz ⊢
    rw [Span.blank_iff _ hwf.rpos]
    exact (allZero_append.1 (hr.allZero hz)).1
  | false =>
    simp only [Bool.false_eq_true, if_false] at hz ⊢
    rw [Span.blank_iff _ hwf.lpos]
    exact (allZero_append.1 (hl.allZero hz)).1

theorem none_not_spinsOut (prog : Prog) (S C seg : Nat) (hpc : paramsCover prog (S, C) = true)
    (hseg : 4 ≤ seg)
    (h : allSegmentsReached (AnalyzedProg.new prog (S, C)) seg .spinout = .ok none) :
    ¬ SpinsOut prog.toF := by
  intro hso
  -- the first spin-out configuration
  obtain ⟨T, ⟨cT, hrT, hsp⟩, hmin⟩ :=
    nat_min (P := fun n => ∃ c, RunAt prog.toF n c ∧ SpinOutCfg prog.toF c) hso
  obtain ⟨h0, pr, sh, hi, hz⟩ := hsp
  have hap := AnalyzedProg.new_prog prog (S, C)
  have htab := analyzed_ok prog S C
  obtain ⟨hS, hC, _⟩ := paramsCover_spec hpc
  obtain ⟨r1, r2, _, _⟩ := run_inRange hpc T cT hrT
  have hspin : dictGet (AnalyzedProg.new prog (S, C)).spinouts cT.state = some sh :=
    htab.spin cT.state pr sh r1 hC hi
  refine none_contra (AnalyzedProg.new prog (S, C)) .spinout (by simp) seg hseg
    (branchSound_of_cover hpc) h (T := T) (cT := cT) (by rw [hap]; exact hrT) ?_ ?_ ?_
  · -- otherwise the configuration before `T` would spin out as well
    intro T' hT' c' c hr' hr hsame
    rw [hap] at hr' hr
    subst hT'
    have : c = cT := hr.unique hrT
    subst this
    apply hmin T' (Nat.lt_succ_self _)
    refine ⟨c', hr', hsame.2.trans h0, pr, sh, by rw [hsame.1]; exact hi, ?_⟩
    have hp : prog.toF c'.state c'.scan = some (pr, sh, c.state) := by
      rw [hsame.1, hsame.2, h0]; exact hi
    obtain ⟨d, hd', hrd⟩ := hr'.step_of_later hr (Nat.lt_succ_self _)
    have hdc : d = c := hrd.unique hr
    rw [step1_eq_of hp, Option.some.injEq] at hd'
    rw [hdc] at hd'
    cases sh with
    | true =>
      simp only [if_true] at hz ⊢
      apply allZero_of_head_tail
      · have : c.scan = c'.right.headD 0 := by rw [← hd']; simp [Cfg.move]
        rw [← this]; exact h0
      · have : c.right = c'.right.tail := by rw [← hd']; simp [Cfg.move]
        rw [← this]; exact hz
    | false =>
      simp only [Bool.false_eq_true, if_false] at hz ⊢
      apply allZero_of_head_tail
      · have : c.scan = c'.left.headD 0 := by rw [← hd']; simp [Cfg.move]
        rw [← this]; exact h0
      · have : c.left = c'.left.tail := by rw [← hd']; simp [Cfg.move]
        rw [← this]; exact hz
  · exact ⟨sh, hspin⟩
  · intro X o ho hv hgX
    cases hsc : X.2.scan with
    | some s' =>
      left
      have hat := view_atEdge hgX.1 hsc hv sh hz h0
      obtain ⟨hst, hv2⟩ := hv
      rw [hsc] at hv2
      obtain ⟨⟨oL, oR, he⟩, _⟩ := hv2
      have hscan : cT.scan = s' := by rw [he.2.1]; exact Tape.toCfgX_scan hsc _ _ _
      have hs0 : s' = 0 := by rw [← hscan]; exact h0
      refine ⟨s', (pr, sh, X.1), hsc, ?_, ?_⟩
      · rw [hap, hs0, ← hst]; exact hi
      · simp [Config.spinout, hat]
    | none =>
      right
      refine ⟨hsc, ?_⟩
      obtain ⟨hst, hv2⟩ := hv
      rw [hsc] at hv2
      simp only at hv2
      unfold goalTapeOf
      simp only
      rw [← hst, hspin]
      simp only
      rcases hv2 with ⟨hrs, mid, oL, h4, h5⟩ | ⟨hls, mid, oR, h4, h5⟩
      · obtain ⟨_, _, _, e4⟩ := good_edge_right hseg hgX hsc hrs
        rw [e4]
        simp only
        cases sh with
        | true => simp
        | false =>
          simp only [Bool.false_eq_true, if_false] at hz
          have hmid : mid = [] := by
            obtain ⟨e1, _, _, _⟩ := good_edge_right hseg hgX hsc hrs
            cases mid with
            | nil => rfl
            | cons x m => simp at h5; omega
          subst hmid
          have hzl : AllZero (Span.unroll X.2.lspan) := by
            have := h4.allZero hz
            simp only [List.nil_append] at this
            exact (allZero_append.1 this).1
          have hb : Tape.blank X.2 = true := by
            rw [Tape.blank_iff hgX.1, hsc, hrs]
            exact ⟨rfl, hzl, allZero_nil⟩
          simp [hb]
      · obtain ⟨_, _, _, e4⟩ := good_edge_left hseg hgX hsc hls
        rw [e4]
        simp only
        cases sh with
        | false => simp
        | true =>
          simp only [if_true] at hz
          have hmid : mid = [] := by
            cases mid with
            | nil => rfl
            | cons x m => simp at h5; omega
          subst hmid
          have hzr : AllZero (Span.unroll X.2.rspan) := by
            have := h4.allZero hz
            simp only [List.nil_append] at this
            exact (allZero_append.1 this).1
          have hb : Tape.blank X.2 = true := by
            rw [Tape.blank_iff hgX.1, hsc, hls]
            exact ⟨rfl, allZero_nil, hzr⟩
          simp [hb]

/-! ### `refuted 0` -/

theorem halts_empty_not_halts (prog : Prog) (S C : Nat) (hpc : paramsCover prog (S, C) = true)
    (h : (AnalyzedProg.new prog (S, C)).halts.isEmpty = true) : ¬ Halts prog.toF := by
  rintro ⟨T, q, s, cT, hrT, hq, hs, hn⟩
  obtain ⟨r1, r2, _, _⟩ := run_inRange hpc T cT hrT
  have := (analyzed_ok prog S C).halts cT.state cT.scan r1 r2 (by rw [hq, hs]; exact hn)
  rw [List.isEmpty_iff] at h
  rw [h] at this; cases this

theorem spinouts_empty_not_spinsOut (prog : Prog) (S C : Nat)
    (hpc : paramsCover prog (S, C) = true)
    (h : (AnalyzedProg.new prog (S, C)).spinouts.isEmpty = true) : ¬ SpinsOut prog.toF := by
  rintro ⟨T, cT, hrT, h0, pr, sh, hi, hz⟩
  obtain ⟨hS, hC, _⟩ := paramsCover_spec hpc
  obtain ⟨r1, r2, _, _⟩ := run_inRange hpc T cT hrT
  have := (analyzed_ok prog S C).spin cT.state pr sh r1 hC hi
  rw [List.isEmpty_iff] at h
  rw [h] at this
  simp [dictGet] at this

/-! ### the loop over the segment sizes -/

theorem segmentLoop_refuted (ap : AnalyzedProg) (goal : Term) :
    ∀ (fuel seg k : Nat), 2 ≤ seg → segmentLoop ap goal fuel seg = .ok (.refuted k) →
      ∃ seg', 2 ≤ seg' ∧ allSegmentsReached ap (2 + seg') goal = .ok none := by
  intro fuel
  induction fuel with
  | zero => intro seg k _ h; simp [segmentLoop] at h
  | succ fuel ih =>
    intro seg k hseg h
    simp only [segmentLoop] at h
    cases ha : allSegmentsReached ap (2 + seg) goal with
    | error e => rw [ha] at h; cases h
    | ok o =>
      rw [ha] at h
      cases o with
      | none => exact ⟨seg, hseg, ha⟩
      | some v =>
        cases v with
        | limit => simp at h
        | reached => exact ih (seg + 1) k (by omega) h
        | «repeat» => simp at h
        | found t => cases t <;> simp [SegmentResult.ofTerm] at h

theorem seg_refuted_halt' (prog : Prog) (params : Nat × Nat) (segs k : Nat)
    (hpc : paramsCover prog params = true)
    (h : segCantHalt prog params segs = .ok (.refuted k)) : ¬ Halts prog.toF := by
  obtain ⟨S, C⟩ := params
  unfold segCantHalt segmentCantReach at h
  split at h
  · cases h
  · simp only at h
    split at h
    · rename_i hcond
      simp only [BEq.rfl, Bool.true_and, Bool.or_eq_true, Bool.and_eq_true] at hcond
      rcases hcond with hcond | ⟨hcond, _⟩
      · exact halts_empty_not_halts prog S C hpc hcond
      · simp at hcond
    · obtain ⟨seg', hs', hnone⟩ := segmentLoop_refuted _ .halt _ 2 k (Nat.le_refl _) h
      exact none_not_halts prog S C (2 + seg') hpc (by omega) hnone

theorem seg_refuted_spinout' (prog : Prog) (params : Nat × Nat) (segs k : Nat)
    (hpc : paramsCover prog params = true)
    (h : segCantSpinOut prog params segs = .ok (.refuted k)) : ¬ SpinsOut prog.toF := by
  obtain ⟨S, C⟩ := params
  unfold segCantSpinOut segmentCantReach at h
  split at h
  · cases h
  · simp only at h
    split at h
    · rename_i hcond
      simp only [BEq.rfl, Bool.true_and, Bool.or_eq_true, Bool.and_eq_true] at hcond
      rcases hcond with ⟨hcond, _⟩ | hcond
      · simp at hcond
      · exact spinouts_empty_not_spinsOut prog S C hpc hcond
    · obtain ⟨seg', hs', hnone⟩ := segmentLoop_refuted _ .spinout _ 2 k (Nat.le_refl _) h
      exact none_not_spinsOut prog S C (2 + seg') hpc (by omega) hnone

end BB.Segment
