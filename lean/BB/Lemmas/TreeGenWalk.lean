/-
C10 support, part 9: every emitted program (`S, C ≥ 2`) is `WalkGenerated` in the sense of C14:
the states visited by the runs of the generation process, followed by the next state of the
instruction inserted last, form a walk from state 0 along listed instructions that introduces the
states in increasing order and contains every state mentioned in the table.
-/
import BB.Lemmas.TreeGenTable
import BB.Lemmas.GraphConn

namespace BB.Tree

open BB BB.Graph

/-! ### `edgeB`, `chainB`, `ordered` -/

theorem edgeB_iff {p : Prog} {a b : Nat} :
    edgeB p a b = true ↔ ∃ kv ∈ p, kv.1.1 = a ∧ kv.2.2.2 = b := by
  simp [edgeB, List.any_eq_true]

theorem edgeB_of_mem {p : Prog} {kv : Slot × Instr} (h : kv ∈ p) :
    edgeB p kv.1.1 kv.2.2.2 = true := edgeB_iff.mpr ⟨kv, h, rfl, rfl⟩

theorem edgeB_insert {p : Prog} {s : Slot} (i : Instr) (hn : p.get s = none) {a b : Nat}
    (h : edgeB p a b = true) : edgeB (p.insert s i) a b = true := by
  obtain ⟨kv, hkv, h1, h2⟩ := edgeB_iff.mp h
  refine edgeB_iff.mpr ⟨kv, Prog.mem_insert_of_mem hkv ?_, h1, h2⟩
  rintro rfl
  have := Prog.get_isSome_of_mem hkv
  rw [hn] at this; cases this

theorem chainB_mono {p p' : Prog} (h : ∀ a b, edgeB p a b = true → edgeB p' a b = true)
    (w : List Nat) (hw : chainB p w = true) : chainB p' w = true := by
  induction w with
  | nil => rfl
  | cons a w ih =>
    cases w with
    | nil => rfl
    | cons b w =>
      simp only [chainB, Bool.and_eq_true] at hw ⊢
      exact ⟨h a b hw.1, ih hw.2⟩

theorem chainB_join {p : Prog} (w0 : List Nat) (q : Nat) (path : List Nat)
    (h1 : chainB p (w0 ++ [q]) = true) (h2 : chainB p (q :: path) = true) :
    chainB p (w0 ++ q :: path) = true := by
  induction w0 with
  | nil => exact h2
  | cons a w0 ih =>
    cases w0 with
    | nil =>
      simp only [List.nil_append, List.cons_append, chainB, Bool.and_eq_true] at h1 ⊢
      exact ⟨h1.1, h2⟩
    | cons b w0 =>
      simp only [List.cons_append, chainB, Bool.and_eq_true] at h1 ih ⊢
      exact ⟨h1.1, ih h1.2⟩

theorem le_foldl_max (l : List Nat) (m : Nat) :
    m ≤ l.foldl max m ∧ ∀ x ∈ l, x ≤ l.foldl max m := by
  induction l generalizing m with
  | nil => exact ⟨Nat.le_refl _, fun _ h => by cases h⟩
  | cons a l ih =>
    simp only [List.foldl_cons]
    obtain ⟨h1, h2⟩ := ih (max m a)
    refine ⟨by omega, fun x hx => ?_⟩
    rcases List.mem_cons.mp hx with rfl | hx
    · omega
    · exact h2 x hx

theorem ordered_append (m : Nat) (a b : List Nat) :
    ordered m (a ++ b) = (ordered m a && ordered (a.foldl max m) b) := by
  induction a generalizing m with
  | nil => simp [ordered]
  | cons x a ih => simp only [List.cons_append, ordered, ih, List.foldl_cons, Bool.and_assoc]

theorem ordered_of_le (M : Nat) (l : List Nat) (h : ∀ x ∈ l, x ≤ M + 1) : ordered M l = true := by
  induction l generalizing M with
  | nil => rfl
  | cons x l ih =>
    simp only [ordered, Bool.and_eq_true, decide_eq_true_eq]
    refine ⟨h x (List.mem_cons_self ..), ih _ (fun y hy => ?_)⟩
    have := h y (List.mem_cons_of_mem _ hy)
    omega

theorem maxState_le {p : Prog} {B : Nat} (h : ∀ kv ∈ p, kv.1.1 ≤ B ∧ kv.2.2.2 ≤ B) :
    maxState p ≤ B := by
  induction p with
  | nil => exact Nat.zero_le _
  | cons x rest ih =>
    rw [maxState_cons]
    have h1 := h x (List.mem_cons_self ..)
    have h2 := ih (fun kv hkv => h kv (List.mem_cons_of_mem _ hkv))
    omega

/-! ### the states visited by a run -/

theorem run_path {p : Prog} {q : Nat} {t : Tape} {lim : Nat} {slot : Slot} {t' : Tape}
    (h : runForUndefined p q t lim = (.undefined slot, t')) :
    ∃ path, chainB p (q :: path) = true ∧ (∃ pre, q :: path = pre ++ [slot.1]) ∧
      (∀ x ∈ path, ∃ kv ∈ p, kv.2.2.2 = x) ∧
      (∀ v, p.get (q, t.scan) = some v → v.2.2 ∈ path) := by
  induction lim generalizing q t with
  | zero => simp [runForUndefined] at h
  | succ n ih =>
    simp only [runForUndefined] at h
    split at h
    · rename_i hg
      simp only [Prod.mk.injEq, RunResult.undefined.injEq] at h
      obtain ⟨rfl, _⟩ := h
      exact ⟨[], rfl, ⟨[], rfl⟩, (fun _ hx => by cases hx),
        (fun v hv => by rw [hg] at hv; cases hv)⟩
    · rename_i c sh nx hg
      split at h
      · simp at h
      · split at h
        · simp at h
        · obtain ⟨path, h1, ⟨pre, h2⟩, h3, _⟩ := ih h
          have hmem := Prog.mem_of_get hg
          refine ⟨nx :: path, ?_, ⟨q :: pre, by rw [h2]; rfl⟩, ?_, ?_⟩
          · simp only [chainB, Bool.and_eq_true]
            exact ⟨edgeB_of_mem hmem, h1⟩
          · intro x hx
            rcases List.mem_cons.mp hx with rfl | hx
            · exact ⟨_, hmem, rfl⟩
            · exact h3 x hx
          · intro v hv
            rw [hg] at hv
            simp only [Option.some.injEq] at hv
            subst hv
            exact List.mem_cons_self ..

/-! ### the walk invariant -/

/-- `w0 ++ [q]` is the walk so far (it ends in the current state `q`): it starts in state 0,
    follows listed instructions, introduces states in increasing order, contains every key state,
    and contains the next state of every instruction except possibly the one at the current slot
    `(q, t.scan)` (the instruction inserted last), whose next state is at most one more than the
    largest state of the walk. -/
structure WalkInv (p : Prog) (q : Nat) (t : Tape) (w0 : List Nat) : Prop where
  head : (w0 ++ [q]).head? = some 0
  chain : chainB p (w0 ++ [q]) = true
  ord : ordered 0 (w0 ++ [q]) = true
  keys : ∀ kv ∈ p, kv.1.1 ∈ w0 ++ [q]
  latest : ∃ e ∈ p, e.1 = (q, t.scan) ∧ e.2.2.2 ≤ (w0 ++ [q]).foldl max 0 + 1 ∧
    ∀ kv ∈ p, kv = e ∨ kv.2.2.2 ∈ w0 ++ [q]

theorem walkInv_root {S C : Nat} {i : Instr} (hi : Avail S C prog0 i) :
    WalkInv (prog0.insert (1, 0) i) 1 Tape.initStepped [0] := by
  have h00 : (((0, 0), (1, true, 1)) : Slot × Instr) ∈ prog0.insert (1, 0) i :=
    Prog.mem_insert_of_mem (by simp [prog0]) (by simp)
  refine ⟨rfl, ?_, by decide, ?_, ?_⟩
  · simp only [List.cons_append, List.nil_append, chainB, Bool.and_true]
    exact edgeB_of_mem h00
  · intro kv hkv
    rcases Prog.mem_insert hkv with rfl | hm
    · simp
    · simp only [prog0, List.mem_cons, List.not_mem_nil, or_false] at hm
      subst hm; simp
  · refine ⟨((1, 0), i), Prog.mem_insert_self .., rfl, ?_, ?_⟩
    · have := hi.1.2
      rw [maxState_prog0] at this
      simpa using this
    · intro kv hkv
      rcases Prog.mem_insert hkv with rfl | hm
      · exact .inl rfl
      · simp only [prog0, List.mem_cons, List.not_mem_nil, or_false] at hm
        subst hm
        exact .inr (by simp)

theorem head?_append_cons (w0 : List Nat) (q : Nat) (path : List Nat) :
    (w0 ++ q :: path).head? = (w0 ++ [q]).head? := by
  cases w0 <;> rfl

theorem walkInv_step {S C : Nat} {p : Prog} {q : Nat} {t : Tape} {w0 : List Nat}
    (winv : WalkInv p q t w0) (hns : NoShadow p) {lim : Nat} {slot : Slot} {t' : Tape}
    (hrun : runForUndefined p q t lim = (.undefined slot, t')) {i : Instr}
    (hi : Avail S C p i) : ∃ w0', WalkInv (p.insert slot i) slot.1 t' w0' := by
  have hnone := run_undefined_get hrun
  obtain ⟨path, hch, ⟨pre, hpre⟩, htg, hfirst⟩ := run_path hrun
  obtain ⟨e, he, he1, he2, hrest⟩ := winv.latest
  have hepath : e.2.2.2 ∈ path := by
    refine hfirst e.2 ?_
    rw [← he1]; exact hns e he
  have hwalk : (w0 ++ pre) ++ [slot.1] = (w0 ++ [q]) ++ path := by
    rw [List.append_assoc, ← hpre]; simp
  have hsub : ∀ x ∈ w0 ++ [q], x ∈ (w0 ++ pre) ++ [slot.1] := by
    intro x hx; rw [hwalk]; exact List.mem_append_left _ hx
  have hsubp : ∀ x ∈ path, x ∈ (w0 ++ pre) ++ [slot.1] := by
    intro x hx; rw [hwalk]; exact List.mem_append_right _ hx
  have htarget : ∀ kv ∈ p, kv.2.2.2 ∈ (w0 ++ pre) ++ [slot.1] := by
    intro kv hkv
    rcases hrest kv hkv with rfl | h
    · exact hsubp _ hepath
    · exact hsub _ h
  refine ⟨w0 ++ pre, ?_, ?_, ?_, ?_, ?_⟩
  · rw [hwalk, List.append_assoc, List.singleton_append, head?_append_cons]; exact winv.head
  · rw [hwalk, List.append_assoc, List.singleton_append]
    exact chainB_mono (fun a b => edgeB_insert i hnone) _ (chainB_join w0 q path winv.chain hch)
  · rw [hwalk, ordered_append, Bool.and_eq_true]
    refine ⟨winv.ord, ordered_of_le _ _ (fun x hx => ?_)⟩
    obtain ⟨kv, hkv, rfl⟩ := htg x hx
    rcases hrest kv hkv with rfl | h
    · exact he2
    · have := (le_foldl_max (w0 ++ [q]) 0).2 _ h
      omega
  · intro kv hkv
    rcases Prog.mem_insert hkv with rfl | hm
    · simp
    · exact hsub _ (winv.keys kv hm)
  · refine ⟨(slot, i), Prog.mem_insert_self .., ?_, ?_, ?_⟩
    · rw [run_undefined_scan hrun]
    · have hB : maxState p ≤ ((w0 ++ pre) ++ [slot.1]).foldl max 0 := by
        apply maxState_le
        intro kv hkv
        exact ⟨(le_foldl_max _ 0).2 _ (hsub _ (winv.keys kv hkv)),
          (le_foldl_max _ 0).2 _ (htarget kv hkv)⟩
      have := hi.1.2
      simp only at this ⊢
      omega
    · intro kv hkv
      rcases Prog.mem_insert hkv with rfl | hm
      · exact .inl rfl
      · exact .inr (htarget kv hm)

/-- a complete walk for a final table -/
def FinalWalk (p : Prog) : Prop :=
  ∃ w : List Nat, w.head? = some 0 ∧ chainB p w = true ∧ ordered 0 w = true ∧
    ∀ kv ∈ p, kv.2.2.2 ∈ w

theorem walkInv_final {p : Prog} {q : Nat} {t : Tape} {w0 : List Nat} (winv : WalkInv p q t w0) :
    FinalWalk p := by
  obtain ⟨e, he, he1, he2, hrest⟩ := winv.latest
  have hq : e.1.1 = q := by rw [he1]
  refine ⟨(w0 ++ [q]) ++ [e.2.2.2], ?_, ?_, ?_, ?_⟩
  · rw [List.append_assoc, List.singleton_append, head?_append_cons]; exact winv.head
  · rw [List.append_assoc, List.singleton_append]
    refine chainB_join w0 q [e.2.2.2] winv.chain ?_
    simp only [chainB, Bool.and_true]
    rw [← hq]; exact edgeB_of_mem he
  · rw [ordered_append, Bool.and_eq_true]
    exact ⟨winv.ord, ordered_of_le _ _ (fun x hx => by
      rw [List.mem_singleton] at hx; subst hx; exact he2)⟩
  · intro kv hkv
    rcases hrest kv hkv with rfl | h
    · simp
    · exact List.mem_append_left _ h

theorem specFrom_finalWalk {S C lim : Nat} (hS : 1 ≤ S) (hC : 1 ≤ C) {p : Prog} {q : Nat}
    {t : Tape} {k : Nat} {r : Prog} (h : SpecFrom S C lim p q t k r) (inv : SpecInv S C p q t)
    (w0 : List Nat) (winv : WalkInv p q t w0) : FinalWalk r := by
  induction h generalizing w0 with
  | stop _ => exact walkInv_final winv
  | last hrun hav =>
    obtain ⟨w0', hw⟩ := walkInv_step winv inv.noShadow hrun hav
    exact walkInv_final hw
  | fill hrun hav _ ih =>
    obtain ⟨w0', hw⟩ := walkInv_step winv inv.noShadow hrun hav
    exact ih (specInv_step hS hC inv hrun hav) w0' hw

theorem noShadow_bool {p : Prog} (h : NoShadow p) : Graph.noShadow p = true := by
  simp only [Graph.noShadow, List.all_eq_true, beq_iff_eq]
  exact h

theorem wf_of_inTable {S C : Nat} {p : Prog} (h : InTable S C p) : Graph.wf p S = true := by
  simp only [Graph.wf, List.all_eq_true, Bool.and_eq_true, decide_eq_true_eq]
  exact fun kv hkv => ⟨(h kv hkv).1, (h kv hkv).2.2.2⟩

/-- **walkGenerated_of_mem'** -/
theorem walkGenerated_of_mem' (S C : Nat) (halt : Bool) (lim : Nat) (l : List Prog) (hS : 2 ≤ S)
    (hC : 2 ≤ C) (hok : buildTreeSeq S C halt lim = .ok l) (p : Prog) (hp : p ∈ l) :
    ∃ w, WalkGenerated p S w = true := by
  obtain ⟨⟨i, hi, hf⟩, hu⟩ := (tree_complete_sound' S C halt lim l hok p).mp hp
  have tok := specFrom_tableOk (by omega) (by omega) hf (specInv_root hS hC hi)
  obtain ⟨w, h1, h2, h3, h4⟩ := specFrom_finalWalk (by omega) (by omega) hf
    (specInv_root hS hC hi) [0] (walkInv_root hi)
  obtain ⟨⟨kv, hkv, hlast⟩, _⟩ := usesLast_exact tok.inTable hu
  refine ⟨w, ?_⟩
  simp only [WalkGenerated, Bool.and_eq_true, decide_eq_true_eq, beq_iff_eq,
    List.contains_eq_mem]
  exact ⟨⟨⟨⟨⟨⟨hS, wf_of_inTable tok.inTable⟩, noShadow_bool tok.noShadow⟩, h1⟩, h2⟩, h3⟩,
    hlast ▸ h4 kv hkv⟩

end BB.Tree
