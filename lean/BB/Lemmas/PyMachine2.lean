/-
Simulation of `BB.PyM.pyRun` by `runProver` under `pyRunAgrees`: the full loop iteration, the loop,
and the run.
-/
import BB.Lemmas.PyMachine1

namespace BB.PyM

open BB

theorem applyAgree_eq {t : Tape} {rule : Rule} (h : applyAgree t rule = true)
    {a : Option Nat} {t1 : Tape} {rd : List Index} {b : Option Nat} {t2 : Tape}
    (h1 : pyApplyRule t rule = .ok (a, t1, rd)) (h2 : applyRule t rule = .ok (b, t2)) :
    a = b ∧ t1 = t2 := by
  unfold applyAgree at h
  rw [h1, h2] at h
  simpa using h

/-- `apply_rule` answering `None` leaves the tape alone (Python model) -/
theorem pyApplyRule_none {t : Tape} {rule : Rule} {t1 : Tape} {rd : List Index}
    (h : pyApplyRule t rule = .ok (none, t1, rd)) : t1 = t := by
  unfold pyApplyRule at h
  split at h
  · cases h
  · injection h with h; injection h with _ h; injection h with h _; exact h.symm
  · split at h
    · cases h
    · injection h with h; injection h with h _; cases h

theorem tryAgree_eq {pv : Prover} {p : Prog} {cycle state : Nat} {tape : Tape}
    (h : tryAgree pv p cycle state tape = true)
    {a : PyTry} {pv1 : Prover} {b : Option ProverResult} {pv2 : Prover}
    (h1 : pyTryRule pv p cycle state tape = .ok (a, pv1))
    (h2 : Prover.tryRule pv p cycle state tape = .ok (b, pv2)) :
    b = some .multRule ∨ (a.toRs = b ∧ pv1 = pv2) := by
  unfold tryAgree at h
  rw [h1, h2] at h
  simp only [Bool.or_eq_true, Bool.and_eq_true, beq_iff_eq] at h
  exact h

/-- one loop iteration -/
theorem iter_rel (p : Prog) (cycle : Nat) {s : PyState} {s' : PState} (hr : Rel s s')
    (ha : iterAgree p cycle s = true) :
    IterRel (pyIter p cycle s) (proverIter p cycle s') := by
  obtain ⟨ht, hp, hst, hra, hb, hsteps⟩ := hr
  obtain ⟨t', pv', st', steps', ra', bl'⟩ := s'
  simp only [] at ht hp hst hra hb hsteps
  subst ht hp hst hra
  unfold iterAgree at ha
  simp only [Bool.and_eq_true] at ha
  obtain ⟨⟨hta, haa⟩, hsa⟩ := ha
  have hs : ∀ (pv : Prover) color shift next,
      p.get (s.state, ({ s with prover := pv } : PyState).tape.scan) = some (color, shift, next) →
      stepAgree ({ s with prover := pv } : PyState).tape shift color (s.state == next) = true := by
    intro pv color shift next hg
    simp only [] at hg
    rw [hg] at hsa
    exact hsa
  unfold pyIter proverIter
  simp only []
  cases h1 : pyTryRule s.prover p cycle s.state s.tape with
  | error e => exact .pyFail _ _
  | ok r1 =>
    obtain ⟨a, pv1⟩ := r1
    cases h2 : Prover.tryRule s.prover p cycle s.state s.tape with
    | error e => exact .rsFail _ _
    | ok r2 =>
      obtain ⟨b, pv2⟩ := r2
      rcases tryAgree_eq hta h1 h2 with hm | ⟨hab, hpv⟩
      · subst hm
        simp only [ProverResult.toTermRes]
        exact .rsLimit _ _ _ _ _ rfl
      · subst hpv
        have hrel : ∀ pv, Rel ({ s with prover := pv } : PyState)
            (⟨s.tape, pv, s.state, steps', s.rulapp, bl'⟩ : PState) :=
          fun pv => ⟨rfl, rfl, rfl, rfl, hb, hsteps⟩
        cases a with
        | none =>
          simp only [PyTry.toRs] at hab
          subst hab
          simp only []
          exact stepIter_rel p (hrel pv1) (hs pv1)
        | infinite =>
          simp only [PyTry.toRs] at hab
          subst hab
          simp only [ProverResult.toTermRes]
          exact .done _ _ _ _ _ _ _ rfl (hrel pv1)
        | configLimit =>
          simp only [PyTry.toRs] at hab
          subst hab
          simp only [ProverResult.toTermRes]
          exact .rsLimit _ _ _ _ _ rfl
        | got rule =>
          simp only [PyTry.toRs] at hab
          subst hab
          simp only []
          rw [h1] at haa
          simp only [] at haa
          cases h3 : pyApplyRule s.tape rule with
          | error e => exact .pyFail _ _
          | ok r3 =>
            obtain ⟨x, t1, rd⟩ := r3
            cases h4 : applyRule s.tape rule with
            | error e => exact .rsFail _ _
            | ok r4 =>
              obtain ⟨y, t2⟩ := r4
              obtain ⟨hxy, ht12⟩ := applyAgree_eq haa h3 h4
              subst hxy ht12
              cases x with
              | none =>
                simp only []
                exact stepIter_rel p (hrel pv1) (hs pv1)
              | some times =>
                simp only []
                cases h5 : u64Ck (s.rulapp + times) with
                | error e => exact .rsFail _ _
                | ok rulapp' =>
                  have : rulapp' = s.rulapp + times := by
                    unfold u64Ck at h5
                    split at h5
                    · cases h5
                    · injection h5 with h; exact h.symm
                  subst this
                  simp only []
                  exact .cont _ _ _ ⟨rfl, rfl, rfl, rfl, hb, Or.inl rfl⟩

/-! ### the loop -/

theorem mkProverResult_ok {res : TermRes} {ls : Option Slot} {c : Nat} {s' : PState}
    {r' : MachineResult} (h : mkProverResult res ls c s' = .ok r') :
    r'.result = res ∧ r'.marks = s'.tape.marks ∧ r'.rulapp = s'.rulapp ∧ r'.blanks = s'.blanks := by
  unfold mkProverResult Tape.marksCk u64Ck at h
  split at h
  · cases h
  · rename_i m hm
    split at hm
    · cases hm
    · injection hm with hm
      injection h with h
      subst h hm
      exact ⟨rfl, rfl, rfl, rfl⟩

theorem mkPyOutcome_ok {kind : PyKind} {ls : Option Slot} {c : Nat} {s : PyState} {r : PyResult}
    (h : mkPyOutcome kind ls c s = .ok r) :
    r.kind = kind ∧ r.marks = s.tape.marks ∧ r.rulapp = s.rulapp ∧ r.blanks = s.blanks := by
  unfold mkPyOutcome at h
  cases kind <;> simp only [] at h <;> first
    | (injection h with h; subst h; exact ⟨rfl, rfl, rfl, rfl⟩)
    | cases h

theorem done_agree {kind : PyKind} {res : TermRes} {ls ls' : Option Slot} {c c' : Nat}
    {s : PyState} {s' : PState} (hk : rsKind res = some kind) (hr : Rel s s')
    {r : PyResult} {r' : MachineResult}
    (h1 : mkPyOutcome kind ls c s = .ok r) (h2 : mkProverResult res ls' c' s' = .ok r') :
    RunAgree r r' := by
  obtain ⟨a1, a2, a3, a4⟩ := mkPyOutcome_ok h1
  obtain ⟨b1, b2, b3, b4⟩ := mkProverResult_ok h2
  refine ⟨?_, ?_, ?_, ?_⟩
  · rw [b1, a1]; exact hk
  · rw [a2, b2, hr.tape]
  · rw [a3, b3, hr.rulapp]
  · rw [a4, b4]; exact hr.blanks

theorem toOutcome_ne_ok (e : PyStop) (r : PyResult) : e.toOutcome ≠ .ok r := by
  cases e <;> simp [PyStop.toOutcome]

theorem loop_agree (p : Prog) : ∀ (fuel cycle : Nat) (s : PyState) (s' : PState)
    (acc : List RuleApp) (r : PyResult) (r' : MachineResult),
    Rel s s' → agreeLoop p fuel cycle s = true → pyLoop p fuel cycle s = .ok r →
    (proverLoop p fuel cycle s' acc).1 = .ok r' → rsLimit r' = false → RunAgree r r' := by
  intro fuel
  induction fuel with
  | zero =>
    intro cycle s s' acc r r' hr _ h1 h2 _
    simp only [pyLoop] at h1
    simp only [proverLoop] at h2
    exact done_agree rfl hr h1 h2
  | succ fuel ih =>
    intro cycle s s' acc r r' hr ha h1 h2 hl
    simp only [agreeLoop, Bool.and_eq_true] at ha
    obtain ⟨hia, hrest⟩ := ha
    have hi := iter_rel p cycle hr hia
    simp only [pyLoop] at h1
    simp only [proverLoop] at h2
    generalize hx : pyIter p cycle s = x at hi h1 hrest
    generalize hy : proverIter p cycle s' = y at hi h2
    cases hi with
    | pyFail e _ => exact absurd h1 (toOutcome_ne_ok e r)
    | rsFail _ e => simp only [] at h2; cases h2
    | rsLimit _ res ls c s2' hk =>
      simp only [] at h2
      obtain ⟨b1, _⟩ := mkProverResult_ok h2
      exfalso
      unfold rsLimit at hl
      rw [b1] at hl
      cases res <;> simp [rsKind] at hk <;> simp at hl
    | done kind res ls ls' c s2 s2' hk hr2 =>
      simp only [] at h1 h2
      exact done_agree hk hr2 h1 h2
    | cont s2 s2' app hr2 =>
      simp only [] at h1 h2 hrest
      exact ih (cycle + 1) s2 s2' _ r r' hr2 hrest h1 h2 hl

theorem runProver_eq_loop (p : Prog) (lim : Nat) :
    runProver p lim = (proverLoop p lim 0 PState.init []).1 := by
  unfold runProver runProverTrace
  generalize proverLoop p lim 0 PState.init [] = q
  obtain ⟨a, b⟩ := q
  rfl

/-- the run clause for the two models, under the no-divergence condition -/
theorem run_agree (p : Prog) (lim : Nat) (r : PyResult) (r' : MachineResult)
    (h1 : pyRun p lim = .ok r) (ha : pyRunAgrees p lim = true)
    (h2 : runProver p lim = .ok r') (hl : rsLimit r' = false) : RunAgree r r' := by
  unfold pyRun at h1
  split at h1
  · cases h1
  · rw [runProver_eq_loop] at h2
    exact loop_agree p lim 0 _ _ [] r r' rel_init ha h1 h2 hl

end BB.PyM
