/-
C05 — segment analysis.  Part 8: vocabulary of the refutation proof (orbits inside the window,
goal points, marks, the bookkeeping frame of one `run_to_edge`) and the effect of the single
bookkeeping operations.
-/
import BB.Lemmas.SegSound7

namespace BB.Segment

open BB

/-! ### tapes of a window of `seg` positions -/

/-- well formed, with the `seg - 2` cells of the window -/
def Good (seg : Nat) (t : Tape) : Prop := t.WF ∧ Tape.cells t = seg - 2

/-- `Z` is reached from `X` by iterating `cstep` (the head stays inside the window) -/
def Orbit (prog : Prog) (X Z : Core) : Prop := ∃ i, citer prog i X = some Z

theorem Orbit.refl (prog : Prog) (X : Core) : Orbit prog X X := ⟨0, rfl⟩

theorem Orbit.step {prog : Prog} {X Y Z : Core} (h : Orbit prog X Y) (hs : cstep prog Y = some Z) :
    Orbit prog X Z := by
  obtain ⟨i, hi⟩ := h
  exact ⟨i + 1, by rw [citer_succ_last, hi]; exact hs⟩

theorem cstep_good {prog : Prog} {seg : Nat} {X Y : Core} (hg : Good seg X.2)
    (h : cstep prog X = some Y) : Good seg Y.2 := by
  unfold cstep at h
  cases hs : X.2.scan with
  | none => rw [hs] at h; cases h
  | some s =>
    rw [hs] at h
    simp only at h
    cases hgt : prog.get (X.1, s) with
    | none => rw [hgt] at h; cases h
    | some instr =>
      rw [hgt] at h
      obtain ⟨pr, d, q'⟩ := instr
      obtain ⟨t', k, h1, h2, _, _, _, h6, _⟩ :=
        Tape.step_spec prog.toF X.2 X.1 pr q' s d [] [] hg.1 hs hgt
      simp only at h
      rw [h1] at h
      simp only [Option.some.injEq] at h
      subst h
      exact ⟨h2, h6.trans hg.2⟩

theorem Orbit.good {prog : Prog} {seg : Nat} {X Z : Core} (hg : Good seg X.2)
    (h : Orbit prog X Z) : Good seg Z.2 := by
  obtain ⟨i, hi⟩ := h
  induction i generalizing Z with
  | zero => simp only [citer, Option.some.injEq] at hi; subst hi; exact hg
  | succ i ih =>
    rw [citer_succ_last] at hi
    cases h1 : citer prog i X with
    | none => rw [h1] at hi; cases hi
    | some Y => rw [h1] at hi; exact cstep_good (ih h1) hi

/-- two terminal points of one orbit coincide -/
theorem orbit_terminal_unique {prog : Prog} {X Z Z' : Core} (h : Orbit prog X Z)
    (h' : Orbit prog X Z') (hz : cstep prog Z = none) (hz' : cstep prog Z' = none) : Z = Z' := by
  obtain ⟨a, ha⟩ := h
  obtain ⟨b, hb⟩ := h'
  have key : ∀ {a b : Nat} {Z Z' : Core}, a ≤ b → citer prog a X = some Z →
      citer prog b X = some Z' → cstep prog Z = none → Z = Z' := by
    intro a b Z Z' hab ha hb hz
    obtain ⟨d, rfl⟩ : ∃ d, b = a + d := ⟨b - a, by omega⟩
    rw [citer_add, ha] at hb
    cases d with
    | zero => simpa [citer] using hb
    | succ d => simp [citer, hz] at hb
  by_cases hab : a ≤ b
  · exact key hab ha hb hz
  · exact (key (by omega) hb ha hz').symm

/-! ### goal points and what the search records -/

/-- the position of `Z` has been recorded for its state (if the state has an entry at all) -/
def Recorded (cs : Configs) (Z : Core) : Prop :=
  ∀ r, dictGet cs.reached Z.1 = some r → Tape.pos Z.2 ∈ r

/-- goal point with the head inside the window -/
def GoalIn (prog : Prog) (goal : Term) (Z : Core) : Prop :=
  match goal with
  | .halt => ∃ s, Z.2.scan = some s ∧ prog.get (Z.1, s) = none
  | .spinout => ∃ s instr, Z.2.scan = some s ∧ prog.get (Z.1, s) = some instr ∧
      Config.spinout ⟨Z.1, Z.2, false⟩ instr = true
  | .blank => False

/-- goal point with the head outside the window -/
def GoalEdge (ap : AnalyzedProg) (goal : Term) (Z : Core) : Prop :=
  Z.2.scan = none ∧ goalTapeOf ap goal ⟨Z.1, Z.2, false⟩ = .ok true

/-- `Z` is in `seen` (non-blank tapes) or its position in `blanks` (blank tapes) -/
def Marked (cs : Configs) (Z : Core) : Prop :=
  if Tape.blank Z.2 = true then DHas cs.blanks Z.1 (Tape.pos Z.2) else SHas cs.seen Z.1 Z.2

/-- the successors that `branch_out` / `branch_in` give to a configuration at the edge -/
def EdgeSucc (ap : AnalyzedProg) (X Z : Core) : Prop :=
  ∃ diffs dirs, dictGet ap.branches X.1 = some (diffs, dirs) ∧
    ((Z.1 ∈ diffs ∧ Z.2 = X.2) ∨
     (∃ side, Tape.side X.2 = some side ∧ Z.1 ∈ Dirs.get dirs (!side) ∧
        Tape.stepIn X.2 (!side) = some Z.2))

/-! ### check_reached (goal ≠ blank) -/

structure ReachFrame (seg : Nat) (K : Nat → Prop) (cs cs' : Configs) : Prop where
  todo : cs'.todo = cs.todo
  seen : cs'.seen = cs.seen
  blanks : cs'.blanks = cs.blanks
  segEq : cs'.seg = cs.seg
  mono : ∀ Z, Recorded cs Z → Recorded cs' Z
  keys : (∀ q, K q → (dictGet cs.reached q).isSome = true) →
    ∀ q, K q → (dictGet cs'.reached q).isSome = true

theorem ReachFrame.refl (seg : Nat) (K : Nat → Prop) (cs : Configs) : ReachFrame seg K cs cs :=
  ⟨rfl, rfl, rfl, rfl, fun _ h => h, fun h => h⟩

theorem checkReached_spec {goal : Term} (hg : goal ≠ .blank) (seg : Nat) (K : Nat → Prop)
    (cs : Configs) (config : Config) (hseg : cs.seg = seg) :
    ReachFrame seg K cs (Configs.checkReached cs config goal).2 ∧
    Recorded (Configs.checkReached cs config goal).2 config.core ∧
    ((Configs.checkReached cs config goal).1 = false →
      (∀ q r, dictGet cs.reached q = some r → r.length < seg) →
      ∀ q r, dictGet (Configs.checkReached cs config goal).2.reached q = some r → r.length < seg) ∧
    ((Configs.checkReached cs config goal).1 = true →
      (Configs.checkReached (Configs.checkReached cs config goal).2 config goal).1 = true) := by
  have hgb : (goal == Term.blank) = false := by cases goal <;> simp_all
  unfold Configs.checkReached
  simp only [hgb, Bool.false_eq_true, if_false]
  cases hd : dictGet cs.reached config.state with
  | none =>
    simp only
    refine ⟨ReachFrame.refl _ _ _, ?_, fun _ h => h, fun h => by cases h⟩
    intro r hr
    simp only [Config.core] at hr
    rw [hd] at hr; cases hr
  | some r0 =>
    simp only
    refine ⟨⟨rfl, rfl, rfl, rfl, ?_, ?_⟩, ?_, ?_, ?_⟩
    · intro Z hZ r hr
      simp only at hr
      rw [dictGet_dictSet] at hr
      by_cases hq : Z.1 = config.state
      · simp only [hq, if_true, Option.some.injEq] at hr
        subst hr
        rw [mem_setInsert]
        exact Or.inr (hZ r0 (by rw [hq]; exact hd))
      · simp only [hq, if_false] at hr
        exact hZ r hr
    · intro hk q hq
      simp only
      rw [dictGet_dictSet]
      by_cases hq' : q = config.state
      · simp [hq']
      · simp only [hq', if_false]
        exact hk q hq
    · intro r hr
      simp only [Config.core] at hr
      rw [dictGet_dictSet_self] at hr
      simp only [Option.some.injEq] at hr
      subst hr
      rw [mem_setInsert]
      exact Or.inl rfl
    · intro hhit hlen q r hr
      rw [dictGet_dictSet] at hr
      by_cases hq : q = config.state
      · simp only [hq, if_true, Option.some.injEq] at hr
        subst hr
        have h1 := hlen _ _ hd
        have h2 := length_setInsert_le r0 (Tape.pos config.tape)
        have hne : (setInsert r0 (Tape.pos config.tape)).length ≠ seg := by
          rw [← hseg]; simpa using hhit
        omega
      · simp only [hq, if_false] at hr
        exact hlen q r hr
    · intro hhit
      simp only [dictGet_dictSet_self]
      have hm : Tape.pos config.tape ∈ setInsert r0 (Tape.pos config.tape) := by
        rw [mem_setInsert]; exact Or.inl rfl
      rw [setInsert_of_mem hm]
      exact hhit

/-! ### check_seen -/

theorem checkSeen_cases (cs : Configs) (state : Nat) (tape : Tape) (blank : Bool) :
    (Configs.checkSeen cs state tape blank = (none, cs) ∧
      (if blank = true then DHas cs.blanks state (Tape.pos tape) else SHas cs.seen state tape)) ∨
    (blank = true ∧ ¬ DHas cs.blanks state (Tape.pos tape) ∧
      Configs.checkSeen cs state tape blank = (some (blank && state == 0),
        { cs with blanks := dictSetInsert cs.blanks state (Tape.pos tape) })) ∨
    (blank = false ∧ ¬ SHas cs.seen state tape ∧
      Configs.checkSeen cs state tape blank = (some (blank && state == 0),
        { cs with seen := (dictSet cs.seen state
            (TapeSet.insert ((dictGet cs.seen state).getD TapeSet.empty) tape)) })) := by
  unfold Configs.checkSeen
  cases blank with
  | true =>
    by_cases hh : dictSetHas cs.blanks state (Tape.pos tape) = true
    · left
      simp only [if_true, hh]
      exact ⟨trivial, (dictSetHas_iff _ _ _).1 hh⟩
    · right; left
      simp only [if_true, hh]
      exact ⟨trivial, fun h => hh ((dictSetHas_iff _ _ _).2 h), by simp⟩
  | false =>
    by_cases hh : TapeSet.contains ((dictGet cs.seen state).getD TapeSet.empty) tape = true
    · left
      simp only [Bool.false_eq_true, if_false, hh, if_true]
      exact ⟨trivial, hh⟩
    · right; right
      simp only [Bool.false_eq_true, if_false, hh]
      exact ⟨trivial, hh, by simp⟩

theorem checkSeen_spec3 (cs : Configs) (state : Nat) (tape : Tape) (blank : Bool)
    (hb : blank = Tape.blank tape) :
    (Configs.checkSeen cs state tape blank).2.todo = cs.todo ∧
    (Configs.checkSeen cs state tape blank).2.seg = cs.seg ∧
    (Configs.checkSeen cs state tape blank).2.reached = cs.reached ∧
    Marked (Configs.checkSeen cs state tape blank).2 (state, tape) ∧
    (∀ q t, SHas cs.seen q t → SHas (Configs.checkSeen cs state tape blank).2.seen q t) ∧
    (∀ q pos, DHas cs.blanks q pos → DHas (Configs.checkSeen cs state tape blank).2.blanks q pos) ∧
    ((Configs.checkSeen cs state tape blank).1 = none →
      (Configs.checkSeen cs state tape blank).2 = cs) ∧
    (∀ init, (Configs.checkSeen cs state tape blank).1 = some init →
      (∀ q t, SHas (Configs.checkSeen cs state tape blank).2.seen q t →
        SHas cs.seen q t ∨ (q, t) = (state, tape)) ∧
      (∀ q pos, DHas (Configs.checkSeen cs state tape blank).2.blanks q pos →
        DHas cs.blanks q pos ∨ (q = state ∧ pos = Tape.pos tape ∧ Tape.blank tape = true))) := by
  rcases checkSeen_cases cs state tape blank with ⟨he, hm⟩ | ⟨hbl, hn, he⟩ | ⟨hbl, hn, he⟩
  · rw [he]
    refine ⟨rfl, rfl, rfl, ?_, fun _ _ h => h, fun _ _ h => h, fun _ => rfl, fun _ h => by cases h⟩
    unfold Marked
    simp only
    rw [← hb]
    exact hm
  · rw [he]
    refine ⟨rfl, rfl, rfl, ?_, fun _ _ h => h, ?_, (fun h => by cases h), fun _ _ => ⟨?_, ?_⟩⟩
    · unfold Marked
      simp only
      rw [← hb, hbl, if_pos rfl, dHas_dictSetInsert]
      exact Or.inr ⟨rfl, rfl⟩
    · intro q pos h
      rw [dHas_dictSetInsert]; exact Or.inl h
    · intro q t h; exact Or.inl h
    · intro q pos h
      rw [dHas_dictSetInsert] at h
      rcases h with h | ⟨h1, h2⟩
      · exact Or.inl h
      · exact Or.inr ⟨h1, h2, by rw [← hb, hbl]⟩
  · rw [he]
    refine ⟨rfl, rfl, rfl, ?_, ?_, fun _ _ h => h, (fun h => by cases h), fun _ _ => ⟨?_, ?_⟩⟩
    · unfold Marked
      simp only
      rw [← hb, hbl, if_neg (by simp), sHas_insert]
      exact Or.inr ⟨rfl, rfl⟩
    · intro q t h
      rw [sHas_insert]; exact Or.inl h
    · intro q t h
      rw [sHas_insert] at h
      rcases h with h | ⟨h1, h2⟩
      · exact Or.inl h
      · exact Or.inr (by rw [h1, h2])
    · intro q pos h; exact Or.inl h

end BB.Segment
