/-
C08, part 5: the block macro machine as an L0 machine over macro colours, against the base
machine: one macro step is `≥ 1` base steps between the decoded configurations; a macro run from
the blank tape visits, in order, configurations of the base run.
-/
import BB.Lemmas.MacroSim4

namespace BB.MacroSim

open BB BB.Macros

/-! ### decoded half-tapes -/

theorem headD_tail_append {a : List Nat} (b : List Nat) (ha : a ≠ []) :
    (a ++ b).headD 0 = a.headD 0 ∧ (a ++ b).tail = a.tail ++ b := by
  cases a with
  | nil => exact absurd rfl ha
  | cons x r => exact ⟨rfl, rfl⟩

theorem decode_ne_nil (b : Nat) {k : Nat} (hk : 1 ≤ k) (c : Nat) : decode b k c ≠ [] := by
  intro h
  have := decode_length b k c
  rw [h] at this
  simp at this
  omega

theorem sameCells_decR (b k : Nat) (R : List Nat) :
    SameCells (decR b k R) (decode b k (R.headD 0) ++ decR b k R.tail) := by
  cases R with
  | nil =>
    simp only [decR, List.flatMap_nil, List.headD_nil, List.tail_nil, List.append_nil, decode_zero]
    exact sameCells_nil_left.2 (allZero_replicate_zero k)
  | cons r rs => simp only [decR, List.flatMap_cons, List.headD_cons, List.tail_cons]; exact SameCells.refl _

theorem sameCells_decL (b k : Nat) (L : List Nat) :
    SameCells (decL b k L) ((decode b k (L.headD 0)).reverse ++ decL b k L.tail) := by
  cases L with
  | nil =>
    simp only [decL, List.flatMap_nil, List.headD_nil, List.tail_nil, List.append_nil, decode_zero,
      List.reverse_replicate]
    exact sameCells_nil_left.2 (allZero_replicate_zero k)
  | cons r rs => simp only [decL, List.flatMap_cons, List.headD_cons, List.tail_cons]; exact SameCells.refl _

/-- the configuration just after leaving a block is (up to trailing blanks) the decoded macro
    configuration after the macro step -/
theorem exitCfg_equiv_decCfg (lp : LogicParams) (hc : 1 ≤ lp.cells) (c : Cfg) (mc' ms' : Nat)
    (d : Bool) (hpar : ms' % 2 = (if d then 0 else 1)) :
    exitCfg (ms' / 2) d (decode lp.baseColors lp.cells mc')
        (decL lp.baseColors lp.cells c.left) (decR lp.baseColors lp.cells c.right) ≈c
      decCfg lp (c.move mc' d ms') := by
  cases d with
  | true =>
    simp only [if_true] at hpar
    have h1 : (ms' % 2 == 1) = false := by simp [hpar]
    have hne := decode_ne_nil lp.baseColors hc (c.right.headD 0)
    obtain ⟨e1, e2⟩ := headD_tail_append (decR lp.baseColors lp.cells c.right.tail) hne
    have hs := sameCells_decR lp.baseColors lp.cells c.right
    simp only [exitCfg, decCfg, Cfg.move, if_true, enterCfg, h1, Bool.false_eq_true, if_false]
    refine ⟨rfl, ?_, ?_, ?_⟩
    · simp only; rw [← e1]; exact hs.headD
    · simp only [decL, List.flatMap_cons]; exact SameCells.refl _
    · simp only; rw [← e2]; exact hs.tail
  | false =>
    simp only [Bool.false_eq_true, if_false] at hpar
    have h1 : (ms' % 2 == 1) = true := by simp [hpar]
    have hne : (decode lp.baseColors lp.cells (c.left.headD 0)).reverse ≠ [] := by
      simpa using decode_ne_nil lp.baseColors hc (c.left.headD 0)
    obtain ⟨e1, e2⟩ := headD_tail_append (decL lp.baseColors lp.cells c.left.tail) hne
    have hs := sameCells_decL lp.baseColors lp.cells c.left
    simp only [exitCfg, decCfg, Cfg.move, Bool.false_eq_true, if_false, enterCfg, h1, if_true]
    refine ⟨rfl, ?_, ?_, ?_⟩
    · simp only; rw [← e1]; exact hs.headD
    · simp only; rw [← e2]; exact hs.tail
    · simp only [decR, List.flatMap_cons]; exact SameCells.refl _

theorem init_equiv_decCfg (lp : LogicParams) (hc : 1 ≤ lp.cells) :
    Cfg.init ≈c decCfg lp Cfg.init := by
  obtain ⟨k, hk⟩ : ∃ k, lp.cells = k + 1 := ⟨lp.cells - 1, by omega⟩
  simp only [decCfg, Cfg.init, enterCfg, decode_zero, hk, List.replicate_succ]
  refine ⟨rfl, rfl, SameCells.refl _, ?_⟩
  simp only [decR, List.flatMap_nil, List.tail_cons, List.append_nil]
  exact sameCells_nil_left.2 (allZero_replicate_zero k)

/-! ### one macro step -/

theorem macroF_some {p : ProgF} {lp : LogicParams} {f : Bool} {ms mc : Nat} {i : Instr}
    (h : macroF p lp f ms mc = some i) : pureInstr (innerOf p) lp f (ms, mc) = .ok (some i) := by
  simp only [macroF] at h
  split at h
  · next h' => simp only [Option.some.injEq] at h; subst h; exact h'
  · cases h

/-- **block_macro_step** (lemma form) -/
theorem block_macro_step' (p : ProgF) (lp : LogicParams) (f : Bool) (hk : lp.kind = .block)
    (hc : 1 ≤ lp.cells) (hC : 0 < lp.baseColors)
    (hcl : closedB p lp.baseStates lp.baseColors = true) (c c' : Cfg)
    (hms : c.state < 2 * lp.baseStates) (h : step1 (macroF p lp f) c = some c') :
    c'.state < 2 * lp.baseStates ∧
    ∃ n b', 1 ≤ n ∧
      RunsIn p lp.cells (decL lp.baseColors lp.cells c.left) (decR lp.baseColors lp.cells c.right)
        n (decCfg lp c) b' ∧
      b' ≈c decCfg lp c' := by
  simp only [step1] at h
  cases hm : macroF p lp f c.state c.scan with
  | none => rw [hm] at h; cases h
  | some i =>
    obtain ⟨mc', d, ms'⟩ := i
    rw [hm] at h
    simp only [Option.some.injEq] at h
    subst h
    obtain ⟨n, hn, hr, hpar, hlt, _⟩ := block_instr_some' p lp f c.state c.scan mc' ms' d hk hc hC hms
      hcl (macroF_some hm) (decL lp.baseColors lp.cells c.left) (decR lp.baseColors lp.cells c.right)
    refine ⟨by cases d <;> simpa [Cfg.move] using hlt, n, _, hn, hr, ?_⟩
    exact exitCfg_equiv_decCfg lp hc c mc' ms' d hpar

/-- **block_macro_halt** (lemma form): the macro machine has no instruction in `c` exactly when
    the base machine, from the decoded configuration, halts inside the current block or never
    leaves it. -/
theorem block_macro_halt' (p : ProgF) (lp : LogicParams) (f : Bool) (hk : lp.kind = .block)
    (hc : 1 ≤ lp.cells) (hC : 0 < lp.baseColors)
    (hcl : closedB p lp.baseStates lp.baseColors = true) (c : Cfg)
    (hms : c.state < 2 * lp.baseStates) :
    step1 (macroF p lp f) c = none ↔
      (HaltsInside p lp.cells (decL lp.baseColors lp.cells c.left)
          (decR lp.baseColors lp.cells c.right) (decCfg lp c) ∨
        NeverLeaves p lp.cells (decL lp.baseColors lp.cells c.left)
          (decR lp.baseColors lp.cells c.right) (decCfg lp c)) := by
  show _ ↔ (HaltsInside p lp.cells _ _ (enterCfg _ _ _ _ _) ∨
    NeverLeaves p lp.cells _ _ (enterCfg _ _ _ _ _))
  rw [← block_instr_none' p lp f c.state c.scan hk hc hC hms hcl]
  simp only [step1, macroF]
  cases hp : pureInstr (innerOf p) lp f (c.state, c.scan) with
  | error e => exact absurd hp (block_instr_no_error' p lp f _ e hk hc)
  | ok o =>
    cases o with
    | none => simp
    | some i => obtain ⟨mc', d, ms'⟩ := i; simp

/-! ### macro runs -/

/-- **block_macro_run** (lemma form) -/
theorem block_macro_run' (p : ProgF) (lp : LogicParams) (f : Bool) (hk : lp.kind = .block)
    (hc : 1 ≤ lp.cells) (hC : 0 < lp.baseColors) (hS : 0 < lp.baseStates)
    (hcl : closedB p lp.baseStates lp.baseColors = true) :
    ∀ (N : Nat) (C : Cfg), RunAt (macroF p lp f) N C →
      C.state < 2 * lp.baseStates ∧
      ∃ t : Nat → Nat, t 0 = 0 ∧ (∀ i, i < N → t i < t (i + 1)) ∧
        ∀ i, i ≤ N → ∃ Ci b, RunAt (macroF p lp f) i Ci ∧ RunAt p (t i) b ∧ b ≈c decCfg lp Ci := by
  intro N
  induction N with
  | zero =>
    intro C h
    simp only [RunAt, stepN_zero, Option.some.injEq] at h
    subst h
    refine ⟨by simp [Cfg.init]; omega, fun _ => 0, rfl, fun i hi => by omega, fun i hi => ?_⟩
    obtain rfl : i = 0 := by omega
    exact ⟨Cfg.init, Cfg.init, rfl, rfl, init_equiv_decCfg lp hc⟩
  | succ N ih =>
    intro C h
    simp only [RunAt] at h
    rw [stepN_succ_last] at h
    cases h0 : stepN (macroF p lp f) N Cfg.init with
    | none => rw [h0] at h; cases h
    | some C0 =>
      rw [h0] at h
      simp only [Option.bind_some] at h
      obtain ⟨hms, t, ht0, hmono, hall⟩ := ih C0 h0
      obtain ⟨hms', n, b', hn, hr, heq⟩ := block_macro_step' p lp f hk hc hC hcl C0 C hms h
      obtain ⟨Ci, b, h1, h2, h3⟩ := hall N (Nat.le_refl _)
      have : Ci = C0 := by
        have := h1.symm.trans h0
        simpa using this
      subst this
      obtain ⟨b'', h4, h5⟩ := stepN_congr h3.symm hr.1
      refine ⟨hms', fun i => if i ≤ N then t i else t N + n, by simp [ht0], ?_, ?_⟩
      · intro i hi
        by_cases hiN : i + 1 ≤ N
        · simp only [hiN, show i ≤ N by omega, if_true]
          exact hmono i (by omega)
        · obtain rfl : i = N := by omega
          simp only [Nat.le_refl, if_true, hiN, if_false]
          omega
      · intro i hi
        by_cases hiN : i ≤ N
        · simp only [hiN, if_true]
          exact hall i hiN
        · obtain rfl : i = N + 1 := by omega
          simp only [hiN, if_false]
          refine ⟨C, b'', ?_, stepN_add_of_eq h2 h4, h5.symm.trans heq⟩
          simp only [RunAt]
          rw [stepN_succ_last, h0]
          exact h

end BB.MacroSim
