/-
C14 support, part 4: `is_connected` as a whole, the two views of the transition graph, walks, and
the primed versions of the property theorems.
-/
import BB.Lemmas.GraphConn3

namespace BB.Graph

open BB

/-! ### `Edge` (what `get` finds) versus `EdgeL` (what is listed) -/

theorem prog_get_mem (p : Prog) (s : Slot) (i : Instr) (h : p.get s = some i) :
    ∃ kv ∈ p, kv.1.1 = s.1 ∧ kv.1.2 = s.2 ∧ kv.2 = i := by
  induction p with
  | nil => simp [Prog.get] at h
  | cons a rest ih =>
    obtain ⟨k, v⟩ := a
    simp only [Prog.get] at h
    split at h
    · rename_i hk
      simp only [Bool.and_eq_true, beq_iff_eq] at hk
      cases h
      exact ⟨_, List.mem_cons_self .., hk.1, hk.2, rfl⟩
    · obtain ⟨kv, hkv, h'⟩ := ih h
      exact ⟨kv, List.mem_cons_of_mem _ hkv, h'⟩

theorem edgeL_of_edge (p : Prog) (q x : Nat) (h : Edge p q x) : EdgeL p q x := by
  obtain ⟨c, i, hi, hx⟩ := h
  obtain ⟨kv, hkv, h1, _, h3⟩ := prog_get_mem p (q, c) i hi
  exact ⟨kv, hkv, h1, by rw [h3]; exact hx⟩

theorem edge_of_edgeL (p : Prog) (hns : noShadow p = true) (q x : Nat) (h : EdgeL p q x) :
    Edge p q x := by
  obtain ⟨kv, hkv, h1, h2⟩ := h
  simp only [noShadow, List.all_eq_true, beq_iff_eq] at hns
  refine ⟨kv.1.2, kv.2, ?_, h2⟩
  have := hns kv hkv
  rw [← h1]
  exact this

theorem edgeL_lt (p : Prog) (n : Nat) (hwf : wf p n = true) (q x : Nat) (h : EdgeL p q x) :
    q < n ∧ x < n := by
  obtain ⟨kv, hkv, h1, h2⟩ := h
  simp only [wf, List.all_eq_true, Bool.and_eq_true, decide_eq_true_eq] at hwf
  have := hwf kv hkv
  rw [← h1, ← h2]; exact this

theorem edgeL_of_edgeB (p : Prog) (a b : Nat) (h : edgeB p a b = true) : EdgeL p a b := by
  simp only [edgeB, List.any_eq_true, Bool.and_eq_true, beq_iff_eq] at h
  exact h

/-! ### `is_connected` -/

/-- every state `< n` has a listed exit -/
def AllExitL (p : Prog) (n : Nat) : Prop := ∀ q, q < n → ∃ x, EdgeL p q x ∧ x ≠ q

theorem isConnected_zero' (p : Prog) : isConnected p 0 = .overflow := by
  simp [isConnected]

/-- The whole function on well-formed input: an answer, never a panic, and the answer is `true`
    exactly when every state has a listed exit and the last state reaches state 0. -/
theorem isConnected_spec (p : Prog) (n : Nat) (hn : 0 < n) (hwf : wf p n = true) :
    ∃ b, isConnected p n = .ok b ∧
      (b = true ↔ AllExitL p n ∧ Reach (EdgeL p) (n - 1) 0) := by
  have hexlt : ∀ q x, ExE (getExitpoints p) q x → x < n := fun q x h =>
    (edgeL_lt p n hwf q x ((exE_iff p q x).mp h).1).2
  have hsub : ∀ a b, ExE (getExitpoints p) a b → EdgeL p a b := fun a b h =>
    ((exE_iff p a b).mp h).1
  have hdrop : ∀ a b, EdgeL p a b → b = a ∨ ExE (getExitpoints p) a b := by
    intro a b h
    by_cases hb : b = a
    · exact Or.inl hb
    · exact Or.inr ((exE_iff p a b).mpr ⟨h, hb⟩)
  by_cases hlen : (getExitpoints p).length < n
  · refine ⟨false, by simp [isConnected, hlen], ?_⟩
    constructor
    · intro h; cases h
    · rintro ⟨hall, _⟩
      exfalso
      have : n ≤ ((getExitpoints p).map Prod.fst).length := by
        apply le_length_of_all_mem
        intro q hq
        exact (getExitpoints_key_iff p q).mpr ((getExitpoints_isSome p q).mpr (hall q hq))
      rw [List.length_map] at this
      omega
  · have hkeys : ∀ q, q < n → ((getExitpoints p).get q).isSome = true := by
      intro q hq
      apply (getExitpoints_key_iff p q).mp
      apply mem_of_nodup_lt_length _ n (getExitpoints_keys_nodup p) _ _ q hq
      · intro x hx
        obtain ⟨y, hy⟩ := (getExitpoints_isSome p x).mp ((getExitpoints_key_iff p x).mp hx)
        exact (edgeL_lt p n hwf x y hy.1).1
      · rw [List.length_map]; omega
    have hall : AllExitL p n := fun q hq => (getExitpoints_isSome p q).mp (hkeys q hq)
    have hn2 : 2 ≤ n := by
      obtain ⟨x, hx, hx0⟩ := hall 0 hn
      have := (edgeL_lt p n hwf 0 x hx).2
      omega
    obtain ⟨first, hfirst⟩ := Option.isSome_iff_exists.mp (hkeys (n - 1) (by omega))
    have hn0 : (n == 0) = false := by
      have : n ≠ 0 := by omega
      simpa using this
    have heq : isConnected p n = search (getExitpoints p) n first.reverse [] := by
      simp only [isConnected, hlen, if_false, hn0, Bool.false_eq_true, hfirst]
    have inv : SearchInv (getExitpoints p) n n first.reverse [] := by
      refine ⟨?_, List.nodup_nil, ?_, ?_, ?_, ?_, ?_⟩
      · have hnd := getExitpoints_val_nodup p _ _ hfirst
        unfold List.Nodup at hnd ⊢
        rw [List.pairwise_reverse]
        exact hnd.imp (fun h => Ne.symm h)
      · intro x _ h; simp at h
      · intro x hx
        exact hexlt (n - 1) x ⟨first, hfirst, List.mem_reverse.mp hx⟩
      · intro x h; simp at h
      · simp
      · intro u h; simp at h
    obtain ⟨b, hb, hfalse⟩ := search_spec (getExitpoints p) n hn hkeys hexlt n _ _ inv
    refine ⟨b, by rw [heq]; exact hb, ?_⟩
    constructor
    · intro hbt
      subst hbt
      obtain ⟨s, hs, hr⟩ := search_sound _ _ _ _ hb
      refine ⟨hall, ?_⟩
      exact Reach.mono hsub (.head ⟨first, hfirst, List.mem_reverse.mp hs⟩ hr)
    · rintro ⟨_, hr⟩
      cases b with
      | true => rfl
      | false =>
        exfalso
        have hr' : Reach (ExE (getExitpoints p)) (n - 1) 0 := Reach.mono_or_eq hdrop hr
        obtain ⟨x, hx, hx0⟩ := Reach.first_of_ne hr' (by omega)
        obtain ⟨v, hv, hxv⟩ := hx
        rw [hfirst] at hv
        cases hv
        exact hfalse rfl x (Or.inl (List.mem_reverse.mpr hxv)) hx0

theorem isConnected_panic_free' (p : Prog) (n : Nat) (hn : 0 < n) (hwf : wf p n = true) :
    ∃ b, isConnected p n = .ok b := by
  obtain ⟨b, hb, _⟩ := isConnected_spec p n hn hwf
  exact ⟨b, hb⟩

theorem path_to_L (p : Prog) (a b : Nat) (h : Path p a b) : Reach (EdgeL p) a b :=
  Reach.mono (edgeL_of_edge p) h

theorem path_of_L (p : Prog) (hns : noShadow p = true) (a b : Nat) (h : Reach (EdgeL p) a b) :
    Path p a b :=
  Reach.mono (edge_of_edgeL p hns) h

theorem isConnected_false_cause' (p : Prog) (n : Nat) (hn : 0 < n) (hwf : wf p n = true)
    (h : isConnected p n = .ok false) :
    (∃ q, q < n ∧ ¬ HasExit p q) ∨ ¬ Path p (n - 1) 0 := by
  obtain ⟨b, hb, hiff⟩ := isConnected_spec p n hn hwf
  rw [h] at hb
  cases hb
  apply Classical.byContradiction
  intro hcon
  have hcon' := not_or.mp hcon
  have hall : AllExitL p n := by
    intro q hq
    apply Classical.byContradiction
    intro hno
    apply hcon'.1
    refine ⟨q, hq, ?_⟩
    rintro ⟨x, hx, hxq⟩
    exact hno ⟨x, edgeL_of_edge p q x hx, hxq⟩
  have hpath : Path p (n - 1) 0 := Classical.not_not.mp hcon'.2
  have := hiff.mpr ⟨hall, path_to_L p _ _ hpath⟩
  cases this

theorem not_strong_of_cause (p : Prog) (n : Nat) (hn : 2 ≤ n)
    (h : (∃ q, q < n ∧ ¬ HasExit p q) ∨ ¬ Path p (n - 1) 0) : ¬ StronglyConnected p n := by
  intro hsc
  rcases h with ⟨q, hq, hno⟩ | hnp
  · apply hno
    have hne : q ≠ (if q = 0 then 1 else 0) := by split <;> omega
    have hlt : (if q = 0 then 1 else 0) < n := by split <;> omega
    obtain ⟨x, hx, hxq⟩ := Reach.exit_of_ne (hsc q _ hq hlt) hne
    exact ⟨x, hx, hxq⟩
  · exact hnp (hsc (n - 1) 0 (by omega) (by omega))

theorem isConnected_false_sound' (p : Prog) (n : Nat) (hn : 2 ≤ n) (hwf : wf p n = true)
    (h : isConnected p n = .ok false) : ¬ StronglyConnected p n :=
  not_strong_of_cause p n hn (isConnected_false_cause' p n (by omega) hwf h)

theorem isConnected_true_iff' (p : Prog) (n : Nat) (hn : 0 < n) (hwf : wf p n = true)
    (hns : noShadow p = true) :
    isConnected p n = .ok true ↔ (∀ q, q < n → HasExit p q) ∧ Path p (n - 1) 0 := by
  obtain ⟨b, hb, hiff⟩ := isConnected_spec p n hn hwf
  constructor
  · intro h
    rw [h] at hb
    cases hb
    obtain ⟨hall, hr⟩ := hiff.mp rfl
    refine ⟨?_, path_of_L p hns _ _ hr⟩
    intro q hq
    obtain ⟨x, hx, hxq⟩ := hall q hq
    exact ⟨x, edge_of_edgeL p hns q x hx, hxq⟩
  · rintro ⟨hall, hr⟩
    have : b = true := hiff.mpr ⟨fun q hq => by
      obtain ⟨x, hx, hxq⟩ := hall q hq
      exact ⟨x, edgeL_of_edge p q x hx, hxq⟩, path_to_L p _ _ hr⟩
    rw [hb, this]

/-- a strongly connected well-formed table on at least two states passes the filter
    (shadowed entries can only add edges) -/
theorem isConnected_of_strong' (p : Prog) (n : Nat) (hn : 2 ≤ n) (hwf : wf p n = true)
    (hsc : StronglyConnected p n) : isConnected p n = .ok true := by
  obtain ⟨b, hb, hiff⟩ := isConnected_spec p n (by omega) hwf
  have : b = true := by
    apply hiff.mpr
    refine ⟨?_, path_to_L p _ _ (hsc (n - 1) 0 (by omega) (by omega))⟩
    intro q hq
    have hne : q ≠ (if q = 0 then 1 else 0) := by split <;> omega
    have hlt : (if q = 0 then 1 else 0) < n := by split <;> omega
    obtain ⟨x, hx, hxq⟩ := Reach.exit_of_ne (hsc q _ hq hlt) hne
    exact ⟨x, edgeL_of_edge p q x hx, hxq⟩
  rw [hb, this]

/-! ### Walks -/

theorem chainB_tail (p : Prog) (a : Nat) (w : List Nat) (h : chainB p (a :: w) = true) :
    chainB p w = true := by
  cases w with
  | nil => rfl
  | cons b w =>
    simp only [chainB, Bool.and_eq_true] at h
    exact h.2

/-- the walk reaches each of its states from its first state -/
theorem walk_reach (p : Prog) (w : List Nat) (a x : Nat) (h : chainB p (a :: w) = true)
    (hx : x ∈ a :: w) : Reach (EdgeL p) a x := by
  induction w generalizing a with
  | nil =>
    have : x = a := by simpa using hx
    subst this; exact .refl _
  | cons b w ih =>
    simp only [chainB, Bool.and_eq_true] at h
    rcases List.mem_cons.mp hx with rfl | hx
    · exact .refl _
    · exact .head (edgeL_of_edgeB p a b h.1) (ih b h.2 hx)

/-- in a walk that introduces states in increasing order, every state between the largest seen
    so far and a state `m` of the walk occurs in the walk, before some occurrence of `m` -/
theorem walk_order (p : Prog) (w : List Nat) (mx m k : Nat) (hc : chainB p w = true)
    (ho : ordered mx w = true) (hm : m ∈ w) (hk1 : mx < k) (hk2 : k ≤ m) :
    k ∈ w ∧ Reach (EdgeL p) k m := by
  induction w generalizing mx with
  | nil => simp at hm
  | cons x xs ih =>
    simp only [ordered, Bool.and_eq_true, decide_eq_true_eq] at ho
    by_cases hmx : m = x
    · have : k = m := by omega
      subst this
      exact ⟨hm, .refl _⟩
    · have hm' : m ∈ xs := by
        rcases List.mem_cons.mp hm with h | h
        · exact absurd h hmx
        · exact h
      by_cases hk : max mx x < k
      · obtain ⟨h1, h2⟩ := ih (max mx x) (chainB_tail p x xs hc) ho.2 hm' hk
        exact ⟨List.mem_cons_of_mem _ h1, h2⟩
      · have : k = x := by omega
        subst this
        exact ⟨List.mem_cons_self .., walk_reach p xs k m hc hm⟩

theorem strong_of_walk (p : Prog) (n : Nat) (w : List Nat) (hw : WalkGenerated p n w = true)
    (hback : Path p (n - 1) 0) : StronglyConnected p n := by
  simp only [WalkGenerated, Bool.and_eq_true, decide_eq_true_eq, beq_iff_eq,
    List.contains_eq_mem] at hw
  obtain ⟨⟨⟨⟨⟨⟨hn, hwf⟩, hns⟩, hhead⟩, hchain⟩, hord⟩, hlast⟩ := hw
  cases w with
  | nil => simp at hhead
  | cons a xs =>
    have : a = 0 := by simpa using hhead
    subst this
    have hlast' : n - 1 ∈ xs := by
      rcases List.mem_cons.mp hlast with h | h
      · omega
      · exact h
    have hord' : ordered 0 xs = true := by
      simp only [ordered, Bool.and_eq_true] at hord
      simpa using hord.2
    have key : ∀ k, k < n → Reach (EdgeL p) 0 k ∧ Reach (EdgeL p) k (n - 1) := by
      intro k hk
      by_cases hk0 : k = 0
      · subst hk0
        exact ⟨.refl _, walk_reach p xs 0 _ hchain hlast⟩
      · obtain ⟨h1, h2⟩ := walk_order p xs 0 (n - 1) k (chainB_tail p 0 xs hchain) hord' hlast'
          (by omega) (by omega)
        exact ⟨walk_reach p xs 0 k hchain (List.mem_cons_of_mem _ h1), h2⟩
    intro a b ha hb
    exact ((path_of_L p hns _ _ (key a ha).2).trans hback).trans (path_of_L p hns _ _ (key b hb).1)

theorem isConnected_true_of_walk' (p : Prog) (n : Nat) (w : List Nat)
    (hw : WalkGenerated p n w = true) :
    isConnected p n = .ok true ↔ StronglyConnected p n := by
  have hw' := hw
  simp only [WalkGenerated, Bool.and_eq_true, decide_eq_true_eq] at hw'
  obtain ⟨⟨⟨⟨⟨⟨hn, hwf⟩, hns⟩, _⟩, _⟩, _⟩, _⟩ := hw'
  constructor
  · intro h
    exact strong_of_walk p n w hw ((isConnected_true_iff' p n (by omega) hwf hns).mp h).2
  · exact isConnected_of_strong' p n hn hwf

/-! ### Overflow -/

theorem search_ne_overflow (ex : Exitpoints) (fuel : Nat) (todo reached : List Nat) :
    search ex fuel todo reached ≠ .overflow := by
  induction fuel generalizing todo reached with
  | zero => simp [search]
  | succ fuel ih =>
    cases todo with
    | nil => simp [search]
    | cons state todo =>
      simp only [search]
      split
      · simp
      · split
        · exact ih _ _
        · split
          · simp
          · exact ih _ _

theorem isConnected_overflow_iff' (p : Prog) (n : Nat) : isConnected p n = .overflow ↔ n = 0 := by
  constructor
  · intro h
    apply Classical.byContradiction
    intro hn
    have hn0 : (n == 0) = false := by simpa using hn
    simp only [isConnected, hn0, Bool.false_eq_true, if_false] at h
    split at h
    · cases h
    · split at h
      · cases h
      · exact search_ne_overflow _ _ _ _ h
  · rintro rfl; exact isConnected_zero' p

/-- a finite set of states closed under the listed edges: nothing outside is reachable -/
theorem not_path_of_closed (p : Prog) (R : Nat → Prop) (hc : ∀ a b, R a → EdgeL p a b → R b)
    (a b : Nat) (ha : R a) (hb : ¬ R b) : ¬ Path p a b :=
  fun h => hb (Reach.closed R hc (path_to_L p a b h) ha)

end BB.Graph
