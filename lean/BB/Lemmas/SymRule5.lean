/-
Symbolic rule validation, part 5: iterating a validated period, and the soundness of
`validateApp` (a reported application of any size is a run of real machine steps) and of
`validateInf` (a rule that never decreases a block: the machine runs for ever).
-/
import BB.Lemmas.SymRule4

namespace BB.Sym

/-! ### iterating a validated period -/

/-- a validated period applied along a sequence of valuations `w 0, w 1, ...` whose shifted tapes
    chain up: `τ j` is the tape at the start of period `j`, `τ (j+1)` the tape at its end -/
theorem periods_run (p : Prog) (q : Nat) (s target : STape) (dl dr : List Int)
    (budget cycles : Nat) (f : Form) (h : symPeriod p q s dl dr budget = some (cycles, f))
    (ht : s.shift dl dr = some target) (w : Nat → Val) (τ : Nat → Tape) (T : Nat)
    (h1 : ∀ j, j < T → τ j = s.inst (w j)) (h2 : ∀ j, j < T → τ (j + 1) = target.inst (w j)) :
    ∀ m, m ≤ T →
      RunVia p.toF (OnWay p.toF (τ 0).Canon) ((τ 0).toCfg q) (sumTo (fun j => f.eval (w j)) m)
        ((τ m).toCfg q) ∧ ((τ 0).Canon → (τ m).Canon) := by
  intro m
  induction m with
  | zero => intro _; exact ⟨RunVia.zero _ _ _, id⟩
  | succ m ih =>
    intro hm
    obtain ⟨hrun, hcan⟩ := ih (by omega)
    obtain ⟨_, _, _, hper, hcan'⟩ := sym_period_sound' p q s target dl dr budget cycles f h ht (w m)
    rw [← h1 m (by omega), ← h2 m (by omega)] at hper hcan'
    refine ⟨?_, fun h0 => hcan' (hcan h0)⟩
    exact RunVia.trans (fun a b hab => OnWay.congr hab) hrun
      (hper.mono fun c hc => hc.mono hcan)

/-! ### the symbolic tape of a reported application -/

/-- the symbolic tape and the start valuation `validateApp` / `validateInf` build -/
def symTapeOf (times : Nat) (t : Tape) (dl dr : List Int) : STape × Val :=
  (⟨t.scan, (symSpan times t.lspan dl 0).1,
      (symSpan times t.rspan dr (symSpan times t.lspan dl 0).2.2).1⟩,
    (symSpan times t.lspan dl 0).2.1 ++ (symSpan times t.rspan dr (symSpan times t.lspan dl 0).2.2).2.1)

/-- the per-variable differences -/
def diffsOf (dl dr : List Int) : List Int := (dl ++ dr).filter (· != 0)

theorem diffsOf_eq (dl dr : List Int) :
    diffsOf dl dr = dl.filter (· != 0) ++ dr.filter (· != 0) := List.filter_append _ _

theorem symTapeOf_val_length (times : Nat) (t : Tape) (dl dr : List Int)
    (hl : t.lspan.length = dl.length) (hr : t.rspan.length = dr.length) :
    (symTapeOf times t dl dr).2.length = (diffsOf dl dr).length := by
  simp only [symTapeOf, diffsOf_eq, List.length_append,
    (symSpan_length times t.lspan dl 0 hl).1, (symSpan_length times t.rspan dr _ hr).1]

theorem symTapeOf_shift_inst (times : Nat) (t : Tape) (dl dr : List Int)
    (hl : t.lspan.length = dl.length) (hr : t.rspan.length = dr.length) (target : STape)
    (hs : (symTapeOf times t dl dr).1.shift dl dr = some target) (w w' : Val)
    (hw : ∀ k, ((w'.getD k 0 : Nat) : Int) = w.getD k 0 + (diffsOf dl dr).getD k 0) :
    target.inst w = (symTapeOf times t dl dr).1.inst w' := by
  obtain ⟨l, r, hsl, hsr, rfl⟩ := STape.shift_some hs
  simp only [symTapeOf] at hsl hsr ⊢
  have hi := (symSpan_length times t.lspan dl 0 hl).2
  rw [Nat.zero_add] at hi
  simp only [STape.inst]
  congr 1
  · refine symSpan_shift_inst times t.lspan dl 0 l hl hsl w w' fun k hk => ?_
    rw [Nat.zero_add, hw k, diffsOf_eq, getD_append_lt _ _ _ _ hk]
  · refine symSpan_shift_inst times t.rspan dr _ r hr hsr w w' fun k hk => ?_
    rw [hi, hw, diffsOf_eq, getD_append_add]

theorem symTapeOf_nonneg (m : Nat) (t : Tape) (dl dr : List Int)
    (hl : t.lspan.length = dl.length) (hr : t.rspan.length = dr.length)
    (hp : (symTapeOf (m + 1) t dl dr).1.posB = true) (j : Nat) (hj : j ≤ m) :
    NonnegAt (symTapeOf (m + 1) t dl dr).2 (diffsOf dl dr) j := by
  simp only [symTapeOf, STape.posB, Bool.and_eq_true] at hp
  rw [diffsOf_eq]
  exact NonnegAt_append (symSpan_length _ t.lspan dl 0 hl).1
    (symSpan_nonneg m t.lspan dl 0 hl hp.1 j hj) (symSpan_nonneg m t.rspan dr _ hr hp.2 j hj)

theorem symTapeOf_final_inst (m : Nat) (t a : Tape) (dl dr : List Int)
    (hdl : spanDiffs (m + 1) t.lspan a.lspan = some dl)
    (hdr : spanDiffs (m + 1) t.rspan a.rspan = some dr) (hscan : t.scan = a.scan)
    (hp : (symTapeOf (m + 1) t dl dr).1.posB = true) (target : STape)
    (hs : (symTapeOf (m + 1) t dl dr).1.shift dl dr = some target) (w : Val)
    (hw : ∀ k, ((w.getD k 0 : Nat) : Int) = (symTapeOf (m + 1) t dl dr).2.getD k 0
      + (m : Int) * (diffsOf dl dr).getD k 0) :
    target.inst w = a := by
  have hl := spanDiffs_length hdl
  have hr := spanDiffs_length hdr
  obtain ⟨l, r, hsl, hsr, rfl⟩ := STape.shift_some hs
  simp only [symTapeOf, STape.posB, Bool.and_eq_true] at hsl hsr hp hw
  obtain ⟨hvl, hi⟩ := symSpan_length (m + 1) t.lspan dl 0 hl
  rw [Nat.zero_add] at hi
  obtain ⟨asc, al, ar⟩ := a
  simp only at hdl hdr hscan
  simp only [STape.inst, symTapeOf, Tape.mk.injEq]
  refine ⟨hscan, ?_, ?_⟩
  · refine symSpan_final_inst m t.lspan al dl 0 l hdl hp.1 hsl w fun k hk => ?_
    rw [Nat.zero_add, hw k, diffsOf_eq, getD_append_lt _ _ _ _ hk,
      getD_append_lt _ _ _ _ (by rw [hvl]; exact hk)]
  · refine symSpan_final_inst m t.rspan ar dr _ r hdr hp.2 hsr w fun k hk => ?_
    rw [hi, hw, diffsOf_eq, getD_append_add, ← hvl, getD_append_add, hvl, hi]

/-- `v + (j+1)·D` is `v + j·D` plus `D` -/
theorem valAt_succ_getD (v : Val) (D : List Int) (j : Nat) (h : v.length = D.length)
    (hn : NonnegAt v D j) (hn' : NonnegAt v D (j + 1)) (k : Nat) :
    (((valAt v D (j + 1)).getD k 0 : Nat) : Int) = (valAt v D j).getD k 0 + D.getD k 0 := by
  rw [valAt_getD v D j h hn, valAt_getD v D (j + 1) h hn']
  grind

/-! ### `validateApp` -/

theorem validateApp_eq (p : Prog) (q : Nat) (before after : Tape) (times budget : Nat) :
    validateApp p q before after times budget =
      if (times == 0 || before.scan != after.scan) = true then none
      else match spanDiffs times before.lspan after.lspan,
          spanDiffs times before.rspan after.rspan with
        | some dl, some dr =>
          if ((symTapeOf times before dl dr).1.inst (symTapeOf times before dl dr).2 != before)
              = true then none
          else match symPeriod p q (symTapeOf times before dl dr).1 dl dr budget with
            | some (_, f) =>
              if totalSteps f (symTapeOf times before dl dr).2 (diffsOf dl dr) times < 1 then none
              else some (totalSteps f (symTapeOf times before dl dr).2 (diffsOf dl dr) times).toNat
            | none => none
        | _, _ => none := by
  rfl

/-- what an accepted application gives -/
theorem validateApp_some {p : Prog} {q : Nat} {before after : Tape} {times budget n : Nat}
    (h : validateApp p q before after times budget = some n) :
    ∃ m dl dr cyc f, times = m + 1 ∧ before.scan = after.scan ∧
      spanDiffs times before.lspan after.lspan = some dl ∧
      spanDiffs times before.rspan after.rspan = some dr ∧
      (symTapeOf times before dl dr).1.inst (symTapeOf times before dl dr).2 = before ∧
      symPeriod p q (symTapeOf times before dl dr).1 dl dr budget = some (cyc, f) ∧
      (1 : Int) ≤ totalSteps f (symTapeOf times before dl dr).2 (diffsOf dl dr) times ∧
      (n : Int) = totalSteps f (symTapeOf times before dl dr).2 (diffsOf dl dr) times := by
  rw [validateApp_eq] at h
  by_cases h0 : (times == 0 || before.scan != after.scan) = true
  · rw [if_pos h0] at h; cases h
  · rw [if_neg h0] at h
    simp only [Bool.or_eq_true, beq_iff_eq, bne_iff_ne, ne_eq, not_or, Decidable.not_not] at h0
    cases hdl : spanDiffs times before.lspan after.lspan with
    | none => rw [hdl] at h; cases h
    | some dl =>
      cases hdr : spanDiffs times before.rspan after.rspan with
      | none => rw [hdl, hdr] at h; cases h
      | some dr =>
        rw [hdl, hdr] at h
        simp only at h
        by_cases hi : ((symTapeOf times before dl dr).1.inst (symTapeOf times before dl dr).2
            != before) = true
        · rw [if_pos hi] at h; cases h
        · rw [if_neg hi] at h
          simp only [bne_iff_ne, ne_eq, Decidable.not_not] at hi
          cases hper : symPeriod p q (symTapeOf times before dl dr).1 dl dr budget with
          | none => rw [hper] at h; cases h
          | some r =>
            obtain ⟨cyc, f⟩ := r
            rw [hper] at h
            simp only at h
            by_cases hn : totalSteps f (symTapeOf times before dl dr).2 (diffsOf dl dr) times < 1
            · rw [if_pos hn] at h; cases h
            · rw [if_neg hn] at h
              simp only [Option.some.injEq] at h
              refine ⟨times - 1, dl, dr, cyc, f, by omega, h0.2, rfl, rfl, hi, hper, by omega, ?_⟩
              omega

/-- **validate_app_sound**, lemma form. -/
theorem validate_app_sound' (p : Prog) (q : Nat) (before after : Tape) (times budget n : Nat)
    (h : validateApp p q before after times budget = some n) :
    1 ≤ n ∧ before.Pos ∧ after.Pos ∧
      RunVia p.toF (OnWay p.toF before.Canon) (before.toCfg q) n (after.toCfg q) ∧
      (before.Canon → after.Canon) := by
  obtain ⟨m, dl, dr, cyc, f, rfl, hscan, hdl, hdr, hinst, hper, hn1, hn⟩ := validateApp_some h
  have hl := spanDiffs_length hdl
  have hr := spanDiffs_length hdr
  obtain ⟨hpos, target, hsh, _⟩ := symPeriod_some hper
  -- abbreviations
  generalize hS : symTapeOf (m + 1) before dl dr = SV at *
  obtain ⟨S, v⟩ := SV
  simp only at hinst hper hn1 hn hpos hsh
  have hS1 : (symTapeOf (m + 1) before dl dr).1 = S := by rw [hS]
  have hS2 : (symTapeOf (m + 1) before dl dr).2 = v := by rw [hS]
  have hlen : v.length = (diffsOf dl dr).length := by
    rw [← hS2]; exact symTapeOf_val_length _ _ _ _ hl hr
  have hnn : ∀ j, j ≤ m → NonnegAt v (diffsOf dl dr) j := fun j hj => by
    rw [← hS2]; exact symTapeOf_nonneg m before dl dr hl hr (by rw [hS1]; exact hpos) j hj
  -- the tapes at the period boundaries
  have hstep : ∀ j, j + 1 ≤ m →
      target.inst (valAt v (diffsOf dl dr) j) = S.inst (valAt v (diffsOf dl dr) (j + 1)) := by
    intro j hj
    rw [← hS1]
    exact symTapeOf_shift_inst (m + 1) before dl dr hl hr target (by rw [hS1]; exact hsh) _ _
      (valAt_succ_getD v _ j hlen (hnn j (by omega)) (hnn (j + 1) hj))
  have hlast : target.inst (valAt v (diffsOf dl dr) m) = after := by
    refine symTapeOf_final_inst m before after dl dr hdl hdr hscan (by rw [hS1]; exact hpos)
      target (by rw [hS1]; exact hsh) _ fun k => ?_
    rw [hS2]
    exact valAt_getD v _ m hlen (hnn m (Nat.le_refl _)) k
  let τ : Nat → Tape := fun j =>
    if j < m + 1 then S.inst (valAt v (diffsOf dl dr) j) else after
  have h1 : ∀ j, j < m + 1 → τ j = S.inst (valAt v (diffsOf dl dr) j) := fun j hj => if_pos hj
  have h2 : ∀ j, j < m + 1 → τ (j + 1) = target.inst (valAt v (diffsOf dl dr) j) := by
    intro j hj
    by_cases hj' : j + 1 < m + 1
    · rw [h1 (j + 1) hj']; exact (hstep j (by omega)).symm
    · have : j = m := by omega
      subst this
      show (if j + 1 < j + 1 then _ else after) = _
      rw [if_neg (Nat.lt_irrefl _)]; exact hlast.symm
  have h0 : τ 0 = before := by
    rw [h1 0 (by omega), valAt_zero v _ hlen]; exact hinst
  have hend : τ (m + 1) = after := if_neg (Nat.lt_irrefl _)
  obtain ⟨hrun, hcan⟩ :=
    periods_run p q S target dl dr budget cyc f hper hsh (valAt v (diffsOf dl dr)) τ (m + 1) h1 h2
      (m + 1) (Nat.le_refl _)
  rw [h0, hend] at hrun hcan
  have hsum : sumTo (fun j => f.eval (valAt v (diffsOf dl dr) j)) (m + 1) = n := by
    have := sumTo_totalSteps f v (diffsOf dl dr) hlen (m + 1) fun j hj => hnn j (by omega)
    omega
  rw [hsum] at hrun
  refine ⟨by omega, ?_, ?_, hrun, hcan⟩
  · rw [← hinst]; exact STape.posB_inst hpos v
  · rw [← hlast]; exact STape.posB_inst (STape.shift_posB hsh) _

/-! ### `validateInf` -/

theorem findGrow_spec (p : Prog) (q : Nat) (t0 : Tape) :
    ∀ (fuel cur : Nat) (t : Tape) (dl dr : List Int), findGrow p q t0 fuel cur t = some (dl, dr) →
      ∃ t' : Tape, sameShapeGrow t0.lspan t'.lspan = some dl ∧ sameShapeGrow t0.rspan t'.rspan = some dr := by
  intro fuel
  induction fuel with
  | zero => intro cur t dl dr h; simp only [findGrow] at h; cases h
  | succ fuel ih =>
    intro cur t dl dr h
    simp only [findGrow] at h
    cases hps : plainStep p cur t with
    | undefined slot => rw [hps] at h; cases h
    | spinout => rw [hps] at h; cases h
    | next cur' t' k =>
      rw [hps] at h
      simp only at h
      by_cases hc : (cur' == q && t'.scan == t0.scan) = true
      · rw [if_pos hc] at h
        cases hl : sameShapeGrow t0.lspan t'.lspan with
        | none => rw [hl] at h; exact ih _ _ _ _ h
        | some dl' =>
          cases hr : sameShapeGrow t0.rspan t'.rspan with
          | none => rw [hl, hr] at h; exact ih _ _ _ _ h
          | some dr' =>
            rw [hl, hr] at h
            simp only [Option.some.injEq, Prod.mk.injEq] at h
            obtain ⟨rfl, rfl⟩ := h
            exact ⟨t', hl, hr⟩
      · rw [if_neg hc] at h
        exact ih _ _ _ _ h

theorem validateInf_eq (p : Prog) (q : Nat) (t : Tape) (budget : Nat) :
    validateInf p q t budget =
      match findGrow p q t budget q t with
      | none => false
      | some (dl, dr) =>
        if ((symTapeOf 1 t dl dr).1.inst (symTapeOf 1 t dl dr).2 != t) = true then false
        else (symPeriod p q (symTapeOf 1 t dl dr).1 dl dr budget).isSome := by
  rfl

/-- **validate_inf_sound**, lemma form. -/
theorem validate_inf_sound' (p : Prog) (q : Nat) (t : Tape) (budget : Nat)
    (h : validateInf p q t budget = true) :
    (∀ n, ∃ c, stepN p.toF n (t.toCfg q) = some c) ∧
      (t.Canon → ∀ n c, stepN p.toF n (t.toCfg q) = some c → ¬ SpinOutCfg p.toF c) := by
  rw [validateInf_eq] at h
  cases hfg : findGrow p q t budget q t with
  | none => rw [hfg] at h; cases h
  | some d =>
    obtain ⟨dl, dr⟩ := d
    rw [hfg] at h
    simp only at h
    by_cases hi : ((symTapeOf 1 t dl dr).1.inst (symTapeOf 1 t dl dr).2 != t) = true
    · rw [if_pos hi] at h; cases h
    · rw [if_neg hi] at h
      simp only [bne_iff_ne, ne_eq, Decidable.not_not] at hi
      cases hper : symPeriod p q (symTapeOf 1 t dl dr).1 dl dr budget with
      | none => rw [hper] at h; cases h
      | some r =>
        obtain ⟨cyc, f⟩ := r
        obtain ⟨t', hgl, hgr⟩ := findGrow_spec p q t budget q t dl dr hfg
        obtain ⟨hl, hnl⟩ := sameShapeGrow_spec hgl
        obtain ⟨hr, hnr⟩ := sameShapeGrow_spec hgr
        obtain ⟨hpos, target, hsh, _⟩ := symPeriod_some hper
        have hlen := symTapeOf_val_length 1 t dl dr hl hr
        have hD : ∀ d ∈ diffsOf dl dr, 0 ≤ d := by
          intro d hd
          simp only [diffsOf, List.mem_filter, List.mem_append] at hd
          rcases hd.1 with hd' | hd'
          · exact hnl d hd'
          · exact hnr d hd'
        have hnn : ∀ j, NonnegAt (symTapeOf 1 t dl dr).2 (diffsOf dl dr) j :=
          fun j => NonnegAt_of_nonneg _ _ j hD
        let w : Nat → Val := valAt (symTapeOf 1 t dl dr).2 (diffsOf dl dr)
        let τ : Nat → Tape := fun j => (symTapeOf 1 t dl dr).1.inst (w j)
        have h2 : ∀ j, τ (j + 1) = target.inst (w j) := fun j =>
          (symTapeOf_shift_inst 1 t dl dr hl hr target hsh _ _
            (valAt_succ_getD _ _ j hlen (hnn j) (hnn (j + 1)))).symm
        have h0 : τ 0 = t := by
          show (symTapeOf 1 t dl dr).1.inst (valAt _ _ 0) = t
          rw [valAt_zero _ _ hlen]; exact hi
        have hge : ∀ m, m ≤ sumTo (fun j => f.eval (w j)) m :=
          sumTo_ge _ fun j =>
            (sym_period_sound' p q _ target dl dr budget cyc f hper hsh (w j)).1
        have hruns : ∀ m, RunVia p.toF (OnWay p.toF t.Canon) (t.toCfg q)
            (sumTo (fun j => f.eval (w j)) m) ((τ m).toCfg q) := by
          intro m
          have := (periods_run p q _ target dl dr budget cyc f hper hsh w τ m
            (fun j _ => rfl) (fun j _ => h2 j) m (Nat.le_refl _)).1
          rwa [h0] at this
        refine ⟨fun n => ?_, fun hcan n c hc => ?_⟩
        · obtain ⟨⟨c', hc', _⟩, _⟩ := hruns n
          exact stepN_le hc' (hge n)
        · obtain ⟨c1, hc1, hw⟩ := (hruns (n + 1)).2 n (by have := hge (n + 1); omega)
          rw [hc] at hc1
          simp only [Option.some.injEq] at hc1
          subst hc1
          exact hw.2 hcan

end BB.Sym
