/-
C10 support, part 6: the availability counters of the code are a function of the table:
`avail = min(max, 2 + largest state / colour mentioned)`.  Invariants of the nodes of the
generation process (tape colours and machine state are mentioned in the table).
-/
import BB.Lemmas.TreeGenProc
import BB.Lemmas.StepRefine

namespace BB.Tree

open BB

/-! ### largest state / colour mentioned -/

theorem maxState_cons (kv : Slot × Instr) (p : Prog) :
    maxState (kv :: p) = max (max kv.1.1 kv.2.2.2) (maxState p) := rfl

theorem maxColor_cons (kv : Slot × Instr) (p : Prog) :
    maxColor (kv :: p) = max (max kv.1.2 kv.2.1) (maxColor p) := rfl

theorem le_maxState_of_mem {p : Prog} {kv : Slot × Instr} (h : kv ∈ p) :
    kv.1.1 ≤ maxState p ∧ kv.2.2.2 ≤ maxState p := by
  induction p with
  | nil => cases h
  | cons x rest ih =>
    rw [maxState_cons]
    rcases List.mem_cons.mp h with h | h
    · subst h; omega
    · have := ih h; omega

theorem le_maxColor_of_mem {p : Prog} {kv : Slot × Instr} (h : kv ∈ p) :
    kv.1.2 ≤ maxColor p ∧ kv.2.1 ≤ maxColor p := by
  induction p with
  | nil => cases h
  | cons x rest ih =>
    rw [maxColor_cons]
    rcases List.mem_cons.mp h with h | h
    · subst h; omega
    · have := ih h; omega

theorem maxState_insert {p : Prog} {s : Slot} (i : Instr) (h : p.get s = none) :
    maxState (p.insert s i) = max (maxState p) (max s.1 i.2.2) := by
  induction p with
  | nil => simp [Prog.insert, maxState]
  | cons x rest ih =>
    obtain ⟨k, v⟩ := x
    simp only [Prog.get] at h
    split at h
    · cases h
    · rename_i hk
      have hk' : (k.1 == s.1 && k.2 == s.2) = false := by simpa using hk
      simp only [Prog.insert, hk', Bool.false_eq_true, ↓reduceIte]
      split
      · simp only [maxState_cons]; omega
      · simp only [maxState_cons, ih h]; omega

theorem maxColor_insert {p : Prog} {s : Slot} (i : Instr) (h : p.get s = none) :
    maxColor (p.insert s i) = max (maxColor p) (max s.2 i.1) := by
  induction p with
  | nil => simp [Prog.insert, maxColor]
  | cons x rest ih =>
    obtain ⟨k, v⟩ := x
    simp only [Prog.get] at h
    split at h
    · cases h
    · rename_i hk
      have hk' : (k.1 == s.1 && k.2 == s.2) = false := by simpa using hk
      simp only [Prog.insert, hk', Bool.false_eq_true, ↓reduceIte]
      split
      · simp only [maxColor_cons]; omega
      · simp only [maxColor_cons, ih h]; omega

/-! ### colours on the tape -/

def SpanLe (s : Span) (m : Nat) : Prop := ∀ b ∈ s, b.color ≤ m

def TapeLe (t : Tape) (m : Nat) : Prop := t.scan ≤ m ∧ SpanLe t.lspan m ∧ SpanLe t.rspan m

theorem SpanLe.mono {s : Span} {m m' : Nat} (h : SpanLe s m) (hm : m ≤ m') : SpanLe s m' :=
  fun b hb => Nat.le_trans (h b hb) hm

theorem TapeLe.mono {t : Tape} {m m' : Nat} (h : TapeLe t m) (hm : m ≤ m') : TapeLe t m' :=
  ⟨Nat.le_trans h.1 hm, h.2.1.mono hm, h.2.2.mono hm⟩

theorem SpanLe.tail {b : Block} {s : Span} {m : Nat} (h : SpanLe (b :: s) m) : SpanLe s m :=
  fun c hc => h c (List.mem_cons_of_mem _ hc)

theorem spanLe_nil (m : Nat) : SpanLe [] m := fun _ h => by cases h

theorem spanLe_cons {b : Block} {s : Span} {m : Nat} (hb : b.color ≤ m) (h : SpanLe s m) :
    SpanLe (b :: s) m := by
  intro c hc
  rcases List.mem_cons.mp hc with hc | hc
  · subst hc; exact hb
  · exact h c hc

theorem pullTail_le {s1 : Span} {m : Nat} (h : SpanLe s1 m) :
    (Span.pullTail s1).1 ≤ m ∧ SpanLe (Span.pullTail s1).2 m := by
  unfold Span.pullTail
  cases s1 with
  | nil => exact ⟨Nat.zero_le _, spanLe_nil _⟩
  | cons b rest =>
    have hb := h b (List.mem_cons_self ..)
    simp only
    split
    · exact ⟨hb, spanLe_cons hb h.tail⟩
    · exact ⟨hb, h.tail⟩

theorem pullSkip_le {s : Span} {m : Nat} (h : SpanLe s m) (scan : Nat) (skip : Bool) :
    SpanLe (Span.pullSkip s scan skip).2 m := by
  unfold Span.pullSkip
  cases s with
  | nil => exact h
  | cons b rest =>
    simp only
    split
    · exact h.tail
    · exact h

theorem pull_le {s : Span} {m : Nat} (h : SpanLe s m) (scan : Nat) (skip : Bool) :
    (Span.pull s scan skip).1 ≤ m ∧ SpanLe (Span.pull s scan skip).2.2 m := by
  rw [Span.pull_eq]
  exact pullTail_le (pullSkip_le h scan skip)

theorem push_le {s : Span} {m : Nat} (h : SpanLe s m) {pr : Nat} (hpr : pr ≤ m) (k : Nat) :
    SpanLe (Span.push s pr k) m := by
  unfold Span.push
  cases s with
  | nil =>
    simp only
    split
    · exact spanLe_nil _
    · exact spanLe_cons hpr (spanLe_nil _)
  | cons b rest =>
    simp only
    split
    · exact spanLe_cons (h b (List.mem_cons_self ..)) h.tail
    · exact spanLe_cons hpr h

theorem step_le {t : Tape} {m : Nat} (h : TapeLe t m) (sh : Bool) {pr : Nat} (hpr : pr ≤ m)
    (skip : Bool) : TapeLe (t.step sh pr skip).1 m := by
  unfold Tape.step
  cases sh
  · have := pull_le h.2.1 t.scan skip
    exact ⟨this.1, this.2, push_le h.2.2 hpr _⟩
  · have := pull_le h.2.2 t.scan skip
    exact ⟨this.1, push_le h.2.1 hpr _, this.2⟩

/-! ### the run keeps to mentioned states and colours -/

theorem run_le {p : Prog} {q : Nat} {t : Tape} {lim : Nat} {res : RunResult} {t' : Tape}
    (hq : q ≤ maxState p) (ht : TapeLe t (maxColor p))
    (h : runForUndefined p q t lim = (res, t')) :
    TapeLe t' (maxColor p) ∧ ∀ slot, res = .undefined slot →
      slot.1 ≤ maxState p ∧ slot.2 ≤ maxColor p := by
  induction lim generalizing q t with
  | zero =>
    simp only [runForUndefined, Prod.mk.injEq] at h
    obtain ⟨rfl, rfl⟩ := h
    exact ⟨ht, fun _ hh => by cases hh⟩
  | succ n ih =>
    simp only [runForUndefined] at h
    split at h
    · simp only [Prod.mk.injEq] at h
      obtain ⟨rfl, rfl⟩ := h
      refine ⟨ht, fun slot hs => ?_⟩
      simp only [RunResult.undefined.injEq] at hs
      subst hs
      exact ⟨hq, ht.1⟩
    · rename_i c sh nx hg
      have hmem := Prog.mem_of_get hg
      have hc : c ≤ maxColor p := (le_maxColor_of_mem hmem).2
      have hnx : nx ≤ maxState p := (le_maxState_of_mem hmem).2
      split at h
      · simp only [Prod.mk.injEq] at h
        obtain ⟨rfl, rfl⟩ := h
        exact ⟨ht, fun _ hh => by cases hh⟩
      · split at h
        · simp only [Prod.mk.injEq] at h
          obtain ⟨rfl, rfl⟩ := h
          exact ⟨step_le ht sh hc _, fun _ hh => by cases hh⟩
        · exact ih hnx (step_le ht sh hc _) h

/-! ### node invariant -/

/-- what holds of every node of the process: the counters are `min(max, 2 + M)` for the largest
    state `M` (colour `K`) mentioned before the latest instruction was inserted; the latest
    instruction is within the counters; the machine state and the tape colours are mentioned. -/
def NodeInv (S C : Nat) (n : Node) : Prop :=
  ∃ M K, n.availS = min S (2 + M) ∧ n.availC = min C (2 + K) ∧
    maxState n.prog = max M n.instr.2.2 ∧ maxColor n.prog = max K n.instr.1 ∧
    n.instr.2.2 < n.availS ∧ n.instr.1 < n.availC ∧
    n.state ≤ maxState n.prog ∧ TapeLe n.tape (maxColor n.prog)

theorem prog0_get : prog0.get (1, 0) = none := by decide

theorem initProg_eq (i : Instr) : initProg i = prog0.insert (1, 0) i := rfl

theorem maxState_prog0 : maxState prog0 = 1 := by decide
theorem maxColor_prog0 : maxColor prog0 = 1 := by decide

theorem nodeInv_root {S C : Nat} {i : Instr} (hi : i.2.2 < min 3 S ∧ i.1 < min 3 C) :
    NodeInv S C (rootNode S C i) := by
  have e1 : maxState (rootNode S C i).prog = max 1 (max 1 i.2.2) := by
    simp only [rootNode, initProg_eq, maxState_insert i prog0_get, maxState_prog0]
  have e2 : maxColor (rootNode S C i).prog = max 1 (max 0 i.1) := by
    simp only [rootNode, initProg_eq, maxColor_insert i prog0_get, maxColor_prog0]
  refine ⟨1, 1, ?_, ?_, ?_, ?_, hi.1, hi.2, ?_, ?_⟩
  · simp only [rootNode]; omega
  · simp only [rootNode]; omega
  · rw [e1]; simp only [rootNode]; omega
  · rw [e2]; simp only [rootNode]; omega
  · rw [e1]; simp only [rootNode]; omega
  · rw [e2]
    refine ⟨?_, ?_, spanLe_nil _⟩
    · simp [rootNode, Tape.initStepped]
    · intro b hb
      simp only [rootNode, Tape.initStepped, List.mem_cons, List.not_mem_nil, or_false] at hb
      subst hb
      simp only; omega

/-- the counters after their update are a function of the table -/
theorem grow_eq {S C : Nat} {n : Node} (inv : NodeInv S C n) {lim : Nat} {slot : Slot}
    {t' : Tape} (hrun : runForUndefined n.prog n.state n.tape lim = (.undefined slot, t')) :
    growAvail n.availS S slot.1 n.instr.2.2 = min S (2 + maxState n.prog) ∧
    growAvail n.availC C slot.2 n.instr.1 = min C (2 + maxColor n.prog) := by
  obtain ⟨M, K, h1, h2, h3, h4, h5, h6, h7, h8⟩ := inv
  obtain ⟨_, hs⟩ := run_le h7 h8 hrun
  obtain ⟨hs1, hs2⟩ := hs slot rfl
  unfold growAvail
  constructor
  · split
    · rename_i hc
      simp only [Bool.and_eq_true, decide_eq_true_eq, beq_iff_eq] at hc
      omega
    · rename_i hc
      simp only [Bool.and_eq_true, decide_eq_true_eq, beq_iff_eq, not_and] at hc
      omega
  · split
    · rename_i hc
      simp only [Bool.and_eq_true, decide_eq_true_eq, beq_iff_eq] at hc
      omega
    · rename_i hc
      simp only [Bool.and_eq_true, decide_eq_true_eq, beq_iff_eq, not_and] at hc
      omega

theorem offers_iff_avail {S C : Nat} {n : Node} (inv : NodeInv S C n) {lim : Nat} {slot : Slot}
    {t' : Tape} (hrun : runForUndefined n.prog n.state n.tape lim = (.undefined slot, t'))
    (i : Instr) : n.Offers (S, C) slot i ↔ Avail S C n.prog i := by
  unfold Node.Offers Avail
  obtain ⟨g1, g2⟩ := grow_eq inv hrun
  simp only [g1, g2]
  omega

theorem nodeInv_child {S C : Nat} {n : Node} (inv : NodeInv S C n) {lim : Nat} {slot : Slot}
    {t' : Tape} (hrun : runForUndefined n.prog n.state n.tape lim = (.undefined slot, t'))
    {i : Instr} (hoff : n.Offers (S, C) slot i) : NodeInv S C (n.child (S, C) slot t' i) := by
  obtain ⟨g1, g2⟩ := grow_eq inv hrun
  have hnone := run_undefined_get hrun
  obtain ⟨M, K, h1, h2, h3, h4, h5, h6, h7, h8⟩ := inv
  obtain ⟨ht', hs⟩ := run_le h7 h8 hrun
  obtain ⟨hs1, hs2⟩ := hs slot rfl
  refine ⟨maxState n.prog, maxColor n.prog, g1, g2, ?_, ?_, hoff.1, hoff.2, ?_, ?_⟩
  · simp only [Node.child, maxState_insert i hnone]; omega
  · simp only [Node.child, maxColor_insert i hnone]; omega
  · simp only [Node.child, maxState_insert i hnone]; omega
  · simp only [Node.child, maxColor_insert i hnone]
    exact ht'.mono (by omega)

/-! ### counter process = declarative process -/

theorem procFrom_iff_specFrom {S C lim : Nat} {n : Node} (inv : NodeInv S C n) (k : Nat)
    (r : Prog) :
    ProcFrom (S, C) lim n k r ↔ SpecFrom S C lim n.prog n.state n.tape k r := by
  constructor
  · intro h
    induction h with
    | stop hno => exact .stop hno
    | last hrun hoff => exact .last hrun ((offers_iff_avail inv hrun _).mp hoff)
    | fill hrun hoff _ ih =>
      exact .fill hrun ((offers_iff_avail inv hrun _).mp hoff) (ih (nodeInv_child inv hrun hoff))
  · intro h
    generalize hp : n.prog = p at h
    generalize hq : n.state = q at h
    generalize ht : n.tape = t at h
    induction h generalizing n with
    | stop hno =>
      subst hp hq ht
      exact .stop hno
    | last hrun hav =>
      subst hp hq ht
      exact .last hrun ((offers_iff_avail inv hrun _).mpr hav)
    | @fill _ _ _ _ slot t' i _ hrun hav _ ih =>
      subst hp hq ht
      have hoff := (offers_iff_avail inv hrun _).mpr hav
      exact .fill hrun hoff (ih (n := n.child (S, C) slot t' i) (nodeInv_child inv hrun hoff)
        rfl rfl rfl)

theorem procEmits_iff_specEmits (S C : Nat) (halt : Bool) (lim : Nat) (p : Prog) :
    ProcEmits S C halt lim p ↔ SpecEmits S C halt lim p := by
  unfold ProcEmits SpecEmits SpecRaw
  have hav : ∀ i : Instr, (i.2.2 < min 3 S ∧ i.1 < min 3 C) ↔ Avail S C prog0 i := by
    intro i
    unfold Avail
    have h1 : maxState prog0 = 1 := by decide
    have h2 : maxColor prog0 = 1 := by decide
    rw [h1, h2]; omega
  constructor
  · rintro ⟨⟨i, hi, h⟩, hu⟩
    exact ⟨⟨i, (hav i).mp hi, (procFrom_iff_specFrom (nodeInv_root hi) _ _).mp h⟩, hu⟩
  · rintro ⟨⟨i, hi, h⟩, hu⟩
    exact ⟨⟨i, (hav i).mpr hi,
      (procFrom_iff_specFrom (nodeInv_root ((hav i).mpr hi)) _ _).mpr h⟩, hu⟩

/-- **tree_complete_sound** -/
theorem tree_complete_sound' (S C : Nat) (halt : Bool) (lim : Nat) (l : List Prog)
    (h : buildTreeSeq S C halt lim = .ok l) (p : Prog) :
    p ∈ l ↔ SpecEmits S C halt lim p :=
  (tree_proc' S C halt lim l h p).trans (procEmits_iff_specEmits S C halt lim p)

end BB.Tree
