/-
C06 support, part 1: the abstraction between an L0 configuration and a closed-position-set
`Config` (definitions used by the statements of BB/Props/C06.lean), and the cell-level meaning of
`Span.push` / `Span.pull`, `addSpan` / `getColors` / `hasColor`.
-/
import BB.Model.Cps
import BB.Lemmas.StepRefine

namespace BB.Cps

open BB

/-! ### Definitions that are part of the statements -/

/-- the `n` cells of a half-tape from offset `k` on (offset 0 = the cell next to the head) -/
def cellsFrom (l : List Nat) : Nat → Nat → List Nat
  | _, 0 => []
  | k, n + 1 => cellAt l k :: cellsFrom l (k + 1) n

/-- the window of `rad` cells of a half-tape that starts at offset `k`, as a `Span`:
    the first `rad - 1` cells and the last one -/
def windowAt (rad : Nat) (l : List Nat) (k : Nat) : Span :=
  ⟨cellsFrom l k (rad - 1), cellAt l (k + (rad - 1))⟩

/-- the local view of radius `rad` of an L0 configuration: state, scanned cell and the `rad`
    cells next to the head on each side -/
def viewOf (rad : Nat) (c : Cfg) : Config :=
  ⟨c.state, ⟨c.scan, windowAt rad c.left 0, windowAt rad c.right 0⟩⟩

/-- the triple (`seen`, `lspans`, `rspans`) describes the L0 configuration `c`: its local view is
    in `seen`, and every window of `rad` cells further out (offset ≥ 1) on the left / right is
    licensed by `lspans` / `rspans` (its last colour is registered for its first `rad - 1` cells). -/
def Covers (rad : Nat) (seen : List Config) (lspans rspans : Spans) (c : Cfg) : Prop :=
  viewOf rad c ∈ seen ∧
    ∀ k, 1 ≤ k → hasColor lspans (windowAt rad c.left k) = true ∧
      hasColor rspans (windowAt rad c.right k) = true

/-- the L0 event of a goal never happens on the run from the blank tape -/
def Goal.Never (g : Goal) (p : ProgF) : Prop :=
  match g with
  | .halt => ¬ Halts p
  | .blank => ¬ ∃ n, ErasesAt p n
  | .spinout => ¬ SpinsOut p

/-- every next-state and every printed colour of an instruction lies inside the table size that
    `Prog.params` infers from the defined keys alone (the hypothesis under which the unrepaired
    `halt_slots` is complete; finding F2). -/
def paramsCover (p : Prog) : Bool :=
  p.all fun kv => decide (kv.2.2.2 ≤ p.params.1) && decide (kv.2.1 ≤ p.params.2)

/-- the work-list order only permutes (or at least neither drops nor invents) configurations -/
def OrderOK (order : List Config → List Config) : Prop := ∀ l c, c ∈ order l ↔ c ∈ l

/-! ### cells -/

theorem cellsFrom_length (l : List Nat) (k n : Nat) : (cellsFrom l k n).length = n := by
  induction n generalizing k with
  | zero => rfl
  | succ n ih => simp [cellsFrom, ih]

theorem cellsFrom_tail (l : List Nat) (k n : Nat) : cellsFrom l.tail k n = cellsFrom l (k + 1) n := by
  induction n generalizing k with
  | zero => rfl
  | succ n ih => simp [cellsFrom, ih, cellAt_tail]

theorem cellsFrom_cons (x : Nat) (l : List Nat) (k n : Nat) :
    cellsFrom (x :: l) (k + 1) n = cellsFrom l k n := by
  induction n generalizing k with
  | zero => rfl
  | succ n ih => simp [cellsFrom, ih]

theorem cellsFrom_succ_last (l : List Nat) (k n : Nat) :
    cellsFrom l k (n + 1) = cellsFrom l k n ++ [cellAt l (k + n)] := by
  induction n generalizing k with
  | zero => simp [cellsFrom]
  | succ n ih =>
    rw [cellsFrom, ih (k + 1)]
    have : k + 1 + n = k + (n + 1) := by omega
    simp [cellsFrom, this]

theorem cellsFrom_nil (k n : Nat) : cellsFrom [] k n = List.replicate n 0 := by
  induction n generalizing k with
  | zero => rfl
  | succ n ih => simp [cellsFrom, ih, List.replicate_succ]

theorem cellsFrom_all_zero {l : List Nat} (h : AllZero l) (k n : Nat) :
    (cellsFrom l k n).all (· == 0) = true := by
  induction n generalizing k with
  | zero => rfl
  | succ n ih => simp [cellsFrom, h k, ih]

theorem windowAt_tail (rad : Nat) (l : List Nat) (k : Nat) :
    windowAt rad l.tail k = windowAt rad l (k + 1) := by
  simp only [windowAt, cellsFrom_tail, cellAt_tail]
  congr 1; congr 1; omega

theorem windowAt_cons (rad x : Nat) (l : List Nat) (k : Nat) :
    windowAt rad (x :: l) (k + 1) = windowAt rad l k := by
  simp only [windowAt, cellsFrom_cons]
  have : k + 1 + (rad - 1) = (k + (rad - 1)) + 1 := by omega
  rw [this, cellAt_cons_succ]

theorem windowAt_nil (rad k : Nat) : windowAt rad [] k = Span.init rad := by
  simp [windowAt, Span.init, cellsFrom_nil]

theorem viewOf_init (rad : Nat) : viewOf rad Cfg.init = Config.init rad := by
  simp [viewOf, Cfg.init, Config.init, Tape.init, windowAt_nil]

/-! ### push / pull -/

theorem splitLast_of_append (x : Nat) (ys zs : List Nat) (z : Nat) (h : x :: ys = zs ++ [z]) :
    splitLast x ys = (zs, z) := by
  induction ys generalizing x zs with
  | nil =>
    cases zs with
    | nil => simp at h; simp [splitLast, h]
    | cons w ws => cases ws <;> simp at h
  | cons y ys ih =>
    cases zs with
    | nil => simp at h
    | cons w ws =>
      simp only [List.cons_append, List.cons.injEq] at h
      obtain ⟨rfl, h2⟩ := h
      simp [splitLast, ih y ws h2]

/-- pushing onto the view of a half-tape gives the view of the extended half-tape -/
theorem push_windowAt (rad : Nat) (l : List Nat) (x : Nat) :
    (windowAt rad l 0).push x = windowAt rad (x :: l) 0 := by
  simp only [Span.push, windowAt]
  have h : x :: cellsFrom l 0 (rad - 1) =
      cellsFrom (x :: l) 0 (rad - 1) ++ [cellAt (x :: l) (0 + (rad - 1))] := by
    rw [← cellsFrom_succ_last, cellsFrom, cellsFrom_cons]; simp
  rw [splitLast_of_append _ _ _ _ h]

/-- pulling from the view of a half-tape: the scanned cell and the first `rad - 1` cells of the
    view of the rest -/
theorem pull_windowAt (rad : Nat) (l : List Nat) :
    ((windowAt rad l 0).pull).1 = l.headD 0 ∧
    ((windowAt rad l 0).pull).2.span = cellsFrom l 1 (rad - 1) := by
  simp only [Span.pull, windowAt]
  cases hr : rad - 1 with
  | zero => cases l <;> simp [cellsFrom]
  | succ n =>
    simp only [cellsFrom, Nat.zero_add]
    refine ⟨(cellAt_headD l).symm, ?_⟩
    have : cellAt l (n + 1) = cellAt l (1 + n) := by rw [Nat.add_comm]
    rw [this, ← cellsFrom_succ_last]
    simp [cellsFrom]

theorem pull_windowAt_last (rad : Nat) (l : List Nat) (color : Nat)
    (hc : color = cellAt l (1 + (rad - 1))) :
    { ((windowAt rad l 0).pull).2 with last := color } = windowAt rad l.tail 0 := by
  have h := (pull_windowAt rad l).2
  rw [windowAt_tail]
  show (⟨((windowAt rad l 0).pull).2.span, color⟩ : Span) = _
  rw [h, hc]
  simp [windowAt]

/-! ### sortNat, hasColor, getColors, addSpan -/

theorem mem_insertSorted (x y : Nat) (l : List Nat) : y ∈ insertSorted x l ↔ y = x ∨ y ∈ l := by
  induction l with
  | nil => simp [insertSorted]
  | cons z zs ih =>
    simp only [insertSorted]
    split
    · simp
    · simp only [List.mem_cons, ih]
      constructor
      · rintro (h | h | h) <;> simp [h]
      · rintro (h | h | h) <;> simp [h]

theorem mem_sortNat (y : Nat) (l : List Nat) : y ∈ sortNat l ↔ y ∈ l := by
  induction l with
  | nil => simp [sortNat]
  | cons z zs ih => simp [sortNat, mem_insertSorted, ih]

theorem hasColor_iff (m : Spans) (s : Span) :
    hasColor m s = true ↔ ∃ colors, m.find? s.span = some colors ∧ s.last ∈ colors := by
  simp only [hasColor]
  split
  · rename_i colors h; simp [h]
  · rename_i h; simp [h]

/-- a licensed window's last colour is among the colours offered for its first `rad - 1` cells -/
theorem getColors_of_hasColor {m : Spans} {s : Span} (h : hasColor m s = true) (t : Span)
    (ht : t.span = s.span) : ∃ colors, getColors m t = some colors ∧ s.last ∈ colors := by
  obtain ⟨colors, h1, h2⟩ := (hasColor_iff m s).1 h
  refine ⟨sortNat colors, ?_, (mem_sortNat _ _).2 h2⟩
  simp [getColors, ht, h1]

theorem addSpan_of_hasColor {m : Spans} {s : Span} (h : hasColor m s = true) : addSpan m s = m := by
  obtain ⟨colors, h1, h2⟩ := (hasColor_iff m s).1 h
  simp [addSpan, h1, h2]

theorem hasColor_addSpan_self (m : Spans) (s : Span) : hasColor (addSpan m s) s = true := by
  simp only [addSpan]
  split
  · rename_i colors h
    split
    · rename_i hc
      exact (hasColor_iff m s).2 ⟨colors, h, by simpa using hc⟩
    · exact (hasColor_iff _ s).2 ⟨colors ++ [s.last], by simp [TMap.find?_insert], by simp⟩
  · exact (hasColor_iff _ s).2 ⟨[s.last], by simp [TMap.find?_insert], by simp⟩

theorem hasColor_addSpan_mono {m : Spans} {t : Span} (h : hasColor m t = true) (s : Span) :
    hasColor (addSpan m s) t = true := by
  obtain ⟨colors, h1, h2⟩ := (hasColor_iff m t).1 h
  simp only [addSpan]
  split
  · rename_i cs hs
    split
    · exact h
    · apply (hasColor_iff _ t).2
      rw [TMap.find?_insert]
      by_cases he : t.span = s.span
      · rw [he] at h1; rw [hs] at h1; cases h1
        exact ⟨_, if_pos he, by simp [h2]⟩
      · exact ⟨colors, by rw [if_neg he]; exact h1, h2⟩
  · rename_i hs
    apply (hasColor_iff _ t).2
    rw [TMap.find?_insert]
    by_cases he : t.span = s.span
    · rw [he] at h1; rw [hs] at h1; cases h1
    · exact ⟨colors, by rw [if_neg he]; exact h1, h2⟩

end BB.Cps
