/-
C08 / C09, part 3: the `'step` loop (`simLoop`) over a base program in terms of `iterStep`;
what its three outcomes mean in L0; a pigeonhole lemma; "`fuel` iterations without leaving and
`fuel ≥` the number of window configurations ⇒ the machine never leaves".
-/
import BB.Lemmas.MacroSim2

namespace BB.MacroSim

open BB BB.Macros

/-! ### simLoop through iterStep -/

theorem simLoop_succ (p : ProgF) (fuel q : Nat) (w : Win) :
    simLoop (pureGet (innerOf p)) (fuel + 1) () q w =
      match iterStep p q w with
      | .halt => .ok (none, ())
      | .exit q' d t => .ok (some (q', (d, t)), ())
      | .cont q' w' => simLoop (pureGet (innerOf p)) fuel () q' w' := by
  simp only [simLoop, pureGet, innerOf, iterStep]
  cases hp : p q w.scan with
  | none => rfl
  | some i =>
    simp only
    cases hs : simStep q w i with
    | exit cfg => obtain ⟨q', d, t⟩ := cfg; rfl
    | cont q' w' => rfl

/-- the configuration at the start of iteration `i` (if the loop gets there) -/
def sweepIter (p : ProgF) : Nat → Nat → Win → Option (Nat × Win)
  | 0, q, w => some (q, w)
  | i + 1, q, w =>
    match iterStep p q w with
    | .cont q' w' => sweepIter p i q' w'
    | _ => none

theorem simLoop_no_error (p : ProgF) (fuel q : Nat) (w : Win) (e : Err) :
    simLoop (pureGet (innerOf p)) fuel () q w ≠ .error e := by
  induction fuel generalizing q w with
  | zero => simp [simLoop]
  | succ fuel ih =>
    rw [simLoop_succ]
    cases iterStep p q w with
    | halt => simp
    | exit q' d t => simp
    | cont q' w' => exact ih q' w'

/-- the loop leaves the window: `≥ 1` base steps in the window, then out -/
theorem simLoop_some {p : ProgF} {S C k : Nat} (hcl : Closed p S C) (oL oR : List Nat)
    {fuel q : Nat} {w : Win} (hv : Valid S C k q w) {q' : Nat} {d : Bool} {t : MTape} {u : Unit}
    (h : simLoop (pureGet (innerOf p)) fuel () q w = .ok (some (q', (d, t)), u)) :
    ∃ n, 1 ≤ n ∧ q' < S ∧ t.length = k ∧ (∀ x ∈ t, x < C) ∧
      RunsIn p k oL oR n (embed q w oL oR) (exitCfg q' d t oL oR) := by
  induction fuel generalizing q w with
  | zero => simp [simLoop] at h
  | succ fuel ih =>
    rw [simLoop_succ] at h
    obtain ⟨n, hrun⟩ := iterStep_LRun p q w
    obtain ⟨hn, hpost⟩ := LRun_post hcl oL oR hrun hv
    cases hit : iterStep p q w with
    | halt => rw [hit] at h; simp at h
    | exit q1 d1 t1 =>
      rw [hit] at h hpost
      simp only [Except.ok.injEq, Prod.mk.injEq, Option.some.injEq] at h
      obtain ⟨⟨rfl, rfl, rfl⟩, _⟩ := h
      exact ⟨n, hn, hpost⟩
    | cont q1 w1 =>
      rw [hit] at h hpost
      obtain ⟨hv1, hr1⟩ := hpost
      obtain ⟨m, hm, h1, h2, h3, hr2⟩ := ih hv1 h
      exact ⟨n + m, by omega, h1, h2, h3, hr1.trans hr2⟩

/-- the loop answers `None`: an undefined instruction in some iteration, or the fuel ran out -/
theorem simLoop_none {p : ProgF} {fuel q : Nat} {w : Win} {u : Unit}
    (h : simLoop (pureGet (innerOf p)) fuel () q w = .ok (none, u)) :
    (∃ i qi wi, i < fuel ∧ sweepIter p i q w = some (qi, wi) ∧ iterStep p qi wi = .halt) ∨
    (∃ x, sweepIter p fuel q w = some x) := by
  induction fuel generalizing q w with
  | zero => exact .inr ⟨(q, w), rfl⟩
  | succ fuel ih =>
    rw [simLoop_succ] at h
    cases hit : iterStep p q w with
    | halt => exact .inl ⟨0, q, w, by omega, rfl, hit⟩
    | exit q1 d1 t1 => rw [hit] at h; simp at h
    | cont q1 w1 =>
      rw [hit] at h
      rcases ih h with ⟨i, qi, wi, hi, h1, h2⟩ | ⟨x, hx⟩
      · exact .inl ⟨i + 1, qi, wi, by omega, by simp only [sweepIter, hit]; exact h1, h2⟩
      · exact .inr ⟨x, by simp only [sweepIter, hit]; exact hx⟩

/-- converse bookkeeping: what `simLoop` answers, from `sweepIter` -/
theorem simLoop_of_halt {p : ProgF} {fuel q : Nat} {w : Win} {i qi : Nat} {wi : Win}
    (hi : i < fuel) (h1 : sweepIter p i q w = some (qi, wi)) (h2 : iterStep p qi wi = .halt) :
    simLoop (pureGet (innerOf p)) fuel () q w = .ok (none, ()) := by
  induction i generalizing fuel q w with
  | zero =>
    obtain ⟨f, rfl⟩ : ∃ f, fuel = f + 1 := ⟨fuel - 1, by omega⟩
    simp only [sweepIter, Option.some.injEq, Prod.mk.injEq] at h1
    obtain ⟨rfl, rfl⟩ := h1
    rw [simLoop_succ, h2]
  | succ i ih =>
    obtain ⟨f, rfl⟩ : ∃ f, fuel = f + 1 := ⟨fuel - 1, by omega⟩
    rw [simLoop_succ]
    simp only [sweepIter] at h1
    cases hit : iterStep p q w with
    | halt => rfl
    | exit q1 d1 t1 => rw [hit] at h1; cases h1
    | cont q1 w1 =>
      rw [hit] at h1
      exact ih (by omega) h1

theorem sweepIter_add (p : ProgF) (i j q : Nat) (w : Win) :
    sweepIter p (i + j) q w = (sweepIter p i q w).bind fun x => sweepIter p j x.1 x.2 := by
  induction i generalizing q w with
  | zero => simp [sweepIter]
  | succ i ih =>
    have : i + 1 + j = (i + j) + 1 := by omega
    rw [this]
    simp only [sweepIter]
    cases iterStep p q w with
    | halt => rfl
    | exit q1 d1 t1 => rfl
    | cont q1 w1 => exact ih q1 w1

theorem sweepIter_post {p : ProgF} {S C k : Nat} (hcl : Closed p S C) (oL oR : List Nat)
    {i q : Nat} {w : Win} (hv : Valid S C k q w) {qi : Nat} {wi : Win}
    (h : sweepIter p i q w = some (qi, wi)) :
    Valid S C k qi wi ∧ ∃ n, i ≤ n ∧ RunsIn p k oL oR n (embed q w oL oR) (embed qi wi oL oR) := by
  induction i generalizing q w with
  | zero =>
    simp only [sweepIter, Option.some.injEq, Prod.mk.injEq] at h
    obtain ⟨rfl, rfl⟩ := h
    exact ⟨hv, 0, Nat.le_refl _, RunsIn.zero _ _ _ _ _⟩
  | succ i ih =>
    simp only [sweepIter] at h
    obtain ⟨n, hrun⟩ := iterStep_LRun p q w
    obtain ⟨hn, hpost⟩ := LRun_post hcl oL oR hrun hv
    cases hit : iterStep p q w with
    | halt => rw [hit] at h; cases h
    | exit q1 d1 t1 => rw [hit] at h; cases h
    | cont q1 w1 =>
      rw [hit] at h hpost
      obtain ⟨hv1, hr1⟩ := hpost
      obtain ⟨hvi, m, hm, hr2⟩ := ih hv1 h
      exact ⟨hvi, n + m, by omega, hr1.trans hr2⟩

/-- an undefined instruction met in some iteration: the base machine halts inside the window -/
theorem haltsInside_of_sweepIter {p : ProgF} {S C k : Nat} (hcl : Closed p S C)
    (oL oR : List Nat) {i q : Nat} {w : Win} (hv : Valid S C k q w) {qi : Nat} {wi : Win}
    (h1 : sweepIter p i q w = some (qi, wi)) (h2 : iterStep p qi wi = .halt) :
    HaltsInside p k oL oR (embed q w oL oR) := by
  obtain ⟨hvi, n, _, hr⟩ := sweepIter_post hcl oL oR hv h1
  obtain ⟨m, hrun⟩ := iterStep_LRun p qi wi
  obtain ⟨_, hpost⟩ := LRun_post hcl oL oR hrun hvi
  rw [h2] at hpost
  obtain ⟨m', c', h3, h4, h5⟩ := hpost
  exact ⟨n + m', c', hr.trans h3, h4, h5⟩

/-! ### never leaving -/

theorem neverLeaves_of_cycle {p : ProgF} {k : Nat} {oL oR : List Nat} {n : Nat} {c : Cfg}
    (hn : 1 ≤ n) (h : RunsIn p k oL oR n c c) : NeverLeaves p k oL oR c := by
  intro m
  induction m using Nat.strongRecOn with
  | _ m ih =>
    by_cases hm : m < n
    · exact h.2 m hm
    · obtain ⟨j, rfl⟩ : ∃ j, m = n + j := ⟨m - n, by omega⟩
      obtain ⟨c', h1, h2⟩ := ih j (by omega)
      exact ⟨c', stepN_add_of_eq h.1 h1, h2⟩

theorem neverLeaves_of_prefix {p : ProgF} {k : Nat} {oL oR : List Nat} {n : Nat} {c0 c : Cfg}
    (h : RunsIn p k oL oR n c0 c) (hc : NeverLeaves p k oL oR c) : NeverLeaves p k oL oR c0 := by
  intro m
  by_cases hm : m < n
  · exact h.2 m hm
  · obtain ⟨j, rfl⟩ : ∃ j, m = n + j := ⟨m - n, by omega⟩
    obtain ⟨c', h1, h2⟩ := hc j
    exact ⟨c', stepN_add_of_eq h.1 h1, h2⟩

/-! ### pigeonhole -/

theorem php : ∀ (N : Nat) (f : Nat → Nat), (∀ i, i ≤ N → f i < N) →
    ∃ i j, i < j ∧ j ≤ N ∧ f i = f j := by
  intro N
  induction N with
  | zero => intro f h; exact absurd (h 0 (Nat.le_refl _)) (Nat.not_lt_zero _)
  | succ N ih =>
    intro f h
    by_cases hex : ∃ i, i ≤ N ∧ f i = f (N + 1)
    · obtain ⟨i, hi, he⟩ := hex
      exact ⟨i, N + 1, by omega, Nat.le_refl _, he⟩
    · have hne : ∀ i, i ≤ N → f i ≠ f (N + 1) := fun i hi he => hex ⟨i, hi, he⟩
      have hv := h (N + 1) (Nat.le_refl _)
      obtain ⟨i, j, hij, hj, he⟩ :=
        ih (fun i => if f i < f (N + 1) then f i else f i - 1) (by
          intro i hi
          have h1 := h i (by omega)
          have h2 := hne i hi
          show (if f i < f (N + 1) then f i else f i - 1) < N
          split <;> omega)
      refine ⟨i, j, hij, by omega, ?_⟩
      have h1 := hne i (by omega)
      have h2 := hne j hj
      replace he : (if f i < f (N + 1) then f i else f i - 1) =
          (if f j < f (N + 1) then f j else f j - 1) := he
      split at he <;> split at he <;> omega

/-! ### counting window configurations -/

/-- injective numbering of the window configurations `(q, w)` with `q < S`, `k` cells `< C` -/
def code (C k : Nat) (x : Nat × Win) : Nat :=
  (x.1 * k + x.2.left.length) * C ^ k + encode C x.2.toTape

theorem valid_toTape {S C k q : Nat} {w : Win} (hv : Valid S C k q w) :
    w.toTape.length = k ∧ ∀ x ∈ w.toTape, x < C := by
  obtain ⟨_, hlen, hl, hs, hr⟩ := hv
  refine ⟨by simp [Win.toTape]; omega, ?_⟩
  intro x hx
  simp only [Win.toTape, List.mem_append, List.mem_reverse, List.mem_cons] at hx
  rcases hx with hx | rfl | hx
  · exact hl x hx
  · exact hs
  · exact hr x hx

theorem code_lt {S C k q : Nat} {w : Win} (hv : Valid S C k q w) :
    code C k (q, w) < S * k * C ^ k := by
  obtain ⟨hlen, hlt⟩ := valid_toTape hv
  have he : encode C w.toTape < C ^ k := by
    have := encode_lt hlt
    rwa [hlen] at this
  have h1 : q * k + w.left.length + 1 ≤ S * k := by
    have : (q + 1) * k ≤ S * k := Nat.mul_le_mul_right k hv.hq
    rw [Nat.add_mul, Nat.one_mul] at this
    have := hv.hlen
    omega
  have h2 : (q * k + w.left.length + 1) * C ^ k ≤ S * k * C ^ k := Nat.mul_le_mul_right _ h1
  rw [Nat.add_mul, Nat.one_mul] at h2
  simp only [code]
  omega

theorem mul_add_inj {M a b a' b' : Nat} (hb : b < M) (hb' : b' < M)
    (h : a * M + b = a' * M + b') : a = a' ∧ b = b' := by
  have hM : 0 < M := by omega
  have h1 : (a * M + b) / M = a := by
    rw [Nat.mul_comm, Nat.mul_add_div hM, Nat.div_eq_of_lt hb, Nat.add_zero]
  have h2 : (a' * M + b') / M = a' := by
    rw [Nat.mul_comm, Nat.mul_add_div hM, Nat.div_eq_of_lt hb', Nat.add_zero]
  have : a = a' := by rw [← h1, ← h2, h]
  subst this
  exact ⟨rfl, by omega⟩

theorem code_inj {S C k q q' : Nat} {w w' : Win} (hv : Valid S C k q w) (hv' : Valid S C k q' w')
    (h : code C k (q, w) = code C k (q', w')) : q = q' ∧ w = w' := by
  obtain ⟨hlen, hlt⟩ := valid_toTape hv
  obtain ⟨hlen', hlt'⟩ := valid_toTape hv'
  have he : encode C w.toTape < C ^ k := by
    have := encode_lt hlt
    rwa [hlen] at this
  have he' : encode C w'.toTape < C ^ k := by
    have := encode_lt hlt'
    rwa [hlen'] at this
  simp only [code] at h
  obtain ⟨h1, h2⟩ := mul_add_inj he he' h
  obtain ⟨h3, h4⟩ := mul_add_inj (by have := hv.hlen; omega) (by have := hv'.hlen; omega) h1
  have h5 : w.toTape = w'.toTape := by
    rw [← decode_encode hlen hlt, ← decode_encode hlen' hlt', h2]
  refine ⟨h3, ?_⟩
  obtain ⟨l, s, r⟩ := w
  obtain ⟨l', s', r'⟩ := w'
  simp only [Win.toTape] at h5
  simp only at h4
  obtain ⟨h6, h7⟩ := List.append_inj h5 (by simpa using h4)
  simp only [List.reverse_inj] at h6
  simp only [List.cons.injEq] at h7
  obtain ⟨h8, h9⟩ := h7
  subst h6 h8 h9
  rfl

/-- **the pigeonhole step**: if the loop is still inside after `S * k * C ^ k` iterations, the
    base machine never leaves the window. -/
theorem neverLeaves_of_fuel {p : ProgF} {S C k : Nat} (hcl : Closed p S C) (oL oR : List Nat)
    {q : Nat} {w : Win} (hv : Valid S C k q w) {fuel : Nat} (hf : S * k * C ^ k ≤ fuel)
    {x : Nat × Win} (h : sweepIter p fuel q w = some x) :
    NeverLeaves p k oL oR (embed q w oL oR) := by
  -- every earlier iteration start exists
  have hex : ∀ i, i ≤ fuel → ∃ y, sweepIter p i q w = some y := by
    intro i hi
    obtain ⟨j, rfl⟩ : ∃ j, fuel = i + j := ⟨fuel - i, by omega⟩
    rw [sweepIter_add] at h
    cases hs : sweepIter p i q w with
    | none => rw [hs] at h; cases h
    | some y => exact ⟨y, rfl⟩
  let f : Nat → Nat × Win := fun i => (sweepIter p i q w).getD (q, w)
  have hf' : ∀ i, i ≤ fuel → sweepIter p i q w = some (f i) := by
    intro i hi
    obtain ⟨y, hy⟩ := hex i hi
    simp only [f, hy, Option.getD_some]
  have hval : ∀ i, i ≤ fuel → Valid S C k (f i).1 (f i).2 := fun i hi =>
    (sweepIter_post hcl oL oR hv (hf' i hi)).1
  obtain ⟨i, j, hij, hj, he⟩ := php (S * k * C ^ k) (fun i => code C k (f i))
    (fun i hi => code_lt (hval i (by omega)))
  have hfi : f i = f j := by
    obtain ⟨h1, h2⟩ := code_inj (hval i (by omega)) (hval j (by omega)) he
    exact Prod.ext h1 h2
  -- a cycle from `f i`
  have hcyc : sweepIter p (j - i) (f i).1 (f i).2 = some (f i) := by
    have h1 := hf' j (by omega)
    have : j = i + (j - i) := by omega
    rw [this, sweepIter_add, hf' i (by omega)] at h1
    simp only [Option.bind_some] at h1
    rw [h1, hfi]
    congr 2
    omega
  obtain ⟨_, n, hn, hr⟩ := sweepIter_post hcl oL oR (hval i (by omega)) hcyc
  obtain ⟨_, n0, _, hr0⟩ := sweepIter_post hcl oL oR hv (hf' i (by omega))
  exact neverLeaves_of_prefix hr0 (neverLeaves_of_cycle (by omega) hr)

end BB.MacroSim
