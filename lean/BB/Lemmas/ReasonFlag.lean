/-
C04 support, part 11: for a functional table and coherent targets (halt, spin-out) the
instrumented flag is always `true`: a pruned blank tape has the same spans as the kept blank tape
of its state.  Hence the soundness theorems hold without the side condition.
-/
import BB.Lemmas.ReasonInv
import BB.Lemmas.ReasonConv

namespace BB.Reason

open BB

section
variable (p : Prog) (targets : Configs)

/-- the tape satisfies `J`, and either contains an indefinite block or has a lineage of depth `D` -/
def CfgOK (D : Nat) (st : Nat) (t : Backstepper) : Prop :=
  J t ∧ (HasIndef t ∨ Lineage p targets D st t)

def CI (D : Nat) (configs : Configs) : Prop := ∀ X ∈ configs, CfgOK p targets D X.state X.tape

def KI (D : Nat) (kept : Kept) : Prop :=
  ∀ w ∈ kept, w.2.blank = true ∧ ∃ d, d ≤ D ∧ Lineage p targets d w.1 w.2

/-- a validated instruction is a real instruction whose printed colour fits the tape -/
def InstrOK (st : Nat) (t : Backstepper) (i : Instr) : Prop :=
  ∃ pr, p.get (i.2.2, i.1) = some (pr, i.2.1, st) ∧ t.checkStep i.2.1 pr = true

def VI (D : Nat) (vs : ValidatedSteps) : Prop :=
  ∀ v ∈ vs, CfgOK p targets D v.2.state v.2.tape ∧ ∀ i ∈ v.1, InstrOK p v.2.state v.2.tape i

variable {p targets}

theorem child_ok {D st : Nat} {t : Backstepper} (h : CfgOK p targets D st t) {r q : Nat} {sh : Bool}
    (hi : InstrOK p st t (r, sh, q)) (hp : t.pullsIndef sh = false) :
    CfgOK p targets (D + 1) q (t.backstep sh r) := by
  obtain ⟨pr, hget, hck⟩ := hi
  refine ⟨J_backstep h.1 hp r, ?_⟩
  rcases h.2 with h2 | h2
  · exact Or.inl (HasIndef_backstep h2 hp r)
  · exact Or.inr (Lineage.step h2 hget hck hp)

theorem child_lineage {D st : Nat} {t : Backstepper} (h : CfgOK p targets D st t) {r q : Nat}
    {sh : Bool} (hi : InstrOK p st t (r, sh, q)) (hp : t.pullsIndef sh = false)
    (hb : (t.backstep sh r).blank = true) : Lineage p targets (D + 1) q (t.backstep sh r) := by
  obtain ⟨hj, h2⟩ := child_ok h hi hp
  rcases h2 with h2 | h2
  · exact absurd h2 (blank_noIndef hb hj)
  · exact h2

theorem KI.mono {D D' : Nat} {kept : Kept} (h : KI p targets D kept) (hle : D ≤ D') :
    KI p targets D' kept := fun w hw => by
  obtain ⟨hb, d, hd, hl⟩ := h w hw
  exact ⟨hb, d, by omega, hl⟩

theorem stepInstrsI_flag (hT : TargetsCoherent p targets) {D : Nat} (config : Config)
    (hc : CfgOK p targets D config.state config.tape) :
    ∀ (instrs : List Instr) (kept : Kept) (stepped : Configs) (kept' : Kept) (flag : Bool),
    (∀ i ∈ instrs, InstrOK p config.state config.tape i ∧ config.tape.pullsIndef i.2.1 = false) →
    KI p targets (D + 1) kept →
    stepInstrsI config instrs kept = .ok (stepped, kept', flag) →
    flag = true ∧ CI p targets (D + 1) stepped ∧ KI p targets (D + 1) kept' := by
  intro instrs
  induction instrs with
  | nil =>
    intro kept stepped kept' flag _ hk h
    simp only [stepInstrsI, Except.ok.injEq, Prod.mk.injEq] at h
    obtain ⟨rfl, rfl, rfl⟩ := h
    exact ⟨rfl, (fun _ h => by cases h), hk⟩
  | cons i rest ih =>
    intro kept stepped kept' flag hi hk h
    obtain ⟨color, shift, state⟩ := i
    obtain ⟨hio, hpi⟩ := hi (color, shift, state) List.mem_cons_self
    have hrest : ∀ i ∈ rest, InstrOK p config.state config.tape i ∧
        config.tape.pullsIndef i.2.1 = false := fun i h => hi i (List.mem_cons_of_mem _ h)
    simp only at hpi
    simp only [stepInstrsI] at h
    split at h
    · cases h
    · split at h
      · rename_i hprune
        simp only [Bool.and_eq_true] at hprune
        cases hr : stepInstrsI config rest kept with
        | error e => simp only [hr] at h; cases h
        | ok res =>
          obtain ⟨s, k, f⟩ := res
          simp only [hr, Except.ok.injEq, Prod.mk.injEq] at h
          obtain ⟨rfl, rfl, rfl⟩ := h
          obtain ⟨hf, hci, hki⟩ := ih kept s k f hrest hk hr
          refine ⟨?_, hci, hki⟩
          -- the pruned tape has the spans of the kept one
          have hcont := hprune.2
          simp only [List.contains_iff_mem, List.mem_map] at hcont
          obtain ⟨w, hw, hw1⟩ := hcont
          obtain ⟨hwb, d, hd, hwl⟩ := hk w hw
          have hzl := child_lineage hc hio hpi hprune.1
          have hss := lineage_unique hT d (D + 1) state w.2 _ ⟨state, [], 0, []⟩ hd
            (by rw [← hw1]; exact hwl) hzl (gammaT_blank hwb) (gammaT_blank hprune.1)
          have : pruneOk kept state (config.tape.backstep shift color) = true := by
            simp only [pruneOk, List.any_eq_true, Bool.and_eq_true, beq_iff_eq]
            exact ⟨w, hw, hw1, blankSub_of_sameSpans hss⟩
          rw [this, hf]; rfl
      · split at h
        · cases h
        · have hk' : KI p targets (D + 1)
              (if (config.tape.backstep shift color).blank = true then
                (state, config.tape.backstep shift color) :: kept else kept) := by
            split
            · rename_i hb
              intro w hw
              rcases List.mem_cons.1 hw with rfl | hw'
              · exact ⟨hb, D + 1, Nat.le_refl _, child_lineage hc hio hpi hb⟩
              · exact hk w hw'
            · exact hk
          cases hr : stepInstrsI config rest
              (if (config.tape.backstep shift color).blank = true then
                (state, config.tape.backstep shift color) :: kept else kept) with
          | error e => simp only [hr] at h; cases h
          | ok res =>
            obtain ⟨s, k, f⟩ := res
            simp only [hr, Except.ok.injEq, Prod.mk.injEq] at h
            obtain ⟨rfl, rfl, rfl⟩ := h
            obtain ⟨hf, hci, hki⟩ := ih _ s k f hrest hk' hr
            refine ⟨hf, ?_, hki⟩
            intro Z hZ
            rcases List.mem_cons.1 hZ with rfl | hZ'
            · rw [(descendant_state_tape _ _ _).1, (descendant_state_tape _ _ _).2]
              exact child_ok hc hio hpi
            · exact hci Z hZ'

theorem stepConfigsI_flag (hT : TargetsCoherent p targets) {D : Nat} :
    ∀ (vs : ValidatedSteps) (kept : Kept) (stepped : Configs) (indefs : ValidatedSteps)
      (kept' : Kept) (flag : Bool),
    VI p targets D vs → KI p targets (D + 1) kept →
    stepConfigsI vs kept = .ok (stepped, indefs, kept', flag) →
    flag = true ∧ CI p targets (D + 1) stepped ∧ KI p targets (D + 1) kept' := by
  intro vs
  induction vs with
  | nil =>
    intro kept stepped indefs kept' flag _ hk h
    simp only [stepConfigsI, Except.ok.injEq, Prod.mk.injEq] at h
    obtain ⟨rfl, rfl, rfl, rfl⟩ := h
    exact ⟨rfl, (fun _ h => by cases h), hk⟩
  | cons v rest ih =>
    intro kept stepped indefs kept' flag hv hk h
    obtain ⟨instrs0, config⟩ := v
    simp only [stepConfigsI] at h
    cases h1 : stepInstrsI config (instrs0.filter fun i => !config.tape.pullsIndef i.2.1) kept with
    | error e => simp only [h1] at h; cases h
    | ok res1 =>
      obtain ⟨s1, k1, f1⟩ := res1
      simp only [h1] at h
      cases h2 : stepConfigsI rest k1 with
      | error e => simp only [h2] at h; cases h
      | ok res2 =>
        obtain ⟨s2, i2, k2, f2⟩ := res2
        simp only [h2, Except.ok.injEq, Prod.mk.injEq] at h
        obtain ⟨rfl, rfl, rfl, rfl⟩ := h
        obtain ⟨hcfg, hins⟩ := hv (instrs0, config) List.mem_cons_self
        have hfil : ∀ i ∈ instrs0.filter fun i => !config.tape.pullsIndef i.2.1,
            InstrOK p config.state config.tape i ∧ config.tape.pullsIndef i.2.1 = false := by
          intro i hi
          obtain ⟨hm, hp⟩ := List.mem_filter.1 hi
          exact ⟨hins i hm, by simpa using hp⟩
        obtain ⟨hf1, hc1, hk1⟩ := stepInstrsI_flag hT config hcfg _ kept s1 k1 f1 hfil hk h1
        obtain ⟨hf2, hc2, hk2⟩ := ih k1 s2 i2 k2 f2
          (fun v hv' => hv v (List.mem_cons_of_mem _ hv')) hk1 h2
        refine ⟨by rw [hf1, hf2]; rfl, ?_, hk2⟩
        intro Z hZ
        rcases List.mem_append.1 hZ with h | h
        · exact hc1 Z h
        · exact hc2 Z h

theorem getValidSteps_VI (hf : p.Functional) (f : Bool) {D : Nat} {configs : Configs}
    {vs : ValidatedSteps} (hc : CI p targets D configs)
    (hv : getValidSteps f (getEntrypoints p) configs = .ok vs) : VI p targets D vs := by
  intro v hvm
  obtain ⟨X, hX, same, diff, hg, hcase⟩ := getValidSteps_conv f _ configs vs hv v hvm
  have hreal := getEntrypoints_real p X.state same diff hg
  have hok : ∀ (t : Backstepper) (i : Instr) (pr : Nat),
      ((i.2.2, i.1), (pr, i.2.1)) ∈ same ++ diff → t.checkStep i.2.1 pr = true →
      InstrOK p X.state t i := fun t i pr hm hck =>
    ⟨pr, hf _ (hreal _ hm), hck⟩
  rcases hcase with ⟨hvx, hi⟩ | ⟨sh, r, hcs, hgi⟩
  · rw [hvx]
    refine ⟨hc X hX, fun i him => ?_⟩
    obtain ⟨pr, hm, hck⟩ := hi i him
    exact hok X.tape i pr hm hck
  · obtain ⟨steps, cfg⟩ := v
    obtain ⟨hcfg, hst⟩ := getIndef_conv hgi
    subst hcfg
    obtain ⟨_, _, h3⟩ := checkSpinout_some hcs
    have hm : (X.tape.pushSpan sh).matchesColor X.tape.scan = false := by
      cases hmm : (X.tape.pushSpan sh).matchesColor X.tape.scan with
      | false => rfl
      | true => rw [hmm] at h3; cases h3
    refine ⟨⟨J_pushIndef (hc X hX).1 hm, Or.inl (HasIndef_pushIndef _ _)⟩, fun i him => ?_⟩
    obtain ⟨pr, hmem, hck⟩ := hst i him
    have hmem' : ((i.2.2, i.1), (pr, i.2.1)) ∈ same ++ diff := by
      rcases List.mem_append.1 hmem with h | h
      · exact List.mem_append_right _ h
      · exact List.mem_append_left _ h
    exact hok _ i pr hmem' hck

theorem cantReachLoopI_flag (hf : p.Functional) (hT : TargetsCoherent p targets) (f : Bool) :
    ∀ (fuel step : Nat) (configs : Configs) (kept : Kept) (indef : ValidatedSteps),
    CI p targets step configs → KI p targets step kept →
    (cantReachLoopI f (getEntrypoints p) fuel step configs kept indef).2 = true := by
  intro fuel
  induction fuel with
  | zero => intro step configs kept indef _ _; rfl
  | succ n ih =>
    intro step configs kept indef hc hk
    simp only [cantReachLoopI]
    cases hv : getValidSteps f (getEntrypoints p) configs with
    | error e => rfl
    | ok vs =>
      simp only
      split
      · rfl
      · split
        · rfl
        · cases hs : stepConfigsI vs kept with
          | error e => rfl
          | ok r =>
            obtain ⟨c', i', k', f'⟩ := r
            simp only
            split
            · rfl
            · obtain ⟨hfl, hc', hk'⟩ := stepConfigsI_flag hT vs kept c' i' k' f'
                (getValidSteps_VI hf f hc hv) (hk.mono (Nat.le_succ _)) hs
              rw [hfl, ih _ _ _ _ hc' hk']
              rfl

theorem cantReachI_flag (hf : p.Functional) (hT : TargetsCoherent p targets)
    (hJ : ∀ X ∈ targets, J X.tape) (f : Bool) (depth : Nat) :
    (cantReachI f p depth targets).2 = true := by
  simp only [cantReachI]
  split
  · rfl
  · split
    · rfl
    · apply cantReachLoopI_flag hf hT
      · intro X hX
        have hX' := (List.mem_filter.1 hX).1
        exact ⟨hJ X hX', Or.inr (Lineage.target hX')⟩
      · intro w hw
        obtain ⟨hb, Y, hY, h1, h2⟩ := getKept_mem hw
        refine ⟨hb, 0, Nat.le_refl _, ?_⟩
        rw [← h1, ← h2]
        exact Lineage.target (List.mem_filter.1 hY).1

end

end BB.Reason
